/-
Line-protocol driver for C15.
  R <gas> <codehex> <k=v,k=v|->        run the interpreter model on the code with the committed storage
        -> ok <rethex|-> <gasLeft> <refund> <k=v,...|->   (storage: every key of the initial or written set, sorted)
         | fail <kind> | unsupported <opcode> | fuel
  B <prim> <ints...>                   one math/big primitive of ModelBig on decimal integers -> decimal result(s)
  T                                    digest of the generated table: number of valid opcodes and translated functions
-/
import YouVerif.C15.Model
import YouVerif.Common.Hex
open YouVerif.Common YouVerif.C15

def parseStore (s : String) : Option (List (Nat × Nat)) :=
  if s == "-" then some [] else
  (s.splitOn ",").mapM fun kv =>
    match kv.splitOn "=" with
    | [k, v] => do some ((← k.toNat?), (← v.toNat?))
    | _ => none

def insertSorted (k : Nat) : List Nat → List Nat
  | [] => [k]
  | x :: xs => if k < x then k :: x :: xs else if k == x then x :: xs else x :: insertSorted k xs

def showFail : Fail → String
  | .invalid => "invalid" | .underflow => "underflow" | .overflow => "overflow" | .oog => "oog" | .gasOverflow => "gasoverflow"

def runLine (gas : Nat) (code : List UInt8) (orig : List (Nat × Nat)) : String :=
  match exec code.toArray gas orig with
  | .ok ret s =>
    let keys := (orig.map (·.1) ++ s.store.map (·.1)).foldl (fun acc k => insertSorted k acc) []
    let st := keys.map fun k => s!"{k}={s.current k}"
    let r := if ret.isEmpty then "-" else hexOfList ret
    s!"ok {r} {s.gas} {s.refund} {if st.isEmpty then "-" else ",".intercalate st}"
  | .fail f => "fail " ++ showFail f
  | .unsupported op => s!"unsupported {op}"
  | .outOfFuel => "fuel"

def bigPrim (p : String) (a : List Int) : String :=
  match p, a with
  | "and", [x, y] => toString (Big.and x y)
  | "or", [x, y] => toString (Big.or x y)
  | "xor", [x, y] => toString (Big.xor x y)
  | "not", [x] => toString (Big.not x)
  | "add", [x, y] => toString (Big.add x y)
  | "sub", [x, y] => toString (Big.sub x y)
  | "mul", [x, y] => toString (Big.mul x y)
  | "neg", [x] => toString (Big.neg x)
  | "abs", [x] => toString (Big.abs x)
  | "div", [x, y] => toString (Big.div x y)
  | "mod", [x, y] => toString (Big.mod x y)
  | "quo", [x, y] => toString (Big.quo x y)
  | "rem", [x, y] => toString (Big.rem x y)
  | "exp", [x, y] => toString (Big.exp x y)
  | "lsh", [x, n] => toString (Big.lsh x n)
  | "rsh", [x, n] => toString (Big.rsh x n)
  | "cmp", [x, y] => toString (Big.cmp x y)
  | "sign", [x] => toString (Big.sign x)
  | "bit", [x, i] => toString (Big.bit x i)
  | "uint64", [x] => toString (Big.uint64 x)
  | "int64", [x] => toString (Big.int64 x)
  | "bitlen", [x] => toString (Big.bitLen x)
  | "bits", [x] => " ".intercalate ("w" :: (Big.bits x).map toString)
  | "u256", [x] => toString (Gen.U256 x)
  | "s256", [x] => toString (Gen.S256 x)
  | "exp256", [x, y] => toString (Gen.Exp x y).1
  | "byte", [x, p, n] => toString (Gen.Byte x p n)
  | _, _ => "bad-op"

def step (_ : Unit) (line : String) : Unit × String :=
  match fields line with
  | ["R", g, c, st] =>
    match g.toNat?, bytesOfHex? c, parseStore st with
    | some gas, some code, some orig => ((), runLine gas code orig)
    | _, _, _ => ((), "bad-op")
  | "B" :: p :: rest =>
    match rest.mapM String.toInt? with
    | some a => ((), bigPrim p a)
    | none => ((), "bad-op")
  | ["T"] => ((), s!"table {(Gen.table.filter (·.valid)).length} {Gen.translated.length} {Gen.evmVersion}")
  | _ => ((), "bad-op")

def main : IO Unit := runLoop () step
