/-
Line-protocol driver for C13 (fields separated by single spaces; byte strings in hex, "-" = empty).
  RESET                      empty trie (both sides)                      -> ok
  COPY | SIDE n              copy the active trie to the other side | address side n (0/1)   -> ok
  U k v                      Trie.Update(k, v)   (empty v deletes)        -> ok | crash
  G k                        Trie.Get(k)                                  -> val:<hex> | absent
  H                          Trie.Hash()                                  -> <hex32>
  I                          NewIterator(NodeIterator(nil)) leaves        -> k:v;k:v;... | -
  IS start                   the same from `start`                        -> k:v;... | -
  P k lvl                    Trie.Prove(k, lvl, db): blobs in path order  -> blob,blob,... | -
  V root k h:blob,h:blob     VerifyProof against a raw hash->blob store   -> val:<hex> | absent | err | crash
  VK root k blob,blob        VerifyProof against blobs keyed by Keccak    -> val:<hex> | absent | err | crash
  SU k v / SG k              SecureTrie Update/Get (key hashed first)
  CODEC k probe,probe        instance check of the codec hypothesis of proof_complete_partial on the path of k -> ok | fail
  SR k:v;k:v;...             specRoot (Spec.lean) of the given content (byte keys)  -> <hex32>
  DS item,item,...           types.DeriveSha                              -> <hex32>
  KEC data                   Keccak-256                                   -> <hex32>
  DBRESET | DBNEW            fresh trie.Database (DBNEW keeps the disk)           -> ok
  DBINS h size k,k,...       db.insert of a node with these hash children         -> ok
  DBREF h | DBDEREF h                                                             -> ok
  DBCAP n | DBCOMMIT h       -> ok <n>:<digest of the node hashes in the order they are written>
                             (DBCOMMIT adds ordered-closed=<bool>: the hypotheses of db_commit_children_first on the state before)
  DBDUMP                     mem=<n>:<digest> meta=<n>:<digest> disk=<n>:<digest>
  DBDUMPFULL                 the same in full text
-/
import YouVerif.C13.Model
import YouVerif.C13.ModelHash
import YouVerif.C13.ModelDb
import YouVerif.C13.Spec
import YouVerif.Common.Hex
import YouVerif.Common.Keccak
open YouVerif.Common YouVerif.C13

def K : Hash := Keccak.hash

def hx (s : String) : Option (List UInt8) := bytesOfHex? s
def showHex (b : List UInt8) : String := if b.isEmpty then "-" else hexOfList b

def splitNE (s : String) (sep : String) : List String :=
  if s == "-" || s.isEmpty then [] else s.splitOn sep

def showLeaves (ls : List (List Nib × Val)) : String :=
  if ls.isEmpty then "-" else
  String.intercalate ";" (ls.map fun pv =>
    (match unhexKey pv.1 with | some k => showHex k | none => "?") ++ ":" ++ showHex pv.2)

def showV : VRes → String
  | .value v => "val:" ++ hexOfList v
  | .absent => "absent"
  | .err => "err"
  | .crash => "crash"

def parseDb (s : String) : Option ProofDb :=
  (splitNE s ",").mapM fun e =>
    match e.splitOn ":" with
    | [h, b] => do
      let h ← hx h
      let b ← hx b
      pure (h, b)
    | _ => none

def bytesLt : List UInt8 → List UInt8 → Bool
  | [], [] => false
  | [], _ :: _ => true
  | _ :: _, [] => false
  | a :: as, b :: bs => if a < b then true else if b < a then false else bytesLt as bs

def sortBytes (l : List (List UInt8)) : List (List UInt8) := l.mergeSort fun a b => !bytesLt b a

def dbText (s : Db.State) : String × String × String :=
  let mem := String.intercalate "," (s.mem.map fun n => hexOfList n.hash ++ ":" ++ toString n.parents)
  let metaL := (s.roots.mergeSort fun a b => !bytesLt b.1 a.1).map fun e => hexOfList e.1 ++ ":" ++ toString e.2
  let disk := (sortBytes s.disk).map hexOfList
  (mem, String.intercalate "," metaL, String.intercalate "," disk)

def digest (s : String) : String := (hexOfList (K s.toUTF8.toList)).take 16 |>.toString

def dbDump (s : Db.State) (full : Bool) : String :=
  let (a, b, c) := dbText s
  if full then s!"mem={a} meta={b} disk={c}"
  else s!"mem={s.mem.length}:{digest a} meta={s.roots.length}:{digest b} disk={s.disk.length}:{digest c}"

def orderDigest (l : List (List UInt8)) : String :=
  s!"{l.length}:{digest (String.intercalate "," (l.map hexOfList))}"

def dbStep (s : Db.State) : List String → Option (Db.State × String)
  | ["DBRESET"] => some ({}, "ok")
  | ["DBNEW"] => some ({ s with mem := [], roots := [] }, "ok")
  | ["DBINS", h, size, kids] =>
    match hx h, nat? size, (splitNE kids ",").mapM hx with
    | some h, some size, some kids => some (Db.insert s h size kids, "ok")
    | _, _, _ => none
  | ["DBREF", h] => (hx h).map fun h => (Db.reference s h, "ok")
  | ["DBDEREF", h] => (hx h).map fun h => (Db.dereference s h, "ok")
  | ["DBCAP", n] => (nat? n).map fun n => (Db.cap s n, "ok " ++ orderDigest (Db.capOrder s n))
  | ["DBCOMMIT", h] => (hx h).map fun h => (Db.commit s h, "ok " ++ orderDigest (Db.commitOrder s h) ++ s!" ordered-closed={Db.orderedClosed s}")
  | ["DBDUMP"] => some (s, dbDump s false)
  | ["DBDUMPFULL"] => some (s, dbDump s true)
  | _ => none

def step (t : Node) (line : String) : Node × String :=
  match fields line with
  | ["RESET"] => (.empty, "ok")
  | ["U", k, v] =>
    match hx k, hx v with
    | some k, some v =>
      if runPanics t [(k, v)] then (t, "crash") else (update t k v, "ok")
    | _, _ => (t, "bad-op")
  | ["SU", k, v] =>
    match hx k, hx v with
    | some k, some v =>
      if runPanics t [(K k, v)] then (t, "crash") else (secUpdate K t k v, "ok")
    | _, _ => (t, "bad-op")
  | ["G", k] =>
    match hx k with
    | some k => (t, match lookupB t k with | some v => "val:" ++ hexOfList v | none => "absent")
    | none => (t, "bad-op")
  | ["SG", k] =>
    match hx k with
    | some k => (t, match secGet K t k with | some v => "val:" ++ hexOfList v | none => "absent")
    | none => (t, "bad-op")
  | ["H"] => (t, hexOfList (rootHash K t))
  | ["I"] => (t, showLeaves (leaves t))
  | ["IS", s] =>
    match hx s with
    | some s => (t, showLeaves (leavesFrom t s))
    | none => (t, "bad-op")
  | ["P", k, lvl] =>
    match hx k, nat? lvl with
    | some k, some lvl =>
      let p := prove K t (hexKey k) lvl
      (t, if p.isEmpty then "-" else String.intercalate "," (p.map hexOfList))
    | _, _ => (t, "bad-op")
  | ["V", root, k, db] =>
    match hx root, hx k, parseDb db with
    | some root, some k, some db => (t, showV (verifyRaw (verifyFuel db (hexKey k)) db root (hexKey k)))
    | _, _, _ => (t, "bad-op")
  | ["VK", root, k, blobs] =>
    match hx root, hx k, (splitNE blobs ",").mapM hx with
    | some root, some k, some blobs => (t, showV (verify K root (hexKey k) blobs))
    | _, _, _ => (t, "bad-op")
  | ["CODEC", k, probes] =>
    match hx k, (splitNE probes ",").mapM hx with
    | some k, some probes =>
      (t, if codecHoldsOnPath K t (hexKey k) (probes.map hexKey) then "ok" else "fail")
    | _, _ => (t, "bad-op")
  | ["SR", pairs] =>
    let ps := (splitNE pairs ";").mapM fun e =>
      match e.splitOn ":" with
      | [k, v] => do
        let k ← hx k
        let v ← hx v
        pure (hexKey k, v)
      | _ => none
    match ps with
    | some ps => (t, hexOfList (specRoot K ps))
    | none => (t, "bad-op")
  | ["DS", items] =>
    match (splitNE items ",").mapM hx with
    | some items => (t, hexOfList (deriveSha K items))
    | none => (t, "bad-op")
  | ["KEC", d] =>
    match hx d with
    | some d => (t, hexOfList (K d))
    | none => (t, "bad-op")
  | _ => (t, "bad-op")

/-- driver state: two live tries (value semantics: a copy is just another value), the active side, the Database model -/
structure DState where
  t0 : Node := .empty
  t1 : Node := .empty
  side : Nat := 0
  db : Db.State := {}

def step2 (st : DState) (line : String) : DState × String :=
  if line.startsWith "DB" then
    match dbStep st.db (fields line) with
    | some (d, out) => ({ st with db := d }, out)
    | none => (st, "bad-op")
  else
    match fields line with
    | ["COPY"] =>
      -- Trie struct copy / SecureTrie.Copy: the other side becomes the same value
      (if st.side == 0 then { st with t1 := st.t0 } else { st with t0 := st.t1 }, "ok")
    | ["SIDE", n] => ({ st with side := if n == "1" then 1 else 0 }, "ok")
    | ["RESET"] => ({ st with t0 := .empty, t1 := .empty, side := 0 }, "ok")
    | _ =>
      if st.side == 0 then
        let (t, out) := step st.t0 line
        ({ st with t0 := t }, out)
      else
        let (t, out) := step st.t1 line
        ({ st with t1 := t }, out)

def main : IO Unit := runLoop ({} : DState) step2
