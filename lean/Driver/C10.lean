/-
Line-protocol driver for C10: runs the hand model `YouVerif.C10.step` with the executable `Prim`
(Keccak-256 + secure-MPT root) on the operation lines the Go harness sends.  One response line per line.

  RESET                                   fresh empty state (all slots)                      -> ok
  FORK n | SLOT n                         copy the current model state into slot n / make slot n current   -> ok
  SB a n | AB a n | UB a n | SN a n       SetBalance / AddBalance / SubBalance / SetNonce    -> ok
  SC a code | SS a slot value             SetCode / SetState                                 -> ok
  SU a | CA a                             Suicide / (CreateAccount; SetNonce 1)              -> ok
  UD a v delta del                        UpdateDelegator                                    -> ok
  CV a name op cb role mainpk blspk token stake accept comm risk status     CreateValidator  -> ok
  UV a <23 fields> n (d stake token)*     UpdateValidator(new, current)                      -> ok
  VD a d token | DG d a amount            PartialCopy+UpdateDelegationFrom+UpdateValidator / StateDB.UpdateDelegation (sorted insert modelled) -> ok
  SR idx kind amount                      ValKindStat.AddRewards/SetRewardsResidue/ResetRewards on slot idx -> ok
  AW op dlg val rcp nonce ch coh init final fin tx     AddWithdrawRecord                     -> ok
  RW i,j,..                               RemoveWithdrawRecords                              -> ok
  AS key tx|- fv|nil                      AddStakingRecord                                   -> ok
  AP key                                  AddPendingRelationship                             -> ok
  RS | GV | CP                            ResetStakingTrie / getter calls / Copy              -> ok
  FIN f | IR f | CM f | RO f              Finalise / IntermediateRoot / Commit / Commit+New  -> ok | roots r1 r2 r3 | open-failed
  PEEK f                                  roots IntermediateRoot(f) would give, state unchanged  -> roots r1 r2 r3
  OBS                                     canonical enumeration of everything the getters show
  DUMP                                    canonical raw content of the three tries
-/
import YouVerif.C10.Mpt
import YouVerif.Common.Hex
open YouVerif.Common YouVerif.C10

def hx (b : Bytes) : String := if b.isEmpty then "-" else hexOfList b
def P : Prim := execPrim

def showRoots (r : Roots) : String := s!"roots {hx r.root} {hx r.valRoot} {hx r.stakingRoot}"

def join (sep : String) (l : List String) : String := sep.intercalate l

/-- a storage leaf is rlp(trimmed value) with at most 32 payload bytes: strip the one-byte header if any -/
def unslot (v : Bytes) : Bytes := match v with | [b] => [b] | _ :: t => t | [] => []

def showAcct (a : Bytes) (o : AcctObs) : String :=
  join ":" [hx a, toString o.nonce, toString o.balance, hx o.code, toString o.delBal, join "," (o.dlgs.map hx),
            join "," (o.storage.map (fun kv => hx kv.1 ++ "=" ++ hx (unslot kv.2)))]

def showVal (a : Bytes) (v : Val) : String :=
  join ":" [hx a, hx v.name, hx v.operator, hx v.coinbase, toString v.role, toString v.status, (if v.expelled then "1" else "0"),
            toString v.expelExpired, toString v.lastInactive, hx v.mainPk, hx v.blsPk, toString v.token, toString v.stake,
            toString v.selfToken, toString v.selfStake, toString v.rewDist, toString v.rewTotal, toString v.rewLast,
            toString v.accept, toString v.comm, toString v.risk, toString v.extVer, hx v.extData,
            join "+" (v.dlgs.map (fun d => hx d.delegator ++ "/" ++ toString d.stake ++ "/" ++ toString d.token))]

def showK (k : KStat) : String :=
  join "," [toString k.onS, toString k.onT, toString k.onC, toString k.offS, toString k.offT, toString k.offC, toString k.resid, toString k.dist]

def showW (w : WRec) : String :=
  join ":" [hx w.operator, hx w.delegator, hx w.validator, hx w.recipient, toString w.nonce, toString w.creation,
            toString w.completion, toString w.initial, toString w.final, toString w.finished, hx w.txHash]

def showObs (o : Obs) : String :=
  "A " ++ join ";" (o.accts.map (fun p => showAcct p.1 p.2))
  ++ " | V " ++ join ";" (o.vals.map (fun p => showVal p.1 p.2))
  ++ " | S " ++ join ";" ([o.stat.k0, o.stat.k1, o.stat.k2, o.stat.r1, o.stat.r2, o.stat.r3].map showK)
  ++ " | Q " ++ join ";" (o.queue.map showW)
  ++ " | R " ++ join ";" (o.recs.map (fun p => hx p.1 ++ ":" ++ toString p.2.fv ++ ":" ++ join "," (p.2.txs.map hx)))
  ++ " | P " ++ join "," (o.relats.map hx)

def showContent (c : Content) : String := join "," ((norm c).map (fun kv => hx kv.1 ++ "=" ++ hx kv.2))

def showDump (t : Tries) : String :=
  "acct " ++ showContent t.acct ++ " | val " ++ showContent (valContent t.val) ++ " | stk " ++ showContent (stkContent t.stk)

def parseDlgs : List String → Option (List Dlg)
  | [] => some []
  | d :: s :: t :: rest => do
    let r ← parseDlgs rest
    some ({ delegator := ← bytesOfHex? d, stake := ← nat? s, token := ← nat? t } :: r)
  | _ => none

def parseVal : List String → Option Val
  | name :: op :: cb :: role :: status :: ex :: ee :: li :: mpk :: bpk :: token :: stake :: st :: ss :: rd :: rt :: rl :: ac :: cm :: rk :: ev :: ed :: _n :: rest => do
    some { name := ← bytesOfHex? name, operator := ← bytesOfHex? op, coinbase := ← bytesOfHex? cb, role := ← nat? role, status := ← nat? status,
           expelled := ex == "1", expelExpired := ← nat? ee, lastInactive := ← nat? li, mainPk := ← bytesOfHex? mpk, blsPk := ← bytesOfHex? bpk,
           token := ← nat? token, stake := ← nat? stake, selfToken := ← nat? st, selfStake := ← nat? ss, rewDist := ← nat? rd,
           rewTotal := ← nat? rt, rewLast := ← nat? rl, accept := ← nat? ac, comm := ← nat? cm, risk := ← nat? rk,
           extVer := ← nat? ev, extData := ← bytesOfHex? ed, dlgs := ← parseDlgs rest }
  | _ => none

def parseOp : List String → Option Op
  | ["SB", a, n] => do some (.setBalance (← bytesOfHex? a) (← nat? n))
  | ["AB", a, n] => do some (.addBalance (← bytesOfHex? a) (← nat? n))
  | ["UB", a, n] => do some (.subBalance (← bytesOfHex? a) (← nat? n))
  | ["SN", a, n] => do some (.setNonce (← bytesOfHex? a) (← nat? n))
  | ["SC", a, c] => do some (.setCode (← bytesOfHex? a) (← bytesOfHex? c))
  | ["SS", a, k, v] => do some (.setState (← bytesOfHex? a) (← bytesOfHex? k) (← bytesOfHex? v))
  | ["SU", a] => do some (.suicide (← bytesOfHex? a))
  | ["CA", a] => do some (.createContract (← bytesOfHex? a))
  | ["UD", a, v, d, del] => do some (.updDelegator (← bytesOfHex? a) (← bytesOfHex? v) (← int? d) (del == "1"))
  | ["CV", a, name, op, cb, role, mpk, bpk, token, stake, ac, cm, rk, status] => do
    let t ← nat? token
    let s ← nat? stake
    some (.createVal (← bytesOfHex? a)
      { name := ← bytesOfHex? name, operator := ← bytesOfHex? op, coinbase := ← bytesOfHex? cb, role := ← nat? role, status := ← nat? status,
        mainPk := ← bytesOfHex? mpk, blsPk := ← bytesOfHex? bpk, token := t, stake := s, selfToken := t, selfStake := s,
        accept := ← nat? ac, comm := ← nat? cm, risk := ← nat? rk })
  | "UV" :: a :: rest => do some (.updateVal (← bytesOfHex? a) (← parseVal rest))
  | ["VD", a, d, t] => do
    let tok ← nat? t
    some (.setDlg (← bytesOfHex? a) (← bytesOfHex? d) (tok / stakeUnit) tok)
  | ["DG", d, a, amt] => do some (.delegate (← bytesOfHex? d) (← bytesOfHex? a) (← int? amt))
  | ["SR", i, k, n] => do some (.statRewards (← nat? i) (← nat? k) (← nat? n))
  | ["AW", o, d, v, r, n, c, co, i, f, fi, t] => do
    some (.addWithdraw { operator := ← bytesOfHex? o, delegator := ← bytesOfHex? d, validator := ← bytesOfHex? v, recipient := ← bytesOfHex? r,
                         nonce := ← nat? n, creation := ← nat? c, completion := ← nat? co, initial := ← nat? i, final := ← nat? f,
                         finished := ← nat? fi, txHash := ← bytesOfHex? t })
  | ["RW", l] => do some (.removeWithdraw (← (l.splitOn ",").mapM nat?))
  | ["AS", k, tx, fv] => do
    let txo ← if tx == "-" then some none else (bytesOfHex? tx).map some
    let fvo ← if fv == "nil" then some none else (nat? fv).map some
    some (.addStakingRecord (← bytesOfHex? k) txo fvo)
  | ["AP", k] => do some (.addPendingRel (← bytesOfHex? k))
  | ["RS"] => some .resetStaking
  | ["CP"] => some .copy
  | ["FIN", f] => some (.finalise (f == "1"))
  | ["IR", f] => some (.iroot (f == "1"))
  | ["CM", f] => some (.commit (f == "1"))
  | _ => none

def stepLine (s : St) (line : String) : St × String :=
  match fields line with
  | ["GV"] => (s, "ok")
  | ["OBS"] => (s, showObs (obs P s))
  | ["DUMP"] => (s, showDump s.t)
  | ["PEEK", f] => (s, showRoots (roots P (iroot P (f == "1") s)))
  | ["RO", f] =>
    let s' := commit P (f == "1") s
    match openSt s'.db (roots P s') with
    | some s'' => (s'', showRoots (roots P s'))
    | none => (s', "open-failed")
  | fs =>
    match parseOp fs with
    | some op =>
      let s' := step P s op
      match op with
      | .iroot _ | .commit _ => (s', showRoots (roots P s'))
      | _ => (s', "ok")
    | none => (s, "bad-op")

/-- several model states side by side (one per real StateDB the harness drives after a Copy): value semantics means a
copy is just another slot holding the same value -/
structure Slots where
  slots : Array St := #[{}]
  cur : Nat := 0

def stepSlots (d : Slots) (line : String) : Slots × String :=
  match fields line with
  | ["RESET"] => ({}, "ok")
  | ["SLOT", n] =>
    match nat? n with
    | some k => if k < d.slots.size then ({ d with cur := k }, "ok") else (d, "bad-op")
    | none => (d, "bad-op")
  | ["FORK", n] =>
    match nat? n with
    | some k =>
      let cur := copy (d.slots.getD d.cur {})
      if k < d.slots.size then ({ d with slots := d.slots.set! k cur }, "ok")
      else if k = d.slots.size then ({ d with slots := d.slots.push cur }, "ok") else (d, "bad-op")
    | none => (d, "bad-op")
  | _ =>
    let (s', out) := stepLine (d.slots.getD d.cur {}) line
    ({ d with slots := d.slots.set! d.cur s' }, out)

def main : IO Unit := runLoop ({} : Slots) stepSlots
