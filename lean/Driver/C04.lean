/-
Line-protocol driver for C04 (all numbers decimal, hashes/bytes hex; float64 values as decimal bit patterns).
  K                                             -> k <1.0> <0.99> <20.0>                      (model constants)
  S n bits                                      -> r                                          search over a 0/1 table (index ≥ length ↦ false)
  ST n t                                        -> r                                          search over the predicate h ≥ t
  N hash                                        -> target inv                                 float64(hash/(2^256-1)), float64(1 - …)
  Q threshold total                             -> p                                          float64(threshold/total)
  U p                                           -> 1.0 - p
  X stake p                                     -> float64(stake) * p
  C hash stake p  [P:k:v ...]                   -> ok j branch target inv invp mean | crash | need P k branch cmp
  CS hash stake threshold total [P:k:v ...]     -> same, p = pOf threshold total (first field after `ok j` block: p)
  M seedhex role index                          -> hex of MakeM
  P hash j                                      -> hex of computePriority (real Keccak-256)
  MR | MC round | MW round (rewind onto another branch + its clear) | MQ round index step store -> ok | ok | ok | origin [stale-branch]         SortitionManager cache (stateful)
  SP verdict                                    -> accept|refuse|crash                        Server.verifyPriority given VrfVerifyPriority's verdict
  CM kind pF vF cF known pL vL cL               -> committee                                  committee per kind (in force / cert look-back version)
  PP msgStep verdictAtPropose verdictAtMsgStep  -> accept|refuse|crash                        is a priority message recorded (Proposal pins Step)
  SS nodeRound nodeIndex msgRound msgIndex verdict -> accept|refuse|crash                     Server.verifySortition given VrfVerifySortition's verdict
  VS total threshold stake sub (ok:hash|err) [P:k:v ...]            -> verdict | need …
  VP total threshold stake sub (ok:hash|err) priority [P:k:v ...]   -> verdict | need …
-/
import YouVerif.C04.Model
import YouVerif.Common.Hex
import YouVerif.Common.Keccak
open YouVerif.Common YouVerif.C04

abbrev Table := List (Nat × Nat × Nat)

def look (t : Table) (P k : Nat) : Option Nat :=
  (t.find? (fun e => e.1 == P && e.2.1 == k)).map (·.2.2)

def cdfOf (t : Table) : F64 → Nat → F64 := fun P k => (look t P k).getD 0

def parseEntry (s : String) : Option (Nat × Nat × Nat) :=
  match s.splitOn ":" with
  | [a, b, c] => do
    let a ← a.toNat?; let b ← b.toNat?; let c ← c.toNat?
    pure (a, b, c)
  | _ => none

def showBranch : Branch → String
  | .top => "top" | .zero => "zero" | .crash => "crash" | .mirror => "mirror" | .scan => "scan" | .search => "search"

/-- evaluate `choose` over the values received so far; `.inl` = ask for the first missing value -/
def runChoose (t : Table) (hb w : Nat) (p : F64) : Sum String Res :=
  match chooseP (look t) hb w p with
  | .error (P, k) =>
    let br := chooseBranch hb w p
    let cmp := if br == .mirror then invOf hb else targetOf hb
    .inl s!"need {P} {k} {showBranch br} {cmp}"
  | .ok r => .inr r

def chooseLine (t : Table) (hb w : Nat) (p : F64) : String :=
  match runChoose t hb w p with
  | .inl s => s
  | .inr .crash => "crash"
  | .inr (.ok j) =>
    s!"ok {j} {showBranch (chooseBranch hb w p)} {targetOf hb} {invOf hb} {p} {f64OneMinus p} {f64Mul (f64OfNat w) p}"

def hashNat? (s : String) : Option Nat := do
  let bs ← bytesOfHex? s
  if bs.length = 32 then some (natOfBytes bs) else none

def showVerdict : Verdict → String
  | .accept => "accept" | .totalStakeZero => "totalStakeZero" | .vrfFailed => "vrfFailed" | .notValidator => "notValidator"
  | .subUsersMismatch => "subUsersMismatch" | .priorityMismatch => "priorityMismatch" | .crash => "crash"

def parseVerdict (s : String) : Option Verdict :=
  [Verdict.accept, .totalStakeZero, .vrfFailed, .notValidator, .subUsersMismatch, .priorityMismatch, .crash].find?
    (fun v => showVerdict v == s)

def showNode : NodeVerdict → String
  | .accept => "accept" | .refuse => "refuse" | .crash => "crash"

def parseVrf (s : String) : Option (Option (List UInt8)) :=
  if s == "err" then some none
  else match s.splitOn ":" with
    | ["ok", h] => (bytesOfHex? h).bind fun bs => if bs.length = 32 then some (some bs) else none
    | _ => none

/-- the VRF is supplied by the harness: the real ProofToHash ran on the Go side -/
def givenVrf (r : Option (List UInt8)) : Vrf Unit Unit Unit Unit :=
  { pkOf := id, evaluate := fun _ _ _ => ([], ()), proofToHash := fun _ _ _ => r }

def keccak : List UInt8 → List UInt8 := Keccak.hash

def stepPure (line : String) : String :=
    match fields line with
    | ["K"] => s!"k {f64One} {f64_099} {f64_20}"
    | ["S", n, bits] =>
      match n.toNat? with
      | some n =>
        let arr := bits.toList.toArray
        s!"{search n (fun h => arr.getD h '0' == '1')}"
      | none => "bad-op"
    | ["S", n] =>
      match n.toNat? with
      | some n => s!"{search n (fun _ => false)}"
      | none => "bad-op"
    | ["ST", n, t] =>
      match n.toNat?, t.toInt? with
      | some n, some t => s!"{search n (fun h => decide (t ≤ (h : Int)))}"
      | _, _ => "bad-op"
    | ["N", h] =>
      match hashNat? h with
      | some hb => s!"{targetOf hb} {invOf hb}"
      | none => "bad-op"
    | ["Q", a, b] =>
      match a.toNat?, b.toNat? with
      | some a, some b => s!"{pOf a b}"
      | _, _ => "bad-op"
    | ["U", p] =>
      match p.toNat? with
      | some p => s!"{f64OneMinus p}"
      | none => "bad-op"
    | ["X", w, p] =>
      match w.toNat?, p.toNat? with
      | some w, some p => s!"{f64Mul (f64OfNat w) p}"
      | _, _ => "bad-op"
    | "C" :: h :: w :: p :: es =>
      match hashNat? h, w.toNat?, p.toNat?, es.mapM parseEntry with
      | some hb, some w, some p, some t => chooseLine t hb w p
      | _, _, _, _ => "bad-op"
    | "CS" :: h :: w :: thr :: tot :: es =>
      match hashNat? h, w.toNat?, thr.toNat?, tot.toNat?, es.mapM parseEntry with
      | some hb, some w, some thr, some tot, some t => chooseLine t hb w (pOf thr tot)
      | _, _, _, _, _ => "bad-op"
    | ["SP", v] =>
      match parseVerdict v with
      | some v => showNode (nodePriorityOutcome v)
      | none => "bad-op"
    | ["CM", kind, pf, vf, cf, known, pl, vl, cl] =>
      match [pf, vf, cf, pl, vl, cl].mapM (·.toNat?) with
      | some [pf, vf, cf, pl, vl, cl] =>
        let k? : Option CredKind := if kind == "propose" then some .propose else if kind == "vote" then some .vote
          else if kind == "certificate" then some .certificate else none
        match k? with
        | some k => s!"{committeeFor ⟨pf, vf, cf⟩ (if known == "1" then some ⟨pl, vl, cl⟩ else none) k}"
        | none => "bad-op"
      | _ => "bad-op"
    | ["PP", ms, v1, vm] =>
      match ms.toNat?, parseVerdict v1, parseVerdict vm with
      | some ms, some v1, some vm => showNode (proposalOutcome ms (fun st => if st = proposeStep then v1 else vm))
      | _, _, _ => "bad-op"
    | ["SS", cr, ci, mr, mi, v] =>
      match cr.toNat?, ci.toNat?, mr.toNat?, mi.toNat?, parseVerdict v with
      | some cr, some ci, some mr, some mi, some v => showNode (nodeSortitionOutcome ⟨cr, ci⟩ mr mi v)
      | _, _, _, _, _ => "bad-op"
    | ["M", seed, role, index] =>
      match bytesOfHex? seed, role.toNat?, index.toNat? with
      | some s, some r, some i => hexOfList (makeM s r i)
      | _, _, _ => "bad-op"
    | ["P", h, j] =>
      match bytesOfHex? h, j.toNat? with
      | some hs, some j => hexOfList (computePriority keccak hs j)
      | _, _ => "bad-op"
    | "VS" :: tot :: thr :: stake :: sub :: vrf :: es =>
      match tot.toNat?, thr.toNat?, stake.toNat?, sub.toNat?, parseVrf vrf, es.mapM parseEntry with
      | some tot, some thr, some stake, some sub, some r, some t =>
        let need : Option String :=
          match r with
          | some hash => if tot = 0 then none else
            match runChoose t (natOfBytes hash) stake (pOf thr tot) with
            | .inl s => some s
            | .inr _ => none
          | none => none
        match need with
        | some s => s
        | none => showVerdict (verifySortition (givenVrf r) (cdfOf t) () [] 0 0 () sub ⟨thr, stake, tot⟩)
      | _, _, _, _, _, _ => "bad-op"
    | "VP" :: tot :: thr :: stake :: sub :: vrf :: prio :: es =>
      match tot.toNat?, thr.toNat?, stake.toNat?, sub.toNat?, parseVrf vrf, bytesOfHex? prio, es.mapM parseEntry with
      | some tot, some thr, some stake, some sub, some r, some prio, some t =>
        let need : Option String :=
          match r with
          | some hash => if tot % 2 ^ 64 = 0 then none else
            match runChoose t (natOfBytes hash) stake (pOf thr tot) with
            | .inl s => some s
            | .inr _ => none
          | none => none
        match need with
        | some s => s
        | none => showVerdict (verifyPriority (givenVrf r) (cdfOf t) keccak () [] 0 0 () prio sub ⟨thr, stake, tot⟩)
      | _, _, _, _, _, _, _ => "bad-op"
    | _ => "bad-op"

/-- the SortitionManager cache is the only state: MR (reset) | MC round | MW round | MQ round index step store(0/1) -> origin -/
def step (m : Mgr) (line : String) : Mgr × String :=
  match fields line with
  | ["MR"] => (Mgr.init, "ok")
  | ["MC", r] =>
    match r.toNat? with
    | some r => (m.clear r, "ok")
    | none => (m, "bad-op")
  | ["MW", r] =>
    match r.toNat? with
    | some r => (m.rewind r, "ok")
    | none => (m, "bad-op")
  | ["MQ", r, i, s, st] =>
    match r.toNat?, i.toNat?, s.toNat? with
    | some r, some i, some s =>
      let (m', o) := m.query ⟨r, i, s⟩ (st == "1")
      (m', s!"{o.key.round} {o.key.index} {o.key.step}" ++ (if o.epoch = m.epoch then "" else " stale-branch"))
    | _, _, _ => (m, "bad-op")
  | _ => (m, stepPure line)

def main : IO Unit := runLoop Mgr.init step
