/-
Line-protocol driver for C17 (runs the hand-written model on the inputs the Go harness sends).

  CONST                                                   -> txGas txGasContractCreation zeroGas nonZeroGas txValidatorGas txValCreationGas halfN
  RESET netId version stakingAddr pool used rewards       -> ok          (new block: empty world, refund 0)
  ACC addr nonce balance code01                           -> ok          (set an account; code01 = has code)
  GET addr                                                -> nonce balance
  PRE netId nonce price gas to value data                 -> hex of the signing preimage
  HASH netId nonce price gas to value data                -> hex of keccak256(preimage)
  SENDER netId nonce price gas to value data v r s        -> notprotected | badnet | badsig | recover <sighash> <vbyte>
  STK data                                                -> none | msg <action> <payloadhex>      (decodeStakingMsg)
  TX mode from nonce price gas to value data <hint…>      -> <ok gas failed cum | err class> ig=<n|-> | sn sb db pool used rewards refund
       mode  P = as StateProcessor.Process leaves things, W = as worker.commitTransaction leaves things
       hint  plain <dest> | evm <dest> <gasLeft> <refundAfter> <ok01> | stk <ok01> <stake>
  addresses / data are hex ("-" = nil recipient / empty data); numbers are decimal.
-/
import YouVerif.C17.Model
open YouVerif.Common YouVerif.C17

structure DS where
  netId   : Nat := 0
  version : Nat := 5
  staking : Addr := []
  st      : St := { world := {}, pool := 0 }
  acc     : Acc := {}

def showErr : Err → String
  | .sender .notProtected => "notprotected"
  | .sender .invalidNetworkId => "badnet"
  | .sender .invalidSig => "badsig"
  | .nonceTooHigh => "nonce-high"
  | .nonceTooLow => "nonce-low"
  | .insufficientBalanceForGas => "no-gas-money"
  | .gasLimitReached => "pool"
  | .intrinsicOverflow => "intrinsic-overflow"
  | .outOfGasIntrinsic => "intrinsic"
  | .insufficientBalance => "no-value-money"
  | .moduleAddress => "module-address"
  | .other => "other"
  | .poolOverflow => "crash-pool-overflow"

def optAddr? (s : String) : Option (Option Addr) :=
  if s == "-" then some none else (bytesOfHex? s).map some

def mkFields (l : List String) : Option TxFields :=
  match l with
  | [nonce, price, gas, to, value, data] => do
    let n ← nat? nonce
    let p ← nat? price
    let g ← nat? gas
    let t ← optAddr? to
    let v ← nat? value
    let d ← bytesOfHex? data
    pure { nonce := n, price := p, gasLimit := g, to := t, value := v, data := d }
  | _ => none

def keccakCrypto : Crypto := { hash := Keccak.hash, recover := fun _ _ _ _ => none }

def mkEnv (d : DS) (hint : List String) : Option (Env × Addr) :=
  let noH : Handler := fun _ _ _ w => (w, false)
  let noE : Evm := evmPlain (fun _ _ => [])
  match hint with
  | ["plain", dest] => do
    let a ← bytesOfHex? dest
    pure ({ stakingAddr := d.staking, version := d.version, evm := evmPlain (fun _ _ => a), handler := noH }, a)
  | ["evm", dest, gasLeft, refundAfter, ok] => do
    let a ← bytesOfHex? dest
    let g ← nat? gasLeft
    let r ← nat? refundAfter
    pure ({ stakingAddr := d.staking, version := d.version, evm := evmObserved a g r (ok == "1"), handler := noH }, a)
  | ["stk", ok, stake] => do
    let s ← nat? stake
    pure ({ stakingAddr := d.staking, version := d.version, evm := noE, handler := handlerObserved (ok == "1") s }, d.staking)
  | _ => none

def step (d : DS) (line : String) : DS × String :=
  match fields line with
  | ["CONST"] =>
    (d, s!"{txGas} {txGasContractCreation} {txDataZeroGas} {txDataNonZeroGas} {txValidatorGas} {txValCreationGas} {secp256k1halfN}")
  | ["RESET", netId, version, staking, pool, used, rewards] =>
    match nat? netId, nat? version, bytesOfHex? staking, nat? pool, nat? used, int? rewards with
    | some n, some v, some s, some p, some u, some r =>
      ({ netId := n, version := v, staking := s, st := { world := {}, pool := p }, acc := { used := u, rewards := r } }, "ok")
    | _, _, _, _, _, _ => (d, "bad-op")
  | ["ACC", addr, nonce, bal, code] =>
    match bytesOfHex? addr, nat? nonce, int? bal with
    | some a, some n, some b =>
      ({ d with st := { d.st with world := d.st.world.set a { nonce := n, balance := b, hasCode := code == "1" } } }, "ok")
    | _, _, _ => (d, "bad-op")
  | ["GET", addr] =>
    match bytesOfHex? addr with
    | some a => (d, s!"{(d.st.world.get a).nonce} {(d.st.world.get a).balance}")
    | none => (d, "bad-op")
  | "PRE" :: netId :: rest =>
    match nat? netId, mkFields rest with
    | some n, some f => (d, hexOfList (preimage f n))
    | _, _ => (d, "bad-op")
  | "HASH" :: netId :: rest =>
    match nat? netId, mkFields rest with
    | some n, some f => (d, hexOfList (Keccak.hash (preimage f n)))
    | _, _ => (d, "bad-op")
  | "SENDER" :: netId :: rest =>
    match nat? netId, mkFields (rest.take 6), (rest.drop 6).mapM nat? with
    | some n, some f, some [v, r, s] =>
      let tx : Tx := { f := f, v := v, r := r, s := s }
      match senderCheck n tx with
      | .error .notProtected => (d, "notprotected")
      | .error .invalidNetworkId => (d, "badnet")
      | .error .invalidSig => (d, "badsig")
      | .ok vb => (d, s!"recover {hexOfList (sigHash keccakCrypto n f)} {vb}")
    | _, _, _ => (d, "bad-op")
  | ["STK", data] =>
    match bytesOfHex? data with
    | some b =>
      match decodeStakingMsg b with
      | none => (d, "none")
      | some (a, p) => (d, s!"msg {a} {if p.isEmpty then "-" else hexOfList p}")
    | none => (d, "bad-op")
  | "TX" :: mode :: sender :: rest =>
    match bytesOfHex? sender, mkFields (rest.take 6), mkEnv d (rest.drop 6) with
    | some a, some f, some (E, dest) =>
      let m : Msg := { sender := a, f := f }
      let r := if mode == "W" then workerCommit E d.st d.acc m else applyMsg E d.st d.acc m
      let ig := match intrinsicGas (E.basicGas m) f.data with
        | some g => toString g
        | none => "-"
      let head := match r.out with
        | .ok rc => s!"ok {rc.gasUsed} {if rc.failed then 1 else 0} {rc.cumulative}"
        | .error e => s!"err {showErr e}"
      let w := r.st.world
      ({ d with st := r.st, acc := r.acc },
       s!"{head} ig={ig} | {(w.get a).nonce} {(w.get a).balance} {(w.get dest).balance} {r.st.pool} {r.acc.used} {r.acc.rewards} {r.st.refund}")
    | _, _, _ => (d, "bad-op")
  | _ => (d, "bad-op")

def main : IO Unit := runLoop ({} : DS) step
