/-
Line-protocol driver for C14 (one request per line, one answer per line).

  H <hex>            header of the first item (rlp.Split)   -> ok <isList> <payload length> <header length> | err <e>
  U <hex>            untyped strict decode           -> ok <item> <re-encoding hex> <weight> | err <e>
  D <schema> <hex>   typed decode with a generated schema
                                                     -> ok <val> <re-encoding hex | none> | err <e> | bad-schema
  E <schema> <val>   typed encode                    -> ok <hex> | none | bad-op
  C <schema>         static predicates               -> canonical=<b> sound=<b>
  N                  number of generated schemas     -> <n>

item text:  s:<hex>  |  [item,item,…]           (Rlp.Item.render)
val text:   n<dec>  |  b<hex>  |  [val,val,…]  |  N  |  S<val>
-/
import YouVerif.C14.Model
import YouVerif.C14.GenSchemas
import YouVerif.Common.Hex
open YouVerif.Common YouVerif.Common.Rlp YouVerif.C14

partial def renderVal : Val → String
  | .num n => s!"n{n}"
  | .bytes b => "b" ++ hexOfList b
  | .list vs => "[" ++ String.intercalate "," (vs.map renderVal) ++ "]"
  | .nil => "N"
  | .some v => "S" ++ renderVal v

/-- recursive-descent parser for the val text -/
partial def parseVal : List Char → Option (Val × List Char)
  | 'N' :: r => some (.nil, r)
  | 'S' :: r => (parseVal r).map fun (v, r') => (.some v, r')
  | 'n' :: r =>
    let ds := r.takeWhile Char.isDigit
    if ds.isEmpty then none else
    some (.num (ds.foldl (fun a c => a * 10 + (c.toNat - 48)) 0), r.dropWhile Char.isDigit)
  | 'b' :: r =>
    let hs := r.takeWhile fun c => (hexVal? c).isSome
    match bytesOfHex? (String.ofList hs) with
    | some b => some (.bytes b, r.drop hs.length)
    | none => none
  | '[' :: ']' :: r => some (.list [], r)
  | '[' :: r =>
    let rec elems (cs : List Char) (acc : List Val) : Option (Val × List Char) :=
      match parseVal cs with
      | none => none
      | some (v, ',' :: r') => elems r' (v :: acc)
      | some (v, ']' :: r') => some (.list (v :: acc).reverse, r')
      | some _ => none
    elems r []
  | _ => none

def showTErr : TErr → String
  | .untyped e => s!"untyped:{repr e}"
  | e => s!"{repr e}"

def lookup (name : String) : Option Ty := (Gen.schemas.find? (·.1 == name)).map (·.2)

def step (_ : Unit) (line : String) : Unit × String :=
  match fields line with
  | ["U", hex] =>
    match bytesOfHex? hex with
    | none => ((), "bad-op")
    | some bs =>
      match Rlp.decode bs with
      | .error e => ((), s!"err {repr e}")
      | .ok i => ((), s!"ok {i.render} {hexOfList (Rlp.encode i)} {weight i}")
  | ["H", hex] =>
    -- rlp.Split: header of the first item, with the "content fits" check that decodeItem applies
    match bytesOfHex? hex with
    | none => ((), "bad-op")
    | some bs =>
      match Rlp.decodeHeader bs with
      | .error e => ((), s!"err {repr e}")
      | .ok (isList, n, h) =>
        if (bs.drop h).length < n then ((), "err tooLarge") else ((), s!"ok {isList} {n} {h}")
  | ["D", name, hex] =>
    match lookup name, bytesOfHex? hex with
    | some ty, some bs =>
      match decT ty bs with
      | .error e => ((), s!"err {showTErr e}")
      | .ok v =>
        let re := match encT ty v with | some b => (if b.isEmpty then "-" else hexOfList b) | none => "none"
        ((), s!"ok {renderVal v} {re}")
    | none, _ => ((), "bad-schema")
    | _, none => ((), "bad-op")
  | ["E", name, vt] =>
    match lookup name, parseVal vt.toList with
    | some ty, some (v, []) =>
      match encT ty v with
      | some b => ((), s!"ok {hexOfList b}")
      | none => ((), "none")
    | none, _ => ((), "bad-schema")
    | _, _ => ((), "bad-op")
  | ["C", name] =>
    match lookup name with
    | some ty => ((), s!"canonical={Canonical ty} sound={Sound ty}")
    | none => ((), "bad-schema")
  | ["N"] => ((), s!"{Gen.schemas.length}")
  | _ => ((), "bad-op")

def main : IO Unit := runLoop () step
