/-
Line-protocol driver for C16: runs the frame-discipline model on the program trees the Go harness sends.

  RESET                                              fresh world                                  -> ok
  CONST name=value ...                               compare gas constants with the model's       -> ok | mismatch ...
  ACCT addr nonce bal code|- [k=v ...]               genesis account (orig = stor)                -> ok
  TXCALL origin to value gas <prog>                  evm.Call at depth 0                          -> out=.. gas=.. ret=.. tr=..
  TXCREATE origin value gas <prog>                   evm.Create at depth 0                        -> out=.. gas=.. ret=.. addr=.. tr=..
  DUMP a,b,c s1,s2                                   observable state of the listed accounts      -> ...
  FINAL                                              Finalise(true)                               -> ok

  <prog> (prefix notation, numbers decimal, addresses/hashes hex, data hex | - | z<n>):
    S pre | R pre data | V pre data | I pre | D pre ben
    G n <rest> | W pre k v <rest> | L pre n t1..tn <rest>
    C kind pre mem addr value gas <callee> <rest>      kind: c | cc | d | s
    N pre value <init> <rest> | M pre hashCost value salt initHash <init> <rest>
-/
import YouVerif.C16.Model
import YouVerif.Common.Hex
import YouVerif.Common.Keccak
import YouVerif.Common.Rlp
open YouVerif.Common YouVerif.C16

def hexNat? (s : String) : Option Nat :=
  if s.isEmpty then none else
  s.toList.foldlM (fun acc c => (hexVal? c).map (acc * 16 + ·)) 0

def hexOfNat (width : Nat) (n : Nat) : String := hexOfList (bytesOfNatBEFixed width n)
def addrHex (a : Nat) : String := hexOfNat 20 a

def data? (s : String) : Option Bytes :=
  if s == "-" then some []
  else if s.startsWith "z" then (s.drop 1).toNat?.map fun n => List.replicate n 0
  else bytesOfHex? s

def keccakNat (bs : List UInt8) : Nat := natOfBytesBE ((Keccak.hash bs).drop 12)

/-- precompiles 1-4 on EMPTY input (the only way the harness calls them): required gas and output -/
def precompileEmpty : Addr → Option (Nat × Bytes)
  | 1 => some (3000, [])                                                       -- ecrecover: invalid signature, no output
  | 2 => some (60, (bytesOfHex? "e3b0c44298fc1c149afbf4c8996fb92427ae41e4649b934ca495991b7852b855").getD [])
  | 3 => some (600, (bytesOfHex? "0000000000000000000000009c1185a5c5e9fc54612808977ee8f548b2258d31").getD [])
  | 4 => some (15, [])                                                         -- identity
  | _ => none

def theEnv : Env where
  precompile := precompileEmpty
  maxDepth := 1024
  createAddr := fun sender nonce =>
    keccakNat (Rlp.encode (.list [.str (bytesOfNatBEFixed 20 sender), Rlp.ofNat nonce]))
  create2Addr := fun sender salt initHash =>
    keccakNat ([0xff] ++ bytesOfNatBEFixed 20 sender ++ bytesOfNatBEFixed 32 salt ++ bytesOfNatBEFixed 32 initHash)

def kind? : String → Option Kind
  | "c" => some .call | "cc" => some .callcode | "d" => some .delegate | "s" => some .static | _ => none

/-- recursive-descent parser over the token list -/
partial def parseProg : List String → Option (Prog × List String)
  | "S" :: p :: r => do some (.stop (← p.toNat?), r)
  | "R" :: p :: d :: r => do some (.ret (← p.toNat?) (← data? d), r)
  | "V" :: p :: d :: r => do some (.revert (← p.toNat?) (← data? d), r)
  | "I" :: p :: r => do some (.invalid (← p.toNat?), r)
  | "D" :: p :: b :: r => do some (.selfdestruct (← p.toNat?) (← hexNat? b), r)
  | "G" :: n :: r => do
    let (rest, r') ← parseProg r
    some (.gas (← n.toNat?) rest, r')
  | "W" :: p :: k :: v :: r => do
    let (rest, r') ← parseProg r
    some (.sstore (← p.toNat?) (← k.toNat?) (← v.toNat?) rest, r')
  | "L" :: p :: n :: r => do
    let n ← n.toNat?
    let ts ← (r.take n).mapM String.toNat?
    if ts.length != n then none
    let (rest, r') ← parseProg (r.drop n)
    some (.log (← p.toNat?) ts rest, r')
  | "C" :: k :: p :: m :: a :: v :: g :: r => do
    let (callee, r1) ← parseProg r
    let (rest, r2) ← parseProg r1
    some (.call (← kind? k) (← p.toNat?) (← m.toNat?) (← hexNat? a) (← v.toNat?) (← g.toNat?) callee rest, r2)
  | "N" :: p :: v :: r => do
    let (init, r1) ← parseProg r
    let (rest, r2) ← parseProg r1
    some (.create (← p.toNat?) (← v.toNat?) init rest, r2)
  | "M" :: p :: h :: v :: s :: ih :: r => do
    let (init, r1) ← parseProg r
    let (rest, r2) ← parseProg r1
    some (.create2 (← p.toNat?) (← h.toNat?) (← v.toNat?) (← hexNat? s) (← hexNat? ih) init rest, r2)
  | _ => none

def errName : Err → String
  | .oog => "oog" | .invalid => "invalid" | .writeProt => "wprot" | .depth => "depth" | .balance => "balance"
  | .collision => "collision" | .codeStore => "codestore" | .maxCode => "maxcode"

def outName : Out → String
  | .ok _ => "ok" | .revert _ => "revert" | .err e => "err-" ++ errName e | .crash => "crash"

def outData : Out → Bytes
  | .ok d => d | .revert d => d | _ => []

def showData (d : Bytes) : String := if d.isEmpty then "-" else hexOfList d

def showEv (e : Ev) : String :=
  s!"{e.depth}:{e.tag}:{outName e.out}:{e.gas}:{e.after}:{addrHex e.addr}"

def showFrame (c : FrameRes) (extra : String) : String :=
  let evs := ",".intercalate (c.tr.reverse.map showEv)
  s!"out={outName c.out} gas={c.returned} ret={showData (outData c.out)}{extra} tr={if evs.isEmpty then "-" else evs}"

def kv? (s : String) : Option (Nat × Nat) :=
  match s.splitOn "=" with
  | [k, v] => do some (← k.toNat?, ← v.toNat?)
  | _ => none

def checkConst (s : String) : Option String :=
  let table : List (String × Nat) := [
    ("CallGas", gCall), ("CallValueTransferGas", gCallValue), ("CallNewAccountGas", gNewAccount), ("CallStipend", gStipend),
    ("CreateGas", gCreate), ("Create2Gas", gCreate), ("CreateDataGas", gCodeDeposit), ("MaxCodeSize", maxCodeSize),
    ("SelfdestructGas", gSelfdestruct), ("CreateBySelfdestructGas", gSelfdestructNew), ("SuicideRefundGas", rSelfdestruct),
    ("LogGas", gLog), ("LogTopicGas", gLogTopic), ("SstoreSentryGas", gSstoreSentry), ("SstoreNoopGas", gSstoreNoop),
    ("SstoreDirtyGas", gSstoreDirty), ("SstoreInitGas", gSstoreInit), ("SstoreCleanGas", gSstoreClean),
    ("SstoreInitRefund", rSstoreInit), ("SstoreCleanRefund", rSstoreClean), ("SstoreClearRefund", rSstoreClear),
    ("CallCreateDepth", theEnv.maxDepth), ("EcrecoverGas", 3000), ("Sha256BaseGas", 60), ("Ripemd160BaseGas", 600),
    ("IdentityBaseGas", 15)]
  match s.splitOn "=" with
  | [k, v] =>
    match table.find? (·.1 == k), v.toNat? with
    | some (_, m), some g => if m == g then none else some s!"{k} model={m} go={g}"
    | _, _ => some s!"{k} unknown"
  | _ => some s!"{s} malformed"

/-- Empty accounts are shown as non-existent (canonical form shared with the harness): the real Finalise(true)
    deletes only *dirty* empty objects, and an object re-created over a deleted one by GetOrNewStateObject is not
    dirtied (resetObjectChange), so whether an empty account "exists" in the cache is not a function of the
    model's state; it is never written to the trie and no EVM-visible getter except Exist can tell. -/
def dumpAcct (w : World) (slots : List Nat) (a : Nat) : String :=
  if w.isEmpty a then s!"{addrHex a}:0:0:0:-:0:" else
  let st := slots.filterMap fun k =>
    let v := w.storOf a k; let o := w.origOf a k
    if v == 0 && o == 0 then none else some s!"{k}={v}/{o}"
  s!"{addrHex a}:{if w.isLive a then 1 else 0}:{w.nonceOf a}:{w.balOf a}:{showData (w.codeOf a)}:{if w.hasSuicided a then 1 else 0}:{",".intercalate st}"

def dump (w : World) (addrs slots : List Nat) : String :=
  let logs := w.logs.reverse.map fun l => "/".intercalate (addrHex l.addr :: l.topics.map toString) ++ s!"@{l.index}"
  " ".intercalate (addrs.map (dumpAcct w slots)) ++ s!" logs={if logs.isEmpty then "-" else ",".intercalate logs}#{w.logSize} refund={w.refund}"

def step (w : World) (line : String) : World × String :=
  match fields line with
  | "RESET" :: _ => (World.init, "ok")
  | "CONST" :: rest =>
    match rest.filterMap checkConst with
    | [] => (w, "ok")
    | bad => (w, "mismatch " ++ " ".intercalate bad)
  | "ACCT" :: a :: n :: b :: c :: kvs =>
    match hexNat? a, n.toNat?, b.toNat?, data? c, kvs.mapM kv? with
    | some a, some n, some b, some c, some kvs =>
      let st : Word → Word := fun k => ((kvs.find? (·.1 == k)).map (·.2)).getD 0
      (w.set a ⟨true, n, b, c, st, st, false⟩, "ok")
    | _, _, _, _, _ => (w, "bad-op")
  | "TXCALL" :: o :: t :: v :: g :: rest =>
    match hexNat? o, hexNat? t, v.toNat?, g.toNat?, parseProg rest with
    | some o, some t, some v, some g, some (p, []) =>
      let c := txCall theEnv o t v g p w
      (c.w, showFrame c "")
    | _, _, _, _, _ => (w, "bad-op")
  | "TXCREATE" :: o :: v :: g :: rest =>
    match hexNat? o, v.toNat?, g.toNat?, parseProg rest with
    | some o, some v, some g, some (p, []) =>
      let c := txCreate theEnv o v g p w
      (c.w, showFrame c s!" addr={addrHex (theEnv.createAddr o (w.nonceOf o))}")
    | _, _, _, _ => (w, "bad-op")
  | ["DUMP", as, ss] =>
    match (as.splitOn ",").mapM hexNat?, (if ss == "-" then some [] else (ss.splitOn ",").mapM String.toNat?) with
    | some as, some ss => (w, dump w as ss)
    | _, _ => (w, "bad-op")
  | "FINAL" :: _ => (w.finalise, "ok")
  | _ => (w, "bad-op")

def main : IO Unit := runLoop World.init step
