/-
Line-protocol driver for C06 (all numbers decimal, single spaces).

  RP v5 rC rS rH thr coeff pool gas  cCnt cStk cRew sCnt sStk sRew hCnt hStk hRew residue  propRole o1 o2
        blockRewards + rewardsToPool; roles are 1 2 3; o1, o2 are iteration orders written as digit strings ("312", "-" = empty)
        -> ok <subsidy> <proposerReward> <residue> <cRew> <sRew> <hRew> | crash
  DR o3 totalOnlineStake cur gap  cCnt cStk cRew sCnt sStk sRew hCnt hStk hRew  n (role stake offline lastSettled)*n
        -> ok <cRew> <sRew> <hRew> | <reward>* | <settled 0/1>* | err | crash
  SL hdrNum head maxExpired expelRounds  nv (addr token offline expelled expelExpired takeTotal takeFromToken)*nv  ne (id wellFormed round signer|-)*ne
        builder (slashing) on the pool, then importer (replaySlashing) of the resulting SlashData with the given head
        -> ok c=<ids> p=<ids> logs=<addr:total,...> pen=<n> vals=<addr:token:offline:expelled:expelExpired,...> replay=<same|DIFFERENT>
  SORT n (stake token addr)*n   -> addresses in GetValidators order
-/
import YouVerif.C06.Model
import YouVerif.Common.Hex
open YouVerif.Common YouVerif.C06

def roleOf? : Nat → Option Role
  | 1 => some .chancellor | 2 => some .senator | 3 => some .house | _ => none

def orderOf? (s : String) : Option (List Role) :=
  if s == "-" then some [] else s.toList.mapM fun c => roleOf? (c.toNat - 48)

def b01 (b : Bool) : String := if b then "1" else "0"
def joinNat (l : List Nat) : String := " ".intercalate (l.map toString)

def statOf : List Nat → Option (Stat × List Nat)
  | cc :: cs :: cr :: sc :: ss :: sr :: hc :: hs :: hr :: rest =>
    some ({ c := ⟨cc, cs, cr⟩, s := ⟨sc, ss, sr⟩, h := ⟨hc, hs, hr⟩, residue := 0 }, rest)
  | _ => none

def doRP (f : List String) : String :=
  match f with
  | [v5, rC, rS, rH, thr, coeff, pool, gas, cc, cs, cr, sc, ss, sr, hc, hs, hr, residue, pr, o1, o2] =>
    match [v5, rC, rS, rH, thr, coeff, pool, gas, cc, cs, cr, sc, ss, sr, hc, hs, hr, residue, pr].mapM nat?, orderOf? o1, orderOf? o2 with
    | some [v5, rC, rS, rH, thr, coeff, pool, gas, cc, cs, cr, sc, ss, sr, hc, hs, hr, residue, pr], some o1, some o2 =>
      match roleOf? pr with
      | none => "bad-op"
      | some pr =>
        let cfg : RewardCfg := ⟨rC, rS, rH, thr, coeff, v5 != 0⟩
        let st : Stat := { c := ⟨cc, cs, cr⟩, s := ⟨sc, ss, sr⟩, h := ⟨hc, hs, hr⟩, residue := residue }
        match endBlockRewards o1 o2 [] cfg st pr pool gas false 0 [] 0 0 with
        | .ok (st', prop, subsidy, _) => s!"ok {subsidy} {prop} {st'.residue} {st'.c.rewards} {st'.s.rewards} {st'.h.rewards}"
        | .err => "err"
        | .crash => "crash"
    | _, _, _ => "bad-op"
  | _ => "bad-op"

def valsOf : Nat → List Nat → Option (List Val)
  | 0, [] => some []
  | n + 1, r :: stake :: off :: ls :: rest => do
    let role ← roleOf? r
    let t ← valsOf n rest
    pure (⟨role, stake, off != 0, ls⟩ :: t)
  | _, _ => none

def doDR (f : List String) : String :=
  match f with
  | o3 :: rest =>
    match orderOf? o3, rest.mapM nat? with
    | some o3, some (tot :: cur :: gap :: nums) =>
      match statOf nums with
      | some (st, n :: vs) =>
        match valsOf n vs with
        | some vals =>
          match distributeRewards o3 st tot vals cur gap with
          | .ok (st', rw, se) => s!"ok {st'.c.rewards} {st'.s.rewards} {st'.h.rewards} | {joinNat rw} | {" ".intercalate (se.map b01)}"
          | .err => "err"
          | .crash => "crash"
        | none => "bad-op"
      | _ => "bad-op"
    | _, _ => "bad-op"
  | _ => "bad-op"

structure SV where
  addr : Nat
  v : SVal
  take : Nat
  fromToken : Nat

def svalsOf : Nat → List String → Option (List SV × List String)
  | 0, rest => some ([], rest)
  | n + 1, a :: tok :: off :: ex :: ee :: tk :: ft :: rest => do
    let a ← nat? a; let tok ← nat? tok; let off ← nat? off; let ex ← nat? ex; let ee ← nat? ee; let tk ← nat? tk; let ft ← nat? ft
    let (t, r) ← svalsOf n rest
    pure (⟨a, ⟨tok, off != 0, ex != 0, ee⟩, tk, ft⟩ :: t, r)
  | _, _ => none

def evsOf : Nat → List String → Option (List Ev)
  | 0, [] => some []
  | n + 1, i :: w :: r :: s :: rest => do
    let i ← nat? i; let w ← nat? w; let r ← nat? r
    let sg ← if s == "-" then some none else (nat? s).map some
    let t ← evsOf n rest
    pure (⟨i, w != 0, r, sg⟩ :: t)
  | _, _ => none

def showSVal (a : Nat) : Option SVal → String
  | none => s!"{a}:-"
  | some v => s!"{a}:{v.token}:{b01 v.offline}:{b01 v.expelled}:{v.expelExpired}"

def doSL (f : List String) : String :=
  match f with
  | hn :: head :: mx :: er :: nv :: rest =>
    match [hn, head, mx, er, nv].mapM nat? with
    | some [hn, head, mx, er, nv] =>
      match svalsOf nv rest with
      | some (svs, ne :: rest') =>
        match nat? ne >>= fun ne => evsOf ne rest' with
        | some evs =>
          -- `take` is a table keyed by the validator's token (the harness passes what the real takePenalty took)
          let st : SState := { vals := fun k => (svs.find? (·.addr == k)).map (·.v), penaltyAccount := 0 }
          let cfg : SlashCfg := { maxExpired := mx, expelRounds := er,
                                  take := fun v => match svs.find? (fun s => s.v == v) with | some s => s.take | none => 0,
                                  fromToken := fun v => match svs.find? (fun s => s.v == v) with | some s => s.fromToken | none => 0 }
          let (r, sd) := slashing cfg hn st evs
          let i := replaySlashing cfg head hn st sd
          let keys := svs.map (·.addr)
          let same := decide (i.view keys = r.view keys)
          let ids (l : List Ev) := ",".intercalate (l.map fun e => toString e.id)
          let logs := ",".intercalate (r.logs.map fun (a, t) => s!"{a}:{t}")
          let vals := ",".intercalate (keys.map fun a => showSVal a (r.st.vals a))
          s!"ok c={ids sd} p={ids r.pending} logs={logs} pen={r.st.penaltyAccount} vals={vals} replay={if same then "same" else "DIFFERENT"}"
        | none => "bad-op"
      | _ => "bad-op"
    | _ => "bad-op"
  | _ => "bad-op"

def vkeysOf : Nat → List Nat → Option (List VKey)
  | 0, [] => some []
  | n + 1, s :: t :: a :: rest => (vkeysOf n rest).map (⟨s, t, a⟩ :: ·)
  | _, _ => none

def doSORT (f : List String) : String :=
  match f.mapM nat? with
  | some (n :: rest) =>
    match vkeysOf n rest with
    | some ks => joinNat ((getValidators ks).map (·.addr))
    | none => "bad-op"
  | _ => "bad-op"

def step (_ : Unit) (line : String) : Unit × String :=
  match fields line with
  | "RP" :: f => ((), doRP f)
  | "DR" :: f => ((), doDR f)
  | "SL" :: f => ((), doSL f)
  | "SORT" :: f => ((), doSORT f)
  | _ => ((), "bad-op")

def main : IO Unit := runLoop () step
