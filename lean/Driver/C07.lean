/-
Line-protocol driver for C07 (ledger model). All ids are decimal Nat, all amounts decimal Int.
  RESET                                                        -> ok
  ACC id balance nonce                                         -> ok
  GVAL id operator coinbase role status token                  -> ok
  BEGIN number gasLimit                                        -> ok
  TXT from nonce gasLimit price intrinsic to value             -> inc <gas> <failed 0|1> | skip
  TXK from nonce gasLimit price intrinsic to value failed gasUsed refund burnt [a b x]*   (observed EVM outcome)
  TXS from nonce gasLimit price intrinsic decodeOK kind val value aux a b c d
  EVID validator                                               -> ok | crash   (accepted double-sign evidence, before END)
  END coinbase [d v]*                                          -> ok <lost-by-stale-settlement> <lost-with-removed-validators> | crash
  DUMP                                                         -> canonical ledger line (same format as the harness)
  TOTAL                                                        -> the conserved quantity
-/
import YouVerif.C07.Model
import YouVerif.Common.Hex
open YouVerif.Common YouVerif.C07

structure DS where
  p : Params := {}
  s : St := {}

def insSorted (x : Addr × String) : List (Addr × String) → List (Addr × String)
  | [] => [x]
  | y :: t => if x.1 ≤ y.1 then x :: y :: t else y :: insSorted x t

def sortById (l : List (Addr × String)) : List (Addr × String) := l.foldl (fun acc x => insSorted x acc) []

def showVal (v : Val) : String :=
  let ds := String.intercalate "," (v.delegs.map fun d => s!"{d.who}:{d.token}:{d.stake}")
  s!"V {v.addr} cb={v.coinbase} op={v.operator} r={v.role} s={v.status} t={v.token} st={v.selfToken} k={v.stake} sk={v.selfStake} rw={v.rewards} ls={v.lastSettled} c={v.commission} ro={v.risk} ad={v.accept} ex={if v.expelled then 1 else 0} ee={v.expelExpired} la={v.lastActive} d={ds}"

def dump (s : St) : String :=
  let accs := sortById ((s.bal.filter (fun e => e.2 ≠ 0)).map fun e => (e.1, s!" {e.1}:{e.2}"))
  let vals := sortById (s.vals.map fun v => (v.addr, " | " ++ showVal v))
  let q := s.queue.map fun r => s!" {r.validator}/{r.delegator}/{r.recipient}/{r.final}/{if r.finished then 1 else 0}/{r.completion}"
  "A" ++ String.join (accs.map (·.2)) ++ String.join (vals.map (·.2))
    ++ s!" | P {s.pool1} {s.pool2} {s.pool3} res={s.residue}" ++ " | Q" ++ String.join q ++ s!" | N {pendingValue s.recs}"

def showOut (o : TxOut) : String :=
  match o with
  | .skipped => "skip"
  | .included g f => s!"inc {g} {if f then 1 else 0}"

def pairs : List Nat → List (Addr × Addr)
  | a :: b :: t => (a, b) :: pairs t
  | _ => []

def triples : List Int → List (Addr × Addr × Int)
  | a :: b :: x :: t => (a.toNat, b.toNat, x) :: triples t
  | _ => []

def mkTx (hd : List Int) (body : TxBody) : Option Tx :=
  match hd with
  | [f, n, g, pr, i] => some { sender := f.toNat, nonce := n.toNat, gasLimit := g.toNat, price := pr.toNat, intrinsic := i.toNat, body := body }
  | _ => none

def doTx (d : DS) (t : Option Tx) : DS × String :=
  match t with
  | none => (d, "bad-op")
  | some t => let (s, o) := applyTx d.p d.s t; ({ d with s := s }, showOut o)

def step (d : DS) (line : String) : DS × String :=
  match fields line with
  | ["RESET"] => ({}, "ok")
  | "ACC" :: rest =>
    match rest.mapM int? with
    | some [id, b, n] => ({ d with s := { d.s with bal := addI d.s.bal id.toNat b, nonce := setN d.s.nonce id.toNat n.toNat } }, "ok")
    | _ => (d, "bad-op")
  | "GVAL" :: rest =>
    match rest.mapM int? with
    | some [id, op, cb, role, st, tok] =>
      let k := tok / d.p.unit
      let v : Val := { addr := id.toNat, operator := op.toNat, coinbase := cb.toNat, role := role.toNat, status := st.toNat, token := tok, stake := k,
                       selfToken := tok, selfStake := k, rewards := 0, lastSettled := 0, commission := 0, risk := 0, accept := 0,
                       expelled := false, expelExpired := 0, lastInactive := 0, lastActive := 0, delegs := [] }
      ({ d with s := { d.s with vals := putVal d.s.vals v } }, "ok")
    | _ => (d, "bad-op")
  | "BEGIN" :: rest =>
    match rest.mapM nat? with
    | some [n, g] => ({ d with s := (YouVerif.C07.step d.p d.s (.beginBlock n g)).1 }, "ok")
    | _ => (d, "bad-op")
  | "TXT" :: rest =>
    match rest.mapM int? with
    | some l => match l.drop 5 with
      | [to, v] => doTx d (mkTx (l.take 5) (.transfer to.toNat v))
      | _ => (d, "bad-op")
    | none => (d, "bad-op")
  | "TXK" :: rest =>
    match rest.mapM int? with
    | some l => match l.drop 5 with
      | to :: v :: failed :: gu :: rf :: burnt :: mv => doTx d (mkTx (l.take 5) (.evm to.toNat v (failed != 0) gu.toNat rf.toNat burnt (triples mv)))
      | _ => (d, "bad-op")
    | none => (d, "bad-op")
  | "TXS" :: rest =>
    match rest.mapM int? with
    | some l => match l.drop 5 with
      | [ok, kind, val, value, aux, a, b, c, dd] =>
        let hd := l.take 5
        let pt : PTx := { kind := kind.toNat, sender := (hd.headD 0).toNat, val := val.toNat, value := value, aux := aux.toNat,
                          a := a.toNat, b := b.toNat, c := c.toNat, d := dd.toNat, nonce := (hd.getD 1 0).toNat }
        doTx d (mkTx hd (.staking (ok != 0) pt))
      | _ => (d, "bad-op")
    | none => (d, "bad-op")
  | ["EVID", a] =>
    match nat? a with
    | some a => match evidenceStep d.p d.s a with
      | (s, .ok) => ({ d with s := s }, "ok")
      | (s, .crash) => ({ d with s := s }, "crash")
    | none => (d, "bad-op")
  | "END" :: rest =>
    match rest.mapM nat? with
    | some (cb :: order) =>
      match endBlock d.p d.s cb (pairs order) with
      | (s, .ok) => ({ d with s := s }, s!"ok {s.lost} {s.lostDel} {s.lostOther}")
      | (s, .crash) => ({ d with s := s }, "crash")
    | _ => (d, "bad-op")
  | ["DUMP"] => (d, dump d.s)
  | ["TOTAL"] => (d, s!"{total d.s}")
  | _ => (d, "bad-op")

def main : IO Unit := runLoop ({} : DS) step
