/-
Line-protocol driver for C20 (transaction pool model).  All tokens are decimal numbers unless noted.

  init AS GS AQ GQ bump priceLimit gasLimit N (nonce balance)*N
  add L ORD K (tx)*K                      tx = id sender nonce price gas value intr flags ; ORD = "-" or "2,0,1"
  reset ORD kind gasLimit C (acct nonce balance)*C D (tx)*D I (tx)*I      kind 0 normal, 1 early return
  price P
  remove OOB tx
  evict ORD K
  promote ORD
A line prefixed with "T " is evaluated without committing the new state.
  SAVE      remember the current state        -> ok
  RESTORE   go back to the remembered state   -> ok
Reply: `<results> <dump>` where results = "-" or a comma list over the submitted transactions and dump is the
canonical text of every view (see `dump`).
-/
import YouVerif.C20.Model
import YouVerif.Common.Hex
open YouVerif.Common YouVerif.C20

def joinWith (sep : String) (l : List String) : String := sep.intercalate l

def insertSorted (a : Nat) : List Nat → List Nat
  | [] => [a]
  | x :: xs => if a ≤ x then a :: x :: xs else x :: insertSorted a xs
def sortNat (l : List Nat) : List Nat := l.foldl (fun acc a => insertSorted a acc) []

def ids (l : List Tx) : String := joinWith "." (l.map (fun t => toString t.id))
def sortedIds (l : List Tx) : String := joinWith "." ((sortNat (l.map (·.id))).map toString)

def idxList (n : Nat) : List Nat := List.range n

def dumpLists (s : State) (sel : Account → TxList) : String :=
  joinWith ";" ((idxList s.n).filterMap (fun a =>
    let l := sel (s.acct a)
    if l.txs.isEmpty then none else some s!"{a}:{ids l.txs}/{l.costcap}/{l.gascap}"))

def dump (s : State) : String :=
  let beatsAccts := (idxList s.n).filter (fun a => (s.acct a).beat > 0)
  let byBeat := beatsAccts.foldl (fun acc a => insertAsc (fun a => (s.acct a).beat) a acc) []
  let live := s.priced.filter (fun t => t ∈ s.all)
  joinWith "|" [
    "P=" ++ dumpLists s (·.pending),
    "Q=" ++ dumpLists s (·.queue),
    "A=" ++ sortedIds s.all,
    "R=" ++ sortedIds live,
    s!"D={(s.priced.length : Int) - s.stales}",
    "N=" ++ joinWith "." ((idxList s.n).map (fun a => toString (s.acct a).pnGet)),
    "S=" ++ joinWith "." ((idxList s.n).map (fun a => s!"{(s.acct a).nonce}:{(s.acct a).balance}")),
    "B=" ++ joinWith "." (byBeat.map toString),
    "L=" ++ joinWith "." (((idxList s.n).filter (fun a => (s.acct a).isLocal)).map toString),
    s!"G={s.gasPrice}",
    s!"M={s.maxGas}" ]

def resStr : Except Err Bool → String
  | .ok false => "ok"
  | .ok true => "okr"
  | .error e => e.str

def parseOrd (s : String) : Option (List Nat) :=
  if s == "-" then some [] else (s.splitOn ",").mapM nat?

def mkTx : List Nat → Option Tx
  | [i, f, n, p, g, v, intr, fl] => some { id := i, sender := f, nonce := n, price := p, gas := g, value := v, intr := intr, flags := fl }
  | _ => none

/-- take `k` transactions (8 numbers each) from the front -/
def takeTxs : Nat → List Nat → Option (List Tx × List Nat)
  | 0, rest => some ([], rest)
  | k + 1, rest =>
    match mkTx (rest.take 8) with
    | some t =>
      match takeTxs k (rest.drop 8) with
      | some (ts, r) => some (t :: ts, r)
      | none => none
    | none => none

def takeTriples : Nat → List Nat → Option (List (Nat × Nat × Nat) × List Nat)
  | 0, rest => some ([], rest)
  | k + 1, a :: n :: b :: rest =>
    match takeTriples k rest with
    | some (ts, r) => some ((a, n, b) :: ts, r)
    | none => none
  | _, _ => none

def takePairs : Nat → List Nat → Option (List (Nat × Nat))
  | 0, [] => some []
  | k + 1, n :: b :: rest => (takePairs k rest).map ((n, b) :: ·)
  | _, _ => none

def parseOp (f : List String) : Option Op :=
  match f with
  | "add" :: l :: ord :: k :: rest => do
    let l ← nat? l; let ord ← parseOrd ord; let k ← nat? k
    let nums ← rest.mapM nat?
    let (txs, r) ← takeTxs k nums
    if r.isEmpty then some (.add (l != 0) ord txs) else none
  | "reset" :: ord :: kind :: gl :: rest => do
    let ord ← parseOrd ord; let kind ← nat? kind; let gl ← nat? gl
    let nums ← rest.mapM nat?
    match nums with
    | c :: r1 =>
      let (ch, r2) ← takeTriples c r1
      match r2 with
      | d :: r3 =>
        let (disc, r4) ← takeTxs d r3
        match r4 with
        | i :: r5 =>
          let (incl, r6) ← takeTxs i r5
          if r6.isEmpty then some (.reset ord (if kind == 0 then .normal else .early) gl ch disc incl) else none
        | _ => none
      | _ => none
    | _ => none
  | ["price", p] => do let p ← nat? p; some (.setPrice p)
  | "remove" :: oob :: rest => do
    let oob ← nat? oob
    let nums ← rest.mapM nat?
    let t ← mkTx nums
    some (.remove t (oob != 0))
  | ["evict", ord, k] => do let ord ← parseOrd ord; let k ← nat? k; some (.evict ord k)
  | ["promote", ord] => do let ord ← parseOrd ord; some (.promote ord)
  | _ => none

def parseInit (f : List String) : Option State :=
  match f.mapM nat? with
  | some (as :: gs :: aq :: gq :: bump :: pl :: gl :: n :: rest) =>
    (takePairs n rest).map fun accts =>
      init { accountSlots := as, globalSlots := gs, accountQueue := aq, globalQueue := gq, priceBump := bump } pl gl accts
  | _ => none

def emptyState : State := init { accountSlots := 1, globalSlots := 1, accountQueue := 1, globalQueue := 1, priceBump := 10 } 1 0 []

def stepLine (s : State) (line : String) : State × String :=
  let f := fields line
  match f with
  | "init" :: rest =>
    match parseInit rest with
    | some s' => (s', "- " ++ dump s')
    | none => (s, "bad-op")
  | "T" :: rest =>
    match parseOp rest with
    | some op =>
      let (s', rs) := step s op
      (s, (if rs.isEmpty then "-" else joinWith "," (rs.map resStr)) ++ " " ++ dump s')
    | none => (s, "bad-op")
  | _ =>
    match parseOp f with
    | some op =>
      let (s', rs) := step s op
      (s', (if rs.isEmpty then "-" else joinWith "," (rs.map resStr)) ++ " " ++ dump s')
    | none => (s, "bad-op")

/-- current state and the state remembered by SAVE -/
def stepLine2 (st : State × State) (line : String) : (State × State) × String :=
  match fields line with
  | ["SAVE"] => ((st.1, st.1), "ok")
  | ["RESTORE"] => ((st.2, st.2), "ok")
  | _ =>
    let (s', out) := stepLine st.1 line
    ((s', st.2), out)

def main : IO Unit := runLoop (emptyState, emptyState) stepLine2
