/-
Line-protocol driver for C09: runs the StateDB model on the op lines the Go harness sends.

  reset                                   fresh state                                   -> ok
  univ <accs> <keys> <hashes> <vals>      comma lists ("-" = empty): what `dump` enumerates -> ok
  ab|sb|bal a n   non a n   code a hex   ss a k v   sui a   ca a   log p   pre h hex   ar g   sr g
  vc|vu a role status token stake misc   vr a   aw operator nonce amount   rw i,j,..   dg dlg val amt
  la a n  (UpdateLastActive the way staking does it)
  prep thash txIndex   snap   rev id   fin 0|1   root 0|1                               -> ok | ok <id> | crash
  reopen                                  Commit(true) + state.New at the committed roots (Model.reopen) -> ok
  dump                                    canonical text of the live state              -> <text>
  gstat                                   steps outside the theorems' guard / steps     -> <n> <m>
  tdump                                   canonical text of the trie contents           -> <text>
After `crash` the state is left unchanged (the harness ends the case there).
-/
import YouVerif.C09.Model
import YouVerif.C09.Guard
import YouVerif.Common.Hex
open YouVerif.Common YouVerif.C09

structure Univ where
  accs : List Nat := []
  keys : List Nat := []
  hashes : List Nat := []
  vals : List Nat := []

structure DS where
  s : State := {}
  u : Univ := {}
  opsSeen : Nat := 0      -- model steps executed since `reset`
  guardFail : Nat := 0    -- of these, steps outside the theorems' guard `OpOK` (evaluated by `opOKB`)

/-- A finite table standing for a total map.  A function-valued definition is compiled with its lookup
argument as an extra parameter, so a "function built from a table" would rebuild the table on every lookup;
the table is therefore a first-order VALUE, computed once, and only `Table.fn` is a closure over it. -/
structure Table (β : Type) where
  t : List (Nat × β)

@[noinline] def mkTable {β : Type} (keys : List Nat) (f : Nat → β) : Table β := ⟨keys.map fun k => (k, f k)⟩

def Table.fn {β : Type} (t : Table β) (dflt : β) : Nat → β :=
  fun i => match t.t.lookup i with
    | some x => x
    | none => dflt

def normObj (u : Univ) (o : Obj) : Obj :=
  let st := mkTable u.keys o.storage
  let cm := mkTable u.keys o.committed
  let ts := mkTable u.keys o.trieStorage
  { o with storage := st.fn 0, committed := cm.fn 0, trieStorage := ts.fn 0 }

def normLeaf (u : Univ) (l : Leaf) : Leaf :=
  let st := mkTable u.keys l.storage
  { l with storage := st.fn 0 }

/-- Re-tabulate every total map over the finite universe the harness uses.  Semantically the identity on
the universe; it only keeps the closure chains of the function-valued model fields short (speed). -/
def normalize (u : Univ) (s : State) : State :=
  let objs := mkTable u.accs fun a => (s.a.objs a).map (normObj u)
  let logs := mkTable u.hashes s.a.logs
  let pre := mkTable u.hashes s.a.preimages
  let extra := mkTable u.accs s.a.extra
  let pending := mkTable u.accs s.a.pending
  let dirtyObjs := mkTable u.accs s.a.dirtyObjs
  let trie := mkTable u.accs fun a => (s.a.trie a).map (normLeaf u)
  let vals := mkTable u.vals s.v.vals
  let index := mkTable u.vals s.v.index
  let stat := mkTable (List.range 6) s.v.stat
  let trieVals := mkTable u.vals s.v.trieVals
  let trieIndex := mkTable u.vals s.v.trieIndex
  let trieStat := mkTable (List.range 6) s.v.trieStat
  { s with
    a := { s.a with objs := objs.fn none, logs := logs.fn [], preimages := pre.fn none, extra := extra.fn 0,
                    pending := pending.fn false, dirtyObjs := dirtyObjs.fn false, trie := trie.fn none }
    v := { s.v with vals := vals.fn none, index := index.fn false, stat := stat.fn {}, trieVals := trieVals.fn none,
                    trieIndex := trieIndex.fn false, trieStat := trieStat.fn {} } }

def natList? (s : String) : Option (List Nat) :=
  if s == "-" then some [] else (s.splitOn ",").mapM nat?

def join (sep : String) (l : List String) : String := sep.intercalate l

def b01 (b : Bool) : String := if b then "1" else "0"

def showStore (u : Univ) (f : Nat → Nat) : String :=
  join ";" ((u.keys.filter fun k => f k != 0).map fun k => s!"{k}={f k}")

def showObj (u : Univ) (a : Nat) (o : Option Obj) : String :=
  match o with
  | none => s!"{a}:-"
  | some o =>
    if o.deleted then s!"{a}:D,{b01 o.suicided},{o.nonce},{o.balance}"
    else s!"{a}:E,{b01 o.suicided},{o.nonce},{o.balance},{if o.code.isEmpty then "-" else o.code},{o.dlgBalance},[{join "+" (o.dlgs.map toString)}],S[{showStore u o.storage}],C[{showStore u o.committed}]"

/-- `Ext` by value: version, raw `Data` bytes (hexutil.Uint64ToBytes: compact big-endian, 0 ↦ 00), `LastActive()` -/
def showExt : Option Nat → String
  | none => "x0.-.0"
  | some n => s!"x1.{if n = 0 then "00" else hexOfList (bytesOfNatBE n)}.{n}"

def showVal (a : Nat) (v : Option Val) : String :=
  match v with
  | none => s!"{a}:-"
  | some v =>
    s!"{a}:{v.role},{v.status},{v.token},{v.stake},{v.selfToken},{v.selfStake},{v.misc},{showExt v.ext},{b01 v.deleted},[{join ";" (v.delegs.map fun d => s!"{d.delegator}.{d.stake}.{d.token}")}]"

def showKS (k : KS) : String := s!"{k.onStake},{k.onToken},{k.onCount},{k.offStake},{k.offToken},{k.offCount}"
def showStat (s : Stat) : String := join "/" ((List.range 6).map fun b => showKS (s b))
def showQueue (q : List WRec) : String := join ";" (q.map fun r => s!"{r.operator}.{r.nonce}.{r.amount}")

def dump (ds : DS) : String :=
  let s := ds.s; let u := ds.u
  let accs := join " " (u.accs.map fun a => showObj u a (s.a.objs a))
  let logs := join " " (u.hashes.map fun h => s!"{h}:[{join ";" ((s.a.logs h).map fun l => s!"{l.payload}.{l.index}.{l.txIndex}")}]")
  let pre := join " " (u.hashes.map fun h => s!"{h}={(s.a.preimages h).getD "-"}")
  let dirt := join " " ((u.accs.filter fun a => s.accDirty a != 0).map fun a => s!"{a}={s.accDirty a}")
  let vals := join " " (u.vals.map fun a => showVal a (s.v.vals a))
  let idx := join "," ((u.vals.filter fun a => s.v.index a).map toString)
  let vdirt := join " " ((u.vals.filter fun a => s.valDirty a != 0).map fun a => s!"{a}={s.valDirty a}")
  s!"A {accs} | refund {s.a.refund} | logs {logs} | logSize {s.a.logSize} | pre {pre} | dirt {dirt} | V {vals} | idx {idx} | stat {showStat s.v.stat} | q {showQueue s.v.queue} | vdirt {vdirt} | lens {s.revs.length} {s.valRevs.length} {s.aj.length} {s.vj.length}"

def showLeaf (u : Univ) (a : Nat) (l : Option Leaf) : String :=
  match l with
  | none => s!"{a}:-"
  | some l => s!"{a}:{l.nonce},{l.balance},{if l.code.isEmpty then "-" else l.code},{l.dlgBalance},S[{showStore u l.storage}]"

def showTrieVal (a : Nat) (v : Option Val) : String := showVal a (v.map fun v => { v with deleted := false })

def tdump (ds : DS) : String :=
  let s := ds.s; let u := ds.u
  let accs := join " " (u.accs.map fun a => showLeaf u a (s.a.trie a))
  let vals := join " " (u.vals.map fun a => showTrieVal a (s.v.trieVals a))
  let idx := join "," ((u.vals.filter fun a => s.v.trieIndex a).map toString)
  s!"A {accs} | V {vals} | idx {idx} | stat {showStat s.v.trieStat} | q {showQueue s.v.trieQueue}"

def parseOp (f : List String) : Option Op :=
  match f with
  | ["ab", a, n] => do some (.acc (.addBalance (← nat? a) (← nat? n)))
  | ["sb", a, n] => do some (.acc (.subBalance (← nat? a) (← nat? n)))
  | ["bal", a, n] => do some (.acc (.setBalance (← nat? a) (← nat? n)))
  | ["non", a, n] => do some (.acc (.setNonce (← nat? a) (← nat? n)))
  | ["code", a, c] => do some (.acc (.setCode (← nat? a) (if c == "-" then "" else c)))
  | ["ss", a, k, v] => do some (.acc (.setState (← nat? a) (← nat? k) (← nat? v)))
  | ["sui", a] => do some (.acc (.suicide (← nat? a)))
  | ["ca", a] => do some (.acc (.createAccount (← nat? a)))
  | ["log", p] => do some (.acc (.addLog (← nat? p)))
  | ["pre", h, p] => do some (.acc (.addPreimage (← nat? h) p))
  | ["ar", g] => do some (.acc (.addRefund (← nat? g)))
  | ["sr", g] => do some (.acc (.subRefund (← nat? g)))
  | ["vc", a, r, st, t, sk, m] => do
    let t ← nat? t; let sk ← nat? sk
    some (.val (.create (← nat? a) { role := ← nat? r, status := ← nat? st, token := t, stake := sk, selfToken := t, selfStake := sk, misc := ← nat? m }))
  | ["vr", a] => do some (.val (.remove (← nat? a)))
  | ["aw", o, n, amt] => do some (.val (.addWithdraw { operator := ← nat? o, nonce := ← nat? n, amount := ← nat? amt }))
  | ["rw", l] => do some (.val (.removeWithdraws (← natList? l)))
  | ["dg", d, v, amt] => do some (.deleg (← nat? d) (← nat? v) (← int? amt))
  | ["prep", h, i] => do some (.prepare (← nat? h) (← nat? i))
  | ["snap"] => some .snapshot
  | ["rev", id] => do some (.revert (← nat? id))
  | ["fin", d] => some (.finalise (d == "1"))
  | ["root", d] => some (.root (d == "1"))
  | _ => none

def stepLine (ds : DS) (line : String) : DS × String :=
  match fields line with
  | ["reset"] => ({}, "ok")
  | ["univ", a, k, h, v] =>
    match natList? a, natList? k, natList? h, natList? v with
    | some a, some k, some h, some v => ({ ds with u := { accs := a, keys := k, hashes := h, vals := v } }, "ok")
    | _, _, _, _ => (ds, "bad-op")
  | ["reopen"] => ({ ds with s := normalize ds.u (reopen ds.s) }, "ok")
  | ["gstat"] => (ds, s!"{ds.guardFail} {ds.opsSeen}")
  | ["dump"] => (ds, dump ds)
  | ["tdump"] => (ds, tdump ds)
  | ["la", a, n] =>
    -- PartialCopy → UpdateLastActive(n) → UpdateValidator(new, old): only `Ext` changes
    match nat? a, nat? n with
    | some a, some n =>
      match ds.s.v.get a with
      | none => (ds, "ok")
      | some old =>
        let op : Op := .val (.update a { old with ext := some n })
        let ds := { ds with opsSeen := ds.opsSeen + 1, guardFail := ds.guardFail + (if opOKB ds.s op then 0 else 1) }
        match step ds.s op with
        | some s' => ({ ds with s := normalize ds.u s' }, "ok")
        | none => (ds, "crash")
    | _, _ => (ds, "bad-op")
  | ["vu", a, r, st, t, sk, m] =>
    -- UpdateValidator(new, old): new = copy of the current validator with these fields replaced
    match nat? a, nat? r, nat? st, nat? t, nat? sk, nat? m with
    | some a, some r, some st, some t, some sk, some m =>
      match ds.s.v.get a with
      | none => (ds, "ok")
      | some old =>
        let op : Op := .val (.update a { old with role := r, status := st, token := t, stake := sk, misc := m })
        let ds := { ds with opsSeen := ds.opsSeen + 1, guardFail := ds.guardFail + (if opOKB ds.s op then 0 else 1) }
        match step ds.s op with
        | some s' => ({ ds with s := normalize ds.u s' }, "ok")
        | none => (ds, "crash")
    | _, _, _, _, _, _ => (ds, "bad-op")
  | f =>
    match parseOp f with
    | none => (ds, "bad-op")
    | some op =>
      let ds := { ds with opsSeen := ds.opsSeen + 1, guardFail := ds.guardFail + (if opOKB ds.s op then 0 else 1) }
      match step ds.s op with
      | none => (ds, "crash")
      | some s' =>
        match op with
        | .snapshot => ({ ds with s := s' }, s!"ok {ds.s.nextId}")
        | _ => ({ ds with s := normalize ds.u s' }, "ok")

def main : IO Unit := runLoop ({} : DS) stepLine
