/-
Line-protocol driver for C12: runs the *generated* process/verify on the inputs the Go harness sends.
  V k approved wait voteRounds threshold min max     add/replace version k in the table     -> ok
  VCLEAR                                             empty table                             -> ok
  P number cv nv na nvb nso                          process(prev) on a zero curr           -> ok cv nv na nvb nso | err n | crash
  X pn pcv pnv pna pnvb pnso  cn ccv cnv cna cnvb cnso   verify(prev, curr)                 -> ok | err n | crash
  KCLEAR                                             forget the canonical headers            -> ok
  K n cv nv na nvb nso                               append a canonical header (number = position) -> ok
  F r | h | h …                                      VersionForRoundWithParents(r, parents)  -> ok v | noheader | unknownversion | crash
-/
import YouVerif.C12.Gen
import YouVerif.C12.ModelVfr
import YouVerif.Common.Hex
open YouVerif.Common YouVerif.C12

abbrev Table := List (Nat × VParams)
def Table.toV (t : Table) : Versions := fun k => (t.find? (·.1 == k)).map (·.2)

def showRes : Res → String
  | .ok => "ok"
  | .err n => s!"err {n}"
  | .crash => "crash"

def mkHdr : List Nat → Option Hdr
  | [n, cv, nv, na, nvb, nso] => some { number := n, currVersion := cv, nextVersion := nv, nextApprovals := na, nextVoteBefore := nvb, nextSwitchOn := nso }
  | _ => none

def stepT (t : Table) (line : String) : Table × String :=
  match fields line with
  | "VCLEAR" :: _ => ([], "ok")
  | "V" :: rest =>
    match rest.mapM nat? with
    | some [k, a, w, vr, th, mn, mx] =>
      ((k, { approvedUpgradeVersion := a, upgradeWaitRounds := w, upgradeVoteRounds := vr, upgradeThreshold := th,
             minUpgradeWaitRounds := mn, maxUpgradeWaitRounds := mx }) :: t.filter (·.1 != k), "ok")
    | _ => (t, "bad-op")
  | "P" :: rest =>
    match rest.mapM nat? >>= mkHdr with
    | some prev =>
      let (r, c) := Gen.process t.toV prev {}
      match r with
      | .ok => (t, s!"ok {c.currVersion} {c.nextVersion} {c.nextApprovals} {c.nextVoteBefore} {c.nextSwitchOn}")
      | r => (t, showRes r)
    | none => (t, "bad-op")
  | "X" :: rest =>
    match rest.mapM nat? with
    | some l =>
      match mkHdr (l.take 6), mkHdr (l.drop 6) with
      | some prev, some curr => (t, showRes (Gen.verify t.toV prev curr).1)
      | _, _ => (t, "bad-op")
    | none => (t, "bad-op")
  | _ => (t, "bad-op")

structure DSt where
  t : Table := []
  canon : Array Hdr := #[]

def splitBar (l : List String) : List (List String) :=
  l.foldr (fun x acc => if x == "|" then [] :: acc else match acc with
    | [] => [[x]]
    | a :: rest => (x :: a) :: rest) [[]]

def step (s : DSt) (line : String) : DSt × String :=
  match fields line with
  | "KCLEAR" :: _ => ({ s with canon := #[] }, "ok")
  | "K" :: rest =>
    match rest.mapM nat? >>= mkHdr with
    | some h => ({ s with canon := s.canon.push h }, "ok")
    | none => (s, "bad-op")
  | "F" :: rest =>
    match splitBar rest with
    | [r] :: ps =>
      match nat? r, ps.mapM (fun p => p.mapM nat? >>= mkHdr) with
      | some r, some parents => (s, (versionForRound s.t.toV (fun n => s.canon[n]?) parents r).show)
      | _, _ => (s, "bad-op")
    | _ => (s, "bad-op")
  | _ => let (t, out) := stepT s.t line; ({ s with t := t }, out)

def main : IO Unit := runLoop ({} : DSt) step
