/-
Line-protocol driver for C19.  Hashes and blobs are decimal ids (hash 0 = zero hash, 1 = emptyRoot,
2 = emptyState; blob 0 = the empty byte string).
  RESET                                    forget blob table and state                          -> ok
  RESTART                                  a new Sync over the same database (requests, queue, membatch lost) -> ok
  BLOB id hash X                           blob `id` hashes to `hash`, does not decode as node  -> ok
  BLOB id hash N children leaf             children = `-` | h:step,h:step..   leaf = `-` | E | A | A:s5,r7,..
  DB hash blob|-                           initial database entry                               -> ok
  SUB root depth parent cb                 AddSubTrie                                           -> ok | crash
  RAW hash depth parent                    AddRawEntry                                          -> ok | crash
  MISS max h h ..                          Missing(max) answered h h .. by the implementation   -> ok | bad
  PROC h:b h:b ..                          Process                                              -> c i ok|notreq|already|err
  DELIVER b                                processNodeData(blob)                                -> c i ok|notreq|already|err
  COMMIT                                   Commit                                               -> w h h ..
  CFAIL k                                  Commit with a writer failing at Put number k         -> w h h ..
  PEND                                     Pending()                                            -> n
  DBSET                                    database content, sorted                             -> h:b,h:b..
  QUEUE                                    queued hashes, sorted                                -> h,h,..
-/
import YouVerif.C19.Model
import YouVerif.Common.Hex
open YouVerif.Common YouVerif.C19

structure DState where
  blobs : Array (Hash × View) := #[]
  st : St := St.init []

def DState.env (d : DState) : Env :=
  { view := fun b => match d.blobs[b]? with
      | some (_, v) => v
      | none => none
    H := fun b => match d.blobs[b]? with
      | some (h, _) => h
      | none => 0
    emptyRoot := 1, emptyState := 2, zeroHash := 0 }

def parsePair (s : String) : Option (Nat × Nat) :=
  match s.splitOn ":" with
  | [a, b] => do
    let x ← a.toNat?
    let y ← b.toNat?
    pure (x, y)
  | _ => none

def parseChildren (s : String) : Option (List (Hash × Nat)) :=
  if s == "-" then some [] else (s.splitOn ",").mapM parsePair

def parseAdd (s : String) : Option Add :=
  match s.toList with
  | 's' :: t => (String.ofList t).toNat?.map Add.sub
  | 'r' :: t => (String.ofList t).toNat?.map Add.raw
  | _ => none

def parseLeaf (s : String) : Option (Option Leaf) :=
  if s == "-" then some none
  else if s == "E" then some (some .err)
  else if s == "A" then some (some (.adds []))
  else match s.splitOn ":" with
    | ["A", l] => ((l.splitOn ",").mapM parseAdd).map (fun a => some (.adds a))
    | _ => none

def setBlob (a : Array (Hash × View)) (i : Nat) (x : Hash × View) : Array (Hash × View) :=
  let a := if a.size ≤ i then a ++ Array.replicate (i + 1 - a.size) (0, none) else a
  a.set! i x

def showErr : Option Err → String
  | none => "ok"
  | some .notRequested => "notreq"
  | some .alreadyProcessed => "already"
  | some .decode => "err"
  | some .callback => "err"

def showOut : Out → String
  | .ok => "ok"
  | .crash => "crash"
  | .bad => "bad"
  | .processed c i e => s!"{if c then 1 else 0} {i} {showErr e}"
  | .written l => " ".intercalate ("w" :: l.map toString)

def showBlob : Option Blob → String
  | none => "-"
  | some 0 => "-"
  | some b => toString b

def dedupKeys : List Entry → List Hash → List Entry
  | [], _ => []
  | e :: t, seen => if seen.contains e.1 then dedupKeys t seen else e :: dedupKeys t (e.1 :: seen)

def dbSet (s : St) : String :=
  let l := (dedupKeys s.db []).mergeSort (fun a b => a.1 ≤ b.1)
  ",".intercalate (l.map fun (h, b) => s!"{h}:{showBlob b}")

def apply (d : DState) (op : Op) : DState × String :=
  let (s', o) := step d.env d.st op
  ({ d with st := s' }, showOut o)

def stepLine (d : DState) (line : String) : DState × String :=
  match fields line with
  | ["RESET"] => ({}, "ok")
  | ["RESTART"] => apply d .restart
  | ["BLOB", id, h, "X"] =>
    match id.toNat?, h.toNat? with
    | some id, some h => ({ d with blobs := setBlob d.blobs id (h, none) }, "ok")
    | _, _ => (d, "bad-op")
  | ["BLOB", id, h, "N", ch, lf] =>
    match id.toNat?, h.toNat?, parseChildren ch, parseLeaf lf with
    | some id, some h, some ch, some lf => ({ d with blobs := setBlob d.blobs id (h, some { children := ch, leaf := lf }) }, "ok")
    | _, _, _, _ => (d, "bad-op")
  | ["DB", h, b] =>
    match h.toNat? with
    | some h =>
      let v : Option Blob := if b == "-" then none else b.toNat?
      ({ d with st := { d.st with db := (h, v) :: d.st.db } }, "ok")
    | none => (d, "bad-op")
  | ["SUB", r, dp, p, cb] =>
    match r.toNat?, dp.toNat?, p.toNat?, cb.toNat? with
    | some r, some dp, some p, some cb => apply d (.addSub r dp p (cb != 0))
    | _, _, _, _ => (d, "bad-op")
  | ["RAW", h, dp, p] =>
    match h.toNat?, dp.toNat?, p.toNat? with
    | some h, some dp, some p => apply d (.addRaw h dp p)
    | _, _, _ => (d, "bad-op")
  | "MISS" :: mx :: rest =>
    match mx.toNat?, rest.mapM nat? with
    | some mx, some l => apply d (.missing mx l)
    | _, _ => (d, "bad-op")
  | "PROC" :: rest =>
    match rest.mapM parsePair with
    | some l => apply d (.process l)
    | none => (d, "bad-op")
  | ["DELIVER", b] =>
    match b.toNat? with
    | some b => apply d (.deliver b)
    | none => (d, "bad-op")
  | ["COMMIT"] => apply d (.commit none)
  | ["CFAIL", k] =>
    match k.toNat? with
    | some k => apply d (.commit (some k))
    | none => (d, "bad-op")
  | ["PEND"] => (d, toString d.st.pending)
  | ["DBSET"] => (d, dbSet d.st)
  | ["QUEUE"] => (d, ",".intercalate ((d.st.queue.map (·.1)).mergeSort (fun a b => a ≤ b) |>.map toString))
  | _ => (d, "bad-op")

def main : IO Unit := runLoop ({} : DState) stepLine
