/-
Line-protocol driver for C08 (validator bookkeeping model).  One op per line, answer = "<result> # <observation>".
  cfg unit min1 min2 min3 max1 max2 max3 self1 self2 self3 minDlg v5     -> ok
  reset                                                                   -> ok
  create a role status token stake accept commission risk                 -> true|false|crash
  upd a field x | upds a field x gfield y | remove a | mkacct d | deleg d a delta
  deposit a value | withdraw a value op nonce | chstatus a s | dadd d a value | dsub d a value nonce
  penal a amount | settle a | snap | revert id | fin | iroot de | reload de | copy
-/
import YouVerif.C08.Model
import YouVerif.Common.Hex
open YouVerif.Common YouVerif.C08

structure DS where
  cfg : Cfg := {}
  st : St := {}

def showBucket (b : Bucket) : String :=
  s!"{b.onStake},{b.onToken},{b.onCount},{b.offStake},{b.offToken},{b.offCount}"

def showStats (s : Stats) : String :=
  " ".intercalate [showBucket s.kAll, showBucket s.kChamber, showBucket s.kHouse, showBucket s.rChan, showBucket s.rSen, showBucket s.rHouse]

def showVal (v : Val) : String :=
  let ds := ",".intercalate (v.dlgs.map fun x => s!"{x.d}/{x.token}/{x.stake}")
  s!"{v.addr}:{v.role}:{v.status}:{v.token}:{v.stake}:{v.selfToken}:{v.selfStake}:{v.rewards}:{if v.expelled then 1 else 0}:{v.accept}:{v.commission}:{v.risk}:[{ds}]"

def insAcct (x : Acct) : List Acct → List Acct
  | [] => [x]
  | y :: l => if x.addr ≤ y.addr then x :: y :: l else y :: insAcct x l

def showAcct (x : Acct) : String :=
  s!"{x.addr}:{x.bal}:{",".intercalate (x.dlgs.map toString)}"

def obs (s : St) : String :=
  let v := match forUpdate s with
    | none => "panic"
    | some l => ";".intercalate (l.map showVal)
  let accts := s.accts.foldl (fun acc x => insAcct x acc) []
  let q := ";".intercalate (s.queue.map fun r => s!"{r.val}/{r.dlg}/{r.final}")
  s!"S {showStats s.stats} I {",".intercalate (s.index.map toString)} V {v} A {";".intercalate (accts.map showAcct)} Q {q}"

def field? : String → Option Field
  | "role" => some .role | "status" => some .status | "token" => some .token | "stake" => some .stake
  | "selftoken" => some .selfToken | "selfstake" => some .selfStake | "rewards" => some .rewards
  | "expelled" => some .expelled | "accept" => some .accept | "risk" => some .risk | "commission" => some .commission
  | _ => none

def parseOp : List String → Option Op
  | ["create", a, r, st, tok, stk, acc, com, risk] => do
    some (.create (← nat? a) (← nat? r) (← nat? st) (← int? tok) (← int? stk) (← nat? acc) (← nat? com) (← nat? risk))
  | ["upd", a, f, x] => do some (.upd (← nat? a) (← field? f) (← int? x))
  | ["upds", a, f, x, g, y] => do some (.updStale (← nat? a) (← field? f) (← int? x) (← field? g) (← int? y))
  | ["remove", a] => do some (.remove (← nat? a))
  | ["mkacct", d] => do some (.mkacct (← nat? d))
  | ["deleg", d, a, x] => do some (.deleg (← nat? d) (← nat? a) (← int? x))
  | ["deposit", a, x] => do some (.deposit (← nat? a) (← int? x))
  | ["withdraw", a, x, op, n] => do some (.withdraw (← nat? a) (← int? x) (← nat? op) (← nat? n))
  | ["chstatus", a, x] => do some (.chstatus (← nat? a) (← nat? x))
  | ["dadd", d, a, x] => do some (.dadd (← nat? d) (← nat? a) (← int? x))
  | ["dsub", d, a, x, n] => do some (.dsub (← nat? d) (← nat? a) (← int? x) (← nat? n))
  | ["penal", a, x] => do some (.penal (← nat? a) (← int? x))
  | ["settle", a] => do some (.settle (← nat? a))
  | ["snap"] => some .snap
  | ["revert", id] => do some (.revert (← nat? id))
  | ["fin"] => some .fin
  | ["iroot", de] => do some (.iroot ((← nat? de) != 0))
  | ["reload", de] => do some (.reload ((← nat? de) != 0))
  | ["copy"] => some .copy
  | _ => none

def showOut : Out → String
  | .res .ok => "ok" | .res .refused => "refused" | .res .missing => "missing" | .res .crash => "crash"
  | .bool b => if b then "true" else "false"
  | .id n => s!"id {n}"
  | .unit => "done"

def tbl (a b c : Nat) : Nat → Nat
  | 1 => a | 2 => b | 3 => c | _ => 0

def dstep (d : DS) (line : String) : DS × String :=
  match fields line with
  | ["reset"] => ({ d with st := {} }, "ok")
  | "cfg" :: rest =>
    match rest.mapM int? with
    | some [u, m1, m2, m3, x1, x2, x3, s1, s2, s3, md, v5] =>
      ({ d with cfg := { unit := u, minStake := tbl m1.toNat m2.toNat m3.toNat, maxStake := tbl x1.toNat x2.toNat x3.toNat,
                         minSelf := tbl s1.toNat s2.toNat s3.toNat, minDlg := md, v5 := v5 != 0 } }, "ok")
    | _ => (d, "bad-op")
  | fs =>
    match parseOp fs with
    | none => (d, "bad-op")
    | some op =>
      let (s', out) := step d.cfg d.st op
      ({ d with st := s' }, s!"{showOut out} # {obs s'}")

def main : IO Unit := runLoop ({} : DS) dstep
