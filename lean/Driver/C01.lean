/-
Line-protocol driver for C01. The Go harness describes one case in several lines, then asks for the verdict.
  VER v enableBls pT vT cT                       protocol table entry (kept across RESET)          -> ok
  RESET                                          forget the current case                             -> ok
  CP enableBls pT vT cT                          protocol parameters handed to the verifier
  LB which chamberTotal                          start look-back set (0 = stake look-back, 1 = certificate look-back)
  VAL which addrHex stake token kind online mainKey blsKey      (key id 0 = bytes do not decode)
  SEEDHDR hasCons seedHex
  CERTHDR present version hasCons seedHex certT
  HDR number hashHex sealSigner parentOK         (signer: id > 0, 0 = stranger, -1 = recovery fails)
  CONS decodable round roundIndex seedHex proof priorityHex subUsers pT vT cT signer
  UC which decodable roundIndex agg              (which: 0 = header.Validator, 1 = header.Certificate)
  VOTE which idx votes proof sig
  CH hashHex stake T total j|p                   value of the real choose() (p = it panics)
  LBCFG seedLookBack stakeLookBack ; AT height hasCons seedHex certT version lbSlot   the chain seen by resolving entries
  RUN side|seal|chain                            -> ok | err <class> [<why>] | crash | missing-choose
  OT count T isPos                               -> 1 | 0      (OverThreshold)
 proof = "-" | key:seedHex:role:index:hashHex ; sig atom = key:hashHex:round:index ; agg = x | e | atom,atom,…
-/
import YouVerif.C01.Model
import YouVerif.Common.Hex
import YouVerif.Common.Keccak
open YouVerif.Common YouVerif.C01

structure St where
  versions : List (Nat × Params) := []
  cp : Params := ⟨true, 0, 0, 0⟩
  lb0 : LookBack := ⟨[], 0⟩
  lb1 : LookBack := ⟨[], 0⟩
  seedHdr : LbHeader := ⟨none, 0⟩
  certHdr : Option LbHeader := none
  number : Nat := 0
  hash : Nat := 0
  sealSigner : Signer := .bad
  parentOK : Bool := true
  cons : Option Cons := none
  uc0 : Option UC := none
  uc1 : Option UC := none
  votes0 : List Vote := []     -- reversed
  votes1 : List Vote := []
  ch : List ((Nat × Nat × Nat × Nat) × Option Int) := []
  lb2 : LookBack := ⟨[], 0⟩
  lb3 : LookBack := ⟨[], 0⟩
  cfg : LbCfg := ⟨0, 0⟩
  chain : List (Nat × LbHeader × Nat) := []     -- height ↦ (header, LB slot its ValRoot resolves to)

def hexNat? (s : String) : Option Nat := (bytesOfHex? s).map natOfBytesBE

def signer? (s : String) : Option Signer :=
  match s.toInt? with
  | some i => if i < 0 then some .bad else if i == 0 then some .stranger else some (.key i.toNat)
  | none => none

def proof? (s : String) : Option (Option VrfProof) :=
  if s == "-" then some none else
  match s.splitOn ":" with
  | [k, sd, r, i, h] =>
    match k.toNat?, hexNat? sd, r.toNat?, i.toNat?, hexNat? h with
    | some k, some sd, some r, some i, some h => some (some ⟨k, sd, r, i, h⟩)
    | _, _, _, _, _ => none
  | _ => none

def atom? (s : String) : Option SigAtom :=
  match s.splitOn ":" with
  | [k, h, r, i] =>
    match k.toNat?, hexNat? h, r.toNat?, i.toNat? with
    | some k, some h, some r, some i => some (k, ⟨h, r, i⟩)
    | _, _, _, _ => none
  | _ => none

def agg? (s : String) : Option (Option (List SigAtom)) :=
  if s == "x" then some none
  else if s == "e" then some (some [])
  else ((s.splitOn ",").mapM atom?).map some

def keyOpt (n : Nat) : Option Nat := if n == 0 then none else some n

/-- `computePriority(hash, j)`: max over i ∈ [0, j] of Keccak256(hash ‖ i.Bytes()), as an integer (0 when j < 0) -/
def prioImpl (hash : Nat) (j : Int) : Nat :=
  if j < 0 then 0 else
  let hb := bytesOfNatBEFixed 32 hash
  (List.range (j.toNat + 1)).foldl (fun m i =>
    let h := natOfBytesBE (Keccak.hash (hb ++ bytesOfNatBE i))
    if h > m then h else m) 0

def mkCrypto (st : St) (dflt : Int) : Crypto :=
  { ch := fun h s t tot => (match st.ch.find? (fun e => e.1 == (h, s, t, tot)) with
      | some e => e.2
      | none => some dflt),
    prio := prioImpl }

def showRes : Res → String
  | .ok => "ok"
  | .crash => "crash"
  | .err .lbcons => "err lbcons"
  | .err (.invalid w) => "err invalid " ++ (match w with
      | .consDecode => "cons-decode" | .consSig => "cons-sig" | .thresholds => "thresholds"
      | .priority => "priority" | .ucDecode => "uc-decode" | .notEnough => "not-enough")
  | .err .proposer => "err proposer"
  | .err .aggdec => "err aggdec"
  | .err .signer => "err signer"
  | .err .sigmismatch => "err sigmismatch"
  | .err .version => "err version"
  | .err .ancestor => "err ancestor"
  | .err .sealer => "err sealer"
  | .err .format => "err format"

def runCase (st : St) (entry : String) : String :=
  let uc0 : Option UC := st.uc0.map (fun u => { u with votes := st.votes0.reverse })
  let uc1 : Option UC := st.uc1.map (fun u => { u with votes := st.votes1.reverse })
  let h : Header := ⟨st.number, st.hash, st.cons, uc0, uc1, st.sealSigner, st.parentOK⟩
  let versions : Nat → Option Params := fun v => (st.versions.find? (·.1 == v)).map (·.2)
  let go (d : Int) : Res :=
    let C := mkCrypto st d
    if entry == "chain" then
      let slot (i : Nat) : LookBack := if i == 0 then st.lb0 else if i == 1 then st.lb1 else if i == 2 then st.lb2 else st.lb3
      let view : ChainView := { header := fun n => (st.chain.find? (·.1 == n)).map (·.2.1),
                                vals := fun n => (st.chain.find? (·.1 == n)).map (fun e => slot e.2.2) }
      verifySealResolved Checks.current C versions st.cp st.cfg view h
    else if entry == "seal" then verifySeal Checks.current C versions st.cp st.seedHdr st.lb0 st.certHdr st.lb1 h
    else verifySide Checks.current C versions st.cp st.seedHdr st.lb0 st.certHdr st.lb1 h
  -- a choose() value the harness did not supply would show as a verdict that depends on the default
  let r1 := go (-1180591620717411303424)
  let r2 := go 1180591620717411315769
  if r1 == r2 then showRes r1 else "missing-choose"

def b (s : String) : Bool := s == "1"

def step (st : St) (line : String) : St × String :=
  match fields line with
  | ["VER", v, e, p, vt, c] =>
    match v.toNat?, p.toNat?, vt.toNat?, c.toNat? with
    | some v, some p, some vt, some c => ({ st with versions := (v, ⟨b e, p, vt, c⟩) :: st.versions.filter (·.1 != v) }, "ok")
    | _, _, _, _ => (st, "bad-op")
  | ["RESET"] => ({ versions := st.versions }, "ok")
  | ["CP", e, p, vt, c] =>
    match p.toNat?, vt.toNat?, c.toNat? with
    | some p, some vt, some c => ({ st with cp := ⟨b e, p, vt, c⟩ }, "ok")
    | _, _, _ => (st, "bad-op")
  | ["LB", w, tot] =>
    match tot.toNat? with
    | some tot => (if w == "0" then { st with lb0 := ⟨[], tot⟩ } else if w == "1" then { st with lb1 := ⟨[], tot⟩ }
                   else if w == "2" then { st with lb2 := ⟨[], tot⟩ } else { st with lb3 := ⟨[], tot⟩ }, "ok")
    | none => (st, "bad-op")
  | ["VAL", w, a, s, t, k, o, mk, bk] =>
    match hexNat? a, s.toNat?, t.toNat?, k.toNat?, mk.toNat?, bk.toNat? with
    | some a, some s, some t, some k, some mk, some bk =>
      let v : Val := ⟨a, s, t, k, b o, keyOpt mk, keyOpt bk⟩
      (if w == "0" then { st with lb0 := { st.lb0 with vals := st.lb0.vals ++ [v] } }
       else if w == "1" then { st with lb1 := { st.lb1 with vals := st.lb1.vals ++ [v] } }
       else if w == "2" then { st with lb2 := { st.lb2 with vals := st.lb2.vals ++ [v] } }
       else { st with lb3 := { st.lb3 with vals := st.lb3.vals ++ [v] } }, "ok")
    | _, _, _, _, _, _ => (st, "bad-op")
  | ["LBCFG", a, c] =>
    match a.toNat?, c.toNat? with
    | some a, some c => ({ st with cfg := ⟨a, c⟩ }, "ok")
    | _, _ => (st, "bad-op")
  | ["AT", n, hc, sd, ct, v, slot] =>
    match n.toNat?, hexNat? sd, ct.toNat?, v.toNat?, slot.toNat? with
    | some n, some sd, some ct, some v, some slot =>
      ({ st with chain := (n, ⟨if b hc then some (sd, ct) else none, v⟩, slot) :: st.chain.filter (·.1 != n) }, "ok")
    | _, _, _, _, _ => (st, "bad-op")
  | ["SEEDHDR", hc, sd] =>
    match hexNat? sd with
    | some sd => ({ st with seedHdr := ⟨if b hc then some (sd, 0) else none, 0⟩ }, "ok")
    | none => (st, "bad-op")
  | ["CERTHDR", pr, v, hc, sd, ct] =>
    match v.toNat?, hexNat? sd, ct.toNat? with
    | some v, some sd, some ct => ({ st with certHdr := if b pr then some ⟨if b hc then some (sd, ct) else none, v⟩ else none }, "ok")
    | _, _, _ => (st, "bad-op")
  | ["HDR", n, h, ss, po] =>
    match n.toNat?, hexNat? h, signer? ss with
    | some n, some h, some ss => ({ st with number := n, hash := h, sealSigner := ss, parentOK := b po }, "ok")
    | _, _, _ => (st, "bad-op")
  | ["CONS", d, r, ri, sd, pf, pr, su, pT, vT, cT, sg] =>
    match r.toNat?, ri.toNat?, hexNat? sd, proof? pf, hexNat? pr, su.toNat?, pT.toNat?, vT.toNat?, cT.toNat?, signer? sg with
    | some r, some ri, some sd, some pf, some pr, some su, some pT, some vT, some cT, some sg =>
      ({ st with cons := if b d then some ⟨r, ri, sd, pf, pr, su, pT, vT, cT, sg⟩ else none }, "ok")
    | _, _, _, _, _, _, _, _, _, _ => (st, "bad-op")
  | ["UC", w, d, ri, ag] =>
    match ri.toNat?, agg? ag with
    | some ri, some ag =>
      let u : Option UC := if b d then some ⟨ri, [], ag⟩ else none
      (if w == "0" then { st with uc0 := u, votes0 := [] } else { st with uc1 := u, votes1 := [] }, "ok")
    | _, _ => (st, "bad-op")
  | ["VOTE", w, i, n, pf, sg] =>
    match i.toNat?, n.toNat?, proof? pf with
    | some i, some n, some pf =>
      let sig : Option SigAtom := if sg == "-" then none else atom? sg
      let v : Vote := ⟨i, n, pf, sig⟩
      (if w == "0" then { st with votes0 := v :: st.votes0 } else { st with votes1 := v :: st.votes1 }, "ok")
    | _, _, _ => (st, "bad-op")
  | ["CH", h, s, t, tot, j] =>
    match hexNat? h, s.toNat?, t.toNat?, tot.toNat? with
    | some h, some s, some t, some tot =>
      let jv : Option Int := if j == "p" then none else j.toInt?
      if j != "p" && jv.isNone then (st, "bad-op") else
      ({ st with ch := ((h, s, t, tot), jv) :: st.ch }, "ok")
    | _, _, _, _ => (st, "bad-op")
  | ["RUN", e] => (st, runCase st e)
  | ["OT", c, t, p] =>
    match c.toNat?, t.toNat? with
    | some c, some t => (st, if overThreshold c t (b p) then "1" else "0")
    | _, _ => (st, "bad-op")
  | _ => (st, "bad-op")

def main : IO Unit := runLoop ({} : St) step
