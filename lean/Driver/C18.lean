/-
Line-protocol driver for C18.  All fields are decimal naturals separated by single spaces.
  I cacheLen maxProc fast offset                      newQueue + Prepare                    -> ok
  S limit from n (num hash parent tx rc nil)*n        Schedule                              -> ins=k
  RB|RR limit peer count                              ReserveBodies / ReserveReceipts       -> req=h,h|nil prog=0|1 err=..
  DB|DR limit peer n root*n                           DeliverBodies / DeliverReceipts       -> acc=k err=..
  CB|CR limit peer                                    CancelBodies / CancelReceipts         -> cancelled=0|1
  EB|ER limit n peer*n                                ExpireBodies / ExpireReceipts         -> exp=p:n,..
  V limit peer                                        Revoke                                -> ok
  X limit                                             Results(false)                        -> res=hash/tx/rc,..
  K limit finished npeers master total nOver over.. nKnown known.. nIdle (peer cap)..   one tick of fetchParts (bodies) -> actions out=..
  Z limit offset fast                                 Close + Reset + Prepare (new sync cycle)  -> ok
Every answer is followed by " # " and the canonical dump of the state (computed with the given limit).
-/
import YouVerif.C18.Model
import YouVerif.C18.ModelLoop
import YouVerif.Common.Hex
open YouVerif.Common YouVerif.C18

def joinWith (sep : String) (l : List String) : String := sep.intercalate l

def showNats (l : List Nat) : String := joinWith "," (l.map toString)
def sortNats (l : List Nat) : List Nat := l.mergeSort (fun a b => a ≤ b)
def hashesSorted (l : List Header) : String := showNats (sortNats (l.map (·.hash)))
def hashesInOrder (l : List Header) : String := showNats (l.map (·.hash))

def showPend (l : List (Nat × List Header)) : String :=
  let l := l.mergeSort (fun a b => a.1 ≤ b.1)
  joinWith ";" (l.map fun (p, hs) => s!"{p}:{hashesInOrder hs}")

def showLack (l : List (Nat × List Header)) : String :=
  let l := (l.filter (fun e => !e.2.isEmpty)).mergeSort (fun a b => a.1 ≤ b.1)
  joinWith ";" (l.map fun (p, hs) => s!"{p}:{hashesSorted hs}")

def b01 (b : Bool) : String := if b then "1" else "0"

def showCache (s : State) : String :=
  let c := s.cache.mergeSort (fun a b => a.1 ≤ b.1)
  joinWith "," (c.map fun (k, r) => s!"{k}/{r.header.num}/{r.header.hash}/{r.pending}/{b01 r.txs.isSome}/{b01 r.rcs.isSome}")

def showErr : Err → String
  | .ok => "ok" | .nofetch => "nofetch" | .stale => "stale" | .invalidchain => "invalidchain" | .partialFail => "partial"

def dump (s : State) (limit : Nat) : String :=
  s!"off={s.offset} head={s.head} cache=[{showCache s}] " ++
  s!"bp=[{hashesSorted s.b.pool}] bq=[{hashesInOrder s.b.queue}] bpend=[{showPend s.b.pend}] bd=[{hashesSorted s.b.done}] " ++
  s!"rp=[{hashesSorted s.r.pool}] rq=[{hashesInOrder s.r.queue}] rpend=[{showPend s.r.pend}] rd=[{hashesSorted s.r.done}] " ++
  s!"lack=[{showLack s.lacking}] pb={pendingTasks s .body} pr={pendingTasks s .rcpt} ifb={b01 (inFlight s .body)} ifr={b01 (inFlight s .rcpt)} " ++
  s!"idle={b01 (idle s)} thb={b01 (shouldThrottle s .body limit)} thr={b01 (shouldThrottle s .rcpt limit)}"

def showAct : Act → String
  | .expire exp => "E[" ++ joinWith "," (exp.map fun (p, c) => s!"{p}:{c}") ++ "]"
  | .setIdle p => s!"SI{p}"
  | .drop p => s!"DP{p}"
  | .pending n => s!"P{n}"
  | .inflight b => s!"I{b01 b}"
  | .idle ps => "L[" ++ showNats ps ++ "]"
  | .throttle b => s!"T{b01 b}"
  | .reserve p c req prog err =>
    let r := match req with | none => "nil" | some hs => hashesInOrder hs
    s!"R{p}/{c}/{r}/{b01 prog}/{showErr err}"

def showOutcome : Outcome → String
  | .cont => "cont" | .done => "done" | .noPeers => "nopeers" | .timeout => "timeout"
  | .unavailable => "unavailable" | .invalid => "invalid"

def takeN : Nat → List Nat → Option (List Nat × List Nat)
  | 0, l => some ([], l)
  | n + 1, x :: l => (takeN n l).map fun (a, b) => (x :: a, b)
  | _ + 1, [] => none

def pairs : List Nat → List (Nat × Nat)
  | a :: b :: rest => (a, b) :: pairs rest
  | _ => []

/-- K limit finished npeers master total nOver over.. nKnown known.. nIdle (peer cap).. -/
def execTick (s : State) (args : List Nat) : Option (State × String × Nat) :=
  match args with
  | limit :: fin :: npeers :: master :: total :: nOver :: rest =>
    match takeN nOver rest with
    | some (over, nk :: rest2) =>
      match takeN nk rest2 with
      | some (known, ni :: rest3) =>
        if rest3.length != 2 * ni then none else
        let i : TickIn := { limit := limit, finished := fin != 0, npeers := npeers, master := master,
                            overdue := over, known := known, idle := pairs rest3, total := total }
        let (s', acts, out) := tick .body i s
        some (s', joinWith " " (acts.map showAct) ++ " out=" ++ showOutcome out, limit)
      | _ => none
    | _ => none
  | _ => none

def parseHeaders : Nat → List Nat → Option (List Header)
  | 0, [] => some []
  | n + 1, num :: hash :: parent :: tx :: rc :: nl :: rest =>
    (parseHeaders n rest).map fun t => { num := num, hash := hash, parent := parent, txRoot := tx, rcRoot := rc, numNil := nl != 0 } :: t
  | _, _ => none

def kindOf (c : String) : Kind := if c.endsWith "R" then .rcpt else .body

def exec (s : State) (op : String) (args : List Nat) : Option (State × String × Nat) :=
  match op, args with
  | "I", [cl, mp, fast, off] => some (init cl mp (fast != 0) off, "ok", cl)
  | "S", limit :: from_ :: n :: rest =>
    (parseHeaders n rest).map fun hs =>
      let (s', k) := schedule s hs from_
      (s', s!"ins={k}", limit)
  | "RB", [limit, peer, count] | "RR", [limit, peer, count] =>
    let (s', o) := reserve s (kindOf op) limit peer count
    let req := match o.req with | none => "nil" | some hs => hashesInOrder hs
    some (s', s!"req={req} prog={b01 o.progress} err={showErr o.err}", limit)
  | "DB", limit :: peer :: n :: rest | "DR", limit :: peer :: n :: rest =>
    if rest.length != n then none else
    let (s', acc, e) := deliver s (kindOf op) peer rest
    some (s', s!"acc={acc} err={showErr e}", limit)
  | "CB", [limit, peer] | "CR", [limit, peer] =>
    let (s', ok) := cancel s (kindOf op) peer
    some (s', s!"cancelled={b01 ok}", limit)
  | "EB", limit :: n :: rest | "ER", limit :: n :: rest =>
    if rest.length != n then none else
    let (s', out) := expire s (kindOf op) rest
    let out := out.mergeSort (fun a b => a.1 ≤ b.1)
    some (s', "exp=" ++ joinWith "," (out.map fun (p, c) => s!"{p}:{c}"), limit)
  | "V", [limit, peer] => some (revoke s peer, "ok", limit)
  | "Z", [limit, off, fast] => some (reset s off (fast != 0), "ok", limit)
  | "X", [limit] =>
    let (s', rs) := results s
    let show1 (r : Result) := s!"{r.header.hash}/{r.txs.getD 0}/{r.rcs.getD 0}"
    some (s', "res=" ++ joinWith "," (rs.map show1), limit)
  | "K", args => execTick s args
  | _, _ => none

def stepLine (s : State) (line : String) : State × String :=
  match fields line with
  | op :: rest =>
    match rest.mapM nat? with
    | some args =>
      match exec s op args with
      | some (s', out, limit) => (s', out ++ " # " ++ dump s' limit)
      | none => (s, "bad-op")
    | none => (s, "bad-op")
  | [] => (s, "bad-op")

def main : IO Unit := runLoop (init 8 4 false 1) stepLine
