/-
Line-protocol driver for C05.  The harness describes one case with several lines, then asks.

  RESET                                                                       -> ok
  CFG frac expelRounds maxExpired stakeLB certLB protoBack unit head          -> ok
  SET from n (addrhex key|-)*n                                                -> ok     look-back change point (ascending)
  VAL addrhex status expelled expelExpired token stake selfToken selfStake risk n (delegatorhex stake token)*n   -> ok
  REC validatorhex delegatorhex finished final                                -> ok
  PTO balance                                                                 -> ok
  EV typeOK decodeOK round roundIndex signerIdx voteType n (hashhex sig)*n    -> ok     sig = S:<key>:<msghex> | G
  RUN parent hdrNum      -> builder path: verdict letters, confirmed/pending index lists, affected, state
  RPL parent hdrNum      -> replay path over the confirmed list of the builder path (same initial state): state
  TP addrhex amount      -> takePenalty on that validator with the queue: crash | total newVal queue
  PAY hashhex round idx  -> payload bytes hex
-/
import YouVerif.C05.Model
import YouVerif.Common.Hex
open YouVerif.Common YouVerif.C05

structure DState where
  cfg : Cfg := { frac := 2, expelRounds := 256, maxExpired := 120, stakeLookBack := 16, certLookBack := 65536, protoBack := 8, unit := 1000000000000000000 }
  head : Nat := 0
  sets : List (Nat × List LbEntry) := []
  vals : List Val := []
  queue : List WRec := []
  pto : Int := 0
  evs : List (Ev SymSig) := []

def addr? (s : String) : Option Nat := (bytesOfHex? s).map natOfBytesBE
def bytes? (s : String) : Option Bytes := (bytesOfHex? s).map (·.map (·.toNat))

def hexN (bs : Bytes) : String := hexOfList (bs.map UInt8.ofNat)
def hexAddr (a : Nat) : String := hexOfList (bytesOfNatBEFixed 20 a)

def sig? (s : String) : Option SymSig :=
  if s == "G" then some .garbage else
  match s.splitOn ":" with
  | ["S", k, m] => do
    let k ← nat? k
    let m ← bytes? m
    pure (.signed k m)
  | _ => none

def parseEntries : Nat → List String → Option (List LbEntry)
  | 0, _ => some []
  | n + 1, a :: k :: rest => do
    let a ← addr? a
    let key : Option Key ← (if k == "-" then some none else (nat? k).map some)
    let tl ← parseEntries n rest
    pure ({ addr := a, key := key } :: tl)
  | _, _ => none

def parseDelegs : Nat → List String → Option (List Deleg)
  | 0, _ => some []
  | n + 1, a :: s :: t :: rest => do
    let a ← addr? a
    let s ← int? s
    let t ← int? t
    let tl ← parseDelegs n rest
    pure ({ delegator := a, stake := s, token := t } :: tl)
  | _, _ => none

def parsePairs : Nat → List String → Option (List (Bytes × SymSig))
  | 0, _ => some []
  | n + 1, h :: s :: rest => do
    let h ← bytes? h
    let s ← sig? s
    let tl ← parsePairs n rest
    pure ((h, s) :: tl)
  | _, _ => none

def showVal (v : Val) : String :=
  let ds := v.delegs.map fun d => s!"{hexAddr d.delegator}:{d.stake}:{d.token}"
  s!"V {hexAddr v.addr} {v.status} {if v.expelled then 1 else 0} {v.expelExpired} {v.token} {v.stake} {v.selfToken} {v.selfStake} [{",".intercalate ds}]"

def showSt (s : St) : String :=
  let vs := s.vals.map showVal
  let qs := s.queue.map fun r => s!"{r.final}"
  s!"{" ".intercalate vs} Q [{",".intercalate qs}] P {s.penaltyTo}"

def verdictLetter : Verdict → String
  | .dropped n => s!"x{n}"
  | .pending => "p"
  | .penalised _ t => if t > 0 then "c" else "d"

def idxWhere (p : Verdict → Bool) (vs : List Verdict) : List Nat :=
  (vs.zipIdx.filter (fun x => p x.1)).map (·.2)

def showNats (l : List Nat) : String := ",".intercalate (l.map toString)

def mkEnv (s : DState) (parent hdrNum : Nat) : Env SymSig :=
  { cfg := s.cfg, chain := { head := s.head, sets := s.sets }, verify := symVerify, parent := parent, hdrNum := hdrNum }

def initSt (s : DState) : St := { vals := s.vals, queue := s.queue, penaltyTo := s.pto }

def step (s : DState) (line : String) : DState × String :=
  match fields line with
  | ["RESET"] => ({}, "ok")
  | "CFG" :: rest =>
    match rest.mapM int? with
    | some [f, er, me, sl, cl, pb, u, h] =>
      ({ s with cfg := { frac := f.toNat, expelRounds := er.toNat, maxExpired := me.toNat, stakeLookBack := sl.toNat,
                         certLookBack := cl.toNat, protoBack := pb.toNat, unit := u }, head := h.toNat }, "ok")
    | _ => (s, "bad-op")
  | "SET" :: fromN :: n :: rest =>
    match nat? fromN, nat? n with
    | some f, some n =>
      match parseEntries n rest with
      | some es => ({ s with sets := s.sets ++ [(f, es)] }, "ok")
      | none => (s, "bad-op")
    | _, _ => (s, "bad-op")
  | "VAL" :: a :: status :: ex :: ee :: tok :: stk :: stok :: sstk :: risk :: n :: rest =>
    match addr? a, nat? status, nat? ex, nat? ee, int? tok, int? stk, int? stok, int? sstk, nat? risk, nat? n with
    | some a, some status, some ex, some ee, some tok, some stk, some stok, some sstk, some risk, some n =>
      match parseDelegs n rest with
      | some ds =>
        ({ s with vals := s.vals ++ [{ addr := a, status := status, expelled := ex != 0, expelExpired := ee, token := tok, stake := stk,
                                        selfToken := stok, selfStake := sstk, risk := risk, delegs := ds }] }, "ok")
      | none => (s, "bad-op")
    | _, _, _, _, _, _, _, _, _, _ => (s, "bad-op")
  | ["REC", v, d, fin, final] =>
    match addr? v, addr? d, nat? fin, int? final with
    | some v, some d, some fin, some final =>
      ({ s with queue := s.queue ++ [{ validator := v, delegator := d, finished := fin, final := final }] }, "ok")
    | _, _, _, _ => (s, "bad-op")
  | ["PTO", b] =>
    match int? b with
    | some b => ({ s with pto := b }, "ok")
    | none => (s, "bad-op")
  | "EV" :: tOK :: dOK :: r :: ri :: si :: vt :: n :: rest =>
    match nat? tOK, nat? dOK, nat? r, nat? ri, nat? si, nat? vt, nat? n with
    | some tOK, some dOK, some r, some ri, some si, some vt, some n =>
      match parsePairs n rest with
      | some ps =>
        ({ s with evs := s.evs ++ [{ typeOK := tOK != 0, decodeOK := dOK != 0, round := r, roundIndex := ri, signerIdx := si, voteType := vt, pairs := ps }] }, "ok")
      | none => (s, "bad-op")
    | _, _, _, _, _, _, _ => (s, "bad-op")
  | ["RUN", p, h] =>
    match nat? p, nat? h with
    | some p, some h =>
      let (r, _) := sealBlock (mkEnv s p h) (initSt s) s.evs
      let letters := ",".intercalate (r.verdicts.map verdictLetter)
      (s, s!"ok {letters} C [{showNats (idxWhere isConfirmed r.verdicts)}] P [{showNats (idxWhere isPending r.verdicts)}] A [{",".intercalate ((affectedOf r.verdicts).map hexAddr)}] {showSt r.st}")
    | _, _ => (s, "bad-op")
  | ["RPL", p, h] =>
    match nat? p, nat? h with
    | some p, some h =>
      let env := mkEnv s p h
      let (_, sd) := sealBlock env (initSt s) s.evs
      let r2 := replayBlock env (initSt s) sd
      (s, s!"ok {showSt r2.st}")
    | _, _ => (s, "bad-op")
  | ["TP", a, amount] =>
    match addr? a, int? amount with
    | some a, some amount =>
      match findVal s.vals a with
      | none => (s, "no-such-validator")
      | some v =>
        let t := takePenalty s.cfg.unit s.queue v amount
        (s, s!"ok {t.total} {showVal t.newVal} Q [{",".intercalate (t.queue.map fun r => toString r.final)}]")
    | _, _ => (s, "bad-op")
  | "POOL" :: p :: h :: sched =>
    -- POOL parent hdr  a<i> | b | e ...   evidences are referred to by their index among the EV lines
    match nat? p, nat? h with
    | some p, some h =>
      let env := mkEnv s p h
      let evArr := s.evs.toArray
      let part := fun (l : List Nat) =>
        let es := l.filterMap (fun i => evArr[i]?)
        let vs := (processAll env (initSt s) [] es).verdicts
        (selectBy isPending l vs, selectBy isConfirmed l vs, selectBy isDropped l vs)
      let evts : List (PoolEvt Nat) := sched.filterMap fun t =>
        if t == "b" then some .sealBegin else if t == "e" then some .sealEnd
        else if t.startsWith "a" then (nat? (t.drop 1).toString).map .arrive else none
      let r := poolRun part { pool := [], waiting := [], snap := none, confirmed := [], discarded := [] } evts
      (s, s!"ok POOL [{showNats (r.pool ++ r.waiting)}] C [{showNats r.confirmed}] D [{showNats r.discarded}]")
    | _, _ => (s, "bad-op")
  | ["PAY", h, r, i] =>
    match bytes? h, nat? r, nat? i with
    | some h, some r, some i => (s, hexN (payload h r i))
    | _, _, _ => (s, "bad-op")
  | _ => (s, "bad-op")

def main : IO Unit := runLoop ({} : DState) step
