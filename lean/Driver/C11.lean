/-
Line-protocol driver for C11 (model of block import / restart in YouVerif.C11.Model).
  RESET mode maxh                                   new world (mode 0 solo, 1 strict), fresh genesis database   -> ok
  B id parent num root txRootOK execOK tclass older tx...   define a block identity                           -> ok
  I id...                                           InsertChain                                               -> R <ok|err> <observation> w=<writes>
  X child                                           crash analysis of the last I (child = further valid block or -1)
        -> U|m:recoveredHead:consistent:headAfterReimport:headAfterFurtherBlock|... for every prefix m of the write list
-/
import YouVerif.C11.Model
import YouVerif.C11.Check
import YouVerif.Common.Hex
open YouVerif.Common YouVerif.C11

structure St where
  defs : List (Nat × Blk) := []      -- newest first
  strict : Bool := false
  maxh : Nat := 0
  started : Bool := false
  nd : Node := { db := DB.genesis { blk := fun _ => default, strict := false }, cur := 0, fut := [] }
  prev : Node := { db := DB.genesis { blk := fun _ => default, strict := false }, cur := 0, fut := [] }
  lastCall : List Nat := []
  lastWs : List Wr := []

def St.world (s : St) : World :=
  { blk := fun id => match s.defs.find? (·.1 == id) with
      | some (_, b) => b
      | none => default,
    strict := s.strict }

def St.ids (s : St) : List Nat := (s.defs.map (·.1)).reverse
def St.txs (s : St) : List Nat :=
  let all := s.ids.flatMap fun id => (s.world.blk id).txs
  all.foldl (fun acc t => if acc.contains t then acc else acc ++ [t]) []

def optId : Option Nat → String
  | some id => toString id
  | none => "-"

def sortStrings (l : List String) : List String := (l.toArray.qsort (· < ·)).toList

def opTok (W : World) : BOp → String × String     -- (key, token)
  | .rcpt id => (s!"r{id}", s!"r{id}")
  | .canon n id => (s!"c{n}", s!"c{n}={id}")
  | .look tx _ _ _ => (s!"l{tx}", s!"l{tx}")
  | .del tx => (s!"l{tx}", s!"d{tx}")
  | .headHdr id => ("H", s!"H{id}")
  | .headBlk id => ("K", s!"K{id}")
where _unused := W

def wrTok (W : World) : Wr → String
  | .body id => s!"b{id}"
  | .hnum id => s!"n{id}"
  | .hdr id => s!"h{id}"
  | .state _ => "S"
  | .headHdr id => s!"H{id}"
  | .batch ops =>
    -- last write per key wins, tokens sorted
    let kts := ops.map (opTok W)
    let lastOnly := kts.foldl (fun acc (kt : String × String) => (acc.filter (·.1 != kt.1)) ++ [kt]) []
    "[" ++ " ".intercalate (sortStrings (lastOnly.map (·.2))) ++ "]"

def hexDigit1 (n : Nat) : String := String.singleton (hexDigit n)

def observe (s : St) (nd : Node) : String :=
  let W := s.world
  let db := nd.db
  let canon := ",".intercalate ((List.range (s.maxh)).map fun n => optId (db.canon n))
  let look := ",".intercalate (s.txs.filterMap fun t =>
    match db.look t with
    | some (h, n, i) => some s!"{t}:{h}:{n}:{i}"
    | none => none)
  let stored := ",".intercalate (s.ids.map fun id =>
    let v := (if db.body id then 1 else 0) + (if db.hnum id then 2 else 0) + (if db.hdr id then 4 else 0)
      + (if db.st (W.blk id).root then 8 else 0)
    s!"{id}:{hexDigit1 v}")
  s!"head={nd.cur} canon={canon} look={look} stored={stored} hb={optId db.headBlk} hh={optId db.headHdr}"

def crashLine (s : St) (child : Option Nat) : String :=
  let W := s.world
  let tuple (m : Nat) : String :=
    let db := s.prev.db.applyAll (s.lastWs.take m)
    match recover W db with
    | none => s!"{m}:fail:0:fail:fail"
    | some r =>
      let cons := if consistentB W r.nd s.txs then 1 else 0
      let r1 := insertChain W r.nd s.lastCall
      let r2 := match child with
        | some c => (insertChain W r1.nd [c]).nd
        | none => r1.nd
      s!"{m}:{r.nd.cur}:{cons}:{r1.nd.cur}:{r2.cur}"
  "|".intercalate ("U" :: (List.range (s.lastWs.length + 1)).map tuple)

def step (s : St) (line : String) : St × String :=
  match fields line with
  | ["RESET", mode, maxh] =>
    match nat? mode, nat? maxh with
    | some m, some h => ({ strict := m == 1, maxh := h }, "ok")
    | _, _ => (s, "bad-op")
  | "B" :: rest =>
    match rest.mapM nat? with
    | some (id :: parent :: num :: root :: tro :: exo :: tcl :: old :: txs) =>
      let b : Blk := { parent := parent, num := num, root := root, txs := txs, txRootOK := tro == 1, execOK := exo == 1, tclass := tcl, older := old == 1 }
      let s' := { s with defs := (id, b) :: s.defs }
      -- the database starts as the committed genesis once identity 0 is defined
      if id == 0 then
        let nd : Node := { db := DB.genesis s'.world, cur := 0, fut := [] }
        ({ s' with nd := nd, prev := nd, started := true }, "ok")
      else (s', "ok")
    | _ => (s, "bad-op")
  | "I" :: rest =>
    match rest.mapM nat? with
    | some ids =>
      let W := s.world
      let r := insertChain W s.nd ids
      let s' := { s with prev := s.nd, nd := r.nd, lastCall := ids, lastWs := r.ws }
      let res := if r.ok then "ok" else "err"
      let w := " ".intercalate (r.ws.map (wrTok W))
      (s', s!"R {res} {observe s' r.nd} w={w}")
    | none => (s, "bad-op")
  | ["X", c] =>
    match c.toInt? with
    | some ci => (s, crashLine s (if ci < 0 then none else some ci.toNat))
    | none => (s, "bad-op")
  | _ => (s, "bad-op")

def main : IO Unit := runLoop ({} : St) step
