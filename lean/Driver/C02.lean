/-
Line-protocol driver for C02: runs the hand-written model of Voter/VoteDB on the operations the Go harness sends.
  RESET                                                        fresh node, empty database              -> ok
  EP exist hash prio                                            proposal seen (getMaxPriorityFn)         -> ok
  EC hash present                                               block cache content (blockInCacheFn)     -> ok
  EV kind selected w vt T q                                       own sortition for a vote kind            -> ok
  EE certErr                                                    CertificateParams fails                  -> ok
  X round index step cert                                       ContextChangeEvent                       -> <outcome>|<events>|<state>
  M kind round index hash prio sender addrOk w status vt T q qOld stakeErr sortErr nilVote   received vote -> <outcome>|<events>|<state>
  R                                                             crash + restart                          -> <outcome>|<events>|<state>
  K n after                                                     arm a crash at the n-th Put of the next call -> ok
  EB b                                                          BLS reported enabled while contexts are delivered -> ok
  XL round index step cert                                      ContextChangeEvent through Voter.Start/eventLoop/Stop -> as X
  U hash                                                        Voter.removeMarkedBlock                  -> <outcome>|<events>|<state>
  Q round index chamberTh houseTh                               Voter.existHashOverVotesThreshold        -> q=0 | q=1
  F kind idx round index mode                                   foreign record in an empty slot          -> ok
  outcome: nil | invalid | panic | crashed
-/
import YouVerif.C02.Model
import YouVerif.Common.Hex
open YouVerif.Common YouVerif.C02

def showOut : Out → String
  | .send k r i h p w => s!"send:{k.code}:{r}:{i}:{h}:{p}:{w}"
  | .rice r i h p => s!"rice:{r}:{i}:{h}:{p}"
  | .commit r i h np nc => s!"commit:{r}:{i}:{h}:{np}:{nc}"
  | .update r i h np => s!"update:{r}:{i}:{h}:{np}"

def showON : Option Nat → String
  | none => "-"
  | some n => toString n
def showM : Option Marked → String
  | none => "-"
  | some m => toString m.hash
def showRec : Option Ctx → String
  | none => "-"
  | some c => s!"{c.round}.{c.index}"
def b (x : Bool) : String := if x then "1" else "0"

def insertSorted (x : Nat) : List Nat → List Nat
  | [] => [x]
  | y :: ys => if x < y then x :: y :: ys else if x = y then y :: ys else y :: insertSorted x ys

def sortDedup (l : List Nat) : List Nat := l.foldl (fun acc x => insertSorted x acc) []

def allKinds : List Kind := [.prevote, .precommit, .next, .cert]

def showKinds (l : List Kind) : String := String.join ((allKinds.filter l.contains).map fun k => toString k.code)

def showVoteOver (vo : List (Nat × VoteStatus)) : String :=
  let hs := sortDedup (vo.map (·.1))
  String.intercalate "," (hs.map fun h =>
    let vs := (assocGet vo h).getD {}
    s!"{h}:{showKinds vs.chamber}:{showKinds vs.house}")

def showCounts (w : Option Wrapper) : String :=
  match w with
  | none => ""
  | some w =>
    let rows := [("c", w.chamber), ("h", w.house)].flatMap fun (tag, m) =>
      allKinds.flatMap fun k =>
        let sta := m.get k
        let hs := sortDedup (sta.counts.map (·.1) ++ sta.info.map (·.1))
        hs.filterMap fun h =>
          if sta.count h = 0 ∧ sta.nInfo h = 0 then none
          else some s!"{tag} {k.code} {h} {sta.count h} {sta.nInfo h}"
    String.intercalate "," rows

def showState (s : St) : String :=
  let v := s.v
  let c := s.g.c
  let p := s.g.p
  let ws := String.intercalate "," (v.wrappers.map fun e => s!"{e.1.1}.{e.1.2}")
  s!"v={showON v.round}/{v.index}/{v.step}/{b v.precommitted}{b v.committed}{b v.sentChange}{b v.certificated}{b v.shouldCert}/{showM v.nextMarked}/{showM v.curMarked}/{showM v.nextVoted}" ++
  s!";db={showON c.round}/{c.index}/{c.mark .prevote}/{c.mark .precommit}/{c.mark .next}/{c.mark .cert}" ++
  s!";rec={showRec (p .prevote 1)}/{showRec (p .precommit 1)}/{showRec (p .cert 1)}/{showRec (p .next 1)}/{showRec (p .next 2)}" ++
  s!";w={ws};vo={showVoteOver v.voteOver};ct={showCounts v.cur?}"

def showOutcome : Outcome → String
  | .done .nil => "nil"
  | .done .invalid => "invalid"
  | .done .panic => "panic"
  | .crashed => "crashed"

def respond (r : St × Outcome) : St × String :=
  (r.1, s!"{showOutcome r.2}|{String.intercalate "," (r.1.g.out.map showOut)}|{showState r.1}")

def stepLine (s : St) (line : String) : St × String :=
  match fields line with
  | ["RESET"] => (init, "ok")
  | "EP" :: rest =>
    match rest.mapM nat? with
    | some [e, h, p] => ({ s with env := { s.env with proposal := if e = 1 then some ⟨h, p⟩ else none } }, "ok")
    | _ => (s, "bad-op")
  | "EC" :: rest =>
    match rest.mapM nat? with
    | some [h, present] =>
      let miss := s.env.missing.filter (· != h)
      ({ s with env := { s.env with missing := if present = 1 then miss else h :: miss } }, "ok")
    | _ => (s, "bad-op")
  | "EV" :: rest =>
    match rest.mapM nat? with
    | some [k, sel, w, vt, _T, q] =>
      match Kind.ofCode? k with
      | some kind =>
        let seat : Option Seat := if sel = 1 then some { w := w, vt := vt, q := q } else none
        let old := s.env.seat
        ({ s with env := { s.env with seat := fun k' => if k' = kind then seat else old k' } }, "ok")
      | none => (s, "bad-op")
    | _ => (s, "bad-op")
  | "EE" :: rest =>
    match rest.mapM nat? with
    | some [e] => ({ s with env := { s.env with certErr := e = 1 } }, "ok")
    | _ => (s, "bad-op")
  | "X" :: rest =>
    match rest.mapM nat? with
    | some [r, i, st, cert] => respond (step s (.ctx r i st (cert = 1)))
    | _ => (s, "bad-op")
  | "XL" :: rest =>   -- the same context delivered through Start/eventLoop/Stop; an armed crash point is disarmed first
    match rest.mapM nat? with
    | some [r, i, st, cert] => respond (step (step s (.arm 0 false)).1 (.ctx r i st (cert = 1)))
    | _ => (s, "bad-op")
  | "M" :: rest =>
    match rest.mapM nat? with
    | some [k, r, i, h, p, sender, addrOk, w, status, vt, _T, q, qOld, stakeErr, sortErr, nilVote] =>
      respond (step s (.vote { kind := k, round := r, index := i, hash := h, prio := p, sender := sender, addrOk := addrOk = 1,
                               w := w, status := status, vt := vt, q := q, qOld := qOld, stakeErr := stakeErr = 1,
                               sortErr := sortErr = 1, nilVote := nilVote = 1 }))
    | _ => (s, "bad-op")
  | "EB" :: rest =>
    match rest.mapM nat? with
    | some [e] => ({ s with env := { s.env with bls := e = 1 } }, "ok")
    | _ => (s, "bad-op")
  | "U" :: rest =>
    match rest.mapM nat? with
    | some [h] => respond (step s (.unmark h))
    | _ => (s, "bad-op")
  | "Q" :: rest =>
    match rest.mapM nat? with
    | some [r, i, c, h] => (s, if existOver s r i c h then "q=1" else "q=0")
    | _ => (s, "bad-op")
  | "F" :: _ => (s, "ok")   -- a foreign record written into an EMPTY slot: invisible to NewVoteDB, hence to the model
  | ["R"] => respond (step s .crash)
  | "K" :: rest =>
    match rest.mapM nat? with
    | some [n, after] => ((step s (.arm n (after = 1))).1, "ok")
    | _ => (s, "bad-op")
  | _ => (s, "bad-op")

def main : IO Unit := runLoop init stepLine
