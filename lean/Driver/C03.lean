/-
Line-protocol driver for C03 (state = the model Voter + the key universe seen so far + the last commit).
  R                                                         reset                                  -> ok
  C round index step cert                                   ContextChangeEvent                     -> ret | events
  V vt round index h p sender votes status nil sig claim stake kind T cred     received vote       -> ret | events
  ES vt sel votes kind T | EM exists p h | EB h present | EC b                 environment         -> ok
  D                                                         dump of the counting state             -> one line
  Q T isPos                                                 uint32(float64(T)*c)                   -> n
  L srvRound srvIndex msgRound msgIndex vrfOK               verifySortition leniency               -> 0|1
  X h                                                       the inserter refused block h           -> ret
  HA T Tc                                                   headerAccepted on the last commit      -> accept|reject|none
-/
import YouVerif.C03.Model
import YouVerif.Common.Hex
open YouVerif.Common YouVerif.C03

structure DState where
  v : Voter := {}
  hashes : List Nat := [0]
  addrs : List Nat := [0]
  last : Option (Bool × List Entry × List Entry) := none   -- cert flag, precommits, certs of the last commit

def addKey (l : List Nat) (k : Nat) : List Nat := if l.contains k then l else l ++ [k]

def vtOf : Nat → VT
  | 2 => .prevote | 3 => .precommit | 4 => .next | 5 => .cert | _ => .other
def vtNum : VT → Nat
  | .prevote => 2 | .precommit => 3 | .next => 4 | .cert => 5 | .other => 0
def kindOf : Nat → VKind
  | 1 => .chamber | 2 => .house | _ => .other
def statusOf : Nat → Status
  | 0 => .oldRound | 1 => .oldIndex | 2 => .same | 3 => .future | _ => .invalid
def credOf : Nat → Cred
  | 0 => .reject | 1 => .valid | _ => .lenient

def insertSorted (x : Nat × Nat) : List (Nat × Nat) → List (Nat × Nat)
  | [] => [x]
  | y :: l => if x.1 < y.1 ∨ (x.1 = y.1 ∧ x.2 ≤ y.2) then x :: y :: l else y :: insertSorted x l

def showEntries (es : List Entry) : String :=
  let sorted := (es.map fun e => (e.addr, e.votes)).foldr insertSorted []
  "[" ++ ",".intercalate (sorted.map fun (a, w) => s!"{a}:{w}") ++ "]"

def showOut : Out → Option String
  | .signed vt c h p w => some s!"signed {vtNum vt} {c.round} {c.index} {h} {p} {w}"
  | .commit c h cert pc hpc certs =>
    some s!"commit {c.round} {c.index} {h} {if cert then 1 else 0} pc={showEntries pc} hpc={showEntries hpc} certs={showEntries certs}"
  | .rice c h p => some s!"rice {c.round} {c.index} {h} {p}"
  | .update c h pc hpc => some s!"update {c.round} {c.index} {h} pc={showEntries pc} hpc={showEntries hpc}"
  | .over .. => none
  | .bug n => some s!"bug {n}"

def insertStr (x : String) : List String → List String
  | [] => [x]
  | y :: l => if x ≤ y then x :: y :: l else y :: insertStr x l

def showRet : Ret → String
  | .ok => "ok" | .emptyVote => "emptyVote" | .certParams => "certParams" | .badSig => "badSig"
  | .addrMismatch => "addrMismatch" | .stakeErr => "stakeErr" | .sortitionErr => "sortitionErr" | .crash => "crash"

def respond (outs : List Out) (r : Ret) : String :=
  let evs := (outs.filterMap showOut).foldr insertStr []
  s!"{showRet r} {if r.invalid then 1 else 0}" ++ String.join (evs.map fun e => " | " ++ e)

def lastCommit (outs : List Out) (prev : Option (Bool × List Entry × List Entry)) : Option (Bool × List Entry × List Entry) :=
  outs.foldl (fun acc o => match o with
    | .commit _ _ cert pc _ certs => some (cert, pc, certs)
    | _ => acc) prev

def b01 (b : Bool) : Nat := if b then 1 else 0

def showOpt (o : Option (Hash × Prio)) : String :=
  match o with
  | none => "-"
  | some (h, _) => s!"{h}"

def dumpSta (d : DState) (tag : String) (s : VoteSta) : String :=
  let cs := d.hashes.filterMap fun h => if s.counts h ≠ 0 then some s!"{h}={s.counts h}" else none
  let is := d.hashes.filterMap fun h => if (s.info h).isEmpty then none else some s!"{h}={showEntries (s.info h)}"
  let as := d.addrs.filterMap fun a => match s.addrs a with
    | some (h, dv) => some s!"{a}={h}/{b01 dv}"
    | none => none
  if cs.isEmpty ∧ is.isEmpty ∧ as.isEmpty then "" else
  s!" {tag} c({",".intercalate cs}) i({",".intercalate is}) a({",".intercalate as})"

def dump (d : DState) : String :=
  let v := d.v
  if v.crashed then "crashed" else
  let head := s!"st={b01 v.started} r={v.round} i={v.index} s={v.step} pc={b01 v.precommitted} cm={b01 v.committed} sc={b01 v.sentChange} ce={b01 v.certificated} sh={b01 v.shouldCert} nm={showOpt v.nextMarked} cu={showOpt v.curMarked} nv={showOpt v.nextVoted}"
  let db := s!" db={match v.db.round with | some r => toString r | none => "-"}/{v.db.index}/{v.db.mark .prevote},{v.db.mark .precommit},{v.db.mark .next},{v.db.mark .cert}"
  let ue := match v.updateEv with
    | some (c, h) => s!" ue={c.round}/{c.index}/{h}"
    | none => " ue=-"
  let ov := d.hashes.foldl (fun acc h =>
    [true, false].foldl (fun acc c =>
      [VT.prevote, .precommit, .next, .cert].foldl (fun acc t =>
        if v.over h c t then acc ++ s!" O{h}/{b01 c}/{vtNum t}" else acc) acc) acc) ""
  let ws := v.ws.foldl (fun acc (c, w) =>
    acc ++ s!" W{c.round}/{c.index}" ++
      String.join ([true, false].flatMap fun ch => [VT.prevote, .precommit, .next, .cert].map fun t =>
        dumpSta d s!"{if ch then "C" else "H"}{vtNum t}" (w.sta ch t))) ""
  head ++ db ++ ue ++ ov ++ ws

def natsOf (l : List String) : Option (List Nat) := l.mapM nat?

def step' (d : DState) (line : String) : DState × String :=
  match fields line with
  | ["R"] => ({}, "ok")
  | ["D"] => (d, dump d)
  | "C" :: rest =>
    match natsOf rest with
    | some [r, i, st, cert] =>
      let (v', outs, ret) := step d.v (.context ⟨r, i⟩ st (cert != 0))
      ({ d with v := v', last := lastCommit outs d.last }, respond outs ret)
    | _ => (d, "bad-op")
  | "V" :: rest =>
    match natsOf rest with
    | some [vt, r, i, h, p, sender, votes, status, nil, sig, claim, stake, kind, T, cred] =>
      let m : Msg := { vt := vtOf vt, ctx := ⟨r, i⟩, h := h, p := p, sender := sender, votes := votes % U32,
                       status := statusOf status, nilVote := nil != 0, sigOK := sig == 1, claimOK := claim != 0,
                       stakeOK := stake != 0, kind := kindOf kind, T := T % U64, cred := credOf cred }
      let (v', outs, ret) := step d.v (.vote m)
      ({ d with v := v', hashes := addKey d.hashes h, addrs := addKey d.addrs sender, last := lastCommit outs d.last },
        respond outs ret)
    | _ => (d, "bad-op")
  | "ES" :: rest =>
    match natsOf rest with
    | some [vt, sel, votes, kind, T] =>
      let s : Option Sel := if sel != 0 then some ⟨votes % U32, kindOf kind, T % U64⟩ else none
      ({ d with v := (step d.v (.envSel (vtOf vt) s)).1 }, "ok")
    | _ => (d, "bad-op")
  | "EM" :: rest =>
    match natsOf rest with
    | some [ex, p, h] =>
      ({ d with v := (step d.v (.envMax (if ex != 0 then some (p, h) else none))).1, hashes := addKey d.hashes h }, "ok")
    | _ => (d, "bad-op")
  | "EB" :: rest =>
    match natsOf rest with
    | some [h, present] => ({ d with v := (step d.v (.envBlock h (present != 0))).1 }, "ok")
    | _ => (d, "bad-op")
  | "EC" :: rest =>
    match natsOf rest with
    | some [b] => ({ d with v := (step d.v (.envCertErr (b != 0))).1 }, "ok")
    | _ => (d, "bad-op")
  | "X" :: rest =>
    match natsOf rest with
    | some [h] =>
      let (v', outs, ret) := step d.v (.insertFailed h)
      ({ d with v := v' }, respond outs ret)
    | _ => (d, "bad-op")
  | "Q" :: rest =>
    match natsOf rest with
    | some [T, isPos] => (d, toString (quorum (T % U64) (isPos != 0)))
    | _ => (d, "bad-op")
  | "L" :: rest =>
    match natsOf rest with
    | some [sr, si, mr, mi, ok] => (d, toString (b01 (verifySortition ⟨sr, si⟩ ⟨mr, mi⟩ (ok != 0))))
    | _ => (d, "bad-op")
  | "HA" :: rest =>
    match natsOf rest, d.last with
    | some [T, Tc], some (cert, pc, certs) => (d, if headerAccepted T Tc cert pc certs then "accept" else "reject")
    | some [_, _], none => (d, "none")
    | _, _ => (d, "bad-op")
  | _ => (d, "bad-op")

def main : IO Unit := runLoop ({} : DState) step'
