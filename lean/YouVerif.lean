-- Root of the YouVerif library. Per-property modules are imported here as they land.
import YouVerif.Common
