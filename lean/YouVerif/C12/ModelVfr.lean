/-
C12 — hand-written executable model of `(*HeaderChain).VersionForRoundWithParents`
(core/protocol_version_processor.go): which protocol version's parameters the other subsystems
(consensus, staking, EVM configuration) use for round `r`.  Core Lean only (the driver links it).

Go:
    pr := 0; if r > protocolRoundBack { pr = r - protocolRoundBack }
    header := hc.GetHeaderByNumber(pr)
    if header == nil && len(parents) > 0 { firstNum := parents[0].Number.Uint64()
        if pr >= firstNum { header = parents[pr-firstNum] } }          -- Go panics when the index is out of range
    if header == nil { return error }
    proto, ok := params.Versions[header.CurrVersion]; if !ok { return error }; return &proto

`get` is `GetHeaderByNumber` (the canonical index); `Gen.protocolRoundBack` is regenerated from the source.
The tie to the code is the correspondence stream `F` of the harness (go/cmd/c12/chainlevel.go).
-/
import YouVerif.C12.Gen
namespace YouVerif.C12

inductive VfrRes where
  | ok (version : Nat)   -- the parameters of this version are returned
  | noHeader             -- "can't find header for number …"
  | unknownVersion       -- the header's CurrVersion is not in params.Versions
  | crash                -- index out of range on `parents[pr-firstNum]`
deriving DecidableEq, Repr

/-- The round whose header decides the parameters of round `r`. -/
def paramRound (r : Nat) : Nat := if r > Gen.protocolRoundBack then r - Gen.protocolRoundBack else 0

/-- Header selection: `none` = Go panics, `some none` = no header, `some (some h)` = header found. -/
def vfrHeader (get : Nat → Option Hdr) (parents : List Hdr) (r : Nat) : Option (Option Hdr) :=
  let pr := paramRound r
  match get pr with
  | some h => some (some h)
  | none =>
    match parents with
    | [] => some none
    | f :: _ =>
      let firstNum := f.number % U64
      if pr ≥ firstNum then
        match parents[pr - firstNum]? with
        | some h => some (some h)
        | none => none
      else some none

def versionForRound (V : Versions) (get : Nat → Option Hdr) (parents : List Hdr) (r : Nat) : VfrRes :=
  match vfrHeader get parents r with
  | none => .crash
  | some none => .noHeader
  | some (some h) =>
    match V h.currVersion with
    | some _ => .ok h.currVersion
    | none => .unknownVersion

def VfrRes.show : VfrRes → String
  | .ok v => s!"ok {v}"
  | .noHeader => "noheader"
  | .unknownVersion => "unknownversion"
  | .crash => "crash"

end YouVerif.C12
