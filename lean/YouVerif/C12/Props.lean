/-
C12 — property theorems (only).  "Protocol version changes only by a quorum of block votes, at the
announced round; every header an honest builder derives is accepted by the verifier."

All statements are about `Gen.verify` / `Gen.process`, the Lean functions REGENERATED from
/repo/core/protocol_version_processor.go on every check run (YouVerif/C12/Gen.lean), and about
`Gen.shippedTables`, regenerated from `params.Versions` of the three networks (GenConsts.lean).
Vocabulary (`ValidChain`, `Link`, `approvers`, `openedAt`, `ParamsOK`, `VerifySpec`) is in Spec.lean.
-/
import YouVerif.C12.Proofs
import YouVerif.C12.ProofsVfr
import YouVerif.C12.GenConsts
namespace YouVerif.C12.Props
open YouVerif.C12

/-- The generated verifier accepts exactly the readable specification `VerifySpec`. -/
theorem verifier_is_spec (V : Versions) (p c : Hdr) :
    (Gen.verify V p c).1 = .ok ↔ VerifySpec V p c := verify_ok_iff V p c

/-- The verifier never modifies the header it verifies. -/
theorem verifier_pure : Gen.verifyWritesCurr = false := rfl

/-- **Version changes only at the announced switch round, to the announced version** — for a single
accepted link, with no assumption on the parent, the parameter table or the header fields. -/
theorem version_changes_only_at_switch (V : Versions) (p c : Hdr)
    (hacc : (Gen.verify V p c).1 = .ok) (hchg : c.currVersion ≠ p.currVersion) :
    p.nextSwitchOn = c.number % U64 ∧ c.currVersion = p.nextVersion ∧
      c.nextVersion = 0 ∧ c.nextApprovals = 0 ∧ c.nextVoteBefore = 0 ∧ c.nextSwitchOn = 0 := by
  obtain ⟨P, _, h⟩ := (verify_ok_iff V p c).1 hacc
  simp only at h
  split at h
  · rename_i hsw; exact ⟨hsw, h.1.symm, h.2.1, h.2.2.2.2.1, h.2.2.1, h.2.2.2.1⟩
  · exact absurd h.1 hchg

/-- **Each block adds at most one approval, and only inside the voting window**; the window end and the
switch round of an open proposal never move. -/
theorem one_approval_per_block_in_window {V : Versions} (hV : ParamsOK V) {c p : Hdr} {rest : List Hdr}
    (hc : ValidChain V (c :: p :: rest)) (hp : p.nextVersion ≠ 0) (hcn : c.nextVersion ≠ 0) :
    c.nextVersion = p.nextVersion ∧ c.nextVoteBefore = p.nextVoteBefore ∧ c.nextSwitchOn = p.nextSwitchOn ∧
    (c.nextApprovals = p.nextApprovals ∨ (c.nextApprovals = p.nextApprovals + 1 ∧ c.number < p.nextVoteBefore)) := by
  cases hc with
  | step _ _ _ hprev hl =>
    have hpo := stateOK_of_chain hV hprev
    obtain ⟨hnum, hlt, hv⟩ := hl
    obtain ⟨P, hP, h⟩ := (verify_ok_iff V p c).1 hv
    obtain ⟨h1, h2, h3, h4, h5⟩ := hpo.opened hp P hP
    have hpn := hpo.num
    have hmod : c.number % U64 = c.number := Nat.mod_eq_of_lt (by simp only [U64]; omega)
    simp only at h
    rw [hmod] at h
    split at h
    · exact absurd h.2.1 hcn
    · simp only [U64] at h
      refine ⟨h.2.1, h.2.2.1, h.2.2.2.2.2, ?_⟩
      omega

/-- **A version switch needs a quorum collected inside the voting window, and waits.**
Along any chain of verifier-accepted headers starting from a header without a proposal (header fields
otherwise adversarial), if the version changes at `c` then: it changes at the round and to the version
announced by the proposal open at its parent; the distinct blocks that approved that proposal
(`approvers`, one approval each, the counter equals their number) all lie inside the voting window
`[openedAt, NextVoteBefore)` fixed when the proposal was made, `NextVoteBefore = openedAt + UpgradeVoteRounds`;
there are at least `UpgradeThreshold` of them; and the switch is at least `MinUpgradeWaitRounds` after the
window closed. -/
theorem switch_needs_quorum_in_window {V : Versions} (hV : ParamsOK V) {c p : Hdr} {rest : List Hdr}
    (hc : ValidChain V (c :: p :: rest)) (hchg : c.currVersion ≠ p.currVersion) :
    ∃ P, V p.currVersion = some P ∧
      p.nextVersion ≠ 0 ∧ c.currVersion = p.nextVersion ∧ c.number = p.nextSwitchOn ∧
      p.nextApprovals = (approvers (p :: rest)).length ∧
      (approvers (p :: rest)).Nodup ∧
      (∀ r ∈ approvers (p :: rest), openedAt (p :: rest) ≤ r ∧ r < p.nextVoteBefore) ∧
      p.nextVoteBefore = openedAt (p :: rest) + P.upgradeVoteRounds ∧
      P.upgradeThreshold ≤ (approvers (p :: rest)).length ∧
      p.nextVoteBefore + P.minUpgradeWaitRounds ≤ c.number := by
  cases hc with
  | step _ _ _ hprev hl =>
    have hpo := stateOK_of_chain hV hprev
    obtain ⟨hnum, hlt, hv⟩ := hl
    obtain ⟨hsw, hcv, _⟩ := version_changes_only_at_switch V p c hv hchg
    obtain ⟨P, hP⟩ := hpo.known
    have hpn := hpo.num
    have hmod : c.number % U64 = c.number := Nat.mod_eq_of_lt (by simp only [U64]; omega)
    rw [hmod] at hsw
    have hpv : p.nextVersion ≠ 0 := by
      intro h0
      obtain ⟨_, _, _, hso⟩ := hpo.clean h0
      omega
    obtain ⟨h1, h2, h3, h4, h5⟩ := hpo.opened hpv P hP
    have hPok := hV _ _ hP
    have inv := chainInv_of_chain hV hprev hpv
    refine ⟨P, hP, hpv, hcv, hsw.symm, inv.count, ?_, ?_, inv.voteBefore P hP, ?_, by omega⟩
    · exact inv.distinct.imp (fun h => Nat.ne_of_gt h)
    · intro r hr; have := inv.window r hr; exact ⟨this.1, this.2.1⟩
    · rw [← inv.count]; apply h4; omega

/-- **Every header the honest builder derives from a reachable parent is accepted by the verifier.**
`p` is any header reachable through verifier-accepted links (so possibly shaped by adversarial
ancestors); the builder starts from a fresh header (version fields zero, as `miner/worker.go` creates it).
The only other outcome is the verifier's deliberate process exit when the version being switched to is
unknown to the local node ("update the client"). -/
theorem builder_accepted {V : Versions} (hV : ParamsOK V) {p : Hdr} {rest : List Hdr}
    (hp : ValidChain V (p :: rest)) (hn : p.number + 1 < 2^62) (c : Hdr)
    (hb : Gen.process V p { number := p.number + 1 } = (.ok, c)) :
    c.number = p.number + 1 ∧
    ((Gen.verify V p c).1 = .ok ∨
     ((Gen.verify V p c).1 = .crash ∧ V c.currVersion = none ∧ c.currVersion = p.nextVersion ∧ c.number = p.nextSwitchOn)) := by
  have hpo := stateOK_of_chain hV hp
  obtain ⟨hnum, hcore⟩ := builder_core hV hpo hn _ c rfl hb
  refine ⟨hnum, ?_⟩
  rcases hcore with hs | ⟨hnone, hk, hsw, hv, h1, h2, h3, h4⟩
  · exact Or.inl ((verify_ok_iff V p c).2 hs)
  · refine Or.inr ⟨verify_crash_of V p c hk hsw hv h1 h2 h3 h4 hnone, hnone, hv.symm, ?_⟩
    have hmod : c.number % U64 = c.number := Nat.mod_eq_of_lt (by simp only [U64]; omega)
    omega

/-- **Import batches extend valid chains.** If the chain-level verifier (the pure verifier folded along a batch
from its parent, which is what `(*BlockChain).VerifyYouVersionState{,2}` must compute — checked against the
real entry points by the harness) accepts a consecutively numbered batch on top of the head of a valid chain,
the extended chain is valid — so every chain-level theorem above applies to what header/block import accepts. -/
theorem accepted_batch_extends_chain {V : Versions} : ∀ (batch : List Hdr) {p : Hdr} {rest : List Hdr} (i : Nat),
    ValidChain V (p :: rest) → Numbered p batch → verifyBatch V p batch i = none →
    ValidChain V (batch.reverse ++ p :: rest) := by
  intro batch
  induction batch with
  | nil => intro p rest i hc _ _; simpa using hc
  | cons c cs ih =>
    intro p rest i hc hn hv
    simp only [verifyBatch] at hv
    split at hv
    · rename_i hok
      obtain ⟨h1, h2, h3⟩ := hn
      have hc' : ValidChain V (c :: p :: rest) := ValidChain.step c p rest hc ⟨h1, h2, hok⟩
      have := ih (i + 1) hc' h3 hv
      simpa [List.reverse_cons, List.append_assoc] using this
    · cases hv

/-- A rejected batch is rejected at its first bad link: the reported index is that of a header the pure
verifier rejects against its predecessor, and everything before it was accepted. -/
theorem rejected_batch_index {V : Versions} : ∀ (batch : List Hdr) (p : Hdr) (i k : Nat),
    verifyBatch V p batch i = some k →
    i ≤ k ∧ ∃ q c, (p :: batch)[k - i]? = some q ∧ batch[k - i]? = some c ∧ (Gen.verify V q c).1 ≠ .ok := by
  intro batch
  induction batch with
  | nil => intro p i k h; simp [verifyBatch] at h
  | cons c cs ih =>
    intro p i k h
    simp only [verifyBatch] at h
    split at h
    · obtain ⟨h1, q, c', h2, h3, h4⟩ := ih c (i + 1) k h
      refine ⟨by omega, q, c', ?_, ?_, h4⟩
      · have hk : k - i = (k - (i + 1)) + 1 := by omega
        rw [hk, List.getElem?_cons_succ]; exact h2
      · have hk : k - i = (k - (i + 1)) + 1 := by omega
        rw [hk, List.getElem?_cons_succ]; exact h3
    · rename_i hbad
      cases h
      exact ⟨Nat.le_refl _, p, c, by simp, by simp, hbad⟩

/-- The hypotheses on the parameter table hold for every table the node ships (mainnet, testnet,
test-case network), decided over the constants regenerated from `params.Versions`. -/
theorem shipped_tables_ok : ∀ t ∈ Gen.shippedTables, ∀ e ∈ t, e.2.ok = true := by decide

/-- `VParams.ok` for every entry is `ParamsOK` of the table read as a lookup function. -/
theorem paramsOK_of_table (t : List (Nat × VParams)) (h : ∀ e ∈ t, e.2.ok = true) :
    ParamsOK (fun k => (t.find? (·.1 == k)).map (·.2)) := by
  intro k P hk
  simp only [Option.map_eq_some_iff] at hk
  obtain ⟨e, he, rfl⟩ := hk
  have := h e (List.mem_of_find?_eq_some he)
  simp only [VParams.ok, Bool.and_eq_true, decide_eq_true_eq] at this
  omega

/-! ### Known finding F-C12b: the property is false of the code for tables with `MinUpgradeWaitRounds = 0`
(no shipped table; see `shipped_tables_ok`). Witnesses on the generated functions, replayed on the
Go code by the harness (matcher `min-wait-zero`). -/

def minZeroTable : Versions := fun k =>
  if k = 1 then some { approvedUpgradeVersion := 2, upgradeVoteRounds := 2, upgradeThreshold := 2, minUpgradeWaitRounds := 0, maxUpgradeWaitRounds := 0 }
  else if k = 2 then some { upgradeVoteRounds := 2, upgradeThreshold := 2 } else none

/-- With `MinUpgradeWaitRounds = 0` the verifier accepts a switch backed by one approval where two are required … -/
theorem min_wait_zero_counterexample :
    (Gen.verify minZeroTable { number := 1, currVersion := 1 } { number := 2, currVersion := 1, nextVersion := 2, nextApprovals := 1, nextVoteBefore := 4, nextSwitchOn := 4 }).1 = .ok ∧
    (Gen.verify minZeroTable { number := 2, currVersion := 1, nextVersion := 2, nextApprovals := 1, nextVoteBefore := 4, nextSwitchOn := 4 } { number := 3, currVersion := 1, nextVersion := 2, nextApprovals := 1, nextVoteBefore := 4, nextSwitchOn := 4 }).1 = .ok ∧
    (Gen.verify minZeroTable { number := 3, currVersion := 1, nextVersion := 2, nextApprovals := 1, nextVoteBefore := 4, nextSwitchOn := 4 } { number := 4, currVersion := 2 }).1 = .ok := by decide

/-- … and rejects the header the honest builder derives (which clears the failed proposal). -/
theorem min_wait_zero_builder_rejected :
    let p : Hdr := { number := 3, currVersion := 1, nextVersion := 2, nextApprovals := 1, nextVoteBefore := 4, nextSwitchOn := 4 }
    (Gen.process minZeroTable p { number := 4 }) = (.ok, { number := 4, currVersion := 1 }) ∧
    (Gen.verify minZeroTable p { number := 4, currVersion := 1 }).1 = .err 4 := by decide

/-! ### Non-vacuity: the hypotheses are met by concrete, non-trivial chains (tests on literals, labelled as such). -/

def demoTable : Versions := fun k =>
  if k = 1 then some { approvedUpgradeVersion := 2, upgradeVoteRounds := 3, upgradeThreshold := 2, minUpgradeWaitRounds := 1, maxUpgradeWaitRounds := 4 }
  else if k = 2 then some { upgradeVoteRounds := 3, upgradeThreshold := 2, minUpgradeWaitRounds := 1, maxUpgradeWaitRounds := 4 } else none

/-- (demonstration instance used by the `example`s below, not a property theorem) -/
theorem demoTable_ok : ParamsOK demoTable := by
  intro k P h
  unfold demoTable at h
  split at h
  · cases h; decide
  · split at h
    · cases h; decide
    · cases h

/-- a chain in which version 1 → 2 is proposed at round 1, approved at rounds 1 and 2, and switched at round 5 -/
def demoChain : List Hdr := [
  { number := 5, currVersion := 2 },
  { number := 4, currVersion := 1, nextVersion := 2, nextApprovals := 2, nextVoteBefore := 4, nextSwitchOn := 5 },
  { number := 3, currVersion := 1, nextVersion := 2, nextApprovals := 2, nextVoteBefore := 4, nextSwitchOn := 5 },
  { number := 2, currVersion := 1, nextVersion := 2, nextApprovals := 2, nextVoteBefore := 4, nextSwitchOn := 5 },
  { number := 1, currVersion := 1, nextVersion := 2, nextApprovals := 1, nextVoteBefore := 4, nextSwitchOn := 5 },
  { number := 0, currVersion := 1 }]

/-- (demonstration instance used by the `example`s below, not a property theorem) -/
theorem demoChain_valid : ValidChain demoTable demoChain := by
  unfold demoChain
  repeat (first
    | exact ValidChain.start _ (by simp [Clean]) (by decide) (by decide)
    | refine ValidChain.step _ _ _ ?_ ⟨by decide, by decide, by decide⟩)

example : approvers demoChain.tail = [2, 1] ∧ openedAt demoChain.tail = 1 := by decide

/-- the builder reproduces the honest part of that chain -/
example : Gen.process demoTable { number := 0, currVersion := 1 } { number := 1 } =
    (.ok, { number := 1, currVersion := 1, nextVersion := 2, nextApprovals := 1, nextVoteBefore := 4, nextSwitchOn := 5 }) := by decide

/-- regression for the repaired defect F-C12a: an approval at round = NextVoteBefore is rejected -/
example : (Gen.verify demoTable
    { number := 3, currVersion := 1, nextVersion := 2, nextApprovals := 1, nextVoteBefore := 4, nextSwitchOn := 5 }
    { number := 4, currVersion := 1, nextVersion := 2, nextApprovals := 2, nextVoteBefore := 4, nextSwitchOn := 5 }).1 = .err 100 := by decide

/-! ## VersionForRound: which version's parameters the other subsystems use for a round

`versionForRound` (ModelVfr.lean) is the hand-written model of `(*HeaderChain).VersionForRoundWithParents`, tied to
the code by the harness' `F` correspondence stream; `Gen.protocolRoundBack` is regenerated from the source. -/

/-- **The parameters in force change only `protocolRoundBack` rounds after an announced switch.**  Over a canonical
index whose consecutive headers are verifier-accepted links (`CanonLinked`; every stored `ValidChain` is one, see
`canonLinked_of_validChain`), if the version answered for round `r+1` differs from the one answered for round `r`
then `r ≥ protocolRoundBack` and the header `protocolRoundBack` rounds before `r+1` is the switch block of a proposal
announced by its parent: it sits on the announced round and carries the announced version.  In particular nothing
changes during the first `protocolRoundBack` rounds. -/
theorem params_version_changes_only_after_switch (V : Versions) (get : Nat → Option Hdr) (hget : CanonLinked V get)
    (r v v' : Nat) (h1 : versionForRound V get [] r = .ok v) (h2 : versionForRound V get [] (r + 1) = .ok v')
    (hne : v ≠ v') :
    Gen.protocolRoundBack ≤ r ∧
    ∃ p c, get (r - Gen.protocolRoundBack) = some p ∧ get (r + 1 - Gen.protocolRoundBack) = some c ∧
      v = p.currVersion ∧ v' = c.currVersion ∧ c.number = p.number + 1 ∧
      p.nextSwitchOn = c.number ∧ c.currVersion = p.nextVersion := by
  obtain ⟨p, hp, hpv⟩ := vfr_ok_nil h1
  obtain ⟨c, hc, hcv⟩ := vfr_ok_nil h2
  by_cases hr : Gen.protocolRoundBack ≤ r
  · obtain ⟨e1, e2⟩ := paramRound_succ hr
    rw [e1] at hp; rw [e2] at hc
    obtain ⟨hnum, hlt, hv⟩ := hget _ p c hp hc
    have hchg : c.currVersion ≠ p.currVersion := by rw [hpv, hcv]; exact fun e => hne e.symm
    obtain ⟨hsw, hcn, _⟩ := version_changes_only_at_switch V p c hv hchg
    have hmod : c.number % U64 = c.number := Nat.mod_eq_of_lt (by simp only [U64]; omega)
    rw [hmod] at hsw
    refine ⟨hr, p, c, hp, ?_, hpv.symm, hcv.symm, hnum, hsw, hcn⟩
    have : r + 1 - Gen.protocolRoundBack = r - Gen.protocolRoundBack + 1 := by omega
    rw [this]; exact hc
  · obtain ⟨e1, e2⟩ := paramRound_small (by omega : r + 1 ≤ Gen.protocolRoundBack)
    rw [e1] at hp; rw [e2] at hc
    rw [hp] at hc; cases hc
    exact absurd (hpv.symm.trans hcv) hne

/-- **The parameters in force change only after a switch that had its quorum.**  Composition of the two chain theorems:
over a stored `ValidChain` (newest first; the canonical index is its reverse), if the version answered by
`VersionForRound` for round `r+1` differs from the one for round `r`, then the chain contains the switch block `c` on
top of its parent `p` (`hs = pre ++ c :: p :: rest`), the old and new answers are exactly `p`'s and `c`'s versions, `c`
sits on the round and carries the version `p` announced, and that proposal collected at least `UpgradeThreshold`
approvals from distinct blocks inside its voting window and waited at least `MinUpgradeWaitRounds`. -/
theorem params_switch_had_quorum {V : Versions} (hV : ParamsOK V) {hs : List Hdr} (hc : ValidChain V hs)
    (r v v' : Nat)
    (h1 : versionForRound V (fun n => hs.reverse[n]?) [] r = .ok v)
    (h2 : versionForRound V (fun n => hs.reverse[n]?) [] (r + 1) = .ok v') (hne : v ≠ v') :
    ∃ c p rest P, (∃ pre, hs = pre ++ c :: p :: rest) ∧ V p.currVersion = some P ∧
      v = p.currVersion ∧ v' = c.currVersion ∧ c.currVersion = p.nextVersion ∧ c.number = p.nextSwitchOn ∧
      p.nextApprovals = (approvers (p :: rest)).length ∧ (approvers (p :: rest)).Nodup ∧
      (∀ a ∈ approvers (p :: rest), openedAt (p :: rest) ≤ a ∧ a < p.nextVoteBefore) ∧
      P.upgradeThreshold ≤ (approvers (p :: rest)).length ∧
      p.nextVoteBefore + P.minUpgradeWaitRounds ≤ c.number := by
  obtain ⟨_, p, c, hp, hcc, hvp, hvc, _, _, _⟩ :=
    params_version_changes_only_after_switch V _ (canonLinked_of_validChain hc) r v v' h1 h2 hne
  have hp : hs.reverse[r - Gen.protocolRoundBack]? = some p := hp
  have hcc : hs.reverse[r + 1 - Gen.protocolRoundBack]? = some c := hcc
  -- positions in the newest-first list
  have hlt : r + 1 - Gen.protocolRoundBack < hs.length := by
    have := (List.getElem?_eq_some_iff.1 hcc).1
    simpa using this
  have hlt0 : r - Gen.protocolRoundBack < hs.length := by
    have := (List.getElem?_eq_some_iff.1 hp).1
    simpa using this
  by_cases hr : Gen.protocolRoundBack ≤ r
  · have e1 : r + 1 - Gen.protocolRoundBack = (r - Gen.protocolRoundBack) + 1 := by omega
    rw [e1] at hcc hlt
    rw [List.getElem?_reverse hlt0] at hp
    rw [List.getElem?_reverse hlt] at hcc
    let k := hs.length - 1 - (r - Gen.protocolRoundBack + 1)
    have hk : k < hs.length := by omega
    have hk1 : k + 1 < hs.length := by omega
    have ep : hs.length - 1 - (r - Gen.protocolRoundBack) = k + 1 := by omega
    rw [ep] at hp
    have hck : hs[k]? = some c := hcc
    have hcv : hs[k] = c := by
      have := List.getElem?_eq_getElem hk; rw [this] at hck; exact Option.some.inj hck
    have hpv : hs[k + 1] = p := by
      have := List.getElem?_eq_getElem hk1; rw [this] at hp; exact Option.some.inj hp
    have hdrop : hs.drop k = c :: p :: hs.drop (k + 2) := by
      rw [List.drop_eq_getElem_cons hk, List.drop_eq_getElem_cons hk1, hcv, hpv]
    have hvc' : ValidChain V (c :: p :: hs.drop (k + 2)) := by
      rw [← hdrop]; exact validChain_drop hc k hk
    have hchg : c.currVersion ≠ p.currVersion := by
      rw [← hvp, ← hvc]; exact fun e => hne e.symm
    obtain ⟨P, hP, _, h3, h4, h5, h6, h7, _, h9, h10⟩ := switch_needs_quorum_in_window hV hvc' hchg
    refine ⟨c, p, hs.drop (k + 2), P, ⟨hs.take k, ?_⟩, hP, hvp, hvc, h3, h4, h5, h6, h7, h9, h10⟩
    rw [← hdrop, List.take_append_drop]
  · -- both rounds read header 0: same version
    exfalso
    have e0 : r - Gen.protocolRoundBack = 0 := by omega
    have e1 : r + 1 - Gen.protocolRoundBack = 0 := by omega
    rw [e0] at hp; rw [e1] at hcc
    rw [hp] at hcc; cases hcc
    exact hne (hvp.trans hvc.symm)

/-- A batch's own headers are only a fallback: when the canonical index knows the deciding round, the `parents`
argument cannot change the answer (an import batch cannot override the stored chain). -/
theorem versionForRound_canonical_first (V : Versions) (get : Nat → Option Hdr) (parents : List Hdr) (r : Nat) (h : Hdr)
    (hg : get (paramRound r) = some h) :
    versionForRound V get parents r = versionForRound V get [] r := by
  unfold versionForRound vfrHeader
  simp only [hg]

/-- The index into `parents` (a Go slice: out of range = panic) stays in range for every caller that asks about a
round not beyond the end of its batch (`r ≤ firstNum + len(parents)`: header verification asks about the header that
follows its parents).  Needs `protocolRoundBack ≥ 1`, which holds for the regenerated constant. -/
theorem versionForRound_no_crash_in_batch (V : Versions) (get : Nat → Option Hdr) (f : Hdr) (rest : List Hdr) (r : Nat)
    (hr : r ≤ f.number % U64 + (f :: rest).length) :
    versionForRound V get (f :: rest) r ≠ .crash := by
  unfold versionForRound
  cases hh : vfrHeader get (f :: rest) r with
  | none => exact absurd hh (vfrHeader_ne_none get f rest r hr)
  | some o =>
    cases o with
    | none => simp
    | some h => simp only; split <;> simp

/-- the hypotheses of `params_version_changes_only_after_switch` are met by a stored valid chain, and the
conclusion is exercised: in `demoChain` the version switches at round 5, so the parameters change between the
answers for rounds 12 and 13 (= 5 + protocolRoundBack), and not before. -/
example : CanonLinked demoTable (fun n => demoChain.reverse[n]?) :=
  canonLinked_of_validChain (by
    unfold demoChain
    repeat (first
      | exact ValidChain.start _ (by simp [Clean]) (by decide) (by decide)
      | refine ValidChain.step _ _ _ ?_ ⟨by decide, by decide, by decide⟩))

example : (List.range 14).map (fun r => versionForRound demoTable (fun n => demoChain.reverse[n]?) [] r) =
    (List.replicate 13 (.ok 1)) ++ [.ok 2] := by decide

/-- `params_switch_had_quorum` instantiated on `demoChain`: the answers for rounds 12 and 13 differ (1 → 2) -/
example : ∃ c p rest P, (∃ pre, demoChain = pre ++ c :: p :: rest) ∧ demoTable p.currVersion = some P ∧
    1 = p.currVersion ∧ 2 = c.currVersion ∧ c.currVersion = p.nextVersion ∧ c.number = p.nextSwitchOn ∧
    p.nextApprovals = (approvers (p :: rest)).length ∧ (approvers (p :: rest)).Nodup ∧
    (∀ a ∈ approvers (p :: rest), openedAt (p :: rest) ≤ a ∧ a < p.nextVoteBefore) ∧
    P.upgradeThreshold ≤ (approvers (p :: rest)).length ∧ p.nextVoteBefore + P.minUpgradeWaitRounds ≤ c.number :=
  params_switch_had_quorum demoTable_ok demoChain_valid 12 1 2 (by decide) (by decide) (by decide)

/-- crash is reachable outside that guard (a caller asking far beyond its batch): Go panics there -/
example : versionForRound demoTable (fun _ => none) [{ number := 2, currVersion := 1 }] 12 = .crash := by decide

end YouVerif.C12.Props
