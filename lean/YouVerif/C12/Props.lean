import YouVerif.C12.Gen
namespace YouVerif.C12.Props
open YouVerif.C12

/-- placeholder while the skeleton is brought up -/
theorem skeleton_sanity : (Gen.verify (fun _ => none) {} {}).1 = .crash := by decide

end YouVerif.C12.Props
