/-
C12 helper lemmas: the generated verifier is characterised by `VerifySpec`; the generated builder's
output satisfies it on every state reachable through accepted headers; chain invariant.
-/
import YouVerif.C12.Spec
namespace YouVerif.C12
open YouVerif.C12

/-! ### the generated verifier -/

def vfin (o : Out Gen.verifySt) : Res := match o with | .cont s => Res.ofErr s.err | .ret r _ => r
@[simp] theorem vfin_ret (r s) : vfin (.ret r s) = r := rfl
@[simp] theorem vfin_cont (s) : vfin (.cont s) = Res.ofErr s.err := rfl
theorem verify_fst (V p c) : (Gen.verify V p c).1 = vfin (Gen.verifyBody V {prev := p, curr := c}) := by
  unfold Gen.verify vfin; split <;> simp_all

set_option linter.unusedSimpArgs false in
/-- The generated `VerifyYouVersionState` accepts exactly what `VerifySpec` says. Re-checked on every regeneration. -/
theorem verify_ok_iff (V : Versions) (p c : Hdr) :
    (Gen.verify V p c).1 = .ok ↔ VerifySpec V p c := by
  rw [verify_fst]
  unfold VerifySpec Gen.verifyBody
  simp only [seq_skip, seq_assign, seq_ret, seq_ite', seq_seq, skip_apply, assign_apply, ret_apply, ite'_apply, lookup, Res.ofErr]
  cases hV : V p.currVersion with
  | none => simp
  | some P =>
    simp only [Option.some.injEq, exists_eq_left', Bool.not_true, Bool.false_eq_true, ↓reduceIte, apply_ite vfin, vfin_ret, vfin_cont]
    cases hC : V c.currVersion <;> simp <;> (repeat' split) <;> simp_all <;> (simp only [U64] at *) <;> omega


set_option linter.unusedSimpArgs false in
/-- The verifier calls `logging.Crit` (process exit) exactly when a needed version is unknown locally. -/
theorem verify_crash_of (V : Versions) (p c : Hdr) (hk : ∃ P, V p.currVersion = some P)
    (hsw : p.nextSwitchOn = c.number % U64) (hv : p.nextVersion = c.currVersion)
    (h1 : c.nextVersion = 0) (h2 : c.nextVoteBefore = 0) (h3 : c.nextSwitchOn = 0) (h4 : c.nextApprovals = 0)
    (hn : V c.currVersion = none) : (Gen.verify V p c).1 = .crash := by
  obtain ⟨P, hP⟩ := hk
  rw [verify_fst]
  unfold Gen.verifyBody
  simp only [seq_skip, seq_assign, seq_ret, seq_ite', seq_seq, skip_apply, assign_apply, ret_apply, ite'_apply, lookup, Res.ofErr]
  simp [hP, hsw, hv, h1, h2, h3, h4, hn]

/-! ### reachable states -/

/-- Invariant of every header reachable from a clean start through verifier-accepted links. -/
structure StateOK (V : Versions) (h : Hdr) : Prop where
  num : h.number < 2^62
  known : ∃ P, V h.currVersion = some P
  clean : h.nextVersion = 0 → Clean h
  opened : h.nextVersion ≠ 0 → ∀ P, V h.currVersion = some P →
      h.number < h.nextSwitchOn ∧ h.nextVoteBefore + P.minUpgradeWaitRounds ≤ h.nextSwitchOn ∧
      h.nextSwitchOn < 3 * 2^62 ∧
      (h.nextVoteBefore ≤ h.number → P.upgradeThreshold ≤ h.nextApprovals) ∧ h.nextApprovals ≤ h.number + 1

theorem stateOK_step {V : Versions} (hV : ParamsOK V) {p c : Hdr} (hp : StateOK V p) (hl : Link V p c) :
    StateOK V c := by
  obtain ⟨hnum, hlt, hv⟩ := hl
  obtain ⟨P, hP, h⟩ := (verify_ok_iff V p c).1 hv
  have hPok := hV _ _ hP
  have hmod : c.number % U64 = c.number := Nat.mod_eq_of_lt (by simp only [U64]; omega)
  simp only [hmod] at h
  have hpn := hp.num
  by_cases hpv : p.nextVersion = 0
  · -- parent has no proposal
    have hc := hp.clean hpv
    obtain ⟨_, hna, hnvb, hnso⟩ := hc
    have hne : ¬ p.nextSwitchOn = c.number := by omega
    simp only [hne, ↓reduceIte, hpv, ne_eq, not_true_eq_false] at h
    obtain ⟨hcv, h⟩ := h
    by_cases hcn : c.nextVersion = 0
    · simp only [hcn, not_true_eq_false, ↓reduceIte] at h
      exact ⟨hlt, ⟨P, by rw [hcv]; exact hP⟩, fun _ => ⟨hcn, h.1, h.2.1, h.2.2⟩, fun hh => absurd hcn hh⟩
    · simp only [hcn, not_false_eq_true, ↓reduceIte] at h
      refine ⟨hlt, ⟨P, by rw [hcv]; exact hP⟩, fun hh => absurd hh hcn, fun _ P' hP' => ?_⟩
      rw [hcv, hP] at hP'; cases hP'
      simp only [U64] at h
      omega
  · -- parent has an open proposal
    obtain ⟨h1, h2, h3, h4, h5⟩ := hp.opened hpv P hP
    by_cases hsw : p.nextSwitchOn = c.number
    · simp only [hsw, ↓reduceIte] at h
      obtain ⟨_, hcn, hb, hs, ha, hk⟩ := h
      obtain ⟨P', hP'⟩ := Option.isSome_iff_exists.1 hk
      exact ⟨hlt, ⟨P', hP'⟩, fun _ => ⟨hcn, ha, hb, hs⟩, fun hh => absurd hcn hh⟩
    · simp only [hsw, ↓reduceIte, ne_eq, hpv, not_false_eq_true] at h
      obtain ⟨hcv, h⟩ := h
      by_cases hcn : c.nextVersion = 0
      · simp only [hcn, ↓reduceIte] at h
        exact ⟨hlt, ⟨P, by rw [hcv]; exact hP⟩, fun _ => ⟨hcn, h.2.2.1, h.2.2.2.1, h.2.2.2.2⟩, fun hh => absurd hcn hh⟩
      · simp only [hcn, ↓reduceIte] at h
        refine ⟨hlt, ⟨P, by rw [hcv]; exact hP⟩, fun hh => absurd hh hcn, fun _ P' hP' => ?_⟩
        rw [hcv, hP] at hP'; cases hP'
        simp only [U64] at h
        omega

theorem stateOK_of_chain {V : Versions} (hV : ParamsOK V) : ∀ {hs : List Hdr} {h : Hdr},
    ValidChain V (h :: hs) → StateOK V h := by
  intro hs
  induction hs with
  | nil =>
    intro h hc
    cases hc with
    | start _ hcl hk hn =>
      exact ⟨hn, Option.isSome_iff_exists.1 hk, fun _ => hcl, fun hh => absurd hcl.1 hh⟩
  | cons p rest ih =>
    intro h hc
    cases hc with
    | step _ _ _ hprev hl => exact stateOK_step hV (ih hprev) hl

/-- Ghost invariant: the approval counter of an open proposal is exactly the number of distinct blocks
that approved it, all of them inside the voting window fixed when the proposal was made. -/
structure ChainInv (V : Versions) (hs : List Hdr) (h : Hdr) : Prop where
  count : h.nextApprovals = (approvers (h :: hs)).length
  window : ∀ r ∈ approvers (h :: hs), openedAt (h :: hs) ≤ r ∧ r < h.nextVoteBefore ∧ r ≤ h.number
  distinct : (approvers (h :: hs)).Pairwise (· > ·)
  voteBefore : ∀ P, V h.currVersion = some P → h.nextVoteBefore = openedAt (h :: hs) + P.upgradeVoteRounds
  openedLe : openedAt (h :: hs) ≤ h.number

theorem chainInv_of_chain {V : Versions} (hV : ParamsOK V) : ∀ {hs : List Hdr} {h : Hdr},
    ValidChain V (h :: hs) → h.nextVersion ≠ 0 → ChainInv V hs h := by
  intro hs
  induction hs with
  | nil =>
    intro h hc hne
    cases hc with
    | start _ hcl _ _ => exact absurd hcl.1 hne
  | cons p rest ih =>
    intro c hc hcn
    cases hc with
    | step _ _ _ hprev hl =>
      have hp := stateOK_of_chain hV hprev
      obtain ⟨hnum, hlt, hv⟩ := hl
      obtain ⟨P, hP, h⟩ := (verify_ok_iff V p c).1 hv
      have hPok := hV _ _ hP
      have hmod : c.number % U64 = c.number := Nat.mod_eq_of_lt (by simp only [U64]; omega)
      simp only [hmod] at h
      have hpn := hp.num
      by_cases hpv : p.nextVersion = 0
      · obtain ⟨_, hna, hnvb, hnso⟩ := hp.clean hpv
        have hne : ¬ p.nextSwitchOn = c.number := by omega
        simp only [hne, ↓reduceIte, hpv, ne_eq, not_true_eq_false, hcn, not_false_eq_true] at h
        obtain ⟨hcv, h⟩ := h
        simp only [U64] at h
        refine ⟨?_, ?_, ?_, ?_, by simp [openedAt, hcn, hpv]⟩
        · simp [approvers, hcn, hpv, h.2.2.2]
        · intro r hr
          simp [approvers, hcn, hpv] at hr
          simp [openedAt, hcn, hpv]
          omega
        · simp [approvers, hcn, hpv]
        · intro P' hP'
          rw [hcv, hP] at hP'; cases hP'
          simp [openedAt, hcn, hpv]
          omega
      · obtain ⟨h1, h2, h3, h4, h5⟩ := hp.opened hpv P hP
        have ihp := ih hprev hpv
        by_cases hsw : p.nextSwitchOn = c.number
        · simp only [hsw, ↓reduceIte] at h
          exact absurd h.2.1 hcn
        · simp only [hsw, ↓reduceIte, ne_eq, hpv, not_false_eq_true, hcn] at h
          obtain ⟨hcv, hnv, hvb, hthr, happ, hso⟩ := h
          simp only [U64] at happ
          have hopen : openedAt (c :: p :: rest) = openedAt (p :: rest) := by simp [openedAt, hcn, hpv]
          by_cases heq : c.nextApprovals = p.nextApprovals
          · have happr : approvers (c :: p :: rest) = approvers (p :: rest) := by simp [approvers, hcn, hpv, heq]
            refine ⟨by rw [happr, heq]; exact ihp.count, ?_, by rw [happr]; exact ihp.distinct, ?_, by rw [hopen]; have := ihp.openedLe; omega⟩
            · intro r hr
              rw [happr] at hr
              have := ihp.window r hr
              rw [hopen, hvb]; omega
            · intro P' hP'
              rw [hcv] at hP'
              rw [hopen, hvb]; exact ihp.voteBefore P' hP'
          · have happr : approvers (c :: p :: rest) = c.number :: approvers (p :: rest) := by simp [approvers, hcn, hpv, heq]
            have hinc : c.nextApprovals = p.nextApprovals + 1 ∧ c.number < p.nextVoteBefore := by omega
            refine ⟨?_, ?_, ?_, ?_, by rw [hopen]; have := ihp.openedLe; omega⟩
            · rw [happr, List.length_cons, ← ihp.count]; exact hinc.1
            · intro r hr
              rw [happr] at hr
              rw [hopen, hvb]
              cases hr with
              | head =>
                have := ihp.openedLe
                exact ⟨by omega, hinc.2, Nat.le_refl _⟩
              | tail _ hr' =>
                have := ihp.window r hr'
                omega
            · rw [happr]
              refine List.pairwise_cons.2 ⟨?_, ihp.distinct⟩
              intro r hr
              have := ihp.window r hr
              omega
            · intro P' hP'
              rw [hcv] at hP'
              rw [hopen, hvb]; exact ihp.voteBefore P' hP'


/-! ### the generated builder -/

def pfin (o : Out Gen.processSt) : Res × Hdr := match o with | .cont s => (Res.ofErr 0, s.curr) | .ret r s => (r, s.curr)
@[simp] theorem pfin_ret (r s) : pfin (.ret r s) = (r, s.curr) := rfl
@[simp] theorem pfin_cont (s) : pfin (.cont s) = (Res.ofErr 0, s.curr) := rfl
theorem process_eq (V p c) : Gen.process V p c = pfin (Gen.processBody V {prev := p, curr := c}) := by
  unfold Gen.process pfin; split <;> simp_all

/-- The verifier's verdict on a header that satisfies everything but "the new version is known locally". -/
def VerifyCore (V : Versions) (p c : Hdr) : Prop :=
  VerifySpec V p c ∨
  (V c.currVersion = none ∧ (∃ P, V p.currVersion = some P) ∧ p.nextSwitchOn = c.number % U64 ∧ p.nextVersion = c.currVersion ∧
    c.nextVersion = 0 ∧ c.nextVoteBefore = 0 ∧ c.nextSwitchOn = 0 ∧ c.nextApprovals = 0)

set_option linter.unusedSimpArgs false in
set_option maxHeartbeats 2000000 in
theorem builder_core {V : Versions} (hV : ParamsOK V) {p : Hdr} (hp : StateOK V p) (hn : p.number + 1 < 2^62)
    (c0 c : Hdr) (hc0 : c0 = { number := p.number + 1 }) (h : Gen.process V p c0 = (.ok, c)) :
    c.number = p.number + 1 ∧ VerifyCore V p c := by
  subst hc0
  rw [process_eq] at h
  unfold Gen.processBody at h
  simp only [seq_skip, seq_assign, seq_ret, seq_ite', seq_seq, skip_apply, assign_apply, ret_apply, ite'_apply, lookup, Res.ofErr,
    apply_ite pfin, pfin_ret, pfin_cont] at h
  obtain ⟨P, hP⟩ := hp.known
  have hPok := hV _ _ hP
  have hpn := hp.num
  have hmod : p.number % U64 = p.number := Nat.mod_eq_of_lt (by simp only [U64]; omega)
  simp only [hP, hmod] at h
  by_cases hpv : p.nextVersion = 0
  · obtain ⟨_, hna, hnvb, hnso⟩ := hp.clean hpv
    simp only [hpv, hna, hnvb, hnso] at h
    by_cases hap : P.approvedUpgradeVersion > 0
    · cases hN : V P.approvedUpgradeVersion with
      | none => simp [hap, hN] at h
      | some N =>
        have hNok := hV _ _ hN
        simp [hap, hN] at h
        simp only [U64] at h
        (repeat' split at h) <;> simp only [Prod.mk.injEq, reduceCtorEq, false_and, true_and] at h <;> subst h <;>
          refine ⟨rfl, ?_⟩ <;> unfold VerifyCore VerifySpec <;> simp only [U64] at * <;> simp [hP, hpv, hna, hnvb, hnso, hN] <;> omega
    · simp [hap] at h
      simp only [U64] at h
      (repeat' split at h) <;> simp only [Prod.mk.injEq, reduceCtorEq, false_and, true_and] at h <;> subst h <;>
          refine ⟨rfl, ?_⟩ <;> unfold VerifyCore VerifySpec <;> simp only [U64] at * <;> simp [hP, hpv, hna, hnvb, hnso] <;> omega
  · obtain ⟨h1, h2, h3, h4, h5⟩ := hp.opened hpv P hP
    simp [hpv] at h
    simp only [U64] at h
    cases hK : V p.nextVersion <;> simp [hK] at h <;>
    (repeat' split at h) <;> simp only [Prod.mk.injEq, reduceCtorEq, false_and, true_and] at h <;> subst h <;>
          refine ⟨rfl, ?_⟩ <;> unfold VerifyCore VerifySpec <;> simp only [U64] at * <;> simp [hP, hpv, hK] <;> (first | omega | (split <;> omega))

end YouVerif.C12
