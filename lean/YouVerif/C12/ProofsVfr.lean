/-
C12 — helper lemmas about the `VersionForRound` model (ModelVfr.lean).
-/
import YouVerif.C12.Proofs
import YouVerif.C12.ModelVfr
namespace YouVerif.C12
open YouVerif.C12

/-- The canonical index is a chain of verifier-accepted links: whenever rounds `n` and `n+1` are both
present, header `n+1` directly follows header `n` and was accepted by the (generated) verifier against it. -/
def CanonLinked (V : Versions) (get : Nat → Option Hdr) : Prop :=
  ∀ n p c, get n = some p → get (n + 1) = some c → Link V p c

theorem vfr_ok_nil {V : Versions} {get : Nat → Option Hdr} {r v : Nat}
    (h : versionForRound V get [] r = .ok v) : ∃ hd, get (paramRound r) = some hd ∧ hd.currVersion = v := by
  unfold versionForRound vfrHeader at h
  cases hg : get (paramRound r) with
  | none => simp [hg] at h
  | some hd =>
    simp only [hg] at h
    cases hv : V hd.currVersion with
    | none => simp [hv] at h
    | some P => simp only [hv] at h; exact ⟨hd, rfl, by injection h⟩

theorem paramRound_small {r : Nat} (h : r + 1 ≤ Gen.protocolRoundBack) : paramRound r = 0 ∧ paramRound (r + 1) = 0 := by
  unfold paramRound; constructor <;> (split <;> omega)

theorem paramRound_succ {r : Nat} (h : Gen.protocolRoundBack ≤ r) :
    paramRound r = r - Gen.protocolRoundBack ∧ paramRound (r + 1) = (r - Gen.protocolRoundBack) + 1 := by
  unfold paramRound; constructor <;> (split <;> omega)

theorem vfrHeader_ne_none (get : Nat → Option Hdr) (f : Hdr) (rest : List Hdr) (r : Nat)
    (hr : r ≤ f.number % U64 + (f :: rest).length) : vfrHeader get (f :: rest) r ≠ none := by
  have hb : 1 ≤ Gen.protocolRoundBack := by decide
  unfold vfrHeader
  cases hg : get (paramRound r) with
  | some h => simp [hg]
  | none =>
    simp only [hg]
    by_cases hge : paramRound r ≥ f.number % U64
    · have hidx : paramRound r - f.number % U64 < (f :: rest).length := by
        have hpr : paramRound r = 0 ∨ paramRound r + 1 ≤ r := by
          unfold paramRound; split <;> omega
        simp only [List.length_cons] at hr ⊢
        omega
      rw [if_pos hge, List.getElem?_eq_getElem hidx]; simp
    · rw [if_neg hge]; simp

/-- Links of a `ValidChain` (newest first), by position. -/
theorem validChain_link {V : Versions} {hs : List Hdr} (hc : ValidChain V hs) :
    ∀ i c p, hs[i]? = some c → hs[i + 1]? = some p → Link V p c := by
  induction hc with
  | start h _ _ _ => intro i c p _ h2; simp at h2
  | step c p rest _ hl ih =>
    intro i c' p' h1 h2
    cases i with
    | zero => simp at h1 h2; subst h1; subst h2; exact hl
    | succ j => exact ih j c' p' (by simpa using h1) (by simpa using h2)

/-- Every non-empty suffix (older part) of a `ValidChain` is a `ValidChain`. -/
theorem validChain_drop {V : Versions} {hs : List Hdr} (hc : ValidChain V hs) :
    ∀ k, k < hs.length → ValidChain V (hs.drop k) := by
  induction hc with
  | start h a b c =>
    intro k hk
    have : k = 0 := by simpa using hk
    subst this; exact ValidChain.start h a b c
  | step c p rest hprev hl ih =>
    intro k hk
    cases k with
    | zero => exact ValidChain.step c p rest hprev hl
    | succ j => simpa using ih j (by simpa using hk)

/-- A `ValidChain` (newest first) stored oldest first as the canonical index is `CanonLinked`. -/
theorem canonLinked_of_validChain {V : Versions} {hs : List Hdr} (hc : ValidChain V hs) :
    CanonLinked V (fun n => hs.reverse[n]?) := by
  intro n p c hp hcc
  simp only at hp hcc
  have hlt : n + 1 < hs.length := by
    have := (List.getElem?_eq_some_iff.1 hcc).1
    simpa using this
  rw [List.getElem?_reverse (by omega)] at hp hcc
  have e : hs.length - 1 - n = (hs.length - 1 - (n + 1)) + 1 := by omega
  rw [e] at hp
  exact validChain_link hc _ c p hcc hp

end YouVerif.C12
