/-
C12 specification layer (hand-written, readable): what the verifier accepts (`VerifySpec`), what a
well-formed parameter table is (`ParamsOK`), chains of accepted headers (`ValidChain`) and the ghost
bookkeeping the property talks about (`approvers`, `openedAt`).  `Proofs.lean` ties `VerifySpec` to
the *generated* verifier by an `iff`, so nothing here is trusted beyond being the statement's vocabulary.
-/
import YouVerif.C12.Gen
namespace YouVerif.C12
open YouVerif.C12

/-- What `VerifyYouVersionState(p, c)` accepts, written out by hand (see `verify_ok_iff`). -/
def VerifySpec (V : Versions) (p c : Hdr) : Prop :=
  ∃ P, V p.currVersion = some P ∧
  let r := c.number % U64
  if p.nextSwitchOn = r then
    -- 1. the announced switch round: the version must change to the announced one and the proposal is cleared
    p.nextVersion = c.currVersion ∧ c.nextVersion = 0 ∧ c.nextVoteBefore = 0 ∧ c.nextSwitchOn = 0 ∧ c.nextApprovals = 0 ∧
      (V c.currVersion).isSome
  else
    c.currVersion = p.currVersion ∧
    if p.nextVersion ≠ 0 then
      if c.nextVersion = 0 then
        -- 2.1 failed proposal, cleared exactly when the window closes below the threshold
        p.nextVoteBefore = r ∧ p.nextApprovals < P.upgradeThreshold ∧ c.nextApprovals = 0 ∧ c.nextVoteBefore = 0 ∧ c.nextSwitchOn = 0
      else
        -- 2.2 on-going proposal
        c.nextVersion = p.nextVersion ∧ c.nextVoteBefore = p.nextVoteBefore ∧
        (c.nextApprovals < P.upgradeThreshold → c.nextVoteBefore > r) ∧
        (c.nextApprovals = p.nextApprovals ∨ (c.nextApprovals = (p.nextApprovals + 1) % U64 ∧ r < p.nextVoteBefore)) ∧
        c.nextSwitchOn = p.nextSwitchOn
    else if c.nextVersion ≠ 0 then
      -- 3. new proposal
      c.nextVoteBefore = (r + P.upgradeVoteRounds) % U64 ∧
      c.nextSwitchOn ≥ (c.nextVoteBefore + P.minUpgradeWaitRounds) % U64 ∧
      c.nextSwitchOn ≤ (c.nextVoteBefore + P.maxUpgradeWaitRounds) % U64 ∧
      c.nextApprovals = 1
    else
      -- 4. nothing going on
      c.nextApprovals = 0 ∧ c.nextVoteBefore = 0 ∧ c.nextSwitchOn = 0

/-- Parameter tables the theorems are stated for.  Every shipped table satisfies it (decided over the
generated constants in `Props.lean`); tables with `MinUpgradeWaitRounds = 0` do not, and for those the
property is false of the code (known finding F-C12b, counterexample in `Props.lean`). -/
def ParamsOK (V : Versions) : Prop :=
  ∀ k P, V k = some P →
    1 ≤ P.upgradeVoteRounds ∧ 1 ≤ P.minUpgradeWaitRounds ∧ P.minUpgradeWaitRounds ≤ P.maxUpgradeWaitRounds ∧
    P.upgradeVoteRounds < 2^62 ∧ P.maxUpgradeWaitRounds < 2^62

/-- Decidable form for one parameter record. -/
def VParams.ok (P : VParams) : Bool :=
  decide (1 ≤ P.upgradeVoteRounds) && decide (1 ≤ P.minUpgradeWaitRounds) &&
  decide (P.minUpgradeWaitRounds ≤ P.maxUpgradeWaitRounds) &&
  decide (P.upgradeVoteRounds < 2^62) && decide (P.maxUpgradeWaitRounds < 2^62)

/-- No open proposal. -/
def Clean (h : Hdr) : Prop :=
  h.nextVersion = 0 ∧ h.nextApprovals = 0 ∧ h.nextVoteBefore = 0 ∧ h.nextSwitchOn = 0

/-- `c` directly follows `p` and the (generated) verifier accepts it. -/
def Link (V : Versions) (p c : Hdr) : Prop :=
  c.number = p.number + 1 ∧ c.number < 2^62 ∧ (Gen.verify V p c).1 = .ok

/-- A chain of headers, newest first, that starts from a header without an open proposal and in which
every header was accepted by the verifier against its parent.  Header fields are otherwise arbitrary
(chosen adversarially). -/
inductive ValidChain (V : Versions) : List Hdr → Prop
  | start (h : Hdr) : Clean h → (V h.currVersion).isSome → h.number < 2^62 → ValidChain V [h]
  | step (c p : Hdr) (rest : List Hdr) : ValidChain V (p :: rest) → Link V p c → ValidChain V (c :: p :: rest)

/-- The chain-level entry points `(*BlockChain).VerifyYouVersionState{,2}`: the pure verifier folded along an
import batch (oldest first) from the canonical parent; the result is `none` when every link is accepted, or the
index of the first rejected header. (The harness compares the real entry points with exactly this fold, on one
BlockChain across several calls.) -/
def verifyBatch (V : Versions) : Hdr → List Hdr → Nat → Option Nat
  | _, [], _ => none
  | p, c :: rest, i =>
    if (Gen.verify V p c).1 = .ok then verifyBatch V c rest (i + 1) else some i

/-- Consecutive numbering of a batch on top of its parent, below the bound the theorems carry. -/
def Numbered : Hdr → List Hdr → Prop
  | _, [] => True
  | p, c :: rest => c.number = p.number + 1 ∧ c.number < 2^62 ∧ Numbered c rest

/-- Block numbers of the blocks that approved the proposal open at the head of the chain (newest first):
the block that opened it, and every later block that raised the counter. -/
def approvers : List Hdr → List Nat
  | [] => []
  | [_] => []
  | c :: p :: rest =>
    if c.nextVersion = 0 then []
    else if p.nextVersion = 0 then [c.number]
    else if c.nextApprovals = p.nextApprovals then approvers (p :: rest)
    else c.number :: approvers (p :: rest)

/-- Block number at which the proposal open at the head of the chain was made (0 if none). -/
def openedAt : List Hdr → Nat
  | [] => 0
  | [_] => 0
  | c :: p :: rest =>
    if c.nextVersion = 0 then 0
    else if p.nextVersion = 0 then c.number
    else openedAt (p :: rest)

end YouVerif.C12
