/-
C12 prelude (hand-written, tiny): the data the translated functions work on and the statement
combinators the translator targets.  The translator (/verif/go/cmd/c12/gen.go) turns the *bodies*
of ProcessYouVersionState / clearUpgradeState / VerifyYouVersionState from /repo's current source
into terms built from these combinators; nothing about their control flow is written by hand.
-/
namespace YouVerif.C12

/-- 2^64: every header/parameter field is a Go `uint64`; additions wrap. -/
abbrev U64 : Nat := 18446744073709551616

/-- The version fields of `types.Header` (+ the block number, a `*big.Int` read through `.Uint64()`). -/
structure Hdr where
  number : Nat := 0
  currVersion : Nat := 0
  nextVersion : Nat := 0
  nextApprovals : Nat := 0
  nextVoteBefore : Nat := 0
  nextSwitchOn : Nat := 0
  deriving Repr, DecidableEq, Inhabited

/-- The upgrade-related fields of `params.YouParams`. -/
structure VParams where
  approvedUpgradeVersion : Nat := 0
  upgradeWaitRounds : Nat := 0
  upgradeVoteRounds : Nat := 0
  upgradeThreshold : Nat := 0
  minUpgradeWaitRounds : Nat := 0
  maxUpgradeWaitRounds : Nat := 0
  deriving Repr, DecidableEq, Inhabited

/-- `params.Versions`: the locally known versions. -/
abbrev Versions := Nat → Option VParams

/-- Result of a translated function: `nil`, an error (numbered by return site), or `logging.Crit` (process exit). -/
inductive Res where
  | ok
  | err (site : Nat)
  | crash
  deriving Repr, DecidableEq, Inhabited

/-- Go's `error` interface value as the translator sees it: 0 = nil, n>0 = the n-th error expression. -/
def Res.ofErr (e : Nat) : Res := if e = 0 then .ok else .err e

/-- Outcome of running a statement: fall through with a new state, or leave the function. -/
inductive Out (σ : Type) where
  | cont (s : σ)
  | ret (r : Res) (s : σ)

abbrev Stmt (σ : Type) := σ → Out σ

@[inline] def skip {σ} : Stmt σ := fun s => .cont s
@[inline] def assign {σ} (f : σ → σ) : Stmt σ := fun s => .cont (f s)
@[inline] def ret {σ} (r : σ → Res) : Stmt σ := fun s => .ret (r s) s
@[inline] def seq {σ} (a b : Stmt σ) : Stmt σ := fun s =>
  match a s with
  | .cont s' => b s'
  | .ret r s' => .ret r s'
@[inline] def ite' {σ} (c : σ → Bool) (a b : Stmt σ) : Stmt σ := fun s => if c s then a s else b s

infixr:60 " ;; " => seq

/-! Evaluation lemmas: `simp` with these turns a translated body applied to a state into a decision
tree of `if`s whose leaves are `Out.cont`/`Out.ret`. -/
@[simp] theorem skip_apply {σ} (s : σ) : (skip : Stmt σ) s = .cont s := rfl
@[simp] theorem assign_apply {σ} (f : σ → σ) (s : σ) : assign f s = .cont (f s) := rfl
@[simp] theorem ret_apply {σ} (r : σ → Res) (s : σ) : ret r s = .ret (r s) s := rfl
@[simp] theorem ite'_apply {σ} (c : σ → Bool) (a b : Stmt σ) (s : σ) :
    ite' c a b s = if c s then a s else b s := rfl
@[simp] theorem seq_skip {σ} (b : Stmt σ) (s : σ) : (skip ;; b) s = b s := rfl
@[simp] theorem seq_assign {σ} (f : σ → σ) (b : Stmt σ) (s : σ) : (assign f ;; b) s = b (f s) := rfl
@[simp] theorem seq_ret {σ} (r : σ → Res) (b : Stmt σ) (s : σ) : (ret r ;; b) s = .ret (r s) s := rfl
@[simp] theorem seq_ite' {σ} (c : σ → Bool) (a b k : Stmt σ) (s : σ) :
    (ite' c a b ;; k) s = if c s then (a ;; k) s else (b ;; k) s := by
  unfold seq ite'; by_cases h : c s = true <;> simp [h]
@[simp] theorem seq_seq {σ} (a b c : Stmt σ) (s : σ) : ((a ;; b) ;; c) s = (a ;; (b ;; c)) s := by
  unfold seq; cases a s <;> rfl

/-- Go map lookup with comma-ok: missing key gives the zero value and `false`. -/
@[inline] def lookup (V : Versions) (k : Nat) : VParams × Bool :=
  match V k with
  | some p => (p, true)
  | none => ({}, false)

end YouVerif.C12
