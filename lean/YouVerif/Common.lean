import YouVerif.Common.Hex
import YouVerif.Common.Keccak
import YouVerif.Common.Rlp
