/-
C03 — induction over `exec` (judgeVoteCount / vote / setMarkedBlock / commit): justification of own precommits,
invariant preservation and soundness of every emitted event.
-/
import YouVerif.C03.ProofsSta
namespace YouVerif.C03

def HasOver (outs : List Out) (c : Ctx) (h : Hash) : Prop :=
  ∃ count T' mem, Out.over c .prevote true h count T' mem ∈ outs

def Just (outs : List Out) : Prop :=
  ∀ c h p w, Out.signed .precommit c h p w ∈ outs → HasOver outs c h

def JustC (v : Voter) : Call → List Out → Prop
  | .vote .precommit h _, outs =>
    ∀ c h' p w, Out.signed .precommit c h' p w ∈ outs → (c = v.ctx ∧ h' = h) ∨ HasOver outs c h'
  | _, outs => Just outs

theorem HasOver.mono {o1 o2 : List Out} {c h} (hs : ∀ x ∈ o1, x ∈ o2) (h1 : HasOver o1 c h) : HasOver o2 c h := by
  obtain ⟨a, b, m, hm⟩ := h1
  exact ⟨a, b, m, hs _ hm⟩

theorem Just.nil : Just [] := by intro c h p w hm; simp at hm

theorem Just.append {o1 o2 : List Out} (h1 : Just o1) (h2 : Just o2) : Just (o1 ++ o2) := by
  intro c h p w hm
  rcases List.mem_append.mp hm with hm | hm
  · exact (h1 c h p w hm).mono (fun x hx => List.mem_append_left _ hx)
  · exact (h2 c h p w hm).mono (fun x hx => List.mem_append_right _ hx)

theorem Just.of_JustC {v : Voter} {call : Call} {outs : List Out} (h : Just outs) : JustC v call outs := by
  unfold JustC
  split
  · intro c h' p w hm; exact Or.inr (h c h' p w hm)
  · exact h

theorem JustC.just {v : Voter} {call : Call} {outs : List Out} (h : JustC v call outs)
    (hc : ∀ h p, call ≠ .vote .precommit h p) : Just outs := by
  unfold JustC at h
  split at h
  · rename_i h0 p0; exact absurd rfl (hc h0 p0)
  · exact h

theorem exec_just : ∀ (fuel : Nat) (v : Voter) (call : Call), JustC v call (exec fuel v call).2.1
  | 0, v, call => by
    apply Just.of_JustC
    intro c h p w hm; simp [exec] at hm
  | fuel + 1, v, .commit h p => by
    apply Just.of_JustC
    simp only [exec]
    split
    · exact Just.nil
    · split
      · exact Just.nil
      · split
        · exact Just.nil
        · intro c h' p' w hm; simp at hm
  | fuel + 1, v, .mark h p => by
    apply Just.of_JustC
    have ih := (exec_just fuel v (.markBody h p)).just (by intro _ _ hc; cases hc)
    simp only [exec]
    split
    · split
      · exact Just.nil
      · exact ih
    · exact ih
  | fuel + 1, v, .markBody h p => by
    apply Just.of_JustC
    have ih := (exec_just fuel v (.vote .next h p)).just (by intro _ _ hc; cases hc)
    simp only [exec]
    split
    · exact Just.nil
    · split
      · exact Just.nil
      · exact ih
  | fuel + 1, v, .vote vt h p => by
    simp only [exec]
    split
    · exact Just.of_JustC Just.nil
    · rename_i sv hsel
      split
      · exact Just.of_JustC Just.nil
      · split
        · exact Just.of_JustC Just.nil
        · split
          · exact Just.of_JustC Just.nil
          · have ih := (exec_just fuel (({ v with db := v.db.record vt v.round v.index } : Voter).newVoteAt v.ctx sv.kind vt self h sv.votes true).1
              (.judge vt (({ v with db := v.db.record vt v.round v.index } : Voter).newVoteAt v.ctx sv.kind vt self h sv.votes true).2.2 sv.T h p sv.kind)).just
              (by intro _ _ hc; cases hc)
            simp only
            by_cases hvt : vt = .precommit
            · subst hvt
              unfold JustC
              intro c h' p' w hm
              simp only [List.mem_cons] at hm
              rcases hm with hm | hm
              · cases hm; exact Or.inl ⟨rfl, rfl⟩
              · exact Or.inr ((ih c h' p' w hm).mono (fun x hx => List.mem_cons_of_mem _ hx))
            · apply Just.of_JustC
              intro c h' p' w hm
              simp only [List.mem_cons] at hm
              rcases hm with hm | hm
              · cases hm; exact absurd rfl hvt
              · exact (ih c h' p' w hm).mono (fun x hx => List.mem_cons_of_mem _ hx)
  | fuel + 1, v, .judge vt count T h p k => by
    apply Just.of_JustC
    simp only [exec]
    split
    · exact Just.nil
    · split
      · exact Just.nil
      · split
        · exact Just.nil
        · rename_i ch hk
          have hghost : ∀ (m : List Entry) (c' : Bool) (vt' : VT), vt' ≠ .prevote ∨ c' = false →
              Just [Out.over v.ctx vt' c' h count T m] := by
            intro m c' vt' _ c0 h0 p0 w0 hm; simp at hm
          have hg1 : Just [Out.over v.ctx vt ch h count T (votesOf v.ws v.ctx ch vt h)] := by
            intro c0 h0 p0 w0 hm; simp at hm
          split
          · exact hg1
          · rename_i hch
            have hch' : ch = true := by cases ch <;> simp_all
            subst hch'
            split
            · -- prevote
              split
              · exact hg1
              · simp only
                intro c h' p' w hm
                simp only [List.append_assoc, List.mem_append] at hm
                rcases hm with hm | hm | hm
                · simp at hm
                · have ih := exec_just fuel _ (.vote .precommit h p) c h' p' w hm
                  rcases ih with ⟨hc, hh⟩ | ih
                  · subst hh; subst hc
                    exact ⟨count, T, votesOf v.ws v.ctx true .prevote h', by
                      simp only [List.append_assoc, List.mem_append, List.mem_singleton]; exact Or.inl rfl⟩
                  · exact ih.mono (fun x hx => by simp only [List.append_assoc, List.mem_append]; exact Or.inr (Or.inl hx))
                · have ih := (exec_just fuel _ (.mark h p)).just (by intro _ _ hc; cases hc) c h' p' w hm
                  exact ih.mono (fun x hx => by simp only [List.append_assoc, List.mem_append]; exact Or.inr (Or.inr hx))
            all_goals repeat' split
            all_goals first
              | exact hg1
              | (simp only; exact (hg1.append ((exec_just fuel _ (.commit h p)).just (by intro _ _ hc; cases hc))).append
                  ((exec_just fuel _ (.mark h p)).just (by intro _ _ hc; cases hc)))
              | (simp only; exact hg1.append ((exec_just fuel _ (.vote .cert h p)).just (by intro _ _ hc; cases hc)))
              | (simp only; exact hg1.append (by intro c0 h0 p0 w0 hm; simp at hm))

section
variable (T Tc : Nat) (strict : Bool)

/-- the threshold every vote of a kind reports when the environment is uniform -/
def thr (vt : VT) : Nat := if vt = .cert then Tc else T

structure Inv (v : Voter) : Prop where
  sta : ∀ cw ∈ v.ws, ∀ ch vt, StaInv (cw.2.sta ch vt)
  vrf : strict = true → ∀ cw ∈ v.ws, ∀ ch vt h e, e ∈ (cw.2.sta ch vt).info h → e.vrf = true
  th : strict = true → ∀ h vt, v.over h true vt = true → v.overT h vt = thr T Tc vt
  env : strict = true → ∀ vt sv, v.env.sel vt = some sv → sv.T = thr T Tc vt

def CoreEq (v v' : Voter) : Prop :=
  v'.ws = v.ws ∧ v'.over = v.over ∧ v'.overT = v.overT ∧ v'.env = v.env ∧ v'.round = v.round ∧ v'.index = v.index

variable {T Tc strict}

theorem Inv.core {v v' : Voter} (hI : Inv T Tc strict v) (h : CoreEq v v') : Inv T Tc strict v' := by
  obtain ⟨h1, h2, h3, h4, _, _⟩ := h
  exact ⟨by rw [h1]; exact hI.sta, by rw [h1]; exact hI.vrf, by rw [h2, h3]; exact hI.th, by rw [h4]; exact hI.env⟩

theorem Inv.votes {v : Voter} (hI : Inv T Tc strict v) (c : Ctx) (ch : Bool) (vt : VT) (h : Hash) :
    countOf v.ws c ch vt h = sumVotes (votesOf v.ws c ch vt h) % U32 ∧
    ((votesOf v.ws c ch vt h).map (·.addr)).Nodup ∧
    (strict = true → ∀ e ∈ votesOf v.ws c ch vt h, e.vrf = true) := by
  unfold countOf votesOf
  cases hg : getW v.ws c with
  | none => simp [sumVotes]
  | some w =>
    have hm := getW_mem hg
    exact ⟨(hI.sta _ hm ch vt).cnt h, (hI.sta _ hm ch vt).nodup h, fun hs e he => hI.vrf hs _ hm ch vt h e he⟩

variable (T Tc strict)

def GoodOut (ctx : Ctx) : Out → Prop
  | .over c vt _ _ count T' mem => c = ctx ∧ overThreshold count T' (vt != .cert) = true ∧
      (strict = true → T' = thr T Tc vt) ∧
      (vt ≠ .other → count = sumVotes mem % U32 ∧ (mem.map (·.addr)).Nodup ∧ (strict = true → ∀ e ∈ mem, e.vrf = true))
  | .commit c _ cert pc _ certs => c = ctx ∧ ∃ Tp Tq, (strict = true → Tp = T ∧ Tq = Tc) ∧
      quorum Tp true ≤ sumVotes pc % U32 ∧ (pc.map (·.addr)).Nodup ∧ (strict = true → ∀ e ∈ pc, e.vrf = true) ∧
      (cert = true → quorum Tq false ≤ sumVotes certs % U32 ∧ (certs.map (·.addr)).Nodup ∧
        (strict = true → ∀ e ∈ certs, e.vrf = true))
  | .signed _ c _ _ _ => c = ctx
  | .rice c _ _ => c = ctx
  | _ => True

def Consistent (v : Voter) : Call → Prop
  | .judge vt count T' h _ k =>
    (∀ ch, kindChamber? k = some ch → vt ≠ .other → count = countOf v.ws v.ctx ch vt h) ∧ (strict = true → T' = thr T Tc vt)
  | _ => True

structure Res (v : Voter) (r : Voter × List Out × Bool) : Prop where
  inv : Inv T Tc strict r.1
  env : r.1.env = v.env
  round : r.1.round = v.round
  index : r.1.index = v.index
  good : ∀ o ∈ r.2.1, GoodOut T Tc strict v.ctx o

variable {T Tc strict}

theorem Res.refl {v : Voter} (hI : Inv T Tc strict v) (b : Bool) : Res T Tc strict v (v, [], b) :=
  ⟨hI, rfl, rfl, rfl, by intro o ho; simp at ho⟩

theorem Res.core {v v' : Voter} {r : Voter × List Out × Bool} (hr : Res T Tc strict v r) (hc : CoreEq r.1 v') (b : Bool) :
    Res T Tc strict v (v', r.2.1, b) :=
  ⟨hr.inv.core hc, by rw [hc.2.2.2.1]; exact hr.env, by rw [hc.2.2.2.2.1]; exact hr.round,
   by rw [hc.2.2.2.2.2]; exact hr.index, hr.good⟩

theorem ctx_eq {v v' : Voter} (h1 : v'.round = v.round) (h2 : v'.index = v.index) : v'.ctx = v.ctx := by
  simp [Voter.ctx, h1, h2]

theorem Res.trans {v : Voter} {r1 r2 : Voter × List Out × Bool} (h1 : Res T Tc strict v r1)
    (h2 : Res T Tc strict r1.1 r2) (b : Bool) : Res T Tc strict v (r2.1, r1.2.1 ++ r2.2.1, b) := by
  refine ⟨h2.inv, by rw [h2.env, h1.env], by rw [h2.round, h1.round], by rw [h2.index, h1.index], ?_⟩
  intro o ho
  rcases List.mem_append.mp ho with ho | ho
  · exact h1.good o ho
  · have := h2.good o ho
    rwa [ctx_eq h1.round h1.index] at this

theorem Res.outs {v v' : Voter} (hI : Inv T Tc strict v') (hc : v'.env = v.env ∧ v'.round = v.round ∧ v'.index = v.index)
    (outs : List Out) (hg : ∀ o ∈ outs, GoodOut T Tc strict v.ctx o) (b : Bool) : Res T Tc strict v (v', outs, b) :=
  ⟨hI, hc.1, hc.2.1, hc.2.2, hg⟩

/-- counting a vote keeps the invariant; the returned count is the stored count -/
theorem newVoteAt_res {v : Voter} (hI : Inv T Tc strict v) (c : Ctx) (k : VKind) (vt : VT) (a : Addr) (h : Hash)
    (votes : Nat) (vrf : Bool) (hv : strict = true → vrf = true) :
    Inv T Tc strict (v.newVoteAt c k vt a h votes vrf).1 ∧
    (v.newVoteAt c k vt a h votes vrf).1.over = v.over ∧ (v.newVoteAt c k vt a h votes vrf).1.overT = v.overT ∧
    (v.newVoteAt c k vt a h votes vrf).1.env = v.env ∧ (v.newVoteAt c k vt a h votes vrf).1.round = v.round ∧
    (v.newVoteAt c k vt a h votes vrf).1.index = v.index ∧
    (∀ ch, kindChamber? k = some ch → vt ≠ .other →
      (v.newVoteAt c k vt a h votes vrf).2.2 = countOf (v.newVoteAt c k vt a h votes vrf).1.ws c ch vt h) := by
  unfold Voter.newVoteAt
  split
  · rename_i ch w hk hg
    split
    · rename_i hvt
      exact ⟨hI, rfl, rfl, rfl, rfl, rfl, fun _ _ hne => absurd hvt hne⟩
    · rename_i hvt
      have hm := getW_mem hg
      refine ⟨⟨?_, ?_, hI.th, hI.env⟩, rfl, rfl, rfl, rfl, rfl, ?_⟩
      · intro cw hcw ch' vt'
        rcases mem_setW hcw with hcw | hcw
        · exact hI.sta cw hcw ch' vt'
        · rw [hcw, Wrapper.set_sta]
          split
          · exact newVote_inv (hI.sta _ hm ch vt) a h votes vrf
          · exact hI.sta _ hm ch' vt'
      · intro hs cw hcw ch' vt' h' e he
        rcases mem_setW hcw with hcw | hcw
        · exact hI.vrf hs cw hcw ch' vt' h' e he
        · rw [hcw, Wrapper.set_sta] at he
          split at he
          · rcases newVote_mem he with he | ⟨he, _⟩
            · exact hI.vrf hs _ hm ch vt h' e he
            · rw [he]; exact hv hs
          · exact hI.vrf hs _ hm ch' vt' h' e he
      · intro ch' hk' _
        rw [hk] at hk'; cases hk'
        simp only [countOf, getW_setW hg, Wrapper.set_sta, and_self, if_true]
        exact newVote_count _ a h votes vrf
  · rename_i hno
    refine ⟨hI, rfl, rfl, rfl, rfl, rfl, ?_⟩
    intro ch hk _
    simp only [countOf]
    cases hg : getW v.ws c with
    | none => rfl
    | some w => exact absurd hg (by intro hg; exact hno ch w hk hg)

theorem thr_precommit : thr T Tc .precommit = T := by simp [thr]
theorem thr_cert : thr T Tc .cert = Tc := by simp [thr]

theorem core_refl (v : Voter) : CoreEq v v := ⟨rfl, rfl, rfl, rfl, rfl, rfl⟩

theorem core_ite {z : Voter} (b : Bool) {x y : Voter} (hx : CoreEq z x) (hy : CoreEq z y) :
    CoreEq z (if b = true then x else y) := by
  split <;> assumption

theorem exec_res : ∀ (fuel : Nat) (v : Voter) (call : Call), Inv T Tc strict v → Consistent T Tc strict v call →
    Res T Tc strict v (exec fuel v call)
  | 0, v, call, hI, _ => by
    refine ⟨hI, rfl, rfl, rfl, ?_⟩
    intro o ho; simp [exec] at ho; subst ho; trivial
  | fuel + 1, v, .commit h p, hI, _ => by
    simp only [exec]
    split
    · exact Res.refl hI true
    · split
      · exact Res.refl hI true
      · split
        · exact Res.refl hI true
        · rename_i h1 h2 h3
          simp at h2 h3
          refine ⟨hI.core ⟨rfl, rfl, rfl, rfl, rfl, rfl⟩, rfl, rfl, rfl, ?_⟩
          intro o ho
          simp only [List.mem_singleton] at ho
          subst ho
          have hp := hI.votes v.ctx true .precommit h
          have hc := hI.votes v.ctx true .cert h
          have hq : ∀ {c T' : Nat} {b : Bool}, overThreshold c T' b = true → quorum T' b ≤ c := by
            intro c T' b hh; simpa [overThreshold] using hh
          refine ⟨rfl, v.overT h .precommit, if v.shouldCert then v.overT h .cert else Tc, ?_, ?_, hp.2.1, hp.2.2, ?_⟩
          · intro hs
            refine ⟨by rw [hI.th hs h .precommit h2.1, thr_precommit], ?_⟩
            split
            · rename_i hsc; rw [hI.th hs h .cert (h3 hsc).1, thr_cert]
            · rfl
          · rw [← hp.1]; exact hq h2.2
          · intro hsc
            simp only [hsc, if_true]
            exact ⟨by rw [← hc.1]; exact hq (h3 hsc).2, hc.2.1, hc.2.2⟩
  | fuel + 1, v, .mark h p, hI, _ => by
    have ih := exec_res fuel v (.markBody h p) hI trivial
    simp only [exec]
    split
    · split
      · exact Res.refl hI true
      · exact ih
    · exact ih
  | fuel + 1, v, .markBody h p, hI, _ => by
    have ih := exec_res fuel v (.vote .next h p) hI trivial
    simp only [exec]
    split
    · exact Res.refl hI true
    · split
      · split
        · exact ⟨hI.core ⟨rfl, rfl, rfl, rfl, rfl, rfl⟩, rfl, rfl, rfl, by intro o ho; simp at ho⟩
        · exact Res.refl hI true
      · split
        · exact ⟨ih.inv.core ⟨rfl, rfl, rfl, rfl, rfl, rfl⟩, ih.env, ih.round, ih.index, ih.good⟩
        · exact ⟨ih.inv, ih.env, ih.round, ih.index, ih.good⟩
  | fuel + 1, v, .vote vt h p, hI, _ => by
    simp only [exec]
    split
    · exact Res.refl hI false
    · rename_i sv hsel
      split
      · exact Res.refl hI false
      · split
        · exact Res.refl hI false
        · split
          · exact Res.refl hI false
          · have hI1 : Inv T Tc strict ({ v with db := v.db.record vt v.round v.index } : Voter) :=
              hI.core ⟨rfl, rfl, rfl, rfl, rfl, rfl⟩
            obtain ⟨hn1, _, _, hn4, hn5, hn6, hn7⟩ := newVoteAt_res hI1 v.ctx sv.kind vt self h sv.votes true (fun _ => rfl)
            have hcx := ctx_eq hn5 hn6
            have hC : Consistent T Tc strict
                (({ v with db := v.db.record vt v.round v.index } : Voter).newVoteAt v.ctx sv.kind vt self h sv.votes true).1
                (.judge vt (({ v with db := v.db.record vt v.round v.index } : Voter).newVoteAt v.ctx sv.kind vt self h sv.votes true).2.2
                  sv.T h p sv.kind) := by
              refine ⟨?_, fun hs => hI.env hs vt sv hsel⟩
              intro ch hk hne
              rw [hcx]
              exact hn7 ch hk hne
            have ih := exec_res fuel _ _ hn1 hC
            refine ⟨ih.inv, by rw [ih.env, hn4], by rw [ih.round, hn5], by rw [ih.index, hn6], ?_⟩
            intro o ho
            simp only [List.mem_cons] at ho
            rcases ho with ho | ho
            · subst ho; exact rfl
            · have := ih.good o ho
              rwa [hcx] at this
  | fuel + 1, v, .judge vt count T' h p k, hI, hC => by
    simp only [exec]
    split
    · exact Res.refl hI true
    · rename_i hg1
      split
      · exact ⟨hI.core ⟨rfl, rfl, rfl, rfl, rfl, rfl⟩, rfl, rfl, rfl, by intro o ho; simp at ho⟩
      · split
        · exact Res.refl hI true
        · rename_i ch hk
          have hover : overThreshold count T' (vt != .cert) = true := by
            simp at hg1; exact hg1.1
          have hI1 : Inv T Tc strict
              ({ v with over := fun h' c' t' => if h' = h ∧ c' = ch ∧ t' = vt then true else v.over h' c' t'
                        overT := fun h' t' => if h' = h ∧ ch = true ∧ t' = vt then T' else v.overT h' t' } : Voter) := by
            refine ⟨hI.sta, hI.vrf, ?_, hI.env⟩
            intro hs h' vt' hov
            simp only at hov ⊢
            by_cases hc : h' = h ∧ ch = true ∧ vt' = vt
            · simp only [hc, and_self, if_true]
              exact hC.2 hs
            · have hc' : ¬ (h' = h ∧ true = ch ∧ vt' = vt) := by
                intro hx; exact hc ⟨hx.1, hx.2.1.symm, hx.2.2⟩
              simp only [hc', if_false] at hov
              simp only [hc, if_false]
              exact hI.th hs h' vt' hov
          have hgood : GoodOut T Tc strict v.ctx (Out.over v.ctx vt ch h count T' (votesOf v.ws v.ctx ch vt h)) := by
            refine ⟨rfl, hover, hC.2, fun hne => ?_⟩
            have := hI.votes v.ctx ch vt h
            exact ⟨by rw [hC.1 ch hk hne]; exact this.1, this.2.1, this.2.2⟩
          have R1 : Res T Tc strict v
              (({ v with over := fun h' c' t' => if h' = h ∧ c' = ch ∧ t' = vt then true else v.over h' c' t'
                         overT := fun h' t' => if h' = h ∧ ch = true ∧ t' = vt then T' else v.overT h' t' } : Voter),
               [Out.over v.ctx vt ch h count T' (votesOf v.ws v.ctx ch vt h)], true) := by
            refine ⟨hI1, rfl, rfl, rfl, ?_⟩
            intro o ho; simp only [List.mem_singleton] at ho; subst ho; exact hgood
          split
          · exact R1
          · split
            · -- prevote
              generalize ({ v with over := fun h' c' t' => if h' = h ∧ c' = ch ∧ t' = VT.prevote then true else v.over h' c' t'
                                   overT := fun h' t' => if h' = h ∧ ch = true ∧ t' = VT.prevote then T' else v.overT h' t' } : Voter) = v1
                at R1 hI1 ⊢
              split
              · exact R1
              · have ih2 := exec_res fuel v1 (.vote .precommit h p) hI1 trivial
                generalize exec fuel v1 (.vote .precommit h p) = r2 at ih2 ⊢
                have R12 := R1.trans ih2 true
                have R3 := R12.core (v' := if r2.2.2 = true then { r2.1 with precommitted := true } else r2.1)
                  (core_ite _ ⟨rfl, rfl, rfl, rfl, rfl, rfl⟩ (core_refl _)) true
                have ih4 := exec_res fuel _ (.mark h p) R3.inv trivial
                exact R3.trans ih4 true
            · -- precommit
              generalize ({ v with over := fun h' c' t' => if h' = h ∧ c' = ch ∧ t' = VT.precommit then true else v.over h' c' t'
                                   overT := fun h' t' => if h' = h ∧ ch = true ∧ t' = VT.precommit then T' else v.overT h' t' } : Voter) = v1
                at R1 hI1 ⊢
              have hcm : ∀ (r2 : Voter × List Out × Bool), Res T Tc strict v1 r2 →
                  Res T Tc strict v ((exec fuel r2.1 (.mark h p)).1,
                    [Out.over v.ctx .precommit ch h count T' (votesOf v.ws v.ctx ch .precommit h)] ++ r2.2.1 ++
                      (exec fuel r2.1 (.mark h p)).2.1, true) := by
                intro r2 ih2
                have R12 := R1.trans ih2 true
                exact R12.trans (exec_res fuel _ (.mark h p) R12.inv trivial) true
              have hvc : Res T Tc strict v
                  (if (exec fuel v1 (.vote .cert h p)).2.2 = true then { (exec fuel v1 (.vote .cert h p)).1 with certificated := true }
                    else (exec fuel v1 (.vote .cert h p)).1,
                   [Out.over v.ctx .precommit ch h count T' (votesOf v.ws v.ctx ch .precommit h)] ++ (exec fuel v1 (.vote .cert h p)).2.1, true) := by
                have ih2 := exec_res fuel v1 (.vote .cert h p) hI1 trivial
                generalize exec fuel v1 (.vote .cert h p) = r2 at ih2 ⊢
                have R12 := R1.trans ih2 true
                exact R12.core (v' := if r2.2.2 = true then { r2.1 with certificated := true } else r2.1)
                  (core_ite _ ⟨rfl, rfl, rfl, rfl, rfl, rfl⟩ (core_refl _)) true
              repeat' split
              all_goals first
                | exact R1
                | exact hcm _ (exec_res fuel v1 (.commit h p) hI1 trivial)
                | exact hvc
                | exact (R1.trans (exec_res fuel v1 (.vote .cert h p) hI1 trivial) true)
                | exact ⟨(R1.trans (exec_res fuel v1 (.vote .cert h p) hI1 trivial) true).inv.core ⟨rfl, rfl, rfl, rfl, rfl, rfl⟩,
                    (R1.trans (exec_res fuel v1 (.vote .cert h p) hI1 trivial) true).env,
                    (R1.trans (exec_res fuel v1 (.vote .cert h p) hI1 trivial) true).round,
                    (R1.trans (exec_res fuel v1 (.vote .cert h p) hI1 trivial) true).index,
                    (R1.trans (exec_res fuel v1 (.vote .cert h p) hI1 trivial) true).good⟩
            · -- cert
              generalize ({ v with over := fun h' c' t' => if h' = h ∧ c' = ch ∧ t' = VT.cert then true else v.over h' c' t'
                                   overT := fun h' t' => if h' = h ∧ ch = true ∧ t' = VT.cert then T' else v.overT h' t' } : Voter) = v1
                at R1 hI1 ⊢
              have hcm : ∀ (r2 : Voter × List Out × Bool), Res T Tc strict v1 r2 →
                  Res T Tc strict v ((exec fuel r2.1 (.mark h p)).1,
                    [Out.over v.ctx .cert ch h count T' (votesOf v.ws v.ctx ch .cert h)] ++ r2.2.1 ++
                      (exec fuel r2.1 (.mark h p)).2.1, true) := by
                intro r2 ih2
                have R12 := R1.trans ih2 true
                exact R12.trans (exec_res fuel _ (.mark h p) R12.inv trivial) true
              repeat' split
              all_goals first
                | exact R1
                | exact hcm _ (exec_res fuel v1 (.commit h p) hI1 trivial)
            · -- next
              split
              · exact R1
              · refine ⟨hI1.core ⟨rfl, rfl, rfl, rfl, rfl, rfl⟩, rfl, rfl, rfl, ?_⟩
                intro o ho
                simp only [List.mem_append, List.mem_singleton] at ho
                rcases ho with ho | ho
                · subst ho; exact hgood
                · subst ho; exact rfl
            · exact R1
end

end YouVerif.C03
