/-
C03 — induction over `exec` (judgeVoteCount / vote / setMarkedBlock / commit): justification of own precommits,
invariant preservation and soundness of every emitted event.
-/
import YouVerif.C03.ProofsSta
namespace YouVerif.C03

def HasOver (outs : List Out) (c : Ctx) (h : Hash) : Prop :=
  ∃ count T' mem, Out.over c .prevote true h count T' mem ∈ outs

def Just (outs : List Out) : Prop :=
  ∀ c h p w, Out.signed .precommit c h p w ∈ outs → HasOver outs c h

def JustC (v : Voter) : Call → List Out → Prop
  | .vote .precommit h _, outs =>
    ∀ c h' p w, Out.signed .precommit c h' p w ∈ outs → (c = v.ctx ∧ h' = h) ∨ HasOver outs c h'
  | _, outs => Just outs

theorem HasOver.mono {o1 o2 : List Out} {c h} (hs : ∀ x ∈ o1, x ∈ o2) (h1 : HasOver o1 c h) : HasOver o2 c h := by
  obtain ⟨a, b, m, hm⟩ := h1
  exact ⟨a, b, m, hs _ hm⟩

theorem Just.nil : Just [] := by intro c h p w hm; simp at hm

theorem Just.append {o1 o2 : List Out} (h1 : Just o1) (h2 : Just o2) : Just (o1 ++ o2) := by
  intro c h p w hm
  rcases List.mem_append.mp hm with hm | hm
  · exact (h1 c h p w hm).mono (fun x hx => List.mem_append_left _ hx)
  · exact (h2 c h p w hm).mono (fun x hx => List.mem_append_right _ hx)

theorem Just.of_JustC {v : Voter} {call : Call} {outs : List Out} (h : Just outs) : JustC v call outs := by
  unfold JustC
  split
  · intro c h' p w hm; exact Or.inr (h c h' p w hm)
  · exact h

theorem JustC.just {v : Voter} {call : Call} {outs : List Out} (h : JustC v call outs)
    (hc : ∀ h p, call ≠ .vote .precommit h p) : Just outs := by
  unfold JustC at h
  split at h
  · rename_i h0 p0; exact absurd rfl (hc h0 p0)
  · exact h

theorem exec_just : ∀ (fuel : Nat) (v : Voter) (call : Call), JustC v call (exec fuel v call).2.1
  | 0, v, call => by
    apply Just.of_JustC
    intro c h p w hm; simp [exec] at hm
  | fuel + 1, v, .commit h p => by
    apply Just.of_JustC
    simp only [exec]
    split
    · exact Just.nil
    · split
      · exact Just.nil
      · split
        · exact Just.nil
        · intro c h' p' w hm; simp at hm
  | fuel + 1, v, .mark h p => by
    apply Just.of_JustC
    have ih := (exec_just fuel v (.markBody h p)).just (by intro _ _ hc; cases hc)
    simp only [exec]
    split
    · split
      · exact Just.nil
      · exact ih
    · exact ih
  | fuel + 1, v, .markBody h p => by
    apply Just.of_JustC
    have ih := (exec_just fuel v (.vote .next h p)).just (by intro _ _ hc; cases hc)
    simp only [exec]
    split
    · exact Just.nil
    · split
      · exact Just.nil
      · exact ih
  | fuel + 1, v, .vote vt h p => by
    simp only [exec]
    split
    · exact Just.of_JustC Just.nil
    · rename_i sv hsel
      split
      · exact Just.of_JustC Just.nil
      · split
        · exact Just.of_JustC Just.nil
        · split
          · exact Just.of_JustC Just.nil
          · have ih := (exec_just fuel (({ v with db := v.db.record vt v.round v.index } : Voter).newVoteAt v.ctx sv.kind vt self h sv.votes true).1
              (.judge vt (({ v with db := v.db.record vt v.round v.index } : Voter).newVoteAt v.ctx sv.kind vt self h sv.votes true).2.2 sv.T h p sv.kind)).just
              (by intro _ _ hc; cases hc)
            simp only
            by_cases hvt : vt = .precommit
            · subst hvt
              unfold JustC
              intro c h' p' w hm
              simp only [List.mem_cons] at hm
              rcases hm with hm | hm
              · cases hm; exact Or.inl ⟨rfl, rfl⟩
              · exact Or.inr ((ih c h' p' w hm).mono (fun x hx => List.mem_cons_of_mem _ hx))
            · apply Just.of_JustC
              intro c h' p' w hm
              simp only [List.mem_cons] at hm
              rcases hm with hm | hm
              · cases hm; exact absurd rfl hvt
              · exact (ih c h' p' w hm).mono (fun x hx => List.mem_cons_of_mem _ hx)
  | fuel + 1, v, .judge vt count T h p k => by
    apply Just.of_JustC
    simp only [exec]
    split
    · exact Just.nil
    · split
      · exact Just.nil
      · split
        · exact Just.nil
        · rename_i ch hk
          have hghost : ∀ (m : List Entry) (c' : Bool) (vt' : VT), vt' ≠ .prevote ∨ c' = false →
              Just [Out.over v.ctx vt' c' h count T m] := by
            intro m c' vt' _ c0 h0 p0 w0 hm; simp at hm
          have hg1 : Just [Out.over v.ctx vt ch h count T (votesOf v.ws v.ctx ch vt h)] := by
            intro c0 h0 p0 w0 hm; simp at hm
          split
          · exact hg1
          · rename_i hch
            have hch' : ch = true := by cases ch <;> simp_all
            subst hch'
            split
            · -- prevote
              split
              · exact hg1
              · simp only
                intro c h' p' w hm
                simp only [List.append_assoc, List.mem_append] at hm
                rcases hm with hm | hm | hm
                · simp at hm
                · have ih := exec_just fuel _ (.vote .precommit h p) c h' p' w hm
                  rcases ih with ⟨hc, hh⟩ | ih
                  · subst hh; subst hc
                    exact ⟨count, T, votesOf v.ws v.ctx true .prevote h', by
                      simp only [List.append_assoc, List.mem_append, List.mem_singleton]; exact Or.inl rfl⟩
                  · exact ih.mono (fun x hx => by simp only [List.append_assoc, List.mem_append]; exact Or.inr (Or.inl hx))
                · have ih := (exec_just fuel _ (.mark h p)).just (by intro _ _ hc; cases hc) c h' p' w hm
                  exact ih.mono (fun x hx => by simp only [List.append_assoc, List.mem_append]; exact Or.inr (Or.inr hx))
            all_goals repeat' split
            all_goals first
              | exact hg1
              | (simp only; exact (hg1.append ((exec_just fuel _ (.commit h p)).just (by intro _ _ hc; cases hc))).append
                  ((exec_just fuel _ (.mark h p)).just (by intro _ _ hc; cases hc)))
              | (simp only; exact hg1.append ((exec_just fuel _ (.vote .cert h p)).just (by intro _ _ hc; cases hc)))
              | (simp only; exact hg1.append (by intro c0 h0 p0 w0 hm; simp at hm))
end YouVerif.C03
