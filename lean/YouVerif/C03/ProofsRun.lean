/-
C03 — from `exec` to deliveries and whole histories: Voter.updateContext / processVoteMsg / environment changes keep the
invariant, every emitted event is sound, own precommits are justified.
-/
import YouVerif.C03.ProofsExec
namespace YouVerif.C03

section
variable (T Tc : Nat) (strict : Bool)

/-- hypothesis on one operation under `strict`: every vote reports the uniform threshold of its kind and no credential
    is accepted through the leniency; the own sortition reports the uniform threshold too -/
def OpOK : Op → Prop
  | .vote m => strict = true → m.cred ≠ .lenient ∧ m.T = thr T Tc m.vt
  | .envSel vt (some sv) => strict = true → sv.T = thr T Tc vt
  | _ => True

def GoodAny (o : Out) : Prop := ∃ ctx, GoodOut T Tc strict ctx o

variable {T Tc strict}

theorem goodAny_of_res {v : Voter} {r : Voter × List Out × Bool} (hr : Res T Tc strict v r) :
    ∀ o ∈ r.2.1, GoodAny T Tc strict o := fun o ho => ⟨v.ctx, hr.good o ho⟩

theorem goodAny_update (c : Ctx) (h : Hash) (pc hpc : List Entry) : GoodAny T Tc strict (.update c h pc hpc) :=
  ⟨c, trivial⟩

theorem Inv.init : Inv T Tc strict init :=
  ⟨fun cw h => absurd h List.not_mem_nil, fun _ cw h => absurd h List.not_mem_nil,
   fun _ h vt hh => absurd hh Bool.false_ne_true, fun _ vt sv hh => by cases hh⟩

theorem Inv.newW {v : Voter} (hI : Inv T Tc strict v) (c : Ctx) (v' : Voter) (hws : v'.ws = newW v.ws c)
    (hov : (v'.over = v.over ∧ v'.overT = v.overT) ∨ v'.over = fun _ _ _ => false) (henv : v'.env = v.env) :
    Inv T Tc strict v' := by
  refine ⟨?_, ?_, ?_, by rw [henv]; exact hI.env⟩
  · intro cw hcw ch vt
    rw [hws] at hcw
    rcases mem_newW hcw with hcw | hcw
    · exact hI.sta cw hcw ch vt
    · rw [hcw]; exact StaInv.empty
  · intro hs cw hcw ch vt h e he
    rw [hws] at hcw
    rcases mem_newW hcw with hcw | hcw
    · exact hI.vrf hs cw hcw ch vt h e he
    · rw [hcw] at he; simp [Wrapper.empty, VoteSta.empty] at he
  · intro hs h vt hov'
    rcases hov with ⟨h1, h2⟩ | h1
    · rw [h1] at hov'; rw [h2]; exact hI.th hs h vt hov'
    · rw [h1] at hov'; simp at hov'

theorem just_updates {l : List Out} (h : ∀ o ∈ l, ∃ c hh pc hpc, o = Out.update c hh pc hpc) : Just l := by
  intro c hh p w hm
  obtain ⟨_, _, _, _, he⟩ := h _ hm
  cases he

theorem ctxReset_res {v : Voter} (hI : Inv T Tc strict v) (c : Ctx) :
    Inv T Tc strict (ctxReset v c).1 ∧ (ctxReset v c).1.env = v.env ∧
    (∀ o ∈ (ctxReset v c).2, ∃ c' hh pc hpc, o = Out.update c' hh pc hpc) := by
  unfold ctxReset
  split
  · refine ⟨hI.newW c _ rfl (Or.inr rfl) rfl, rfl, ?_⟩
    intro o ho
    simp only at ho
    cases hu : v.updateEv with
    | none => rw [hu] at ho; simp at ho
    | some x =>
      obtain ⟨uc, uh⟩ := x
      rw [hu] at ho
      simp only at ho
      cases hg : getW v.ws uc with
      | none => rw [hg] at ho; simp at ho
      | some w => rw [hg] at ho; simp only [List.mem_singleton] at ho; exact ⟨_, _, _, _, ho⟩
  · exact ⟨hI, rfl, by intro o ho; simp at ho⟩

theorem ctxCall_ok {v : Voter} {st : Nat} {call : Call} (h : ctxCall v st = some call) :
    (∀ hh p, call ≠ .vote .precommit hh p) ∧ (∀ v' : Voter, Consistent T Tc strict v' call) := by
  unfold ctxCall at h
  repeat' split at h
  all_goals first
    | (cases h; done)
    | (cases h
       refine ⟨?_, ?_⟩
       · intro _ _ hc; cases hc
       · intro _; exact trivial)

theorem ctxStore_inv {v : Voter} (hI : Inv T Tc strict v) (c : Ctx) (st : Nat) (cert : Bool) :
    Inv T Tc strict (ctxStore v c st cert) := ⟨hI.sta, hI.vrf, hI.th, hI.env⟩

/-- Voter.updateContext keeps the invariant, every event it emits is sound, own precommits are justified -/
theorem updateContext_res {v : Voter} (hI : Inv T Tc strict v) (c : Ctx) (st : Nat) (cert : Bool) :
    Inv T Tc strict (updateContext v c st cert).1 ∧ (updateContext v c st cert).1.env = v.env ∧
    (∀ o ∈ (updateContext v c st cert).2, GoodAny T Tc strict o) ∧
    Just (updateContext v c st cert).2 := by
  obtain ⟨h1, h2, h3⟩ := ctxReset_res hI c
  have hI2 := ctxStore_inv h1 c st cert
  have hup : ∀ o ∈ (ctxReset v c).2, GoodAny T Tc strict o := by
    intro o ho; obtain ⟨c', hh, pc, hpc, he⟩ := h3 o ho; rw [he]; exact goodAny_update _ _ _ _
  unfold updateContext
  split
  · exact ⟨hI2, h2, hup, just_updates h3⟩
  · rename_i call hcall
    have ⟨hnp, hcons⟩ := ctxCall_ok (T := T) (Tc := Tc) (strict := strict) hcall
    have hr := exec_res FUEL _ call hI2 (hcons _)
    refine ⟨hr.inv, by rw [hr.env]; exact h2, ?_, (just_updates h3).append ((exec_just FUEL _ call).just hnp)⟩
    intro o ho
    rcases List.mem_append.mp ho with ho | ho
    · exact hup o ho
    · exact goodAny_of_res hr o ho


theorem Just.nil' : Just [] := Just.nil

/-- the counting part of processVoteMsg keeps the invariant; its events are sound -/
theorem countVote_res {v : Voter} (hI : Inv T Tc strict v) (m : Msg) (old : Bool)
    (hm : strict = true → m.cred ≠ .lenient ∧ m.T = thr T Tc m.vt) (hcred : m.cred ≠ .reject)
    (hctx : old = false → m.ctx = v.ctx) :
    Inv T Tc strict (countVote v m old).1 ∧ (countVote v m old).1.env = v.env ∧
    (∀ o ∈ (countVote v m old).2.1, GoodAny T Tc strict o) ∧ Just (countVote v m old).2.1 := by
  have hnil : ∀ o ∈ ([] : List Out), GoodAny T Tc strict o := by intro o ho; simp at ho
  unfold countVote
  split
  · rename_i ch w hk hg
    split
    · exact ⟨hI, rfl, hnil, Just.nil⟩
    · have hmem := getW_mem hg
      have hI1 : Inv T Tc strict ({ v with ws := setW v.ws m.ctx (w.set ch m.vt
          ((w.sta ch m.vt).addrVoteInfo (decide (m.vt = .next)) m.sender m.h).1) } : Voter) := by
        refine ⟨?_, ?_, hI.th, hI.env⟩
        · intro cw hcw ch' vt'
          rcases mem_setW hcw with hcw | hcw
          · exact hI.sta cw hcw ch' vt'
          · rw [hcw, Wrapper.set_sta]
            split
            · exact addrVoteInfo_inv (hI.sta _ hmem ch m.vt) _ _ _
            · exact hI.sta _ hmem ch' vt'
        · intro hs cw hcw ch' vt' h' e he
          rcases mem_setW hcw with hcw | hcw
          · exact hI.vrf hs cw hcw ch' vt' h' e he
          · rw [hcw, Wrapper.set_sta] at he
            split at he
            · exact hI.vrf hs _ hmem ch m.vt h' e (addrVoteInfo_mem he)
            · exact hI.vrf hs _ hmem ch' vt' h' e he
      simp only
      generalize hv1 : ({ v with ws := setW v.ws m.ctx (w.set ch m.vt
          ((w.sta ch m.vt).addrVoteInfo (decide (m.vt = .next)) m.sender m.h).1) } : Voter) = v1 at hI1 ⊢
      have hv1env : v1.env = v.env := by rw [← hv1]
      have hv1r : v1.round = v.round := by rw [← hv1]
      have hv1i : v1.index = v.index := by rw [← hv1]
      split
      · -- notVoted
        have hv : strict = true → decide (m.cred = .valid) = true := by
          intro hs
          have := (hm hs).1
          cases hc : m.cred <;> simp_all
        obtain ⟨hn1, _, _, hn4, hn5, hn6, hn7⟩ := newVoteAt_res hI1 m.ctx m.kind m.vt m.sender m.h m.votes
          (decide (m.cred = .valid)) hv
        generalize v1.newVoteAt m.ctx m.kind m.vt m.sender m.h m.votes (decide (m.cred = .valid)) = nv at hn1 hn4 hn5 hn6 hn7 ⊢
        split
        · exact ⟨hn1, by rw [hn4, hv1env], hnil, Just.nil⟩
        · split
          · rename_i hold
            have hold' : old = false := by cases old <;> simp_all
            have hC : Consistent T Tc strict nv.1 (.judge m.vt nv.2.2 m.T m.h m.p m.kind) := by
              refine ⟨?_, fun hs => (hm hs).2⟩
              intro ch' hk' hne
              have hcx : nv.1.ctx = m.ctx := by
                rw [ctx_eq hn5 hn6, ctx_eq hv1r hv1i]; exact (hctx hold').symm
              rw [hcx]
              exact hn7 ch' hk' hne
            have hr := exec_res FUEL nv.1 _ hn1 hC
            exact ⟨hr.inv, by rw [hr.env, hn4, hv1env], goodAny_of_res hr,
              (exec_just FUEL nv.1 _).just (by intro _ _ hc; cases hc)⟩
          · split
            · refine ⟨hn1, by rw [hn4, hv1env], ?_, just_updates ?_⟩
              · intro o ho; simp only [List.mem_singleton] at ho; rw [ho]; exact goodAny_update _ _ _ _
              · intro o ho; simp only [List.mem_singleton] at ho; exact ⟨_, _, _, _, ho⟩
            · exact ⟨hn1, by rw [hn4, hv1env], hnil, Just.nil⟩
      · exact ⟨hI1, hv1env, hnil, Just.nil⟩
  · exact ⟨hI, rfl, hnil, Just.nil⟩


variable (T Tc strict)
/-- what every delivery guarantees -/
def PV (v : Voter) (r : Voter × List Out × Ret) : Prop :=
  Inv T Tc strict r.1 ∧ r.1.env = v.env ∧ (∀ o ∈ r.2.1, GoodAny T Tc strict o) ∧ Just r.2.1
variable {T Tc strict}

theorem processVoteMsg_res {v : Voter} (hI : Inv T Tc strict v) (m : Msg)
    (hm : strict = true → m.cred ≠ .lenient ∧ m.T = thr T Tc m.vt) :
    PV T Tc strict v (processVoteMsg v m) := by
  have hnil : ∀ o ∈ ([] : List Out), GoodAny T Tc strict o := by intro o ho; simp at ho
  have triv : ∀ ret : Ret, PV T Tc strict v (v, ([] : List Out), ret) :=
    fun _ => ⟨hI, rfl, hnil, Just.nil⟩
  have crash : ∀ ret : Ret, PV T Tc strict v (({ v with crashed := true } : Voter), ([] : List Out), ret) :=
    fun _ => ⟨hI.core ⟨rfl, rfl, rfl, rfl, rfl, rfl⟩, rfl, hnil, Just.nil⟩
  have pv_ite : ∀ {c : Prop} [Decidable c] {a b : Voter × List Out × Ret},
      (c → PV T Tc strict v a) → (¬c → PV T Tc strict v b) → PV T Tc strict v (if c then a else b) := by
    intro c _ a b ha hb
    by_cases h : c
    · rw [if_pos h]; exact ha h
    · rw [if_neg h]; exact hb h
  unfold processVoteMsg
  refine pv_ite (fun _ => triv _) (fun _ => ?_)
  refine pv_ite (fun _ => crash _) (fun _ => ?_)
  refine pv_ite (fun _ => triv _) (fun hsame => ?_)
  refine pv_ite (fun _ => triv _) (fun _ => ?_)
  refine pv_ite (fun _ => crash _) (fun _ => ?_)
  refine pv_ite (fun _ => triv _) (fun _ => ?_)
  refine pv_ite (fun _ => triv _) (fun _ => ?_)
  refine pv_ite (fun _ => triv _) (fun _ => ?_)
  refine pv_ite (fun _ => triv _) (fun hcred => ?_)
  refine pv_ite (fun _ => triv _) (fun hfi => ?_)
  have hctx : ¬ (m.status = .oldRound ∨ m.status = .oldIndex) → m.ctx = v.ctx := by
    intro hno
    have hs : m.status = .same := by cases hs : m.status <;> simp_all
    apply Classical.byContradiction
    intro hne
    exact hsame ⟨hs, hne⟩
  cases hg : getW v.ws m.ctx with
  | none =>
    simp only
    refine pv_ite (fun _ => triv _) (fun hno => ?_)
    exact countVote_res (v := { v with ws := newW v.ws m.ctx }) (hI.newW m.ctx _ rfl (Or.inl ⟨rfl, rfl⟩) rfl) m false hm hcred
      (fun _ => hctx hno)
  | some w =>
    simp only
    refine pv_ite (fun _ => ?_) (fun hno => ?_)
    · refine pv_ite (fun _ => triv _) (fun _ => ?_)
      exact countVote_res hI m true hm hcred (fun h => by cases h)
    · exact countVote_res hI m false hm hcred (fun _ => hctx hno)

theorem step_res {v : Voter} (hI : Inv T Tc strict v) (op : Op) (hop : OpOK T Tc strict op) :
    Inv T Tc strict (step v op).1 ∧ (∀ o ∈ (step v op).2.1, GoodAny T Tc strict o) ∧ Just (step v op).2.1 := by
  have hnil : ∀ o ∈ ([] : List Out), GoodAny T Tc strict o := by intro o ho; simp at ho
  unfold step
  split
  · exact ⟨hI, hnil, Just.nil⟩
  · cases op with
    | context c st cert =>
      have := updateContext_res hI c st cert
      exact ⟨this.1, this.2.2.1, this.2.2.2⟩
    | vote m =>
      have := processVoteMsg_res hI m hop
      exact ⟨this.1, this.2.2.1, this.2.2.2⟩
    | envSel vt s =>
      refine ⟨⟨hI.sta, hI.vrf, hI.th, ?_⟩, hnil, Just.nil⟩
      intro hs vt' sv hsel
      simp only [applyEnv] at hsel
      split at hsel
      · rename_i hvt
        subst hvt
        cases s with
        | none => cases hsel
        | some sv' => cases hsel; exact hop hs
      · exact hI.env hs vt' sv hsel
    | insertFailed h =>
      simp only
      split
      · split
        · exact ⟨hI.core ⟨rfl, rfl, rfl, rfl, rfl, rfl⟩, hnil, Just.nil⟩
        · exact ⟨hI, hnil, Just.nil⟩
      · exact ⟨hI, hnil, Just.nil⟩
    | envMax mm => exact ⟨⟨hI.sta, hI.vrf, hI.th, hI.env⟩, hnil, Just.nil⟩
    | envBlock h b => exact ⟨⟨hI.sta, hI.vrf, hI.th, hI.env⟩, hnil, Just.nil⟩
    | envCertErr b => exact ⟨⟨hI.sta, hI.vrf, hI.th, hI.env⟩, hnil, Just.nil⟩

/-- the invariant holds in every reachable state, and every event of every delivery is sound -/
theorem run_res : ∀ (ops : List Op) (v : Voter), Inv T Tc strict v → (∀ op ∈ ops, OpOK T Tc strict op) →
    Inv T Tc strict (run v ops).1 ∧ ∀ x ∈ (run v ops).2, (∀ o ∈ x.1, GoodAny T Tc strict o) ∧ Just x.1
  | [], v, hI, _ => ⟨hI, by intro x hx; simp [run] at hx⟩
  | op :: ops, v, hI, hops => by
    have h1 := step_res hI op (hops op (List.mem_cons_self ..))
    have h2 := run_res ops (step v op).1 h1.1 (fun o ho => hops o (List.mem_cons_of_mem _ ho))
    simp only [run]
    refine ⟨h2.1, ?_⟩
    intro x hx
    simp only [List.mem_cons] at hx
    rcases hx with hx | hx
    · subst hx; exact ⟨h1.2.1, h1.2.2⟩
    · exact h2.2 x hx

end
end YouVerif.C03
