/-
C03 — executable model of the vote counting / escalation / commit logic of consensus/ucon:
`VoteSta` (`newVote`, `addrVoteInfo`), `VotesManager` / `VotesWrapper` / `VotesWrapperList` (4-slot ring),
`Voter.updateContext`, `vote`, `judgeVoteCount`, `setMarkedBlock`, `commit`, `processVoteMsg` (all five message
statuses), the in-memory part of `VoteDB` (`UpdateContext`, `alreadyVoted`, `UpdateVoteData`), `OverThreshold`
with the exact float64 product, `verifySortition`'s leniency, and the vote count of the header verifier
(`verifyVotes`, secp256k1 branch).  Core Lean only.

Abstractions (stated in props/C03.json):
* block hashes, priorities and addresses are natural-number ids (0 = the zero hash); the own address is `self = 0`;
* Go maps are total functions with the Go zero value as default; a map iteration order never reaches an
  observable (the packed vote sets are compared as sets, sorted by sender);
* `Voter.votesMgr` (a pointer) is modelled as "the wrapper of the current (round, index)"; the harness checks on
  every dump that the pointer really is that wrapper;
* signatures / VRF proofs are resolved to booleans by the harness (`sigOK`, `claimOK`, `cred`); `Entry.vrf` is a
  ghost flag "the credential passes the strict check the header verifier repeats";
* the collaborators of the Voter (own sortition per vote kind, best proposal, block cache, CertificateParams
  failure) are an explicit environment `Env`, changed by `Op.env*` operations between deliveries;
* staking evidence for double votes is not modelled (the BLS branch it needs is disabled in the driven Voter).
-/
namespace YouVerif.C03

abbrev Hash := Nat
abbrev Addr := Nat
abbrev Prio := Nat

def U32 : Nat := 4294967296
def U64 : Nat := 18446744073709551616

/-- the own address -/
def self : Addr := 0

/-- VoteType: Prevote=2, Precommit=3, NextIndex=4, Certificate=5; `other` = VoteNone/Propose (wrong message code) -/
inductive VT | prevote | precommit | next | cert | other
deriving DecidableEq, Repr, Inhabited

/-- params.ValidatorKind as returned by getStakeFn: KindChamber, KindHouse, anything else -/
inductive VKind | chamber | house | other
deriving DecidableEq, Repr, Inhabited

structure Ctx where
  round : Nat
  index : Nat
deriving DecidableEq, Repr, Inhabited

/-! ## float64 quorum -/

/-- mantissas of the float64 constants: 0.685 = 0x3FE5EB851EB851EC, 0.585 = 0x3FE2B851EB851EB8, both `m * 2^-53` -/
def m685 : Nat := 0x15EB851EB851EC
def m585 : Nat := 0x12B851EB851EB8

/-- round-to-nearest-even of a natural number to 53 significant bits (IEEE-754 binary64 significand) -/
def rne53 (n : Nat) : Nat :=
  if n < 2 ^ 53 then n else
  let k := Nat.log2 n + 1 - 53
  let q := n / 2 ^ k
  let r := n % 2 ^ k
  let half := 2 ^ (k - 1)
  let q' := if half < r ∨ (r = half ∧ q % 2 = 1) then q + 1 else q
  q' * 2 ^ k

/-- `uint32(float64(T) * c)` on amd64: uint64→float64 (RNE), one float64 multiply (RNE), truncation toward zero,
    CVTTSD2SQ then the low 32 bits (0x8000000000000000 when the value does not fit an int64). -/
def quorumM (m : Nat) (T : Nat) : Nat :=
  let x := rne53 T                       -- float64(T), an integer
  let p := rne53 (x * m)                 -- the product, scaled by 2^53
  let t := p / 2 ^ 53                    -- truncation
  if t < 2 ^ 63 then t % U32 else 0

def quorum (T : Nat) (isPos : Bool) : Nat := quorumM (if isPos then m685 else m585) T

/-- OverThreshold(count, threshold, isPos) -/
def overThreshold (count T : Nat) (isPos : Bool) : Bool := decide (quorum T isPos ≤ count)

/-! ## VoteSta -/

structure Entry where
  addr : Addr
  votes : Nat
  vrf : Bool
deriving DecidableEq, Repr, Inhabited

structure VoteSta where
  info : Hash → List Entry              -- votesInfo[hash] (members in insertion order)
  counts : Hash → Nat                   -- voteCounts[hash] (uint32)
  addrs : Addr → Option (Hash × Bool)   -- addressVotes[addr] = (first hash, DoubleVoted)

instance : Inhabited VoteSta := ⟨⟨fun _ => [], fun _ => 0, fun _ => none⟩⟩

def VoteSta.empty : VoteSta := ⟨fun _ => [], fun _ => 0, fun _ => none⟩

def sumVotes : List Entry → Nat
  | [] => 0
  | e :: l => e.votes + sumVotes l

def removeAddr (a : Addr) (l : List Entry) : List Entry := l.filter (fun e => e.addr != a)

def findAddr (a : Addr) : List Entry → Option Entry
  | [] => none
  | e :: l => if e.addr = a then some e else findAddr a l

/-- VoteSta.newVote: (state, add, voteCounts[hash]) -/
def VoteSta.newVote (s : VoteSta) (a : Addr) (h : Hash) (votes : Nat) (vrf : Bool) : VoteSta × Bool × Nat :=
  match s.addrs a with
  | some _ => (s, false, s.counts h)
  | none =>
    let c := (s.counts h + votes) % U32
    ({ info := fun h' => if h' = h then removeAddr a (s.info h) ++ [⟨a, votes, vrf⟩] else s.info h'
       counts := fun h' => if h' = h then c else s.counts h'
       addrs := fun a' => if a' = a then some (h, false) else s.addrs a' }, true, c)

inductive AddrRes | none | notVoted | exist | different | doubleVoted
deriving DecidableEq, Repr

/-- VoteSta.addrVoteInfo (`isNext` = the VoteSta's vtype is NextIndex) -/
def VoteSta.addrVoteInfo (s : VoteSta) (isNext : Bool) (a : Addr) (h : Hash) : VoteSta × AddrRes :=
  match s.addrs a with
  | none => (s, .notVoted)
  | some (_, true) => (s, .doubleVoted)
  | some (h0, false) =>
    if h0 = h ∨ isNext = true then (s, .exist) else
    let addrs' : Addr → Option (Hash × Bool) := fun a' => if a' = a then some (h0, true) else s.addrs a'
    match findAddr a (s.info h0) with
    | none => ({ s with addrs := addrs' }, .different)
    | some e =>
      ({ info := fun h' => if h' = h0 then removeAddr a (s.info h0) else s.info h'
         counts := fun h' => if h' = h0 then (s.counts h0 + U32 - e.votes % U32) % U32 else s.counts h'
         addrs := addrs' }, .different)

/-! ## wrappers -/

/-- VotesWrapper: chamber / house VotesManager × four VoteSta -/
structure Wrapper where
  sta : Bool → VT → VoteSta             -- (isChamber, kind); `VT.other` is never accessed

instance : Inhabited Wrapper := ⟨⟨fun _ _ => VoteSta.empty⟩⟩

def Wrapper.empty : Wrapper := ⟨fun _ _ => VoteSta.empty⟩

def Wrapper.set (w : Wrapper) (c : Bool) (vt : VT) (s : VoteSta) : Wrapper :=
  ⟨fun c' vt' => if c' = c ∧ vt' = vt then s else w.sta c' vt'⟩

abbrev Ring := List (Ctx × Wrapper)

def getW (ws : Ring) (c : Ctx) : Option Wrapper :=
  match ws with
  | [] => none
  | (c', w) :: rest => if c' = c then some w else getW rest c

def setW (ws : Ring) (c : Ctx) (w : Wrapper) : Ring :=
  match ws with
  | [] => []
  | (c', w') :: rest => if c' = c then (c', w) :: rest else (c', w') :: setW rest c w

/-- VotesWrapperList.NewWrapper (MaxVoteCacheCount = 4) -/
def newW (ws : Ring) (c : Ctx) : Ring :=
  match getW ws c with
  | some _ => ws
  | none => if ws.length < 4 then ws ++ [(c, Wrapper.empty)] else ws.drop 1 ++ [(c, Wrapper.empty)]

def kindChamber? : VKind → Option Bool
  | .chamber => some true
  | .house => some false
  | .other => none

/-- VotesWrapper.getVotes(vtype, hash, kind) -/
def votesOf (ws : Ring) (c : Ctx) (chamber : Bool) (vt : VT) (h : Hash) : List Entry :=
  match getW ws c with
  | none => []
  | some w => (w.sta chamber vt).info h

/-- the count VotesWrapper.getVotes returns next to the votes -/
def countOf (ws : Ring) (c : Ctx) (chamber : Bool) (vt : VT) (h : Hash) : Nat :=
  match getW ws c with
  | none => 0
  | some w => (w.sta chamber vt).counts h

/-! ## VoteDB (in-memory part) -/

structure VoteDB where
  round : Option Nat := none
  index : Nat := 0
  mark : VT → Nat := fun _ => 0

instance : Inhabited VoteDB := ⟨{}⟩

def VoteDB.updateContext (d : VoteDB) (r i : Nat) : VoteDB :=
  match d.round with
  | some R => if R > r ∨ (R = r ∧ d.index ≥ i) then d else { round := some r, index := i, mark := fun _ => 0 }
  | none => { round := some r, index := i, mark := fun _ => 0 }

def VoteDB.alreadyVoted (d : VoteDB) (vt : VT) (r i : Nat) : Bool :=
  match d.round with
  | none => false
  | some R =>
    if R > r then true
    else if R = r then
      decide (d.index > i) || (decide (d.index = i) && decide (vt = .next) && decide (d.mark vt = 2))
        || (decide (d.index = i) && decide (vt ≠ .next) && decide (d.mark vt = 1))
    else false

/-- UpdateVoteData after the alreadyVoted test passed -/
def VoteDB.record (d : VoteDB) (vt : VT) (r i : Nat) : VoteDB :=
  let clear := (match d.round with | some R => decide (R ≠ r) | none => false) || decide (d.index ≠ i)
  let m : VT → Nat := if clear then fun _ => 0 else d.mark
  { round := some r, index := i, mark := fun t => if t = vt then (m vt + 1) % 256 else m t }

/-! ## Voter -/

/-- own sortition for one vote kind (isValidatorFn → StepView) -/
structure Sel where
  votes : Nat
  kind : VKind
  T : Nat
deriving DecidableEq, Repr, Inhabited

structure Env where
  sel : VT → Option Sel := fun _ => none
  maxPrio : Option (Prio × Hash) := none
  missing : List Hash := []          -- hashes blockInCacheFn does not know
  certErr : Bool := false            -- CertificateParams fails

instance : Inhabited Env := ⟨{}⟩

def Env.hasBlock (e : Env) (h : Hash) : Bool := !(e.missing.contains h)

/-- VoteStatus latches of one block hash: (isChamber, kind) ↦ crossed the quorum -/
abbrev Over := Hash → Bool → VT → Bool

inductive Out
  | signed (vt : VT) (c : Ctx) (h : Hash) (p : Prio) (votes : Nat)       -- SendMessageEvent (own vote)
  | commit (c : Ctx) (h : Hash) (cert : Bool) (pc hpc certs : List Entry) -- CommitEvent with its vote sets
  | rice (c : Ctx) (h : Hash) (p : Prio)                                 -- RoundIndexChangeEvent
  | update (c : Ctx) (h : Hash) (pc hpc : List Entry)                    -- UpdateExistedHeaderEvent
  | over (c : Ctx) (vt : VT) (chamber : Bool) (h : Hash) (count T : Nat) (members : List Entry)
                                                                         -- ghost: judgeVoteCount saw a quorum (+ who is counted)
  | bug (what : Nat)                                                     -- ghost: fuel exhausted / impossible branch
deriving DecidableEq, Repr

structure Voter where
  started : Bool := false            -- round != nil
  round : Nat := 0
  index : Nat := 0
  step : Nat := 0
  precommitted : Bool := false
  committed : Bool := false
  sentChange : Bool := false
  certificated : Bool := false
  shouldCert : Bool := false
  nextMarked : Option (Hash × Prio) := none
  curMarked : Option (Hash × Prio) := none
  nextVoted : Option (Hash × Prio) := none
  over : Over := fun _ _ _ => false
  overT : Hash → VT → Nat := fun _ _ => 0   -- VoteStatus.chamberTh: threshold in force when the chamber quorum was seen
  ws : Ring := []
  updateEv : Option (Ctx × Hash) := none
  db : VoteDB := {}
  env : Env := {}
  crashed : Bool := false

instance : Inhabited Voter := ⟨{}⟩

def Voter.ctx (v : Voter) : Ctx := ⟨v.round, v.index⟩

/-- apply a VoteSta operation inside the wrapper of context `c` -/
def Voter.newVoteAt (v : Voter) (c : Ctx) (k : VKind) (vt : VT) (a : Addr) (h : Hash) (votes : Nat) (vrf : Bool) :
    Voter × Bool × Nat :=
  match kindChamber? k, getW v.ws c with
  | some ch, some w =>
    if vt = .other then (v, false, 0) else
    let r := (w.sta ch vt).newVote a h votes vrf
    ({ v with ws := setW v.ws c (w.set ch vt r.1) }, r.2.1, r.2.2)
  | _, _ => (v, false, 0)

inductive Call
  | judge (vt : VT) (count T : Nat) (h : Hash) (p : Prio) (k : VKind)
  | vote (vt : VT) (h : Hash) (p : Prio)
  | mark (h : Hash) (p : Prio)
  | markBody (h : Hash) (p : Prio)
  | commit (h : Hash) (p : Prio)

/-- judgeVoteCount / vote / setMarkedBlock / commit.  The call graph is acyclic
    (prevote → precommit → certificate → next), depth ≤ 8; `fuel` makes the recursion structural.
    The Boolean is `err == nil` of `vote` (true for the other calls). -/
def exec : Nat → Voter → Call → Voter × List Out × Bool
  | 0, v, _ => (v, [.bug 0], false)
  | _ + 1, v, .commit h _ =>
    if !v.env.hasBlock h then (v, [], true) else
    -- the packed votes must still reach the quorums that were latched in voteOver
    if !(v.over h true .precommit && overThreshold (countOf v.ws v.ctx true .precommit h) (v.overT h .precommit) true) then (v, [], true)
    else if v.shouldCert && !(v.over h true .cert && overThreshold (countOf v.ws v.ctx true .cert h) (v.overT h .cert) false) then (v, [], true)
    else
    ({ v with committed := true },
      [.commit v.ctx h v.shouldCert (votesOf v.ws v.ctx true .precommit h) (votesOf v.ws v.ctx false .precommit h)
        (if v.shouldCert then votesOf v.ws v.ctx true .cert h else [])], true)
  | fuel + 1, v, .mark h p =>
    match v.nextVoted with
    | some (nh, _) =>
      if nh ≠ 0 ∨ nh = h ∨ h = 0 then (v, [], true) else exec fuel v (.markBody h p)
    | none => exec fuel v (.markBody h p)
  | fuel + 1, v, .markBody h p =>            -- setMarkedBlock after the "already voted" test
    if !v.env.hasBlock h && h ≠ 0 then (v, [], true)
    else if v.step < 4 then
      (if v.nextMarked.isNone ∧ h ≠ 0 then { v with nextMarked := some (h, p) } else v, [], true)
    else
      let r := exec fuel v (.vote .next h p)
      (if !r.2.2 then { r.1 with nextVoted := some (h, p) } else r.1, r.2.1, true)
  | fuel + 1, v, .vote vt h p =>
    match v.env.sel vt with
    | none => (v, [], false)
    | some sv =>
      if vt = .next ∧ v.nextVoted.isSome ∧ v.db.alreadyVoted .next v.round v.index then (v, [], false)
      else if vt = .cert ∧ v.env.certErr then (v, [], false)
      else if v.db.alreadyVoted vt v.round v.index then (v, [], false)
      else
        let nv := ({ v with db := v.db.record vt v.round v.index } : Voter).newVoteAt v.ctx sv.kind vt self h sv.votes true
        let r := exec fuel nv.1 (.judge vt nv.2.2 sv.T h p sv.kind)
        (r.1, .signed vt v.ctx h p sv.votes :: r.2.1, true)
  | fuel + 1, v, .judge vt count T h p k =>
    if !overThreshold count T (vt != .cert) || (v.committed && vt != .precommit) then (v, [], true)
    else if v.committed && vt == .precommit then ({ v with updateEv := some (v.ctx, h) }, [], true)
    else
      match kindChamber? k with
      | none => (v, [], true)
      | some ch =>
        let ghost := [Out.over v.ctx vt ch h count T (votesOf v.ws v.ctx ch vt h)]
        let v1 : Voter :=
          { v with over := fun h' c' t' => if h' = h ∧ c' = ch ∧ t' = vt then true else v.over h' c' t'
                   overT := fun h' t' => if h' = h ∧ ch = true ∧ t' = vt then T else v.overT h' t' }
        if ch = false then (v1, ghost, true) else
        match vt with
        | .prevote =>
          if v1.precommitted then (v1, ghost, true) else
          let r2 := exec fuel v1 (.vote .precommit h p)
          let v3 : Voter := if r2.2.2 then { r2.1 with precommitted := true } else r2.1
          let r4 := exec fuel v3 (.mark h p)
          (r4.1, ghost ++ r2.2.1 ++ r4.2.1, true)
        | .precommit =>
          if !v1.shouldCert then
            let r2 := exec fuel v1 (.commit h p)
            let r3 := exec fuel r2.1 (.mark h p)
            (r3.1, ghost ++ r2.2.1 ++ r3.2.1, true)
          else if !v1.certificated then
            let r2 := exec fuel v1 (.vote .cert h p)
            (if r2.2.2 then { r2.1 with certificated := true } else r2.1, ghost ++ r2.2.1, true)
          else if v1.over h true .cert then
            let r2 := exec fuel v1 (.commit h p)
            let r3 := exec fuel r2.1 (.mark h p)
            (r3.1, ghost ++ r2.2.1 ++ r3.2.1, true)
          else (v1, ghost, true)
        | .cert =>
          if v1.over h true .precommit then
            let r2 := exec fuel v1 (.commit h p)
            let r3 := exec fuel r2.1 (.mark h p)
            (r3.1, ghost ++ r2.2.1 ++ r3.2.1, true)
          else (v1, ghost, true)
        | .next =>
          if v1.sentChange then (v1, ghost, true)
          else ({ v1 with sentChange := true }, ghost ++ [.rice v1.ctx h p], true)
        | .other => (v1, ghost, true)

def FUEL : Nat := 16

/-! ## deliveries -/

/-- MsgReceivedStatus -/
inductive Status | oldRound | oldIndex | same | future | invalid
deriving DecidableEq, Repr, Inhabited

/-- outcome of verifySortitionFn as the harness resolves it: rejected, valid under the strict check,
    or accepted only through the old-round leniency -/
inductive Cred | reject | valid | lenient
deriving DecidableEq, Repr, Inhabited

structure Msg where
  vt : VT
  ctx : Ctx
  h : Hash
  p : Prio
  sender : Addr
  votes : Nat
  status : Status
  nilVote : Bool := false
  sigOK : Bool := true      -- the signature recovers to a key
  claimOK : Bool := true    -- the recovered address equals the envelope sender
  stakeOK : Bool := true    -- getStakeFn returned no error
  kind : VKind := .chamber  -- validator kind from getStakeFn
  T : Nat := 1              -- threshold from getStakeFn
  cred : Cred := .valid
deriving Repr, Inhabited

/-- return value of processVoteMsg: error class and the `invalid` flag -/
inductive Ret | ok | emptyVote | certParams | badSig | addrMismatch | stakeErr | sortitionErr | crash
deriving DecidableEq, Repr

def Ret.invalid : Ret → Bool
  | .ok => false
  | .crash => false
  | _ => true

inductive Op
  | context (c : Ctx) (step : Nat) (cert : Bool)
  | vote (m : Msg)
  | envSel (vt : VT) (s : Option Sel)
  | envMax (m : Option (Prio × Hash))
  | envBlock (h : Hash) (present : Bool)
  | envCertErr (b : Bool)
  | insertFailed (h : Hash)            -- the chain inserter refused the committed block: Voter.removeMarkedBlock
deriving Repr

/-- the `if context changed` block of Voter.updateContext: flush the pending header update, new ring slot, reset latches -/
def ctxReset (v : Voter) (c : Ctx) : Voter × List Out :=
  if !v.started || v.round ≠ c.round || v.index ≠ c.index then
    ({ v with updateEv := none, ws := newW v.ws c, precommitted := false, committed := false, sentChange := false,
              certificated := false, curMarked := if c.index = 1 then none else v.nextVoted,
              nextMarked := none, nextVoted := none, over := fun _ _ _ => false, overT := fun _ _ => 0 },
     match v.updateEv with
     | some (uc, uh) =>
       (match getW v.ws uc with
        | some _ => [Out.update uc uh (votesOf v.ws uc true .precommit uh) (votesOf v.ws uc false .precommit uh)]
        | none => [])
     | none => [])
  else (v, [])

/-- what Voter.updateContext does after storing the new context: the own prevote (step 2) or setMarkedBlock (steps 4, 5) -/
def ctxCall (v : Voter) (step : Nat) : Option Call :=
  if step = 2 then
    match v.curMarked with
    | some (ch, cp) =>
      if ch ≠ 0 then some (.vote .prevote ch cp)
      else match v.env.maxPrio with
        | none => none
        | some (p, h) => some (.vote .prevote h p)
    | none =>
      match v.env.maxPrio with
      | none => none
      | some (p, h) => some (.vote .prevote h p)
  else if step = 4 ∨ step = 5 then
    if v.committed || v.sentChange then none
    else match v.nextMarked with
      | none => some (.mark 0 0)
      | some (h, p) => some (.mark h p)
  else none

/-- v.round = ev.Round … v.voteCache.UpdateContext(v.round, v.roundIndex) -/
def ctxStore (v : Voter) (c : Ctx) (step : Nat) (cert : Bool) : Voter :=
  { v with started := true, round := c.round, index := c.index, step := step, shouldCert := cert,
           db := v.db.updateContext c.round c.index }

/-- Voter.updateContext -/
def updateContext (v : Voter) (c : Ctx) (step : Nat) (cert : Bool) : Voter × List Out :=
  match ctxCall (ctxStore (ctxReset v c).1 c step cert) step with
  | none => (ctxStore (ctxReset v c).1 c step cert, (ctxReset v c).2)
  | some call =>
    ((exec FUEL (ctxStore (ctxReset v c).1 c step cert) call).1,
     (ctxReset v c).2 ++ (exec FUEL (ctxStore (ctxReset v c).1 c step cert) call).2.1)

/-- the counting part of processVoteMsg (after the wrapper was found) -/
def countVote (v : Voter) (m : Msg) (old : Bool) : Voter × List Out × Ret :=
  match kindChamber? m.kind, getW v.ws m.ctx with
  | some ch, some w =>
    if m.vt = .other then (v, [], .ok) else
    let ai := (w.sta ch m.vt).addrVoteInfo (decide (m.vt = .next)) m.sender m.h
    let v1 : Voter := { v with ws := setW v.ws m.ctx (w.set ch m.vt ai.1) }
    match ai.2 with
    | .notVoted =>
      let nv := v1.newVoteAt m.ctx m.kind m.vt m.sender m.h m.votes (decide (m.cred = .valid))
      if !nv.2.1 then (nv.1, [], .ok)
      else if !old then
        ((exec FUEL nv.1 (.judge m.vt nv.2.2 m.T m.h m.p m.kind)).1, (exec FUEL nv.1 (.judge m.vt nv.2.2 m.T m.h m.p m.kind)).2.1, .ok)
      else if overThreshold nv.2.2 m.T false then
        (nv.1, [.update m.ctx m.h (votesOf nv.1.ws m.ctx true .precommit m.h) (votesOf nv.1.ws m.ctx false .precommit m.h)], .ok)
      else (nv.1, [], .ok)
    | _ => (v1, [], .ok)
  | _, _ => (v, [], .ok)

/-- Voter.processVoteMsg -/
def processVoteMsg (v : Voter) (m : Msg) : Voter × List Out × Ret :=
  if m.status = .same ∧ m.nilVote then (v, [], .emptyVote)
  else if m.status = .same ∧ !v.started then ({ v with crashed := true }, [], .crash)   -- msg.Round.Cmp(nil)
  else if m.status = .same ∧ m.ctx ≠ v.ctx then (v, [], .ok)
  else if m.vt = .cert ∧ v.env.certErr then (v, [], .certParams)
  else if m.nilVote then ({ v with crashed := true }, [], .crash)                      -- vote.Signature on nil
  else if !m.sigOK then (v, [], .badSig)
  else if !m.claimOK then (v, [], .addrMismatch)
  else if !m.stakeOK then (v, [], .stakeErr)
  else if m.cred = .reject then (v, [], .sortitionErr)
  else if m.status = .future ∨ m.status = .invalid then (v, [], .ok)
  else
    match getW v.ws m.ctx with
    | none =>
      if m.status = .oldRound ∨ m.status = .oldIndex then (v, [], .ok)
      else  -- status = same: NewWrapper + votesMgr := wrapper (unreachable: the current context always has one)
        countVote { v with ws := newW v.ws m.ctx } m false
    | some _ =>
      if m.status = .oldRound ∨ m.status = .oldIndex then
        (if m.vt ≠ .precommit then (v, [], .ok) else countVote v m true)
      else countVote v m false

def applyEnv (e : Env) : Op → Env
  | .envSel vt s => { e with sel := fun t => if t = vt then s else e.sel t }
  | .envMax m => { e with maxPrio := m }
  | .envBlock h present =>
    { e with missing := if present then e.missing.filter (· != h) else h :: e.missing.filter (· != h) }
  | .envCertErr b => { e with certErr := b }
  | _ => e

/-- one delivery; a crashed Voter (the Go code panicked) ignores everything that follows -/
def step (v : Voter) (op : Op) : Voter × List Out × Ret :=
  if v.crashed then (v, [], .crash) else
  match op with
  | .context c st cert => let (v', o) := updateContext v c st cert; (v', o, .ok)
  | .vote m => processVoteMsg v m
  | .insertFailed h =>
    -- removeMarkedBlock (with the nil guard of the repaired code): forget the marks if they name this block
    match v.nextMarked with
    | some (nh, _) => if nh = h then ({ v with nextMarked := none, nextVoted := none }, [], .ok) else (v, [], .ok)
    | none => (v, [], .ok)
  | op => ({ v with env := applyEnv v.env op }, [], .ok)

def run (v : Voter) : List Op → Voter × List (List Out × Ret)
  | [] => (v, [])
  | op :: ops =>
    let (v1, o, r) := step v op
    let (v2, rest) := run v1 ops
    (v2, (o, r) :: rest)

def init : Voter := {}

/-! ## the header verifier's vote count (verifyVotes, secp256k1 branch) and verifySortition's leniency -/

/-- the loop of `verifyVotes`: a vote whose signer was already counted, or whose credential fails the strict
    check, is skipped; `count` is a uint32 -/
def verifierCount : List Addr → Nat → List Entry → Nat
  | _, count, [] => count
  | seen, count, e :: l =>
    if seen.contains e.addr then verifierCount seen count l
    else if !e.vrf then verifierCount seen count l
    else verifierCount (e.addr :: seen) ((count + e.votes) % U32) l

def acceptVotes (T : Nat) (isPos : Bool) (es : List Entry) : Bool :=
  overThreshold (verifierCount [] 0 es) T isPos

/-- verifyConsensusFieldMain's two calls of verifyVotes on the header assembled from a CommitEvent -/
def headerAccepted (T Tc : Nat) (cert : Bool) (pc certs : List Entry) : Bool :=
  acceptVotes T true pc && (!cert || acceptVotes Tc false certs)

/-- Server.verifySortition: a failed VRF check is forgiven when the vote is older than the SERVER's context -/
def verifySortition (srv : Ctx) (m : Ctx) (vrfOK : Bool) : Bool :=
  vrfOK || decide (m.round < srv.round) || decide (m.index < srv.index)

end YouVerif.C03
