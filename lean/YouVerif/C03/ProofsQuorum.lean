import YouVerif.C03.Model

/-
C03 — the float64 quorum of `OverThreshold` against the rational floor.

`rne53` is a correct rounding (within half a unit of the last kept bit), hence for every 32-bit threshold `T`
`uint32(float64(T) * 0.685) = ⌊685 T / 1000⌋` exactly, while `uint32(float64(T) * 0.585)` is `⌊585 T / 1000⌋` or one
less (and one less does occur, `T = 3400`).  Core Lean only.
-/
namespace YouVerif.C03

/-- below 2^53 nothing is rounded -/
theorem rne53_small (n : Nat) (h : n < 2^53) : rne53 n = n := by
  unfold rne53; simp [h]

/-- the two outcomes of the rounding: with `k2 = 2^k` the unit of the last kept bit, `n = q * k2 + r`, the result is
    `q * k2` (then `r ≤ k2 / 2`) or `(q + 1) * k2` (then `k2 / 2 ≤ r`) -/
theorem rne53_cases (n : Nat) (h : 2^53 ≤ n) :
    ∃ q r k2 : Nat, k2 = 2^(Nat.log2 n + 1 - 53) ∧ n = q * k2 + r ∧ r < k2 ∧ q = n / k2 ∧
      ((rne53 n = q * k2 ∧ 2 * r ≤ k2) ∨ (rne53 n = q * k2 + k2 ∧ k2 ≤ 2 * r)) := by
  have hn : ¬ n < 2^53 := Nat.not_lt.mpr h
  refine ⟨n / 2^(Nat.log2 n + 1 - 53), n % 2^(Nat.log2 n + 1 - 53), 2^(Nat.log2 n + 1 - 53), rfl, ?_, ?_, rfl, ?_⟩
  · rw [Nat.mul_comm]; exact (Nat.div_add_mod _ _).symm
  · exact Nat.mod_lt _ (Nat.two_pow_pos _)
  · unfold rne53
    simp only [hn, if_false]
    generalize hk : Nat.log2 n + 1 - 53 = k
    have hr : n % 2^k < 2^k := Nat.mod_lt _ (Nat.two_pow_pos _)
    cases k with
    | zero =>
      simp only [Nat.pow_zero, Nat.mod_one, Nat.zero_sub] at *
      left
      simp
    | succ k' =>
      simp only [Nat.add_sub_cancel]
      have h2 : 2^(k'+1) = 2 * 2^k' := by rw [Nat.pow_succ, Nat.mul_comm]
      rw [h2] at hr ⊢
      generalize 2^k' = hf at *
      generalize n % (2*hf) = r at *
      generalize n / (2*hf) = q at *
      split
      · right
        refine ⟨by rw [Nat.add_mul, Nat.one_mul], by omega⟩
      · left
        refine ⟨rfl, by omega⟩

/-- rne53 is a correct rounding: with k the exponent of the last kept bit, the result is a multiple of 2^k within
    half a unit; it is never below the truncation -/
theorem rne53_lower (n : Nat) (h : 2^53 ≤ n) :
    n / 2^(Nat.log2 n + 1 - 53) * 2^(Nat.log2 n + 1 - 53) ≤ rne53 n := by
  obtain ⟨q, r, k2, hk2, hn, hr, hq, hc⟩ := rne53_cases n h
  rw [← hk2, ← hq]
  omega

/-- `rne53 n ≤ n + half ulp` -/
theorem rne53_upper (n : Nat) : 2 * rne53 n ≤ 2 * n + 2^(Nat.log2 n + 1 - 53) := by
  by_cases h : n < 2^53
  · rw [rne53_small n h]; exact Nat.le_add_right _ _
  · obtain ⟨q, r, k2, hk2, hn, hr, hq, hc⟩ := rne53_cases n (Nat.le_of_not_lt h)
    rw [← hk2]
    omega

/-- `n - half ulp ≤ rne53 n` -/
theorem rne53_lower' (n : Nat) : 2 * n ≤ 2 * rne53 n + 2^(Nat.log2 n + 1 - 53) := by
  by_cases h : n < 2^53
  · rw [rne53_small n h]; exact Nat.le_add_right _ _
  · obtain ⟨q, r, k2, hk2, hn, hr, hq, hc⟩ := rne53_cases n (Nat.le_of_not_lt h)
    rw [← hk2]
    omega

/-- and "one less" really happens -/
theorem quorum585_off_by_one : quorum 3400 false = 1988 ∧ 585 * 3400 / 1000 = 1989 := by
  decide


/-- a product of a 32-bit integer and a 53-bit mantissa has its last kept bit at exponent ≤ 32 -/
theorem ulp_le (P : Nat) (hP : P < 2^85) : 2^(Nat.log2 P + 1 - 53) ≤ 2^32 := by
  apply Nat.pow_le_pow_right (by decide)
  by_cases h0 : P = 0
  · subst h0; simp [Nat.log2_zero]
  · have := (Nat.log2_lt h0).mpr hP
    omega

/-- rounding never crosses a multiple of 2^53 downwards (the unit of the last kept bit divides 2^53) -/
theorem rne53_ge_mul (n P : Nat) (hP : P < 2^85) (h : n * 2^53 ≤ P) : n * 2^53 ≤ rne53 P := by
  by_cases hs : P < 2^53
  · rw [rne53_small P hs]; exact h
  · have hs' : 2^53 ≤ P := Nat.le_of_not_lt hs
    have h0 : P ≠ 0 := by intro h0; subst h0; simp at hs'
    have hk : Nat.log2 P + 1 - 53 ≤ 53 := by
      have := (Nat.log2_lt h0).mpr hP
      omega
    refine Nat.le_trans ?_ (rne53_lower P hs')
    generalize Nat.log2 P + 1 - 53 = k at hk
    have e : n * 2^53 = (n * 2^(53-k)) * 2^k := by
      rw [Nat.mul_assoc, ← Nat.pow_add]; congr 2; omega
    rw [e] at h ⊢
    apply Nat.mul_le_mul_right
    exact (Nat.le_div_iff_mul_le (Nat.two_pow_pos k)).mpr h

/-- the truncated float64 product `float64(T) * 0.685`; uses `m685 * 1000 = 685 * 2^53 + 480` -/
theorem prod685 (T : Nat) (hT : T < 2^32) : rne53 (T * m685) / 2^53 = 685 * T / 1000 := by
  have hP : T * m685 < 2^85 := by unfold m685; omega
  have hB : (685*T/1000) * 2^53 ≤ rne53 (T*m685) := by
    apply rne53_ge_mul _ _ hP
    unfold m685; omega
  have hU := rne53_upper (T*m685)
  have hk := ulp_le _ hP
  generalize 2^(Nat.log2 (T*m685) + 1 - 53) = u at *
  generalize rne53 (T*m685) = R at *
  unfold m685 at *
  simp only [Nat.reducePow] at *
  omega

/-- the 0.685 quorum is exactly the rational floor for every 32-bit threshold -/
theorem quorum685_exact (T : Nat) (hT : T < 2^32) : quorum T true = 685 * T / 1000 := by
  unfold quorum quorumM
  simp only [if_true]
  rw [rne53_small T (by omega), prod685 T hT]
  unfold U32
  split <;> omega


/-- the truncated float64 product `float64(T) * 0.585`; uses `m585 * 1000 + 320 = 585 * 2^53` -/
theorem prod585 (T : Nat) (hT : T < 2^32) :
    585 * T / 1000 - 1 ≤ rne53 (T * m585) / 2^53 ∧ rne53 (T * m585) / 2^53 ≤ 585 * T / 1000 := by
  have hP : T * m585 < 2^85 := by unfold m585; omega
  have hU := rne53_upper (T*m585)
  have hL := rne53_lower' (T*m585)
  have hk := ulp_le _ hP
  generalize 2^(Nat.log2 (T*m585) + 1 - 53) = u at *
  generalize rne53 (T*m585) = R at *
  unfold m585 at *
  simp only [Nat.reducePow] at *
  omega

/-- the 0.585 quorum is the rational floor or one less -/
theorem quorum585_bounds (T : Nat) (hT : T < 2^32) :
    585 * T / 1000 - 1 ≤ quorum T false ∧ quorum T false ≤ 585 * T / 1000 := by
  have h := prod585 T hT
  unfold quorum quorumM
  simp only [Bool.false_eq_true, if_false]
  rw [rne53_small T (by omega)]
  generalize rne53 (T * m585) / 2^53 = t at *
  unfold U32
  split <;> omega

end YouVerif.C03
