/-
C03 — property theorems.  "Votes escalate and blocks commit only on a counted quorum; commits always verify."

The theorems quantify over ALL histories `ops : List Op` (context changes, received votes of every status and
malformation, environment changes) run from the initial Voter by `run init ops`; `events ops` are the events emitted by
each delivery.  `Out.over c kind chamber B count T members` is the model's record of judgeVoteCount seeing a quorum
(ghost: it snapshots who is counted at that moment); `Entry.vrf` says the credential of a counted vote passes the strict
check the header verifier repeats.
-/
import YouVerif.C03.ProofsRun
import YouVerif.C03.ProofsQuorum
namespace YouVerif.C03

/-- the events of every delivery of a history -/
def events (ops : List Op) : List (List Out) := (run init ops).2.map (·.1)

/-- a history in which every vote and the own sortition report the uniform thresholds (T for prevote/precommit/next,
    Tc for certificate votes) and no credential is accepted through verifySortition's old-round leniency -/
def Uniform (T Tc : Nat) (ops : List Op) : Prop := ∀ op ∈ ops, OpOK T Tc true op

theorem opOK_false (op : Op) : OpOK 0 0 false op := by
  cases op with
  | vote m => intro h; cases h
  | envSel vt s => cases s with
    | none => trivial
    | some sv => intro h; cases h
  | _ => trivial

theorem mem_events {ops : List Op} {outs : List Out} (h : outs ∈ events ops) : ∃ x ∈ (run init ops).2, x.1 = outs := by
  simpa [events] using h

/-- **precommit_justified.** An own precommit for block `B` in context `c` is emitted only in a delivery in which
    judgeVoteCount saw the chamber prevotes for exactly `B` in `c` reach the quorum of the threshold in play: the count is
    the uint32 sum of the weights of the counted members, who are pairwise distinct senders. -/
theorem precommit_justified (ops : List Op) :
    ∀ outs ∈ events ops, ∀ c B p w, Out.signed .precommit c B p w ∈ outs →
      ∃ count T mem, Out.over c .prevote true B count T mem ∈ outs ∧
        quorum T true ≤ count ∧ count = sumVotes mem % U32 ∧ count ≤ sumVotes mem ∧ (mem.map (·.addr)).Nodup := by
  intro outs houts c B p w hs
  obtain ⟨x, hx, rfl⟩ := mem_events houts
  have hr := (run_res (T := 0) (Tc := 0) (strict := false) ops init Inv.init (fun op _ => opOK_false op)).2 x hx
  obtain ⟨count, T, mem, hov⟩ := hr.2 c B p w hs
  obtain ⟨ctx, _, hq, _, hrest⟩ := hr.1 _ hov
  obtain ⟨h1, h2, _⟩ := hrest (by intro hh; cases hh)
  have hb : (VT.prevote != VT.cert) = true := by decide
  rw [hb] at hq
  refine ⟨count, T, mem, hov, ?_, h1, ?_, h2⟩
  · simpa [overThreshold] using hq
  · rw [h1]; exact Nat.mod_le _ _

/-- … and in a uniform, leniency-free history the threshold is the protocol's and every counted prevoter's credential
    is verified. -/
theorem precommit_justified_verified (T Tc : Nat) (ops : List Op) (hU : Uniform T Tc ops) :
    ∀ outs ∈ events ops, ∀ c B p w, Out.signed .precommit c B p w ∈ outs →
      ∃ count mem, Out.over c .prevote true B count T mem ∈ outs ∧ quorum T true ≤ count ∧
        count = sumVotes mem % U32 ∧ (mem.map (·.addr)).Nodup ∧ ∀ e ∈ mem, e.vrf = true := by
  intro outs houts c B p w hs
  obtain ⟨x, hx, rfl⟩ := mem_events houts
  have hr := (run_res (T := T) (Tc := Tc) (strict := true) ops init Inv.init hU).2 x hx
  obtain ⟨count, T', mem, hov⟩ := hr.2 c B p w hs
  obtain ⟨ctx, _, hq, hT, hrest⟩ := hr.1 _ hov
  obtain ⟨h1, h2, h3⟩ := hrest (by intro hh; cases hh)
  have hb : (VT.prevote != VT.cert) = true := by decide
  rw [hb] at hq
  have hT' : T' = T := by rw [hT rfl]; simp [thr]
  subst hT'
  exact ⟨count, mem, hov, by simpa [overThreshold] using hq, h1, h2, h3 rfl⟩

/-- **commit_justified.** A commit of `B` is announced only in a delivery at whose moment the packed chamber precommits
    for `B` (pairwise distinct senders) reach the quorum of the threshold latched for them, and — in a certificate
    context — the packed certificate votes reach theirs. -/
theorem commit_justified (ops : List Op) :
    ∀ outs ∈ events ops, ∀ c B cert pc hpc certs, Out.commit c B cert pc hpc certs ∈ outs →
      ∃ Tp Tq, quorum Tp true ≤ sumVotes pc % U32 ∧ (pc.map (·.addr)).Nodup ∧
        (cert = true → quorum Tq false ≤ sumVotes certs % U32 ∧ (certs.map (·.addr)).Nodup) := by
  intro outs houts c B cert pc hpc certs hs
  obtain ⟨x, hx, rfl⟩ := mem_events houts
  have hr := (run_res (T := 0) (Tc := 0) (strict := false) ops init Inv.init (fun op _ => opOK_false op)).2 x hx
  obtain ⟨ctx, _, Tp, Tq, _, h1, h2, _, h3⟩ := hr.1 _ hs
  exact ⟨Tp, Tq, h1, h2, fun hc => ⟨(h3 hc).1, (h3 hc).2.1⟩⟩

/-- the header verifier's count of a set of pairwise distinct, strictly credentialed votes is the uint32 sum of their weights -/
theorem verifierCount_eq : ∀ (es : List Entry) (seen : List Addr) (cnt : Nat), cnt < U32 →
    (∀ e ∈ es, e.vrf = true) → (es.map (·.addr)).Nodup → (∀ e ∈ es, e.addr ∉ seen) →
    verifierCount seen cnt es = (cnt + sumVotes es) % U32
  | [], seen, cnt, hc, _, _, _ => by simp [verifierCount, sumVotes, Nat.mod_eq_of_lt hc]
  | e :: l, seen, cnt, hc, hv, hnd, hs => by
    have h1 : seen.contains e.addr = false := by
      have := hs e (List.mem_cons_self ..)
      simpa using this
    have h2 : e.vrf = true := hv e (List.mem_cons_self ..)
    simp only [List.map_cons, List.nodup_cons] at hnd
    have ih := verifierCount_eq l (e.addr :: seen) ((cnt + e.votes) % U32) (Nat.mod_lt _ (by decide))
      (fun x hx => hv x (List.mem_cons_of_mem _ hx)) hnd.2 (by
        intro x hx hmem
        simp only [List.mem_cons] at hmem
        rcases hmem with hmem | hmem
        · exact hnd.1 (hmem ▸ List.mem_map_of_mem hx)
        · exact hs x (List.mem_cons_of_mem _ hx) hmem)
    simp only [verifierCount, h1, h2, Bool.not_true, Bool.false_eq_true, if_false, ih, sumVotes]
    simp only [U32]; omega

/-- **commit_verifies** (of the repaired code): in a uniform, leniency-free history the vote sets attached to every
    commit pass the header verifier's counts — precommits against the 0.685 quorum of `T`, and in a certificate
    context the certificate votes against the 0.585 quorum of `Tc`. -/
theorem commit_verifies (T Tc : Nat) (ops : List Op) (hU : Uniform T Tc ops) :
    ∀ outs ∈ events ops, ∀ c B cert pc hpc certs, Out.commit c B cert pc hpc certs ∈ outs →
      headerAccepted T Tc cert pc certs = true := by
  intro outs houts c B cert pc hpc certs hs
  obtain ⟨x, hx, rfl⟩ := mem_events houts
  have hr := (run_res (T := T) (Tc := Tc) (strict := true) ops init Inv.init hU).2 x hx
  obtain ⟨ctx, _, Tp, Tq, hT, h1, h2, h3, h4⟩ := hr.1 _ hs
  obtain ⟨rfl, rfl⟩ := hT rfl
  have hz : (0 : Nat) < U32 := by decide
  have e1 := verifierCount_eq pc [] 0 hz (h3 rfl) h2 (by intro e _ hm; cases hm)
  simp only [Nat.zero_add] at e1
  simp only [headerAccepted, acceptVotes, overThreshold, e1, Bool.and_eq_true, decide_eq_true_eq, Bool.or_eq_true,
    Bool.not_eq_true']
  refine ⟨h1, ?_⟩
  cases cert with
  | false => exact Or.inl rfl
  | true =>
    right
    obtain ⟨h5, h6, h7⟩ := h4 rfl
    have e2 := verifierCount_eq certs [] 0 hz (h7 rfl) h6 (by intro e _ hm; cases hm)
    simp only [Nat.zero_add] at e2
    rw [e2]; exact h5

/-- **double_voter_weightless.** In every reachable state, in every VoteSta of every ring slot, a sender marked as a
    double voter is a member of no hash's vote set: it contributes no weight (and `count = Σ members` by `counts_are_sums`). -/
theorem double_voter_weightless (ops : List Op) :
    ∀ cw ∈ (run init ops).1.ws, ∀ (ch : Bool) (vt : VT) (a : Addr) (h0 : Hash),
      (cw.2.sta ch vt).addrs a = some (h0, true) → ∀ h e, e ∈ (cw.2.sta ch vt).info h → e.addr ≠ a := by
  intro cw hcw ch vt a h0 hd
  have hI := (run_res (T := 0) (Tc := 0) (strict := false) ops init Inv.init (fun op _ => opOK_false op)).1
  exact (hI.sta cw hcw ch vt).double_weightless hd

/-- every stored count is the uint32 sum of the weights of that hash's members, who are distinct senders each recorded
    with that hash as their first, un-equivocated vote -/
theorem counts_are_sums (ops : List Op) :
    ∀ cw ∈ (run init ops).1.ws, ∀ (ch : Bool) (vt : VT), StaInv (cw.2.sta ch vt) :=
  fun cw hcw ch vt =>
    ((run_res (T := 0) (Tc := 0) (strict := false) ops init Inv.init (fun op _ => opOK_false op)).1).sta cw hcw ch vt

/-- the marking step: a counted sender (first vote `h0`, not yet marked) whose vote for a different hash reaches
    addrVoteInfo (kind ≠ next-index) is marked and removed from every vote set of that VoteSta … -/
theorem second_vote_marks {s : VoteSta} (hs : StaInv s) {a : Addr} {h h0 : Hash}
    (h1 : s.addrs a = some (h0, false)) (hne : h0 ≠ h) :
    (s.addrVoteInfo false a h).1.addrs a = some (h0, true) ∧
    ∀ h' e, e ∈ (s.addrVoteInfo false a h).1.info h' → e.addr ≠ a :=
  ⟨(addrVoteInfo_different hs h1 hne).2.1, (addrVoteInfo_different hs h1 hne).2.2⟩

/-- … and the mark is permanent while the VoteSta lives. -/
theorem double_mark_persists {s : VoteSta} {a b : Addr} {h h0 : Hash} {w : Nat} {vrf isNext : Bool}
    (hd : s.addrs a = some (h0, true)) :
    (s.newVote b h w vrf).1.addrs a = some (h0, true) ∧ (s.addrVoteInfo isNext b h).1.addrs a = some (h0, true) :=
  ⟨newVote_keeps_double hd, addrVoteInfo_keeps_double hd⟩

/-- **quorum_float_exact.** `uint32(float64(T) * 0.685)` is exactly ⌊685·T/1000⌋ for every 32-bit threshold; the 0.585
    quorum is that floor or one less (and one less does occur: `quorum585_off_by_one`). The rounding function of the model
    is a correct round-to-nearest (`rne53_upper`, `rne53_lower'` in ProofsQuorum). -/
theorem quorum_float_exact (T : Nat) (hT : T < 2 ^ 32) :
    quorum T true = 685 * T / 1000 ∧ 585 * T / 1000 - 1 ≤ quorum T false ∧ quorum T false ≤ 585 * T / 1000 :=
  ⟨quorum685_exact T hT, quorum585_bounds T hT⟩

/-- verifySortition forgives a failed credential check exactly when the vote is older than the Server's context … -/
theorem lenient_iff_server_ahead (srv m : Ctx) :
    verifySortition srv m false = true ↔ m.round < srv.round ∨ m.index < srv.index := by
  simp [verifySortition]

/-- … so a Server in the Voter's own context is strict about votes of that context. -/
theorem synced_is_strict (c : Ctx) (ok : Bool) : verifySortition c c ok = ok := by
  simp [verifySortition]

/-! ### witnesses -/

def vmsg (vt : VT) (h p s w : Nat) (cred : Cred := .valid) : Op :=
  .vote { vt := vt, ctx := ⟨32768, 1⟩, h := h, p := p, sender := s, votes := w, status := .same, T := 10, cred := cred }

def commitsOf (l : List (List Out)) : List (Bool × List Entry × List Entry) :=
  l.flatMap fun o => o.filterMap fun
    | .commit _ _ cert pc _ certs => some (cert, pc, certs)
    | _ => none

/-- F-C03a shape: certificate context, precommit quorum (3+3 ≥ 6) latched, sender 1 equivocates (its weight leaves),
    certificate quorum (5 ≥ 5) arrives. -/
def latchWitness : List Op :=
  [.context ⟨32768, 1⟩ 4 true, vmsg .precommit 1 11 1 3, vmsg .precommit 1 11 2 3, vmsg .precommit 2 12 1 3,
   vmsg .cert 1 11 2 5]

/-- the repaired Voter does not commit on the F-C03a history (test on a literal) … -/
theorem latch_no_commit : commitsOf (events latchWitness) = [] := by decide

/-- … whereas the commit of the code before the repair (no re-check of the packed sets) packed precommits of weight 3,
    which the verifier's count rejects (quorum 6): the legacy commit evaluated in the state the history reaches. -/
theorem latch_legacy_commit_rejected :
    let v := (run init latchWitness).1
    v.over 1 true .precommit = true ∧ v.over 1 true .cert = true ∧
    headerAccepted 10 10 true (votesOf v.ws v.ctx true .precommit 1) (votesOf v.ws v.ctx true .cert 1) = false := by
  decide

/-- F-C03b: with a credential accepted through the leniency (sender 2 claims weight 6, strict check fails) the commit's
    vote set is rejected by the verifier's count: `commit_verifies` needs the `Uniform` hypothesis. -/
def lenientWitness : List Op :=
  [.context ⟨32768, 1⟩ 4 false, vmsg .precommit 1 11 1 3, vmsg .precommit 1 11 2 6 .lenient]

theorem commit_verifies_lenient_counterexample :
    (commitsOf (events lenientWitness)).map (fun (c, pc, ce) => headerAccepted 10 10 c pc ce) = [false] := by
  decide

/-- non-vacuity: a uniform history with a prevote quorum, an own precommit, a precommit quorum and a commit -/
def honestWitness : List Op :=
  [.envSel .precommit (some ⟨1, .chamber, 10⟩), .context ⟨7, 1⟩ 2 false,
   .vote { vt := .prevote, ctx := ⟨7, 1⟩, h := 1, p := 11, sender := 1, votes := 3, status := .same, T := 10 },
   .vote { vt := .prevote, ctx := ⟨7, 1⟩, h := 1, p := 11, sender := 2, votes := 3, status := .same, T := 10 },
   .vote { vt := .precommit, ctx := ⟨7, 1⟩, h := 1, p := 11, sender := 1, votes := 3, status := .same, T := 10 },
   .vote { vt := .precommit, ctx := ⟨7, 1⟩, h := 1, p := 11, sender := 2, votes := 2, status := .same, T := 10 }]

example : Uniform 10 10 honestWitness := by
  intro op hop
  simp only [honestWitness, List.mem_cons, List.not_mem_nil, or_false] at hop
  rcases hop with rfl | rfl | rfl | rfl | rfl | rfl <;> simp [OpOK, thr]

example : (events honestWitness).any (fun o => o.any fun
    | .signed .precommit _ 1 _ _ => true
    | _ => false) = true := by decide

example : (commitsOf (events honestWitness)).map (fun (c, pc, ce) => headerAccepted 10 10 c pc ce) = [true] := by decide

example : Uniform 10 10 latchWitness := by
  intro op hop
  simp only [latchWitness, List.mem_cons, List.not_mem_nil, or_false] at hop
  rcases hop with rfl | rfl | rfl | rfl | rfl <;> simp [OpOK, thr, vmsg]

end YouVerif.C03
