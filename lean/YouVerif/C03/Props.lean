/-
C03 — property theorems (first instalment; grown theorem by theorem).
-/
import YouVerif.C03.Model
namespace YouVerif.C03

def vmsg (vt : VT) (h p s w : Nat) : Op :=
  .vote { vt := vt, ctx := ⟨32768, 1⟩, h := h, p := p, sender := s, votes := w, status := .same, T := 10 }

/-- F-C03a witness: certificate round, precommit quorum (3+3 ≥ 6) latched, sender 1 equivocates (its weight 3 is
    removed), certificate quorum (5 ≥ 5) arrives → commit packs precommits of weight 3 < 6. -/
def latchWitness : List Op :=
  [.context ⟨32768, 1⟩ 4 true, vmsg .precommit 1 11 1 3, vmsg .precommit 1 11 2 3, vmsg .precommit 2 12 1 3,
   vmsg .cert 1 11 2 5]

def commitsOf (l : List (List Out × Ret)) : List (Bool × List Entry × List Entry) :=
  l.flatMap fun (o, _) => o.filterMap fun
    | .commit _ _ cert pc _ certs => some (cert, pc, certs)
    | _ => none

/-- On the model of the code as it is, a commit can carry a vote set the header verifier rejects. -/
theorem latch_no_commit :
    commitsOf (run init latchWitness).2 = [] := by
  decide

end YouVerif.C03
