/-
C03 — lemmas about VoteSta (newVote / addrVoteInfo) and the wrapper ring.
-/
import YouVerif.C03.Model
namespace YouVerif.C03

/-- the counting invariant of one VoteSta -/
structure StaInv (s : VoteSta) : Prop where
  cnt : ∀ h, s.counts h = sumVotes (s.info h) % U32
  nodup : ∀ h, ((s.info h).map (·.addr)).Nodup
  mem : ∀ h e, e ∈ s.info h → s.addrs e.addr = some (h, false)

theorem StaInv.empty : StaInv VoteSta.empty :=
  ⟨fun _ => by simp [VoteSta.empty, sumVotes], fun _ => by simp [VoteSta.empty], fun _ _ h => by simp [VoteSta.empty] at h⟩

theorem sumVotes_append (l₁ l₂ : List Entry) : sumVotes (l₁ ++ l₂) = sumVotes l₁ + sumVotes l₂ := by
  induction l₁ with
  | nil => simp [sumVotes]
  | cons e l ih => simp [sumVotes, ih, Nat.add_assoc]

theorem mem_removeAddr {a : Addr} {l : List Entry} {e : Entry} : e ∈ removeAddr a l ↔ e ∈ l ∧ e.addr ≠ a := by
  simp [removeAddr, List.mem_filter]

theorem removeAddr_of_not_mem {a : Addr} {l : List Entry} (h : ∀ e ∈ l, e.addr ≠ a) : removeAddr a l = l := by
  simp only [removeAddr]
  apply List.filter_eq_self.mpr
  intro e he
  simp [h e he]

theorem removeAddr_nodup {a : Addr} {l : List Entry} (h : (l.map (·.addr)).Nodup) :
    ((removeAddr a l).map (·.addr)).Nodup := by
  simp only [removeAddr]
  exact List.Nodup.sublist (List.Sublist.map _ List.filter_sublist) h

theorem findAddr_none {a : Addr} {l : List Entry} : findAddr a l = none ↔ ∀ e ∈ l, e.addr ≠ a := by
  induction l with
  | nil => simp [findAddr]
  | cons x l ih =>
    simp only [findAddr]
    split
    · rename_i hx; simp [hx]
    · rename_i hx; simp [ih, hx]

theorem findAddr_some {a : Addr} {l : List Entry} {e : Entry} (h : findAddr a l = some e) : e ∈ l ∧ e.addr = a := by
  induction l with
  | nil => simp [findAddr] at h
  | cons x l ih =>
    simp only [findAddr] at h
    split at h
    · rename_i hx; cases h; simp [hx]
    · have := ih h; simp [this]

/-- removing the (unique) entry of `a` lowers the sum by exactly its weight -/
theorem sumVotes_remove {a : Addr} {l : List Entry} {e : Entry} (hnd : (l.map (·.addr)).Nodup)
    (hf : findAddr a l = some e) : sumVotes l = e.votes + sumVotes (removeAddr a l) := by
  induction l with
  | nil => simp [findAddr] at hf
  | cons x l ih =>
    simp only [List.map_cons, List.nodup_cons] at hnd
    simp only [findAddr] at hf
    split at hf
    · rename_i hx
      cases hf
      have hnot : ∀ y ∈ l, y.addr ≠ a := by
        intro y hy hya
        apply hnd.1
        rw [hx, ← hya]
        exact List.mem_map_of_mem hy
      have : removeAddr a (e :: l) = l := by
        simp only [removeAddr, List.filter_cons, hx, bne_self_eq_false]
        exact removeAddr_of_not_mem hnot
      rw [this]; simp [sumVotes]
    · rename_i hx
      have h1 := ih hnd.2 hf
      have : removeAddr a (x :: l) = x :: removeAddr a l := by
        simp [removeAddr, hx]
      rw [this]; simp only [sumVotes]; omega

theorem newVote_inv {s : VoteSta} (hs : StaInv s) (a : Addr) (h : Hash) (w : Nat) (vrf : Bool) :
    StaInv (s.newVote a h w vrf).1 := by
  unfold VoteSta.newVote
  split
  · exact hs
  · rename_i hnone
    have hnot : ∀ h' e, e ∈ s.info h' → e.addr ≠ a := by
      intro h' e he hea
      have := hs.mem h' e he
      rw [hea, hnone] at this; cases this
    have hrm : removeAddr a (s.info h) = s.info h := removeAddr_of_not_mem (hnot h)
    refine ⟨?_, ?_, ?_⟩
    · intro h'
      by_cases hh : h' = h
      · subst hh
        simp only [if_true, hrm, sumVotes_append, sumVotes, hs.cnt h']
        simp only [U32]; omega
      · simp [hh, hs.cnt h']
    · intro h'
      by_cases hh : h' = h
      · subst hh
        simp only [if_true, hrm, List.map_append, List.map_cons, List.map_nil]
        rw [List.nodup_append]
        refine ⟨hs.nodup h', by simp, ?_⟩
        intro x hx y hy
        simp only [List.mem_singleton] at hy
        subst hy
        obtain ⟨e, he, rfl⟩ := List.mem_map.mp hx
        exact hnot h' e he
      · simp [hh, hs.nodup h']
    · intro h' e he
      by_cases hh : h' = h
      · subst hh
        simp only [if_true, hrm, List.mem_append, List.mem_singleton] at he
        rcases he with he | he
        · have := hnot h' e he
          simp [this, hs.mem h' e he]
        · subst he; simp
      · simp only [hh, if_false] at he
        have := hnot h' e he
        simp [this, hs.mem h' e he]

/-- what newVote returns as the count is the stored count of that hash afterwards -/
theorem newVote_count (s : VoteSta) (a : Addr) (h : Hash) (w : Nat) (vrf : Bool) :
    (s.newVote a h w vrf).2.2 = (s.newVote a h w vrf).1.counts h := by
  unfold VoteSta.newVote
  split <;> simp

/-- every entry newVote leaves in the tables was there before or is the new vote -/
theorem newVote_mem {s : VoteSta} {a : Addr} {h : Hash} {w : Nat} {vrf : Bool} {h' : Hash} {e : Entry}
    (he : e ∈ (s.newVote a h w vrf).1.info h') : e ∈ s.info h' ∨ (e = ⟨a, w, vrf⟩ ∧ h' = h) := by
  unfold VoteSta.newVote at he
  split at he
  · exact Or.inl he
  · by_cases hh : h' = h
    · subst hh
      simp only [if_true, List.mem_append, List.mem_singleton] at he
      rcases he with he | he
      · exact Or.inl (mem_removeAddr.mp he).1
      · exact Or.inr ⟨he, rfl⟩
    · simp only [hh, if_false] at he
      exact Or.inl he

theorem addrVoteInfo_inv {s : VoteSta} (hs : StaInv s) (isNext : Bool) (a : Addr) (h : Hash) :
    StaInv (s.addrVoteInfo isNext a h).1 := by
  unfold VoteSta.addrVoteInfo
  split
  · exact hs
  · exact hs
  · rename_i h0 hsome
    split
    · exact hs
    · split
      · -- no entry of `a` under its first hash (cannot happen, but the code handles it)
        rename_i hfind
        have hnot0 := findAddr_none.mp hfind
        have hnot : ∀ h' e, e ∈ s.info h' → e.addr ≠ a := by
          intro h' e he hea
          have := hs.mem h' e he
          rw [hea, hsome] at this
          cases this
          exact hnot0 e he hea
        refine ⟨hs.cnt, hs.nodup, ?_⟩
        intro h' e he
        simp [hnot h' e he, hs.mem h' e he]
      · rename_i e hfind
        have ⟨hemem, hea⟩ := findAddr_some hfind
        refine ⟨?_, ?_, ?_⟩
        · intro h'
          by_cases hh : h' = h0
          · subst hh
            have hsum := sumVotes_remove (hs.nodup h') hfind
            simp only [if_true, hs.cnt h', hsum]
            simp only [U32]; omega
          · simp [hh, hs.cnt h']
        · intro h'
          by_cases hh : h' = h0
          · subst hh; simp only [if_true]; exact removeAddr_nodup (hs.nodup h')
          · simp [hh, hs.nodup h']
        · intro h' x hx
          by_cases hh : h' = h0
          · subst hh
            simp only [if_true] at hx
            have ⟨hx1, hx2⟩ := mem_removeAddr.mp hx
            simp [hx2, hs.mem h' x hx1]
          · simp only [hh, if_false] at hx
            have hxa : x.addr ≠ a := by
              intro hxa
              have := hs.mem h' x hx
              rw [hxa, hsome] at this
              cases this; exact hh rfl
            simp [hxa, hs.mem h' x hx]

/-- addrVoteInfo never adds an entry -/
theorem addrVoteInfo_mem {s : VoteSta} {isNext : Bool} {a : Addr} {h h' : Hash} {e : Entry}
    (he : e ∈ (s.addrVoteInfo isNext a h).1.info h') : e ∈ s.info h' := by
  unfold VoteSta.addrVoteInfo at he
  split at he
  · exact he
  · exact he
  · split at he
    · exact he
    · split at he
      · exact he
      · simp only at he
        split at he
        · rename_i hh; rw [hh]; exact (mem_removeAddr.mp he).1
        · exact he

/-- the double-voter rule: a second, different hash from a sender that is counted (first vote, not yet marked)
    marks it and removes it from every votesInfo of this VoteSta -/
theorem addrVoteInfo_different {s : VoteSta} (hs : StaInv s) {a : Addr} {h h0 : Hash}
    (h1 : s.addrs a = some (h0, false)) (hne : h0 ≠ h) :
    (s.addrVoteInfo false a h).2 = .different ∧
    (s.addrVoteInfo false a h).1.addrs a = some (h0, true) ∧
    ∀ h' e, e ∈ (s.addrVoteInfo false a h).1.info h' → e.addr ≠ a := by
  have hinv := addrVoteInfo_inv hs false a h
  have key : (s.addrVoteInfo false a h).2 = .different ∧ (s.addrVoteInfo false a h).1.addrs a = some (h0, true) := by
    unfold VoteSta.addrVoteInfo
    simp only [h1]
    have : ¬ (h0 = h ∨ false = true) := by simp [hne]
    simp only [this, if_false]
    split <;> simp
  refine ⟨key.1, key.2, ?_⟩
  intro h' e he hea
  have := hinv.mem h' e he
  rw [hea, key.2] at this
  cases this

/-- a sender marked DoubleVoted holds no weight (state form of `double_voter_weightless`) -/
theorem StaInv.double_weightless {s : VoteSta} (hs : StaInv s) {a : Addr} {h0 : Hash}
    (hd : s.addrs a = some (h0, true)) : ∀ h e, e ∈ s.info h → e.addr ≠ a := by
  intro h e he hea
  have := hs.mem h e he
  rw [hea, hd] at this
  cases this

/-- once marked, always marked (newVote and addrVoteInfo never clear the flag) -/
theorem newVote_keeps_double {s : VoteSta} {a b : Addr} {h h0 : Hash} {w : Nat} {vrf : Bool}
    (hd : s.addrs a = some (h0, true)) : (s.newVote b h w vrf).1.addrs a = some (h0, true) := by
  unfold VoteSta.newVote
  split
  · exact hd
  · rename_i hn
    have : a ≠ b := by intro hab; rw [hab, hn] at hd; cases hd
    simp [this, hd]

theorem addrVoteInfo_keeps_double {s : VoteSta} {a b : Addr} {h h0 : Hash} {isNext : Bool}
    (hd : s.addrs a = some (h0, true)) : (s.addrVoteInfo isNext b h).1.addrs a = some (h0, true) := by
  unfold VoteSta.addrVoteInfo
  split
  · exact hd
  · exact hd
  · rename_i h1 hs1
    have : a ≠ b := by intro hab; rw [hab, hs1] at hd; cases hd
    split
    · exact hd
    · split <;> simp [this, hd]

/-! ## ring lemmas -/

theorem getW_mem {ws : Ring} {c : Ctx} {w : Wrapper} (h : getW ws c = some w) : (c, w) ∈ ws := by
  induction ws with
  | nil => simp [getW] at h
  | cons x rest ih =>
    obtain ⟨c', w'⟩ := x
    simp only [getW] at h
    split at h
    · rename_i hc; cases h; simp [hc]
    · simp [ih h]

theorem mem_setW {ws : Ring} {c : Ctx} {w : Wrapper} {x : Ctx × Wrapper} (h : x ∈ setW ws c w) :
    x ∈ ws ∨ x.2 = w := by
  induction ws with
  | nil => simp [setW] at h
  | cons y rest ih =>
    obtain ⟨c', w'⟩ := y
    simp only [setW] at h
    split at h
    · simp only [List.mem_cons] at h
      rcases h with h | h
      · right; simp [h]
      · left; simp [h]
    · simp only [List.mem_cons] at h
      rcases h with h | h
      · left; simp [h]
      · rcases ih h with h | h
        · left; simp [h]
        · right; exact h

theorem getW_setW {ws : Ring} {c : Ctx} {w w' : Wrapper} (h : getW ws c = some w) :
    getW (setW ws c w') c = some w' := by
  induction ws with
  | nil => simp [getW] at h
  | cons y rest ih =>
    obtain ⟨c', w0⟩ := y
    simp only [getW] at h
    simp only [setW]
    split
    · rename_i hc; simp [getW, hc]
    · rename_i hc; simp only [hc, if_false] at h; simp [getW, hc, ih h]

theorem getW_setW_none {ws : Ring} {c c' : Ctx} {w' : Wrapper} (h : getW ws c = none) :
    getW (setW ws c' w') c = none := by
  induction ws with
  | nil => simp [setW, getW]
  | cons y rest ih =>
    obtain ⟨c0, w0⟩ := y
    simp only [getW] at h
    split at h
    · cases h
    · rename_i hc
      simp only [setW]
      split
      · simp [getW, hc, h]
      · simp [getW, hc, ih h]

theorem mem_newW {ws : Ring} {c : Ctx} {x : Ctx × Wrapper} (h : x ∈ newW ws c) : x ∈ ws ∨ x.2 = Wrapper.empty := by
  unfold newW at h
  split at h
  · exact Or.inl h
  · split at h
    · simp only [List.mem_append, List.mem_singleton] at h
      rcases h with h | h
      · exact Or.inl h
      · right; simp [h]
    · simp only [List.mem_append, List.mem_singleton] at h
      rcases h with h | h
      · exact Or.inl (List.mem_of_mem_drop h)
      · right; simp [h]

theorem Wrapper.set_sta (w : Wrapper) (c : Bool) (vt : VT) (s : VoteSta) (c' : Bool) (vt' : VT) :
    (w.set c vt s).sta c' vt' = if c' = c ∧ vt' = vt then s else w.sta c' vt' := rfl

end YouVerif.C03
