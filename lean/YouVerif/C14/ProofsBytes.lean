/-
C14 helper lemmas: big-endian byte strings ↔ naturals (`natOfBytesBE`, `bytesOfNatBE` of Common/Hex.lean).
-/
import YouVerif.Common.Hex
namespace YouVerif.C14
open YouVerif.Common

theorem foldl_be (l : List UInt8) (a : Nat) :
    l.foldl (fun acc b => acc * 256 + b.toNat) a = a * 256 ^ l.length + l.foldl (fun acc b => acc * 256 + b.toNat) 0 := by
  induction l generalizing a with
  | nil => simp
  | cons h t ih =>
    simp only [List.foldl_cons, List.length_cons]
    rw [ih (a * 256 + h.toNat), ih (0 * 256 + h.toNat)]
    simp only [Nat.zero_mul, Nat.zero_add, Nat.pow_succ]
    rw [Nat.add_mul, Nat.mul_assoc, Nat.mul_comm 256 (256 ^ t.length), Nat.add_assoc]

theorem nat_nil : natOfBytesBE [] = 0 := rfl

theorem nat_cons (h : UInt8) (t : List UInt8) :
    natOfBytesBE (h :: t) = h.toNat * 256 ^ t.length + natOfBytesBE t := by
  unfold natOfBytesBE
  simp only [List.foldl_cons, Nat.zero_mul, Nat.zero_add]
  exact foldl_be t h.toNat

theorem nat_append (l1 l2 : List UInt8) :
    natOfBytesBE (l1 ++ l2) = natOfBytesBE l1 * 256 ^ l2.length + natOfBytesBE l2 := by
  unfold natOfBytesBE
  rw [List.foldl_append]
  exact foldl_be l2 _

theorem nat_snoc (l : List UInt8) (d : UInt8) : natOfBytesBE (l ++ [d]) = natOfBytesBE l * 256 + d.toNat := by
  rw [nat_append]
  simp [nat_cons, nat_nil]

theorem nat_lt (l : List UInt8) : natOfBytesBE l < 256 ^ l.length := by
  induction l with
  | nil => simp [nat_nil]
  | cons h t ih =>
    rw [nat_cons, List.length_cons, Nat.pow_succ]
    have hh : h.toNat < 256 := UInt8.toNat_lt h
    have : h.toNat * 256 ^ t.length + natOfBytesBE t < (h.toNat + 1) * 256 ^ t.length := by
      rw [Nat.add_mul, Nat.one_mul]; omega
    calc _ < (h.toNat + 1) * 256 ^ t.length := this
      _ ≤ 256 * 256 ^ t.length := Nat.mul_le_mul_right _ (by omega)
      _ = 256 ^ t.length * 256 := Nat.mul_comm _ _

theorem nat_pos (h : UInt8) (t : List UInt8) (h0 : h ≠ 0) : natOfBytesBE (h :: t) ≠ 0 := by
  rw [nat_cons]
  have : h.toNat ≠ 0 := by
    intro e; apply h0; exact UInt8.toNat_inj.mp (by simpa using e)
  have hp : 0 < 256 ^ t.length := Nat.pow_pos (by decide)
  have : 0 < h.toNat * 256 ^ t.length := Nat.mul_pos (by omega) hp
  omega

/-- no leading zero byte -/
def NoLead (l : List UInt8) : Prop := l.head? ≠ some 0

theorem go_append (fuel n : Nat) (acc : List UInt8) :
    bytesOfNatBE.go fuel n acc = bytesOfNatBE.go fuel n [] ++ acc := by
  induction fuel generalizing n acc with
  | zero => simp [bytesOfNatBE.go]
  | succ f ih =>
    unfold bytesOfNatBE.go
    split
    · simp
    · rw [ih (n / 256) (_ :: acc), ih (n / 256) [_]]; simp

theorem ofNat_mod_toNat (n : Nat) : (UInt8.ofNat (n % 256)).toNat = n % 256 := by
  simp [UInt8.toNat_ofNat']

/-- value of the digits produced by `go` -/
theorem go_value (fuel n : Nat) (acc : List UInt8) (hf : n < fuel) :
    natOfBytesBE (bytesOfNatBE.go fuel n acc) = n * 256 ^ acc.length + natOfBytesBE acc := by
  induction fuel generalizing n acc with
  | zero => omega
  | succ f ih =>
    unfold bytesOfNatBE.go
    split
    · next h0 => simp [h0]
    · next h0 =>
      have hlt : n / 256 < f := by
        have : n / 256 < n := Nat.div_lt_self (by omega) (by decide)
        omega
      rw [ih (n / 256) _ hlt, nat_cons, List.length_cons, ofNat_mod_toNat, Nat.pow_succ]
      have : n / 256 * (256 ^ acc.length * 256) + n % 256 * 256 ^ acc.length = n * 256 ^ acc.length := by
        rw [Nat.mul_comm (256 ^ acc.length) 256, ← Nat.mul_assoc, ← Nat.add_mul, Nat.mul_comm (n / 256) 256,
          Nat.div_add_mod]
      omega

theorem nat_bytes (n : Nat) : natOfBytesBE (bytesOfNatBE n) = n := by
  unfold bytesOfNatBE
  rw [go_value _ _ _ (by omega)]
  simp [nat_nil]

/-- `go` rebuilds a byte string without leading zero from its value -/
theorem go_of_nat_rev (r : List UInt8) (acc : List UInt8) (fuel : Nat)
    (hl : NoLead r.reverse) (hf : natOfBytesBE r.reverse < fuel) :
    bytesOfNatBE.go fuel (natOfBytesBE r.reverse) acc = r.reverse ++ acc := by
  induction r generalizing acc fuel with
  | nil =>
    cases fuel with
    | zero => simp [bytesOfNatBE.go]
    | succ f => simp [bytesOfNatBE.go, nat_nil]
  | cons d r' ih =>
    rw [List.reverse_cons] at hl hf ⊢
    rw [nat_snoc] at hf ⊢
    cases fuel with
    | zero => omega
    | succ f =>
      have hd : d.toNat < 256 := UInt8.toNat_lt d
      have hne : natOfBytesBE r'.reverse * 256 + d.toNat ≠ 0 := by
        cases hr : r'.reverse with
        | nil =>
          rw [hr] at hl
          simp only [List.nil_append, NoLead, List.head?_cons] at hl
          have : d ≠ 0 := fun e => hl (by rw [e])
          have : d.toNat ≠ 0 := fun e => this (UInt8.toNat_inj.mp (by simpa using e))
          simp [nat_nil]; omega
        | cons h t =>
          rw [hr] at hl
          simp only [List.cons_append, NoLead, List.head?_cons] at hl
          have : h ≠ 0 := fun e => hl (by rw [e])
          have := nat_pos h t this
          omega
      unfold bytesOfNatBE.go
      rw [if_neg hne]
      have hdiv : (natOfBytesBE r'.reverse * 256 + d.toNat) / 256 = natOfBytesBE r'.reverse := by omega
      have hmod : (natOfBytesBE r'.reverse * 256 + d.toNat) % 256 = d.toNat := by omega
      rw [hdiv, hmod]
      have hd' : UInt8.ofNat d.toNat = d := by simp
      rw [hd']
      have hl' : NoLead r'.reverse := by
        cases hr : r'.reverse with
        | nil => simp [NoLead]
        | cons h t => rw [hr] at hl; simpa [NoLead] using hl
      rw [ih (d :: acc) f hl' (by omega)]
      simp

theorem bytes_nat (l : List UInt8) (hl : NoLead l) : bytesOfNatBE (natOfBytesBE l) = l := by
  have := go_of_nat_rev l.reverse [] (natOfBytesBE l + 1) (by simpa using hl) (by simp)
  simpa [bytesOfNatBE] using this

theorem go_nolead (fuel n : Nat) (acc : List UInt8) (hf : n < fuel) (hinv : n ≠ 0 ∨ NoLead acc) :
    NoLead (bytesOfNatBE.go fuel n acc) := by
  induction fuel generalizing n acc with
  | zero => omega
  | succ f ih =>
    unfold bytesOfNatBE.go
    split
    · next h0 => cases hinv with
      | inl h => exact absurd h0 h
      | inr h => exact h
    · next h0 =>
      have hlt : n / 256 < f := by
        have : n / 256 < n := Nat.div_lt_self (by omega) (by decide)
        omega
      apply ih _ _ hlt
      by_cases hq : n / 256 = 0
      · right
        have hn : n < 256 := by omega
        simp only [NoLead, List.head?_cons, ne_eq, Option.some.injEq]
        intro e
        have := congrArg UInt8.toNat e
        rw [ofNat_mod_toNat] at this
        simp at this
        omega
      · left; exact hq

theorem bytes_nolead (n : Nat) : NoLead (bytesOfNatBE n) := by
  unfold bytesOfNatBE
  exact go_nolead _ _ _ (by omega) (Or.inr (by simp [NoLead]))

theorem go_length (fuel n w : Nat) (acc : List UInt8) (hf : n < fuel) (hw : n < 256 ^ w) :
    (bytesOfNatBE.go fuel n acc).length ≤ acc.length + w := by
  induction fuel generalizing n acc w with
  | zero => omega
  | succ f ih =>
    unfold bytesOfNatBE.go
    split
    · omega
    · next h0 =>
      have hlt : n / 256 < f := by
        have : n / 256 < n := Nat.div_lt_self (by omega) (by decide)
        omega
      cases w with
      | zero => simp at hw; omega
      | succ w' =>
        have : n / 256 < 256 ^ w' := by
          rw [Nat.pow_succ] at hw
          exact Nat.div_lt_of_lt_mul (by rw [Nat.mul_comm]; exact hw)
        have := ih (n / 256) w' (UInt8.ofNat (n % 256) :: acc) hlt this
        simp only [List.length_cons] at this
        omega

theorem bytes_length_le (n w : Nat) (hw : n < 256 ^ w) : (bytesOfNatBE n).length ≤ w := by
  unfold bytesOfNatBE
  have := go_length (n + 1) n w [] (by omega) hw
  simpa using this

theorem bytes_zero : bytesOfNatBE 0 = [] := by
  simp [bytesOfNatBE, bytesOfNatBE.go]

theorem bytes_ne_nil (n : Nat) (h : n ≠ 0) : bytesOfNatBE n ≠ [] := by
  intro e
  have := nat_bytes n
  rw [e, nat_nil] at this
  omega

end YouVerif.C14
