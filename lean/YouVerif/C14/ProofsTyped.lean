/-
C14 helper lemmas: the item-level typed codec (`dec`/`enc` of Model.lean).
  dec_enc : Sound ty      → enc ty v = some i → dec ty i = .ok v        (round trip)
  enc_dec : Canonical ty  → dec ty i = .ok v  → enc ty v = some i       (accept ⇒ canonical)
both by induction on the schema, for all schemas at once.
-/
import YouVerif.C14.Model
import YouVerif.C14.ProofsBytes
namespace YouVerif.C14
open YouVerif.Common YouVerif.Common.Rlp

theorem mapOpt_mapEx {f : Val → Option Item} {g : Item → Except TErr Val}
    (h : ∀ v i, f v = some i → g i = .ok v) : ∀ vs is, mapOpt f vs = some is → mapEx g is = .ok vs := by
  intro vs
  induction vs with
  | nil => intro is e; simp [mapOpt] at e; subst e; simp [mapEx]
  | cons v vs ih =>
    intro is e
    simp only [mapOpt] at e
    split at e
    · simp at e
    · next i hi =>
      split at e
      · simp at e
      · next is' his =>
        simp at e; subst e
        simp [mapEx, h v i hi, ih is' his]

theorem mapEx_mapOpt {f : Val → Option Item} {g : Item → Except TErr Val}
    (h : ∀ i v, g i = .ok v → f v = some i) : ∀ is vs, mapEx g is = .ok vs → mapOpt f vs = some is := by
  intro is
  induction is with
  | nil => intro vs e; simp [mapEx] at e; subst e; simp [mapOpt]
  | cons i is ih =>
    intro vs e
    simp only [mapEx] at e
    split at e
    · simp at e
    · next v hv =>
      split at e
      · simp at e
      · next vs' hvs =>
        simp at e; subst e
        simp [mapOpt, h i v hv, ih vs' hvs]

theorem mapOpt_valBytes (vs : List Val) (bs : List (List UInt8)) :
    mapOpt valBytes? vs = some bs → vs = bs.map .bytes := by
  induction vs generalizing bs with
  | nil => intro e; simp [mapOpt] at e; subst e; rfl
  | cons v vs ih =>
    intro e
    simp only [mapOpt] at e
    split at e
    · simp at e
    · next b hb =>
      split at e
      · simp at e
      · next bs' hbs =>
        simp at e; subst e
        cases v <;> simp [valBytes?] at hb
        subst hb
        simp [ih bs' hbs]

theorem mapOpt_valPair (vs : List Val) (ps : List (List UInt8 × List UInt8)) :
    mapOpt valPair? vs = some ps → vs = ps.map (fun p => .list [.bytes p.1, .bytes p.2]) := by
  induction vs generalizing ps with
  | nil => intro e; simp [mapOpt] at e; subst e; rfl
  | cons v vs ih =>
    intro e
    simp only [mapOpt] at e
    split at e
    · simp at e
    · next p hp =>
      split at e
      · simp at e
      · next ps' hps =>
        simp at e; subst e
        have : v = .list [.bytes p.1, .bytes p.2] := by
          unfold valPair? at hp
          split at hp
          · simp at hp; subst hp; rfl
          · simp at hp
        subst this
        simp [ih ps' hps]

/-- every hand-modelled pair: what the encoder side admits, the decoder side maps back to itself -/
theorem cround (k : CKind) (v v' : Val) : cpre k v = some v' → cpost k v' = .ok v := by
  intro h
  cases k with
  | ident => simp [cpre] at h; subst h; rfl
  | receiptStatus =>
    simp only [cpre] at h
    split at h
    · next s rest =>
      split at h
      · next hc => simp at h; subst h; simp [cpost, hc]
      · simp at h
    · simp at h
  | expelled =>
    simp only [cpre] at h
    split at h
    · next a e =>
      split at h
      · next he =>
        simp at h; subst h
        simp only [cpost]
        have : (if e = 1 then 1 else 0) = e := by split <;> omega
        rw [this]
      · simp at h
    · simp at h
  | addrSet =>
    simp only [cpre] at h
    split at h
    · next vs =>
      split at h
      · next bs hbs =>
        split at h
        · next hso =>
          simp at h; subst h
          simp only [cpost, hbs, hso]
          rw [← mapOpt_valBytes vs bs hbs]
        · simp at h
      · simp at h
    · simp at h
  | dsMap =>
    simp only [cpre] at h
    split at h
    · next r i signs =>
      split at h
      · next ps hps =>
        split at h
        · next hso =>
          simp at h; subst h
          simp only [cpost, hps, hso]
          rw [← mapOpt_valPair signs ps hps]
        · simp at h
      · simp at h
    · simp at h

/-- the two lossless kinds: what the decoder side yields, the encoder side admits unchanged -/
theorem ccanon (k : CKind) (hk : (k == .ident || k == .receiptStatus) = true) (v0 v : Val) :
    cpost k v0 = .ok v → cpre k v = some v0 := by
  intro h
  cases k with
  | ident => simp [cpost] at h; subst h; rfl
  | receiptStatus =>
    simp only [cpost] at h
    split at h
    · next s rest =>
      split at h
      · next hc => simp at h; subst h; simp [cpre, hc]
      · simp at h
    · simp at h
  | expelled => exact absurd hk (by decide)
  | addrSet => exact absurd hk (by decide)
  | dsMap => exact absurd hk (by decide)

theorem head_ne_zero_of_nolead {b : List UInt8} (h : NoLead b) : (b.head? = some 0) = False := by
  simp [NoLead] at h; simp [h]

theorem fields_val (fs : Ty) (hf : isFields fs = true) (is : List Item) (v : Val) :
    dec fs (.list is) = .ok v → ∃ vs, v = .list vs := by
  intro h
  cases fs <;> simp [isFields] at hf
  · cases is <;> simp [dec] at h
    exact ⟨[], h.symm⟩
  · cases is with
    | nil => simp [dec] at h
    | cons i0 is =>
      simp only [dec] at h
      split at h
      · simp at h
      · split at h
        · simp at h; exact ⟨_, h.symm⟩
        · simp at h
        · simp at h

theorem fields_item (fs : Ty) (hf : isFields fs = true) (vs : List Val) (i : Item) :
    enc fs (.list vs) = some i → ∃ is, i = .list is := by
  intro h
  cases fs <;> simp [isFields] at hf
  · cases vs <;> simp [enc] at h
    exact ⟨[], h.symm⟩
  · cases vs with
    | nil => simp [enc] at h
    | cons v vs =>
      simp only [enc] at h
      split at h
      · simp at h
      · split at h
        · simp at h; exact ⟨_, h.symm⟩
        · simp at h

/-- round trip on items, all schemas at once -/
theorem dec_enc (ty : Ty) (hs : Sound ty = true) : ∀ v i, enc ty v = some i → dec ty i = .ok v := by
  induction ty with
  | uint w =>
    intro v i h
    cases v <;> simp [enc] at h
    next n =>
      obtain ⟨hn, rfl⟩ := h
      have h1 := bytes_length_le n w hn
      have h2 := bytes_nolead n
      simp [NoLead] at h2
      simp [dec, h2, nat_bytes]; omega
  | bigint =>
    intro v i h
    cases v <;> simp [enc] at h
    next n =>
      subst h
      have h2 := bytes_nolead n
      simp [NoLead] at h2
      simp [dec, h2, nat_bytes]
  | bool =>
    intro v i h
    cases v <;> simp [enc] at h
    next n =>
      split at h
      · next h0 => simp at h; subst h; subst h0; simp [dec]
      · split at h
        · next h1 => simp at h; subst h; subst h1; simp [dec]
        · simp at h
  | bytes =>
    intro v i h
    cases v <;> simp [enc] at h
    subst h; simp [dec]
  | fixed n =>
    intro v i h
    cases v <;> simp [enc] at h
    obtain ⟨hn, rfl⟩ := h
    simp [dec, hn]
  | list t ih =>
    intro v i h
    simp only [Sound] at hs
    cases v <;> simp [enc] at h
    next vs =>
      split at h
      · next is his =>
        simp at h; subst h
        simp [dec, mapOpt_mapEx (ih hs) vs is his]
      · simp at h
  | snil =>
    intro v i h
    cases v <;> (try simp [enc] at h)
    next vs =>
      cases vs <;> simp [enc] at h
      subst h; simp [dec]
  | scons f r ihf ihr =>
    intro v i h
    simp only [Sound, Bool.and_eq_true] at hs
    cases v <;> (try simp [enc] at h)
    next vs =>
      cases vs with
      | nil => simp [enc] at h
      | cons v vs =>
        simp only [enc] at h
        split at h
        · simp at h
        · next i0 hi0 =>
          split at h
          · next is his =>
            simp at h; subst h
            simp [dec, ihf hs.1 v i0 hi0, ihr hs.2 (.list vs) (.list is) his]
          · simp at h
  | struct fs ih =>
    intro v i h
    simp only [Sound, Bool.and_eq_true] at hs
    cases v <;> simp [enc] at h
    next vs =>
      have hi := ih hs.1 (.list vs) i h
      obtain ⟨is, rfl⟩ := fields_item fs hs.2 vs i h
      simpa [dec] using hi
  | ptr t ih =>
    intro v i h
    simp only [Sound] at hs
    have : enc t v = some i := by
      cases v <;> simpa [enc] using h
    have := ih hs v i this
    simpa [dec] using this
  | nilptr t _ =>
    intro v i h
    simp only [Sound] at hs
    cases t <;> simp at hs
    next n =>
      cases v <;> simp [enc, nilIsList] at h
      · subst h; simp [dec, nilIsList]
      · next v =>
        cases v <;> simp [enc] at h
        next b =>
          obtain ⟨hb, rfl⟩ := h
          have hne : b ≠ [] := by intro e; subst e; simp at hb; exact hs hb.symm
          cases b with
          | nil => exact absurd rfl hne
          | cons x xs => simp [dec, hb]
  | custom k w ih =>
    intro v i h
    simp only [Sound] at hs
    have h' : ∃ v', cpre k v = some v' ∧ enc w v' = some i := by
      cases v <;> simp only [enc] at h <;> (split at h <;> first | exact ⟨_, ‹_›, h⟩ | simp at h)
    obtain ⟨v', hp, he⟩ := h'
    simp [dec, ih hs v' i he, cround k v v' hp]

/-- accept ⇒ canonical on items, all canonical schemas at once -/
theorem enc_dec (ty : Ty) (hc : Canonical ty = true) : ∀ i v, dec ty i = .ok v → enc ty v = some i := by
  induction ty with
  | uint w =>
    intro i v h
    cases i <;> simp [dec] at h
    next b =>
      split at h
      · simp at h
      · next hl =>
        split at h
        · simp at h
        · next hz =>
          simp at h; subst h
          have hn : NoLead b := by simpa [NoLead] using hz
          have h1 := nat_lt b
          have h2 : 256 ^ b.length ≤ 256 ^ w := Nat.pow_le_pow_right (by decide) (by omega)
          simp [enc, bytes_nat b hn]; omega
  | bigint =>
    intro i v h
    cases i <;> simp [dec] at h
    next b =>
      split at h
      · simp at h
      · next hz =>
        simp at h; subst h
        have hn : NoLead b := by simpa [NoLead] using hz
        simp [enc, bytes_nat b hn]
  | bool =>
    intro i v h
    cases i <;> simp [dec] at h
    next b =>
      split at h
      · next h0 => simp at h; subst h; subst h0; simp [enc]
      · split at h
        · next h1 => simp at h; subst h; subst h1; simp [enc]
        · split at h
          · simp at h
          · split at h <;> simp at h
  | bytes =>
    intro i v h
    cases i <;> simp [dec] at h
    subst h; simp [enc]
  | fixed n =>
    intro i v h
    cases i <;> simp only [dec] at h
    · next b =>
      split at h
      · next hn => simp at h; subst h; simp [enc, hn]
      · simp at h
    · simp at h
  | list t ih =>
    intro i v h
    simp only [Canonical] at hc
    cases i <;> simp [dec] at h
    next is =>
      split at h
      · next vs hvs =>
        simp at h; subst h
        simp [enc, mapEx_mapOpt (ih hc) is vs hvs]
      · simp at h
  | snil =>
    intro i v h
    cases i <;> (try simp [dec] at h)
    next is =>
      cases is <;> simp [dec] at h
      subst h; simp [enc]
  | scons f r ihf ihr =>
    intro i v h
    simp only [Canonical, Bool.and_eq_true] at hc
    cases i <;> (try simp [dec] at h)
    next is =>
      cases is with
      | nil => simp [dec] at h
      | cons i0 is =>
        simp only [dec] at h
        split at h
        · simp at h
        · next v0 hv0 =>
          split at h
          · next vs hvs =>
            simp at h; subst h
            simp [enc, ihf hc.1 i0 v0 hv0, ihr hc.2 (.list is) (.list vs) hvs]
          · simp at h
          · simp at h
  | struct fs ih =>
    intro i v h
    simp only [Canonical, Bool.and_eq_true] at hc
    cases i <;> simp [dec] at h
    next is =>
      have hv := ih hc.1 (.list is) v h
      obtain ⟨vs, rfl⟩ := fields_val fs hc.2 is v h
      simpa [enc] using hv
  | ptr t ih =>
    intro i v h
    simp only [Canonical] at hc
    have : dec t i = .ok v := by simpa [dec] using h
    have := ih hc i v this
    cases v <;> simpa [enc] using this
  | nilptr t ih =>
    intro i v h
    simp only [Canonical, Bool.and_eq_true] at hc
    simp only [dec] at h
    split at h
    · split at h
      · simp at h
      · next hnl => simp at h; subst h; simp [enc, hnl]
    · split at h
      · next hnl => simp at h; subst h; simp [enc, hnl]
      · simp at h
    · split at h
      · next v0 hv0 => simp at h; subst h; simp [enc, ih hc.1 i v0 hv0]
      · simp at h
  | custom k w ih =>
    intro i v h
    simp only [Canonical, Bool.and_eq_true] at hc
    simp only [dec] at h
    split at h
    · next v0 hv0 =>
      have h1 := ccanon k hc.1 v0 v h
      have h2 := ih hc.2 i v0 hv0
      cases v <;> simp [enc, h1, h2]
    · simp at h

end YouVerif.C14
