/-
C14 — RLP encoding is canonical, round-trips, and decoding hostile bytes is safe.  Property theorems only;
helper lemmas are in ProofsBytes / ProofsUntyped / ProofsTyped.

Objects: `Rlp.decode`/`Rlp.encode` (Common/Rlp.lean: the model of rlp.Stream's checks, tied to the real package
by correspondence), `decT`/`encT` (Model.lean: the typed codec driven by a schema), `Gen.schemas`
(GenSchemas.lean: regenerated from /repo's Go types on every run).
-/
import YouVerif.C14.Model
import YouVerif.C14.GenSchemas
import YouVerif.C14.GenEntryPoints
import YouVerif.C14.ProofsUntyped
import YouVerif.C14.ProofsTyped
namespace YouVerif.C14.Props
open YouVerif.Common YouVerif.Common.Rlp YouVerif.C14

/-! ## untyped layer: every byte string, every item -/

/-- A successful decode of one item consumes exactly the canonical encoding of that item: the input is
`encode i ++ rest`.  (Holds for any fuel.) -/
theorem decodeItem_sound (fuel : Nat) (bs : List UInt8) (i : Item) (rest : List UInt8) :
    decodeItem fuel bs = .ok (i, rest) → bs = encode i ++ rest :=
  decodeItem_sound' fuel bs i rest

/-- accept ⇒ canonical, for every byte string: what `decode` accepts is exactly the encoding of what it returns
(so equal items have one accepted encoding, hence one hash). -/
theorem encode_decode (bs : List UInt8) (i : Item) : decode bs = .ok i → encode i = bs := by
  intro h
  unfold decode at h
  split at h
  · simp at h
  · next i' hd =>
    simp at h; subst h
    have := decodeItem_sound' _ _ _ _ hd
    simpa using this.symm
  · simp at h

/-- round trip, for every item whose encoding is shorter than 2^64 bytes — the sizes 8 length bytes (and Go's
uint64 stream sizes) can express; without a size bound the statement is false of any RLP implementation. -/
theorem decode_encode (i : Item) (h : (encode i).length < 2 ^ 64) : decode (encode i) = .ok i := by
  have hf := fits_of_len i h
  have hn := need_le i
  have := (complete_both (2 * (encode i).length + 2)).1 i [] hf (by omega)
  simp only [List.append_nil] at this
  simp [decode, this]

/-- the size guard, logically: every size the decoder accepts is covered by the input that is left — the item's
encoding plus the untouched rest is the whole input, never more. -/
theorem decode_consumes_bounded (fuel : Nat) (bs : List UInt8) (i : Item) (rest : List UInt8) :
    decodeItem fuel bs = .ok (i, rest) → (encode i).length + rest.length = bs.length := by
  intro h
  have := decodeItem_sound' fuel bs i rest h
  rw [this]; simp

/-- every size the header reader accepts fits Go's uint64 (at most 8 length bytes) and a header is at most 9 bytes:
the model's unbounded `Nat` sizes never leave the range rlp.Stream computes in. -/
theorem header_size_fits_uint64 (bs : List UInt8) (isList : Bool) (n h : Nat) :
    decodeHeader bs = .ok (isList, n, h) → n < 2 ^ 64 ∧ h ≤ 9 :=
  hdr_fits bs isList n h

/-- what a decoder has to allocate for an accepted input (payload bytes + one unit per node) is at most twice the
input length: no accepted size field can demand memory far beyond the input. -/
theorem decode_weight_le (bs : List UInt8) (i : Item) : decode bs = .ok i → weight i ≤ 2 * bs.length := by
  intro h
  have := encode_decode bs i h
  rw [← this]
  exact weight_le i

/-! ## typed layer: every schema at once (induction on `Ty`) -/

/-- round trip for every schema: a value in the encoder's domain decodes back to itself.
`Sound` only asks that struct bodies are field lists and `rlp:"nil"` pointers point to non-empty byte arrays. -/
theorem typed_roundtrip (ty : Ty) (hs : Sound ty = true) (v : Val) (bs : List UInt8)
    (he : encT ty v = some bs) (hlen : bs.length < 2 ^ 64) : decT ty bs = .ok v := by
  unfold encT at he
  cases hi : enc ty v with
  | none => simp [hi] at he
  | some i =>
    simp [hi] at he; subst he
    simp [decT, decode_encode i hlen, dec_enc ty hs v i hi]

/-- accept ⇒ canonical for every canonical schema: accepted bytes are exactly the encoding of the decoded value. -/
theorem typed_canonical (ty : Ty) (hc : Canonical ty = true) (bs : List UInt8) (v : Val) :
    decT ty bs = .ok v → encT ty v = some bs := by
  intro h
  unfold decT at h
  split at h
  · simp at h
  · next i hi =>
    have h1 := enc_dec ty hc i v h
    have h2 := encode_decode bs i hi
    simp [encT, h1, h2]

/-- consequence: under a canonical schema two accepted byte strings with equal values are equal (one encoding, one hash) -/
theorem typed_unique_encoding (ty : Ty) (hc : Canonical ty = true) (bs1 bs2 : List UInt8) (v : Val) :
    decT ty bs1 = .ok v → decT ty bs2 = .ok v → bs1 = bs2 := by
  intro h1 h2
  have e1 := typed_canonical ty hc bs1 v h1
  have e2 := typed_canonical ty hc bs2 v h2
  rw [e1] at e2; exact Option.some.inj e2

/-! ## the generated table (decided over the finite list regenerated from /repo) -/

/-- every generated schema is well-shaped for the round-trip theorem -/
theorem sound_schemas : ∀ p ∈ Gen.schemas, Sound p.2 = true := by decide

/-- `Canonical` fails for exactly the schemas the translator listed (those containing one of the three lossy
hand-written codecs) and holds for all others. -/
theorem canonical_schemas :
    ∀ p ∈ Gen.schemas, Canonical p.2 = !(Gen.nonCanonicalNames.contains p.1) := by decide

theorem typed_roundtrip_generated : ∀ p ∈ Gen.schemas, ∀ v bs,
    encT p.2 v = some bs → bs.length < 2 ^ 64 → decT p.2 bs = .ok v :=
  fun p hp v bs => typed_roundtrip p.2 (sound_schemas p hp) v bs

/-- even for the non-canonical codecs the re-encoding is a fixed point: whatever any of the 52 schemas decodes, the
encoding of that value decodes to the same value again (decode ∘ encode ∘ decode = decode). -/
theorem typed_reencoding_stable : ∀ p ∈ Gen.schemas, ∀ bs v bs',
    decT p.2 bs = .ok v → encT p.2 v = some bs' → bs'.length < 2 ^ 64 → decT p.2 bs' = .ok v :=
  fun p hp _ v bs' _ he hl => typed_roundtrip p.2 (sound_schemas p hp) v bs' he hl

/-- the full statement: every generated wire/disk schema accepts only canonical bytes.  FALSE of the code that exists
(see the three `_counterexample`s); kept visible. -/
def typed_canonical_generated_statement : Prop :=
  ∀ p ∈ Gen.schemas, ∀ bs v, decT p.2 bs = .ok v → encT p.2 v = some bs

/-- what is true: all generated schemas outside the listed ones -/
theorem typed_canonical_generated_partial : ∀ p ∈ Gen.schemas, Gen.nonCanonicalNames.contains p.1 = false →
    ∀ bs v, decT p.2 bs = .ok v → encT p.2 v = some bs := by
  intro p hp hn bs v
  have := canonical_schemas p hp
  rw [hn] at this
  exact typed_canonical p.2 this bs v

/-! ## decode entry points (regenerated go/ast scan of the anchored packages) -/

/-- The call sites that may read ONE value through a reader/stream that does not check that the input is used up, with
the reason each is tolerated. Everything else must go through `rlp.DecodeBytes` (exhaustive: this is the `Rlp.decode` of
the theorems above, trailing bytes = `Err.trailing`) or be a nested `Decode` inside a `DecodeRLP` method. -/
def nonExhaustiveAllowed : List (String × String) := [
  -- local database / hash-verified trie leaves written by the node's own (canonical) encoder
  ("consensus/ucon/vote_cache.go", "ReadVoteData"),
  ("core/rawdb/accessors_chain.go", "ReadBody"),
  ("core/rawdb/accessors_chain.go", "ReadHeader"),
  ("core/state/iterator.go", "NodeIterator.step"),
  ("core/state/sync.go", "NewStateSync"),
  -- the p2p envelope (go-ethereum's Msg.Decode): decoded values are re-encoded before being stored or relayed, the raw
  -- envelope is never kept; out of the harness' reach (package you / p2p cannot be linked under Go 1.23)
  ("p2p/message.go", "Msg.Decode"),
  ("you/handler.go", "ProtocolManager.handleBlockBodiesMsg"),
  ("you/handler.go", "ProtocolManager.handleGetBlockBodiesMsg"),
  ("you/handler.go", "ProtocolManager.handleGetBlockMsg"),
  ("you/handler.go", "ProtocolManager.handleGetHeadersMsg"),
  ("you/handler.go", "ProtocolManager.handleGetNodeDataMsg"),
  ("you/handler.go", "ProtocolManager.handleGetReceiptsMsg"),
  ("you/handler.go", "ProtocolManager.handleNewBlockHashMsg"),
  ("you/handler.go", "ProtocolManager.handleNewBlockMsg"),
  ("you/handler.go", "ProtocolManager.handleNewTxMsg"),
  ("you/handler.go", "ProtocolManager.handleNodeDataMsg"),
  ("you/handler.go", "ProtocolManager.handleReceiptsMsg"),
  ("you/handler.go", "ProtocolManager.handleReceiveHeadersMsg"),
  ("you/peer.go", "peer.readStatus"),
  -- extracts the byte string that carries the consensus message; only that string goes on to ucon.Decode (exhaustive)
  ("you/ucon_handler.go", "UConProtocolManager.handleMsg")]

/-- No anchored entry point outside the allow-list decodes through a non-exhaustive reader: in particular the consensus
message (`ucon.Decode`, `Message.DecodePayload`), header consensus/validator/slash data, evidences, staking messages and
their payloads, log data, and every state/validator reload use `rlp.DecodeBytes`. -/
theorem entry_points_exhaustive :
    Gen.decodeSites.all (fun s => s.kind == .exhaustive || s.kind == .inner ||
      nonExhaustiveAllowed.contains (s.file, s.fn)) = true := by decide

/-! ## the non-canonical codecs: negation proved on the model with concrete witnesses (replayed on the real code by
the harness probes F-C14a…c) -/

/-- executable check: `bs` is accepted and re-encodes to something else -/
def nonCanonWitness (ty : Ty) (bs : List UInt8) : Bool :=
  match decT ty bs with
  | .ok v => decide (encT ty v ≠ some bs)
  | .error _ => false

theorem witness_spec (ty : Ty) (bs : List UInt8) (h : nonCanonWitness ty bs = true) :
    ∃ v, decT ty bs = .ok v ∧ encT ty v ≠ some bs := by
  unfold nonCanonWitness at h
  split at h
  · next v hv => exact ⟨v, hv, by simpa using h⟩
  · simp at h

/-- F-C14d (fixed in /repo by d3120fe): a transaction whose recipient is the empty LIST 0xC0 used to be accepted as
a contract creation and re-encoded with 0x80 (rlp:"nil" pointer decoder); the repaired decoder, and so the model,
rejects it, and every schema containing a transaction is canonical again.  (test on a literal) -/
def txWitness : List UInt8 := [0xc9, 0x80, 0x80, 0x80, 0xc0, 0x80, 0x80, 0x80, 0x80, 0x80]
def rejectsWith (ty : Ty) (bs : List UInt8) (e : TErr) : Bool :=
  match decT ty bs with
  | .error e' => decide (e' = e)
  | .ok _ => false
example : rejectsWith Gen.types_Transaction txWitness .wrongNilKind = true := by decide
example : Canonical Gen.types_Transaction = true ∧ Canonical Gen.types_Block = true := by decide

/-- F-C14b: a validator index listing the same address twice is accepted and re-encodes with one entry. -/
def indexWitness : List UInt8 :=
  [0xea, 0x94] ++ List.replicate 20 0x11 ++ [0x94] ++ List.replicate 20 0x11
theorem addrSet_counterexample : ∃ v, decT Gen.state_ValidatorIndex indexWitness = .ok v ∧ encT Gen.state_ValidatorIndex v ≠ some indexWitness :=
  witness_spec _ _ (by decide)

/-- F-C14c: double-sign evidence with a 1-byte "hash" is accepted and re-encodes with the hash padded to 32 bytes. -/
def doubleSignWitness : List UInt8 := [0xc6, 0x80, 0x80, 0xc3, 0xc2, 0x07, 0x80]
theorem dsMap_counterexample : ∃ v, decT Gen.staking_EvidenceDoubleSign doubleSignWitness = .ok v ∧ encT Gen.staking_EvidenceDoubleSign v ≠ some doubleSignWitness :=
  witness_spec _ _ (by decide)

/-- F-C14a: a validator record ending in Expelled = 2 is accepted and re-encodes with Expelled = 0. -/
def validatorWitness : List UInt8 :=
  [0xf8, 0x42, 0xf8, 0x3f, 0x80, 0x94] ++ List.replicate 20 0x22 ++ [0x94] ++ List.replicate 20 0x33 ++
  [0x80, 0x80, 0x80, 0x80, 0x80, 0x80, 0x80, 0x80, 0x80, 0x80, 0x80, 0x80, 0x80, 0x80, 0x80, 0x80, 0xc0, 0xc2, 0x80, 0x80] ++ [0x02]
theorem expelled_counterexample : ∃ v, decT Gen.state_Validator validatorWitness = .ok v ∧ encT Gen.state_Validator v ≠ some validatorWitness :=
  witness_spec _ _ (by decide)

/-- hence the full statement is false of the code that exists -/
theorem typed_canonical_generated_false : ¬ typed_canonical_generated_statement := by
  intro h
  obtain ⟨v, hd, hne⟩ := addrSet_counterexample
  exact hne (h ("state.ValidatorIndex", Gen.state_ValidatorIndex) (by simp [Gen.schemas]) indexWitness v hd)

/-! ## non-vacuity (tests on literals, labelled as such) -/

-- the hypotheses of `typed_roundtrip` are met by a real header-sized schema and a concrete value
example : Sound Gen.types_Header = true := by decide
example : encT Gen.you_HashOrNumber (.list [.bytes (List.replicate 32 7), .num 300]) =
    some ([0xe4, 0xa0] ++ List.replicate 32 7 ++ [0x82, 0x01, 0x2c]) := by decide
-- `typed_canonical` applies to e.g. the header, the consensus payloads and the staking messages
example : Canonical Gen.types_Header = true ∧ Canonical Gen.ucon_Message = true ∧ Canonical Gen.staking_Message = true := by decide
-- `decode` rejects each non-canonical form (tests)
example : decode [0x81, 0x05] = .error .nonCanonicalByte := rfl
example : decode [0xb8, 0x01, 0xff] = .error .nonCanonicalSize := rfl
example : decode [0xb9, 0x00, 0x40] = .error .nonCanonicalSize := rfl
example : decode [0xbf, 0xff, 0xff, 0xff, 0xff, 0xff, 0xff, 0xff, 0xff] = .error .tooLarge := rfl
example : decode [0xc2, 0x83, 0x01] = .error .tooLarge := rfl
example : decode [0xc1, 0x80, 0x80] = .error .trailing := rfl

end YouVerif.C14.Props
