import YouVerif.C14.Model
import YouVerif.C14.GenSchemas
namespace YouVerif.C14.Props
open YouVerif.C14

/-- Every generated schema is `Canonical` except exactly the ones the translator listed. -/
theorem canonical_schemas :
    ∀ p ∈ Gen.schemas, Canonical p.2 = !(Gen.nonCanonicalNames.contains p.1) := by decide

end YouVerif.C14.Props
