/-
C14 — typed RLP layer over the untyped model of YouVerif/Common/Rlp.lean.

`Ty` mirrors what rlp/typecache.go + makeDecoder/makeWriter derive from a Go type (the schema of every
wire/disk type is regenerated from /repo by `c14 gen` into GenSchemas.lean).  The typed codec is
modelled in two phases, which is faithful for every schema without `rlp.RawValue` (none of the
in-scope types has one; the translator refuses them):

    decT ty bs = Rlp.decode bs  >>=  dec ty          encT ty v = (enc ty v).map Rlp.encode

`dec`/`enc` work on the untyped item tree.  Hand-written `DecodeRLP/EncodeRLP` pairs are `custom k wire`
nodes: the struct they hand to `s.Decode`/`rlp.Encode` (`wire`, regenerated where reflect can reach it)
plus a value-level post/pre-processing step named by `k` (hand model, tied by correspondence).

Struct field lists are cons cells of `Ty` itself (`scons`/`snil`) so that `Ty` is a plain inductive
and every function below is structurally recursive (kernel-reducible, `decide`-able).
Core Lean only.
-/
import YouVerif.Common.Rlp
namespace YouVerif.C14
open YouVerif.Common YouVerif.Common.Rlp

/-- value-level behaviour of a hand-written DecodeRLP/EncodeRLP pair around its wire struct -/
inductive CKind where
  | ident          -- copies the fields (Block, Transaction, Log, Message, LogData, SlashData, ValKindStat, …)
  | receiptStatus  -- Receipt.setStatus: first field must be [] | [01] | 32 bytes
  | expelled       -- Validator: wire [alias, uint8]; decoder keeps only `== 1`
  | addrSet        -- ValidatorIndex: wire list of addresses, stored in a set, encoder sorts
  | dsMap          -- EvidenceDoubleSign: wire [round, index, [[hash, sign]…]] stored in map[Hash][]byte
  deriving Repr, DecidableEq, BEq

inductive Ty where
  | uint (width : Nat)          -- uintN, width in bytes (1, 2, 4, 8)
  | bigint                      -- *big.Int / big.Int
  | bool
  | bytes                       -- []byte, string
  | fixed (n : Nat)             -- [n]byte
  | list (elem : Ty)            -- slice of non-byte elements
  | snil                        -- end of a struct's field list
  | scons (field : Ty) (rest : Ty)
  | struct (fields : Ty)        -- fields = scons … snil
  | ptr (elem : Ty)             -- pointer without tag: transparent on the wire (decoder allocates)
  | nilptr (elem : Ty)          -- pointer field tagged rlp:"nil"
  | custom (k : CKind) (wire : Ty)
  deriving Repr, DecidableEq, BEq

inductive Val where
  | num (n : Nat)
  | bytes (b : List UInt8)
  | list (vs : List Val)
  | nil                         -- nil pointer (only under `nilptr`)
  | some (v : Val)              -- non-nil pointer under `nilptr`
  deriving Repr, BEq, Inhabited

inductive TErr where
  | untyped (e : Rlp.Err)
  | expectedString | expectedList | canonInt | overflow | badBool | wrongSize
  | tooFew | tooMany | badStatus | badSchema | wrongNilKind
  deriving Repr, BEq, DecidableEq

/-! ### helpers -/

def mapEx {α β ε : Type} (f : α → Except ε β) : List α → Except ε (List β)
  | [] => .ok []
  | a :: as =>
    match f a with
    | .error e => .error e
    | .ok b =>
      match mapEx f as with
      | .error e => .error e
      | .ok bs => .ok (b :: bs)

def mapOpt {α β : Type} (f : α → Option β) : List α → Option (List β)
  | [] => some []
  | a :: as =>
    match f a with
    | none => none
    | some b =>
      match mapOpt f as with
      | none => none
      | some bs => some (b :: bs)

/-- lexicographic `<` on byte strings (bytes.Compare < 0) -/
def bytesLt : List UInt8 → List UInt8 → Bool
  | [], [] => false
  | [], _ :: _ => true
  | _ :: _, [] => false
  | a :: as, b :: bs => if a.toNat < b.toNat then true else if b.toNat < a.toNat then false else bytesLt as bs

def insertUniq (x : List UInt8) : List (List UInt8) → List (List UInt8)
  | [] => [x]
  | y :: ys => if bytesLt x y then x :: y :: ys else if bytesLt y x then y :: insertUniq x ys else y :: ys

def sortUniq (l : List (List UInt8)) : List (List UInt8) := l.foldl (fun acc x => insertUniq x acc) []

def strictSorted : List (List UInt8) → Bool
  | [] => true
  | [_] => true
  | a :: b :: r => bytesLt a b && strictSorted (b :: r)

/-- common.BytesToHash: keep the last 32 bytes, left-pad with zeros -/
def toHash32 (b : List UInt8) : List UInt8 :=
  if b.length ≥ 32 then b.drop (b.length - 32) else List.replicate (32 - b.length) 0 ++ b

/-- map insert (later entry wins), kept sorted by key -/
def mapInsert (k v : List UInt8) : List (List UInt8 × List UInt8) → List (List UInt8 × List UInt8)
  | [] => [(k, v)]
  | (k', v') :: r =>
    if bytesLt k k' then (k, v) :: (k', v') :: r
    else if bytesLt k' k then (k', v') :: mapInsert k v r
    else (k, v) :: r

def keysSorted : List (List UInt8 × List UInt8) → Bool
  | [] => true
  | [_] => true
  | a :: b :: r => bytesLt a.1 b.1 && keysSorted (b :: r)

def valBytes? : Val → Option (List UInt8)
  | .bytes b => some b
  | _ => none

def valPair? : Val → Option (List UInt8 × List UInt8)
  | .list [.bytes k, .bytes v] => some (k, v)
  | _ => none

/-! ### custom pairs: value-level post-processing of the decoder, pre-processing of the encoder -/

def cpost : CKind → Val → Except TErr Val
  | .ident, v => .ok v
  | .receiptStatus, v =>
    match v with
    | .list (.bytes s :: rest) =>
      if s = [] ∨ s = [1] ∨ s.length = 32 then .ok (.list (.bytes s :: rest)) else .error .badStatus
    | _ => .error .badSchema
  | .expelled, v =>
    match v with
    | .list [a, .num e] => .ok (.list [a, .num (if e = 1 then 1 else 0)])
    | _ => .error .badSchema
  | .addrSet, v =>
    match v with
    | .list vs =>
      match mapOpt valBytes? vs with
      | some bs => .ok (.list ((sortUniq bs).map .bytes))
      | none => .error .badSchema
    | _ => .error .badSchema
  | .dsMap, v =>
    match v with
    | .list [r, i, .list signs] =>
      match mapOpt valPair? signs with
      | some ps =>
        let m := ps.foldl (fun acc p => mapInsert (toHash32 p.1) p.2 acc) []
        .ok (.list [r, i, .list (m.map fun p => .list [.bytes p.1, .bytes p.2])])
      | none => .error .badSchema
    | _ => .error .badSchema

/-- encoder side: the values the Go type can hold (none = not a value of the type) -/
def cpre : CKind → Val → Option Val
  | .ident, v => some v
  | .receiptStatus, v =>
    match v with
    | .list (.bytes s :: rest) =>
      if s = [] ∨ s = [1] ∨ s.length = 32 then some (.list (.bytes s :: rest)) else none
    | _ => none
  | .expelled, v =>
    match v with
    | .list [a, .num e] => if e ≤ 1 then some (.list [a, .num e]) else none
    | _ => none
  | .addrSet, v =>
    match v with
    | .list vs =>
      match mapOpt valBytes? vs with
      | some bs => if sortUniq bs = bs then some (.list vs) else none   -- the set's sorted listing
      | none => none
    | _ => none
  | .dsMap, v =>
    match v with
    | .list [r, i, .list signs] =>
      match mapOpt valPair? signs with
      | some ps =>   -- a map listing: sorted by 32-byte key, one entry per key
        if ps.foldl (fun acc p => mapInsert (toHash32 p.1) p.2 acc) [] = ps then some (.list [r, i, .list signs]) else none
      | none => none
    | _ => none

/-! ### item-level typed decoder / encoder -/

/-- is the element's nil encoding the empty list (struct/slice/array) rather than the empty string -/
def nilIsList : Ty → Bool
  | .list _ | .struct _ | .scons _ _ | .snil => true
  | .custom _ w => nilIsList w
  | _ => false

def dec : Ty → Item → Except TErr Val
  | .uint w, .str b =>
    if b.length > w then .error .overflow
    else if b.head? = some 0 then .error .canonInt
    else .ok (.num (natOfBytesBE b))
  | .uint _, .list _ => .error .expectedString
  | .bigint, .str b => if b.head? = some 0 then .error .canonInt else .ok (.num (natOfBytesBE b))
  | .bigint, .list _ => .error .expectedString
  | .bool, .str b =>
    if b = [] then .ok (.num 0) else if b = [1] then .ok (.num 1)
    else if b.length > 1 then .error .overflow else if b = [0] then .error .canonInt else .error .badBool
  | .bool, .list _ => .error .expectedString
  | .bytes, .str b => .ok (.bytes b)
  | .bytes, .list _ => .error .expectedString
  | .fixed n, .str b => if b.length = n then .ok (.bytes b) else .error .wrongSize
  | .fixed _, .list _ => .error .expectedString
  | .list t, .list is =>
    match mapEx (dec t) is with
    | .ok vs => .ok (.list vs)
    | .error e => .error e
  | .list _, .str _ => .error .expectedList
  | .snil, .list [] => .ok (.list [])
  | .snil, .list (_ :: _) => .error .tooMany
  | .snil, .str _ => .error .badSchema
  | .scons _ _, .list [] => .error .tooFew
  | .scons f r, .list (i :: is) =>
    match dec f i with
    | .error e => .error e
    | .ok v =>
      match dec r (.list is) with
      | .ok (.list vs) => .ok (.list (v :: vs))
      | .ok _ => .error .badSchema
      | .error e => .error e
  | .scons _ _, .str _ => .error .badSchema
  | .struct fs, .list is => dec fs (.list is)
  | .struct _, .str _ => .error .expectedList
  | .ptr t, i => dec t i
  | .nilptr t, i =>
    -- makeOptionalPtrDecoder (after fix d3120fe): an empty value is nil only if it is the kind the encoder writes
    -- for a nil pointer of this element type; the other empty kind is an error
    match i with
    | .str [] => if nilIsList t then .error .wrongNilKind else .ok .nil
    | .list [] => if nilIsList t then .ok .nil else .error .wrongNilKind
    | i =>
      match dec t i with
      | .ok v => .ok (.some v)
      | .error e => .error e
  | .custom k w, i =>
    match dec w i with
    | .ok v => cpost k v
    | .error e => .error e

def enc : Ty → Val → Option Item
  | .uint w, .num n => if n < 256 ^ w then some (.str (bytesOfNatBE n)) else none
  | .bigint, .num n => some (.str (bytesOfNatBE n))
  | .bool, .num n => if n = 0 then some (.str []) else if n = 1 then some (.str [1]) else none
  | .bytes, .bytes b => some (.str b)
  | .fixed n, .bytes b => if b.length = n then some (.str b) else none
  | .list t, .list vs =>
    match mapOpt (enc t) vs with
    | some is => some (.list is)
    | none => none
  | .snil, .list [] => some (.list [])
  | .scons f r, .list (v :: vs) =>
    match enc f v with
    | none => none
    | some i =>
      match enc r (.list vs) with
      | some (.list is) => some (.list (i :: is))
      | _ => none
  | .struct fs, .list vs => enc fs (.list vs)
  | .ptr t, v => enc t v
  | .nilptr t, .nil => if nilIsList t then some (.list []) else some (.str [])
  | .nilptr t, .some v => enc t v
  | .custom k w, v =>
    match cpre k v with
    | some v' => enc w v'
    | none => none
  | _, _ => none

/-- rlp.DecodeBytes into a value of schema `ty` -/
def decT (ty : Ty) (bs : List UInt8) : Except TErr Val :=
  match Rlp.decode bs with
  | .error e => .error (.untyped e)
  | .ok i => dec ty i

/-- rlp.EncodeToBytes of a value of schema `ty` (none = not a value of the type) -/
def encT (ty : Ty) (v : Val) : Option (List UInt8) := (enc ty v).map Rlp.encode

/-! ### static predicates on schemas (decidable, evaluated on the generated table) -/

/-- Field lists are well-shaped (struct bodies are cons lists; cons cells only under `struct`). -/
def isFields : Ty → Bool
  | .snil => true
  | .scons _ r => isFields r
  | _ => false

/-- element types of an rlp:"nil" pointer whose nil form is statically known to the decoder (the translator
refuses the others: custom codecs, pointers) -/
def nilKnown : Ty → Bool
  | .uint _ | .bigint | .bool | .bytes | .fixed _ | .list _ | .struct _ => true
  | _ => false

/-- The decoder accepts exactly one byte string per value. -/
def Canonical : Ty → Bool
  | .uint _ | .bigint | .bool | .bytes | .fixed _ | .snil => true
  | .list t => Canonical t
  | .scons f r => Canonical f && Canonical r
  | .struct fs => Canonical fs && isFields fs
  | .ptr t => Canonical t
  | .nilptr t => Canonical t && nilKnown t
  | .custom k w => (k == .ident || k == .receiptStatus) && Canonical w

/-- No encoding of a non-nil `nilptr` element is empty (else it would decode as nil): the element is a
non-empty fixed array (the only use in /repo: `*common.Address`). -/
def Sound : Ty → Bool
  | .uint _ | .bigint | .bool | .bytes | .fixed _ | .snil => true
  | .list t => Sound t
  | .scons f r => Sound f && Sound r
  | .struct fs => Sound fs && isFields fs
  | .ptr t => Sound t
  | .nilptr t => match t with | .fixed n => n != 0 | _ => false
  | .custom _ w => Sound w

/-- total payload bytes + node count of an item: what a decoder has to allocate -/
def itemsWeight : List Item → Nat
  | [] => 0
  | .str b :: r => 1 + b.length + itemsWeight r
  | .list is :: r => 1 + itemsWeight is + itemsWeight r

def weight (i : Item) : Nat := itemsWeight [i]

end YouVerif.C14
