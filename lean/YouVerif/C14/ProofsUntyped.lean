/-
C14 helper lemmas: the untyped RLP model of Common/Rlp.lean.
  decodeItem_sound : decodeItem fuel bs = .ok (i, rest) → bs = encode i ++ rest
  decodeItem_complete : Fits i → need i ≤ fuel → decodeItem fuel (encode i ++ rest) = .ok (i, rest)
-/
import YouVerif.C14.Model
import YouVerif.C14.ProofsBytes
namespace YouVerif.C14
open YouVerif.Common YouVerif.Common.Rlp

theorem u8_eq_of_toNat {b : UInt8} {k : Nat} (h : b.toNat = k) : b = UInt8.ofNat k := by
  rw [← h]; simp

theorem encodeLength_short (n off : Nat) (h : n < 56) : encodeLength n off = [UInt8.ofNat (off + n)] := by
  simp [encodeLength, h]

theorem encodeLength_long (n off : Nat) (h : ¬ n < 56) :
    encodeLength n off = UInt8.ofNat (off + 55 + (bytesOfNatBE n).length) :: bytesOfNatBE n := by
  simp [encodeLength, h]

theorem encode_str_ne1 (p : List UInt8) (h : p.length ≠ 1) :
    encode (.str p) = encodeLength p.length 128 ++ p := by
  simp only [encode]
  split
  · simp at h
  · rfl

theorem encode_str_lo (b : UInt8) (h : b.toNat < 128) : encode (.str [b]) = [b] := by
  simp [encode, h]

theorem encode_str_hi (b : UInt8) (h : ¬ b.toNat < 128) : encode (.str [b]) = [UInt8.ofNat 129, b] := by
  simp [encode, h, encodeLength]

theorem encode_list (is : List Item) :
    encode (.list is) = encodeLength (encodeList is).length 192 ++ encodeList is := by
  simp [encode]

/-- long-form header: the length bytes read back -/
theorem long_hdr (b : UInt8) (rest : List UInt8) (off ll n : Nat) (hb : b.toNat = off + 55 + ll)
    (hll : ll ≤ rest.length) (l0 : UInt8) (tl : List UInt8) (hlb : rest.take ll = l0 :: tl) (h0 : l0 ≠ 0)
    (hn : n = natOfBytesBE (rest.take ll)) (h56 : ¬ n < 56) :
    encodeLength n off ++ rest.drop ll = b :: rest := by
  have hnl : NoLead (rest.take ll) := by
    rw [hlb]; simp only [NoLead, List.head?_cons, ne_eq, Option.some.injEq]; exact h0
  have hbytes : bytesOfNatBE n = rest.take ll := by rw [hn]; exact bytes_nat _ hnl
  have hlen : (rest.take ll).length = ll := by simp [List.length_take]; omega
  rw [encodeLength_long n off h56, hbytes, hlen]
  have : b = UInt8.ofNat (off + 55 + ll) := u8_eq_of_toNat hb
  rw [this]
  simp [List.take_append_drop]

theorem hdr_sound (bs : List UInt8) (isList : Bool) (n h : Nat)
    (hd : decodeHeader bs = .ok (isList, n, h)) (hn : n ≤ (bs.drop h).length) :
    (isList = true → encodeLength n 192 ++ bs.drop h = bs) ∧
    (isList = false → encode (.str ((bs.drop h).take n)) ++ (bs.drop h).drop n = bs) := by
  cases bs with
  | nil => simp [decodeHeader] at hd
  | cons b rest =>
    simp only [decodeHeader] at hd
    split at hd
    · next ht =>
      simp at hd
      obtain ⟨rfl, rfl, rfl⟩ := hd
      simp [encode, ht]
    · split at hd
      · next ht1 ht2 =>
        split at hd
        · next h1 =>
          split at hd
          · simp at hd
          · next c tail =>
            split at hd
            · simp at hd
            · next hc =>
              simp at hd
              obtain ⟨rfl, rfl, rfl⟩ := hd
              have hb : b = UInt8.ofNat 129 := u8_eq_of_toNat (by omega)
              simp [encode_str_hi c hc, hb]
        · next h1 =>
          simp at hd
          obtain ⟨rfl, rfl, rfl⟩ := hd
          simp only [List.drop_succ_cons, List.drop_zero] at hn ⊢
          refine ⟨by simp, fun _ => ?_⟩
          have hlen : (rest.take (b.toNat - 128)).length = b.toNat - 128 := by
            simp [List.length_take]; omega
          rw [encode_str_ne1 _ (by rw [hlen]; exact h1), hlen, encodeLength_short _ _ (by omega)]
          have hb : b = UInt8.ofNat (128 + (b.toNat - 128)) := u8_eq_of_toNat (by omega)
          rw [← hb]
          simp [List.take_append_drop]
      · split at hd
        · next ht1 ht2 ht3 =>
          split at hd
          · simp at hd
          · next hll =>
            split at hd
            · simp at hd
            · next l0 tl hlb =>
              split at hd
              · simp at hd
              · next h0 =>
                split at hd
                · simp at hd
                · next h56 =>
                  simp at hd
                  obtain ⟨rfl, hn', rfl⟩ := hd
                  refine ⟨by simp, fun _ => ?_⟩
                  have hd1 : List.drop (1 + (b.toNat - 183)) (b :: rest) = rest.drop (b.toNat - 183) := by
                    rw [Nat.add_comm, List.drop_succ_cons]
                  rw [hd1] at hn ⊢
                  have hlen : ((rest.drop (b.toNat - 183)).take n).length = n := by
                    simp only [List.length_take]; omega
                  have h56' : ¬ n < 56 := by rw [← hn']; exact h56
                  rw [encode_str_ne1 _ (by rw [hlen]; omega), hlen, List.append_assoc, List.take_append_drop]
                  exact long_hdr b rest 128 (b.toNat - 183) n (by omega) (by omega) l0 tl hlb h0 hn'.symm h56'
        · split at hd
          · next ht1 ht2 ht3 ht4 =>
            simp at hd
            obtain ⟨rfl, rfl, rfl⟩ := hd
            refine ⟨fun _ => ?_, by simp⟩
            rw [encodeLength_short _ _ (by omega)]
            have hb : b = UInt8.ofNat (192 + (b.toNat - 192)) := u8_eq_of_toNat (by omega)
            rw [← hb]; simp
          · next ht1 ht2 ht3 ht4 =>
            split at hd
            · simp at hd
            · next hll =>
              split at hd
              · simp at hd
              · next l0 tl hlb =>
                split at hd
                · simp at hd
                · next h0 =>
                  split at hd
                  · simp at hd
                  · next h56 =>
                    simp at hd
                    obtain ⟨rfl, hn', rfl⟩ := hd
                    refine ⟨fun _ => ?_, by simp⟩
                    have hd1 : List.drop (1 + (b.toNat - 247)) (b :: rest) = rest.drop (b.toNat - 247) := by
                      rw [Nat.add_comm, List.drop_succ_cons]
                    rw [hd1]
                    have h56' : ¬ n < 56 := by rw [← hn']; exact h56
                    have hb := UInt8.toNat_lt b
                    exact long_hdr b rest 192 (b.toNat - 247) n (by omega) (by omega) l0 tl hlb h0 hn'.symm h56'

theorem sound_both (fuel : Nat) :
    (∀ bs i rest, decodeItem fuel bs = .ok (i, rest) → bs = encode i ++ rest) ∧
    (∀ bs is, decodeItems fuel bs = .ok is → bs = encodeList is) := by
  induction fuel with
  | zero => constructor <;> intros <;> simp_all [decodeItem, decodeItems]
  | succ f ih =>
    obtain ⟨ihI, ihL⟩ := ih
    constructor
    · intro bs i rest hd
      simp only [decodeItem] at hd
      split at hd
      · simp at hd
      · next isList n h hh =>
        split at hd
        · simp at hd
        · next hlen =>
          have hn : n ≤ (bs.drop h).length := by omega
          have hs := hdr_sound bs isList n h hh hn
          have hdd : List.drop n (List.drop h bs) = List.drop (h + n) bs := by simp
          split at hd
          · next hl =>
            split at hd
            · simp at hd
            · next items hitems =>
              simp at hd
              obtain ⟨rfl, rfl⟩ := hd
              have hp := ihL _ _ hitems
              have hplen : (encodeList items).length = n := by
                rw [← hp]; simp only [List.length_take]; omega
              rw [encode_list, hplen, ← hp, List.append_assoc, ← hdd, List.take_append_drop]
              exact (hs.1 hl).symm
          · next hl =>
            simp at hd
            obtain ⟨rfl, rfl⟩ := hd
            rw [← hdd]
            exact (hs.2 (by simpa using hl)).symm
    · intro bs is hd
      simp only [decodeItems] at hd
      split at hd
      · simp at hd; subst hd; simp [encodeList]
      · split at hd
        · simp at hd
        · next i rest hi =>
          split at hd
          · simp at hd
          · next is' his =>
            simp at hd; subst hd
            rw [ihI _ _ _ hi, ihL _ _ his]
            simp [encodeList]

theorem decodeItem_sound' (fuel : Nat) (bs : List UInt8) (i : Item) (rest : List UInt8) :
    decodeItem fuel bs = .ok (i, rest) → bs = encode i ++ rest := (sound_both fuel).1 bs i rest

/-! ### completeness -/

mutual
  /-- fuel the decoder needs for an item (its call-tree depth) -/
  def need : Item → Nat
    | .str _ => 1
    | .list is => needList is + 1
  def needList : List Item → Nat
    | [] => 1
    | i :: is => max (need i) (needList is) + 1
end

mutual
  /-- every string and every list payload is shorter than 2^64 bytes (what 8 length bytes / Go's uint64 can say) -/
  def Fits : Item → Prop
    | .str b => b.length < 2 ^ 64
    | .list is => FitsList is ∧ (encodeList is).length < 2 ^ 64
  def FitsList : List Item → Prop
    | [] => True
    | i :: is => Fits i ∧ FitsList is
end

theorem encodeLength_len_pos (n off : Nat) : 1 ≤ (encodeLength n off).length := by
  unfold encodeLength; split <;> simp

theorem toNat_ofNat_lt (k : Nat) (h : k < 256) : (UInt8.ofNat k).toNat = k := by
  simp [UInt8.toNat_ofNat']; omega

theorem hdr_dec_short (n : Nat) (isL : Bool) (hn : n < 56) (h1 : isL = false → n ≠ 1) (tail : List UInt8) :
    decodeHeader (UInt8.ofNat ((if isL then 192 else 128) + n) :: tail) = .ok (isL, n, 1) := by
  cases isL with
  | false =>
    have ht : (UInt8.ofNat (128 + n)).toNat = 128 + n := toNat_ofNat_lt _ (by omega)
    simp only [decodeHeader, ht, Bool.false_eq_true, if_false]
    rw [if_neg (by omega), if_pos (by omega), if_neg (by have := h1 rfl; omega)]
    simp
  | true =>
    have ht : (UInt8.ofNat (192 + n)).toNat = 192 + n := toNat_ofNat_lt _ (by omega)
    simp only [decodeHeader, ht, if_true]
    rw [if_neg (by omega), if_neg (by omega), if_neg (by omega), if_pos (by omega)]
    simp

theorem hdr_dec_long (n : Nat) (isL : Bool) (hn : ¬ n < 56) (h64 : n < 2 ^ 64) (tail : List UInt8) :
    decodeHeader (UInt8.ofNat ((if isL then 192 else 128) + 55 + (bytesOfNatBE n).length) :: (bytesOfNatBE n ++ tail))
      = .ok (isL, n, 1 + (bytesOfNatBE n).length) := by
  have hle : (bytesOfNatBE n).length ≤ 8 := bytes_length_le n 8 (by simpa using h64)
  have hne : bytesOfNatBE n ≠ [] := bytes_ne_nil n (by omega)
  have hnl := bytes_nolead n
  have hval := nat_bytes n
  generalize hlb : bytesOfNatBE n = lb at *
  cases lb with
  | nil => exact absurd rfl hne
  | cons l0 tl =>
    have h0 : l0 ≠ 0 := by
      simp only [NoLead, List.head?_cons, ne_eq, Option.some.injEq] at hnl; exact hnl
    have hlen : (l0 :: tl).length = tl.length + 1 := rfl
    rw [hlen] at hle ⊢
    have htake : List.take (tl.length + 1) (l0 :: tl ++ tail) = l0 :: tl := by
      simp
    cases isL with
    | false =>
      have ht : (UInt8.ofNat (128 + 55 + (tl.length + 1))).toNat = 184 + tl.length := by
        rw [toNat_ofNat_lt _ (by omega)]; omega
      simp only [decodeHeader, ht, Bool.false_eq_true, if_false]
      rw [if_neg (by omega), if_neg (by omega), if_pos (by omega)]
      have hll : 184 + tl.length - 183 = tl.length + 1 := by omega
      rw [hll, if_neg (by simp), htake]
      simp only [h0, if_false, hval, hn]
    | true =>
      have ht : (UInt8.ofNat (192 + 55 + (tl.length + 1))).toNat = 248 + tl.length := by
        rw [toNat_ofNat_lt _ (by omega)]; omega
      simp only [decodeHeader, ht, if_true]
      rw [if_neg (by omega), if_neg (by omega), if_neg (by omega), if_neg (by omega)]
      have hll : 248 + tl.length - 247 = tl.length + 1 := by omega
      rw [hll, if_neg (by simp), htake]
      simp only [h0, if_false, hval, hn]

/-- the header of `encodeLength n off ++ tail` reads back (strings of length 1 are excluded: they have their own forms) -/
theorem hdr_dec (n : Nat) (isL : Bool) (h64 : n < 2 ^ 64) (h1 : isL = false → n ≠ 1) (tail : List UInt8) :
    decodeHeader (encodeLength n (if isL then 192 else 128) ++ tail)
      = .ok (isL, n, (encodeLength n (if isL then 192 else 128)).length) := by
  by_cases hn : n < 56
  · rw [encodeLength_short _ _ hn]; exact hdr_dec_short n isL hn h1 tail
  · rw [encodeLength_long _ _ hn]
    have := hdr_dec_long n isL hn h64 tail
    simpa [Nat.add_comm] using this

theorem encode_ne_nil (i : Item) : encode i ≠ [] := by
  cases i with
  | str p =>
    by_cases h : p.length = 1
    · match p, h with
      | [b], _ =>
        by_cases hb : b.toNat < 128
        · simp [encode_str_lo b hb]
        · simp [encode_str_hi b hb]
    · rw [encode_str_ne1 p h]
      have := encodeLength_len_pos p.length 128
      intro e
      have := congrArg List.length e
      simp only [List.length_append, List.length_nil] at this; omega
  | list is =>
    rw [encode_list]
    have := encodeLength_len_pos (encodeList is).length 192
    intro e
    have := congrArg List.length e
    simp only [List.length_append, List.length_nil] at this; omega

theorem decodeItem_str (f : Nat) (p rest : List UInt8) (hp : p.length < 2 ^ 64) :
    decodeItem (f + 1) (encode (.str p) ++ rest) = .ok (.str p, rest) := by
  by_cases h : p.length = 1
  · match p, h with
    | [b], _ =>
      by_cases hb : b.toNat < 128
      · rw [encode_str_lo b hb]
        simp [decodeItem, decodeHeader, hb]
      · rw [encode_str_hi b hb]
        simp [decodeItem, decodeHeader, hb]
  · rw [encode_str_ne1 p h, List.append_assoc]
    have hh := hdr_dec p.length false hp (fun _ => h) (p ++ rest)
    simp only [Bool.false_eq_true, if_false] at hh
    simp only [decodeItem, hh]
    simp

theorem complete_both (f : Nat) :
    (∀ i rest, Fits i → need i ≤ f → decodeItem f (encode i ++ rest) = .ok (i, rest)) ∧
    (∀ is, FitsList is → needList is ≤ f → decodeItems f (encodeList is) = .ok is) := by
  induction f with
  | zero =>
    constructor
    · intro i rest _ hn; cases i <;> simp [need] at hn
    · intro is _ hn; cases is <;> simp [needList] at hn
  | succ f ih =>
    obtain ⟨ihI, ihL⟩ := ih
    constructor
    · intro i rest hf hn
      cases i with
      | str p => exact decodeItem_str f p rest (by simpa [Fits] using hf)
      | list is =>
        simp only [Fits] at hf
        simp only [need] at hn
        rw [encode_list, List.append_assoc]
        have hh := hdr_dec (encodeList is).length true hf.2 (by simp) (encodeList is ++ rest)
        simp only [if_true] at hh
        simp only [decodeItem, hh]
        simp [ihL is hf.1 (by omega)]
    · intro is hf hn
      cases is with
      | nil => simp [decodeItems, encodeList]
      | cons i is =>
        simp only [FitsList] at hf
        simp only [needList] at hn
        simp only [encodeList, decodeItems]
        split
        · next e =>
          have := encode_ne_nil i
          simp at e; exact absurd e.1 this
        · rw [ihI i (encodeList is) hf.1 (by omega)]
          simp [ihL is hf.2 (by omega)]

mutual
  theorem need_le : ∀ i : Item, need i ≤ 2 * (encode i).length
    | .str p => by
      have := encode_ne_nil (.str p)
      have : (encode (.str p)).length ≠ 0 := by simpa using this
      simp only [need]; omega
    | .list is => by
      have h := needList_le is
      have := encodeLength_len_pos (encodeList is).length 192
      rw [encode_list]; simp only [need, List.length_append]; omega
  theorem needList_le : ∀ is : List Item, needList is ≤ 2 * (encodeList is).length + 1
    | [] => by simp [needList, encodeList]
    | i :: is => by
      have h1 := need_le i
      have h2 := needList_le is
      have := encode_ne_nil i
      have : (encode i).length ≠ 0 := by simpa using this
      simp only [needList, encodeList, List.length_append]; omega
end

theorem encode_str_len_ge (p : List UInt8) : p.length ≤ (encode (.str p)).length := by
  by_cases h : p.length = 1
  · have := encode_ne_nil (.str p)
    have : (encode (.str p)).length ≠ 0 := by simpa using this
    omega
  · rw [encode_str_ne1 p h]; simp

mutual
  theorem fits_of_len : ∀ i : Item, (encode i).length < 2 ^ 64 → Fits i
    | .str p => by
      intro h
      have := encode_str_len_ge p
      simp only [Fits]; omega
    | .list is => by
      intro h
      rw [encode_list] at h
      simp only [List.length_append] at h
      simp only [Fits]
      exact ⟨fitsList_of_len is (by omega), by omega⟩
  theorem fitsList_of_len : ∀ is : List Item, (encodeList is).length < 2 ^ 64 → FitsList is
    | [] => by intro _; simp [FitsList]
    | i :: is => by
      intro h
      simp only [encodeList, List.length_append] at h
      simp only [FitsList]
      exact ⟨fits_of_len i (by omega), fitsList_of_len is (by omega)⟩
end

theorem itemsWeight_cons (i : Item) (r : List Item) : itemsWeight (i :: r) = itemsWeight [i] + itemsWeight r := by
  cases i <;> simp [itemsWeight] <;> omega

mutual
  theorem weight_le : ∀ i : Item, itemsWeight [i] ≤ 2 * (encode i).length
    | .str p => by
      have h1 := encode_str_len_ge p
      have := encode_ne_nil (.str p)
      have : (encode (.str p)).length ≠ 0 := by simpa using this
      by_cases h : p.length = 1
      · simp only [itemsWeight]; omega
      · rw [encode_str_ne1 p h] at *
        have := encodeLength_len_pos p.length 128
        simp only [itemsWeight, List.length_append] at *; omega
    | .list is => by
      have h := weightList_le is
      have := encodeLength_len_pos (encodeList is).length 192
      rw [encode_list]; simp only [itemsWeight, List.length_append]; omega
  theorem weightList_le : ∀ is : List Item, itemsWeight is ≤ 2 * (encodeList is).length
    | [] => by simp [itemsWeight]
    | i :: is => by
      have h1 := weight_le i
      have h2 := weightList_le is
      rw [itemsWeight_cons]; simp only [encodeList, List.length_append]; omega
end

/-! ### sizes fit Go's uint64 -/

theorem nat_take_lt (rest : List UInt8) (ll : Nat) (h8 : ll ≤ 8) : natOfBytesBE (rest.take ll) < 2 ^ 64 := by
  have h1 := nat_lt (rest.take ll)
  have h2 : (rest.take ll).length ≤ 8 := by simp only [List.length_take]; omega
  have h3 : 256 ^ (rest.take ll).length ≤ 256 ^ 8 := Nat.pow_le_pow_right (by decide) h2
  have : (256 : Nat) ^ 8 = 2 ^ 64 := by decide
  omega

theorem hdr_fits (bs : List UInt8) (isList : Bool) (n h : Nat)
    (hd : decodeHeader bs = .ok (isList, n, h)) : n < 2 ^ 64 ∧ h ≤ 9 := by
  cases bs with
  | nil => simp [decodeHeader] at hd
  | cons b rest =>
    have hb := UInt8.toNat_lt b
    simp only [decodeHeader] at hd
    split at hd
    · simp at hd; obtain ⟨_, rfl, rfl⟩ := hd; decide
    · split at hd
      · split at hd
        · split at hd
          · simp at hd
          · split at hd
            · simp at hd
            · simp at hd; obtain ⟨_, rfl, rfl⟩ := hd; decide
        · simp at hd; obtain ⟨_, rfl, rfl⟩ := hd; omega
      · split at hd
        · split at hd
          · simp at hd
          · split at hd
            · simp at hd
            · split at hd
              · simp at hd
              · split at hd
                · simp at hd
                · simp at hd
                  obtain ⟨_, rfl, rfl⟩ := hd
                  exact ⟨nat_take_lt rest _ (by omega), by omega⟩
        · split at hd
          · simp at hd; obtain ⟨_, rfl, rfl⟩ := hd; omega
          · split at hd
            · simp at hd
            · split at hd
              · simp at hd
              · split at hd
                · simp at hd
                · split at hd
                  · simp at hd
                  · simp at hd
                    obtain ⟨_, rfl, rfl⟩ := hd
                    exact ⟨nat_take_lt rest _ (by omega), by omega⟩

end YouVerif.C14
