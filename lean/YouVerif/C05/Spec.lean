/-
C05 — vocabulary of the property statements (hand-written, part of the trusted reading of the theorems).
-/
import YouVerif.C05.Model

namespace YouVerif.C05

/-- a vote as an honest validator signs it (`Voter.signVote`): kind 2 prevote, 3 precommit, 4 next-index, 5 certificate -/
structure Vote where
  kind : Nat
  hash : Bytes
  round : Nat
  index : Nat
deriving Repr, DecidableEq, Inhabited

def Vote.payload (v : Vote) : Bytes := YouVerif.C05.payload v.hash v.round v.index

/-- hashes are 32 bytes, the round a uint64, the round index a uint32 -/
def VoteWF (v : Vote) : Prop := v.hash.length = 32 ∧ v.round < 18446744073709551616 ∧ v.index < 4294967296

/-- what the RLP decoder guarantees of a decoded evidence: uint64 round, uint32 index, 32-byte hashes -/
def EvWF {σ : Type} (e : Ev σ) : Prop :=
  e.round < 18446744073709551616 ∧ e.roundIndex < 4294967296 ∧ ∀ p ∈ e.pairs, p.1.length = 32

/-- Unforgeability hypothesis (EUF) for key `k` whose holder signed exactly the votes `votes`:
a signature verifies under `k` only over the payload of one of those votes. -/
def SignedOnly {σ : Type} (verify : Key → Bytes → σ → Bool) (k : Key) (votes : List Vote) : Prop :=
  ∀ (msg : Bytes) (s : σ), verify k msg s = true → ∃ v ∈ votes, msg = v.payload

/-- protocol-following signer (property C02): at most one hash per vote kind in one (round, index) -/
def Honest (votes : List Vote) : Prop :=
  ∀ v ∈ votes, ∀ w ∈ votes, v.kind = w.kind → v.round = w.round → v.index = w.index → v.hash = w.hash

/-- the restricted class covered while F-C05b is open: at most one hash per (round, index) ACROSS kinds -/
def SingleHash (votes : List Vote) : Prop :=
  ∀ v ∈ votes, ∀ w ∈ votes, v.round = w.round → v.index = w.index → v.hash = w.hash

/-- `k` is a BLS key some look-back set of the chain associates with main address `a` -/
def KeyOf (cfg : Cfg) (ch : Chain) (a : Addr) (k : Key) : Prop :=
  ∃ (r : Nat) (cert : Bool) (vs : List LbEntry) (i : Nat), lookBackSet cfg ch r cert = some vs ∧ vs[i]? = some (LbEntry.mk a (some k))

def sumDelegStake : List Deleg → Int
  | [] => 0
  | d :: ds => d.stake + sumDelegStake ds

def sumDelegToken : List Deleg → Int
  | [] => 0
  | d :: ds => d.token + sumDelegToken ds

def sumFinal : List WRec → Int
  | [] => 0
  | r :: rs => r.final + sumFinal rs

/-- invariants every stored validator record satisfies (maintained by all staking handlers; property C08) -/
structure ValWF (v : Val) : Prop where
  stake_pos : 0 < v.stake
  self_nonneg : 0 ≤ v.selfStake
  selfTok_nonneg : 0 ≤ v.selfToken
  deleg_nonneg : ∀ d ∈ v.delegs, 0 ≤ d.stake ∧ 0 ≤ d.token
  stake_sum : v.stake = v.selfStake + sumDelegStake v.delegs
  nodup : (v.delegs.map (·.delegator)).Nodup

end YouVerif.C05
