/-
C05 — helper lemmas: the case analysis of `processOne`, the loop `processAll`, builder/replay, once-per-block.
-/
import YouVerif.C05.Model
import YouVerif.C05.Spec
import YouVerif.C05.ProofsPayload

namespace YouVerif.C05

variable {σ : Type}

theorem precheck_go {env : Env σ} {e : Ev σ} (h : precheck env e = .go) :
    e.typeOK = true ∧ e.decodeOK = true ∧ 2 ≤ e.pairs.length ∧ distinctHashes e.pairs = true ∧ e.round = env.parent := by
  unfold precheck at h
  split at h; · cases h
  split at h; · cases h
  split at h; · cases h
  split at h; · cases h
  split at h
  · rename_i h1 h2 h3 h4 h5
    refine ⟨by simpa using h1, by simpa using h2, by omega, by simpa using h4, h5⟩
  split at h; · cases h
  split at h <;> cases h

theorem findSigner_ok {env : Env σ} {e : Ev σ} {signer : LbEntry} {k : Key} (h : findSigner env e = .ok (signer, k)) :
    (∃ vs, lookBackSet env.cfg env.chain e.round (e.voteType == 5) = some vs ∧ vs[e.signerIdx]? = some signer) ∧
    signer.key = some k ∧
    (∀ p ∈ e.pairs, env.verify k (payload p.1 e.round e.roundIndex) p.2 = true) ∧
    signer.addr ≠ 0 := by
  unfold findSigner at h
  split at h; · cases h
  rename_i vs hvs
  split at h; · cases h
  rename_i sg hsg
  split at h; · cases h
  rename_i k' hk
  split at h; · cases h
  rename_i hall
  split at h; · cases h
  rename_i hnz
  cases h
  refine ⟨⟨vs, hvs, hsg⟩, hk, ?_, hnz⟩
  intro p hp
  have : (e.pairs.all fun p => env.verify k (payload p.1 e.round e.roundIndex) p.2) = true := by simpa using hall
  exact (List.all_eq_true.mp this) p hp

/-- what `processOne` has established when it penalises somebody -/
structure Accepts (env : Env σ) (st : St) (seen : List Addr) (e : Ev σ) (signer : LbEntry) (k : Key) (v : Val) : Prop where
  typeOK : e.typeOK = true
  decodeOK : e.decodeOK = true
  len : 2 ≤ e.pairs.length
  distinct : distinctHashes e.pairs = true
  round : e.round = env.parent
  lb : ∃ vs, lookBackSet env.cfg env.chain e.round (e.voteType == 5) = some vs ∧ vs[e.signerIdx]? = some signer
  key : signer.key = some k
  sigs : ∀ p ∈ e.pairs, env.verify k (payload p.1 e.round e.roundIndex) p.2 = true
  nz : signer.addr ≠ 0
  fresh : signer.addr ∉ seen
  cur : findVal st.vals signer.addr = some v

theorem processOne_spec (env : Env σ) (st : St) (seen : List Addr) (e : Ev σ) :
    (∃ signer k v, Accepts env st seen e signer k v ∧
        processOne env st seen e = (penalise env st v, signer.addr :: seen, .penalised signer.addr (penaltyOf env st v).total))
    ∨ ((processOne env st seen e).1 = st ∧ (processOne env st seen e).2.1 = seen ∧
        isConfirmed (processOne env st seen e).2.2 = false) := by
  unfold processOne
  cases hp : precheck env e with
  | drop n => right; simp [isConfirmed]
  | pend => right; simp [isConfirmed]
  | go =>
    obtain ⟨h1, h2, h3, h4, h5⟩ := precheck_go hp
    cases hf : findSigner env e with
    | error n => right; simp [isConfirmed]
    | ok sk =>
      obtain ⟨signer, k⟩ := sk
      obtain ⟨g1, g2, g3, g4⟩ := findSigner_ok hf
      by_cases hs : signer.addr ∈ seen
      · right; simp [hs, isConfirmed]
      · cases hv : findVal st.vals signer.addr with
        | none => right; simp [hs, hv, isConfirmed]
        | some v =>
          left
          refine ⟨signer, k, v, ⟨h1, h2, h3, h4, h5, g1, g2, g3, g4, hs, hv⟩, ?_⟩
          simp [hs, hv]

/-! ## the loop -/

theorem processAll_cons (env : Env σ) (st : St) (seen : List Addr) (e : Ev σ) (es : List (Ev σ)) :
    processAll env st seen (e :: es) =
      { processAll env (processOne env st seen e).1 (processOne env st seen e).2.1 es with
        verdicts := (processOne env st seen e).2.2 :: (processAll env (processOne env st seen e).1 (processOne env st seen e).2.1 es).verdicts } := by
  simp [processAll]

/-- replaying the confirmed sub-list from the same state gives the same state, the same once-per-validator set and
exactly the confirmed verdicts -/
theorem processAll_replay (env : Env σ) : ∀ (pool : List (Ev σ)) (st : St) (seen : List Addr),
    (processAll env st seen (confirmedOf pool (processAll env st seen pool).verdicts)).st = (processAll env st seen pool).st ∧
    (processAll env st seen (confirmedOf pool (processAll env st seen pool).verdicts)).seen = (processAll env st seen pool).seen ∧
    (processAll env st seen (confirmedOf pool (processAll env st seen pool).verdicts)).verdicts
      = (processAll env st seen pool).verdicts.filter isConfirmed := by
  intro pool
  induction pool with
  | nil => intro st seen; simp [processAll, confirmedOf]
  | cons e es ih =>
    intro st seen
    rcases processOne_spec env st seen e with ⟨signer, k, v, _, heq⟩ | ⟨h1, h2, h3⟩
    · have := ih (penalise env st v) (signer.addr :: seen)
      simp only [processAll_cons, heq, confirmedOf, isConfirmed, if_true]
      simpa [processAll_cons, heq, List.filter_cons, isConfirmed] using this
    · have := ih st seen
      simp only [processAll_cons, h1, h2, confirmedOf, h3]
      simpa [h3] using this

/-- nobody is penalised twice in one list, and nobody who is already in the once-per-validator set -/
theorem processAll_nodup (env : Env σ) : ∀ (evs : List (Ev σ)) (st : St) (seen : List Addr),
    (penalisedOf (processAll env st seen evs).verdicts).Nodup ∧
    ∀ a ∈ penalisedOf (processAll env st seen evs).verdicts, a ∉ seen := by
  intro evs
  induction evs with
  | nil => intro st seen; simp [processAll, penalisedOf]
  | cons e es ih =>
    intro st seen
    rcases processOne_spec env st seen e with ⟨signer, k, v, hacc, heq⟩ | ⟨h1, h2, h3⟩
    · obtain ⟨hn, hd⟩ := ih (penalise env st v) (signer.addr :: seen)
      simp only [processAll_cons, heq, penalisedOf]
      refine ⟨List.nodup_cons.mpr ⟨?_, hn⟩, ?_⟩
      · intro hmem
        exact (hd _ hmem) (List.mem_cons_self ..)
      · intro a ha
        rcases List.mem_cons.mp ha with rfl | ha
        · exact hacc.fresh
        · intro hs
          exact (hd a ha) (List.mem_cons_of_mem _ hs)
    · obtain ⟨hn, hd⟩ := ih st seen
      simp only [processAll_cons, h1, h2]
      cases hv : (processOne env st seen e).2.2 with
      | penalised a t => simp [hv, isConfirmed] at h3
      | dropped n => simpa [penalisedOf] using ⟨hn, hd⟩
      | pending => simpa [penalisedOf] using ⟨hn, hd⟩

/-! ## soundness of acceptance: an accepted evidence shows two signed votes with different hashes -/

theorem distinctHashes_spec : ∀ {ps : List (Bytes × σ)}, distinctHashes ps = true → ∃ p ∈ ps, ∃ q ∈ ps, p.1 ≠ q.1
  | [], h => by simp [distinctHashes] at h
  | p :: ps, h => by
    simp only [distinctHashes, List.any_eq_true] at h
    obtain ⟨q, hq, hne⟩ := h
    exact ⟨q, List.mem_cons_of_mem _ hq, p, List.mem_cons_self .., by simpa using hne⟩

/-- an accepted evidence exhibits two votes of the key's holder, for the evidence's (round, index), with different hashes -/
theorem accepts_two_votes {env : Env σ} {st : St} {seen : List Addr} {e : Ev σ} {signer : LbEntry} {k : Key} {v : Val}
    (hacc : Accepts env st seen e signer k v) (hev : EvWF e)
    {votes : List Vote} (hwf : ∀ w ∈ votes, VoteWF w) (hs : SignedOnly env.verify k votes) :
    ∃ v1 ∈ votes, ∃ v2 ∈ votes, v1.round = e.round ∧ v1.index = e.roundIndex ∧ v2.round = e.round ∧ v2.index = e.roundIndex ∧
      v1.hash ≠ v2.hash := by
  obtain ⟨p, hp, q, hq, hne⟩ := distinctHashes_spec hacc.distinct
  obtain ⟨v1, hv1, e1⟩ := hs _ _ (hacc.sigs p hp)
  obtain ⟨v2, hv2, e2⟩ := hs _ _ (hacc.sigs q hq)
  obtain ⟨er, ei, eh⟩ := hev
  obtain ⟨a1, a2, a3⟩ := hwf v1 hv1
  obtain ⟨b1, b2, b3⟩ := hwf v2 hv2
  obtain ⟨c1, c2, c3⟩ := payload_inj (eh p hp) a1 er a2 ei a3 e1
  obtain ⟨d1, d2, d3⟩ := payload_inj (eh q hq) b1 er b2 ei b3 e2
  exact ⟨v1, hv1, v2, hv2, c2.symm, c3.symm, d2.symm, d3.symm, by rw [← c1, ← d1]; exact hne⟩

/-! ## frame: a validator nobody convicts keeps its record -/

theorem findVal_addr : ∀ {vals : List Val} {a : Addr} {v : Val}, findVal vals a = some v → v.addr = a
  | [], _, _, h => by simp [findVal] at h
  | x :: xs, a, v, h => by
    unfold findVal at h
    split at h
    · cases h; assumption
    · exact findVal_addr h

theorem findVal_setVal_ne : ∀ (vals : List Val) (nv : Val) (a : Addr), nv.addr ≠ a → findVal (setVal vals nv) a = findVal vals a
  | [], _, _, _ => by simp [setVal]
  | x :: xs, nv, a, h => by
    unfold setVal
    split
    · rename_i hx
      have : x.addr ≠ a := by rw [hx]; exact h
      simp [findVal, this, h]
    · simp only [findVal]
      split
      · rfl
      · exact findVal_setVal_ne xs nv a h

theorem takePenalty_addr (unit : Int) (q : List WRec) (v : Val) (amount : Int) : (takePenalty unit q v amount).newVal.addr = v.addr := by
  unfold takePenalty depositPhase
  simp only
  split <;> rfl

theorem doPenalize_addr (cfg : Cfg) (n : Nat) (q : List WRec) (v : Val) (amount : Int) : (doPenalize cfg n q v amount).newVal.addr = v.addr := by
  unfold doPenalize
  simp only
  split
  · exact takePenalty_addr ..
  · rfl

theorem processOne_frame (env : Env σ) (st : St) (seen : List Addr) (e : Ev σ) (a : Addr)
    (h : ∀ t, (processOne env st seen e).2.2 ≠ .penalised a t) :
    findVal (processOne env st seen e).1.vals a = findVal st.vals a := by
  rcases processOne_spec env st seen e with ⟨signer, k, v, hacc, heq⟩ | ⟨h1, _, _⟩
  · rw [heq] at h ⊢
    have hne : signer.addr ≠ a := by
      intro hh
      exact h _ (by rw [hh])
    have hva := findVal_addr hacc.cur
    simp only [penalise]
    apply findVal_setVal_ne
    simp only [penaltyOf]
    rw [doPenalize_addr, hva]; exact hne
  · rw [h1]

theorem processAll_frame (env : Env σ) (a : Addr) : ∀ (evs : List (Ev σ)) (st : St) (seen : List Addr),
    a ∉ penalisedOf (processAll env st seen evs).verdicts →
    findVal (processAll env st seen evs).st.vals a = findVal st.vals a := by
  intro evs
  induction evs with
  | nil => intro st seen _; simp [processAll]
  | cons e es ih =>
    intro st seen h
    rw [processAll_cons] at h ⊢
    simp only at h ⊢
    have h1 : ∀ t, (processOne env st seen e).2.2 ≠ .penalised a t := by
      intro t ht
      apply h
      rw [ht]; simp [penalisedOf]
    have h2 : a ∉ penalisedOf (processAll env (processOne env st seen e).1 (processOne env st seen e).2.1 es).verdicts := by
      intro hm
      apply h
      cases hv : (processOne env st seen e).2.2 <;> simp [penalisedOf, hm]
    rw [ih _ _ h2, processOne_frame env st seen e a h1]

/-! ## frame for the withdraw queue: only records of the convicted validator are touched -/

def recsOf (b : Addr) (q : List WRec) : List WRec := q.filter (fun r => decide (r.validator = b))

theorem wamount_pos_validator {va : Addr} {r : WRec} {a : Acc} (h : 0 < wamount va r a) : r.validator = va := by
  unfold wamount at h
  split at h
  · omega
  · rename_i hv
    simp only [ne_eq, not_or, Decidable.not_not] at hv
    exact hv.1

theorem wloop_frame (va b : Addr) (hb : va ≠ b) : ∀ (q : List WRec) (a : Acc), recsOf b (wloop va q a).1 = recsOf b q
  | [], a => by simp [wloop]
  | r :: rs, a => by
    unfold wloop
    split
    · rfl
    · split
      · rename_i hp
        have hv := wamount_pos_validator hp
        have hne : r.validator ≠ b := by rw [hv]; exact hb
        simp only [recsOf, List.filter_cons, hne, decide_false, Bool.false_eq_true, if_false]
        exact wloop_frame va b hb rs _
      · simp only [recsOf, List.filter_cons]
        have := wloop_frame va b hb rs a
        simp only [recsOf] at this
        rw [this]

theorem doPenalize_queue_frame (cfg : Cfg) (n : Nat) (q : List WRec) (v : Val) (amount : Int) (b : Addr) (hb : v.addr ≠ b) :
    recsOf b (doPenalize cfg n q v amount).queue = recsOf b q := by
  unfold doPenalize
  simp only
  split
  · unfold takePenalty
    simp only
    exact wloop_frame v.addr b hb q _
  · rfl

theorem processOne_queue_frame (env : Env σ) (st : St) (seen : List Addr) (e : Ev σ) (a : Addr)
    (h : ∀ t, (processOne env st seen e).2.2 ≠ .penalised a t) :
    recsOf a (processOne env st seen e).1.queue = recsOf a st.queue := by
  rcases processOne_spec env st seen e with ⟨signer, k, v, hacc, heq⟩ | ⟨h1, _, _⟩
  · rw [heq] at h ⊢
    have hne : signer.addr ≠ a := by
      intro hh
      exact h _ (by rw [hh])
    have hva := findVal_addr hacc.cur
    simp only [penalise, penaltyOf]
    exact doPenalize_queue_frame _ _ _ _ _ _ (by rw [hva]; exact hne)
  · rw [h1]

theorem processAll_queue_frame (env : Env σ) (a : Addr) : ∀ (evs : List (Ev σ)) (st : St) (seen : List Addr),
    a ∉ penalisedOf (processAll env st seen evs).verdicts →
    recsOf a (processAll env st seen evs).st.queue = recsOf a st.queue := by
  intro evs
  induction evs with
  | nil => intro st seen _; simp [processAll]
  | cons e es ih =>
    intro st seen h
    rw [processAll_cons] at h ⊢
    simp only at h ⊢
    have h1 : ∀ t, (processOne env st seen e).2.2 ≠ .penalised a t := by
      intro t ht
      apply h
      rw [ht]; simp [penalisedOf]
    have h2 : a ∉ penalisedOf (processAll env (processOne env st seen e).1 (processOne env st seen e).2.1 es).verdicts := by
      intro hm
      apply h
      cases hv : (processOne env st seen e).2.2 <;> simp [penalisedOf, hm]
    rw [ih _ _ h2, processOne_queue_frame env st seen e a h1]

/-- in a processed list, whoever is penalised was convicted by some evidence of the list -/
theorem processAll_penalised_accepts (env : Env σ) : ∀ (evs : List (Ev σ)) (st : St) (seen : List Addr) (a : Addr),
    a ∈ penalisedOf (processAll env st seen evs).verdicts →
    ∃ e ∈ evs, ∃ st' seen' signer k v, Accepts env st' seen' e signer k v ∧ signer.addr = a := by
  intro evs
  induction evs with
  | nil => intro st seen a h; simp [processAll, penalisedOf] at h
  | cons e es ih =>
    intro st seen a h
    rw [processAll_cons] at h
    simp only at h
    rcases processOne_spec env st seen e with ⟨signer, k, v, hacc, heq⟩ | ⟨h1, h2, h3⟩
    · rw [heq] at h
      simp only [penalisedOf, List.mem_cons] at h
      rcases h with rfl | h
      · exact ⟨e, List.mem_cons_self .., st, seen, signer, k, v, hacc, rfl⟩
      · obtain ⟨e', he', rest⟩ := ih _ _ a h
        exact ⟨e', List.mem_cons_of_mem _ he', rest⟩
    · have : a ∈ penalisedOf (processAll env (processOne env st seen e).1 (processOne env st seen e).2.1 es).verdicts := by
        cases hv : (processOne env st seen e).2.2 with
        | penalised b t => simp [hv, isConfirmed] at h3
        | dropped n => simpa [hv, penalisedOf] using h
        | pending => simpa [hv, penalisedOf] using h
      obtain ⟨e', he', rest⟩ := ih _ _ a this
      exact ⟨e', List.mem_cons_of_mem _ he', rest⟩

theorem affectedOf_filter : ∀ vs : List Verdict, affectedOf (vs.filter isConfirmed) = affectedOf vs
  | [] => rfl
  | v :: vs => by
    cases v with
    | penalised a t =>
      simp only [List.filter_cons, isConfirmed, if_true, affectedOf]
      rw [affectedOf_filter vs]
    | dropped n => simp only [List.filter_cons, isConfirmed, affectedOf]; exact affectedOf_filter vs
    | pending => simp only [List.filter_cons, isConfirmed, affectedOf]; exact affectedOf_filter vs

theorem penalisedOf_filter : ∀ vs : List Verdict, penalisedOf (vs.filter isConfirmed) = penalisedOf vs
  | [] => rfl
  | v :: vs => by
    cases v with
    | penalised a t =>
      simp only [List.filter_cons, isConfirmed, if_true, penalisedOf]
      rw [penalisedOf_filter vs]
    | dropped n => simp only [List.filter_cons, isConfirmed, penalisedOf]; exact penalisedOf_filter vs
    | pending => simp only [List.filter_cons, isConfirmed, penalisedOf]; exact penalisedOf_filter vs

theorem affectedOf_sublist : ∀ vs : List Verdict, List.Sublist (affectedOf vs) (penalisedOf vs)
  | [] => by simp [affectedOf, penalisedOf]
  | v :: vs => by
    cases v with
    | penalised a t =>
      simp only [affectedOf, penalisedOf]
      split
      · exact (affectedOf_sublist vs).cons_cons a
      · exact (affectedOf_sublist vs).cons a
    | dropped n => simpa [affectedOf, penalisedOf] using affectedOf_sublist vs
    | pending => simpa [affectedOf, penalisedOf] using affectedOf_sublist vs

theorem findVal_setVal_eq : ∀ (vals : List Val) (nv : Val) (old : Val), findVal vals nv.addr = some old →
    findVal (setVal vals nv) nv.addr = some nv
  | [], _, _, h => by simp [findVal] at h
  | x :: xs, nv, old, h => by
    unfold setVal
    split
    · simp [findVal]
    · rename_i hx
      simp only [findVal, hx, if_false] at h ⊢
      exact findVal_setVal_eq xs nv old h

end YouVerif.C05
