/-
C05 — the signed payload hash ‖ round.Bytes() ‖ uint32(index) is injective in (hash, round, index)
(32-byte hashes, uint64 rounds, uint32 indices).  It contains no vote kind.
-/
import YouVerif.C05.Model

namespace YouVerif.C05

theorem be4_length (i : Nat) : (be4 i).length = 4 := by simp [be4]
theorem be8_length (n : Nat) : (be8 n).length = 8 := by simp [be8]

theorem be4_inj {i j : Nat} (hi : i < 4294967296) (hj : j < 4294967296) (h : be4 i = be4 j) : i = j := by
  simp only [be4, List.cons.injEq, and_true] at h
  omega

theorem be8_inj {n m : Nat} (hn : n < 18446744073709551616) (hm : m < 18446744073709551616) (h : be8 n = be8 m) : n = m := by
  simp only [be8, List.cons.injEq, and_true] at h
  omega

theorem stripZeros_length_le : ∀ a : Bytes, (stripZeros a).length ≤ a.length
  | [] => by simp [stripZeros]
  | b :: bs => by
    unfold stripZeros
    split
    · have := stripZeros_length_le bs; simp; omega
    · simp

theorem stripZeros_decomp : ∀ a : Bytes, a = List.replicate (a.length - (stripZeros a).length) 0 ++ stripZeros a
  | [] => by simp [stripZeros]
  | b :: bs => by
    unfold stripZeros
    split
    · rename_i hb
      have hle := stripZeros_length_le bs
      have ih := stripZeros_decomp bs
      have : (b :: bs).length - (stripZeros bs).length = (bs.length - (stripZeros bs).length) + 1 := by
        simp; omega
      rw [this, List.replicate_succ, List.cons_append, ← ih, hb]
    · simp

theorem stripZeros_inj {a b : Bytes} (hl : a.length = b.length) (h : stripZeros a = stripZeros b) : a = b := by
  rw [stripZeros_decomp a, stripZeros_decomp b, hl, h]

theorem beMin_inj {n m : Nat} (hn : n < 18446744073709551616) (hm : m < 18446744073709551616) (h : beMin n = beMin m) : n = m :=
  be8_inj hn hm (stripZeros_inj (by simp [be8_length]) h)

/-- the payload determines (hash, round, index) -/
theorem payload_inj {h h' : Bytes} {r r' i i' : Nat}
    (hh : h.length = 32) (hh' : h'.length = 32)
    (hr : r < 18446744073709551616) (hr' : r' < 18446744073709551616)
    (hi : i < 4294967296) (hi' : i' < 4294967296)
    (heq : payload h r i = payload h' r' i') : h = h' ∧ r = r' ∧ i = i' := by
  unfold payload at heq
  obtain ⟨e1, e2⟩ := List.append_inj heq (by omega)
  obtain ⟨e3, e4⟩ := List.append_inj' e2 (by simp [be4_length])
  exact ⟨e1, beMin_inj hr hr' e3, be4_inj hi hi' e4⟩

end YouVerif.C05
