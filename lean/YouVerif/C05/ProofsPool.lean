/-
C05 — the evidence pool loses nothing: whatever the interleaving of arrivals with the builder's lock region.
-/
import YouVerif.C05.Model

namespace YouVerif.C05

variable {α : Type}

/-- every arrived evidence is somewhere: pooled, waiting on the mutex, confirmed into a SlashData, or judged `dropped` -/
def Accounted (s : PoolState α) (e : α) : Prop :=
  e ∈ s.pool ∨ e ∈ s.waiting ∨ e ∈ s.confirmed ∨ e ∈ s.discarded

/-- while the builder holds the mutex its copy IS the pool -/
def SnapOK (s : PoolState α) : Prop := ∀ sn, s.snap = some sn → sn = s.pool

theorem poolStep_keeps (part : List α → List α × List α × List α)
    (hpart : ∀ l x, x ∈ l → x ∈ (part l).1 ∨ x ∈ (part l).2.1 ∨ x ∈ (part l).2.2)
    (s : PoolState α) (ev : PoolEvt α) (hs : SnapOK s) :
    SnapOK (poolStep part s ev) ∧ (∀ e, Accounted s e → Accounted (poolStep part s ev) e) ∧
    (∀ e, ev = .arrive e → Accounted (poolStep part s ev) e) := by
  cases ev with
  | arrive a =>
    cases hsn : s.snap with
    | none =>
      simp only [poolStep, hsn]
      refine ⟨?_, ?_, ?_⟩
      · intro sn h; simp [hsn] at h
      · intro e h; rcases h with h | h | h | h
        · exact Or.inl (List.mem_append_left _ h)
        · exact Or.inr (Or.inl h)
        · exact Or.inr (Or.inr (Or.inl h))
        · exact Or.inr (Or.inr (Or.inr h))
      · intro e h; cases h; exact Or.inl (by simp)
    | some sn =>
      simp only [poolStep, hsn]
      refine ⟨?_, ?_, ?_⟩
      · intro sn' h; exact hs sn' (by simpa [hsn] using h)
      · intro e h; rcases h with h | h | h | h
        · exact Or.inl h
        · exact Or.inr (Or.inl (List.mem_append_left _ h))
        · exact Or.inr (Or.inr (Or.inl h))
        · exact Or.inr (Or.inr (Or.inr h))
      · intro e h; cases h; exact Or.inr (Or.inl (by simp))
  | sealBegin =>
    cases hsn : s.snap with
    | none =>
      simp only [poolStep, hsn]
      refine ⟨?_, fun e h => h, fun e h => by cases h⟩
      intro sn h; simpa using h.symm
    | some sn =>
      simp only [poolStep, hsn]
      exact ⟨hs, fun e h => h, fun e h => by cases h⟩
  | sealEnd =>
    cases hsn : s.snap with
    | none =>
      simp only [poolStep, hsn]
      exact ⟨hs, fun e h => h, fun e h => by cases h⟩
    | some sn =>
      simp only [poolStep, hsn]
      have hsp : sn = s.pool := hs sn hsn
      refine ⟨?_, ?_, fun e h => by cases h⟩
      · intro sn' h; simp at h
      · intro e h
        rcases h with h | h | h | h
        · rcases hpart sn e (hsp ▸ h) with h1 | h1 | h1
          · exact Or.inl (List.mem_append_left _ h1)
          · exact Or.inr (Or.inr (Or.inl (List.mem_append_right _ h1)))
          · exact Or.inr (Or.inr (Or.inr (List.mem_append_right _ h1)))
        · exact Or.inl (List.mem_append_right _ h)
        · exact Or.inr (Or.inr (Or.inl (List.mem_append_left _ h)))
        · exact Or.inr (Or.inr (Or.inr (List.mem_append_left _ h)))

theorem poolRun_keeps (part : List α → List α × List α × List α)
    (hpart : ∀ l x, x ∈ l → x ∈ (part l).1 ∨ x ∈ (part l).2.1 ∨ x ∈ (part l).2.2) :
    ∀ (evs : List (PoolEvt α)) (s : PoolState α), SnapOK s →
      (∀ e, Accounted s e → Accounted (poolRun part s evs) e) ∧
      (∀ e, PoolEvt.arrive e ∈ evs → Accounted (poolRun part s evs) e)
  | [], s, _ => ⟨fun e h => h, fun e h => by simp at h⟩
  | ev :: evs, s, hs => by
    obtain ⟨h1, h2, h3⟩ := poolStep_keeps part hpart s ev hs
    obtain ⟨k1, k2⟩ := poolRun_keeps part hpart evs (poolStep part s ev) h1
    simp only [poolRun]
    refine ⟨fun e h => k1 e (h2 e h), ?_⟩
    intro e h
    rcases List.mem_cons.mp h with h | h
    · exact k1 e (h3 e h.symm)
    · exact k2 e h

/-- the three selections by verdict cover the processed list -/
theorem selectBy_covers : ∀ (l : List α) (vs : List Verdict), vs.length = l.length → ∀ x, x ∈ l →
    x ∈ selectBy isPending l vs ∨ x ∈ selectBy isConfirmed l vs ∨ x ∈ selectBy isDropped l vs
  | [], _, _, x, h => by simp at h
  | e :: es, [], hl, _, _ => by simp at hl
  | e :: es, v :: vs, hl, x, h => by
    have hl' : vs.length = es.length := by simpa using hl
    rcases List.mem_cons.mp h with rfl | h
    · cases v <;> simp [selectBy, isPending, isConfirmed, isDropped]
    · rcases selectBy_covers es vs hl' x h with h1 | h1 | h1
      · left; simp only [selectBy]; split
        · exact List.mem_cons_of_mem _ h1
        · exact h1
      · right; left; simp only [selectBy]; split
        · exact List.mem_cons_of_mem _ h1
        · exact h1
      · right; right; simp only [selectBy]; split
        · exact List.mem_cons_of_mem _ h1
        · exact h1

theorem processAll_length {σ : Type} (env : Env σ) : ∀ (evs : List (Ev σ)) (st : St) (seen : List Addr),
    (processAll env st seen evs).verdicts.length = evs.length
  | [], _, _ => by simp [processAll]
  | e :: es, st, seen => by
    simp only [processAll, List.length_cons]
    rw [processAll_length env es]

end YouVerif.C05
