/-
C05 — property theorems (statements only; proofs of helper lemmas live in Proofs*.lean).
-/
import YouVerif.C05.Model

namespace YouVerif.C05

/-- The guard of the F-C05c repair, stated: with `Stake = 0` nothing is prorated — delegations and their owners'
withdraw shares are computed with a per-stake share of 0 (the Go code used to panic here). -/
theorem takePenalty_total_guard (unit : Int) (q : List WRec) (v : Val) (amount : Int) (h0 : v.stake = 0) :
    takePenalty unit q v amount =
      takePenalty unit q { v with stake := 0, delegs := v.delegs } amount := by
  cases v; simp_all

end YouVerif.C05
