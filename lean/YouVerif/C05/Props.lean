/-
C05 — "Only real equivocation is slashable, and it is slashed exactly once": the property theorems.
Statements only; helper lemmas are in Proofs*.lean, the vocabulary (Vote, Honest, SingleHash, SignedOnly, EvWF,
KeyOf, ValWF) in Spec.lean, the model of the Go code in Model.lean.
-/
import YouVerif.C05.Proofs
import YouVerif.C05.ProofsPenalty
import YouVerif.C05.ProofsPool

namespace YouVerif.C05

variable {σ : Type}

/-! ## 1. The signed payload -/

/-- The signed bytes hash ‖ round.Bytes() ‖ uint32(index) determine (hash, round, index) — and nothing else:
the vote kind is not part of them (root of F-C05b). -/
theorem payload_injective {h h' : Bytes} {r r' i i' : Nat}
    (hh : h.length = 32) (hh' : h'.length = 32)
    (hr : r < 18446744073709551616) (hr' : r' < 18446744073709551616)
    (hi : i < 4294967296) (hi' : i' < 4294967296)
    (heq : payload h r i = payload h' r' i') : h = h' ∧ r = r' ∧ i = i' :=
  payload_inj hh hh' hr hr' hi hi' heq

/-! ## 2. Honest validators -/

/-- Full-strength target: a validator whose key signed only the votes of a protocol-following history (at most one
hash per vote KIND and (round, index)) is never convicted, whatever evidence is assembled.
(The protocol even allows TWO next-index votes per (round, index), so the real class of honest signers is larger still.)
FALSE of the code that exists (F-C05b, see `honest_never_slashed_counterexample`): kept as a statement. -/
def honest_never_slashed_statement : Prop :=
  ∀ (σ : Type) (env : Env σ) (st : St) (seen : List Addr) (e : Ev σ) (k : Key) (votes : List Vote),
    EvWF e → (∀ w ∈ votes, VoteWF w) → SignedOnly env.verify k votes → Honest votes →
    ∀ signer v, ¬ Accepts env st seen e signer k v

/-- What holds while F-C05b is open (and only since the F-C05a repair): if every BLS key that a look-back set
associates with main address `a` signed at most one hash per (round, index) — across all vote kinds — then no list
of evidences, however assembled (any index, kind, pairs, forged or real signatures), gets `a` penalised, and `a`'s
record and `a`'s withdraw records (its own and its delegators') come out of `processEvidences` exactly as they went in.  BLS unforgeability is the hypothesis `hEUF`. -/
theorem honest_never_slashed_partial (env : Env σ) (a : Addr) (votes : Key → List Vote)
    (hwf : ∀ k, KeyOf env.cfg env.chain a k → ∀ w ∈ votes k, VoteWF w)
    (hEUF : ∀ k, KeyOf env.cfg env.chain a k → SignedOnly env.verify k (votes k))
    (hsingle : ∀ k, KeyOf env.cfg env.chain a k → SingleHash (votes k))
    (evs : List (Ev σ)) (hev : ∀ e ∈ evs, EvWF e) (st : St) (seen : List Addr) :
    a ∉ penalisedOf (processAll env st seen evs).verdicts ∧
    findVal (processAll env st seen evs).st.vals a = findVal st.vals a ∧
    recsOf a (processAll env st seen evs).st.queue = recsOf a st.queue := by
  have hnot : a ∉ penalisedOf (processAll env st seen evs).verdicts := by
    intro hmem
    obtain ⟨e, he, st', seen', signer, k, v, hacc, hsa⟩ := processAll_penalised_accepts env evs st seen a hmem
    have hk : KeyOf env.cfg env.chain a k := by
      obtain ⟨vs, h1, h2⟩ := hacc.lb
      refine ⟨e.round, e.voteType == 5, vs, e.signerIdx, h1, ?_⟩
      rw [h2]
      cases signer with
      | mk sa sk =>
        simp only at hsa
        have := hacc.key
        simp only at this
        rw [hsa, this]
    obtain ⟨v1, hv1, v2, hv2, r1, i1, r2, i2, hne⟩ := accepts_two_votes hacc (hev e he) (hwf k hk) (hEUF k hk)
    exact hne (hsingle k hk v1 hv1 v2 hv2 (by rw [r1, r2]) (by rw [i1, i2]))
  exact ⟨hnot, processAll_frame env a evs st seen hnot, processAll_queue_frame env a evs st seen hnot⟩

/-! ### the counterexample to the full statement (F-C05b), on the model; replayed on the real code by the harness
(probe F-C05b, matcher `cross-kind-evidence`) -/

namespace CE
def A : Bytes := List.replicate 32 1
def B : Bytes := List.replicate 32 2
/-- an honest history: prevote(A) then precommit(B) in (round 5, index 0) -/
def votes : List Vote := [⟨2, A, 5, 0⟩, ⟨3, B, 5, 0⟩]
/-- symbolic signatures, of which exactly the two honest votes were ever issued under key 7 -/
def verify (k : Key) (msg : Bytes) (s : SymSig) : Bool :=
  symVerify k msg s && (k == 7) && (msg == payload A 5 0 || msg == payload B 5 0)
def cfg : Cfg := { frac := 2, expelRounds := 256, maxExpired := 120, stakeLookBack := 16, certLookBack := 65536, protoBack := 8, unit := 10 }
def env : Env SymSig := { cfg := cfg, chain := { head := 5, sets := [(0, [⟨1, some 7⟩])] }, verify := verify, parent := 5, hdrNum := 6 }
def v : Val := { addr := 1, status := 1, expelled := false, expelExpired := 0, token := 1000, stake := 100, selfToken := 1000, selfStake := 100, risk := 0, delegs := [] }
def st : St := { vals := [v], queue := [], penaltyTo := 0 }
def e : Ev SymSig := { typeOK := true, decodeOK := true, round := 5, roundIndex := 0, signerIdx := 0, voteType := 2,
                       pairs := [(A, .signed 7 (payload A 5 0)), (B, .signed 7 (payload B 5 0))] }
end CE

/-- F-C05b on the model: the honest prevote(A) and the honest precommit(B) of one (round, index), put together as
"double-sign evidence", get the honest validator penalised: 2 % of its token taken, expelled, offline. -/
theorem honest_never_slashed_counterexample :
    Honest CE.votes ∧ SignedOnly CE.verify 7 CE.votes ∧ EvWF CE.e ∧ (∀ w ∈ CE.votes, VoteWF w) ∧
    processOne CE.env CE.st [] CE.e =
      ({ vals := [{ CE.v with status := 0, expelled := true, expelExpired := 262, token := 980, stake := 98, selfToken := 980, selfStake := 98 }],
         queue := [], penaltyTo := 20 }, [1], .penalised 1 20) := by
  refine ⟨by unfold Honest; decide, ?_, ?_, ?_, by decide⟩
  · intro msg s h
    simp only [CE.verify, Bool.and_eq_true, Bool.or_eq_true, beq_iff_eq] at h
    rcases h.2 with h | h
    · exact ⟨⟨2, CE.A, 5, 0⟩, by simp [CE.votes], h⟩
    · exact ⟨⟨3, CE.B, 5, 0⟩, by simp [CE.votes], h⟩
  · refine ⟨by decide, by decide, ?_⟩
    intro p hp
    simp only [CE.e, List.mem_cons, List.mem_nil_iff, or_false] at hp
    rcases hp with rfl | rfl <;> decide
  · intro w hw
    simp only [CE.votes, List.mem_cons, List.mem_nil_iff, or_false] at hw
    rcases hw with rfl | rfl <;> (unfold VoteWF; decide)

theorem honest_never_slashed_statement_false : ¬ honest_never_slashed_statement := by
  intro h
  obtain ⟨h1, h2, h3, h4, h5⟩ := honest_never_slashed_counterexample
  rcases processOne_spec CE.env CE.st [] CE.e with ⟨signer, k, v, hacc, heq⟩ | ⟨_, _, hc⟩
  · have hk : k = 7 := by
      obtain ⟨vs, hl, hi⟩ := hacc.lb
      have : vs = [⟨1, some 7⟩] := by
        have : lookBackSet CE.env.cfg CE.env.chain CE.e.round (CE.e.voteType == 5) = some [⟨1, some 7⟩] := by decide
        rw [this] at hl; exact (Option.some.inj hl).symm
      subst this
      have hs : signer = ⟨1, some 7⟩ := by
        have : ([⟨1, some 7⟩] : List LbEntry)[CE.e.signerIdx]? = some ⟨1, some 7⟩ := by decide
        rw [this] at hi; exact (Option.some.inj hi).symm
      have := hacc.key
      rw [hs] at this
      exact (Option.some.inj this).symm
    subst hk
    exact h SymSig CE.env CE.st [] CE.e 7 CE.votes h3 h4 h2 h1 signer v hacc
  · rw [h5] at hc
    simp [isConfirmed] at hc

/-! ## 3. Real equivocation is accepted, by builder and validator alike, once -/

/-- Evidence of ≥ 2 votes with two different hashes, each validly signed under the BLS key of the validator the
evidence indexes in the look-back set of the parent round, is accepted: the validator is penalised (`doPenalize`),
comes out expelled and offline, and is marked in the once-per-validator set. -/
theorem equivocation_accepted (env : Env σ) (st : St) (seen : List Addr) (e : Ev σ)
    (vs : List LbEntry) (signer : LbEntry) (k : Key) (v : Val)
    (ht : e.typeOK = true) (hd : e.decodeOK = true) (hround : e.round = env.parent)
    (hlen : 2 ≤ e.pairs.length) (hdist : distinctHashes e.pairs = true)
    (hlb : lookBackSet env.cfg env.chain e.round (e.voteType == 5) = some vs)
    (hidx : vs[e.signerIdx]? = some signer) (hk : signer.key = some k)
    (hsig : ∀ p ∈ e.pairs, env.verify k (payload p.1 e.round e.roundIndex) p.2 = true)
    (hnz : signer.addr ≠ 0) (hfresh : signer.addr ∉ seen) (hcur : findVal st.vals signer.addr = some v) :
    processOne env st seen e = (penalise env st v, signer.addr :: seen, .penalised signer.addr (penaltyOf env st v).total) ∧
    ∃ nv, findVal (penalise env st v).vals signer.addr = some nv ∧ nv.expelled = true ∧ nv.status = 0 := by
  have hpre : precheck env e = .go := by
    unfold precheck
    simp [ht, hd, hdist, hround]
    omega
  have hall : (e.pairs.all fun p => env.verify k (payload p.1 e.round e.roundIndex) p.2) = true :=
    List.all_eq_true.mpr hsig
  have hfs : findSigner env e = .ok (signer, k) := by
    unfold findSigner
    simp [hlb, hidx, hk, hall, hnz]
  refine ⟨?_, ?_⟩
  · unfold processOne
    simp [hpre, hfs, hfresh, hcur]
  · have hva := findVal_addr hcur
    have haddr : (penaltyOf env st v).newVal.addr = signer.addr := by
      simp only [penaltyOf]; rw [doPenalize_addr, hva]
    refine ⟨(penaltyOf env st v).newVal, ?_, ?_, ?_⟩
    · simp only [penalise]
      rw [← haddr]
      exact findVal_setVal_eq _ _ v (by rw [haddr]; exact hcur)
    · simp [penaltyOf, doPenalize]
    · simp [penaltyOf, doPenalize]

/-- the hypotheses of `equivocation_accepted` are satisfiable: two prevotes for different hashes -/
example : ∃ (env : Env SymSig) (st : St) (e : Ev SymSig) (vs : List LbEntry) (signer : LbEntry) (k : Key) (v : Val),
    e.typeOK = true ∧ e.decodeOK = true ∧ e.round = env.parent ∧ 2 ≤ e.pairs.length ∧ distinctHashes e.pairs = true ∧
    lookBackSet env.cfg env.chain e.round (e.voteType == 5) = some vs ∧ vs[e.signerIdx]? = some signer ∧ signer.key = some k ∧
    (∀ p ∈ e.pairs, env.verify k (payload p.1 e.round e.roundIndex) p.2 = true) ∧ signer.addr ≠ 0 ∧ findVal st.vals signer.addr = some v :=
  ⟨{ CE.env with verify := symVerify }, CE.st, CE.e, [⟨1, some 7⟩], ⟨1, some 7⟩, 7, CE.v,
    by decide, by decide, by decide, by decide, by decide, by decide, by decide, by decide,
    by intro p hp; simp only [CE.e, List.mem_cons, List.mem_nil_iff, or_false] at hp; rcases hp with rfl | rfl <;> decide,
    by decide, by decide⟩

/-- Builder and validator agree: replaying the SlashData the builder wrote (the confirmed evidences, in order) from
the same state and the same block number gives exactly the builder's state and the same affected validators.
(Both paths judge rounds against header.Number - 1, `blockEnv`.) -/
theorem builder_replay_agree (cfg : Cfg) (chain : Chain) (verify : Key → Bytes → σ → Bool) (hdrNum : Nat)
    (st : St) (pool : List (Ev σ)) :
    let env := blockEnv cfg chain verify hdrNum
    (replayBlock env st (sealBlock env st pool).2).st = (sealBlock env st pool).1.st ∧
    affectedOf (replayBlock env st (sealBlock env st pool).2).verdicts = affectedOf (sealBlock env st pool).1.verdicts ∧
    penalisedOf (replayBlock env st (sealBlock env st pool).2).verdicts = penalisedOf (sealBlock env st pool).1.verdicts := by
  intro env
  obtain ⟨h1, _, h3⟩ := processAll_replay env pool st []
  simp only [replayBlock, sealBlock]
  exact ⟨h1, by rw [h3, affectedOf_filter], by rw [h3, penalisedOf_filter]⟩

/-- Exactly once: within one block's evidence list nobody is penalised twice — neither in the list of validators
`doPenalize` ran on, nor in the affected list — whatever the list contains (duplicates, several evidences against
one validator, the same validator through POS and certificate look-back). -/
theorem once_per_block (env : Env σ) (st : St) (evs : List (Ev σ)) :
    (penalisedOf (processAll env st [] evs).verdicts).Nodup ∧ (affectedOf (processAll env st [] evs).verdicts).Nodup := by
  have h := (processAll_nodup env evs st []).1
  exact ⟨h, List.Nodup.sublist (affectedOf_sublist _) h⟩

/-- Exactly once across blocks: whoever a block of height `h ≥ 1` penalises is convicted by an evidence of round
`h - 1` of that block's list.  So an equivocation of round r can be punished only in THE block of height r + 1 of a
chain (heights are unique along a chain), and there at most once (`once_per_block`) — in whatever encoding, under
whatever claimed vote kind or look-back index the evidence is offered again later. -/
theorem punished_only_in_next_block (cfg : Cfg) (chain : Chain) (verify : Key → Bytes → σ → Bool) (h : Nat) (hh : 1 ≤ h)
    (st : St) (seen : List Addr) (evs : List (Ev σ)) (a : Addr)
    (ha : a ∈ penalisedOf (processAll (blockEnv cfg chain verify h) st seen evs).verdicts) :
    ∃ e ∈ evs, e.round + 1 = h := by
  obtain ⟨e, he, st', seen', signer, k, v, hacc, _⟩ := processAll_penalised_accepts _ evs st seen a ha
  refine ⟨e, he, ?_⟩
  have := hacc.round
  simp only [blockEnv] at this
  omega

/-- two blocks that convict on evidence of one round have the same height -/
theorem one_block_per_round (cfg : Cfg) (chain : Chain) (verify : Key → Bytes → σ → Bool) (h1 h2 : Nat) (hh1 : 1 ≤ h1) (hh2 : 1 ≤ h2)
    {st1 st2 : St} {seen1 seen2 : List Addr} {e1 e2 : Ev σ} {s1 s2 : LbEntry} {k1 k2 : Key} {v1 v2 : Val}
    (a1 : Accepts (blockEnv cfg chain verify h1) st1 seen1 e1 s1 k1 v1)
    (a2 : Accepts (blockEnv cfg chain verify h2) st2 seen2 e2 s2 k2 v2)
    (hr : e1.round = e2.round) : h1 = h2 := by
  have r1 := a1.round
  have r2 := a2.round
  simp only [blockEnv] at r1 r2
  omega

/-- The pool loses nothing.  Start from an empty pool and let Evidence events arrive in ANY interleaving with the
builder's lock region (`sealBegin … sealEnd`, any number of seals, each classifying its snapshot with the real
`processEvidences` on the state of the block it builds): every evidence that ever arrived is, at the end, still
pooled (or waiting on the mutex), or was written into the SlashData of a sealed block, or was judged `dropped` by a
seal (malformed, forged, expired, signer already convicted) — never lost by the pool mechanics. -/
theorem pool_loses_nothing (env : Env σ) (st : St) (evts : List (PoolEvt (Ev σ))) (e : Ev σ)
    (harr : PoolEvt.arrive e ∈ evts) :
    let r := poolRun (sealPart env st) { pool := [], waiting := [], snap := none, confirmed := [], discarded := [] } evts
    e ∈ r.pool ∨ e ∈ r.waiting ∨ e ∈ r.confirmed ∨ e ∈ r.discarded := by
  intro r
  have hpart : ∀ (l : List (Ev σ)) x, x ∈ l → x ∈ (sealPart env st l).1 ∨ x ∈ (sealPart env st l).2.1 ∨ x ∈ (sealPart env st l).2.2 := by
    intro l x hx
    simp only [sealPart]
    exact selectBy_covers l _ (processAll_length env l st []) x hx
  exact (poolRun_keeps (sealPart env st) hpart evts _ (by intro sn h; simp at h)).2 e harr

/-! ## 4. The penalty -/

/-- The penalty of one conviction, for every well-formed validator record (C08's invariants: Stake > 0 is the sum of
SelfStake and the delegations' stakes, parts non-negative, delegators distinct), every withdraw queue and every
parameter table: the total is between 0 and ⌊Token · PenaltyFractionForDoubleSign / 100⌋; exactly the total is
credited to PenaltyTo; the total is exactly what left the unfinished withdraw records plus what left the validator's
Token; and the Token decrease is exactly the decrease of SelfToken plus the decrease of the delegations' tokens. -/
theorem penalty_bound (env : Env σ) (st : St) (v : Val) (hwf : ValWF v) (htok : 0 ≤ v.token) :
    0 ≤ (penaltyOf env st v).total ∧
    (penaltyOf env st v).total ≤ v.token * (env.cfg.frac : Int) / 100 ∧
    (penalise env st v).penaltyTo = st.penaltyTo + (penaltyOf env st v).total ∧
    (penaltyOf env st v).total = (sumFinal st.queue - sumFinal (penaltyOf env st v).queue) + (v.token - (penaltyOf env st v).newVal.token) ∧
    v.token - (penaltyOf env st v).newVal.token =
      (v.selfToken - (penaltyOf env st v).newVal.selfToken) + (sumDelegToken v.delegs - sumDelegToken (penaltyOf env st v).newVal.delegs) := by
  have hamt : 0 ≤ v.token * (env.cfg.frac : Int) / 100 := by
    have : 0 ≤ v.token * (env.cfg.frac : Int) := Int.mul_nonneg htok (by omega)
    omega
  refine ⟨?_, ?_, rfl, ?_, ?_⟩ <;> simp only [penaltyOf, doPenalize] <;> split
  · exact (takePenalty_le _ _ _ _ hamt hwf).1
  · simp only; omega
  · exact (takePenalty_le _ _ _ _ hamt hwf).2
  · simp only; omega
  · exact (takePenalty_conservation _ _ _ _).1
  · simp only; omega
  · exact (takePenalty_conservation _ _ _ _).2
  · simp only; omega

/-- conservation alone needs no hypothesis on the record (only a positive penalty amount): nothing is created or lost -/
theorem penalty_conservation (unit : Int) (q : List WRec) (v : Val) (amount : Int) :
    (takePenalty unit q v amount).total = (sumFinal q - sumFinal (takePenalty unit q v amount).queue) + (v.token - (takePenalty unit q v amount).newVal.token) ∧
    v.token - (takePenalty unit q v amount).newVal.token =
      (v.selfToken - (takePenalty unit q v amount).newVal.selfToken) +
      (sumDelegToken v.delegs - sumDelegToken (takePenalty unit q v amount).newVal.delegs) :=
  takePenalty_conservation unit q v amount

/-- `ValWF` is satisfiable by a record with delegations -/
example : ValWF { addr := 1, status := 1, expelled := false, expelExpired := 0, token := 1700, stake := 170, selfToken := 1000, selfStake := 100, risk := 3000,
                  delegs := [⟨208, 41, 410⟩, ⟨209, 29, 290⟩] } :=
  ⟨by decide, by decide, by decide, by decide, by decide, by decide⟩

/-- The guard of the F-C05c repair, stated: with `Stake = 0` (which made the Go code panic) nothing is prorated:
every delegation's share is 0 and the validator's own share is the whole amount. -/
theorem takePenalty_total_guard (v : Val) (amount : Int) (h0 : v.stake = 0) :
    perOf v amount = 0 ∧ selfShare v amount = amount ∧
    ∀ d ∈ v.delegs, rmGet (dlgShares (perOf v amount) v.delegs []) d.delegator = some 0 := by
  have hp : perOf v amount = 0 := by simp [perOf, h0]
  refine ⟨hp, ?_, ?_⟩
  · simp [selfShare, perOf, remOf, h0]
  · intro d hd
    rw [hp]
    exact dlgShares_zero v.delegs [] d hd

end YouVerif.C05
