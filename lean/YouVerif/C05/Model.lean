/-
C05 — executable model of double-sign evidence acceptance and penalty distribution in go-youchain.

Modelled code (the code that exists, not what it should do):
  staking/slash_youv5.go   processDoubleSignV5 (decode/len guards, distinct-hash guard, round window, signer lookup by index
                           in the look-back set, per-pair BLS verification, once-per-validator map, current-state lookup,
                           penalty amount, confirmed / deleted / pending classification)
  staking/slash.go         processEvidences (the loop shared by slashing and replaySlashing), slashing (SlashData =
                           the confirmed list), replaySlashing (replays the list carried by the header),
                           doPenalize, takePenalty (risk obligation, per-stake split with big.Int QuoRem, withdraw queue
                           first, then self deposit, then delegations, removal of emptied delegations)
  core/protocol_version_processor.go  LookBackVldReaderForRound (which header's validator set is indexed)
  consensus/ucon/voter.go  signVote: the signed payload blockHash ‖ round.Bytes() ‖ uint32(roundIndex)

The signature scheme is a parameter: `verify : Key → List Nat → σ → Bool`.  The driver instantiates it with
symbolic signatures (`SymSig`), the theorems quantify over it (with an unforgeability hypothesis).

Core Lean only (the driver links this natively).
-/
namespace YouVerif.C05

abbrev Addr := Nat      -- 160-bit address as a number; 0 is common.Address{}
abbrev Key := Nat       -- identity of a (decodable) BLS public key
abbrev Bytes := List Nat

/-! ## The signed payload of a vote (`signVote`, and the same bytes rebuilt by `processDoubleSignV5`) -/

/-- 4-byte big-endian encoding (`binary.BigEndian.PutUint32`; the value is a `uint32`). -/
def be4 (i : Nat) : Bytes := [i / 16777216 % 256, i / 65536 % 256, i / 256 % 256, i % 256]

/-- 8-byte big-endian encoding of a `uint64`. -/
def be8 (n : Nat) : Bytes :=
  [n / 72057594037927936 % 256, n / 281474976710656 % 256, n / 1099511627776 % 256, n / 4294967296 % 256,
   n / 16777216 % 256, n / 65536 % 256, n / 256 % 256, n % 256]

/-- drop leading zero bytes -/
def stripZeros : Bytes → Bytes
  | [] => []
  | b :: bs => if b = 0 then stripZeros bs else b :: bs

/-- `new(big.Int).SetUint64(round).Bytes()`: minimal big-endian, empty for 0. -/
def beMin (n : Nat) : Bytes := stripZeros (be8 n)

/-- `append(hash.Bytes(), append(round.Bytes(), uint32ToBytes(roundIndex)...)...)` — no vote kind in it. -/
def payload (hash : Bytes) (round roundIndex : Nat) : Bytes := hash ++ (beMin round ++ be4 roundIndex)

/-! ## Staking state -/

structure Deleg where
  delegator : Addr
  stake : Int
  token : Int
deriving Repr, DecidableEq, Inhabited

structure Val where
  addr : Addr
  status : Nat            -- 1 = online
  expelled : Bool
  expelExpired : Nat
  token : Int
  stake : Int
  selfToken : Int
  selfStake : Int
  risk : Nat              -- RiskObligation, per 10000
  delegs : List Deleg
deriving Repr, DecidableEq, Inhabited

structure WRec where
  validator : Addr
  delegator : Addr        -- 0 = the validator's own withdrawal
  finished : Nat
  final : Int             -- FinalBalance
deriving Repr, DecidableEq, Inhabited

structure St where
  vals : List Val
  queue : List WRec
  penaltyTo : Int         -- balance of config.PenaltyTo
deriving Repr, DecidableEq, Inhabited

structure Cfg where
  frac : Nat              -- PenaltyFractionForDoubleSign
  expelRounds : Nat       -- ExpelledRoundForDoubleSign
  maxExpired : Nat        -- MaxEvidenceExpiredIn
  stakeLookBack : Nat     -- CaravelParams.StakeLookBack
  certLookBack : Nat      -- params.ACoCHTFrequency * 2
  protoBack : Nat         -- core.protocolRoundBack
  unit : Int              -- params.StakeUint (LU per stake)
deriving Repr, Inhabited

def U64 : Nat := 18446744073709551616

/-! ## takePenalty -/

/-- the `dlgPenalty` map (key → remaining share); insertion replaces, lookup is by key -/
abbrev RMap := List (Addr × Int)

def rmGet : RMap → Addr → Option Int
  | [], _ => none
  | (k', v) :: m, k => if k' = k then some v else rmGet m k

def rmSet : RMap → Addr → Int → RMap
  | [], k, v => [(k, v)]
  | (k', v') :: m, k, v => if k' = k then (k', v) :: m else (k', v') :: rmSet m k v

/-- `setActual`: min(source, target), ties to target -/
def minTake (source target : Int) : Int := if source ≥ target then target else source

/-- running counters of takePenalty: remaining `penaltyAmount`, `totalPenalty`, `selfPenalty`, `dlgPenalty` -/
structure Acc where
  pen : Int
  total : Int
  self : Int
  dlg : RMap
deriving Repr, DecidableEq, Inhabited

/-- the share a withdraw record draws on: the delegator's entry of `dlgPenalty` (nil if there is none), or the
validator's own share for its own withdrawals (`Delegator == common.Address{}`) -/
def wrest (a : Acc) (r : WRec) : Option Int :=
  if r.delegator ≠ 0 then rmGet a.dlg r.delegator else some a.self

/-- what the first loop takes from record `r` given the counters (0 = the record is skipped) -/
def wamount (va : Addr) (r : WRec) (a : Acc) : Int :=
  if r.validator ≠ va ∨ r.finished ≠ 0 then 0
  else
    match wrest a r with
    | none => 0
    | some rest =>
      if rest ≤ 0 then 0
      else if minTake r.final rest > 0 then minTake r.final rest else 0

/-- `updateCounter(fromWithdraw, nil, nil, nil)` and `rest.Sub(rest, fromWithdraw)` (the map entry is the same pointer) -/
def wtake (r : WRec) (a : Acc) (f : Int) : Acc :=
  { pen := a.pen - f, total := a.total + f,
    self := if r.delegator ≠ 0 then a.self else a.self - f,
    dlg := if r.delegator ≠ 0 then
             (match rmGet a.dlg r.delegator with
              | some rest => rmSet a.dlg r.delegator (rest - f)
              | none => a.dlg)
           else a.dlg }

/-- first loop: take from the unfinished withdraw records of this validator, in queue order -/
def wloop (va : Addr) : List WRec → Acc → List WRec × Acc
  | [], a => ([], a)
  | r :: rs, a =>
    if a.pen ≤ 0 then (r :: rs, a)
    else if wamount va r a > 0 then
      ({ r with final := r.final - wamount va r a } :: (wloop va rs (wtake r a (wamount va r a))).1,
       (wloop va rs (wtake r a (wamount va r a))).2)
    else (r :: (wloop va rs a).1, (wloop va rs a).2)

/-- counters of the deposit phase: remaining amount, total, validator Token and Stake -/
structure DAcc where
  pen : Int
  total : Int
  vtoken : Int
  vstake : Int
deriving Repr, DecidableEq, Inhabited

/-- `updateCounter(amount, newVal, srcToken, srcStake)`: returns the new (srcToken, srcStake) and counters -/
def updCounter (unit : Int) (f srcToken srcStake : Int) (c : DAcc) : Int × Int × DAcc :=
  let newToken := srcToken - f
  let newStake := newToken / unit
  let delta := srcStake - newStake
  (newToken, newStake, { pen := c.pen - f, total := c.total + f, vtoken := c.vtoken - f, vstake := c.vstake - delta })

/-- what the third loop takes from delegation `d` (0 = skipped) -/
def damount (dlg : RMap) (d : Deleg) : Int :=
  match rmGet dlg d.delegator with
  | none => 0
  | some rest =>
    if rest ≤ 0 then 0
    else if minTake d.token rest > 0 then minTake d.token rest else 0

/-- third loop: delegations in order; an updated delegation that became empty is removed
(`UpdateDelegationFrom` on a sorted, duplicate-free list). -/
def dloop (unit : Int) (dlg : RMap) : List Deleg → DAcc → List Deleg × DAcc
  | [], c => ([], c)
  | d :: ds, c =>
    if c.pen ≤ 0 then (d :: ds, c)
    else if damount dlg d > 0 then
      let u := updCounter unit (damount dlg d) d.token d.stake c
      (if u.2.1 = 0 ∧ u.1 = 0 then (dloop unit dlg ds u.2.2).1
       else { d with token := u.1, stake := u.2.1 } :: (dloop unit dlg ds u.2.2).1,
       (dloop unit dlg ds u.2.2).2)
    else (d :: (dloop unit dlg ds c).1, (dloop unit dlg ds c).2)

structure TPResult where
  newVal : Val
  total : Int
  queue : List WRec
deriving Repr, DecidableEq, Inhabited

/-- risk obligation of the validator itself: `amount * RiskObligation / 10000` when 0 < RiskObligation ≤ 10000 -/
def obligationOf (v : Val) (amount : Int) : Int :=
  if 0 < v.risk ∧ v.risk ≤ 10000 then amount * (v.risk : Int) / 10000 else 0

/-- per-stake share of the rest.  `Stake = 0`: no per-stake share, the whole rest is remainder (the guard of the
F-C05c repair); otherwise big.Int `QuoRem` (truncated division). -/
def perOf (v : Val) (amount : Int) : Int :=
  if v.stake = 0 then 0 else Int.tdiv (amount - obligationOf v amount) v.stake

def remOf (v : Val) (amount : Int) : Int :=
  if v.stake = 0 then amount - obligationOf v amount else Int.tmod (amount - obligationOf v amount) v.stake

/-- `selfPenalty`: the validator's own share = per * SelfStake + remainder + obligation -/
def selfShare (v : Val) (amount : Int) : Int := perOf v amount * v.selfStake + remOf v amount + obligationOf v amount

/-- `dlgPenalty`: per * Stake of each delegation, keyed by delegator -/
def dlgShares (per : Int) : List Deleg → RMap → RMap
  | [], m => m
  | d :: ds, m => dlgShares per ds (rmSet m d.delegator (per * d.stake))

/-- second and third loop of takePenalty (only when something is still owed after the withdraw queue):
self deposit, then delegations.  Returns the new record and the total taken so far. -/
def depositPhase (unit : Int) (v : Val) (a : Acc) : Val × Int :=
  if a.pen > 0 then
    let c0 : DAcc := { pen := a.pen, total := a.total, vtoken := v.token, vstake := v.stake }
    let sf := if a.self > 0 then minTake v.selfToken a.self else 0
    let s1 := if sf > 0 then updCounter unit sf v.selfToken v.selfStake c0 else (v.selfToken, v.selfStake, c0)
    let dl := dloop unit a.dlg v.delegs s1.2.2
    ({ v with token := dl.2.vtoken, stake := dl.2.vstake, selfToken := s1.1, selfStake := s1.2.1, delegs := dl.1 }, dl.2.total)
  else (v, a.total)

/-- `takePenalty(currentDB, val, penaltyAmount)` -/
def takePenalty (unit : Int) (queue : List WRec) (v : Val) (amount : Int) : TPResult :=
  let wl := wloop v.addr queue { pen := amount, total := 0, self := selfShare v amount, dlg := dlgShares (perOf v amount) v.delegs [] }
  let dp := depositPhase unit v wl.2
  { newVal := dp.1, total := dp.2, queue := wl.1 }

/-! ## doPenalize (type double sign) -/

def doPenalize (cfg : Cfg) (hdrNum : Nat) (queue : List WRec) (v : Val) (amount : Int) : TPResult :=
  let t : TPResult :=
    if amount > 0 then takePenalty cfg.unit queue v amount
    else { newVal := v, total := amount, queue := queue }
  let ee := (hdrNum + cfg.expelRounds) % U64
  { t with newVal := { t.newVal with status := 0, expelled := true,
                                     expelExpired := if ee > t.newVal.expelExpired then ee else t.newVal.expelExpired } }

/-! ## Evidence and the look-back set -/

/-- an entry of a validator set as `GetValidators().List()` orders it: main address, BLS key (none = undecodable) -/
structure LbEntry where
  addr : Addr
  key : Option Key
deriving Repr, DecidableEq, Inhabited

/-- the chain as `LookBackVldReaderForRound` sees it: head number and the validator set of every header,
given as change points (first header number carrying the set, set), ascending -/
structure Chain where
  head : Nat
  sets : List (Nat × List LbEntry)
deriving Repr, Inhabited

def setAt : List (Nat × List LbEntry) → Nat → Option (List LbEntry)
  | [], _ => none
  | (fromN, s) :: rest, n =>
    if fromN ≤ n then
      match setAt rest n with
      | some s' => some s'
      | none => some s
    else none

/-- `LookBackVldReaderForRound(r, isCert)`: none = error (a needed header does not exist) -/
def lookBackSet (cfg : Cfg) (ch : Chain) (r : Nat) (isCert : Bool) : Option (List LbEntry) :=
  let pr := if r > cfg.protoBack then r - cfg.protoBack else 0
  if pr > ch.head then none
  else
    let c := if isCert then cfg.certLookBack else cfg.stakeLookBack
    let lb := if r > c then r - c else 0
    if lb > ch.head then none else setAt ch.sets lb

structure Ev (σ : Type) where
  typeOK : Bool            -- Type == "doublesignv5"
  decodeOK : Bool          -- Data decodes as EvidenceDoubleSignV5
  round : Nat
  roundIndex : Nat
  signerIdx : Nat
  voteType : Nat           -- 5 = Certificate
  pairs : List (Bytes × σ) -- (Hash, Sign)
deriving Repr, Inhabited

inductive Verdict where
  | dropped (why : Nat)               -- not returned in any list, state untouched
  | pending                           -- kept in the pool for a later block, state untouched
  | penalised (a : Addr) (total : Int) -- doPenalize ran on `a`: evidence confirmed (goes into SlashData);
                                      -- `a` is listed as affected iff total > 0
deriving Repr, DecidableEq, Inhabited

/-- the guard added by the F-C05a repair: some pair carries a hash different from the first pair's -/
def distinctHashes {σ : Type} : List (Bytes × σ) → Bool
  | [] => false
  | p :: ps => ps.any (fun q => q.1 != p.1)

def findVal : List Val → Addr → Option Val
  | [], _ => none
  | v :: vs, a => if v.addr = a then some v else findVal vs a

def setVal : List Val → Val → List Val
  | [], _ => []
  | v :: vs, nv => if v.addr = nv.addr then nv :: vs else v :: setVal vs nv

structure Env (σ : Type) where
  cfg : Cfg
  chain : Chain
  verify : Key → Bytes → σ → Bool
  parent : Nat             -- parentHeight = CurrentHeader().Number
  hdrNum : Nat             -- header.Number of the block being built / validated

/-- the guards of `processDoubleSignV5` that do not look at the chain: type, decoding, pair count, distinct hashes,
round window -/
inductive Pre where
  | drop (why : Nat)
  | pend
  | go                       -- evidence of the parent round: look the signer up and verify
deriving Repr, DecidableEq, Inhabited

def precheck {σ : Type} (env : Env σ) (e : Ev σ) : Pre :=
  if !e.typeOK then .drop 0
  else if !e.decodeOK then .drop 1
  else if e.pairs.length < 2 then .drop 2
  else if !distinctHashes e.pairs then .drop 3
  else if e.round = env.parent then .go
  else if e.round > env.parent then .pend
  else if env.parent - e.round ≤ env.cfg.maxExpired then .pend
  else .drop 11

/-- signer lookup by index in the look-back set of the evidence's round, BLS verification of every pair under the
indexed validator's key, non-zero main address -/
def findSigner {σ : Type} (env : Env σ) (e : Ev σ) : Except Nat (LbEntry × Key) :=
  match lookBackSet env.cfg env.chain e.round (e.voteType == 5) with
  | none => .error 4
  | some vs =>
    match vs[e.signerIdx]? with
    | none => .error 5
    | some signer =>
      match signer.key with
      | none => .error 6
      | some k =>
        if !(e.pairs.all fun p => env.verify k (payload p.1 e.round e.roundIndex) p.2) then .error 7
        else if signer.addr = 0 then .error 8
        else .ok (signer, k)

/-- the penalty amount and `doPenalize` on the current record `v` -/
def penaltyOf {σ : Type} (env : Env σ) (st : St) (v : Val) : TPResult :=
  doPenalize env.cfg env.hdrNum st.queue v (v.token * (env.cfg.frac : Int) / 100)

/-- the state after `doPenalize` on `v`: record replaced, queue updated, PenaltyTo credited -/
def penalise {σ : Type} (env : Env σ) (st : St) (v : Val) : St :=
  let r := penaltyOf env st v
  { vals := setVal st.vals r.newVal, queue := r.queue, penaltyTo := st.penaltyTo + r.total }

/-- `processDoubleSignV5` for one evidence: new state, new once-per-validator set, verdict -/
def processOne {σ : Type} (env : Env σ) (st : St) (seen : List Addr) (e : Ev σ) : St × List Addr × Verdict :=
  match precheck env e with
  | .drop n => (st, seen, .dropped n)
  | .pend => (st, seen, .pending)
  | .go =>
    match findSigner env e with
    | .error n => (st, seen, .dropped n)
    | .ok (signer, _) =>
      if seen.contains signer.addr then (st, seen, .dropped 9)
      else
        match findVal st.vals signer.addr with
        | none => (st, seen, .dropped 10)
        | some v => (penalise env st v, signer.addr :: seen, .penalised signer.addr (penaltyOf env st v).total)

structure Run where
  st : St
  seen : List Addr
  verdicts : List Verdict       -- one per evidence
deriving Repr, Inhabited

/-- `processEvidences`: the loop -/
def processAll {σ : Type} (env : Env σ) : St → List Addr → List (Ev σ) → Run
  | st, seen, [] => { st := st, seen := seen, verdicts := [] }
  | st, seen, e :: es =>
    let r1 := processOne env st seen e
    let r := processAll env r1.1 r1.2.1 es
    { r with verdicts := r1.2.2 :: r.verdicts }

def isConfirmed : Verdict → Bool
  | .penalised _ _ => true
  | _ => false

def isPending : Verdict → Bool
  | .pending => true
  | _ => false

/-- the evidences the builder writes into `header.SlashData` (`slashing`): the confirmed ones, in order -/
def confirmedOf {σ : Type} : List (Ev σ) → List Verdict → List (Ev σ)
  | e :: es, v :: vs => if isConfirmed v then e :: confirmedOf es vs else confirmedOf es vs
  | _, _ => []

/-- `affectedValidators`: penalised with a positive total -/
def affectedOf : List Verdict → List Addr
  | [] => []
  | .penalised a t :: vs => if t > 0 then a :: affectedOf vs else affectedOf vs
  | _ :: vs => affectedOf vs

/-- everybody `doPenalize` ran on -/
def penalisedOf : List Verdict → List Addr
  | [] => []
  | .penalised a _ :: vs => a :: penalisedOf vs
  | _ :: vs => penalisedOf vs

/-- the environment of a block: both `slashing` and `replaySlashing` judge rounds against `header.Number - 1` -/
def blockEnv {σ : Type} (cfg : Cfg) (chain : Chain) (verify : Key → Bytes → σ → Bool) (hdrNum : Nat) : Env σ :=
  { cfg := cfg, chain := chain, verify := verify, parent := hdrNum - 1, hdrNum := hdrNum }

/-- builder path (`slashing`): process the pool; SlashData = confirmed list -/
def sealBlock {σ : Type} (env : Env σ) (st : St) (pool : List (Ev σ)) : Run × List (Ev σ) :=
  let r := processAll env st [] pool
  (r, confirmedOf pool r.verdicts)

/-- validator path (`replaySlashing`): process the list carried by the header (empty SlashData = nothing to do) -/
def replayBlock {σ : Type} (env : Env σ) (st : St) (slashData : List (Ev σ)) : Run :=
  processAll env st [] slashData

/-! ## The builder's evidence pool (`Staking.evidences`, `Start`'s event loop, `slashing`)

The event loop appends under the module mutex; `slashing` holds the same mutex from the moment it copies the pool until
it has stored the pending list back.  An evidence arriving in between waits on the mutex and is appended right after. -/

def isDropped : Verdict → Bool
  | .dropped _ => true
  | _ => false

/-- the evidences of a processed list whose verdict satisfies `p`, in order -/
def selectBy {α : Type} (p : Verdict → Bool) : List α → List Verdict → List α
  | e :: es, v :: vs => if p v then e :: selectBy p es vs else selectBy p es vs
  | _, _ => []

inductive PoolEvt (α : Type) where
  | arrive (e : α)       -- an Evidence event reaches the event loop
  | sealBegin            -- `slashing` takes the mutex and copies the pool
  | sealEnd              -- `slashing` stores the pending list and releases the mutex
deriving Repr

structure PoolState (α : Type) where
  pool : List α
  waiting : List α            -- arrivals blocked on the mutex
  snap : Option (List α)      -- the builder's copy while it holds the mutex
  confirmed : List α          -- everything written into some SlashData so far
  discarded : List α          -- everything a seal judged `dropped` (bad, expired, signer already convicted, ...)
deriving Repr

/-- `part snapshot` = (pending, confirmed, dropped) as the builder's processing of the snapshot classifies it -/
def poolStep {α : Type} (part : List α → List α × List α × List α) (s : PoolState α) : PoolEvt α → PoolState α
  | .arrive e =>
    match s.snap with
    | none => { s with pool := s.pool ++ [e] }
    | some _ => { s with waiting := s.waiting ++ [e] }
  | .sealBegin =>
    match s.snap with
    | none => { s with snap := some s.pool }
    | some _ => s
  | .sealEnd =>
    match s.snap with
    | none => s
    | some sn =>
      { pool := (part sn).1 ++ s.waiting, waiting := [], snap := none,
        confirmed := s.confirmed ++ (part sn).2.1, discarded := s.discarded ++ (part sn).2.2 }

def poolRun {α : Type} (part : List α → List α × List α × List α) : PoolState α → List (PoolEvt α) → PoolState α
  | s, [] => s
  | s, ev :: evs => poolRun part (poolStep part s ev) evs

/-- the classification `slashing` applies to a snapshot, on the state a block at `env.hdrNum` starts from -/
def sealPart {σ : Type} (env : Env σ) (st : St) (l : List (Ev σ)) : List (Ev σ) × List (Ev σ) × List (Ev σ) :=
  let vs := (processAll env st [] l).verdicts
  (selectBy isPending l vs, selectBy isConfirmed l vs, selectBy isDropped l vs)

/-! ## Symbolic signatures (driver instance; also a legitimate unforgeable scheme for witnesses) -/

inductive SymSig where
  | signed (k : Key) (msg : Bytes)   -- the BLS signature of `msg` under key `k`
  | garbage                           -- anything else (undecodable, or a valid point that verifies nothing we track)
deriving Repr, DecidableEq, Inhabited

def symVerify (k : Key) (msg : Bytes) : SymSig → Bool
  | .signed k' m => k' == k && m == msg
  | .garbage => false

end YouVerif.C05
