/-
C05 — arithmetic of takePenalty: shares, loops, bound and conservation.
-/
import YouVerif.C05.Model
import YouVerif.C05.Spec

namespace YouVerif.C05

theorem rmGet_rmSet_same : ∀ (m : RMap) (k : Addr) (x : Int), rmGet (rmSet m k x) k = some x
  | [], k, x => by simp [rmSet, rmGet]
  | (k', v') :: m, k, x => by
    unfold rmSet
    split
    · rename_i h; simp [rmGet, h]
    · rename_i h; simp [rmGet, h]; exact rmGet_rmSet_same m k x

theorem rmGet_rmSet_ne : ∀ (m : RMap) (k k2 : Addr) (x : Int), k ≠ k2 → rmGet (rmSet m k x) k2 = rmGet m k2
  | [], k, k2, x, h => by simp [rmSet, rmGet, h]
  | (k', v') :: m, k, k2, x, h => by
    unfold rmSet
    split
    · rename_i h1
      have : k' ≠ k2 := by rw [h1]; exact h
      simp [rmGet, this]
    · simp only [rmGet]
      split
      · rfl
      · exact rmGet_rmSet_ne m k k2 x h

/-- with a zero per-stake share every delegation's entry is 0 -/
theorem dlgShares_zero : ∀ (ds : List Deleg) (m : RMap) (d : Deleg), d ∈ ds → rmGet (dlgShares 0 ds m) d.delegator = some 0
  | [], _, _, h => by simp at h
  | x :: xs, m, d, h => by
    simp only [dlgShares]
    by_cases hin : d ∈ xs
    · exact dlgShares_zero xs _ d hin
    · have hd : d = x := by
        rcases List.mem_cons.mp h with h | h
        · exact h
        · exact absurd h hin
      subst hd
      -- later insertions either hit the same key (value 0 again) or another key
      have key : ∀ (ys : List Deleg) (m' : RMap), rmGet m' d.delegator = some 0 → rmGet (dlgShares 0 ys m') d.delegator = some 0 := by
        intro ys
        induction ys with
        | nil => intro m' hm; simpa [dlgShares] using hm
        | cons y ys ih =>
          intro m' hm
          simp only [dlgShares]
          apply ih
          by_cases hk : y.delegator = d.delegator
          · rw [hk]; simp [rmGet_rmSet_same]
          · rw [rmGet_rmSet_ne _ _ _ _ hk]; exact hm
      apply key
      simp [rmGet_rmSet_same]

/-! ## shares left in the map -/

def totalPos : RMap → Int
  | [] => 0
  | (_, x) :: m => max x 0 + totalPos m

theorem totalPos_nonneg : ∀ m : RMap, 0 ≤ totalPos m
  | [] => by simp [totalPos]
  | (_, x) :: m => by have := totalPos_nonneg m; simp only [totalPos]; omega

theorem totalPos_rmSet_le : ∀ (m : RMap) (k : Addr) (x : Int), totalPos (rmSet m k x) ≤ totalPos m + max x 0
  | [], k, x => by simp [rmSet, totalPos]
  | (k', v') :: m, k, x => by
    unfold rmSet
    split
    · simp only [totalPos]; omega
    · have := totalPos_rmSet_le m k x
      simp only [totalPos]; omega

theorem totalPos_rmSet_of_get : ∀ (m : RMap) (k : Addr) (x x' : Int), rmGet m k = some x →
    totalPos (rmSet m k x') = totalPos m - max x 0 + max x' 0
  | [], k, x, x', h => by simp [rmGet] at h
  | (k', v') :: m, k, x, x', h => by
    unfold rmGet at h
    unfold rmSet
    split
    · rename_i hk
      simp only [hk, if_true] at h
      cases h
      simp only [totalPos]; omega
    · rename_i hk
      simp only [hk, if_false] at h
      have := totalPos_rmSet_of_get m k x x' h
      simp only [totalPos]; omega

def look (m : RMap) (k : Addr) : Int :=
  match rmGet m k with
  | some x => max x 0
  | none => 0

def lookSum (m : RMap) : List Addr → Int
  | [] => 0
  | k :: ks => look m k + lookSum m ks

theorem look_nonneg (m : RMap) (k : Addr) : 0 ≤ look m k := by
  unfold look; split <;> omega

theorem lookSum_nonneg (m : RMap) : ∀ ks, 0 ≤ lookSum m ks
  | [] => by simp [lookSum]
  | k :: ks => by have := lookSum_nonneg m ks; have := look_nonneg m k; simp only [lookSum]; omega

theorem look_cons (k' : Addr) (x : Int) (m : RMap) (k : Addr) :
    look ((k', x) :: m) k = if k' = k then max x 0 else look m k := by
  unfold look
  simp only [rmGet]
  by_cases e : k' = k <;> simp [e]

theorem lookSum_cons_notin (k' : Addr) (x : Int) (m : RMap) : ∀ ks : List Addr, k' ∉ ks → lookSum ((k', x) :: m) ks = lookSum m ks
  | [], _ => rfl
  | k :: ks, h => by
    have h1 : k' ≠ k := fun e => h (by rw [e]; exact List.mem_cons_self ..)
    have h2 : k' ∉ ks := fun e => h (List.mem_cons_of_mem _ e)
    simp only [lookSum, look_cons, h1, if_false, lookSum_cons_notin k' x m ks h2]

theorem lookSum_cons_le (k' : Addr) (x : Int) (m : RMap) : ∀ ks : List Addr, ks.Nodup →
    lookSum ((k', x) :: m) ks ≤ max x 0 + lookSum m (ks.filter (fun k => decide (k ≠ k')))
  | [], _ => by simp [lookSum]; omega
  | k :: ks, hn => by
    obtain ⟨hk, hn'⟩ := List.nodup_cons.mp hn
    by_cases e : k' = k
    · subst e
      have hf : (ks.filter (fun k => decide (k ≠ k'))) = ks := by
        apply List.filter_eq_self.mpr
        intro a ha
        simp only [ne_eq, decide_not, Bool.not_eq_eq_eq_not, Bool.not_true, decide_eq_false_iff_not]
        intro e; exact hk (e ▸ ha)
      simp only [lookSum, look_cons, if_true, List.filter_cons, ne_eq, not_true, decide_false, Bool.false_eq_true, if_false]
      rw [lookSum_cons_notin k' x m ks hk]
      simp only [ne_eq] at hf
      rw [hf]; omega
    · have ih := lookSum_cons_le k' x m ks hn'
      have e' : k ≠ k' := fun h => e h.symm
      simp only [lookSum, look_cons, e, if_false, List.filter_cons, ne_eq, e', not_false_eq_true, decide_true, if_true]
      simp only [ne_eq] at ih
      omega

theorem lookSum_le_totalPos : ∀ (m : RMap) (ks : List Addr), ks.Nodup → lookSum m ks ≤ totalPos m
  | [], ks, _ => by
    have : ∀ ks : List Addr, lookSum [] ks = 0 := by
      intro ks; induction ks with
      | nil => rfl
      | cons k ks ih => simp [lookSum, look, rmGet, ih]
    simp [this, totalPos]
  | (k', x) :: m, ks, hn => by
    have h1 := lookSum_cons_le k' x m ks hn
    have h2 := lookSum_le_totalPos m (ks.filter (fun k => decide (k ≠ k'))) (hn.filter _)
    simp only [totalPos]; omega

/-! ## first loop -/

def Phi (a : Acc) : Int := max a.self 0 + totalPos a.dlg

theorem minTake_le (s t : Int) : minTake s t ≤ t := by unfold minTake; split <;> omega
theorem minTake_le_src (s t : Int) : minTake s t ≤ s := by unfold minTake; split <;> omega

theorem wamount_nonneg (va : Addr) (r : WRec) (a : Acc) : 0 ≤ wamount va r a := by
  unfold wamount
  split; · omega
  split; · omega
  split; · omega
  split <;> omega

/-- a positive take never exceeds the share it draws on, and the potential drops by exactly the take -/
theorem wtake_Phi (va : Addr) (r : WRec) (a : Acc) (h : 0 < wamount va r a) :
    Phi (wtake r a (wamount va r a)) = Phi a - wamount va r a ∧ wamount va r a ≤ r.final := by
  unfold wamount at h ⊢
  split at h; · omega
  rename_i hv
  simp only [hv, if_false]
  cases hr : wrest a r with
  | none => simp [hr] at h
  | some rest =>
    simp only [hr] at h ⊢
    split at h; · omega
    rename_i hpos
    simp only [hpos, if_false] at h ⊢
    split at h
    · rename_i hf
      simp only [hf, if_true]
      have hle := minTake_le r.final rest
      refine ⟨?_, minTake_le_src _ _⟩
      unfold wrest at hr
      unfold Phi wtake
      split at hr
      · rename_i hd
        simp only [hd, ne_eq, not_false_eq_true, if_true, hr]
        rw [totalPos_rmSet_of_get _ _ rest _ hr]
        omega
      · rename_i hd
        cases hr
        simp only [hd, if_false]
        omega
    · omega

theorem wloop_inv (va : Addr) : ∀ (q : List WRec) (a : Acc), Phi a ≤ a.pen →
    Phi (wloop va q a).2 ≤ (wloop va q a).2.pen
  | [], a, h => by simpa [wloop] using h
  | r :: rs, a, h => by
    unfold wloop
    split
    · exact h
    · split
      · rename_i hp
        obtain ⟨h1, _⟩ := wtake_Phi va r a hp
        apply wloop_inv va rs
        have e1 : (wtake r a (wamount va r a)).pen = a.pen - wamount va r a := rfl
        rw [h1, e1]; omega
      · exact wloop_inv va rs a h

/-- conservation in the first loop: what leaves the records is what is added to the total and taken off the amount -/
theorem wloop_cons (va : Addr) : ∀ (q : List WRec) (a : Acc),
    (wloop va q a).2.pen + (wloop va q a).2.total = a.pen + a.total ∧
    (wloop va q a).2.total - a.total = sumFinal q - sumFinal (wloop va q a).1
  | [], a => by simp [wloop]
  | r :: rs, a => by
    unfold wloop
    split
    · simp
    · split
      · obtain ⟨h1, h2⟩ := wloop_cons va rs (wtake r a (wamount va r a))
        have e1 : (wtake r a (wamount va r a)).pen = a.pen - wamount va r a := rfl
        have e2 : (wtake r a (wamount va r a)).total = a.total + wamount va r a := rfl
        simp only [sumFinal]
        constructor <;> omega
      · obtain ⟨h1, h2⟩ := wloop_cons va rs a
        simp only [sumFinal]
        constructor <;> omega

theorem wloop_total_mono (va : Addr) : ∀ (q : List WRec) (a : Acc), a.total ≤ (wloop va q a).2.total
  | [], a => by simp [wloop]
  | r :: rs, a => by
    unfold wloop
    split
    · simp
    · split
      · rename_i hp
        have := wloop_total_mono va rs (wtake r a (wamount va r a))
        have e2 : (wtake r a (wamount va r a)).total = a.total + wamount va r a := rfl
        simp only
        omega
      · exact wloop_total_mono va rs a

/-! ## third loop -/

theorem damount_le_look (dlg : RMap) (d : Deleg) : damount dlg d ≤ look dlg d.delegator ∧ 0 ≤ damount dlg d ∧ damount dlg d ≤ max d.token 0 := by
  unfold damount look
  cases h : rmGet dlg d.delegator with
  | none => simp; omega
  | some rest =>
    simp only
    have := minTake_le d.token rest
    have := minTake_le_src d.token rest
    split
    · omega
    · split <;> omega

theorem dloop_inv (unit : Int) (dlg : RMap) : ∀ (ds : List Deleg) (c : DAcc),
    lookSum dlg (ds.map (·.delegator)) ≤ c.pen → 0 ≤ (dloop unit dlg ds c).2.pen
  | [], c, h => by simpa [dloop, lookSum] using h
  | d :: ds, c, h => by
    unfold dloop
    simp only [List.map_cons, lookSum] at h
    have hl := damount_le_look dlg d
    have hs := lookSum_nonneg dlg (ds.map (·.delegator))
    have hk := look_nonneg dlg d.delegator
    split
    · simp only; omega
    · split
      · simp only
        apply dloop_inv unit dlg ds
        simp only [updCounter]; omega
      · simp only
        apply dloop_inv unit dlg ds
        omega

/-- conservation in the third loop -/
theorem dloop_cons (unit : Int) (dlg : RMap) : ∀ (ds : List Deleg) (c : DAcc),
    (dloop unit dlg ds c).2.pen + (dloop unit dlg ds c).2.total = c.pen + c.total ∧
    (dloop unit dlg ds c).2.total - c.total = c.vtoken - (dloop unit dlg ds c).2.vtoken ∧
    (dloop unit dlg ds c).2.total - c.total = sumDelegToken ds - sumDelegToken (dloop unit dlg ds c).1
  | [], c => by simp [dloop]
  | d :: ds, c => by
    unfold dloop
    split
    · simp
    · split
      · obtain ⟨h1, h2, h3⟩ := dloop_cons unit dlg ds (updCounter unit (damount dlg d) d.token d.stake c).2.2
        have e0 : (updCounter unit (damount dlg d) d.token d.stake c).1 = d.token - damount dlg d := rfl
        have e1 : (updCounter unit (damount dlg d) d.token d.stake c).2.2.pen = c.pen - damount dlg d := rfl
        have e2 : (updCounter unit (damount dlg d) d.token d.stake c).2.2.total = c.total + damount dlg d := rfl
        have e3 : (updCounter unit (damount dlg d) d.token d.stake c).2.2.vtoken = c.vtoken - damount dlg d := rfl
        simp only
        refine ⟨by omega, by omega, ?_⟩
        by_cases he : (updCounter unit (damount dlg d) d.token d.stake c).2.1 = 0 ∧ (updCounter unit (damount dlg d) d.token d.stake c).1 = 0
        · simp only [he, and_self, if_true, sumDelegToken]
          have := he.2
          omega
        · simp only [he, if_false, sumDelegToken]
          omega
      · obtain ⟨h1, h2, h3⟩ := dloop_cons unit dlg ds c
        simp only [sumDelegToken]
        refine ⟨by omega, by omega, by omega⟩

theorem dloop_total_mono (unit : Int) (dlg : RMap) : ∀ (ds : List Deleg) (c : DAcc), c.total ≤ (dloop unit dlg ds c).2.total
  | [], c => by simp [dloop]
  | d :: ds, c => by
    unfold dloop
    split
    · simp
    · split
      · rename_i hp
        have := dloop_total_mono unit dlg ds (updCounter unit (damount dlg d) d.token d.stake c).2.2
        have e2 : (updCounter unit (damount dlg d) d.token d.stake c).2.2.total = c.total + damount dlg d := rfl
        simp only
        omega
      · exact dloop_total_mono unit dlg ds c

/-! ## the shares add up to the amount -/

theorem obligation_bounds (v : Val) (amount : Int) (ha : 0 ≤ amount) : 0 ≤ obligationOf v amount ∧ obligationOf v amount ≤ amount := by
  unfold obligationOf
  split
  · rename_i h
    have h1 : 0 ≤ amount * (v.risk : Int) := Int.mul_nonneg ha (by omega)
    have h2 : amount * (v.risk : Int) ≤ amount * 10000 := Int.mul_le_mul_of_nonneg_left (by omega) ha
    constructor <;> omega
  · omega

theorem totalPos_dlgShares_le (per : Int) (hper : 0 ≤ per) : ∀ (ds : List Deleg) (m : RMap), (∀ d ∈ ds, 0 ≤ d.stake) →
    totalPos (dlgShares per ds m) ≤ totalPos m + per * sumDelegStake ds
  | [], m, _ => by simp [dlgShares, sumDelegStake]
  | d :: ds, m, h => by
    have hd : 0 ≤ d.stake := h d (List.mem_cons_self ..)
    have ih := totalPos_dlgShares_le per hper ds (rmSet m d.delegator (per * d.stake)) (fun x hx => h x (List.mem_cons_of_mem _ hx))
    have h1 := totalPos_rmSet_le m d.delegator (per * d.stake)
    have h2 : 0 ≤ per * d.stake := Int.mul_nonneg hper hd
    simp only [dlgShares, sumDelegStake, Int.mul_add]
    omega

theorem shares_le_amount (v : Val) (amount : Int) (ha : 0 ≤ amount) (hwf : ValWF v) :
    Phi { pen := amount, total := 0, self := selfShare v amount, dlg := dlgShares (perOf v amount) v.delegs [] } ≤ amount := by
  obtain ⟨ho1, ho2⟩ := obligation_bounds v amount ha
  have hs := hwf.stake_pos
  have hne : v.stake ≠ 0 := by omega
  have hper : 0 ≤ perOf v amount := by
    simp only [perOf, hne, if_false]
    exact Int.tdiv_nonneg (by omega) (by omega)
  have hrem : 0 ≤ remOf v amount := by
    simp only [remOf, hne, if_false]
    exact Int.tmod_nonneg _ (by omega)
  have hid : v.stake * perOf v amount + remOf v amount = amount - obligationOf v amount := by
    simp only [perOf, remOf, hne, if_false]
    exact Int.mul_tdiv_add_tmod _ _
  have hd := totalPos_dlgShares_le (perOf v amount) hper v.delegs [] (fun d hd => (hwf.deleg_nonneg d hd).1)
  have hself : 0 ≤ perOf v amount * v.selfStake := Int.mul_nonneg hper hwf.self_nonneg
  have hsum : perOf v amount * v.stake = perOf v amount * v.selfStake + perOf v amount * sumDelegStake v.delegs := by
    rw [hwf.stake_sum, Int.mul_add]
  have hcomm : v.stake * perOf v amount = perOf v amount * v.stake := Int.mul_comm _ _
  simp only [Phi, selfShare, totalPos] at hd ⊢
  omega

/-! ## deposit phase and takePenalty -/

theorem depositPhase_cons (unit : Int) (v : Val) (a : Acc) :
    (depositPhase unit v a).2 - a.total = v.token - (depositPhase unit v a).1.token ∧
    v.token - (depositPhase unit v a).1.token =
      (v.selfToken - (depositPhase unit v a).1.selfToken) + (sumDelegToken v.delegs - sumDelegToken (depositPhase unit v a).1.delegs) := by
  unfold depositPhase
  split
  · simp only
    by_cases hsf : (if a.self > 0 then minTake v.selfToken a.self else 0) > 0
    · simp only [hsf, if_true]
      obtain ⟨h1, h2, h3⟩ := dloop_cons unit a.dlg v.delegs
        (updCounter unit (if a.self > 0 then minTake v.selfToken a.self else 0) v.selfToken v.selfStake
          { pen := a.pen, total := a.total, vtoken := v.token, vstake := v.stake }).2.2
      simp only [updCounter] at h1 h2 h3 ⊢
      constructor <;> omega
    · simp only [hsf, if_false]
      obtain ⟨h1, h2, h3⟩ := dloop_cons unit a.dlg v.delegs { pen := a.pen, total := a.total, vtoken := v.token, vstake := v.stake }
      simp only at h1 h2 h3 ⊢
      constructor <;> omega
  · simp

theorem depositPhase_le (unit : Int) (v : Val) (a : Acc) (hn : (v.delegs.map (·.delegator)).Nodup) (hPhi : Phi a ≤ a.pen) :
    (depositPhase unit v a).2 ≤ a.pen + a.total ∧ a.total ≤ (depositPhase unit v a).2 := by
  have hL := lookSum_le_totalPos a.dlg _ hn
  have hT := totalPos_nonneg a.dlg
  unfold Phi at hPhi
  unfold depositPhase
  split
  · simp only
    by_cases hsf : (if a.self > 0 then minTake v.selfToken a.self else 0) > 0
    · simp only [hsf, if_true]
      have hle : (if a.self > 0 then minTake v.selfToken a.self else 0) ≤ max a.self 0 := by
        split
        · have := minTake_le v.selfToken a.self; omega
        · omega
      have hinv := dloop_inv unit a.dlg v.delegs
        (updCounter unit (if a.self > 0 then minTake v.selfToken a.self else 0) v.selfToken v.selfStake
          { pen := a.pen, total := a.total, vtoken := v.token, vstake := v.stake }).2.2
        (by simp only [updCounter]; omega)
      obtain ⟨h1, h2, h3⟩ := dloop_cons unit a.dlg v.delegs
        (updCounter unit (if a.self > 0 then minTake v.selfToken a.self else 0) v.selfToken v.selfStake
          { pen := a.pen, total := a.total, vtoken := v.token, vstake := v.stake }).2.2
      have hm := dloop_total_mono unit a.dlg v.delegs
        (updCounter unit (if a.self > 0 then minTake v.selfToken a.self else 0) v.selfToken v.selfStake
          { pen := a.pen, total := a.total, vtoken := v.token, vstake := v.stake }).2.2
      simp only [updCounter] at h1 h2 h3 hinv hm ⊢
      constructor <;> omega
    · simp only [hsf, if_false]
      have hinv := dloop_inv unit a.dlg v.delegs { pen := a.pen, total := a.total, vtoken := v.token, vstake := v.stake }
        (by simp only; omega)
      obtain ⟨h1, h2, h3⟩ := dloop_cons unit a.dlg v.delegs { pen := a.pen, total := a.total, vtoken := v.token, vstake := v.stake }
      have hm := dloop_total_mono unit a.dlg v.delegs { pen := a.pen, total := a.total, vtoken := v.token, vstake := v.stake }
      simp only at h1 h2 h3 hinv hm ⊢
      constructor <;> omega
  · simp only
    constructor <;> omega

/-- conservation (no hypotheses): the total equals what left the withdraw records plus what left the validator's
Token; the Token decrease equals the decrease of SelfToken plus the decrease of the delegations' tokens -/
theorem takePenalty_conservation (unit : Int) (q : List WRec) (v : Val) (amount : Int) :
    (takePenalty unit q v amount).total = (sumFinal q - sumFinal (takePenalty unit q v amount).queue) + (v.token - (takePenalty unit q v amount).newVal.token) ∧
    v.token - (takePenalty unit q v amount).newVal.token =
      (v.selfToken - (takePenalty unit q v amount).newVal.selfToken) +
      (sumDelegToken v.delegs - sumDelegToken (takePenalty unit q v amount).newVal.delegs) := by
  unfold takePenalty
  simp only
  obtain ⟨w1, w2⟩ := wloop_cons v.addr q { pen := amount, total := 0, self := selfShare v amount, dlg := dlgShares (perOf v amount) v.delegs [] }
  obtain ⟨d1, d2⟩ := depositPhase_cons unit v (wloop v.addr q { pen := amount, total := 0, self := selfShare v amount, dlg := dlgShares (perOf v amount) v.delegs [] }).2
  simp only at w1 w2
  constructor <;> omega

/-- bound (well-formed record): never more than asked, never negative -/
theorem takePenalty_le (unit : Int) (q : List WRec) (v : Val) (amount : Int) (ha : 0 ≤ amount) (hwf : ValWF v) :
    0 ≤ (takePenalty unit q v amount).total ∧ (takePenalty unit q v amount).total ≤ amount := by
  unfold takePenalty
  simp only
  have h0 := shares_le_amount v amount ha hwf
  have hinv := wloop_inv v.addr q _ h0
  obtain ⟨w1, _⟩ := wloop_cons v.addr q { pen := amount, total := 0, self := selfShare v amount, dlg := dlgShares (perOf v amount) v.delegs [] }
  have wm := wloop_total_mono v.addr q { pen := amount, total := 0, self := selfShare v amount, dlg := dlgShares (perOf v amount) v.delegs [] }
  obtain ⟨d1, d2⟩ := depositPhase_le unit v _ hwf.nodup hinv
  simp only at w1 wm
  constructor <;> omega

end YouVerif.C05
