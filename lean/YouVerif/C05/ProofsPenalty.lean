/-
C05 — arithmetic of takePenalty: shares, loops, bound and conservation.
-/
import YouVerif.C05.Model
import YouVerif.C05.Spec

namespace YouVerif.C05

theorem rmGet_rmSet_same : ∀ (m : RMap) (k : Addr) (x : Int), rmGet (rmSet m k x) k = some x
  | [], k, x => by simp [rmSet, rmGet]
  | (k', v') :: m, k, x => by
    unfold rmSet
    split
    · rename_i h; simp [rmGet, h]
    · rename_i h; simp [rmGet, h]; exact rmGet_rmSet_same m k x

theorem rmGet_rmSet_ne : ∀ (m : RMap) (k k2 : Addr) (x : Int), k ≠ k2 → rmGet (rmSet m k x) k2 = rmGet m k2
  | [], k, k2, x, h => by simp [rmSet, rmGet, h]
  | (k', v') :: m, k, k2, x, h => by
    unfold rmSet
    split
    · rename_i h1
      have : k' ≠ k2 := by rw [h1]; exact h
      simp [rmGet, this]
    · simp only [rmGet]
      split
      · rfl
      · exact rmGet_rmSet_ne m k k2 x h

/-- with a zero per-stake share every delegation's entry is 0 -/
theorem dlgShares_zero : ∀ (ds : List Deleg) (m : RMap) (d : Deleg), d ∈ ds → rmGet (dlgShares 0 ds m) d.delegator = some 0
  | [], _, _, h => by simp at h
  | x :: xs, m, d, h => by
    simp only [dlgShares]
    by_cases hin : d ∈ xs
    · exact dlgShares_zero xs _ d hin
    · have hd : d = x := by
        rcases List.mem_cons.mp h with h | h
        · exact h
        · exact absurd h hin
      subst hd
      -- later insertions either hit the same key (value 0 again) or another key
      have key : ∀ (ys : List Deleg) (m' : RMap), rmGet m' d.delegator = some 0 → rmGet (dlgShares 0 ys m') d.delegator = some 0 := by
        intro ys
        induction ys with
        | nil => intro m' hm; simpa [dlgShares] using hm
        | cons y ys ih =>
          intro m' hm
          simp only [dlgShares]
          apply ih
          by_cases hk : y.delegator = d.delegator
          · rw [hk]; simp [rmGet_rmSet_same]
          · rw [rmGet_rmSet_ne _ _ _ _ hk]; exact hm
      apply key
      simp [rmGet_rmSet_same]

end YouVerif.C05
