/-
C04 — executable model of consensus/ucon/sortition.go (go-youchain), core Lean only.

What is modelled (the code that exists, not what it should do):
  * `search`            — the int64 copy of sort.Search (binary search, probes only indices < n)
  * `choose`            — exact ends, mirrored upper tail `target > 0.99`, forward scan when `n*p < 20`, binary search
  * the float64 quantities `choose`/`VrfSortition` derive (`target`, `1-target`, `p = threshold/totalStake`, `1-p`,
    `n*p`) — exactly, as IEEE-754 bit patterns, including the double rounding of math/big (`Quo` to the larger
    operand precision, then `Float64()`); there is no Lean `Float` anywhere
  * `MakeM`, `computePriority`, `VrfSortition`, `VrfVerifySortition`, `VrfVerifyPriority`
What is a parameter:
  * gonum's `distuv.Binomial{N,P}.CDF(k)` : `cdf : F64 → Nat → F64`   (P as bit pattern, k; N is the stake)
  * the VRF (`Evaluate`, `ProofToHash`) and Keccak-256 (the driver plugs in the real Keccak of YouVerif.Common)

A float64 that is finite and ≥ 0 is represented by its bit pattern as a `Nat` (sign bit 0): for such values the
numeric order is the order of the bit patterns.
-/
namespace YouVerif.C04

abbrev F64 := Nat

def f64One : F64 := 0x3FF0000000000000   -- 1.0
def f64_099 : F64 := 0x3FEFAE147AE147AE  -- 0.99
def f64_20 : F64 := 0x4034000000000000   -- 20.0

/-! ### exact rounding (round-to-nearest-even) over `Nat` -/

/-- `a / (b * 2^e)` as (numerator, denominator) with `e : Int` moved to the proper side. -/
def scaled (a b : Nat) (e : Int) : Nat × Nat :=
  if e ≥ 0 then (a, b * 2 ^ e.toNat) else (a * 2 ^ (-e).toNat, b)

/-- quotient rounded to nearest, ties to even -/
def divRNE (num den : Nat) : Nat :=
  let q := num / den
  let r := num % den
  if 2 * r > den ∨ (2 * r = den ∧ q % 2 = 1) then q + 1 else q

/-- Round the positive rational `a/b` to `prec` significant bits, nearest-even:
    result `(m, e)` means `m * 2^e` with `2^(prec-1) ≤ m ≤ 2^prec`. Requires `a > 0`, `b > 0`, `prec > 0`. -/
def roundNE (prec : Nat) (a b : Nat) : Nat × Int :=
  let e0 : Int := (Nat.log2 a : Int) - (Nat.log2 b : Int) - (prec : Int)
  -- a/b ∈ (2^(la-lb-1), 2^(la-lb+1))  ⇒  a/b / 2^e0 ∈ (2^(prec-1), 2^(prec+1))
  let (n0, d0) := scaled a b e0
  let e : Int := if n0 / d0 ≥ 2 ^ prec then e0 + 1 else e0
  let (n, d) := scaled a b e
  (divRNE n d, e)

/-- bits of the float64 nearest (ties-to-even) to `m * 2^e` (`m > 0`); 0 when the result would not be a normal number
    (never the case for the quantities of this model, see `Props`). -/
def f64OfScaled (m : Nat) (e : Int) : F64 :=
  if m = 0 then 0 else
  let (n, d) := scaled m 1 (-e)
  let (q, e2) := roundNE 53 n d
  let E : Int := e2 + 1075
  if E ≤ 0 ∨ E ≥ 2047 then 0 else E.toNat * 2 ^ 52 + (q - 2 ^ 52)

/-- decode a finite non-negative float64 into `(m, e)`, value `m * 2^e` -/
def f64Decode (x : F64) : Nat × Int :=
  let E : Nat := x / 2 ^ 52
  let frac : Nat := x % 2 ^ 52
  if E = 0 then (frac, -1074) else (2 ^ 52 + frac, (E : Int) - 1075)

/-- float64(n) for an integer n ≥ 0 -/
def f64OfNat (n : Nat) : F64 := f64OfScaled n 0

/-- x * y in float64 arithmetic (both finite ≥ 0) -/
def f64Mul (x y : F64) : F64 :=
  let (mx, ex) := f64Decode x
  let (my, ey) := f64Decode y
  f64OfScaled (mx * my) (ex + ey)

/-- `1.0 - p` in float64 arithmetic for `0 ≤ p ≤ 1` (0 outside that range: unused, `choose` crashes there) -/
def f64OneMinus (p : F64) : F64 :=
  let (m, e) := f64Decode p
  if e ≥ 0 then 0 else
  let one := 2 ^ (-e).toNat
  if m ≥ one then 0 else f64OfScaled (one - m) e

/-! ### the quantities derived from the VRF output and the stake parameters -/

def maxHash : Nat := 2 ^ 256 - 1

/-- `new(big.Float).Quo(SetInt(hb), SetInt(maxVrfHashValue))`: precision max(max(bitlen hb,64),256) = 256 -/
def bigValue (hb : Nat) : Nat × Int := roundNE 256 hb maxHash

/-- `target, _ := bigValue.Float64()` -/
def targetOf (hb : Nat) : F64 :=
  if hb = 0 then 0 else
  let (m, e) := bigValue hb
  f64OfScaled m e

/-- `invValue, _ := new(big.Float).Sub(big.NewFloat(1.0), bigValue).Float64()` (precision max(53,256) = 256) -/
def invOf (hb : Nat) : F64 :=
  if hb = 0 then f64One else
  let (m, e) := bigValue hb
  if e ≥ 0 then 0 else
  let one := 2 ^ (-e).toNat
  if m ≥ one then 0 else
  let (m2, e2) := roundNE 256 (one - m) one
  f64OfScaled m2 e2

/-- `pFloat, _ := new(big.Float).Quo(SetUint64(threshold), SetInt(totalStake)).Float64()`,
    precision max(64, max(bitlen total, 64)); `total > 0`. -/
def pOf (threshold total : Nat) : F64 :=
  if threshold = 0 ∨ total = 0 then 0 else
  let prec := max 64 (Nat.log2 total + 1)
  let (m, e) := roundNE prec threshold total
  f64OfScaled m e

/-! ### search / scan / choose -/

/-- the loop of `search(n, f)`: invariant `i ≤ j`; fuel ≥ j - i suffices -/
def searchLoop (f : Nat → Bool) : Nat → Nat → Nat → Nat
  | 0, i, _ => i
  | fuel + 1, i, j =>
    if i < j then
      let h := (i + j) / 2
      if !f h then searchLoop f fuel (h + 1) j else searchLoop f fuel i h
    else i

def search (n : Nat) (f : Nat → Bool) : Nat := searchLoop f n 0 n

/-- `for j := 0; j <= n; j++ { if isMatch(j) { return j } }` then fall through to `return w.Int64()` -/
def scanLoop (f : Nat → Bool) (n : Nat) : Nat → Nat → Nat
  | 0, _ => n
  | fuel + 1, j => if f j then j else scanLoop f n fuel (j + 1)

def scan (n : Nat) (f : Nat → Bool) : Nat := scanLoop f n (n + 1) 0

inductive Res where
  | ok (j : Nat)
  | crash          -- gonum's RegIncBeta panics (`p > 1`)
  deriving Repr, DecidableEq

inductive Branch where
  | top | zero | crash | mirror | scan | search
  deriving Repr, DecidableEq

def chooseBranch (hb w : Nat) (p : F64) : Branch :=
  if hb = maxHash then .top
  else if hb < 1 then .zero
  else if f64One < p ∧ 0 < w then .crash
  else if f64_099 < targetOf hb then .mirror
  else if f64Mul (f64OfNat w) p < f64_20 then .scan
  else .search

/-- `choose(hash, w, p)`; `hb` = hash as big-endian integer, `w` = stake (0 ≤ w < 2^62), `p` finite ≥ 0,
    `cdf P k` = `distuv.Binomial{N: float64(w), P: P}.CDF(float64(k))`. -/
def choose (cdf : F64 → Nat → F64) (hb w : Nat) (p : F64) : Res :=
  match chooseBranch hb w p with
  | .top => .ok w
  | .zero => .ok 0
  | .crash => .crash
  | .mirror =>
    let inv := invOf hb
    let invp := f64OneMinus p
    .ok (w - search w (fun h => decide (inv < cdf invp h)))
  | .scan => .ok (scan w (fun h => decide (targetOf hb ≤ cdf p h)))
  | .search => .ok (search w (fun h => decide (targetOf hb ≤ cdf p h)))

/-! ### evaluation over a partial CDF table (what the driver runs)

The driver does not hold gonum's CDF; it evaluates `choose` over the finitely many values the harness has sent and
reports the first value that is missing (`.error (P, k)`). `Proofs.chooseP_sound` shows that a completed evaluation
equals `choose` over any total CDF extending the table. -/

def searchLoopP (f : Nat → Option Bool) : Nat → Nat → Nat → Except Nat Nat
  | 0, i, _ => .ok i
  | fuel + 1, i, j =>
    if i < j then
      let h := (i + j) / 2
      match f h with
      | none => .error h
      | some b => if !b then searchLoopP f fuel (h + 1) j else searchLoopP f fuel i h
    else .ok i

def searchP (n : Nat) (f : Nat → Option Bool) : Except Nat Nat := searchLoopP f n 0 n

def scanLoopP (f : Nat → Option Bool) (n : Nat) : Nat → Nat → Except Nat Nat
  | 0, _ => .ok n
  | fuel + 1, j =>
    match f j with
    | none => .error j
    | some b => if b then .ok j else scanLoopP f n fuel (j + 1)

def scanP (n : Nat) (f : Nat → Option Bool) : Except Nat Nat := scanLoopP f n (n + 1) 0

def chooseP (look : F64 → Nat → Option F64) (hb w : Nat) (p : F64) : Except (F64 × Nat) Res :=
  match chooseBranch hb w p with
  | .top => .ok (.ok w)
  | .zero => .ok (.ok 0)
  | .crash => .ok .crash
  | .mirror =>
    let inv := invOf hb
    let invp := f64OneMinus p
    match searchP w (fun h => (look invp h).map (fun v => decide (inv < v))) with
    | .ok k => .ok (.ok (w - k))
    | .error k => .error (invp, k)
  | .scan =>
    match scanP w (fun h => (look p h).map (fun v => decide (targetOf hb ≤ v))) with
    | .ok j => .ok (.ok j)
    | .error k => .error (p, k)
  | .search =>
    match searchP w (fun h => (look p h).map (fun v => decide (targetOf hb ≤ v))) with
    | .ok j => .ok (.ok j)
    | .error k => .error (p, k)

/-! ### MakeM -/

def be32 (n : Nat) : List UInt8 :=
  [UInt8.ofNat (n / 16777216 % 256), UInt8.ofNat (n / 65536 % 256), UInt8.ofNat (n / 256 % 256), UInt8.ofNat (n % 256)]

/-- `MakeM(seed, role, index)`: 32 seed bytes, role big-endian uint32, index big-endian uint32 -/
def makeM (seed : List UInt8) (role index : Nat) : List UInt8 :=
  seed ++ be32 role ++ be32 index

/-! ### priority -/

def natOfBytes (bs : List UInt8) : Nat := bs.foldl (fun acc b => acc * 256 + b.toNat) 0

/-- minimal big-endian bytes of n (`big.Int.Bytes()`), 0 ↦ [] -/
def minBEAux : Nat → Nat → List UInt8 → List UInt8
  | 0, _, acc => acc
  | fuel + 1, n, acc => if n = 0 then acc else minBEAux fuel (n / 256) (UInt8.ofNat (n % 256) :: acc)

def minBE (n : Nat) : List UInt8 := minBEAux (n + 1) n []

def zero32 : List UInt8 := List.replicate 32 0

/-- loop of `computePriority`: i from `i` to `j` inclusive, keeps the first strictly larger hash -/
def priorityLoop (K : List UInt8 → List UInt8) (hash : List UInt8) : Nat → Nat → List UInt8 → List UInt8
  | 0, _, mx => mx
  | fuel + 1, i, mx =>
    let h := K (hash ++ minBE i)
    priorityLoop K hash fuel (i + 1) (if natOfBytes h > natOfBytes mx then h else mx)

/-- `computePriority(hash, j)` = max over i ∈ [0..j] of `K (hash ++ i.Bytes())`, starting from the zero hash -/
def computePriority (K : List UInt8 → List UInt8) (hash : List UInt8) (j : Nat) : List UInt8 :=
  priorityLoop K hash (j + 1) 0 zero32

/-! ### the three exported functions -/

/-- the VRF as the code uses it. `proofToHash` returns the hash as 32 bytes. -/
structure Vrf (SK PK Proof Rand : Type) where
  pkOf : SK → PK
  evaluate : SK → List UInt8 → Rand → List UInt8 × Proof     -- randomised prover (fresh nonce per call)
  proofToHash : PK → List UInt8 → Proof → Option (List UInt8)

/-- stake parameters the verifier takes from its own look-back state -/
structure Stakes where
  threshold : Nat   -- uint64
  stake : Nat
  total : Nat

inductive Verdict where
  | accept
  | totalStakeZero | vrfFailed | notValidator | subUsersMismatch
  | priorityMismatch        -- VrfVerifyPriority returns (false, nil)
  | crash
  deriving Repr, DecidableEq

/-- `VrfSortition`: value, proof, uint32(j); `none` when totalStake = 0 (the code returns zero values), crash → none too -/
def vrfSortition {SK PK Proof Rand} (V : Vrf SK PK Proof Rand) (cdf : F64 → Nat → F64)
    (sk : SK) (ρ : Rand) (seed : List UInt8) (index role : Nat) (s : Stakes) : Option (List UInt8 × Proof × Nat) :=
  if s.total = 0 then none else
  let (value, proof) := V.evaluate sk (makeM seed role index) ρ
  match choose cdf (natOfBytes value) s.stake (pOf s.threshold s.total) with
  | .ok j => some (value, proof, j % 2 ^ 32)
  | .crash => none

/-- `VrfVerifySortition` -/
def verifySortition {SK PK Proof Rand} (V : Vrf SK PK Proof Rand) (cdf : F64 → Nat → F64)
    (pk : PK) (seed : List UInt8) (index role : Nat) (proof : Proof) (subUsers : Nat) (s : Stakes) : Verdict :=
  if s.total = 0 then .totalStakeZero else
  match V.proofToHash pk (makeM seed role index) proof with
  | none => .vrfFailed
  | some hash =>
    match choose cdf (natOfBytes hash) s.stake (pOf s.threshold s.total) with
    | .crash => .crash
    | .ok j =>
      if j = 0 then .notValidator
      else if j % 2 ^ 32 ≠ subUsers then .subUsersMismatch
      else .accept

/-- `VrfVerifyPriority`: note `totalStake.Int64() == 0` (low 64 bits), and no `j > 0` requirement -/
def verifyPriority {SK PK Proof Rand} (V : Vrf SK PK Proof Rand) (cdf : F64 → Nat → F64) (K : List UInt8 → List UInt8)
    (pk : PK) (seed : List UInt8) (index role : Nat) (proof : Proof) (priority : List UInt8) (subUsers : Nat) (s : Stakes) : Verdict :=
  if s.total % 2 ^ 64 = 0 then .totalStakeZero else
  match V.proofToHash pk (makeM seed role index) proof with
  | none => .vrfFailed
  | some hash =>
    match choose cdf (natOfBytes hash) s.stake (pOf s.threshold s.total) with
    | .crash => .crash
    | .ok j =>
      if j % 2 ^ 32 ≠ subUsers then .subUsersMismatch
      else if computePriority K hash j = priority then .accept else .priorityMismatch

/-! ### the node-level verifiers of sortition_verifier.go (after their look-back reads succeeded) -/

inductive NodeVerdict where
  | accept   -- returns nil
  | refuse   -- returns an error
  | crash
  deriving Repr, DecidableEq

/-- `Server.verifyPriority`: `if err != nil || !isValid { …; return err }`. `VrfVerifyPriority` reports a priority
    mismatch as `(false, nil)`; since repo commit "fix: Server.verifyPriority refuses a priority VrfVerifyPriority found
    invalid" that case returns an error too (before it returned the nil `err`: finding F-C04a). -/
def nodePriorityOutcome : Verdict → NodeVerdict
  | .accept => .accept
  | .crash => .crash
  | _ => .refuse

/-- the node's own position, read by `verifySortition`'s leniency -/
structure NodeCtx where
  round : Nat
  roundIndex : Nat

/-- `Server.verifySortition`: a credential that does NOT verify is nevertheless accepted (`return nil`) when
    `data.Round < s.currentRound || data.RoundIndex < s.roundIndex` (the second test ignores the round). -/
def nodeSortitionOutcome (ctx : NodeCtx) (msgRound msgIndex : Nat) : Verdict → NodeVerdict
  | .accept => .accept
  | .crash => .crash
  | _ => if msgRound < ctx.round ∨ msgIndex < ctx.roundIndex then .accept else .refuse

def serverVerifyPriority {SK PK Proof Rand} (V : Vrf SK PK Proof Rand) (cdf : F64 → Nat → F64) (K : List UInt8 → List UInt8)
    (pk : PK) (seed : List UInt8) (index role : Nat) (proof : Proof) (priority : List UInt8) (subUsers : Nat) (s : Stakes) : NodeVerdict :=
  nodePriorityOutcome (verifyPriority V cdf K pk seed index role proof priority subUsers s)

def serverVerifySortition {SK PK Proof Rand} (V : Vrf SK PK Proof Rand) (cdf : F64 → Nat → F64) (ctx : NodeCtx) (msgRound : Nat)
    (pk : PK) (seed : List UInt8) (index role : Nat) (proof : Proof) (subUsers : Nat) (s : Stakes) : NodeVerdict :=
  nodeSortitionOutcome ctx msgRound index (verifySortition V cdf pk seed index role proof subUsers s)

/-! ### the committee size per credential kind (`Server.getLookbackStakeInfo`, sortition_verifier.go)

The committee (`threshold` of `VrfSortition` / `VrfVerifySortition`) is: for a proposer the `ProposerThreshold` of the
parameters in force; for Prevote/Precommit/NextIndex the `ValidatorThreshold` in force; for a **Certificate** credential
the `CertValThreshold` of the protocol version RECORDED ON THE CERTIFICATE LOOK-BACK HEADER
(`params.Versions[lookBackHeader.CurrVersion]`), 0 when that version is unknown — never the one in force. -/

inductive CredKind where
  | propose | vote | certificate
  deriving Repr, DecidableEq

structure Committees where
  proposer : Nat
  validator : Nat
  cert : Nat

def committeeFor (inForce : Committees) (certLookBackVersion : Option Committees) : CredKind → Nat
  | .propose => inForce.proposer
  | .vote => inForce.validator
  | .certificate => match certLookBackVersion with
    | some v => v.cert
    | none => 0

/-! ### the live entry point of proposer priorities (proposal.go)

`Proposal.processPriorityMessage` / `processProposedBlockMsg` do not hand the received payload to `Server.verifyPriority`:
they copy Round, RoundIndex, Priority, SortitionProof, SubUsers into a new `ConsensusCommon` whose **Step is pinned to
`Propose`** — `verifyPriority` itself trusts `data.Step`. The payload's own Step field is ignored. -/

def proposeStep : Nat := 1   -- `Propose` = `UConStepProposal`

/-- is the message recorded as a (candidate best) priority of (round, index)? `msgStep` is the sender-controlled field. -/
def proposalRecords {SK PK Proof Rand} (V : Vrf SK PK Proof Rand) (cdf : F64 → Nat → F64) (K : List UInt8 → List UInt8)
    (pk : PK) (seed : List UInt8) (index : Nat) (_msgStep : Nat) (proof : Proof) (priority : List UInt8) (subUsers : Nat)
    (s : Stakes) : NodeVerdict :=
  serverVerifyPriority V cdf K pk seed index proposeStep proof priority subUsers s

/-- the same, given the exported verifier's verdict per step (what the driver runs) -/
def proposalOutcome (_msgStep : Nat) (verdictAt : Nat → Verdict) : NodeVerdict :=
  nodePriorityOutcome (verdictAt proposeStep)

/-! ### the live prover path: `SortitionManager`'s credential cache (sortition_mgr.go)

`stepviews : map[RoundIndexHash]map[step]*StepView`, `RoundIndexHash = uint64(round) ‖ uint32(index)` (12 bytes).
`isProposer`/`isValidator` return the cached view if there is one, else compute a fresh credential for the asked
(round, index, step) and store it (`isProposer` only when it won seats). `ClearStepView(r)` wipes the map unless `r` is the
manager's round. The model tracks, for every stored view, the inputs it was computed for (`origin`). -/

structure MKey where
  round : Nat
  index : Nat
  step : Nat
  deriving DecidableEq, Repr

/-- the map key the code derives: `round.Uint64()`, index, step -/
def slotOf (k : MKey) : Nat × Nat × Nat := (k.round % 2 ^ 64, k.index, k.step)

/-- a stored view remembers the inputs AND the chain branch (epoch: seeds / stake tables the look-back resolved) it was
    computed for -/
structure Origin where
  key : MKey
  epoch : Nat
  deriving DecidableEq, Repr

structure Mgr where
  round : Nat
  epoch : Nat     -- identity of the branch the chain reader resolves now (not known to the manager)
  cache : List ((Nat × Nat × Nat) × Origin)

def Mgr.init : Mgr := ⟨0, 0, []⟩

def Mgr.lookup (m : Mgr) (k : MKey) : Option Origin :=
  (m.cache.find? (fun e => decide (e.1 = slotOf k))).map (·.2)

/-- a query for `k`; `store` = whether the code stores a freshly computed view (validator: always; proposer: seats > 0).
    Returns what the handed-out credential was computed for. -/
def Mgr.query (m : Mgr) (k : MKey) (store : Bool) : Mgr × Origin :=
  match m.lookup k with
  | some o => (m, o)
  | none => (if store then { m with cache := (slotOf k, ⟨k, m.epoch⟩) :: m.cache } else m, ⟨k, m.epoch⟩)

/-- `ClearStepView(r)`: `if round.Cmp(sm.round) == 0 { return }; sm.round = round; wipe` -/
def Mgr.clear (m : Mgr) (r : Nat) : Mgr := if r = m.round then m else { m with round := r, cache := [] }

/-- head rewind / re-org: the chain reader resolves another branch from now on, and the Server (StartNewRound →
    clearData) notifies `ClearStepView(head round + 1)` -/
def Mgr.rewind (m : Mgr) (r : Nat) : Mgr := ({ m with epoch := m.epoch + 1 } : Mgr).clear r

inductive MOp where
  | query (k : MKey) (store : Bool)
  | clear (r : Nat)
  | rewind (r : Nat)

/-- run an op sequence; collects (asked, current epoch, origin of what was handed out) for every query -/
def runOps : Mgr → List MOp → List (MKey × Nat × Origin)
  | _, [] => []
  | m, .query k st :: rest => (k, m.epoch, (m.query k st).2) :: runOps (m.query k st).1 rest
  | m, .clear r :: rest => runOps (m.clear r) rest
  | m, .rewind r :: rest => runOps (m.rewind r) rest

/-- a rewind really moves the manager to another round (the Server goes back to a LOWER round); a branch switch that
    keeps the round would not be noticed by `ClearStepView` -/
def rewindsMove : Mgr → List MOp → Prop
  | _, [] => True
  | m, .query k st :: rest => rewindsMove (m.query k st).1 rest
  | m, .clear r :: rest => rewindsMove (m.clear r) rest
  | m, .rewind r :: rest => r ≠ m.round ∧ rewindsMove (m.rewind r) rest

end YouVerif.C04
