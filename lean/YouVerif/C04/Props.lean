/-
C04 — "Sortition selects exactly the binomial quantile and its proofs bind all inputs".

Property theorems over the executable model `YouVerif.C04.Model` (the model the driver `drv_c04` runs against the real
Go code on every check). Float64 values are bit patterns of finite non-negative doubles (`F64 = Nat`, numeric order =
order of the bits). gonum's `distuv.Binomial.CDF` is the parameter `cdf`; the VRF and Keccak-256 are parameters with
explicit hypotheses. Nothing here is `decide`d over samples except inside `example`s, which are labelled tests.
-/
import YouVerif.C04.Proofs
namespace YouVerif.C04.Props
open YouVerif.C04

/-! ## 1. `search` -/

/-- `search` on ANY predicate (monotone or not) returns a boundary: inside `[0,n]`, false just below, true at it.
    This is the implementation-level oracle `isMatch(j) ∧ ¬isMatch(j−1)`, proved for all inputs. -/
theorem search_boundary (n : Nat) (f : Nat → Bool) :
    search n f ≤ n ∧ (0 < search n f → f (search n f - 1) = false) ∧ (search n f < n → f (search n f) = true) :=
  search_boundary_aux n f

/-- For a predicate that is monotone on `[0,n)` and taken as true at `n` (the code never probes `n`),
    `search` returns the LEAST true index. -/
theorem search_least (n : Nat) (f : Nat → Bool)
    (mono : ∀ a b, a ≤ b → b < n → f a = true → f b = true) :
    search n f ≤ n ∧ (search n f < n → f (search n f) = true) ∧ ∀ k, k < search n f → f k = false :=
  ⟨(search_boundary n f).1, (search_boundary n f).2.2, search_least_aux n f mono⟩

/-- test: hypotheses are satisfiable, result is the first `true` -/
example : search 6 (fun k => decide (4 ≤ k)) = 4 := by decide
/-- test: a non-monotone table still yields a boundary (here index 2), not the least true index (0) -/
example : search 4 (fun k => k == 0 || k == 2 || k == 3) = 2 := by decide

/-- the forward scan returns the least matching index in `[0,n]`, or `n` when nothing matches -/
theorem scan_least (n : Nat) (f : Nat → Bool) :
    scan n f ≤ n ∧ (∀ k, k < scan n f → f k = false) ∧
    (f (scan n f) = true ∨ (scan n f = n ∧ ∀ k, k ≤ n → f k = false)) :=
  scan_spec n f

/-! ## 2. `choose` = the quantile -/

/-- `j` is the `t`-quantile of the CDF `F` on `[0,w]`: the smallest `j` with `t ≤ F j`. -/
def IsQuantile (F : Nat → F64) (t : F64) (w j : Nat) : Prop :=
  j ≤ w ∧ t ≤ F j ∧ ∀ k, k < j → F k < t

theorem quantile_unique {F : Nat → F64} {t : F64} {w j j' : Nat}
    (h : IsQuantile F t w j) (h' : IsQuantile F t w j') : j = j' := by
  obtain ⟨_, h2, h3⟩ := h
  obtain ⟨_, h2', h3'⟩ := h'
  by_cases hlt : j < j'
  · have := h3' j hlt; fomega
  · by_cases hgt : j' < j
    · have := h3 j' hgt; fomega
    · omega

/-- What the decision logic needs from the numerics (hypotheses about gonum's float CDF; sampled by the harness, not proved):
    the CDF with parameter `p` is monotone and reaches the target at `w`; above the 0.99 cut-over the mirrored
    comparison `1-target < F_{1-p}(k)` agrees with the direct one `F_p(w-1-k) < target`; and at hash `2^256-1` no
    smaller index reaches the target (true of the exact CDF iff `p > 0`). -/
structure CdfOk (cdf : F64 → Nat → F64) (hb w : Nat) (p : F64) : Prop where
  mono : ∀ a b, a ≤ b → b ≤ w → cdf p a ≤ cdf p b
  top : targetOf hb ≤ cdf p w
  mirror : f64_099 < targetOf hb → ∀ k, k < w →
    (invOf hb < cdf (f64OneMinus p) k ↔ cdf p (w - 1 - k) < targetOf hb)
  topEnd : hb = maxHash → ∀ k, k < w → cdf p k < targetOf hb

/-- **choose is exactly the quantile**, in every branch (exact ends, mirrored upper tail, forward scan, binary search):
    outside the crash guard (`p > 1`, where gonum panics) the result is the smallest `j ∈ [0, stake]` whose CDF
    reaches `target = float64(hash / (2^256-1))`. -/
theorem choose_is_quantile (cdf : F64 → Nat → F64) (hb w : Nat) (p : F64)
    (hok : CdfOk cdf hb w p) (hdom : ¬ (f64One < p ∧ 0 < w)) :
    ∃ j, choose cdf hb w p = .ok j ∧ IsQuantile (cdf p) (targetOf hb) w j := by
  rcases chooseBranch_cases hb w p with ⟨h1, hbr⟩ | ⟨_, h0, hbr⟩ | ⟨_, _, hc, _⟩ | ⟨_, _, _, h99, hbr⟩ |
      ⟨_, _, _, _, _, hbr⟩ | ⟨_, _, _, _, _, hbr⟩
  · -- hash = 2^256-1
    refine ⟨w, by simp only [choose, hbr], Nat.le_refl _, hok.top, fun k hk => hok.topEnd h1 k hk⟩
  · -- hash = 0
    refine ⟨0, by simp only [choose, hbr], Nat.zero_le _, ?_, fun k hk => absurd hk (Nat.not_lt_zero k)⟩
    subst h0
    simp [targetOf]
  · exact absurd hc hdom
  · -- mirrored upper tail
    refine ⟨w - search w (fun h => decide (invOf hb < cdf (f64OneMinus p) h)), by simp only [choose, hbr],
      Nat.sub_le _ _, ?_, ?_⟩
    · -- target ≤ F (w - k)
      have hb' := search_boundary w (fun h => decide (invOf hb < cdf (f64OneMinus p) h))
      by_cases hk0 : search w (fun h => decide (invOf hb < cdf (f64OneMinus p) h)) = 0
      · rw [hk0]; exact hok.top
      · have hpos : 0 < search w (fun h => decide (invOf hb < cdf (f64OneMinus p) h)) := by omega
        have hf := hb'.2.1 hpos
        have hnot : ¬ invOf hb < cdf (f64OneMinus p) (search w (fun h => decide (invOf hb < cdf (f64OneMinus p) h)) - 1) := by
          simpa using hf
        have hm := hok.mirror h99 (search w (fun h => decide (invOf hb < cdf (f64OneMinus p) h)) - 1) (by omega)
        have : ¬ cdf p (w - 1 - (search w (fun h => decide (invOf hb < cdf (f64OneMinus p) h)) - 1)) < targetOf hb :=
          fun h => hnot (hm.mpr h)
        have e : w - 1 - (search w (fun h => decide (invOf hb < cdf (f64OneMinus p) h)) - 1)
            = w - search w (fun h => decide (invOf hb < cdf (f64OneMinus p) h)) := by omega
        rw [e] at this
        fomega
    · -- everything below w - k is below the target
      intro i hi
      have hb' := search_boundary w (fun h => decide (invOf hb < cdf (f64OneMinus p) h))
      have hklt : search w (fun h => decide (invOf hb < cdf (f64OneMinus p) h)) < w := by omega
      have hf := hb'.2.2 hklt
      have hin : invOf hb < cdf (f64OneMinus p) (search w (fun h => decide (invOf hb < cdf (f64OneMinus p) h))) := by
        simpa using hf
      have hm := (hok.mirror h99 _ hklt).mp hin
      have := hok.mono i (w - 1 - search w (fun h => decide (invOf hb < cdf (f64OneMinus p) h))) (by omega) (by omega)
      fomega
  · -- forward scan
    have hs := scan_least w (fun h => decide (targetOf hb ≤ cdf p h))
    refine ⟨scan w (fun h => decide (targetOf hb ≤ cdf p h)), by simp only [choose, hbr], hs.1, ?_, ?_⟩
    · rcases hs.2.2 with h | ⟨_, hall⟩
      · simpa using h
      · have := hall w (Nat.le_refl _)
        have hn : ¬ targetOf hb ≤ cdf p w := by simpa using this
        exact absurd hok.top hn
    · intro k hk
      have := hs.2.1 k hk
      have hn : ¬ targetOf hb ≤ cdf p k := by simpa using this
      fomega
  · -- binary search
    have hmono : ∀ a b, a ≤ b → b < w → (fun h => decide (targetOf hb ≤ cdf p h)) a = true →
        (fun h => decide (targetOf hb ≤ cdf p h)) b = true := by
      intro a b hab hbw ha
      have ha' : targetOf hb ≤ cdf p a := by simpa using ha
      have := hok.mono a b hab (by omega)
      simp only [decide_eq_true_eq]
      fomega
    have hs := search_least w (fun h => decide (targetOf hb ≤ cdf p h)) hmono
    refine ⟨search w (fun h => decide (targetOf hb ≤ cdf p h)), by simp only [choose, hbr], hs.1, ?_, ?_⟩
    · by_cases hlt : search w (fun h => decide (targetOf hb ≤ cdf p h)) < w
      · simpa using hs.2.1 hlt
      · have : search w (fun h => decide (targetOf hb ≤ cdf p h)) = w := by omega
        rw [this]; exact hok.top
    · intro k hk
      have := hs.2.2 k hk
      have hn : ¬ targetOf hb ≤ cdf p k := by simpa using this
      fomega

/-- The mirrored branch returns the same `j` as the direct definition (binary search on `target ≤ F_p`). -/
theorem choose_mirror_agrees (cdf : F64 → Nat → F64) (hb w : Nat) (p : F64)
    (hok : CdfOk cdf hb w p) (h99 : f64_099 < targetOf hb) (hne : hb ≠ maxHash) (hpos : 0 < hb)
    (hdom : ¬ (f64One < p ∧ 0 < w)) :
    w - search w (fun h => decide (invOf hb < cdf (f64OneMinus p) h))
      = search w (fun h => decide (targetOf hb ≤ cdf p h)) := by
  -- left side is the quantile by `choose_is_quantile`, right side is the quantile by `search_least`
  obtain ⟨j, hj, hq⟩ := choose_is_quantile cdf hb w p hok hdom
  have hbr : chooseBranch hb w p = .mirror := by
    rcases chooseBranch_cases hb w p with ⟨h1, _⟩ | ⟨_, h0, _⟩ | ⟨_, _, hc, _⟩ | ⟨_, _, _, _, hbr⟩ |
        ⟨_, _, _, hn, _⟩ | ⟨_, _, _, hn, _⟩
    · exact absurd h1 hne
    · omega
    · exact absurd hc hdom
    · exact hbr
    · exact absurd h99 hn
    · exact absurd h99 hn
  simp only [choose, hbr] at hj
  injection hj with hj
  have hmono : ∀ a b, a ≤ b → b < w → (fun h => decide (targetOf hb ≤ cdf p h)) a = true →
      (fun h => decide (targetOf hb ≤ cdf p h)) b = true := by
    intro a b hab hbw ha
    have ha' : targetOf hb ≤ cdf p a := by simpa using ha
    have := hok.mono a b hab (by omega)
    simp only [decide_eq_true_eq]
    fomega
  have hs := search_least w (fun h => decide (targetOf hb ≤ cdf p h)) hmono
  have hq' : IsQuantile (cdf p) (targetOf hb) w (search w (fun h => decide (targetOf hb ≤ cdf p h))) := by
    refine ⟨hs.1, ?_, ?_⟩
    · by_cases hlt : search w (fun h => decide (targetOf hb ≤ cdf p h)) < w
      · simpa using hs.2.1 hlt
      · have : search w (fun h => decide (targetOf hb ≤ cdf p h)) = w := by omega
        rw [this]; exact hok.top
    · intro k hk
      have := hs.2.2 k hk
      have hn : ¬ targetOf hb ≤ cdf p k := by simpa using this
      fomega
  rw [hj]
  exact quantile_unique hq hq'

/-- The two exact ends, for every CDF and every `p` (no hypothesis). -/
theorem choose_ends (cdf : F64 → Nat → F64) (w : Nat) (p : F64) :
    choose cdf maxHash w p = .ok w ∧ choose cdf 0 w p = .ok 0 := by
  constructor
  · rcases chooseBranch_cases maxHash w p with ⟨_, hbr⟩ | ⟨h, _⟩ | ⟨h, _⟩ | ⟨h, _⟩ | ⟨h, _⟩ | ⟨h, _⟩
    · simp only [choose, hbr]
    all_goals exact absurd rfl h
  · rcases chooseBranch_cases 0 w p with ⟨h, _⟩ | ⟨_, _, hbr⟩ | ⟨_, h, _⟩ | ⟨_, h, _⟩ | ⟨_, h, _⟩ | ⟨_, h, _⟩
    · exact absurd h (by decide)
    · simp only [choose, hbr]
    all_goals exact absurd h (Nat.lt_irrefl 0)

/-- "always between 0 and its stake": for EVERY cdf (monotone or garbage), every hash and every `p`. -/
theorem choose_range (cdf : F64 → Nat → F64) (hb w : Nat) (p : F64) (j : Nat)
    (h : choose cdf hb w p = .ok j) : j ≤ w := by
  rcases chooseBranch_cases hb w p with ⟨_, hbr⟩ | ⟨_, _, hbr⟩ | ⟨_, _, _, hbr⟩ | ⟨_, _, _, _, hbr⟩ |
      ⟨_, _, _, _, _, hbr⟩ | ⟨_, _, _, _, _, hbr⟩
  all_goals simp only [choose, hbr] at h
  · injection h with h; omega
  · injection h with h; omega
  · exact absurd h (by simp)
  · injection h with h; omega
  · injection h with h
    have := (scan_least w (fun h => decide (targetOf hb ≤ cdf p h))).1
    omega
  · injection h with h
    have := (search_boundary w (fun h => decide (targetOf hb ≤ cdf p h))).1
    omega

/-- `uint32(j)` never truncates for stakes below 2^32 (the property's range is stake ≤ 10^7). -/
theorem seats_fit_uint32 (cdf : F64 → Nat → F64) (hb w : Nat) (p : F64) (j : Nat)
    (hw : w < 2 ^ 32) (h : choose cdf hb w p = .ok j) : j % 2 ^ 32 = j :=
  Nat.mod_eq_of_lt (Nat.lt_of_le_of_lt (choose_range cdf hb w p j h) hw)

/-- `choose` crashes (gonum panic) exactly when `p > 1` with a positive stake and a hash strictly between the ends:
    the guard `threshold ≤ totalStake` of the other theorems. -/
theorem choose_crash_iff (cdf : F64 → Nat → F64) (hb w : Nat) (p : F64) :
    choose cdf hb w p = .crash ↔ (hb ≠ maxHash ∧ 0 < hb ∧ f64One < p ∧ 0 < w) := by
  rcases chooseBranch_cases hb w p with ⟨h1, hbr⟩ | ⟨_, h0, hbr⟩ | ⟨h1, h2, hc, hbr⟩ | ⟨_, _, hc, _, hbr⟩ |
      ⟨_, _, hc, _, _, hbr⟩ | ⟨_, _, hc, _, _, hbr⟩
  all_goals simp only [choose, hbr]
  · constructor
    · intro h; exact absurd h (by simp)
    · intro h; exact absurd h1 h.1
  · constructor
    · intro h; exact absurd h (by simp)
    · intro h; omega
  · constructor
    · intro _; exact ⟨h1, h2, hc.1, hc.2⟩
    · intro _; trivial
  all_goals
    constructor
    · intro h; exact absurd h (by simp)
    · intro h; exact absurd ⟨h.2.2.1, h.2.2.2⟩ hc

/-- The driver's evaluation over the finitely many CDF values received from the harness equals `choose` over
    any total CDF that extends them (so the correspondence check really runs `choose`). -/
theorem chooseP_sound (look : F64 → Nat → Option F64) (cdf : F64 → Nat → F64)
    (hext : ∀ P k v, look P k = some v → cdf P k = v) (hb w : Nat) (p : F64) (r : Res)
    (h : chooseP look hb w p = .ok r) : choose cdf hb w p = r := by
  unfold chooseP at h
  unfold choose
  cases hbr : chooseBranch hb w p <;> simp only [hbr] at h ⊢
  · injection h
  · injection h
  · injection h
  · -- mirror
    cases hs : searchP w (fun h => (look (f64OneMinus p) h).map (fun v => decide (invOf hb < v))) with
    | error k => simp [hs] at h
    | ok k =>
      simp only [hs] at h
      have := searchLoopP_sound _ (fun h => decide (invOf hb < cdf (f64OneMinus p) h))
        (by
          intro k b hk
          cases hl : look (f64OneMinus p) k with
          | none => simp [hl] at hk
          | some v =>
            simp only [hl, Option.map_some, Option.some.injEq] at hk
            rw [hext _ _ _ hl]; exact hk) w 0 w k hs
      unfold search
      rw [this]
      injection h
  · -- scan
    cases hs : scanP w (fun h => (look p h).map (fun v => decide (targetOf hb ≤ v))) with
    | error k => simp [hs] at h
    | ok k =>
      simp only [hs] at h
      have := scanLoopP_sound _ (fun h => decide (targetOf hb ≤ cdf p h)) w
        (by
          intro k b hk
          cases hl : look p k with
          | none => simp [hl] at hk
          | some v =>
            simp only [hl, Option.map_some, Option.some.injEq] at hk
            rw [hext _ _ _ hl]; exact hk) (w + 1) 0 k hs
      unfold scan
      rw [this]
      injection h
  · -- search
    cases hs : searchP w (fun h => (look p h).map (fun v => decide (targetOf hb ≤ v))) with
    | error k => simp [hs] at h
    | ok k =>
      simp only [hs] at h
      have := searchLoopP_sound _ (fun h => decide (targetOf hb ≤ cdf p h))
        (by
          intro k b hk
          cases hl : look p k with
          | none => simp [hl] at hk
          | some v =>
            simp only [hl, Option.map_some, Option.some.injEq] at hk
            rw [hext _ _ _ hl]; exact hk) w 0 w k hs
      unfold search
      rw [this]
      injection h

/-! ## 3. the VRF message -/

/-- `MakeM` is injective on (32-byte seed, uint32 role, uint32 index): the message determines all three. -/
theorem makeM_injective (seed seed' : List UInt8) (role role' index index' : Nat)
    (hs : seed.length = 32) (hs' : seed'.length = 32)
    (hr : role < 2 ^ 32) (hr' : role' < 2 ^ 32) (hi : index < 2 ^ 32) (hi' : index' < 2 ^ 32)
    (h : makeM seed role index = makeM seed' role' index') :
    seed = seed' ∧ role = role' ∧ index = index' := by
  unfold makeM at h
  have h1 := List.append_inj' h (by simp [be32_length])
  have h2 := List.append_inj h1.1 (by omega)
  exact ⟨h2.1, be32_inj hr hr' h2.2, be32_inj hi hi' h1.2⟩

/-- test: layout -/
example : makeM (List.replicate 32 7) 1 2 = List.replicate 32 7 ++ [0, 0, 0, 1] ++ [0, 0, 0, 2] := by decide

/-! ## 4. verifiers bind their inputs -/

section Verify
variable {SK PK Proof Rand : Type} (V : Vrf SK PK Proof Rand) (cdf : F64 → Nat → F64) (K : List UInt8 → List UInt8)

/-- Acceptance by `VrfVerifySortition` means: the proof verifies under this key for exactly the message
    `MakeM(seed, role, index)`, the recomputed `choose` of the VRF hash is positive and is the claimed seat count. -/
theorem verify_binds (pk : PK) (seed : List UInt8) (index role : Nat) (proof : Proof) (sub : Nat) (s : Stakes)
    (h : verifySortition V cdf pk seed index role proof sub s = .accept) :
    s.total ≠ 0 ∧ ∃ hash j, V.proofToHash pk (makeM seed role index) proof = some hash ∧
      choose cdf (natOfBytes hash) s.stake (pOf s.threshold s.total) = .ok j ∧ 0 < j ∧ j % 2 ^ 32 = sub := by
  unfold verifySortition at h
  by_cases ht : s.total = 0
  · simp [ht] at h
  · simp only [ht, if_false] at h
    refine ⟨ht, ?_⟩
    cases hv : V.proofToHash pk (makeM seed role index) proof with
    | none => simp [hv] at h
    | some hash =>
      simp only [hv] at h
      cases hc : choose cdf (natOfBytes hash) s.stake (pOf s.threshold s.total) with
      | crash => simp [hc] at h
      | ok j =>
        simp only [hc] at h
        by_cases hj : j = 0
        · simp [hj] at h
        · simp only [hj, if_false] at h
          by_cases hsub : j % 2 ^ 32 ≠ sub
          · simp [hsub] at h
          · exact ⟨hash, j, rfl, hc, by omega, by omega⟩

/-- Same for `VrfVerifyPriority`, plus: the priority is exactly `computePriority` of the VRF hash and the seat count.
    NOTE (code as it exists): no `0 < j` here — see `verifyPriority_accepts_zero_seats`. -/
theorem verifyPriority_binds (pk : PK) (seed : List UInt8) (index role : Nat) (proof : Proof) (priority : List UInt8)
    (sub : Nat) (s : Stakes)
    (h : verifyPriority V cdf K pk seed index role proof priority sub s = .accept) :
    s.total % 2 ^ 64 ≠ 0 ∧ ∃ hash j, V.proofToHash pk (makeM seed role index) proof = some hash ∧
      choose cdf (natOfBytes hash) s.stake (pOf s.threshold s.total) = .ok j ∧ j % 2 ^ 32 = sub ∧
      priority = computePriority K hash j := by
  unfold verifyPriority at h
  by_cases ht : s.total % 2 ^ 64 = 0
  · simp [ht] at h
  · simp only [ht, if_false] at h
    refine ⟨ht, ?_⟩
    cases hv : V.proofToHash pk (makeM seed role index) proof with
    | none => simp [hv] at h
    | some hash =>
      simp only [hv] at h
      cases hc : choose cdf (natOfBytes hash) s.stake (pOf s.threshold s.total) with
      | crash => simp [hc] at h
      | ok j =>
        simp only [hc] at h
        by_cases hsub : j % 2 ^ 32 ≠ sub
        · simp [hsub] at h
        · simp only [hsub, if_false] at h
          by_cases hp : computePriority K hash j = priority
          · exact ⟨hash, j, rfl, hc, by omega, hp.symm⟩
          · simp [hp] at h

/-- VRF-U (DESIGN section 3): all accepting proofs for one (key, message) yield one hash. -/
def VrfUnique : Prop :=
  ∀ pk m π π' h h', V.proofToHash pk m π = some h → V.proofToHash pk m π' = some h' → h = h'

/-- VRF-B (proof binding): a proof accepted for (key, message) is accepted for no other (key, message). -/
def VrfBinding : Prop :=
  ∀ pk pk' m m' π h h', V.proofToHash pk m π = some h → V.proofToHash pk' m' π = some h' → pk = pk' ∧ m = m'

/-- completeness of the prover: what `Evaluate` returns verifies to the same value -/
def VrfComplete : Prop :=
  ∀ sk m ρ, V.proofToHash (V.pkOf sk) m (V.evaluate sk m ρ).2 = some (V.evaluate sk m ρ).1

/-- Under VRF-U a key holder cannot obtain two different seat counts for one (seed, role, index): whatever proofs it
    grinds, every accepted credential carries the same seat count (stake < 2^32). -/
theorem seats_unique (hU : VrfUnique V) (pk : PK) (seed : List UInt8) (index role : Nat) (π π' : Proof) (sub sub' : Nat)
    (s : Stakes)
    (h : verifySortition V cdf pk seed index role π sub s = .accept)
    (h' : verifySortition V cdf pk seed index role π' sub' s = .accept) : sub = sub' := by
  obtain ⟨_, hash, j, hv, hc, _, hs⟩ := verify_binds V cdf pk seed index role π sub s h
  obtain ⟨_, hash', j', hv', hc', _, hs'⟩ := verify_binds V cdf pk seed index role π' sub' s h'
  have := hU pk _ π π' hash hash' hv hv'
  subst this
  rw [hc] at hc'
  injection hc' with hjj
  omega

/-- Under VRF-B a credential (proof) accepted for (key, seed, index, role, seats) is accepted for no other
    key, seed, round index, step or seat count. -/
theorem credential_binds (hB : VrfBinding V) (pk pk' : PK) (seed seed' : List UInt8) (index index' role role' : Nat)
    (π : Proof) (sub sub' : Nat) (s : Stakes)
    (hs : seed.length = 32) (hs' : seed'.length = 32)
    (hr : role < 2 ^ 32) (hr' : role' < 2 ^ 32) (hi : index < 2 ^ 32) (hi' : index' < 2 ^ 32)
    (h : verifySortition V cdf pk seed index role π sub s = .accept)
    (h' : verifySortition V cdf pk' seed' index' role' π sub' s = .accept) :
    pk = pk' ∧ seed = seed' ∧ index = index' ∧ role = role' ∧ sub = sub' := by
  obtain ⟨_, hash, j, hv, hc, _, hsub⟩ := verify_binds V cdf pk seed index role π sub s h
  obtain ⟨_, hash', j', hv', hc', _, hsub'⟩ := verify_binds V cdf pk' seed' index' role' π sub' s h'
  obtain ⟨hpk, hm⟩ := hB pk pk' _ _ π hash hash' hv hv'
  obtain ⟨e1, e2, e3⟩ := makeM_injective seed seed' role role' index index' hs hs' hr hr' hi hi' hm
  subst hpk; subst e1; subst e2; subst e3
  rw [hv] at hv'
  injection hv' with hh
  subst hh
  rw [hc] at hc'
  injection hc' with hjj
  exact ⟨rfl, rfl, rfl, rfl, by omega⟩

/-- Prover and verifier agree: a credential produced by `VrfSortition` with a positive seat count is accepted by
    `VrfVerifySortition` under the prover's public key and the same stake parameters. -/
theorem prover_verifier_agree (hC : VrfComplete V) (sk : SK) (ρ : Rand) (seed : List UInt8) (index role : Nat) (s : Stakes)
    (value : List UInt8) (proof : Proof) (sub : Nat)
    (h : vrfSortition V cdf sk ρ seed index role s = some (value, proof, sub)) (hpos : 0 < sub) :
    verifySortition V cdf (V.pkOf sk) seed index role proof sub s = .accept := by
  unfold vrfSortition at h
  by_cases ht : s.total = 0
  · simp [ht] at h
  · simp only [ht, if_false] at h
    have hc := hC sk (makeM seed role index) ρ
    cases hch : choose cdf (natOfBytes (V.evaluate sk (makeM seed role index) ρ).1) s.stake (pOf s.threshold s.total) with
    | crash => simp [hch] at h
    | ok j =>
      simp only [hch, Option.some.injEq, Prod.mk.injEq] at h
      obtain ⟨hval, hproof, hsub⟩ := h
      unfold verifySortition
      simp only [ht, if_false]
      rw [← hproof, hc]
      simp only [hch]
      have hj : j ≠ 0 := by
        intro h0; subst h0; simp at hsub; omega
      simp [hj, hsub]

/-- … and its priority is accepted by `VrfVerifyPriority` (for any seat count, zero included). -/
theorem prover_priority_agree (hC : VrfComplete V) (sk : SK) (ρ : Rand) (seed : List UInt8) (index role : Nat) (s : Stakes)
    (value : List UInt8) (proof : Proof) (sub : Nat) (ht64 : s.total % 2 ^ 64 ≠ 0) (hw : s.stake < 2 ^ 32)
    (h : vrfSortition V cdf sk ρ seed index role s = some (value, proof, sub)) :
    verifyPriority V cdf K (V.pkOf sk) seed index role proof (computePriority K value sub) sub s = .accept := by
  unfold vrfSortition at h
  have ht : s.total ≠ 0 := by intro h0; rw [h0] at ht64; exact ht64 rfl
  simp only [ht, if_false] at h
  have hc := hC sk (makeM seed role index) ρ
  cases hch : choose cdf (natOfBytes (V.evaluate sk (makeM seed role index) ρ).1) s.stake (pOf s.threshold s.total) with
  | crash => simp [hch] at h
  | ok j =>
    simp only [hch, Option.some.injEq, Prod.mk.injEq] at h
    obtain ⟨hval, hproof, hsub⟩ := h
    have hfit := seats_fit_uint32 cdf _ _ _ j hw hch
    unfold verifyPriority
    simp only [ht64, if_false]
    rw [← hproof, hc]
    simp only [hch]
    rw [hfit] at hsub
    subst hsub
    simp [hfit, hval]

end Verify

/-! ## 5. priority -/

/-- `computePriority hash j` is the largest seat hash over seats `0..j`: it dominates every seat hash, and it is one of
    them (or the all-zero hash it starts from, which only survives if every seat hash has value 0). -/
theorem priority_is_max (K : List UInt8 → List UInt8) (hash : List UInt8) (j : Nat) :
    (∀ t, t ≤ j → natOfBytes (K (hash ++ minBE t)) ≤ natOfBytes (computePriority K hash j)) ∧
    (computePriority K hash j = zero32 ∨ ∃ t, t ≤ j ∧ computePriority K hash j = K (hash ++ minBE t)) := by
  have := priorityLoop_spec K hash (j + 1) 0 zero32
  refine ⟨fun t ht => this.2.1 t (Nat.zero_le _) (by omega), ?_⟩
  rcases this.2.2 with h | ⟨t, _, h2, h3⟩
  · exact Or.inl h
  · exact Or.inr ⟨t, by omega, h3⟩

/-- distinct seats have distinct hash inputs (`i.Bytes()` is injective), so the maximum really ranges over j+1 hashes -/
theorem seat_inputs_distinct (hash : List UInt8) (t t' : Nat) (h : hash ++ minBE t = hash ++ minBE t') : t = t' := by
  have := List.append_cancel_left h
  have h2 := congrArg natOfBytes this
  rwa [natOfBytes_minBE, natOfBytes_minBE] at h2

/-- so a priority that verifies is the largest hash over the claimed seats -/
theorem verified_priority_is_max {SK PK Proof Rand : Type} (V : Vrf SK PK Proof Rand) (cdf : F64 → Nat → F64)
    (K : List UInt8 → List UInt8) (pk : PK) (seed : List UInt8) (index role : Nat) (proof : Proof)
    (priority : List UInt8) (sub : Nat) (s : Stakes)
    (h : verifyPriority V cdf K pk seed index role proof priority sub s = .accept) :
    ∃ hash j, V.proofToHash pk (makeM seed role index) proof = some hash ∧ j % 2 ^ 32 = sub ∧
      (∀ t, t ≤ j → natOfBytes (K (hash ++ minBE t)) ≤ natOfBytes priority) ∧
      (priority = zero32 ∨ ∃ t, t ≤ j ∧ priority = K (hash ++ minBE t)) := by
  obtain ⟨_, hash, j, hv, _, hs, hp⟩ := verifyPriority_binds V cdf K pk seed index role proof priority sub s h
  subst hp
  exact ⟨hash, j, hv, hs, (priority_is_max K hash j).1, (priority_is_max K hash j).2⟩

/-! ## 6. the code as it exists: a non-winner's priority verifies

`VrfVerifyPriority` has no `j > 0` test (unlike `VrfVerifySortition`), and `computePriority` ranges over `0..j`
inclusive, so a validator that won ZERO seats holds a priority that verifies (with `subUsers = 0`). The repository's own
`TestVrfVerifyPriority` relies on it. Stated here as a fact about the model, replayed on the real code by the harness. -/

/-- a trivial VRF whose proof is the hash itself (test instance) -/
def idVrf : Vrf Unit Unit (List UInt8) Unit :=
  { pkOf := id, evaluate := fun _ _ _ => (zero32, zero32), proofToHash := fun _ _ π => some π }

/-- test instance: hash 0 wins zero seats, `VrfVerifySortition` refuses it, `VrfVerifyPriority` accepts its priority -/
theorem verifyPriority_accepts_zero_seats :
    ∃ (cdf : F64 → Nat → F64) (K : List UInt8 → List UInt8) (s : Stakes) (priority : List UInt8),
      choose cdf (natOfBytes zero32) s.stake (pOf s.threshold s.total) = .ok 0 ∧
      verifySortition idVrf cdf () zero32 0 1 zero32 0 s = .notValidator ∧
      verifyPriority idVrf cdf K () zero32 0 1 zero32 priority 0 s = .accept := by
  refine ⟨fun _ _ => f64One, fun _ => zero32, ⟨26, 10, 1000⟩, zero32, ?_, ?_, ?_⟩
  · exact (choose_ends _ _ _).2
  · have h0 : natOfBytes zero32 = 0 := natOfBytes_zero32
    unfold verifySortition
    simp only [idVrf, h0, (choose_ends _ _ _).2]
    decide
  · have h0 : natOfBytes zero32 = 0 := natOfBytes_zero32
    unfold verifyPriority
    simp only [idVrf, h0, (choose_ends _ _ _).2]
    decide

/-! ## 7. the node-level verifiers (`Server.verifyPriority`, `Server.verifySortition`)

`Server.verifyPriority` is modelled AFTER the repair of finding F-C04a (it used to return `VrfVerifyPriority`'s nil error
on a priority mismatch, i.e. accept a forged priority; witness kept in corpus/C04). `Server.verifySortition` is modelled
as it exists: lenient for messages older than the node's own position (open finding F-C04b). -/

/-- the node accepts a proposer priority only if `VrfVerifyPriority` accepts it — hence only the largest seat hash of a
    credential that verifies for this key, seed, round index, step and seat count (`verified_priority_is_max`). -/
theorem server_verifyPriority_binds {SK PK Proof Rand : Type} (V : Vrf SK PK Proof Rand) (cdf : F64 → Nat → F64)
    (K : List UInt8 → List UInt8) (pk : PK) (seed : List UInt8) (index role : Nat) (proof : Proof)
    (priority : List UInt8) (sub : Nat) (s : Stakes)
    (h : serverVerifyPriority V cdf K pk seed index role proof priority sub s = .accept) :
    verifyPriority V cdf K pk seed index role proof priority sub s = .accept := by
  unfold serverVerifyPriority at h
  cases hv : verifyPriority V cdf K pk seed index role proof priority sub s <;> simp [hv, nodePriorityOutcome] at h ⊢

/-- full statement for votes: the node accepts a vote credential only if `VrfVerifySortition` accepts it.
    FALSE of the code that exists, see `server_verifySortition_lenient_counterexample`. -/
def server_verifySortition_binds_statement : Prop :=
  ∀ (V : Vrf Unit Unit (List UInt8) Unit) (cdf : F64 → Nat → F64) (ctx : NodeCtx) (msgRound : Nat)
    (seed : List UInt8) (index role : Nat) (proof : List UInt8) (sub : Nat) (s : Stakes),
    serverVerifySortition V cdf ctx msgRound () seed index role proof sub s = .accept →
    verifySortition V cdf () seed index role proof sub s = .accept

/-- proved part: for a message at or after the node's own (round, index) the node accepts only what
    `VrfVerifySortition` accepts (then `verify_binds`, `seats_unique`, `credential_binds` apply). -/
theorem server_verifySortition_binds_partial {SK PK Proof Rand : Type} (V : Vrf SK PK Proof Rand) (cdf : F64 → Nat → F64)
    (ctx : NodeCtx) (msgRound : Nat) (pk : PK) (seed : List UInt8) (index role : Nat) (proof : Proof) (sub : Nat) (s : Stakes)
    (hcur : ¬ (msgRound < ctx.round ∨ index < ctx.roundIndex))
    (h : serverVerifySortition V cdf ctx msgRound pk seed index role proof sub s = .accept) :
    verifySortition V cdf pk seed index role proof sub s = .accept := by
  unfold serverVerifySortition at h
  cases hv : verifySortition V cdf pk seed index role proof sub s <;>
    simp [hv, nodeSortitionOutcome, hcur] at h ⊢

/-- a VRF that rejects every proof (test instance) -/
def noVrf : Vrf Unit Unit (List UInt8) Unit :=
  { pkOf := id, evaluate := fun _ _ _ => (zero32, []), proofToHash := fun _ _ _ => none }

/-- F-C04b on the model: a node at (round 50, index 2) accepts, for index 1, a credential whose proof does not verify
    at all, with any claimed seat count. Replayed on the real `Server.verifySortition` by the harness on every run. -/
theorem server_verifySortition_lenient_counterexample : ¬ server_verifySortition_binds_statement := by
  intro h
  have := h noVrf (fun _ _ => f64One) ⟨50, 2⟩ 50 zero32 1 2 [1, 2, 3] 1000000 ⟨2000, 20000, 100000⟩ (by decide)
  revert this
  decide

/-- **Step binding on the live entry point.** `server_verifyPriority_binds` holds for whatever step the caller passes;
    it is the CALLER (`Proposal.process*Message`) that pins the step to `Propose`. With that pin, a priority message is
    recorded only if its credential verifies as a PROPOSE-step credential for (seed, index) — whatever Step the sender
    wrote into the payload, in particular a credential honestly issued for another step is refused. -/
theorem proposal_records_only_propose_credentials {SK PK Proof Rand : Type} (V : Vrf SK PK Proof Rand)
    (cdf : F64 → Nat → F64) (K : List UInt8 → List UInt8) (pk : PK) (seed : List UInt8) (index msgStep : Nat)
    (proof : Proof) (priority : List UInt8) (sub : Nat) (s : Stakes)
    (h : proposalRecords V cdf K pk seed index msgStep proof priority sub s = .accept) :
    verifyPriority V cdf K pk seed index proposeStep proof priority sub s = .accept :=
  server_verifyPriority_binds V cdf K pk seed index proposeStep proof priority sub s h

/-- … and under VRF-B + `makeM_injective` such a credential cannot also verify for another step:
    one proof is never both a Propose credential and a credential of step `st ≠ Propose`. -/
theorem propose_credential_not_for_other_step {SK PK Proof Rand : Type} (V : Vrf SK PK Proof Rand)
    (hB : VrfBinding V) (cdf : F64 → Nat → F64) (K : List UInt8 → List UInt8) (pk : PK) (seed : List UInt8)
    (index st : Nat) (proof : Proof) (priority priority' : List UInt8) (sub sub' : Nat) (s : Stakes)
    (hs : seed.length = 32) (hi : index < 2 ^ 32) (hst : st < 2 ^ 32)
    (h1 : verifyPriority V cdf K pk seed index proposeStep proof priority sub s = .accept)
    (h2 : verifyPriority V cdf K pk seed index st proof priority' sub' s = .accept) : st = proposeStep := by
  obtain ⟨_, hash, j, hv, _⟩ := verifyPriority_binds V cdf K pk seed index proposeStep proof priority sub s h1
  obtain ⟨_, hash', j', hv', _⟩ := verifyPriority_binds V cdf K pk seed index st proof priority' sub' s h2
  obtain ⟨_, hm⟩ := hB pk pk _ _ proof hash hash' hv hv'
  have := makeM_injective seed seed proposeStep st index index hs hs (by decide) hst hi hi hm
  exact this.2.1.symm

/-- The Certificate committee is the one of the look-back header's protocol version: it does not depend on the
    parameters in force (so prover, verifier and header verification — which reads the same look-back header —
    use one committee, whatever upgrade happened in between); the other kinds read the parameters in force. -/
theorem committee_certificate_from_lookback_version (a a' : Committees) (v : Option Committees) :
    committeeFor a v .certificate = committeeFor a' v .certificate ∧
    (∀ v', committeeFor a v .propose = committeeFor a v' .propose ∧ committeeFor a v .vote = committeeFor a v' .vote) :=
  ⟨rfl, fun _ => ⟨rfl, rfl⟩⟩

/-! ## 7a. the live prover path: the SortitionManager's credential cache is transparent -/

/-- Whatever the order of `isProposer` / `isValidator` queries, `ClearStepView` calls (queries for round r+1 before its
    clear, stale queries for r after it, repeats, any steps and indices) and head rewinds onto another branch (each
    notified, as the Server does, by a `ClearStepView` for a round other than the manager's), the credential handed out
    for (round, index, step) was computed for exactly these inputs ON THE BRANCH THE CHAIN RESOLVES NOW
    (rounds below 2^64, the key's `round.Uint64()`). -/
theorem cache_transparent (ops : List MOp)
    (hr : ∀ k st, MOp.query k st ∈ ops → k.round < 2 ^ 64)
    (hw : rewindsMove Mgr.init ops) :
    ∀ asked epoch origin, (asked, epoch, origin) ∈ runOps Mgr.init ops → origin = ⟨asked, epoch⟩ := by
  have gen : ∀ (ops : List MOp) (m : Mgr), m.Inv → (∀ k st, MOp.query k st ∈ ops → k.round < 2 ^ 64) →
      rewindsMove m ops →
      ∀ asked epoch origin, (asked, epoch, origin) ∈ runOps m ops → origin = ⟨asked, epoch⟩ := by
    intro ops
    induction ops with
    | nil => intro m _ _ _ a ep o h; simp [runOps] at h
    | cons op rest ih =>
      intro m hinv hr hw a ep o h
      cases op with
      | query k st =>
        have hk := hr k st (List.mem_cons_self ..)
        have hs := m.query_spec hinv k hk st
        simp only [runOps, List.mem_cons, Prod.mk.injEq] at h
        rcases h with ⟨rfl, rfl, rfl⟩ | h
        · exact hs.1
        · exact ih _ hs.2 (fun k' st' hm => hr k' st' (List.mem_cons_of_mem _ hm)) hw a ep o h
      | clear r =>
        simp only [runOps] at h
        exact ih _ (m.clear_inv hinv r) (fun k' st' hm => hr k' st' (List.mem_cons_of_mem _ hm)) hw a ep o h
      | rewind r =>
        simp only [runOps] at h
        exact ih _ (m.rewind_inv r hw.1) (fun k' st' hm => hr k' st' (List.mem_cons_of_mem _ hm)) hw.2 a ep o h
  exact gen ops Mgr.init (by intro e he; simp [Mgr.init] at he) hr hw

/-- test: miner ahead (query r+1 before its clear) and a stale voter (query r after it) -/
example : (runOps Mgr.init [.clear 40, .query ⟨40, 1, 1⟩ true, .query ⟨41, 1, 1⟩ true, .clear 41, .query ⟨41, 1, 1⟩ true,
    .query ⟨40, 1, 2⟩ true, .query ⟨41, 1, 2⟩ true]).all (fun e => decide (e.2.2 = ⟨e.1, e.2.1⟩)) = true := by
  decide

/-- test: rounds 40, 41, head rewound to round 40 on another branch, round 41 again: fresh credentials -/
example : (runOps Mgr.init [.clear 40, .query ⟨40, 1, 2⟩ true, .clear 41, .query ⟨41, 1, 2⟩ true, .rewind 40,
    .query ⟨40, 1, 2⟩ true, .clear 41, .query ⟨41, 1, 2⟩ true]).all (fun e => decide (e.2.2 = ⟨e.1, e.2.1⟩)) = true := by
  decide

/-- test (why `rewindsMove` is a hypothesis): a branch switch notified with the manager's OWN round is not noticed by
    `ClearStepView` (`== sm.round` ⇒ return): the view of the old branch is served -/
example : runOps Mgr.init [.clear 40, .query ⟨40, 1, 2⟩ true, .rewind 40, .query ⟨40, 1, 2⟩ true]
    = [(⟨40, 1, 2⟩, 0, ⟨⟨40, 1, 2⟩, 0⟩), (⟨40, 1, 2⟩, 1, ⟨⟨40, 1, 2⟩, 0⟩)] := by
  decide

/-! ## 7b. numerics of the model: the rounding primitive

The float64 derivations (`targetOf`, `invOf`, `pOf`, `f64Mul`, `f64OneMinus`) all round through `divRNE`; their agreement
with Go's math/big and float64 arithmetic is checked bit for bit by the correspondence on every case, not proved. -/

/-- the rounding primitive of every float64 derivation of the model: `divRNE n d` is a nearest integer to `n/d` … -/
theorem divRNE_nearest (n d : Nat) (hd : 0 < d) :
    2 * (divRNE n d * d) ≤ 2 * n + d ∧ 2 * n ≤ 2 * (divRNE n d * d) + d := by
  have hdm := Nat.div_add_mod n d
  have hr := Nat.mod_lt n hd
  unfold divRNE
  simp only []
  generalize hQ : d * (n / d) = Q at hdm
  by_cases hc : 2 * (n % d) > d ∨ (2 * (n % d) = d ∧ n / d % 2 = 1)
  · rw [if_pos hc, Nat.add_mul, Nat.mul_comm (n / d) d, hQ]
    rcases hc with h | h <;> omega
  · rw [if_neg hc, Nat.mul_comm (n / d) d, hQ]
    have : ¬ 2 * (n % d) > d := fun h => hc (Or.inl h)
    omega

/-- … and on an exact tie it is the even neighbour -/
theorem divRNE_tie_even (n d : Nat) (htie : 2 * (n % d) = d) : divRNE n d % 2 = 0 := by
  unfold divRNE
  simp only []
  by_cases hodd : n / d % 2 = 1
  · rw [if_pos (Or.inr ⟨htie, hodd⟩)]; omega
  · rw [if_neg (by intro h; rcases h with h | h; omega; exact hodd h.2)]; omega

/-! ## 8. tests: the hypotheses of the theorems above are satisfiable (labelled tests, `decide` on literals) -/

set_option exponentiation.threshold 2048

/-- test table: the CDF of binomial(3, 1/2) as float64 bit patterns (0.125, 0.5, 0.875, 1.0), for every `P` -/
def cdf3 : F64 → Nat → F64 := fun _ k =>
  if k = 0 then 0x3FC0000000000000 else if k = 1 then 0x3FE0000000000000 else if k = 2 then 0x3FEC000000000000 else f64One

def half : F64 := 0x3FE0000000000000

example : targetOf (2 ^ 255) = half := by decide
example : chooseBranch (2 ^ 255) 3 half = .scan := by decide
example : choose cdf3 (2 ^ 255) 3 half = .ok 1 := by decide

/-- test: the hypotheses of `choose_is_quantile` are satisfiable (forward-scan branch, 0 < j < stake) -/
example : CdfOk cdf3 (2 ^ 255) 3 half where
  mono := by
    intro a b hab hb
    have : a = 0 ∨ a = 1 ∨ a = 2 ∨ a = 3 := by omega
    have : b = 0 ∨ b = 1 ∨ b = 2 ∨ b = 3 := by omega
    rcases ‹a = 0 ∨ a = 1 ∨ a = 2 ∨ a = 3› with rfl | rfl | rfl | rfl <;>
      rcases ‹b = 0 ∨ b = 1 ∨ b = 2 ∨ b = 3› with rfl | rfl | rfl | rfl <;> first | omega | decide
  top := by decide
  mirror := by
    intro h
    exact absurd h (by decide)
  topEnd := by
    intro h
    exact absurd h (by decide)

/-- test: mirrored branch: hash = 2^256 - 2^248 (target 0.99609375 > 0.99) wins all three seats -/
example : chooseBranch (2 ^ 256 - 2 ^ 248) 3 half = .mirror := by decide
example : choose cdf3 (2 ^ 256 - 2 ^ 248) 3 half = .ok 3 := by decide
example : CdfOk cdf3 (2 ^ 256 - 2 ^ 248) 3 half where
  mono := by
    intro a b hab hb
    have : a = 0 ∨ a = 1 ∨ a = 2 ∨ a = 3 := by omega
    have : b = 0 ∨ b = 1 ∨ b = 2 ∨ b = 3 := by omega
    rcases ‹a = 0 ∨ a = 1 ∨ a = 2 ∨ a = 3› with rfl | rfl | rfl | rfl <;>
      rcases ‹b = 0 ∨ b = 1 ∨ b = 2 ∨ b = 3› with rfl | rfl | rfl | rfl <;> first | omega | decide
  top := by decide
  mirror := by
    intro _ k hk
    have : k = 0 ∨ k = 1 ∨ k = 2 := by omega
    rcases this with rfl | rfl | rfl <;> decide
  topEnd := by
    intro h
    exact absurd h (by decide)

/-- a toy VRF (test instance): the proof is the pair (key, message); unique, binding and complete -/
def toyVrf : Vrf Nat Nat (Nat × List UInt8) Unit :=
  { pkOf := id
    evaluate := fun sk m _ => (zero32, (sk, m))
    proofToHash := fun pk m π => if π = (pk, m) then some zero32 else none }

example : VrfUnique toyVrf := by
  intro pk m π π' h h' e e'
  simp only [toyVrf] at e e'
  split at e <;> split at e' <;> simp_all

example : VrfBinding toyVrf := by
  intro pk pk' m m' π h h' e e'
  simp only [toyVrf] at e e'
  split at e <;> split at e' <;> simp_all

example : VrfComplete toyVrf := by
  intro sk m ρ
  simp [toyVrf]

end YouVerif.C04.Props
