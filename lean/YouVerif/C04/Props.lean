import YouVerif.C04.Model
namespace YouVerif.C04.Props
open YouVerif.C04

/-- bring-up placeholder: replaced by the real property theorems -/
theorem search_le (n : Nat) (f : Nat → Bool) : search n f = searchLoop f n 0 n := rfl

end YouVerif.C04.Props
