/-
C04 — helper lemmas for Props.lean (core Lean only).
-/
import YouVerif.C04.Model
namespace YouVerif.C04

/-- `omega` does not look through the abbreviation `F64 := Nat` in the type argument of `<`/`≤` -/
macro "fomega" : tactic => `(tactic| ((try unfold F64 at *) <;> omega))

/-! ### search -/

/-- loop invariant of `search`: `f (i-1) = false`, `f j = true` (with `j = n` standing for "past the end") -/
theorem searchLoop_spec (f : Nat → Bool) (n : Nat) :
    ∀ fuel i j, i ≤ j → j ≤ n → j - i ≤ fuel →
      (0 < i → f (i - 1) = false) → (j < n → f j = true) →
      i ≤ searchLoop f fuel i j ∧ searchLoop f fuel i j ≤ j ∧
      (0 < searchLoop f fuel i j → f (searchLoop f fuel i j - 1) = false) ∧
      (searchLoop f fuel i j < n → f (searchLoop f fuel i j) = true) := by
  intro fuel
  induction fuel with
  | zero =>
    intro i j hij hjn hfuel hi hj
    have : i = j := by omega
    subst this
    simp only [searchLoop]
    exact ⟨Nat.le_refl _, Nat.le_refl _, hi, hj⟩
  | succ fuel ih =>
    intro i j hij hjn hfuel hi hj
    unfold searchLoop
    by_cases hlt : i < j
    · simp only [hlt, if_true]
      have hh1 : i ≤ (i + j) / 2 := by omega
      have hh2 : (i + j) / 2 < j := by omega
      by_cases hf : f ((i + j) / 2) = true
      · simp only [hf, Bool.not_true, Bool.false_eq_true, if_false]
        have := ih i ((i + j) / 2) hh1 (by omega) (by omega) hi (fun _ => hf)
        exact ⟨this.1, by omega, this.2.2.1, this.2.2.2⟩
      · have hf' : f ((i + j) / 2) = false := by simpa using hf
        simp only [hf', Bool.not_false, if_true]
        have := ih ((i + j) / 2 + 1) j (by omega) hjn (by omega) (fun _ => by simpa using hf') hj
        exact ⟨by omega, this.2.1, this.2.2.1, this.2.2.2⟩
    · simp only [hlt, if_false]
      have : i = j := by omega
      subst this
      exact ⟨Nat.le_refl _, Nat.le_refl _, hi, hj⟩

/-- For ANY predicate: the result is in `[0,n]`, the predicate is false just below it and true at it (if inside). -/
theorem search_boundary_aux (n : Nat) (f : Nat → Bool) :
    search n f ≤ n ∧ (0 < search n f → f (search n f - 1) = false) ∧ (search n f < n → f (search n f) = true) := by
  have := searchLoop_spec f n n 0 n (Nat.zero_le _) (Nat.le_refl _) (by omega) (by omega) (by omega)
  exact ⟨this.2.1, this.2.2.1, this.2.2.2⟩

theorem search_least_aux (n : Nat) (f : Nat → Bool)
    (mono : ∀ a b, a ≤ b → b < n → f a = true → f b = true) :
    ∀ k, k < search n f → f k = false := by
  intro k hk
  have ⟨hle, hlo, _⟩ := search_boundary_aux n f
  have hpos : 0 < search n f := by omega
  have hfalse := hlo hpos
  cases hfk : f k with
  | false => rfl
  | true =>
    have := mono k (search n f - 1) (by omega) (by omega) hfk
    rw [hfalse] at this
    exact absurd this (by simp)

/-! ### scan -/

theorem scanLoop_spec (f : Nat → Bool) (n : Nat) :
    ∀ fuel j, j + fuel = n + 1 → (∀ k, k < j → f k = false) →
      scanLoop f n fuel j ≤ n ∧ (∀ k, k < scanLoop f n fuel j → f k = false) ∧
      (f (scanLoop f n fuel j) = true ∨ (scanLoop f n fuel j = n ∧ ∀ k, k ≤ n → f k = false)) := by
  intro fuel
  induction fuel with
  | zero =>
    intro j hj hpre
    have e : scanLoop f n 0 j = n := rfl
    rw [e]
    exact ⟨Nat.le_refl _, fun k hk => hpre k (by omega), Or.inr ⟨rfl, fun k hk => hpre k (by omega)⟩⟩
  | succ fuel ih =>
    intro j hj hpre
    unfold scanLoop
    by_cases hf : f j = true
    · rw [if_pos hf]
      exact ⟨by omega, hpre, Or.inl hf⟩
    · have hf' : f j = false := by simpa using hf
      rw [if_neg hf]
      apply ih (j + 1) (by omega)
      intro k hk
      by_cases hkj : k = j
      · subst hkj; exact hf'
      · exact hpre k (by omega)

theorem scan_spec (n : Nat) (f : Nat → Bool) :
    scan n f ≤ n ∧ (∀ k, k < scan n f → f k = false) ∧
    (f (scan n f) = true ∨ (scan n f = n ∧ ∀ k, k ≤ n → f k = false)) :=
  scanLoop_spec f n (n + 1) 0 (by omega) (fun k hk => absurd hk (Nat.not_lt_zero k))

/-! ### branch analysis of `choose` -/

theorem chooseBranch_cases (hb w : Nat) (p : F64) :
    (hb = maxHash ∧ chooseBranch hb w p = .top) ∨
    (hb ≠ maxHash ∧ hb = 0 ∧ chooseBranch hb w p = .zero) ∨
    (hb ≠ maxHash ∧ 0 < hb ∧ (f64One < p ∧ 0 < w) ∧ chooseBranch hb w p = .crash) ∨
    (hb ≠ maxHash ∧ 0 < hb ∧ ¬ (f64One < p ∧ 0 < w) ∧ f64_099 < targetOf hb ∧ chooseBranch hb w p = .mirror) ∨
    (hb ≠ maxHash ∧ 0 < hb ∧ ¬ (f64One < p ∧ 0 < w) ∧ ¬ f64_099 < targetOf hb ∧
        f64Mul (f64OfNat w) p < f64_20 ∧ chooseBranch hb w p = .scan) ∨
    (hb ≠ maxHash ∧ 0 < hb ∧ ¬ (f64One < p ∧ 0 < w) ∧ ¬ f64_099 < targetOf hb ∧
        ¬ f64Mul (f64OfNat w) p < f64_20 ∧ chooseBranch hb w p = .search) := by
  unfold chooseBranch
  by_cases h1 : hb = maxHash
  · simp [h1]
  · by_cases h2 : hb < 1
    · have h0 : hb = 0 := by omega
      exact Or.inr (Or.inl ⟨h1, h0, by simp [h1, h2]⟩)
    · have hpos : 0 < hb := by omega
      by_cases h3 : f64One < p ∧ 0 < w
      · simp [h1, h2, h3, hpos]
      · by_cases h4 : f64_099 < targetOf hb
        · simp [h1, h2, h3, h4, hpos]
        · by_cases h5 : f64Mul (f64OfNat w) p < f64_20
          · simp [h1, h2, h3, h4, h5, hpos]
          · simp [h1, h2, h3, h4, h5, hpos]

/-! ### evaluation over a partial table is sound -/

theorem searchLoopP_sound (f : Nat → Option Bool) (g : Nat → Bool) (hfg : ∀ k b, f k = some b → g k = b) :
    ∀ fuel i j r, searchLoopP f fuel i j = .ok r → searchLoop g fuel i j = r := by
  intro fuel
  induction fuel with
  | zero =>
    intro i j r h
    simp only [searchLoopP] at h
    simp only [searchLoop]
    injection h
  | succ fuel ih =>
    intro i j r h
    unfold searchLoopP at h
    unfold searchLoop
    by_cases hlt : i < j
    · simp only [hlt, if_true] at h ⊢
      cases hfh : f ((i + j) / 2) with
      | none => simp [hfh] at h
      | some b =>
        have hg := hfg _ _ hfh
        simp only [hfh] at h
        rw [hg]
        cases b with
        | true =>
          simp only [Bool.not_true, Bool.false_eq_true, if_false] at h ⊢
          exact ih _ _ _ h
        | false =>
          simp only [Bool.not_false, if_true] at h ⊢
          exact ih _ _ _ h
    · simp only [hlt, if_false] at h ⊢
      injection h

theorem scanLoopP_sound (f : Nat → Option Bool) (g : Nat → Bool) (n : Nat) (hfg : ∀ k b, f k = some b → g k = b) :
    ∀ fuel j r, scanLoopP f n fuel j = .ok r → scanLoop g n fuel j = r := by
  intro fuel
  induction fuel with
  | zero =>
    intro j r h
    simp only [scanLoopP] at h
    simp only [scanLoop]
    injection h
  | succ fuel ih =>
    intro j r h
    unfold scanLoopP at h
    unfold scanLoop
    cases hfj : f j with
    | none => simp [hfj] at h
    | some b =>
      have hg := hfg _ _ hfj
      simp only [hfj] at h
      rw [hg]
      cases b with
      | true =>
        simp only [if_true] at h ⊢
        injection h
      | false =>
        simp only [Bool.false_eq_true, if_false] at h ⊢
        exact ih _ _ h

/-! ### MakeM -/

theorem uint8_ofNat_inj {a b : Nat} (ha : a < 256) (hb : b < 256) (h : UInt8.ofNat a = UInt8.ofNat b) : a = b := by
  have := congrArg UInt8.toNat h
  simp only [UInt8.toNat_ofNat'] at this
  omega

theorem be32_inj {a b : Nat} (ha : a < 2 ^ 32) (hb : b < 2 ^ 32) (h : be32 a = be32 b) : a = b := by
  unfold be32 at h
  simp only [List.cons.injEq, and_true] at h
  obtain ⟨h1, h2, h3, h4⟩ := h
  have e1 := uint8_ofNat_inj (Nat.mod_lt _ (by decide)) (Nat.mod_lt _ (by decide)) h1
  have e2 := uint8_ofNat_inj (Nat.mod_lt _ (by decide)) (Nat.mod_lt _ (by decide)) h2
  have e3 := uint8_ofNat_inj (Nat.mod_lt _ (by decide)) (Nat.mod_lt _ (by decide)) h3
  have e4 := uint8_ofNat_inj (Nat.mod_lt _ (by decide)) (Nat.mod_lt _ (by decide)) h4
  omega

theorem be32_length (a : Nat) : (be32 a).length = 4 := rfl

/-! ### priority -/

/-- value of the hash of seat `i` -/
def seatVal (K : List UInt8 → List UInt8) (hash : List UInt8) (i : Nat) : Nat := natOfBytes (K (hash ++ minBE i))

theorem priorityLoop_spec (K : List UInt8 → List UInt8) (hash : List UInt8) :
    ∀ fuel i mx,
      natOfBytes mx ≤ natOfBytes (priorityLoop K hash fuel i mx) ∧
      (∀ t, i ≤ t → t < i + fuel → seatVal K hash t ≤ natOfBytes (priorityLoop K hash fuel i mx)) ∧
      (priorityLoop K hash fuel i mx = mx ∨
        ∃ t, i ≤ t ∧ t < i + fuel ∧ priorityLoop K hash fuel i mx = K (hash ++ minBE t)) := by
  intro fuel
  induction fuel with
  | zero =>
    intro i mx
    have e : priorityLoop K hash 0 i mx = mx := rfl
    rw [e]
    exact ⟨Nat.le_refl _, fun t h1 h2 => absurd h2 (by omega), Or.inl rfl⟩
  | succ fuel ih =>
    intro i mx
    unfold priorityLoop
    simp only []
    by_cases hgt : natOfBytes (K (hash ++ minBE i)) > natOfBytes mx
    · simp only [hgt, if_true]
      have := ih (i + 1) (K (hash ++ minBE i))
      refine ⟨by omega, ?_, ?_⟩
      · intro t h1 h2
        by_cases hti : t = i
        · subst hti; exact this.1
        · exact this.2.1 t (by omega) (by omega)
      · rcases this.2.2 with h | ⟨t, h1, h2, h3⟩
        · exact Or.inr ⟨i, Nat.le_refl _, by omega, h⟩
        · exact Or.inr ⟨t, by omega, by omega, h3⟩
    · simp only [hgt, if_false]
      have := ih (i + 1) mx
      refine ⟨this.1, ?_, ?_⟩
      · intro t h1 h2
        by_cases hti : t = i
        · subst hti
          have : seatVal K hash t ≤ natOfBytes mx := by unfold seatVal; omega
          omega
        · exact this.2.1 t (by omega) (by omega)
      · rcases this.2.2 with h | ⟨t, h1, h2, h3⟩
        · exact Or.inl h
        · exact Or.inr ⟨t, by omega, by omega, h3⟩

/-! ### `big.Int.Bytes()` round-trips -/

theorem natOfBytes_foldl (bs : List UInt8) (acc : Nat) :
    bs.foldl (fun a b => a * 256 + b.toNat) acc = acc * 256 ^ bs.length + natOfBytes bs := by
  induction bs generalizing acc with
  | nil => simp [natOfBytes]
  | cons b bs ih =>
    simp only [List.foldl_cons, List.length_cons, natOfBytes]
    rw [ih, ih (0 * 256 + b.toNat)]
    simp only [Nat.zero_mul, Nat.zero_add, Nat.pow_succ]
    rw [Nat.add_mul, Nat.mul_assoc, Nat.mul_comm 256 (256 ^ bs.length), Nat.add_assoc]

theorem natOfBytes_cons (b : UInt8) (bs : List UInt8) :
    natOfBytes (b :: bs) = b.toNat * 256 ^ bs.length + natOfBytes bs := by
  have := natOfBytes_foldl bs (0 * 256 + b.toNat)
  simp only [natOfBytes, List.foldl_cons] at this ⊢
  rw [this]; simp

theorem minBEAux_val : ∀ fuel n acc, n < fuel →
    natOfBytes (minBEAux fuel n acc) = n * 256 ^ acc.length + natOfBytes acc := by
  intro fuel
  induction fuel with
  | zero => intro n acc h; omega
  | succ fuel ih =>
    intro n acc h
    unfold minBEAux
    by_cases hn : n = 0
    · simp [hn]
    · simp only [hn, if_false]
      rw [ih (n / 256) _ (by omega)]
      rw [natOfBytes_cons]
      simp only [List.length_cons, UInt8.toNat_ofNat', Nat.pow_succ]
      have h1 : n % 256 % 2 ^ 8 = n % 256 := by omega
      rw [h1]
      have h2 : n = n / 256 * 256 + n % 256 := by omega
      generalize 256 ^ acc.length = P
      generalize natOfBytes acc = A
      calc n / 256 * (P * 256) + (n % 256 * P + A)
          = (n / 256 * 256 + n % 256) * P + A := by
            rw [Nat.add_mul, Nat.mul_comm P 256, ← Nat.mul_assoc, Nat.add_assoc]
        _ = n * P + A := by rw [← h2]

/-- `big.Int.Bytes()` round-trips: the seat index is recoverable from its hash input suffix -/
theorem natOfBytes_minBE (n : Nat) : natOfBytes (minBE n) = n := by
  unfold minBE
  rw [minBEAux_val (n + 1) n [] (by omega)]
  simp [natOfBytes]

theorem natOfBytes_zero32 : natOfBytes zero32 = 0 := by decide

/-! ### SortitionManager cache -/

/-- every stored view sits under the slot of the inputs it was computed for, those have a uint64 round, and it was
    computed on the branch the chain resolves now -/
def Mgr.Inv (m : Mgr) : Prop :=
  ∀ e, e ∈ m.cache → e.1 = slotOf e.2.key ∧ e.2.key.round < 2 ^ 64 ∧ e.2.epoch = m.epoch

theorem slotOf_inj {a b : MKey} (ha : a.round < 2 ^ 64) (hb : b.round < 2 ^ 64) (h : slotOf a = slotOf b) : a = b := by
  unfold slotOf at h
  simp only [Prod.mk.injEq] at h
  obtain ⟨h1, h2, h3⟩ := h
  rw [Nat.mod_eq_of_lt ha, Nat.mod_eq_of_lt hb] at h1
  cases a; cases b; simp_all

theorem Mgr.query_epoch (m : Mgr) (k : MKey) (st : Bool) : (m.query k st).1.epoch = m.epoch := by
  unfold Mgr.query
  cases m.lookup k with
  | some o => rfl
  | none => cases st <;> rfl

theorem Mgr.query_spec (m : Mgr) (hinv : m.Inv) (k : MKey) (hk : k.round < 2 ^ 64) (st : Bool) :
    (m.query k st).2 = ⟨k, m.epoch⟩ ∧ (m.query k st).1.Inv := by
  unfold Mgr.query
  cases hl : m.lookup k with
  | some o =>
    simp only []
    refine ⟨?_, hinv⟩
    unfold Mgr.lookup at hl
    cases hf : m.cache.find? (fun e => decide (e.1 = slotOf k)) with
    | none => simp [hf] at hl
    | some e =>
      simp only [hf, Option.map_some, Option.some.injEq] at hl
      have hmem := List.mem_of_find?_eq_some hf
      have hp := List.find?_some hf
      simp only [decide_eq_true_eq] at hp
      have := hinv e hmem
      subst hl
      have hkey : e.2.key = k := slotOf_inj this.2.1 hk (by rw [← this.1, hp])
      cases he : e.2 with
      | mk key ep =>
        rw [he] at hkey this
        simp only at hkey this
        rw [hkey, this.2.2]
  | none =>
    simp only []
    refine ⟨trivial, ?_⟩
    cases st with
    | false => simpa using hinv
    | true =>
      simp only [if_true]
      intro e he
      simp only [List.mem_cons] at he
      rcases he with rfl | he
      · exact ⟨rfl, hk, rfl⟩
      · exact hinv e he

theorem Mgr.clear_inv (m : Mgr) (hinv : m.Inv) (r : Nat) : (m.clear r).Inv := by
  unfold Mgr.clear
  by_cases h : r = m.round
  · simpa [h] using hinv
  · simp only [h, if_false]
    intro e he
    simp at he

/-- a rewind that moves the round leaves an empty cache -/
theorem Mgr.rewind_inv (m : Mgr) (r : Nat) (h : r ≠ m.round) : (m.rewind r).Inv := by
  unfold Mgr.rewind Mgr.clear
  simp only [h, if_false]
  intro e he
  simp at he

end YouVerif.C04
