/-
C20 proofs, layer 7 (global index clauses, part 2): the priced-heap loops, room making, admission.
-/
import YouVerif.C20.ProofsG
namespace YouVerif.C20

/-- structural invariant plus global index clauses: the predicate carried through the folds -/
def GW (s : State) : Prop := AllW s ∧ GI s

@[simp] theorem all_pricedPut (s : State) (t : Tx) : (s.pricedPut t).all = s.all := rfl

/-! ### the priced-heap loops only lose stale entries -/

theorem heapPop_erase {pr : List Tx} {m : Tx} {rest : List Tx} (h : heapPop pr = some (m, rest)) : rest = pr.erase m := by
  unfold heapPop at h
  split at h
  · cases h
  · cases h; rfl

theorem mem_or_erase {pr : List Tx} {x : Tx} (m : Tx) (h : x ∈ pr) : x = m ∨ x ∈ pr.erase m := by
  by_cases e : x = m
  · exact .inl e
  · exact .inr ((List.mem_erase_of_ne e).mpr h)

theorem dropStaleHeads_keeps (fuel : Nat) (all pr : List Tx) (st : Int) :
    ∀ x ∈ pr, x ∈ all → x ∈ (dropStaleHeads fuel all pr st).1 := by
  induction fuel generalizing pr st with
  | zero => intro x hx _; exact hx
  | succ f ih =>
    intro x hx ha
    unfold dropStaleHeads
    split
    · exact hx
    · rename_i m rest hpop
      split
      · exact hx
      · rename_i hm
        refine ih _ _ x ?_ ha
        rw [heapPop_erase hpop]
        rcases mem_or_erase m hx with e | h
        · exact absurd (e ▸ ha) hm
        · exact h

theorem underpriced_fields (s : State) (t : Tx) :
    (s.underpriced t).1.all = s.all ∧ ((s.underpriced t).1.priced = s.priced ∨
      (s.underpriced t).1.priced = (dropStaleHeads s.priced.length s.all s.priced s.stales).1) := by
  unfold State.underpriced
  split
  · exact ⟨rfl, .inl rfl⟩
  · simp only
    split <;> exact ⟨rfl, .inr rfl⟩

theorem IK.underpriced (s : State) (t : Tx) : IK s (s.underpriced t).1 := by
  obtain ⟨h1, h2⟩ := underpriced_fields s t
  refine ⟨fun h => by rw [h1]; exact h, fun P h x hx => ?_⟩
  rw [h1] at hx
  rcases h2 with h2 | h2
  · rw [h2]; exact h x hx
  · rw [h2]
    rcases h x hx with h | h
    · exact .inl (dropStaleHeads_keeps _ _ _ _ x h hx)
    · exact .inr h

theorem discardLoop_keeps (isl : Nat → Bool) (all : List Tx) (fuel count : Nat) (pr : List Tx) (st : Int) (drop save : List Tx) :
    ∀ x, x ∈ all → (x ∈ pr ∨ x ∈ save ∨ x ∈ drop) →
      (x ∈ (discardLoop isl all fuel count pr st drop save).2.2.1 ∨ x ∈ (discardLoop isl all fuel count pr st drop save).2.1 ∨
        x ∈ (discardLoop isl all fuel count pr st drop save).1) := by
  induction fuel generalizing count pr st drop save with
  | zero => intro x _ h; exact h
  | succ f ih =>
    intro x ha h
    unfold discardLoop
    split
    · exact h
    · split
      · exact h
      · rename_i m rest hpop
        have hr := heapPop_erase hpop
        split
        · rename_i hm
          have hm' : m ∉ all := by simpa using hm
          refine ih _ _ _ _ _ x ha ?_
          rcases h with h | h
          · rcases mem_or_erase m h with e | h
            · exact absurd (e ▸ ha) hm'
            · exact .inl (hr ▸ h)
          · exact .inr h
        · split
          · refine ih _ _ _ _ _ x ha ?_
            rcases h with h | h | h
            · rcases mem_or_erase m h with e | h
              · exact .inr (.inl (by simp [e]))
              · exact .inl (hr ▸ h)
            · exact .inr (.inl (by simp [h]))
            · exact .inr (.inr h)
          · refine ih _ _ _ _ _ x ha ?_
            rcases h with h | h | h
            · rcases mem_or_erase m h with e | h
              · exact .inr (.inr (by simp [e]))
              · exact .inl (hr ▸ h)
            · exact .inr (.inl h)
            · exact .inr (.inr (by simp [h]))

theorem capLoop_keeps (isl : Nat → Bool) (all : List Tx) (thr : Nat) (fuel : Nat) (pr : List Tx) (st : Int) (drop save : List Tx) :
    ∀ x, x ∈ all → (x ∈ pr ∨ x ∈ save ∨ x ∈ drop) →
      (x ∈ (capLoop isl all thr fuel pr st drop save).2.2.1 ∨ x ∈ (capLoop isl all thr fuel pr st drop save).2.1 ∨
        x ∈ (capLoop isl all thr fuel pr st drop save).1) := by
  induction fuel generalizing pr st drop save with
  | zero => intro x _ h; exact h
  | succ f ih =>
    intro x ha h
    unfold capLoop
    split
    · exact h
    · rename_i m rest hpop
      have hr := heapPop_erase hpop
      split
      · rename_i hm
        have hm' : m ∉ all := by simpa using hm
        refine ih _ _ _ _ x ha ?_
        rcases h with h | h
        · rcases mem_or_erase m h with e | h
          · exact absurd (e ▸ ha) hm'
          · exact .inl (hr ▸ h)
        · exact .inr h
      · split
        · rcases h with h | h | h
          · rcases mem_or_erase m h with e | h
            · exact .inr (.inl (by simp [e]))
            · exact .inl (hr ▸ h)
          · exact .inr (.inl (by simp [h]))
          · exact .inr (.inr h)
        · split
          · refine ih _ _ _ _ x ha ?_
            rcases h with h | h | h
            · rcases mem_or_erase m h with e | h
              · exact .inr (.inl (by simp [e]))
              · exact .inl (hr ▸ h)
            · exact .inr (.inl (by simp [h]))
            · exact .inr (.inr h)
          · refine ih _ _ _ _ x ha ?_
            rcases h with h | h | h
            · rcases mem_or_erase m h with e | h
              · exact .inr (.inr (by simp [e]))
              · exact .inl (hr ▸ h)
            · exact .inr (.inl h)
            · exact .inr (.inr (by simp [h]))

/-- `Discard`: every live entry is still in the heap or is handed back in the drop list -/
theorem discard_pc (s : State) (k : Nat) :
    (s.discard k).1.all = s.all ∧ ∀ P, PCp s P → PCp (s.discard k).1 (fun y => P y ∨ y ∈ (s.discard k).2) := by
  have key := discardLoop_keeps (fun a => (s.acct a).isLocal) s.all s.priced.length k s.priced s.stales [] []
  unfold State.discard
  generalize discardLoop (fun a => (s.acct a).isLocal) s.all s.priced.length k s.priced s.stales [] [] = r at key ⊢
  obtain ⟨drop, save, pr, st⟩ := r
  simp only at key ⊢
  refine ⟨trivial, fun P h x hx => ?_⟩
  have hx' : x ∈ s.all := hx
  rcases h x hx' with h | h
  · rcases key x hx' (.inl h) with h | h | h
    · exact .inl (by simp [h])
    · exact .inl (by simp [h])
    · exact .inr (.inr h)
  · exact .inr (.inl h)

theorem pricedCap_pc (s : State) (k : Nat) :
    (s.pricedCap k).1.all = s.all ∧ ∀ P, PCp s P → PCp (s.pricedCap k).1 (fun y => P y ∨ y ∈ (s.pricedCap k).2) := by
  have key := capLoop_keeps (fun a => (s.acct a).isLocal) s.all k s.priced.length s.priced s.stales [] []
  unfold State.pricedCap
  generalize capLoop (fun a => (s.acct a).isLocal) s.all k s.priced.length s.priced s.stales [] [] = r at key ⊢
  obtain ⟨drop, save, pr, st⟩ := r
  simp only at key ⊢
  refine ⟨trivial, fun P h x hx => ?_⟩
  have hx' : x ∈ s.all := hx
  rcases h x hx' with h | h
  · rcases key x hx' (.inl h) with h | h | h
    · exact .inl (by simp [h])
    · exact .inl (by simp [h])
    · exact .inr (.inr h)
  · exact .inr (.inl h)

/-- a `Same` step that leaves `all` alone keeps the union clause -/
theorem AU.same {s s' : State} {L : List Tx} (h : AU s L) (hs : Same s s') (hall : s'.all = s.all) : AU s' L :=
  h.congr (fun _ => by rw [hall]) (fun b => by rw [hs.acct b]; exact ⟨rfl, rfl⟩)

/-- pop-and-remove (`Discard` / `Cap` followed by `removeTx` of the drop list) -/
theorem dropRemove_ik {s d : State} {drop : List Tx} (hw : AllW s) (hau : AU s []) (hsame : Same s d) (hall : d.all = s.all)
    (hpc : ∀ P, PCp s P → PCp d (fun y => P y ∨ y ∈ drop)) :
    AU (d.removeMany drop false) [] ∧ IK s (d.removeMany drop false) ∧ (d.removeMany drop false).n = s.n ∧
    (∀ x ∈ (d.removeMany drop false).all, x ∈ s.all) := by
  have hwd : AllW d := hsame.allW hw
  have haud : AU d [] := hau.same hsame hall
  obtain ⟨c1, c2, c3, c4⟩ := removeMany_ik hwd haud drop false
  refine ⟨c1, ⟨fun h => c2.1 (by rw [hall]; exact h), fun P h => ?_⟩, by rw [c3, hsame.n], fun x hx => by rw [← hall]; exact (c4 x hx).1⟩
  refine ((hpc P h).removeMany hwd haud drop false).mono ?_
  rintro x _ ⟨h1 | h1, h2⟩
  · exact h1
  · exact absurd h1 h2

/-! ### add -/

theorem makeRoom_ik {s : State} (hw : AllW s) (hau : AU s []) (t : Tx) (l : Bool) :
    AU (s.makeRoom t l).1 [] ∧ IK s (s.makeRoom t l).1 ∧ (s.makeRoom t l).1.n = s.n ∧
    (∀ x ∈ (s.makeRoom t l).1.all, x ∈ s.all) := by
  unfold State.makeRoom
  simp only
  split
  · generalize hr : (if (!l) = true then s.underpriced t else (s, false)) = r
    have hu : Same s r.1 ∧ r.1.all = s.all ∧ IK s r.1 := by
      subst hr
      split
      · exact ⟨same_underpriced s t, (underpriced_fields s t).1, IK.underpriced s t⟩
      · exact ⟨Same.refl _, rfl, IK.refl _⟩
    obtain ⟨u1, u2, u3⟩ := hu
    split
    · exact ⟨hau.same u1 u2, u3, u1.n, fun x hx => by rw [← u2]; exact hx⟩
    · have dp := discard_pc r.1 (r.1.all.length - (s.cfg.globalSlots + s.cfg.globalQueue - 1))
      have := dropRemove_ik (u1.allW hw) (hau.same u1 u2) (same_discard _ _) dp.1 dp.2
      exact ⟨this.1, u3.trans this.2.1, by rw [this.2.2.1, u1.n], fun x hx => by rw [← u2]; exact this.2.2.2 x hx⟩
  · exact ⟨hau, IK.refl _, rfl, fun _ h => h⟩

/-- membership after `Put` over an entry displaced by `Add` -/
theorem put_replace_mem {l : TxList} {t : Tx} {old : Option Tx} (hs : Sorted l.txs)
    (h1 : ∀ o, old = some o → o ∈ l.txs ∧ o.nonce = t.nonce) (h2 : old = none → ∀ x ∈ l.txs, x.nonce ≠ t.nonce) (x : Tx) :
    x ∈ (l.put t).txs ↔ (x = t ∨ (x ∈ l.txs ∧ ∀ o, old = some o → x ≠ o)) := by
  rw [mem_put_sorted hs]
  constructor
  · rintro (h | ⟨h, hn⟩)
    · exact .inl h
    · exact .inr ⟨h, fun o ho e => hn (e ▸ (h1 o ho).2)⟩
  · rintro (h | ⟨h, hn⟩)
    · exact .inl h
    · refine .inr ⟨h, ?_⟩
      cases old with
      | none => exact h2 rfl x h
      | some o => exact fun e => hn o rfl (hs.eq_of_nonce h (h1 o rfl).1 (by rw [e, (h1 o rfl).2]))

theorem enqueueTx_cases (s : State) (t : Tx) :
    (s.enqueueTx t).1 = s ∨
    ∃ old, (s.enqueueTx t).1 = enqTail (s.upd t.sender (fun ac => { ac with queue := (s.acct t.sender).queue.put t })) old t ∧
      (∀ o, old = some o → o ∈ (s.acct t.sender).queue.txs ∧ o.nonce = t.nonce) ∧
      (old = none → ∀ x ∈ (s.acct t.sender).queue.txs, x.nonce ≠ t.nonce) := by
  rcases add_spec (s.acct t.sender).queue t s.cfg.priceBump with h | ⟨old, h, h1, h2⟩
  · left
    unfold State.enqueueTx; simp only [h]
  · right
    refine ⟨old, ?_, h1, h2⟩
    unfold State.enqueueTx enqTail; simp only [h]
    cases old <;> rfl

/-- `enqueueTx` of a transaction whose nonce is not pending -/
theorem enqueueTx_ik {s : State} (hw : AllW s) (hau : AU s []) (t : Tx) (hlt : t.sender < s.n) :
    AU (s.enqueueTx t).1 [] ∧ IK s (s.enqueueTx t).1 := by
  rcases enqueueTx_cases s t with e | ⟨old, e, h1, h2⟩
  · rw [e]; exact ⟨hau, IK.refl _⟩
  · rw [e]
    have hA := hw t.sender
    have hsm := same_enq_tail (s.upd t.sender (fun ac => { ac with queue := (s.acct t.sender).queue.put t })) old t
    refine ⟨?_, (IK.upd _ _ _).trans (IK.enqTail _ _ _)⟩
    refine AU.replace (a := t.sender) hau t old rfl (fun o ho => hA.qSender o (h1 o ho).1) (fun x => ?_) (fun b hb => ?_) (fun x => ?_)
    · rw [mem_enqTail]; rfl
    · rw [hsm.acct b, acct_upd]; simp [Ne.symm hb]
    · rw [hsm.acct, acct_upd_self _ _ _ hlt]
      simp only [put_replace_mem hA.qSorted h1 h2]
      constructor
      · rintro (h | h | ⟨h, hn⟩)
        · refine .inr ⟨.inl h, fun o ho e => ?_⟩
          exact hA.disj x h o (h1 o ho).1 (by rw [e])
        · exact .inl h
        · exact .inr ⟨.inr h, hn⟩
      · rintro (h | ⟨h | h, hn⟩)
        · exact .inr (.inl h)
        · exact .inl h
        · exact .inr (.inr ⟨h, hn⟩)

/-- the pending-replacement branch of `addAdmitted`, after the optional removal of the displaced transaction -/
theorem addAdmitted_pending {s s1 : State} (hw : AllW s) (hau : AU s []) (t : Tx) (old : Option Tx) (hlt : t.sender < s.n)
    (h1 : ∀ o, old = some o → o ∈ (s.acct t.sender).pending.txs ∧ o.nonce = t.nonce)
    (h2 : old = none → ∀ x ∈ (s.acct t.sender).pending.txs, x.nonce ≠ t.nonce)
    (a1 : Same (s.upd t.sender (fun ac => { ac with pending := (s.acct t.sender).pending.put t })) s1)
    (a2 : IK s s1) (a3 : ∀ x, x ∈ s1.all ↔ (x ∈ s.all ∧ ∀ o, old = some o → x ≠ o)) :
    AU ((s1.allAdd t).pricedPut t) [] ∧ IK s ((s1.allAdd t).pricedPut t) := by
  have hA := hw t.sender
  have hsm : Same (s.upd t.sender (fun ac => { ac with pending := (s.acct t.sender).pending.put t })) ((s1.allAdd t).pricedPut t) :=
    a1.trans ((same_allAdd _ _).trans (same_pricedPut _ _))
  refine ⟨?_, a2.trans (IK.addPut _ _)⟩
  refine AU.replace (a := t.sender) hau t old rfl (fun o ho => hA.pSender o (h1 o ho).1) (fun x => ?_) (fun b hb => ?_) (fun x => ?_)
  · rw [all_pricedPut, mem_allAdd, a3]
  · rw [hsm.acct b, acct_upd]; simp [Ne.symm hb]
  · rw [hsm.acct, acct_upd_self _ _ _ hlt]
    simp only [put_replace_mem hA.pSorted h1 h2]
    constructor
    · rintro ((h | ⟨h, hn⟩) | h)
      · exact .inl h
      · exact .inr ⟨.inl h, hn⟩
      · refine .inr ⟨.inr h, fun o ho e => ?_⟩
        exact hA.disj o (h1 o ho).1 x h (by rw [e])
    · rintro (h | ⟨h | h, hn⟩)
      · exact .inl (.inl h)
      · exact .inl (.inr ⟨h, hn⟩)
      · exact .inr h

theorem addAdmitted_ik {s : State} (hw : AllW s) (hau : AU s []) (t : Tx) (l : Bool) (hlt : t.sender < s.n) :
    AU (s.addAdmitted t l).1 [] ∧ IK s (s.addAdmitted t l).1 := by
  unfold State.addAdmitted
  simp only
  split
  · rcases add_spec (s.acct t.sender).pending t s.cfg.priceBump with e | ⟨old, e, h1, h2⟩
    · rw [e]; exact ⟨hau, IK.refl _⟩
    · rw [e]
      simp only
      cases old with
      | none =>
        exact addAdmitted_pending hw hau t none hlt h1 h2 (Same.refl _) (IK.upd _ _ _) (fun x => by simp)
      | some o =>
        refine addAdmitted_pending hw hau t (some o) hlt h1 h2 ((same_allRemove _ _).trans (same_pricedRemoved _ _))
          ((IK.upd _ _ _).trans ((IK.allRemove _ _).trans (IK.pricedRemoved _ _))) (fun x => ?_)
        simp only [all_pricedRemoved, mem_allRemove, all_upd]
        simp
  · have hE := enqueueTx_ik hw hau t hlt
    split
    · rename_i s' _ heq
      have : s' = (s.enqueueTx t).1 := by rw [heq]
      rw [this]; exact hE
    · rename_i s' _ heq
      have : s' = (s.enqueueTx t).1 := by rw [heq]
      rw [this]
      split
      · refine ⟨hE.1.congr (fun _ => Iff.rfl) (fun b => ?_), hE.2.trans (IK.upd _ _ _)⟩
        rw [acct_upd]; split <;> exact ⟨rfl, rfl⟩
      · exact hE

theorem validate_lt {s : State} {t : Tx} {l : Bool} (h : s.validateTx t l = none) : t.sender < s.n := by
  unfold State.validateTx at h
  split at h
  · cases h
  · split at h
    · cases h
    · split at h
      · cases h
      · split at h
        · cases h
        · rename_i hs
          simp at hs
          omega

theorem add_ik {s : State} (hw : AllW s) (hau : AU s []) (t : Tx) (l : Bool) :
    AU (s.add t l).1 [] ∧ IK s (s.add t l).1 := by
  unfold State.add
  split
  · exact ⟨hau, IK.refl _⟩
  · split
    · exact ⟨hau, IK.refl _⟩
    · rename_i hv
      simp only
      obtain ⟨m1, m2, m3, _⟩ := makeRoom_ik hw hau t l
      split
      · exact ⟨m1, m2⟩
      · have := addAdmitted_ik (hw.makeRoom t l) m1 t l (by rw [m3]; exact validate_lt hv)
        exact ⟨this.1, m2.trans this.2⟩

theorem GI.add {s : State} (hw : AllW s) (hg : GI s) (t : Tx) (l : Bool) : GI (s.add t l).1 :=
  hg.of_ik (add_ik hw hg.au t l).1 (add_ik hw hg.au t l).2

theorem GW.addTxsLocked {s : State} (h : GW s) (txs : List Tx) (l : Bool) : GW (s.addTxsLocked txs l).1 := by
  unfold State.addTxsLocked
  suffices hh : ∀ (acc : State × List (Except Err Bool) × List Nat), GW acc.1 →
      GW (txs.foldl (fun (acc : State × List (Except Err Bool) × List Nat) t =>
        let (s, rs, dirty) := acc
        let (s, r) := s.add t l
        let dirty := match r with
          | .ok false => if dirty.contains t.sender then dirty else dirty ++ [t.sender]
          | _ => dirty
        (s, rs ++ [r], dirty)) acc).1 from hh (s, [], []) h
  induction txs with
  | nil => exact fun _ h => h
  | cons t ts ih =>
    intro acc hacc
    simp only [List.foldl_cons]
    exact ih _ ⟨hacc.1.add t l, hacc.2.add hacc.1 t l⟩

theorem GI.addTxsLocked {s : State} (hw : AllW s) (hg : GI s) (txs : List Tx) (l : Bool) : GI (s.addTxsLocked txs l).1 :=
  (GW.addTxsLocked ⟨hw, hg⟩ txs l).2

end YouVerif.C20
