/-
C20 proofs, layer 7 (A), part 2: admission (`makeRoom`, `addAdmitted`, `add`, `addTxsLocked`) and the standalone
operations built from `removeMany` (`setGasPrice`, `evict`, `truncateQueue`) preserve the full per-account invariant
and are `Frame`s.
-/
import YouVerif.C20.ProofsA
namespace YouVerif.C20

/-! ### makeRoom -/

/-- `makeRoom` = priced-list queries (which change nothing the invariant looks at) and a `removeMany` -/
theorem makeRoom_gen (P : State → Prop) (hS : ∀ s s', Same s s' → P s → P s')
    (hR : ∀ s ts oob, P s → P (State.removeMany s ts oob)) {s : State} (h : P s) (t : Tx) (l : Bool) :
    P (s.makeRoom t l).1 := by
  unfold State.makeRoom
  simp only
  split
  · generalize hr : (if (!l) = true then s.underpriced t else (s, false)) = r
    have hu : P r.1 := by
      subst hr
      split
      · exact hS _ _ (same_underpriced s t) h
      · exact h
    split
    · exact hu
    · exact hR _ _ _ (hS _ _ (same_discard _ _) hu)
  · exact h

theorem AllJ.makeRoom {s : State} (h : AllJ s) (t : Tx) (l : Bool) : AllJ (s.makeRoom t l).1 :=
  makeRoom_gen AllJ (fun _ _ hs hi => hs.allJ hi) (fun _ ts oob hi => hi.removeMany ts oob) h t l

theorem AllI.makeRoom {s : State} (h : AllI s) (t : Tx) (l : Bool) : AllI (s.makeRoom t l).1 :=
  makeRoom_gen AllI (fun _ _ hs hi => hs.allIA hi) (fun _ ts oob hi => hi.removeMany ts oob) h t l

theorem AllM.makeRoom {s : State} (h : AllM s) (t : Tx) (l : Bool) : AllM (s.makeRoom t l).1 :=
  makeRoom_gen AllM (fun _ _ hs hi => hs.allMA hi) (fun _ ts oob hi => hi.removeMany ts oob) h t l

theorem frame_makeRoom (s : State) (t : Tx) (l : Bool) : Frame s (s.makeRoom t l).1 :=
  makeRoom_gen (Frame s) (fun _ _ hs hi => hi.trans hs.frame) (fun s1 ts oob hi => hi.trans (frame_removeMany s1 ts oob))
    (Frame.refl s) t l

/-! ### addAdmitted -/

/-- a pending transaction of this account replaced at its nonce by a payable one -/
theorem AcctJ.replacePendingA {ac ac' : Account} {a mg : Nat} (h : AcctJ ac a mg) (t o : Tx) (hs : t.sender = a)
    (ho : o ∈ ac.pending.txs) (hn : o.nonce = t.nonce) (hc : t.cost ≤ ac.balance) (hg : t.gas ≤ mg)
    (e1 : ac'.pending = ac.pending.put t) (e2 : ac'.queue = ac.queue) (e3 : ac'.beat = ac.beat)
    (e4 : ac'.nonce = ac.nonce) (e5 : ac'.balance = ac.balance) :
    AcctJ ac' a mg ∧ ac'.pending.txs.length = ac.pending.txs.length := by
  have hob := h.pChain.bounds o ho
  have hins := h.pChain.insertN t (by omega)
  have hlen : (insertN t ac.pending.txs).length = ac.pending.txs.length := by
    rw [hins.2]
    split
    · omega
    · rfl
  refine ⟨?_, by rw [e1]; exact hlen⟩
  constructor <;> simp only [e1, e2, e3, e4, e5]
  · intro x hx
    rcases mem_insertN_or hx with rfl | hx
    · exact hs
    · exact h.pSender x hx
  · exact h.qSender
  · exact hins.1
  · intro x hx
    rcases mem_insertN_or hx with rfl | hx
    · exact ⟨hc, hg⟩
    · exact h.pAfford x hx
  · exact h.qSorted
  · intro x hx
    simp only [TxList.put]
    rw [hlen]; exact h.qAbove x hx
  · exact fun _ => h.beat (List.ne_nil_of_mem ho)
  · exact put_caps _ _ h.pCaps
  · exact h.qCaps

/-- an account update that keeps pending, state nonce and the explicit virtual nonce -/
theorem upd_pn_fields (s : State) (a : Nat) (f : Account → Account)
    (hf : ∀ ac : Account, (f ac).pending = ac.pending ∧ (f ac).nonce = ac.nonce ∧ (f ac).pn = ac.pn) (b : Nat) :
    ((s.upd a f).acct b).pending = (s.acct b).pending ∧ ((s.upd a f).acct b).nonce = (s.acct b).nonce ∧
      ((s.upd a f).acct b).pn = (s.acct b).pn := by
  rw [acct_upd]
  split
  · exact hf _
  · exact ⟨rfl, rfl, rfl⟩

theorem addAdmitted_core {s : State} (h : AllJ s) (t : Tx) (l : Bool)
    (hv : (s.acct t.sender).nonce ≤ t.nonce ∧ t.cost ≤ (s.acct t.sender).balance ∧ t.gas ≤ s.maxGas) :
    AllJ (s.addAdmitted t l).1 ∧
    (∀ b, PNa (s.acct b) → PNa ((s.addAdmitted t l).1.acct b)) ∧
    (∀ b, PNw (s.acct b) → PNw ((s.addAdmitted t l).1.acct b)) := by
  unfold State.addAdmitted
  simp only
  have hA := h t.sender
  split
  · rename_i hsome
    rcases add_spec (s.acct t.sender).pending t s.cfg.priceBump with e | ⟨old, e, _, _⟩
    · rw [e]; exact ⟨h, fun _ => id, fun _ => id⟩
    · rw [e]
      simp only
      obtain ⟨o, ho⟩ := Option.isSome_iff_exists.mp hsome
      have hom := getN_some_mem ho
      have hrep := hA.replacePendingA (ac' := { s.acct t.sender with pending := (s.acct t.sender).pending.put t })
        t o rfl hom.1 hom.2 hv.2.1 hv.2.2 rfl rfl rfl rfl rfl
      have hlen : (insertN t (s.acct t.sender).pending.txs).length = (s.acct t.sender).pending.txs.length := hrep.2
      have key : ∀ s2 : State,
          Same (s.upd t.sender (fun ac => { ac with pending := (s.acct t.sender).pending.put t })) s2 →
          AllJ s2 ∧ (∀ b, PNa (s.acct b) → PNa (s2.acct b)) ∧ (∀ b, PNw (s.acct b) → PNw (s2.acct b)) := by
        intro s2 hsame
        refine ⟨hsame.allJ (h.upd _ _ (fun _ => hrep.1)), fun b hb => ?_, fun b hb => ?_⟩
        · rw [hsame.acct b, acct_upd]
          split
          · rename_i hc; obtain ⟨rfl, _⟩ := hc
            show (s.acct t.sender).pn.getD (s.acct t.sender).nonce =
              (s.acct t.sender).nonce + (insertN t (s.acct t.sender).pending.txs).length
            rw [hlen]; exact hb
          · exact hb
        · rw [hsame.acct b, acct_upd]
          split
          · rename_i hc; obtain ⟨rfl, _⟩ := hc
            refine ⟨hb.1, fun he => hb.2 ?_⟩
            have he' : insertN t (s.acct t.sender).pending.txs = [] := he
            exact List.eq_nil_of_length_eq_zero (by rw [← hlen, he']; rfl)
          · exact hb
      cases old with
      | none => exact key _ ((same_allAdd _ _).trans (same_pricedPut _ _))
      | some o' =>
        exact key _ (((same_allRemove _ _).trans (same_pricedRemoved _ _)).trans
          ((same_allAdd _ _).trans (same_pricedPut _ _)))
  · rename_i hnone
    have hn : getN (s.acct t.sender).pending.txs t.nonce = none := by
      cases hg : getN (s.acct t.sender).pending.txs t.nonce with
      | none => rfl
      | some _ => rw [hg] at hnone; simp at hnone
    have hE := enqueueTx_spec h t (chain_free_slot hA.pChain hv.1 (getN_none hn))
    have hq : QFrame s (s.enqueueTx t).1 := hE.2
    have hres : AllJ (s.enqueueTx t).1 ∧
        (∀ b, PNa (s.acct b) → PNa ((s.enqueueTx t).1.acct b)) ∧
        (∀ b, PNw (s.acct b) → PNw ((s.enqueueTx t).1.acct b)) :=
      ⟨hE.1, fun b hb => hq.pn b hb, fun b hb => hq.pnwA b hb⟩
    split
    · rename_i s' _ heq
      have : s' = (s.enqueueTx t).1 := by rw [heq]
      rw [this]; exact hres
    · rename_i s' _ heq
      have : s' = (s.enqueueTx t).1 := by rw [heq]
      rw [this]
      split
      · have hf := upd_pn_fields (s.enqueueTx t).1 t.sender (fun ac => { ac with isLocal := true })
          (fun _ => ⟨rfl, rfl, rfl⟩)
        refine ⟨hE.1.upd _ _ (fun _ => (hE.1 t.sender).congrA rfl rfl rfl rfl rfl), fun b hb => ?_, fun b hb => ?_⟩
        · exact (hres.2.1 b hb).congrA (hf b).1 (hf b).2.1 (hf b).2.2
        · exact (hres.2.2 b hb).congrA (hf b).1 (hf b).2.1 (hf b).2.2
      · exact hres

theorem AllJ.addAdmitted {s : State} (h : AllJ s) (t : Tx) (l : Bool)
    (hv : (s.acct t.sender).nonce ≤ t.nonce ∧ t.cost ≤ (s.acct t.sender).balance ∧ t.gas ≤ s.maxGas) :
    AllJ (s.addAdmitted t l).1 := (addAdmitted_core h t l hv).1

theorem AllI.addAdmitted {s : State} (h : AllI s) (t : Tx) (l : Bool)
    (hv : (s.acct t.sender).nonce ≤ t.nonce ∧ t.cost ≤ (s.acct t.sender).balance ∧ t.gas ≤ s.maxGas) :
    AllI (s.addAdmitted t l).1 :=
  ⟨(addAdmitted_core h.1 t l hv).1, fun b => (addAdmitted_core h.1 t l hv).2.1 b (h.2 b)⟩

theorem AllM.addAdmitted {s : State} (h : AllM s) (t : Tx) (l : Bool)
    (hv : (s.acct t.sender).nonce ≤ t.nonce ∧ t.cost ≤ (s.acct t.sender).balance ∧ t.gas ≤ s.maxGas) :
    AllM (s.addAdmitted t l).1 :=
  ⟨(addAdmitted_core h.1 t l hv).1, fun b => (addAdmitted_core h.1 t l hv).2.2 b (h.2 b)⟩

theorem frame_addAdmitted (s : State) (t : Tx) (l : Bool) : Frame s (s.addAdmitted t l).1 := by
  unfold State.addAdmitted
  simp only
  split
  · rcases add_spec (s.acct t.sender).pending t s.cfg.priceBump with e | ⟨old, e, _, _⟩
    · rw [e]; exact Frame.refl _
    · rw [e]
      simp only
      refine Frame.trans (b := s.upd t.sender (fun ac => { ac with pending := (s.acct t.sender).pending.put t }))
        (frame_updA _ _ _ (fun ac => ⟨rfl, rfl, id⟩)) (Same.frame ?_)
      cases old with
      | none => exact (same_allAdd _ _).trans (same_pricedPut _ _)
      | some o' =>
        exact ((same_allRemove _ _).trans (same_pricedRemoved _ _)).trans
          ((same_allAdd _ _).trans (same_pricedPut _ _))
  · have hq := (enqueueTx_qframe s t).frame
    split
    · rename_i s' _ heq
      have : s' = (s.enqueueTx t).1 := by rw [heq]
      rw [this]; exact hq
    · rename_i s' _ heq
      have : s' = (s.enqueueTx t).1 := by rw [heq]
      rw [this]
      split
      · exact hq.trans (frame_updA _ t.sender _ (fun ac => ⟨rfl, rfl, id⟩))
      · exact hq

/-! ### add / addTxsLocked -/

/-- what an accepted validation says about the sender's account -/
theorem validateTx_none_A {s : State} {t : Tx} {l : Bool} (h : s.validateTx t l = none) :
    (s.acct t.sender).nonce ≤ t.nonce ∧ t.cost ≤ (s.acct t.sender).balance ∧ t.gas ≤ s.maxGas := by
  unfold State.validateTx at h
  simp only at h
  repeat' (split at h <;> try (simp at h; done))
  omega

/-- `add` = validation, room making, admission -/
theorem add_gen (P : State → Prop) (hroom : ∀ s t l, P s → P (State.makeRoom s t l).1)
    (hadm : ∀ (s : State) (t : Tx) l, P s →
      ((s.acct t.sender).nonce ≤ t.nonce ∧ t.cost ≤ (s.acct t.sender).balance ∧ t.gas ≤ s.maxGas) →
      P (s.addAdmitted t l).1) {s : State} (h : P s) (t : Tx) (l : Bool) : P (s.add t l).1 := by
  unfold State.add
  split
  · exact h
  · split
    · exact h
    · rename_i hval
      simp only
      split
      · exact hroom _ _ _ h
      · refine hadm _ _ _ (hroom _ _ _ h) ?_
        have hv := validateTx_none_A hval
        have f := frame_makeRoom s t l
        rw [(f.2.2.2 t.sender).1, (f.2.2.2 t.sender).2.1, f.2.1]
        exact hv

theorem AllJ.add {s : State} (h : AllJ s) (t : Tx) (l : Bool) : AllJ (s.add t l).1 :=
  add_gen AllJ (fun _ t l hi => hi.makeRoom t l) (fun _ t l hi hv => hi.addAdmitted t l hv) h t l

theorem AllI.add {s : State} (h : AllI s) (t : Tx) (l : Bool) : AllI (s.add t l).1 :=
  add_gen AllI (fun _ t l hi => hi.makeRoom t l) (fun _ t l hi hv => hi.addAdmitted t l hv) h t l

theorem AllM.add {s : State} (h : AllM s) (t : Tx) (l : Bool) : AllM (s.add t l).1 :=
  add_gen AllM (fun _ t l hi => hi.makeRoom t l) (fun _ t l hi hv => hi.addAdmitted t l hv) h t l

theorem frame_add (s : State) (t : Tx) (l : Bool) : Frame s (s.add t l).1 :=
  add_gen (Frame s) (fun s1 t l hi => hi.trans (frame_makeRoom s1 t l))
    (fun s1 t l hi _ => hi.trans (frame_addAdmitted s1 t l)) (Frame.refl s) t l

theorem addTxsLocked_gen (P : State → Prop) (hadd : ∀ s t l, P s → P (State.add s t l).1) {s : State} (h : P s)
    (txs : List Tx) (l : Bool) : P (s.addTxsLocked txs l).1 := by
  unfold State.addTxsLocked
  suffices hh : ∀ (acc : State × List (Except Err Bool) × List Nat), P acc.1 →
      P (txs.foldl (fun (acc : State × List (Except Err Bool) × List Nat) t =>
        let (s, rs, dirty) := acc
        let (s, r) := s.add t l
        let dirty := match r with
          | .ok false => if dirty.contains t.sender then dirty else dirty ++ [t.sender]
          | _ => dirty
        (s, rs ++ [r], dirty)) acc).1 from hh (s, [], []) h
  induction txs with
  | nil => exact fun _ h => h
  | cons t ts ih =>
    intro acc hacc
    simp only [List.foldl_cons]
    exact ih _ (hadd _ t l hacc)

theorem AllJ.addTxsLocked {s : State} (h : AllJ s) (txs : List Tx) (l : Bool) : AllJ (s.addTxsLocked txs l).1 :=
  addTxsLocked_gen AllJ (fun _ t l hi => hi.add t l) h txs l

theorem AllI.addTxsLocked {s : State} (h : AllI s) (txs : List Tx) (l : Bool) : AllI (s.addTxsLocked txs l).1 :=
  addTxsLocked_gen AllI (fun _ t l hi => hi.add t l) h txs l

theorem AllM.addTxsLocked {s : State} (h : AllM s) (txs : List Tx) (l : Bool) : AllM (s.addTxsLocked txs l).1 :=
  addTxsLocked_gen AllM (fun _ t l hi => hi.add t l) h txs l

theorem frame_addTxsLocked (s : State) (txs : List Tx) (l : Bool) : Frame s (s.addTxsLocked txs l).1 :=
  addTxsLocked_gen (Frame s) (fun s1 t l hi => hi.trans (frame_add s1 t l)) (Frame.refl s) txs l

/-! ### the standalone operations built from `removeMany` -/

theorem setGasPrice_gen (P : State → Prop) (hS : ∀ s s', Same s s' → P s → P s')
    (hR : ∀ s ts oob, P s → P (State.removeMany s ts oob)) {s : State} (h : P s) (p : Nat) : P (s.setGasPrice p) := by
  unfold State.setGasPrice
  simp only
  have h0 : P ({ s with gasPrice := p } : State) := hS s _ ⟨rfl, rfl, rfl⟩ h
  exact hR _ _ _ (hS _ _ (same_pricedCap _ _) h0)

theorem evict_gen (P : State → Prop) (hR : ∀ s ts oob, P s → P (State.removeMany s ts oob)) {s : State} (h : P s)
    (ord : List Nat) (k : Nat) : P (s.evict ord k) := by
  unfold State.evict
  refine foldl_preserves P _ (fun s a hs => ?_) _ s h
  simp only
  split
  · exact hs
  · split
    · exact hR _ _ _ hs
    · exact hs

theorem queueDropLoop_gen (P : State → Prop) (hR : ∀ s ts oob, P s → P (State.removeMany s ts oob)) (as : List Nat)
    {s : State} (h : P s) (drop : Nat) : P (queueDropLoop as s drop) := by
  induction as generalizing s drop with
  | nil => exact h
  | cons a rest ih =>
    unfold YouVerif.C20.queueDropLoop
    split
    · exact h
    · simp only
      split
      · exact ih (hR _ _ _ h) _
      · exact hR _ _ _ h

theorem truncateQueue_gen (P : State → Prop) (hR : ∀ s ts oob, P s → P (State.removeMany s ts oob)) {s : State}
    (h : P s) (ord : List Nat) : P (s.truncateQueue ord) := by
  unfold State.truncateQueue
  simp only
  split
  · exact h
  · exact queueDropLoop_gen P hR _ h _

theorem AllJ.setGasPrice {s : State} (h : AllJ s) (p : Nat) : AllJ (s.setGasPrice p) :=
  setGasPrice_gen AllJ (fun _ _ hs hi => hs.allJ hi) (fun _ ts oob hi => hi.removeMany ts oob) h p
theorem AllI.setGasPrice {s : State} (h : AllI s) (p : Nat) : AllI (s.setGasPrice p) :=
  setGasPrice_gen AllI (fun _ _ hs hi => hs.allIA hi) (fun _ ts oob hi => hi.removeMany ts oob) h p
theorem AllM.setGasPrice {s : State} (h : AllM s) (p : Nat) : AllM (s.setGasPrice p) :=
  setGasPrice_gen AllM (fun _ _ hs hi => hs.allMA hi) (fun _ ts oob hi => hi.removeMany ts oob) h p
theorem frame_setGasPrice (s : State) (p : Nat) : Frame s (s.setGasPrice p) :=
  setGasPrice_gen (Frame s) (fun _ _ hs hi => hi.trans hs.frame)
    (fun s1 ts oob hi => hi.trans (frame_removeMany s1 ts oob)) (Frame.refl s) p

theorem AllJ.evict {s : State} (h : AllJ s) (ord : List Nat) (k : Nat) : AllJ (s.evict ord k) :=
  evict_gen AllJ (fun _ ts oob hi => hi.removeMany ts oob) h ord k
theorem AllI.evict {s : State} (h : AllI s) (ord : List Nat) (k : Nat) : AllI (s.evict ord k) :=
  evict_gen AllI (fun _ ts oob hi => hi.removeMany ts oob) h ord k
theorem AllM.evict {s : State} (h : AllM s) (ord : List Nat) (k : Nat) : AllM (s.evict ord k) :=
  evict_gen AllM (fun _ ts oob hi => hi.removeMany ts oob) h ord k
theorem frame_evict (s : State) (ord : List Nat) (k : Nat) : Frame s (s.evict ord k) :=
  evict_gen (Frame s) (fun s1 ts oob hi => hi.trans (frame_removeMany s1 ts oob)) (Frame.refl s) ord k

theorem AllJ.truncateQueue {s : State} (h : AllJ s) (ord : List Nat) : AllJ (s.truncateQueue ord) :=
  truncateQueue_gen AllJ (fun _ ts oob hi => hi.removeMany ts oob) h ord
theorem AllI.truncateQueue {s : State} (h : AllI s) (ord : List Nat) : AllI (s.truncateQueue ord) :=
  truncateQueue_gen AllI (fun _ ts oob hi => hi.removeMany ts oob) h ord
theorem AllM.truncateQueue {s : State} (h : AllM s) (ord : List Nat) : AllM (s.truncateQueue ord) :=
  truncateQueue_gen AllM (fun _ ts oob hi => hi.removeMany ts oob) h ord
theorem frame_truncateQueue (s : State) (ord : List Nat) : Frame s (s.truncateQueue ord) :=
  truncateQueue_gen (Frame s) (fun s1 ts oob hi => hi.trans (frame_removeMany s1 ts oob)) (Frame.refl s) ord

end YouVerif.C20
