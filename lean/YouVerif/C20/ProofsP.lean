/-
C20 proofs, layer 7: the promotion run (`promoteExecutables`) preserves the full per-account invariant `AllI`
(pending gap-free from the state nonce, payable, queue above, virtual nonce = state nonce + number of pending).
-/
import YouVerif.C20.ProofsInv
namespace YouVerif.C20

/-! ### small helpers -/

theorem getN_eq_none_of {l : List Tx} {n : Nat} (h : ∀ x ∈ l, x.nonce ≠ n) : getN l n = none := by
  unfold getN
  rw [List.find?_eq_none]
  intro x hx
  simpa using h x hx

/-- `txList.Add` of a nonce that is not in the list is never refused -/
theorem add_none_accepts (l : TxList) (t : Tx) (bump : Nat) (h : ∀ x ∈ l.txs, x.nonce ≠ t.nonce) :
    l.add t bump = (true, none, l.put t) := by
  unfold TxList.add
  rw [getN_eq_none_of h]

theorem promoteTx_ok (s : State) (a : Nat) (t : Tx) (h : ∀ x ∈ (s.acct a).pending.txs, x.nonce ≠ t.nonce) :
    (s.promoteTx a t).2 = true := by
  unfold State.promoteTx
  rw [add_none_accepts _ _ _ h]

theorem promoteTx_other (s : State) (a : Nat) (t : Tx) (b : Nat) (hb : b ≠ a) : (s.promoteTx a t).1.acct b = s.acct b := by
  rcases promoteTx_shape s a t with ⟨_, h⟩ | ⟨old, s1, _, _, h1, h2⟩
  · exact h.acct b
  · have e : Same s1 ({ s1 with clock := s1.clock + 1 } : State) := ⟨rfl, rfl, rfl⟩
    rw [h2, acct_upd, e.acct b, h1.acct b, acct_upd]
    simp [Ne.symm hb]

theorem promoteMany_other (s : State) (a : Nat) (ts : List Tx) (b : Nat) (hb : b ≠ a) : (s.promoteMany a ts).acct b = s.acct b := by
  unfold State.promoteMany
  induction ts generalizing s with
  | nil => rfl
  | cons t ts ih => simp only [List.foldl_cons]; rw [ih, promoteTx_other s a t b hb]

theorem AcctJ.congr {ac ac' : Account} {a mg : Nat} (h : AcctJ ac a mg) (e1 : ac'.pending = ac.pending)
    (e2 : ac'.queue = ac.queue) (e3 : ac'.beat = ac.beat) (e4 : ac'.nonce = ac.nonce) (e5 : ac'.balance = ac.balance) :
    AcctJ ac' a mg := by
  constructor <;> simp only [e1, e2, e3, e4, e5]
  · exact h.pSender
  · exact h.qSender
  · exact h.pChain
  · exact h.pAfford
  · exact h.qSorted
  · exact h.qAbove
  · exact h.beat
  · exact h.pCaps
  · exact h.qCaps

/-- queue replaced by a part of itself -/
theorem AcctJ.setQueue {ac ac' : Account} {a mg : Nat} (h : AcctJ ac a mg) (q' : TxList)
    (hsub : ∀ x ∈ q'.txs, x ∈ ac.queue.txs) (hs : Sorted q'.txs)
    (hc : ∀ x ∈ q'.txs, x.cost ≤ q'.costcap ∧ x.gas ≤ q'.gascap)
    (e1 : ac'.pending = ac.pending) (e2 : ac'.queue = q') (e3 : ac'.beat = ac.beat) (e4 : ac'.nonce = ac.nonce)
    (e5 : ac'.balance = ac.balance) : AcctJ ac' a mg := by
  constructor <;> simp only [e1, e2, e3, e4, e5]
  · exact h.pSender
  · exact fun t ht => h.qSender t (hsub t ht)
  · exact h.pChain
  · exact h.pAfford
  · exact hs
  · exact fun t ht => h.qAbove t (hsub t ht)
  · exact h.beat
  · exact h.pCaps
  · exact hc

/-- pending replaced by a prefix-like part of itself that is still a chain -/
theorem AcctJ.setPending {ac ac' : Account} {a mg : Nat} (h : AcctJ ac a mg) (p' : TxList)
    (hsub : ∀ x ∈ p'.txs, x ∈ ac.pending.txs) (hch : Chain ac.nonce p'.txs) (hlen : p'.txs.length ≤ ac.pending.txs.length)
    (hc : ∀ x ∈ p'.txs, x.cost ≤ p'.costcap ∧ x.gas ≤ p'.gascap)
    (e1 : ac'.pending = p') (e2 : ac'.queue = ac.queue) (e3 : p'.txs ≠ [] → ac'.beat ≠ 0) (e4 : ac'.nonce = ac.nonce)
    (e5 : ac'.balance = ac.balance) : AcctJ ac' a mg := by
  constructor <;> simp only [e1, e2, e4, e5]
  · exact fun t ht => h.pSender t (hsub t ht)
  · exact h.qSender
  · exact hch
  · exact fun t ht => h.pAfford t (hsub t ht)
  · exact h.qSorted
  · intro t ht; have := h.qAbove t ht; omega
  · exact e3
  · exact hc
  · exact h.qCaps

theorem AllJ.of_acct {s s' : State} (h : AllJ s) (hm : s'.maxGas = s.maxGas) (he : ∀ b, s'.acct b = s.acct b) : AllJ s' := by
  intro b; rw [he b, hm]; exact h b

theorem Same.allI {s s' : State} (h : Same s s') (hi : AllI s) : AllI s' := by
  refine ⟨h.allJ hi.1, fun b => ?_⟩
  have := hi.2 b
  unfold PN at *
  rw [h.acct b]; exact this

theorem Same.allM {s s' : State} (h : Same s s') (hi : AllM s) : AllM s' :=
  ⟨h.allJ hi.1, fun b => by rw [h.acct b]; exact hi.2 b⟩

/-- shrinking one account's queue keeps the invariant -/
theorem AllI.updQueue {s : State} (h : AllI s) (a : Nat) (q' : TxList)
    (hsub : ∀ x ∈ q'.txs, x ∈ (s.acct a).queue.txs) (hs : Sorted q'.txs)
    (hc : ∀ x ∈ q'.txs, x.cost ≤ q'.costcap ∧ x.gas ≤ q'.gascap) :
    AllI (s.upd a (fun ac => { ac with queue := q' })) := by
  refine ⟨h.1.upd _ _ (fun _ => (h.1 a).setQueue q' hsub hs hc rfl rfl rfl rfl rfl), fun b => ?_⟩
  have := h.2 b
  unfold PN Account.pnGet at *
  rw [acct_upd]
  split <;> exact this

/-! ### promoteTx of the next nonce -/

theorem AllI.promoteTx_next {s : State} (h : AllI s) (a : Nat) (t : Tx) (hs : t.sender = a)
    (hn : t.nonce = (s.acct a).nonce + (s.acct a).pending.txs.length)
    (haff : t.cost ≤ (s.acct a).balance ∧ t.gas ≤ s.maxGas)
    (hq : ∀ q ∈ (s.acct a).queue.txs, t.nonce < q.nonce) :
    AllI (s.promoteTx a t).1 ∧
    (a < s.n → ((s.promoteTx a t).1.acct a).pending.txs.length = (s.acct a).pending.txs.length + 1) := by
  have hA := h.1 a
  have hfree : ∀ x ∈ (s.acct a).pending.txs, x.nonce ≠ t.nonce := by
    intro x hx
    have := hA.pChain.bounds x hx
    omega
  obtain ⟨c, hc, he⟩ := promoteTx_acct s a t (promoteTx_ok s a t hfree)
  have pf := promoteTx_pframe s a t
  have hins := hA.pChain.insertN t ⟨by omega, by omega⟩
  simp only [hn, if_true] at hins
  refine ⟨⟨fun b => ?_, fun b => ?_⟩, fun hlt => ?_⟩
  · rw [pf.2.1, he b]
    split
    · rename_i hab; obtain ⟨rfl, _⟩ := hab
      constructor <;> simp only [TxList.put]
      · intro x hx
        rcases mem_insertN_or hx with rfl | hx
        · exact hs
        · exact hA.pSender x hx
      · exact hA.qSender
      · exact hins.1
      · intro x hx
        rcases mem_insertN_or hx with rfl | hx
        · exact haff
        · exact hA.pAfford x hx
      · exact hA.qSorted
      · intro q hq'
        have := hq q hq'
        rw [hins.2]; omega
      · exact fun _ => hc
      · exact put_caps _ _ hA.pCaps
      · exact hA.qCaps
    · exact h.1 b
  · unfold PN
    rw [he b]
    split
    · rename_i hab; obtain ⟨rfl, _⟩ := hab
      simp only [Account.pnGet, Option.getD_some, TxList.put, hins.2]
      omega
    · exact h.2 b
  · rw [he a]
    simp only [hlt, and_self, if_true, TxList.put, hins.2]

theorem AllI.promoteMany {s : State} (h : AllI s) (a : Nat) (hlt : a < s.n) (ts : List Tx)
    (hs : ∀ t ∈ ts, t.sender = a ∧ t.cost ≤ (s.acct a).balance ∧ t.gas ≤ s.maxGas)
    (hc : Chain ((s.acct a).nonce + (s.acct a).pending.txs.length) ts)
    (hq : ∀ q ∈ (s.acct a).queue.txs, (s.acct a).nonce + (s.acct a).pending.txs.length + ts.length ≤ q.nonce) :
    AllI (s.promoteMany a ts) := by
  unfold State.promoteMany
  induction ts generalizing s with
  | nil => exact h
  | cons t ts ih =>
    simp only [List.foldl_cons]
    obtain ⟨hn, hc'⟩ := chain_cons_iff.mp hc
    have st := h.promoteTx_next a t (hs t (by simp)).1 hn (hs t (by simp)).2 (by
      intro q hq'
      have := hq q hq'
      simp only [List.length_cons] at this
      omega)
    have pf := promoteTx_pframe s a t
    have hlen := st.2 hlt
    have e := pf.2.2.2 a
    refine ih st.1 (by rw [pf.1]; exact hlt) ?_ ?_ ?_
    · intro x hx
      have := hs x (by simp [hx])
      rw [e.2.2.1, pf.2.1]; exact this
    · rw [e.2.1, hlen]
      have : (s.acct a).nonce + ((s.acct a).pending.txs.length + 1) = (s.acct a).nonce + (s.acct a).pending.txs.length + 1 := by omega
      rw [this]; exact hc'
    · intro q hq'
      rw [e.1] at hq'
      have := hq q hq'
      simp only [List.length_cons] at this
      rw [e.2.1, hlen]; omega

/-! ### what the queue scan hands to promotion when the invariant holds -/

theorem queueScan_ready {ac : Account} {a mg : Nat} (h : AcctJ ac a mg)
    (hpn : ac.pnGet = ac.nonce + ac.pending.txs.length) :
    Chain (ac.nonce + ac.pending.txs.length) (queueScan ac mg).2.2.1 ∧
    (∀ t ∈ (queueScan ac mg).2.2.1, t.sender = a ∧ t.cost ≤ ac.balance ∧ t.gas ≤ mg) ∧
    (∀ q ∈ (queueScan ac mg).2.2.2.txs,
      ac.nonce + ac.pending.txs.length + (queueScan ac mg).2.2.1.length ≤ q.nonce) := by
  have hW := h.toW
  have hs0 : Sorted (forwardN ac.queue.txs ac.nonce).2 := h.qSorted.filter _
  have hsub0 : ∀ x ∈ (forwardN ac.queue.txs ac.nonce).2, x ∈ ac.queue.txs := fun x hx => (List.mem_filter.mp hx).1
  have fs := filter_spec ({ ac.queue with txs := (forwardN ac.queue.txs ac.nonce).2 } : TxList) false ac.balance mg hs0
    (fun x hx => h.qCaps x (hsub0 x hx))
  simp only at fs
  obtain ⟨f1, _, _, f4, _, f6, _, _, _⟩ := fs
  have rs := ready_spec _ ac.pnGet f4
  have rn := readyN_spec (({ ac.queue with txs := (forwardN ac.queue.txs ac.nonce).2 } : TxList).filter false ac.balance mg).2.2.txs ac.pnGet
  have hrd : (queueScan ac mg).2.2.1 = (readyN (({ ac.queue with txs := (forwardN ac.queue.txs ac.nonce).2 } : TxList).filter false ac.balance mg).2.2.txs ac.pnGet).1 := rfl
  have hkp : (queueScan ac mg).2.2.2.txs = (readyN (({ ac.queue with txs := (forwardN ac.queue.txs ac.nonce).2 } : TxList).filter false ac.balance mg).2.2.txs ac.pnGet).2 := rfl
  rw [hrd, hkp]
  have hmemq : ∀ x ∈ (readyN (({ ac.queue with txs := (forwardN ac.queue.txs ac.nonce).2 } : TxList).filter false ac.balance mg).2.2.txs ac.pnGet).1,
      x ∈ ac.queue.txs := fun x hx => hsub0 x (f1 x (rs.1 x hx))
  have hchain : Chain (ac.nonce + ac.pending.txs.length)
      (readyN (({ ac.queue with txs := (forwardN ac.queue.txs ac.nonce).2 } : TxList).filter false ac.balance mg).2.2.txs ac.pnGet).1 := by
    rcases rn.2 with hnil | ⟨m, hm, hch, _, x, xs, hl, hx⟩
    · rw [hnil]; exact .nil _
    · have hxq : x ∈ ac.queue.txs := hsub0 x (f1 x (by rw [hl]; simp))
      have := h.qAbove x hxq
      have hmeq : m = ac.nonce + ac.pending.txs.length := by omega
      rw [← hmeq]; exact hch
  refine ⟨hchain, fun t ht => ⟨h.qSender t (hmemq t ht), f6 t (rs.1 t ht)⟩, fun q hq => ?_⟩
  have hqq : q ∈ ac.queue.txs := hsub0 q (f1 q (rs.2.1 q hq))
  refine chain_free_slot hchain (h.qAbove q hqq) (fun t ht => ?_)
  have := rs.2.2.2.2 t ht q hq
  omega

/-! ### promoteAccount / promoteExecutables -/

theorem AllI.capQueue {s : State} (h : AllI s) (a : Nat) (k : Nat) : AllI (s.capQueue a k) := by
  unfold State.capQueue
  simp only
  have hA := (h.1 a).toW
  generalize hcp : (if (s.acct a).isLocal = true then ([], (s.acct a).queue) else (s.acct a).queue.cap s.cfg.accountQueue) = cp
  have hq : (∀ x ∈ cp.2.txs, x ∈ (s.acct a).queue.txs) ∧ Sorted cp.2.txs ∧
      (∀ x ∈ cp.2.txs, x.cost ≤ cp.2.costcap ∧ x.gas ≤ cp.2.gascap) := by
    subst hcp
    split
    · exact ⟨fun _ hx => hx, hA.qSorted, hA.qCaps⟩
    · have cs := cap_spec (s.acct a).queue s.cfg.accountQueue hA.qSorted
      refine ⟨cs.1, cs.2.2.1, fun x hx => ?_⟩
      rw [cs.2.2.2.1, cs.2.2.2.2.1]; exact hA.qCaps x (cs.1 x hx)
  have h1 : AllI (((s.upd a (fun ac => { ac with queue := cp.2 })).allRemoveMany cp.1).pricedRemoved (k + cp.1.length)) :=
    ((same_allRemoveMany _ _).trans (same_pricedRemoved _ _)).allI (h.updQueue a cp.2 hq.1 hq.2.1 hq.2.2)
  split
  · exact h1.updQueue a {} (by simp) sorted_nil (by simp)
  · exact h1

theorem AllI.promoteAccount {s : State} (h : AllI s) (a : Nat) : AllI (s.promoteAccount a) := by
  unfold State.promoteAccount
  simp only
  split
  · exact h
  · rename_i hne
    have hlt : a < s.n := lt_n_of_queue (by simpa using hne)
    have hA := h.1 a
    have sp := queueScan_spec hA.toW s.maxGas
    simp only at sp
    obtain ⟨q1, q2, q3, _⟩ := sp
    obtain ⟨r1, r2, r3⟩ := queueScan_ready hA (h.2 a)
    have same1 : Same s ((s.allRemoveMany (queueScan (s.acct a) s.maxGas).1).allRemoveMany (queueScan (s.acct a) s.maxGas).2.1) :=
      (same_allRemoveMany _ _).trans (same_allRemoveMany _ _)
    have h1 := same1.allI h
    have hA1 : (((s.allRemoveMany (queueScan (s.acct a) s.maxGas).1).allRemoveMany (queueScan (s.acct a) s.maxGas).2.1).acct a) = s.acct a :=
      same1.acct a
    have h2 := h1.updQueue a (queueScan (s.acct a) s.maxGas).2.2.2 (by rw [hA1]; exact q1) q2 q3
    have hlt2 : a < (((s.allRemoveMany (queueScan (s.acct a) s.maxGas).1).allRemoveMany (queueScan (s.acct a) s.maxGas).2.1).upd a
        (fun ac => { ac with queue := (queueScan (s.acct a) s.maxGas).2.2.2 })).n := by rw [n_upd, same1.n]; exact hlt
    have e2 : ((((s.allRemoveMany (queueScan (s.acct a) s.maxGas).1).allRemoveMany (queueScan (s.acct a) s.maxGas).2.1).upd a
        (fun ac => { ac with queue := (queueScan (s.acct a) s.maxGas).2.2.2 })).acct a) =
        { s.acct a with queue := (queueScan (s.acct a) s.maxGas).2.2.2 } := by
      rw [acct_upd_self _ _ _ (by rw [same1.n]; exact hlt), hA1]
    refine AllI.capQueue (h2.promoteMany a hlt2 _ ?_ ?_ ?_) a _
    · intro t ht
      rw [e2]
      refine ⟨(r2 t ht).1, (r2 t ht).2.1, ?_⟩
      show t.gas ≤ ((s.allRemoveMany (queueScan (s.acct a) s.maxGas).1).allRemoveMany (queueScan (s.acct a) s.maxGas).2.1).maxGas
      rw [same1.2.1]; exact (r2 t ht).2.2
    · rw [e2]; exact r1
    · intro q hq
      rw [e2] at hq ⊢
      exact r3 q hq

theorem AllI.promoteExecutables {s : State} (h : AllI s) (as : List Nat) : AllI (s.promoteExecutables as) := by
  unfold State.promoteExecutables
  exact foldl_preserves AllI _ (fun s x hs => hs.promoteAccount x) as s h

end YouVerif.C20
