/-
C20 proofs, layer 4: every pool operation preserves the structural per-account invariant (`AllW`).
-/
import YouVerif.C20.ProofsW
namespace YouVerif.C20

theorem AllW.upd {s : State} (h : AllW s) (a : Nat) (f : Account → Account)
    (hf : a < s.n → AcctW (f (s.acct a)) a) : AllW (s.upd a f) := by
  intro b
  rw [acct_upd]
  split
  · rename_i hc; obtain ⟨rfl, hlt⟩ := hc; exact hf hlt
  · exact h b

theorem Same.allW {s s' : State} (h : Same s s') (hi : AllW s) : AllW s' := by
  intro a; rw [h.acct a]; exact hi a

theorem acct_default_of_ge {s : State} {a : Nat} (h : ¬ a < s.n) : s.acct a = {} := by
  unfold State.acct
  rw [List.getD_eq_getElem?_getD, List.getElem?_eq_none (by unfold State.n at h; omega)]
  rfl

/-- an account that holds anything is inside the table -/
theorem lt_n_of_queue {s : State} {a : Nat} (h : (s.acct a).queue.txs ≠ []) : a < s.n := by
  by_cases hc : a < s.n
  · exact hc
  · rw [acct_default_of_ge hc] at h; simp at h
theorem lt_n_of_pending {s : State} {a : Nat} (h : (s.acct a).pending.txs ≠ []) : a < s.n := by
  by_cases hc : a < s.n
  · exact hc
  · rw [acct_default_of_ge hc] at h; simp at h

/-- fold of a state transformer that preserves a predicate -/
theorem foldl_preserves {α : Type} (P : State → Prop) (f : State → α → State) (h : ∀ s x, P s → P (f s x))
    (l : List α) (s : State) (hs : P s) : P (l.foldl f s) := by
  induction l generalizing s with
  | nil => exact hs
  | cons x xs ih => exact ih _ (h s x hs)

/-! ### frames of the two leaf primitives -/

/-- lookup / priced-list bookkeeping shared by `enqueueTx` and `promoteTx` -/
def enqTail (s1 : State) (old : Option Tx) (t : Tx) : State :=
  let s := match old with
    | some o => (s1.allRemove o).pricedRemoved 1
    | none => s1
  if t ∈ s.all then s else (s.allAdd t).pricedPut t

theorem same_enq_tail (s1 : State) (old : Option Tx) (t : Tx) : Same s1 (enqTail s1 old t) := by
  unfold enqTail
  cases old with
  | none =>
    simp only
    split
    · exact Same.refl _
    · exact (same_allAdd _ _).trans (same_pricedPut _ _)
  | some o =>
    simp only
    split
    · exact (same_allRemove _ _).trans (same_pricedRemoved _ _)
    · exact ((same_allRemove _ _).trans (same_pricedRemoved _ _)).trans ((same_allAdd _ _).trans (same_pricedPut _ _))

/-- `enqueueTx` = (maybe) one queue update of the sender's account, then lookup / priced bookkeeping -/
theorem enqueueTx_shape (s : State) (t : Tx) :
    ((s.enqueueTx t).2.2 = false ∧ (s.enqueueTx t).1 = s ∧ (s.acct t.sender).queue.add t s.cfg.priceBump = (false, none, (s.acct t.sender).queue)) ∨
    (∃ old, (s.enqueueTx t).2.2 = true ∧ (s.enqueueTx t).2.1 = old.isSome ∧
      (s.acct t.sender).queue.add t s.cfg.priceBump = (true, old, (s.acct t.sender).queue.put t) ∧
      (s.enqueueTx t).1 = enqTail (s.upd t.sender (fun ac => { ac with queue := (s.acct t.sender).queue.put t })) old t ∧
      Same (s.upd t.sender (fun ac => { ac with queue := (s.acct t.sender).queue.put t })) (s.enqueueTx t).1) := by
  rcases add_spec (s.acct t.sender).queue t s.cfg.priceBump with h | ⟨old, h, _, _⟩
  · left
    refine ⟨?_, ?_, h⟩ <;> (unfold State.enqueueTx; simp only [h])
  · right
    have e : (s.enqueueTx t).1 = enqTail (s.upd t.sender (fun ac => { ac with queue := (s.acct t.sender).queue.put t })) old t := by
      unfold State.enqueueTx enqTail; simp only [h]
      cases old <;> rfl
    refine ⟨old, ?_, ?_, h, e, by rw [e]; exact same_enq_tail _ old t⟩ <;> (unfold State.enqueueTx; simp only [h])

theorem enqueueTx_qframe (s : State) (t : Tx) : QFrame s (s.enqueueTx t).1 := by
  rcases enqueueTx_shape s t with ⟨_, h, _⟩ | ⟨old, _, _, _, _, h⟩
  · rw [h]; exact QFrame.refl _
  · refine ⟨by rw [h.n]; exact n_upd _ _ _, h.2.1, h.2.2, fun b => ?_⟩
    rw [h.acct b, acct_upd]
    split <;> simp

theorem AllW.enqueueTx {s : State} (h : AllW s) (t : Tx)
    (hd : ∀ p ∈ (s.acct t.sender).pending.txs, p.nonce ≠ t.nonce) : AllW (s.enqueueTx t).1 := by
  rcases enqueueTx_shape s t with ⟨_, e, _⟩ | ⟨old, _, _, _, _, e⟩
  · rw [e]; exact h
  · exact e.allW (h.upd _ _ (fun _ => (h t.sender).putQueue t rfl hd rfl rfl rfl))

theorem enqueueMany_qframe (s : State) (ts : List Tx) : QFrame s (s.enqueueMany ts) := by
  unfold State.enqueueMany
  induction ts generalizing s with
  | nil => exact QFrame.refl _
  | cons t ts ih => exact (enqueueTx_qframe s t).trans (ih _)

theorem AllW.enqueueMany {s : State} (h : AllW s) (ts : List Tx)
    (hd : ∀ x ∈ ts, ∀ p ∈ (s.acct x.sender).pending.txs, p.nonce ≠ x.nonce) : AllW (s.enqueueMany ts) := by
  unfold State.enqueueMany
  induction ts generalizing s with
  | nil => exact h
  | cons t ts ih =>
    simp only [List.foldl_cons]
    refine ih (h.enqueueTx t (hd t (by simp))) ?_
    intro x hx
    rw [((enqueueTx_qframe s t).2.2.2 x.sender).1]
    exact hd x (by simp [hx])

/-- everything about the accounts except pending / virtual nonce / heartbeat is as before -/
def PFrame (s s' : State) : Prop :=
  s'.n = s.n ∧ s'.maxGas = s.maxGas ∧ s'.cfg = s.cfg ∧
    ∀ b, (s'.acct b).queue = (s.acct b).queue ∧ (s'.acct b).nonce = (s.acct b).nonce ∧
      (s'.acct b).balance = (s.acct b).balance ∧ (s'.acct b).isLocal = (s.acct b).isLocal

theorem PFrame.refl (s : State) : PFrame s s := ⟨rfl, rfl, rfl, fun _ => ⟨rfl, rfl, rfl, rfl⟩⟩
theorem PFrame.trans {a b c : State} (h1 : PFrame a b) (h2 : PFrame b c) : PFrame a c := by
  refine ⟨h2.1.trans h1.1, h2.2.1.trans h1.2.1, h2.2.2.1.trans h1.2.2.1, fun x => ?_⟩
  have p := h1.2.2.2 x
  have q := h2.2.2.2 x
  exact ⟨q.1.trans p.1, q.2.1.trans p.2.1, q.2.2.1.trans p.2.2.1, q.2.2.2.trans p.2.2.2⟩
theorem Same.pframe {s s' : State} (h : Same s s') : PFrame s s' :=
  ⟨h.n, h.2.1, h.2.2, fun b => by rw [h.acct b]; exact ⟨rfl, rfl, rfl, rfl⟩⟩
theorem Same.qframe {s s' : State} (h : Same s s') : QFrame s s' :=
  ⟨h.n, h.2.1, h.2.2, fun b => by rw [h.acct b]; exact ⟨rfl, rfl, rfl, rfl, rfl, rfl⟩⟩

/-- `promoteTx`: refused (bookkeeping only) or one pending update of account `a` -/
theorem promoteTx_shape (s : State) (a : Nat) (t : Tx) :
    ((s.promoteTx a t).2 = false ∧ Same s (s.promoteTx a t).1) ∨
    (∃ old s1, (s.promoteTx a t).2 = true ∧ (s.acct a).pending.add t s.cfg.priceBump = (true, old, (s.acct a).pending.put t) ∧
      Same (s.upd a (fun ac => { ac with pending := (s.acct a).pending.put t })) s1 ∧
      (s.promoteTx a t).1 = ({ s1 with clock := s1.clock + 1 } : State).upd a
        (fun ac => { ac with beat := s1.clock + 1, pn := some (t.nonce + 1) })) := by
  rcases add_spec (s.acct a).pending t s.cfg.priceBump with h | ⟨old, h, _, _⟩
  · left
    unfold State.promoteTx
    simp only [h]
    refine ⟨?_, (same_allRemove _ _).trans (same_pricedRemoved _ _)⟩
    first | rfl | trivial
  · right
    refine ⟨old, enqTail (s.upd a (fun ac => { ac with pending := (s.acct a).pending.put t })) old t, ?_, h,
      same_enq_tail _ old t, ?_⟩
    · unfold State.promoteTx; simp only [h]
    · unfold State.promoteTx enqTail; simp only [h]
      cases old <;> rfl

theorem promoteTx_pframe (s : State) (a : Nat) (t : Tx) : PFrame s (s.promoteTx a t).1 := by
  rcases promoteTx_shape s a t with ⟨_, h⟩ | ⟨old, s1, _, _, h1, h2⟩
  · exact h.pframe
  · rw [h2]
    have e : Same s1 ({ s1 with clock := s1.clock + 1 } : State) := ⟨rfl, rfl, rfl⟩
    refine ⟨?_, ?_, ?_, fun b => ?_⟩
    · rw [n_upd, e.n, h1.n, n_upd]
    · show s1.maxGas = _; exact h1.2.1
    · show s1.cfg = _; exact h1.2.2
    · rw [acct_upd, e.acct b, h1.acct b, acct_upd]
      split <;> split <;> simp

/-- the accounts after an accepted `promoteTx` -/
theorem promoteTx_acct (s : State) (a : Nat) (t : Tx) (hok : (s.promoteTx a t).2 = true) :
    ∃ c, c ≠ 0 ∧ ∀ b, (s.promoteTx a t).1.acct b =
      if a = b ∧ a < s.n then { s.acct b with pending := (s.acct b).pending.put t, beat := c, pn := some (t.nonce + 1) }
      else s.acct b := by
  rcases promoteTx_shape s a t with ⟨hf, _⟩ | ⟨old, s1, _, _, h1, h2⟩
  · rw [hf] at hok; cases hok
  · refine ⟨s1.clock + 1, by omega, fun b => ?_⟩
    have e : Same s1 ({ s1 with clock := s1.clock + 1 } : State) := ⟨rfl, rfl, rfl⟩
    rw [h2, acct_upd, e.acct b, h1.acct b, acct_upd, e.n, h1.n, n_upd]
    split
    · rename_i hc; obtain ⟨rfl, hlt⟩ := hc; simp [hlt]
    · rename_i hc; simp [hc]

theorem AllW.promoteTx {s : State} (h : AllW s) (a : Nat) (t : Tx) (hs : t.sender = a)
    (hd : ∀ q ∈ (s.acct a).queue.txs, q.nonce ≠ t.nonce) : AllW (s.promoteTx a t).1 := by
  cases hok : (s.promoteTx a t).2 with
  | false =>
    rcases promoteTx_shape s a t with ⟨_, e⟩ | ⟨old, s1, ht, _, _, _⟩
    · exact e.allW h
    · rw [ht] at hok; cases hok
  | true =>
    obtain ⟨c, hc, he⟩ := promoteTx_acct s a t hok
    intro b
    rw [he b]
    split
    · rename_i hab; obtain ⟨rfl, _⟩ := hab
      exact (h a).putPending t hs hd rfl rfl hc
    · exact h b

theorem promoteMany_pframe (s : State) (a : Nat) (ts : List Tx) : PFrame s (s.promoteMany a ts) := by
  unfold State.promoteMany
  induction ts generalizing s with
  | nil => exact PFrame.refl _
  | cons t ts ih => exact (promoteTx_pframe s a t).trans (ih _)

theorem AllW.promoteMany {s : State} (h : AllW s) (a : Nat) (ts : List Tx)
    (hd : ∀ x ∈ ts, x.sender = a ∧ ∀ q ∈ (s.acct a).queue.txs, q.nonce ≠ x.nonce) : AllW (s.promoteMany a ts) := by
  unfold State.promoteMany
  induction ts generalizing s with
  | nil => exact h
  | cons t ts ih =>
    simp only [List.foldl_cons]
    refine ih (h.promoteTx a t (hd t (by simp)).1 (hd t (by simp)).2) ?_
    intro x hx
    rw [((promoteTx_pframe s a t).2.2.2 a).1]
    exact hd x (by simp [hx])

end YouVerif.C20
