/-
C20 proofs, layer 4: every pool operation preserves the structural per-account invariant (`AllW`).
-/
import YouVerif.C20.ProofsW
namespace YouVerif.C20

theorem AllW.upd {s : State} (h : AllW s) (a : Nat) (f : Account → Account)
    (hf : a < s.n → AcctW (f (s.acct a)) a) : AllW (s.upd a f) := by
  intro b
  rw [acct_upd]
  split
  · rename_i hc; obtain ⟨rfl, hlt⟩ := hc; exact hf hlt
  · exact h b

theorem Same.allW {s s' : State} (h : Same s s') (hi : AllW s) : AllW s' := by
  intro a; rw [h.acct a]; exact hi a

theorem acct_default_of_ge {s : State} {a : Nat} (h : ¬ a < s.n) : s.acct a = {} := by
  unfold State.acct
  rw [List.getD_eq_getElem?_getD, List.getElem?_eq_none (by unfold State.n at h; omega)]
  rfl

/-- an account that holds anything is inside the table -/
theorem lt_n_of_queue {s : State} {a : Nat} (h : (s.acct a).queue.txs ≠ []) : a < s.n := by
  by_cases hc : a < s.n
  · exact hc
  · rw [acct_default_of_ge hc] at h; simp at h
theorem lt_n_of_pending {s : State} {a : Nat} (h : (s.acct a).pending.txs ≠ []) : a < s.n := by
  by_cases hc : a < s.n
  · exact hc
  · rw [acct_default_of_ge hc] at h; simp at h

/-- fold of a state transformer that preserves a predicate -/
theorem foldl_preserves {α : Type} (P : State → Prop) (f : State → α → State) (h : ∀ s x, P s → P (f s x))
    (l : List α) (s : State) (hs : P s) : P (l.foldl f s) := by
  induction l generalizing s with
  | nil => exact hs
  | cons x xs ih => exact ih _ (h s x hs)

/-! ### frames of the two leaf primitives -/

/-- lookup / priced-list bookkeeping shared by `enqueueTx` and `promoteTx` -/
def enqTail (s1 : State) (old : Option Tx) (t : Tx) : State :=
  let s := match old with
    | some o => (s1.allRemove o).pricedRemoved 1
    | none => s1
  if t ∈ s.all then s else (s.allAdd t).pricedPut t

theorem same_enq_tail (s1 : State) (old : Option Tx) (t : Tx) : Same s1 (enqTail s1 old t) := by
  unfold enqTail
  cases old with
  | none =>
    simp only
    split
    · exact Same.refl _
    · exact (same_allAdd _ _).trans (same_pricedPut _ _)
  | some o =>
    simp only
    split
    · exact (same_allRemove _ _).trans (same_pricedRemoved _ _)
    · exact ((same_allRemove _ _).trans (same_pricedRemoved _ _)).trans ((same_allAdd _ _).trans (same_pricedPut _ _))

/-- `enqueueTx` = (maybe) one queue update of the sender's account, then lookup / priced bookkeeping -/
theorem enqueueTx_shape (s : State) (t : Tx) :
    ((s.enqueueTx t).2.2 = false ∧ (s.enqueueTx t).1 = s ∧ (s.acct t.sender).queue.add t s.cfg.priceBump = (false, none, (s.acct t.sender).queue)) ∨
    (∃ old, (s.enqueueTx t).2.2 = true ∧ (s.enqueueTx t).2.1 = old.isSome ∧
      (s.acct t.sender).queue.add t s.cfg.priceBump = (true, old, (s.acct t.sender).queue.put t) ∧
      (s.enqueueTx t).1 = enqTail (s.upd t.sender (fun ac => { ac with queue := (s.acct t.sender).queue.put t })) old t ∧
      Same (s.upd t.sender (fun ac => { ac with queue := (s.acct t.sender).queue.put t })) (s.enqueueTx t).1) := by
  rcases add_spec (s.acct t.sender).queue t s.cfg.priceBump with h | ⟨old, h, _, _⟩
  · left
    refine ⟨?_, ?_, h⟩ <;> (unfold State.enqueueTx; simp only [h])
  · right
    have e : (s.enqueueTx t).1 = enqTail (s.upd t.sender (fun ac => { ac with queue := (s.acct t.sender).queue.put t })) old t := by
      unfold State.enqueueTx enqTail; simp only [h]
      cases old <;> rfl
    refine ⟨old, ?_, ?_, h, e, by rw [e]; exact same_enq_tail _ old t⟩ <;> (unfold State.enqueueTx; simp only [h])

theorem enqueueTx_qframe (s : State) (t : Tx) : QFrame s (s.enqueueTx t).1 := by
  rcases enqueueTx_shape s t with ⟨_, h, _⟩ | ⟨old, _, _, _, _, h⟩
  · rw [h]; exact QFrame.refl _
  · refine ⟨by rw [h.n]; exact n_upd _ _ _, h.2.1, h.2.2, fun b => ?_⟩
    rw [h.acct b, acct_upd]
    split <;> simp

theorem AllW.enqueueTx {s : State} (h : AllW s) (t : Tx)
    (hd : ∀ p ∈ (s.acct t.sender).pending.txs, p.nonce ≠ t.nonce) : AllW (s.enqueueTx t).1 := by
  rcases enqueueTx_shape s t with ⟨_, e, _⟩ | ⟨old, _, _, _, _, e⟩
  · rw [e]; exact h
  · exact e.allW (h.upd _ _ (fun _ => (h t.sender).putQueue t rfl hd rfl rfl rfl))

theorem enqueueMany_qframe (s : State) (ts : List Tx) : QFrame s (s.enqueueMany ts) := by
  unfold State.enqueueMany
  induction ts generalizing s with
  | nil => exact QFrame.refl _
  | cons t ts ih => exact (enqueueTx_qframe s t).trans (ih _)

theorem AllW.enqueueMany {s : State} (h : AllW s) (ts : List Tx)
    (hd : ∀ x ∈ ts, ∀ p ∈ (s.acct x.sender).pending.txs, p.nonce ≠ x.nonce) : AllW (s.enqueueMany ts) := by
  unfold State.enqueueMany
  induction ts generalizing s with
  | nil => exact h
  | cons t ts ih =>
    simp only [List.foldl_cons]
    refine ih (h.enqueueTx t (hd t (by simp))) ?_
    intro x hx
    rw [((enqueueTx_qframe s t).2.2.2 x.sender).1]
    exact hd x (by simp [hx])

/-- everything about the accounts except pending / virtual nonce / heartbeat is as before -/
def PFrame (s s' : State) : Prop :=
  s'.n = s.n ∧ s'.maxGas = s.maxGas ∧ s'.cfg = s.cfg ∧
    ∀ b, (s'.acct b).queue = (s.acct b).queue ∧ (s'.acct b).nonce = (s.acct b).nonce ∧
      (s'.acct b).balance = (s.acct b).balance ∧ (s'.acct b).isLocal = (s.acct b).isLocal

theorem PFrame.refl (s : State) : PFrame s s := ⟨rfl, rfl, rfl, fun _ => ⟨rfl, rfl, rfl, rfl⟩⟩
theorem PFrame.trans {a b c : State} (h1 : PFrame a b) (h2 : PFrame b c) : PFrame a c := by
  refine ⟨h2.1.trans h1.1, h2.2.1.trans h1.2.1, h2.2.2.1.trans h1.2.2.1, fun x => ?_⟩
  have p := h1.2.2.2 x
  have q := h2.2.2.2 x
  exact ⟨q.1.trans p.1, q.2.1.trans p.2.1, q.2.2.1.trans p.2.2.1, q.2.2.2.trans p.2.2.2⟩
theorem Same.pframe {s s' : State} (h : Same s s') : PFrame s s' :=
  ⟨h.n, h.2.1, h.2.2, fun b => by rw [h.acct b]; exact ⟨rfl, rfl, rfl, rfl⟩⟩
theorem Same.qframe {s s' : State} (h : Same s s') : QFrame s s' :=
  ⟨h.n, h.2.1, h.2.2, fun b => by rw [h.acct b]; exact ⟨rfl, rfl, rfl, rfl, rfl, rfl⟩⟩

/-- `promoteTx`: refused (bookkeeping only) or one pending update of account `a` -/
theorem promoteTx_shape (s : State) (a : Nat) (t : Tx) :
    ((s.promoteTx a t).2 = false ∧ Same s (s.promoteTx a t).1) ∨
    (∃ old s1, (s.promoteTx a t).2 = true ∧ (s.acct a).pending.add t s.cfg.priceBump = (true, old, (s.acct a).pending.put t) ∧
      Same (s.upd a (fun ac => { ac with pending := (s.acct a).pending.put t })) s1 ∧
      (s.promoteTx a t).1 = ({ s1 with clock := s1.clock + 1 } : State).upd a
        (fun ac => { ac with beat := s1.clock + 1, pn := some (t.nonce + 1) })) := by
  rcases add_spec (s.acct a).pending t s.cfg.priceBump with h | ⟨old, h, _, _⟩
  · left
    unfold State.promoteTx
    simp only [h]
    refine ⟨?_, (same_allRemove _ _).trans (same_pricedRemoved _ _)⟩
    first | rfl | trivial
  · right
    refine ⟨old, enqTail (s.upd a (fun ac => { ac with pending := (s.acct a).pending.put t })) old t, ?_, h,
      same_enq_tail _ old t, ?_⟩
    · unfold State.promoteTx; simp only [h]
    · unfold State.promoteTx enqTail; simp only [h]
      cases old <;> rfl

theorem promoteTx_pframe (s : State) (a : Nat) (t : Tx) : PFrame s (s.promoteTx a t).1 := by
  rcases promoteTx_shape s a t with ⟨_, h⟩ | ⟨old, s1, _, _, h1, h2⟩
  · exact h.pframe
  · rw [h2]
    have e : Same s1 ({ s1 with clock := s1.clock + 1 } : State) := ⟨rfl, rfl, rfl⟩
    refine ⟨?_, ?_, ?_, fun b => ?_⟩
    · rw [n_upd, e.n, h1.n, n_upd]
    · show s1.maxGas = _; exact h1.2.1
    · show s1.cfg = _; exact h1.2.2
    · rw [acct_upd, e.acct b, h1.acct b, acct_upd]
      split <;> split <;> simp

/-- the accounts after an accepted `promoteTx` -/
theorem promoteTx_acct (s : State) (a : Nat) (t : Tx) (hok : (s.promoteTx a t).2 = true) :
    ∃ c, c ≠ 0 ∧ ∀ b, (s.promoteTx a t).1.acct b =
      if a = b ∧ a < s.n then { s.acct b with pending := (s.acct b).pending.put t, beat := c, pn := some (t.nonce + 1) }
      else s.acct b := by
  rcases promoteTx_shape s a t with ⟨hf, _⟩ | ⟨old, s1, _, _, h1, h2⟩
  · rw [hf] at hok; cases hok
  · refine ⟨s1.clock + 1, by omega, fun b => ?_⟩
    have e : Same s1 ({ s1 with clock := s1.clock + 1 } : State) := ⟨rfl, rfl, rfl⟩
    rw [h2, acct_upd, e.acct b, h1.acct b, acct_upd, e.n, h1.n, n_upd]
    split
    · rename_i hc; obtain ⟨rfl, hlt⟩ := hc; simp [hlt]
    · rename_i hc; simp [hc]

theorem AllW.promoteTx {s : State} (h : AllW s) (a : Nat) (t : Tx) (hs : t.sender = a)
    (hd : ∀ q ∈ (s.acct a).queue.txs, q.nonce ≠ t.nonce) : AllW (s.promoteTx a t).1 := by
  cases hok : (s.promoteTx a t).2 with
  | false =>
    rcases promoteTx_shape s a t with ⟨_, e⟩ | ⟨old, s1, ht, _, _, _⟩
    · exact e.allW h
    · rw [ht] at hok; cases hok
  | true =>
    obtain ⟨c, hc, he⟩ := promoteTx_acct s a t hok
    intro b
    rw [he b]
    split
    · rename_i hab; obtain ⟨rfl, _⟩ := hab
      exact (h a).putPending t hs hd rfl rfl hc
    · exact h b

theorem promoteMany_pframe (s : State) (a : Nat) (ts : List Tx) : PFrame s (s.promoteMany a ts) := by
  unfold State.promoteMany
  induction ts generalizing s with
  | nil => exact PFrame.refl _
  | cons t ts ih => exact (promoteTx_pframe s a t).trans (ih _)

theorem AllW.promoteMany {s : State} (h : AllW s) (a : Nat) (ts : List Tx)
    (hd : ∀ x ∈ ts, x.sender = a ∧ ∀ q ∈ (s.acct a).queue.txs, q.nonce ≠ x.nonce) : AllW (s.promoteMany a ts) := by
  unfold State.promoteMany
  induction ts generalizing s with
  | nil => exact h
  | cons t ts ih =>
    simp only [List.foldl_cons]
    refine ih (h.promoteTx a t (hd t (by simp)).1 (hd t (by simp)).2) ?_
    intro x hx
    rw [((promoteTx_pframe s a t).2.2.2 a).1]
    exact hd x (by simp [hx])

/-! ### removeTx -/

theorem setIfLower_fields (ac : Account) (n : Nat) :
    (ac.setIfLower n).pending = ac.pending ∧ (ac.setIfLower n).queue = ac.queue ∧ (ac.setIfLower n).beat = ac.beat ∧
    (ac.setIfLower n).nonce = ac.nonce ∧ (ac.setIfLower n).balance = ac.balance ∧ (ac.setIfLower n).isLocal = ac.isLocal := by
  unfold Account.setIfLower; split <;> exact ⟨rfl, rfl, rfl, rfl, rfl, rfl⟩

theorem AllW.removePending {s : State} (h : AllW s) (t : Tx) (invalids : List Tx) (p' : TxList)
    (hne : (s.acct t.sender).pending.txs ≠ [])
    (hr : (s.acct t.sender).pending.remove true t = (true, invalids, p')) : AllW (s.removePending t invalids p') := by
  have hA := h t.sender
  have hlt : t.sender < s.n := lt_n_of_pending hne
  have spec := (remove_strict_spec (s.acct t.sender).pending t hA.pSorted).2 (by rw [hr])
  rw [hr] at spec
  obtain ⟨hkept, hinv, hcc, hgc, hsort, _, _, _⟩ := spec
  simp only at hkept hinv hcc hgc hsort
  -- after the pending update, whatever it is
  have aux : ∀ s1 : State, AllW s1 → (∀ x ∈ (s1.acct t.sender).pending.txs, x.nonce < t.nonce) →
      AllW ((s1.enqueueMany invalids).upd t.sender (fun ac => ac.setIfLower t.nonce)) := by
    intro s1 h1 hlow
    have h2 : AllW (s1.enqueueMany invalids) := h1.enqueueMany invalids (by
      intro x hx p hp
      have hs : x.sender = t.sender := hA.pSender x (hinv x hx).1
      rw [hs] at hp
      have := hlow p hp
      have := (hinv x hx).2
      omega)
    refine h2.upd _ _ (fun _ => ?_)
    have f := setIfLower_fields ((s1.enqueueMany invalids).acct t.sender) t.nonce
    exact (h2 t.sender).congr f.1 f.2.1 f.2.2.1
  unfold State.removePending
  simp only
  split
  · refine aux _ (h.upd _ _ (fun _ => ?_)) ?_
    · exact hA.setPending {} (by simp) sorted_nil (by simp) rfl rfl (by simp)
    · rw [acct_upd_self _ _ _ hlt]; simp
  · rename_i hemp
    refine aux _ (h.upd _ _ (fun _ => ?_)) ?_
    · refine hA.setPending p' (fun x hx => (hkept x hx).1) hsort ?_ rfl rfl (fun _ => hA.beat hne)
      intro x hx
      rw [hcc, hgc]; exact hA.pCaps x (hkept x hx).1
    · rw [acct_upd_self _ _ _ hlt]
      exact fun x hx => (hkept x hx).2

theorem AllW.removeQueued {s : State} (h : AllW s) (t : Tx) : AllW (s.removeQueued t) := by
  unfold State.removeQueued
  simp only
  split
  · exact h
  · have hA := h t.sender
    have spec := remove_loose_spec (s.acct t.sender).queue t hA.qSorted
    split
    · exact h.upd _ _ (fun _ => hA.setQueue {} (by simp) sorted_nil (by simp) rfl rfl rfl)
    · refine h.upd _ _ (fun _ => hA.setQueue _ (fun x hx => (spec.1 x hx).1) spec.2.1 ?_ rfl rfl rfl)
      intro x hx
      rw [spec.2.2.1, spec.2.2.2.1]; exact hA.qCaps x (spec.1 x hx).1

theorem AllW.removeFromLists {s : State} (h : AllW s) (t : Tx) : AllW (s.removeFromLists t) := by
  unfold State.removeFromLists
  simp only
  split
  · rename_i invalids p' hm
    split at hm
    · simp at hm
    · rename_i hne
      exact h.removePending t invalids p' (by simpa using hne) hm
  · exact h.removeQueued t

theorem AllW.removeTx {s : State} (h : AllW s) (t : Tx) (oob : Bool) : AllW (s.removeTx t oob) := by
  unfold State.removeTx
  split
  · exact h
  · simp only
    refine AllW.removeFromLists ?_ t
    split
    · exact ((same_allRemove _ _).trans (same_pricedRemoved _ _)).allW h
    · exact (same_allRemove _ _).allW h

theorem AllW.removeMany {s : State} (h : AllW s) (ts : List Tx) (oob : Bool) : AllW (s.removeMany ts oob) := by
  unfold State.removeMany
  exact foldl_preserves AllW _ (fun s x hs => hs.removeTx x oob) ts s h

/-! ### priced-list queries change nothing but the priced list -/

theorem same_underpriced (s : State) (t : Tx) : Same s (s.underpriced t).1 := by
  unfold State.underpriced
  split
  · exact Same.refl _
  · simp only
    split <;> exact ⟨rfl, rfl, rfl⟩

theorem same_discard (s : State) (k : Nat) : Same s (s.discard k).1 := by
  unfold State.discard; exact ⟨rfl, rfl, rfl⟩

theorem same_pricedCap (s : State) (k : Nat) : Same s (s.pricedCap k).1 := by
  unfold State.pricedCap; exact ⟨rfl, rfl, rfl⟩

/-! ### add -/

theorem AllW.makeRoom {s : State} (h : AllW s) (t : Tx) (l : Bool) : AllW (s.makeRoom t l).1 := by
  unfold State.makeRoom
  simp only
  split
  · generalize hr : (if (!l) = true then s.underpriced t else (s, false)) = r
    have hu : AllW r.1 := by
      subst hr
      split
      · exact (same_underpriced s t).allW h
      · exact h
    split
    · exact hu
    · exact ((same_discard _ _).allW hu).removeMany _ _
  · exact h

theorem AllW.addAdmitted {s : State} (h : AllW s) (t : Tx) (l : Bool) : AllW (s.addAdmitted t l).1 := by
  unfold State.addAdmitted
  simp only
  have hA := h t.sender
  split
  · rename_i hsome
    rcases add_spec (s.acct t.sender).pending t s.cfg.priceBump with e | ⟨old, e, _, _⟩
    · rw [e]; exact h
    · rw [e]
      simp only
      obtain ⟨o, ho⟩ := Option.isSome_iff_exists.mp hsome
      have hom := getN_some_mem ho
      have hW1 : AllW (s.upd t.sender (fun ac => { ac with pending := (s.acct t.sender).pending.put t })) := by
        refine h.upd _ _ (fun _ => hA.putPending t rfl ?_ rfl rfl (hA.beat (List.ne_nil_of_mem hom.1)))
        intro q hq e
        exact hA.disj o hom.1 q hq (by omega)
      refine ((same_allAdd _ _).trans (same_pricedPut _ _)).allW ?_
      cases old with
      | none => exact hW1
      | some o' => exact ((same_allRemove _ _).trans (same_pricedRemoved _ _)).allW hW1
  · rename_i hnone
    have hn : getN (s.acct t.sender).pending.txs t.nonce = none := by
      cases hg : getN (s.acct t.sender).pending.txs t.nonce with
      | none => rfl
      | some _ => rw [hg] at hnone; simp at hnone
    have hE : AllW (s.enqueueTx t).1 := h.enqueueTx t (getN_none hn)
    split
    · rename_i s' _ heq
      have : s' = (s.enqueueTx t).1 := by rw [heq]
      rw [this]; exact hE
    · rename_i s' _ heq
      have : s' = (s.enqueueTx t).1 := by rw [heq]
      rw [this]
      split
      · exact hE.upd _ _ (fun _ => (hE t.sender).congr rfl rfl rfl)
      · exact hE

theorem AllW.add {s : State} (h : AllW s) (t : Tx) (l : Bool) : AllW (s.add t l).1 := by
  unfold State.add
  split
  · exact h
  · split
    · exact h
    · simp only
      split
      · exact h.makeRoom t l
      · exact (h.makeRoom t l).addAdmitted t l

theorem AllW.addTxsLocked {s : State} (h : AllW s) (txs : List Tx) (l : Bool) : AllW (s.addTxsLocked txs l).1 := by
  unfold State.addTxsLocked
  suffices hh : ∀ (acc : State × List (Except Err Bool) × List Nat), AllW acc.1 →
      AllW (txs.foldl (fun (acc : State × List (Except Err Bool) × List Nat) t =>
        let (s, rs, dirty) := acc
        let (s, r) := s.add t l
        let dirty := match r with
          | .ok false => if dirty.contains t.sender then dirty else dirty ++ [t.sender]
          | _ => dirty
        (s, rs ++ [r], dirty)) acc).1 from hh (s, [], []) h
  induction txs with
  | nil => exact fun _ h => h
  | cons t ts ih =>
    intro acc hacc
    simp only [List.foldl_cons]
    exact ih _ (hacc.add t l)

/-! ### promoteExecutables -/

theorem queueScan_spec {ac : Account} {a : Nat} (h : AcctW ac a) (mg : Nat) :
    let sc := queueScan ac mg
    (∀ x ∈ sc.2.2.2.txs, x ∈ ac.queue.txs) ∧ Sorted sc.2.2.2.txs ∧
    (∀ x ∈ sc.2.2.2.txs, x.cost ≤ sc.2.2.2.costcap ∧ x.gas ≤ sc.2.2.2.gascap) ∧
    (∀ x ∈ sc.2.2.1, x ∈ ac.queue.txs ∧ ∀ y ∈ sc.2.2.2.txs, y.nonce ≠ x.nonce) := by
  intro sc
  have hs0 : Sorted (forwardN ac.queue.txs ac.nonce).2 := h.qSorted.filter _
  have hsub0 : ∀ x ∈ (forwardN ac.queue.txs ac.nonce).2, x ∈ ac.queue.txs := fun x hx => (List.mem_filter.mp hx).1
  have fs := filter_spec ({ ac.queue with txs := (forwardN ac.queue.txs ac.nonce).2 } : TxList) false ac.balance mg hs0
    (fun x hx => h.qCaps x (hsub0 x hx))
  simp only at fs
  obtain ⟨f1, _, _, f4, f5, _, _, _, _⟩ := fs
  have rs := ready_spec _ ac.pnGet f4
  simp only [sc, queueScan]
  refine ⟨fun x hx => hsub0 x (f1 x (rs.2.1 x hx)), rs.2.2.2.1, fun x hx => f5 x (rs.2.1 x hx), ?_⟩
  intro x hx
  refine ⟨hsub0 x (f1 x (rs.1 x hx)), fun y hy => ?_⟩
  have := rs.2.2.2.2 x hx y hy
  omega

theorem AllW.capQueue {s : State} (h : AllW s) (a : Nat) (k : Nat) : AllW (s.capQueue a k) := by
  unfold State.capQueue
  simp only
  have hA := h a
  generalize hcp : (if (s.acct a).isLocal = true then ([], (s.acct a).queue) else (s.acct a).queue.cap s.cfg.accountQueue) = cp
  have hq : (∀ x ∈ cp.2.txs, x ∈ (s.acct a).queue.txs) ∧ Sorted cp.2.txs ∧
      (∀ x ∈ cp.2.txs, x.cost ≤ cp.2.costcap ∧ x.gas ≤ cp.2.gascap) := by
    subst hcp
    split
    · exact ⟨fun _ hx => hx, hA.qSorted, hA.qCaps⟩
    · have cs := cap_spec (s.acct a).queue s.cfg.accountQueue hA.qSorted
      refine ⟨cs.1, cs.2.2.1, fun x hx => ?_⟩
      rw [cs.2.2.2.1, cs.2.2.2.2.1]; exact hA.qCaps x (cs.1 x hx)
  have h1 : AllW (((s.upd a (fun ac => { ac with queue := cp.2 })).allRemoveMany cp.1).pricedRemoved (k + cp.1.length)) :=
    ((same_allRemoveMany _ _).trans (same_pricedRemoved _ _)).allW
      (h.upd _ _ (fun _ => hA.setQueue cp.2 hq.1 hq.2.1 hq.2.2 rfl rfl rfl))
  split
  · exact h1.upd _ _ (fun _ => (h1 a).setQueue {} (by simp) sorted_nil (by simp) rfl rfl rfl)
  · exact h1

theorem AllW.promoteAccount {s : State} (h : AllW s) (a : Nat) : AllW (s.promoteAccount a) := by
  unfold State.promoteAccount
  simp only
  split
  · exact h
  · rename_i hne
    have hlt : a < s.n := lt_n_of_queue (by simpa using hne)
    have hA := h a
    have sp := queueScan_spec hA s.maxGas
    simp only at sp
    obtain ⟨q1, q2, q3, q4⟩ := sp
    have same1 : Same s ((s.allRemoveMany (queueScan (s.acct a) s.maxGas).1).allRemoveMany (queueScan (s.acct a) s.maxGas).2.1) :=
      (same_allRemoveMany _ _).trans (same_allRemoveMany _ _)
    have h1 := same1.allW h
    have hA1 : (((s.allRemoveMany (queueScan (s.acct a) s.maxGas).1).allRemoveMany (queueScan (s.acct a) s.maxGas).2.1).acct a) = s.acct a :=
      same1.acct a
    refine AllW.capQueue (AllW.promoteMany (h1.upd _ _ (fun _ => ?_)) a _ ?_) a _
    · rw [hA1]; exact hA.setQueue _ q1 q2 q3 rfl rfl rfl
    · intro x hx
      refine ⟨hA.qSender x (q4 x hx).1, ?_⟩
      rw [acct_upd_self _ _ _ (by rw [same1.n]; exact hlt)]
      exact (q4 x hx).2

theorem AllW.promoteExecutables {s : State} (h : AllW s) (as : List Nat) : AllW (s.promoteExecutables as) := by
  unfold State.promoteExecutables
  exact foldl_preserves AllW _ (fun s x hs => hs.promoteAccount x) as s h

/-! ### demoteUnexecutables -/

theorem pendingScan_spec {ac : Account} {a : Nat} (h : AcctW ac a) (mg : Nat) :
    let sc := pendingScan ac mg
    (∀ x ∈ sc.2.2.2.txs, x ∈ ac.pending.txs) ∧ Sorted sc.2.2.2.txs ∧
    (∀ x ∈ sc.2.2.2.txs, x.cost ≤ sc.2.2.2.costcap ∧ x.gas ≤ sc.2.2.2.gascap) ∧
    (∀ x ∈ sc.2.2.1, x ∈ ac.pending.txs ∧ ∀ y ∈ sc.2.2.2.txs, y.nonce ≠ x.nonce) := by
  intro sc
  have hs0 : Sorted (forwardN ac.pending.txs ac.nonce).2 := h.pSorted.filter _
  have hsub0 : ∀ x ∈ (forwardN ac.pending.txs ac.nonce).2, x ∈ ac.pending.txs := fun x hx => (List.mem_filter.mp hx).1
  have fs := filter_spec ({ ac.pending with txs := (forwardN ac.pending.txs ac.nonce).2 } : TxList) true ac.balance mg hs0
    (fun x hx => h.pCaps x (hsub0 x hx))
  simp only at fs
  obtain ⟨f1, f2, _, f4, f5, _, f7, _, _⟩ := fs
  simp only [sc, pendingScan]
  refine ⟨fun x hx => hsub0 x (f1 x hx), f4, f5, fun x hx => ⟨hsub0 x (f2 x hx), fun y hy => ?_⟩⟩
  have := f7 y hy x hx
  omega

theorem AllW.demoteGap {s : State} (h : AllW s) (a : Nat) (nonce : Nat) : AllW (s.demoteGap a nonce) := by
  unfold State.demoteGap
  simp only
  have hA := h a
  generalize hcp : (if contigRun (s.acct a).pending.txs.length (s.acct a).pending.txs nonce < (s.acct a).pending.txs.length
      then (s.acct a).pending.cap (contigRun (s.acct a).pending.txs.length (s.acct a).pending.txs nonce)
      else ([], (s.acct a).pending)) = cp
  have hq : (∀ x ∈ cp.2.txs, x ∈ (s.acct a).pending.txs) ∧ Sorted cp.2.txs ∧
      (∀ x ∈ cp.2.txs, x.cost ≤ cp.2.costcap ∧ x.gas ≤ cp.2.gascap) ∧
      (∀ y ∈ cp.1, y ∈ (s.acct a).pending.txs ∧ ∀ x ∈ cp.2.txs, x.nonce ≠ y.nonce) := by
    subst hcp
    split
    · have cs := cap_spec (s.acct a).pending (contigRun (s.acct a).pending.txs.length (s.acct a).pending.txs nonce) hA.pSorted
      refine ⟨cs.1, cs.2.2.1, fun x hx => ?_, fun y hy => ⟨cs.2.1 y hy, fun x hx => ?_⟩⟩
      · rw [cs.2.2.2.1, cs.2.2.2.2.1]; exact hA.pCaps x (cs.1 x hx)
      · have := cs.2.2.2.2.2.1 x hx y hy; omega
    · exact ⟨fun _ hx => hx, hA.pSorted, hA.pCaps, by simp⟩
  have h1 : AllW (s.upd a (fun ac => { ac with pending := cp.2 })) :=
    h.upd _ _ (fun _ => hA.setPending cp.2 hq.1 hq.2.1 hq.2.2.1 rfl rfl
      (fun hne => hA.beat (by
        obtain ⟨x, hx⟩ := List.exists_mem_of_ne_nil _ hne
        exact List.ne_nil_of_mem (hq.1 x hx))))
  have h2 : AllW ((s.upd a (fun ac => { ac with pending := cp.2 })).enqueueMany cp.1) := by
    refine h1.enqueueMany cp.1 ?_
    intro x hx p hp
    have hxm := (hq.2.2.2 x hx)
    have hs : x.sender = a := hA.pSender x hxm.1
    have hlt : a < s.n := lt_n_of_pending (List.ne_nil_of_mem hxm.1)
    rw [hs, acct_upd_self _ _ _ hlt] at hp
    exact hxm.2 p hp
  split
  · exact h2.upd _ _ (fun _ => (h2 a).setPending {} (by simp) sorted_nil (by simp) rfl rfl (by simp))
  · exact h2

theorem AllW.demoteAccount {s : State} (h : AllW s) (a : Nat) : AllW (s.demoteAccount a) := by
  unfold State.demoteAccount
  simp only
  split
  · exact h
  · rename_i hne
    have hne' : (s.acct a).pending.txs ≠ [] := by simpa using hne
    have hlt : a < s.n := lt_n_of_pending hne'
    have hA := h a
    have sp := pendingScan_spec hA s.maxGas
    simp only at sp
    obtain ⟨p1, p2, p3, p4⟩ := sp
    have same1 : Same s (((s.allRemoveMany (pendingScan (s.acct a) s.maxGas).1).allRemoveMany (pendingScan (s.acct a) s.maxGas).2.1).pricedRemoved
        ((pendingScan (s.acct a) s.maxGas).1.length + (pendingScan (s.acct a) s.maxGas).2.1.length)) :=
      ((same_allRemoveMany _ _).trans (same_allRemoveMany _ _)).trans (same_pricedRemoved _ _)
    have h1 := same1.allW h
    refine AllW.demoteGap (AllW.enqueueMany (h1.upd _ _ (fun _ => ?_)) _ ?_) a _
    · rw [same1.acct a]
      exact hA.setPending _ p1 p2 p3 rfl rfl (fun _ => hA.beat hne')
    · intro x hx p hp
      have hs : x.sender = a := hA.pSender x (p4 x hx).1
      rw [hs, acct_upd_self _ _ _ (by rw [same1.n]; exact hlt)] at hp
      exact (p4 x hx).2 p hp

theorem AllW.demoteUnexecutables {s : State} (h : AllW s) (as : List Nat) : AllW (s.demoteUnexecutables as) := by
  unfold State.demoteUnexecutables
  exact foldl_preserves AllW _ (fun s x hs => hs.demoteAccount x) as s h

/-! ### truncatePending / truncateQueue -/

theorem AllW.capOne {s : State} (h : AllW s) (a : Nat) : AllW (s.capOne a) := by
  unfold State.capOne
  simp only
  have hA := h a
  have cs := cap_spec (s.acct a).pending ((s.acct a).pending.txs.length - 1) hA.pSorted
  have h1 : AllW (s.upd a (fun ac => { ac with pending := ((s.acct a).pending.cap ((s.acct a).pending.txs.length - 1)).2 })) := by
    refine h.upd _ _ (fun _ => hA.setPending _ cs.1 cs.2.2.1 (fun x hx => ?_) rfl rfl (fun hne => hA.beat ?_))
    · rw [cs.2.2.2.1, cs.2.2.2.2.1]; exact hA.pCaps x (cs.1 x hx)
    · obtain ⟨x, hx⟩ := List.exists_mem_of_ne_nil _ hne
      exact List.ne_nil_of_mem (cs.1 x hx)
  refine (same_pricedRemoved _ _).allW ?_
  refine foldl_preserves AllW _ (fun s x hs => hs.upd _ _ (fun _ => ?_)) _ _ ((same_allRemoveMany _ _).allW h1)
  have f := setIfLower_fields (s.acct a) x.nonce
  exact (hs a).congr f.1 f.2.1 f.2.2.1

theorem AllW.capEach {s : State} (h : AllW s) (as : List Nat) : AllW (s.capEach as) := by
  unfold State.capEach
  exact foldl_preserves AllW _ (fun s x hs => hs.capOne x) as s h

theorem AllW.equalize (fuel : Nat) {s : State} (h : AllW s) (prevs : List Nat) (chk thr pending : Nat) :
    AllW (equalize fuel s prevs chk thr pending).1 := by
  induction fuel generalizing s pending with
  | zero => exact h
  | succ f ih =>
    unfold YouVerif.C20.equalize
    split
    · exact ih (h.capEach prevs) _
    · exact h

theorem AllW.spamLoop (sp : List Nat) {s : State} (h : AllW s) (off : List Nat) (pending : Nat) :
    AllW (spamLoop sp s off pending).1 := by
  induction sp generalizing s off pending with
  | nil => exact h
  | cons o rest ih =>
    unfold YouVerif.C20.spamLoop
    split
    · simp only
      split
      · exact ih h _ _
      · exact ih (AllW.equalize _ h _ _ _ _) _ _
    · exact h

theorem AllW.finalLoop (fuel : Nat) {s : State} (h : AllW s) (off : List Nat) (last pending : Nat) :
    AllW (finalLoop fuel s off last pending).1 := by
  induction fuel generalizing s pending with
  | zero => exact h
  | succ f ih =>
    unfold YouVerif.C20.finalLoop
    split
    · exact ih (h.capEach off) _
    · exact h

theorem AllW.truncatePending {s : State} (h : AllW s) (ord : List Nat) : AllW (s.truncatePending ord) := by
  unfold State.truncatePending
  simp only
  split
  · exact h
  · have := AllW.spamLoop (List.foldl (fun acc a => insertDesc (fun a => (s.acct a).pending.txs.length) a acc) []
        (List.filter (fun a => !(s.acct a).isLocal && decide ((s.acct a).pending.txs.length > s.cfg.accountSlots)) ord))
      h [] s.pendingCount
    split
    · exact this
    · exact AllW.finalLoop _ this _ _ _

theorem AllW.queueDropLoop (as : List Nat) {s : State} (h : AllW s) (drop : Nat) : AllW (queueDropLoop as s drop) := by
  induction as generalizing s drop with
  | nil => exact h
  | cons a rest ih =>
    unfold YouVerif.C20.queueDropLoop
    split
    · exact h
    · simp only
      split
      · exact ih (h.removeMany _ _) _
      · exact h.removeMany _ _

theorem AllW.truncateQueue {s : State} (h : AllW s) (ord : List Nat) : AllW (s.truncateQueue ord) := by
  unfold State.truncateQueue
  simp only
  split
  · exact h
  · exact AllW.queueDropLoop _ h _

/-! ### nonce refresh, reset, the operations -/

theorem getD_map_default (l : List Account) (f : Account → Account) (hf : f {} = {}) (b : Nat) :
    (l.map f).getD b {} = f (l.getD b {}) := by
  simp only [List.getD_eq_getElem?_getD, List.getElem?_map]
  cases l[b]? <;> simp [hf]

theorem acct_refreshNonces (s : State) (b : Nat) :
    (s.refreshNonces.acct b).pending = (s.acct b).pending ∧ (s.refreshNonces.acct b).queue = (s.acct b).queue ∧
    (s.refreshNonces.acct b).beat = (s.acct b).beat ∧ (s.refreshNonces.acct b).nonce = (s.acct b).nonce ∧
    (s.refreshNonces.acct b).balance = (s.acct b).balance ∧ (s.refreshNonces.acct b).isLocal = (s.acct b).isLocal ∧
    (s.refreshNonces.acct b).pn = (match (s.acct b).pending.txs.getLast? with
      | some t => some (t.nonce + 1)
      | none => (s.acct b).pn) := by
  unfold State.refreshNonces State.acct
  simp only
  rw [getD_map_default _ _ (by simp)]
  split <;> simp_all

theorem AllW.refreshNonces {s : State} (h : AllW s) : AllW s.refreshNonces := by
  intro b
  have f := acct_refreshNonces s b
  exact (h b).congr f.1 f.2.1 f.2.2.1

theorem AllW.resetState {s : State} (h : AllW s) (gl : Nat) (ch : List (Nat × Nat × Nat)) : AllW (s.resetState gl ch) := by
  unfold State.resetState
  simp only
  refine foldl_preserves AllW _ (fun s c hs => hs.upd _ _ (fun _ => AcctW.congr (ac' := { s.acct c.1 with nonce := c.2.1, balance := c.2.2 }) (hs c.1) rfl rfl rfl)) ch _ ?_
  intro b
  have : (({ s with accts := s.accts.map (fun ac => { ac with pn := none }), maxGas := gl } : State).acct b) =
      { s.acct b with pn := none } := by
    unfold State.acct
    simp only
    rw [getD_map_default _ _ (by rfl)]
  rw [this]
  exact (h b).congr rfl rfl rfl

theorem AllW.reset {s : State} (h : AllW s) (k : ResetKind) (gl : Nat) (ch : List (Nat × Nat × Nat)) (d i : List Tx) :
    AllW (s.reset k gl ch d i) := by
  unfold State.reset
  cases k with
  | early => exact h
  | normal => exact (h.resetState gl ch).addTxsLocked _ _

theorem AllW.reorgPlain {s : State} (h : AllW s) (ord dirty : List Nat) : AllW (s.reorgPlain ord dirty) := by
  unfold State.reorgPlain
  exact (((h.promoteExecutables _).truncatePending _).truncateQueue _).refreshNonces

theorem AllW.reorgReset {s : State} (h : AllW s) (ord : List Nat) (k : ResetKind) (gl : Nat) (ch : List (Nat × Nat × Nat))
    (d i : List Tx) : AllW (s.reorgReset ord k gl ch d i) := by
  unfold State.reorgReset
  exact (((((h.reset k gl ch d i).promoteExecutables _).demoteUnexecutables _).truncatePending _).truncateQueue _).refreshNonces

theorem AllW.evict {s : State} (h : AllW s) (ord : List Nat) (k : Nat) : AllW (s.evict ord k) := by
  unfold State.evict
  refine foldl_preserves AllW _ (fun s a hs => ?_) _ s h
  simp only
  split
  · exact hs
  · split
    · exact hs.removeMany _ _
    · exact hs

theorem AllW.setGasPrice {s : State} (h : AllW s) (p : Nat) : AllW (s.setGasPrice p) := by
  unfold State.setGasPrice
  simp only
  have h0 : AllW ({ s with gasPrice := p } : State) := Same.allW (s := s) ⟨rfl, rfl, rfl⟩ h
  exact ((same_pricedCap _ _).allW h0).removeMany _ _

/-- every operation preserves the structural per-account invariant -/
theorem AllW.step {s : State} (h : AllW s) (op : Op) : AllW (step s op).1 := by
  cases op with
  | add l ord txs => exact (h.addTxsLocked txs l).reorgPlain _ _
  | reset ord k gl ch d i => exact h.reorgReset ord k gl ch d i
  | setPrice p => exact h.setGasPrice p
  | remove t oob => exact h.removeTx t oob
  | evict ord k => exact h.evict ord k
  | promote ord => exact h.reorgPlain ord []

theorem allW_init (cfg : Config) (pl gl : Nat) (accts : List (Nat × Nat)) : AllW (YouVerif.C20.init cfg pl gl accts) := by
  intro a
  have : ((YouVerif.C20.init cfg pl gl accts).acct a).pending.txs = [] ∧ ((YouVerif.C20.init cfg pl gl accts).acct a).queue.txs = [] := by
    simp only [State.acct, YouVerif.C20.init, List.getD_eq_getElem?_getD, List.getElem?_map]
    cases accts[a]? <;> simp
  constructor <;> simp [this.1, this.2, Sorted]

end YouVerif.C20
