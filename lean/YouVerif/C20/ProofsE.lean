/-
C20 proofs, layer 7 (limits): after `truncatePending` / `truncateQueue` the global limits hold in the form the code
enforces them (`PCap`, `QCap` = the two conjuncts of `CapsAfterReorg`).  This file: counting lemmas, the effect of
`capOne` / `capEach`, the equalisation loops, `truncatePending`.
-/
import YouVerif.C20.ProofsInv
namespace YouVerif.C20

/-- pending limit as enforced: the global count is within `GlobalSlots`, or no non-local account is above `AccountSlots` -/
def PCap (s : State) : Prop :=
  s.pendingCount ≤ s.cfg.globalSlots ∨ ∀ a, (s.acct a).isLocal = false → (s.acct a).pending.txs.length ≤ s.cfg.accountSlots

/-- queue limit as enforced: the global count is within `GlobalQueue`, or every non-local queue is empty -/
def QCap (s : State) : Prop :=
  s.queuedCount ≤ s.cfg.globalQueue ∨ ∀ a, (s.acct a).isLocal = false → (s.acct a).queue.txs = []

/-! ### counting -/

theorem sum_map_eq_range (l : List Account) (g : Account → Nat) :
    (l.map g).sum = ((List.range l.length).map (fun i => g (l.getD i {}))).sum := by
  congr 1
  apply List.ext_getElem
  · simp
  · intro i h1 h2
    simp at h1
    simp [h1]

theorem sum_range_congr (n : Nat) (f g : Nat → Nat) (h : ∀ i, i < n → f i = g i) :
    ((List.range n).map f).sum = ((List.range n).map g).sum := by
  congr 1
  apply List.map_congr_left
  intro i hi
  exact h i (List.mem_range.mp hi)

theorem sum_range_one_change (n : Nat) (f g : Nat → Nat) (a : Nat) (ha : a < n) (h : ∀ i, i ≠ a → f i = g i) :
    ((List.range n).map f).sum + g a = ((List.range n).map g).sum + f a := by
  induction n with
  | zero => omega
  | succ n ih =>
    simp only [List.range_succ, List.map_append, List.sum_append, List.map_cons, List.map_nil, List.sum_cons, List.sum_nil]
    by_cases hc : a = n
    · subst hc
      have := sum_range_congr a f g (fun i hi => h i (by omega))
      omega
    · have := ih (by omega)
      have := h n (fun e => hc e.symm)
      omega

/-- number of pending transactions of one account -/
def State.plen (s : State) (a : Nat) : Nat := (s.acct a).pending.txs.length
/-- number of queued transactions of one account -/
def State.qlen (s : State) (a : Nat) : Nat := (s.acct a).queue.txs.length

theorem pendingCount_eq (s : State) : s.pendingCount = ((List.range s.n).map s.plen).sum := by
  unfold State.pendingCount State.n
  exact sum_map_eq_range _ (fun ac => ac.pending.txs.length)

theorem queuedCount_eq (s : State) : s.queuedCount = ((List.range s.n).map s.qlen).sum := by
  unfold State.queuedCount State.n
  exact sum_map_eq_range _ (fun ac => ac.queue.txs.length)

theorem pendingCount_congr {s s' : State} (hn : s'.n = s.n) (h : ∀ b, s'.plen b = s.plen b) :
    s'.pendingCount = s.pendingCount := by
  rw [pendingCount_eq, pendingCount_eq, hn]
  exact sum_range_congr _ _ _ (fun i _ => h i)

theorem queuedCount_congr {s s' : State} (hn : s'.n = s.n) (h : ∀ b, s'.qlen b = s.qlen b) :
    s'.queuedCount = s.queuedCount := by
  rw [queuedCount_eq, queuedCount_eq, hn]
  exact sum_range_congr _ _ _ (fun i _ => h i)

theorem pendingCount_one_change {s s' : State} (a : Nat) (hn : s'.n = s.n) (ha : a < s.n)
    (h : ∀ b, b ≠ a → s'.plen b = s.plen b) : s'.pendingCount + s.plen a = s.pendingCount + s'.plen a := by
  rw [pendingCount_eq, pendingCount_eq, hn]
  exact sum_range_one_change _ _ _ a ha h

theorem queuedCount_one_change {s s' : State} (a : Nat) (hn : s'.n = s.n) (ha : a < s.n)
    (h : ∀ b, b ≠ a → s'.qlen b = s.qlen b) : s'.queuedCount + s.qlen a = s.queuedCount + s'.qlen a := by
  rw [queuedCount_eq, queuedCount_eq, hn]
  exact sum_range_one_change _ _ _ a ha h

theorem plen_pos_lt {s : State} {a : Nat} (h : 0 < s.plen a) : a < s.n := by
  refine lt_n_of_pending (fun e => ?_)
  unfold State.plen at h; rw [e] at h; simp at h

theorem qlen_pos_lt {s : State} {a : Nat} (h : 0 < s.qlen a) : a < s.n := by
  refine lt_n_of_queue (fun e => ?_)
  unfold State.qlen at h; rw [e] at h; simp at h

theorem plen_of_ge {s : State} {a : Nat} (h : ¬ a < s.n) : s.plen a = 0 := by
  unfold State.plen; rw [acct_default_of_ge h]; rfl

/-! ### `capOne` / `capEach` -/

/-- the whole account frame plus untouched pending lists (only `pn` / heartbeat may differ) -/
def PSame (s s' : State) : Prop := PFrame s s' ∧ ∀ b, (s'.acct b).pending = (s.acct b).pending

theorem PSame.refl (s : State) : PSame s s := ⟨PFrame.refl _, fun _ => rfl⟩
theorem PSame.trans {a b c : State} (h1 : PSame a b) (h2 : PSame b c) : PSame a c :=
  ⟨h1.1.trans h2.1, fun x => (h2.2 x).trans (h1.2 x)⟩
theorem Same.psame {s s' : State} (h : Same s s') : PSame s s' := ⟨h.pframe, fun b => by rw [h.acct b]⟩

theorem psame_setIfLower (s : State) (a k : Nat) : PSame s (s.upd a (fun ac => ac.setIfLower k)) := by
  refine ⟨⟨n_upd _ _ _, rfl, rfl, fun b => ?_⟩, fun b => ?_⟩
  · rw [acct_upd]
    have f := setIfLower_fields (s.acct b) k
    split
    · exact ⟨f.2.1, f.2.2.2.1, f.2.2.2.2.1, f.2.2.2.2.2⟩
    · exact ⟨rfl, rfl, rfl, rfl⟩
  · rw [acct_upd]
    have f := setIfLower_fields (s.acct b) k
    split
    · exact f.1
    · rfl

theorem pframe_upd_pending (s : State) (a : Nat) (p' : TxList) : PFrame s (s.upd a (fun ac => { ac with pending := p' })) := by
  refine ⟨n_upd _ _ _, rfl, rfl, fun b => ?_⟩
  rw [acct_upd]
  split <;> exact ⟨rfl, rfl, rfl, rfl⟩

/-- `capOne` = the pending update, then bookkeeping that leaves the lists alone -/
theorem capOne_psame (s : State) (a : Nat) :
    PSame (s.upd a (fun ac => { ac with pending := ((s.acct a).pending.cap ((s.acct a).pending.txs.length - 1)).2 })) (s.capOne a) := by
  unfold State.capOne
  simp only
  refine PSame.trans ?_ (same_pricedRemoved _ _).psame
  refine foldl_preserves (PSame _) _ (fun s x hs => hs.trans (psame_setIfLower _ _ _)) _ _ ?_
  exact (same_allRemoveMany _ _).psame

theorem capOne_pframe (s : State) (a : Nat) : PFrame s (s.capOne a) :=
  (pframe_upd_pending s a _).trans (capOne_psame s a).1

theorem capOne_plen (s : State) (a b : Nat) : (s.capOne a).plen b = if a = b then s.plen b - 1 else s.plen b := by
  unfold State.plen
  rw [(capOne_psame s a).2 b, acct_upd]
  by_cases hab : a = b
  · subst hab
    by_cases hlt : a < s.n
    · simp only [hlt, and_self, if_true, take_cap, List.length_take]; omega
    · simp only [hlt, and_false, if_false, if_true, acct_default_of_ge hlt]; rfl
  · simp [hab]

theorem capEach_pframe (as : List Nat) (s : State) : PFrame s (s.capEach as) := by
  unfold State.capEach
  induction as generalizing s with
  | nil => exact PFrame.refl _
  | cons a as ih => exact (capOne_pframe s a).trans (ih _)

theorem capEach_plen (as : List Nat) (hnd : as.Nodup) (s : State) (b : Nat) :
    (s.capEach as).plen b = if b ∈ as then s.plen b - 1 else s.plen b := by
  unfold State.capEach
  induction as generalizing s with
  | nil => simp
  | cons a as ih =>
    have hnd' := List.nodup_cons.mp hnd
    simp only [List.foldl_cons]
    rw [ih hnd'.2, capOne_plen]
    by_cases hab : a = b
    · subst hab; simp [hnd'.1]
    · have : ¬ b = a := fun e => hab e.symm
      simp [hab, this]

/-- capping distinct accounts that all hold something removes exactly one transaction each -/
theorem capEach_count (as : List Nat) (hnd : as.Nodup) (s : State) (hpos : ∀ a ∈ as, 0 < s.plen a) :
    (s.capEach as).pendingCount + as.length = s.pendingCount := by
  induction as generalizing s with
  | nil => rfl
  | cons a as ih =>
    have hnd' := List.nodup_cons.mp hnd
    have h1 : (s.capOne a).pendingCount + s.plen a = s.pendingCount + (s.capOne a).plen a :=
      pendingCount_one_change a (capOne_pframe s a).1 (plen_pos_lt (hpos a (by simp)))
        (fun b hb => by rw [capOne_plen]; simp [Ne.symm hb])
    rw [capOne_plen] at h1
    simp only [if_true] at h1
    have h2 := ih hnd'.2 (s.capOne a) (by
      intro x hx
      rw [capOne_plen]
      have : a ≠ x := fun e => hnd'.1 (e ▸ hx)
      simp only [this, if_false]
      exact hpos x (by simp [hx]))
    have : (s.capEach (a :: as)) = (s.capOne a).capEach as := rfl
    rw [this]
    have := hpos a (by simp)
    simp only [List.length_cons]
    omega

/-! ### the equalisation loops -/

theorem capEach_cfg (as : List Nat) (s : State) : (s.capEach as).cfg = s.cfg := (capEach_pframe as s).2.2.1

theorem finalLoop_eq_equalize (fuel : Nat) (s : State) (offs : List Nat) (last pending : Nat) :
    finalLoop fuel s offs last pending = equalize fuel s offs last s.cfg.accountSlots pending := by
  induction fuel generalizing s pending with
  | zero => rfl
  | succ f ih =>
    unfold finalLoop equalize
    rw [ih, capEach_cfg]

theorem equalize_pframe (fuel : Nat) (s : State) (prevs : List Nat) (chk thr pending : Nat) :
    PFrame s (equalize fuel s prevs chk thr pending).1 := by
  induction fuel generalizing s pending with
  | zero => exact PFrame.refl _
  | succ f ih =>
    unfold equalize
    split
    · exact (capEach_pframe _ _).trans (ih _ _)
    · exact PFrame.refl _

/-- The equalisation loop on distinct accounts of one common length `L`, started with the true pending count and
enough fuel: the counter stays the true count, the accounts keep a common length `L'` (not below the threshold if `L`
was not), everybody else is untouched, and the loop ends because the counter is within the limit or `L' ≤ thr`. -/
theorem equalize_spec (fuel : Nat) {s : State} (prevs : List Nat) (chk thr pending L : Nat)
    (hnd : prevs.Nodup) (hchk : chk ∈ prevs) (hL : ∀ a ∈ prevs, s.plen a = L)
    (hp : pending = s.pendingCount) (hfuel : pending ≤ fuel) :
    (equalize fuel s prevs chk thr pending).2 = (equalize fuel s prevs chk thr pending).1.pendingCount ∧
    (∀ b, b ∉ prevs → (equalize fuel s prevs chk thr pending).1.plen b = s.plen b) ∧
    ∃ L', (∀ a ∈ prevs, (equalize fuel s prevs chk thr pending).1.plen a = L') ∧ (thr ≤ L → thr ≤ L') ∧
      ((equalize fuel s prevs chk thr pending).2 ≤ s.cfg.globalSlots ∨ L' ≤ thr) := by
  induction fuel generalizing s pending L with
  | zero =>
    refine ⟨hp, fun _ _ => rfl, L, hL, id, .inl ?_⟩
    show pending ≤ _
    omega
  | succ f ih =>
    have hLc : s.plen chk = L := hL chk hchk
    unfold State.plen at hLc
    unfold equalize
    split
    · rename_i hc
      have hLpos : 0 < L := by omega
      have hcount := capEach_count prevs hnd s (fun a ha => by rw [hL a ha]; exact hLpos)
      have hlen : 0 < prevs.length := List.length_pos_of_mem hchk
      have := ih (s := s.capEach prevs) (pending - prevs.length) (L - 1)
        (fun a ha => by rw [capEach_plen _ hnd, if_pos ha, hL a ha]) (by omega) (by omega)
      obtain ⟨i2, i3, L', i4, i5, i6⟩ := this
      refine ⟨i2, fun b hb => ?_, L', i4, fun h => i5 (by omega), ?_⟩
      · rw [i3 b hb, capEach_plen _ hnd, if_neg hb]
      · rw [capEach_cfg] at i6; exact i6
    · rename_i hc
      refine ⟨hp, fun _ _ => rfl, L, hL, id, ?_⟩
      show pending ≤ _ ∨ _
      omega

/-! ### the spammer list: insertion sort by descending length -/

/-- descending by key -/
def Desc (key : Nat → Nat) (l : List Nat) : Prop := l.Pairwise (fun x y => key y ≤ key x)

theorem insertDesc_perm (key : Nat → Nat) (a : Nat) (l : List Nat) : (insertDesc key a l).Perm (a :: l) := by
  induction l with
  | nil => exact List.Perm.refl _
  | cons x xs ih =>
    unfold insertDesc
    split
    · exact List.Perm.refl _
    · exact (List.Perm.cons x ih).trans (List.Perm.swap a x xs)

theorem insertDesc_sorted (key : Nat → Nat) (a : Nat) (l : List Nat) (h : Desc key l) : Desc key (insertDesc key a l) := by
  induction l with
  | nil => simp [insertDesc, Desc]
  | cons x xs ih =>
    have hx := (List.pairwise_cons.mp h).1
    have hxs : Desc key xs := (List.pairwise_cons.mp h).2
    unfold insertDesc
    split
    · rename_i hgt
      refine List.Pairwise.cons ?_ h
      intro b hb
      simp only [List.mem_cons] at hb
      rcases hb with rfl | hb
      · omega
      · have := hx b hb; omega
    · rename_i hle
      refine List.Pairwise.cons ?_ (ih hxs)
      intro b hb
      have hb' := (insertDesc_perm key a xs).mem_iff.mp hb
      simp only [List.mem_cons] at hb'
      rcases hb' with rfl | hb'
      · omega
      · exact hx b hb'

theorem foldl_insertDesc (key : Nat → Nat) (cand acc : List Nat) (h : Desc key acc) :
    (cand.foldl (fun acc a => insertDesc key a acc) acc).Perm (cand ++ acc) ∧
    Desc key (cand.foldl (fun acc a => insertDesc key a acc) acc) := by
  induction cand generalizing acc with
  | nil => exact ⟨List.Perm.refl _, h⟩
  | cons c cs ih =>
    simp only [List.foldl_cons]
    have := ih (insertDesc key c acc) (insertDesc_sorted key c acc h)
    exact ⟨this.1.trans ((List.Perm.append_left cs (insertDesc_perm key c acc)).trans List.perm_middle), this.2⟩

/-! ### `spamLoop` -/

theorem spamLoop_pframe (rest : List Nat) (s : State) (offs : List Nat) (pending : Nat) :
    PFrame s (spamLoop rest s offs pending).1 := by
  induction rest generalizing s offs pending with
  | nil => exact PFrame.refl _
  | cons o rest ih =>
    unfold spamLoop
    split
    · simp only
      split
      · exact ih _ _ _
      · exact (equalize_pframe _ _ _ _ _ _).trans (ih _ _ _)
    · exact PFrame.refl _

theorem spamLoop_stop (rest : List Nat) (s : State) (offs : List Nat) (pending : Nat) (h : pending ≤ s.cfg.globalSlots) :
    spamLoop rest s offs pending = (s, offs, pending) := by
  cases rest with
  | nil => rfl
  | cons o r => unfold spamLoop; rw [if_neg (by omega)]

/-- Invariant of the offender loop.  At a call: the counter is the true count; the offenders are distinct, apart from
the remaining spammers and of one common length; the remaining spammers are distinct, sorted by descending length and
not longer than the offenders.  At the end: the counter is the true count, and it is within the limit or every
spammer has become an offender, the offenders have one common length and nobody else was touched. -/
theorem spamLoop_spec (rest : List Nat) {s : State} (offs : List Nat) (pending : Nat)
    (hp : pending = s.pendingCount)
    (hnd : offs.Nodup) (hndr : rest.Nodup) (hdisj : ∀ a ∈ offs, a ∉ rest)
    (heq : ∀ a ∈ offs, ∀ b ∈ offs, s.plen a = s.plen b)
    (hle : ∀ a ∈ offs, ∀ b ∈ rest, s.plen b ≤ s.plen a)
    (hdesc : Desc s.plen rest) :
    (spamLoop rest s offs pending).2.2 = (spamLoop rest s offs pending).1.pendingCount ∧
    ((spamLoop rest s offs pending).2.2 ≤ s.cfg.globalSlots ∨
      ((spamLoop rest s offs pending).2.1.Nodup ∧
       (∀ a ∈ (spamLoop rest s offs pending).2.1, ∀ b ∈ (spamLoop rest s offs pending).2.1,
          (spamLoop rest s offs pending).1.plen a = (spamLoop rest s offs pending).1.plen b) ∧
       (∀ b, b ∉ (spamLoop rest s offs pending).2.1 → (spamLoop rest s offs pending).1.plen b = s.plen b) ∧
       (∀ a, a ∈ offs ∨ a ∈ rest → a ∈ (spamLoop rest s offs pending).2.1))) := by
  induction rest generalizing s offs pending with
  | nil => exact ⟨hp, .inr ⟨hnd, heq, fun _ _ => rfl, fun a ha => by
      rcases ha with ha | ha
      · exact ha
      · simp at ha⟩⟩
  | cons off rest ih =>
    have hndr' := List.nodup_cons.mp hndr
    have hoff : off ∉ offs := fun h => hdisj off h (by simp)
    have hhead := (List.pairwise_cons.mp hdesc).1
    have htail : Desc s.plen rest := (List.pairwise_cons.mp hdesc).2
    -- the continuation after the (possibly skipped) equalisation
    have cont : ∀ (s1 : State) (p1 : Nat), PFrame s s1 → p1 = s1.pendingCount →
        (∀ b, b ∉ offs → s1.plen b = s.plen b) →
        (p1 ≤ s.cfg.globalSlots ∨ ∀ a ∈ offs, s1.plen a = s.plen off) →
        (spamLoop rest s1 (offs ++ [off]) p1).2.2 = (spamLoop rest s1 (offs ++ [off]) p1).1.pendingCount ∧
        ((spamLoop rest s1 (offs ++ [off]) p1).2.2 ≤ s.cfg.globalSlots ∨
          ((spamLoop rest s1 (offs ++ [off]) p1).2.1.Nodup ∧
           (∀ a ∈ (spamLoop rest s1 (offs ++ [off]) p1).2.1, ∀ b ∈ (spamLoop rest s1 (offs ++ [off]) p1).2.1,
              (spamLoop rest s1 (offs ++ [off]) p1).1.plen a = (spamLoop rest s1 (offs ++ [off]) p1).1.plen b) ∧
           (∀ b, b ∉ (spamLoop rest s1 (offs ++ [off]) p1).2.1 → (spamLoop rest s1 (offs ++ [off]) p1).1.plen b = s.plen b) ∧
           (∀ a, a ∈ offs ∨ a ∈ off :: rest → a ∈ (spamLoop rest s1 (offs ++ [off]) p1).2.1))) := by
      intro s1 p1 hf hp1 hfr hE
      have hcfg : s1.cfg = s.cfg := hf.2.2.1
      by_cases hgs : p1 ≤ s.cfg.globalSlots
      · rw [spamLoop_stop _ _ _ _ (by rw [hcfg]; exact hgs)]
        exact ⟨hp1, .inl hgs⟩
      · have hE' : ∀ a ∈ offs, s1.plen a = s.plen off := by
          rcases hE with h | h
          · exact absurd h hgs
          · exact h
        have hall : ∀ a ∈ offs ++ [off], s1.plen a = s.plen off := by
          intro a ha
          rcases List.mem_append.mp ha with ha | ha
          · exact hE' a ha
          · simp only [List.mem_singleton] at ha
            subst ha
            exact hfr a hoff
        have hrestfr : ∀ b ∈ rest, s1.plen b = s.plen b := fun b hb =>
          hfr b (fun h => hdisj b h (by simp [hb]))
        have := ih (s := s1) (offs ++ [off]) p1 hp1
          (by
            rw [List.nodup_append]
            refine ⟨hnd, by simp, ?_⟩
            intro a ha b hb
            simp only [List.mem_singleton] at hb
            subst hb
            exact fun e => hoff (e ▸ ha))
          hndr'.2
          (by
            intro a ha
            rcases List.mem_append.mp ha with ha | ha
            · exact fun h => hdisj a ha (by simp [h])
            · simp only [List.mem_singleton] at ha
              subst ha
              exact hndr'.1)
          (fun a ha b hb => by rw [hall a ha, hall b hb])
          (fun a ha b hb => by rw [hall a ha, hrestfr b hb]; exact hhead b hb)
          (List.Pairwise.imp_of_mem (fun {a b} ha hb h => by rw [hrestfr a ha, hrestfr b hb]; exact h) htail)
        obtain ⟨j1, j2⟩ := this
        refine ⟨j1, ?_⟩
        rcases j2 with j2 | ⟨k1, k2, k3, k4⟩
        · exact .inl (by rw [hcfg] at j2; exact j2)
        · refine .inr ⟨k1, k2, fun b hb => ?_, fun a ha => ?_⟩
          · rw [k3 b hb]
            exact hfr b (fun h => hb (k4 b (.inl (List.mem_append_left _ h))))
          · rcases ha with ha | ha
            · exact k4 a (.inl (List.mem_append_left _ ha))
            · simp only [List.mem_cons] at ha
              rcases ha with rfl | ha
              · exact k4 a (.inl (List.mem_append_right _ (by simp)))
              · exact k4 a (.inr ha)
    by_cases hgs : pending ≤ s.cfg.globalSlots
    · rw [spamLoop_stop _ _ _ _ hgs]
      exact ⟨hp, .inl hgs⟩
    · unfold spamLoop
      rw [if_pos (by omega)]
      simp only
      split
      · rename_i hnone
        have hnil : offs = [] := List.getLast?_eq_none_iff.mp hnone
        exact cont s pending (PFrame.refl _) hp (fun _ _ => rfl) (.inr (by simp [hnil]))
      · rename_i chk hsome
        have hchk : chk ∈ offs := List.mem_of_getLast? hsome
        have es := equalize_spec pending (s := s) offs chk (s.acct off).pending.txs.length pending (s.plen chk)
          hnd hchk (fun a ha => heq a ha chk hchk) hp (Nat.le_refl _)
        obtain ⟨e1, e2, L', e3, e4, e5⟩ := es
        refine cont _ _ (equalize_pframe _ _ _ _ _ _) e1 e2 ?_
        rcases e5 with e5 | e5
        · exact .inl e5
        · right
          intro a ha
          rw [e3 a ha]
          have := e4 (hle chk hchk off (by simp))
          show L' = (s.acct off).pending.txs.length
          omega

/-! ### `truncatePending` -/

theorem finalLoop_pframe (fuel : Nat) (s : State) (offs : List Nat) (last pending : Nat) :
    PFrame s (finalLoop fuel s offs last pending).1 := by
  rw [finalLoop_eq_equalize]; exact equalize_pframe _ _ _ _ _ _

/-- frame of `truncatePending`: table length, gas limit, configuration, queues, state nonces, balances and the
local flags are untouched -/
theorem truncatePending_pframe (s : State) (ord : List Nat) : PFrame s (s.truncatePending ord) := by
  unfold State.truncatePending
  simp only
  split
  · exact PFrame.refl _
  · have := spamLoop_pframe (List.foldl (fun acc a => insertDesc (fun a => (s.acct a).pending.txs.length) a acc) []
        (List.filter (fun a => !(s.acct a).isLocal && decide ((s.acct a).pending.txs.length > s.cfg.accountSlots)) ord))
      s [] s.pendingCount
    split
    · exact this
    · exact this.trans (finalLoop_pframe _ _ _ _ _)

theorem equalize_stop (fuel : Nat) (s : State) (prevs : List Nat) (chk thr pending : Nat)
    (h : pending ≤ s.cfg.globalSlots) : equalize fuel s prevs chk thr pending = (s, pending) := by
  cases fuel with
  | zero => rfl
  | succ f => unfold equalize; rw [if_neg (by omega)]

/-- (P) after `truncatePending` over a duplicate-free order that covers every account, the pending limit holds in the
form the code enforces it -/
theorem truncatePending_pcap {s : State} (hw : AllW s) (ord : List Nat) (hcov : ∀ b, b < s.n → b ∈ ord) (hnd : ord.Nodup) :
    PCap (s.truncatePending ord) := by
  have _ := hw  -- (the structural invariant is not needed for the counting argument)
  unfold State.truncatePending
  simp only
  split
  · exact .inl ‹_›
  · rename_i hgt
    generalize hcand : List.filter (fun a => !(s.acct a).isLocal && decide ((s.acct a).pending.txs.length > s.cfg.accountSlots)) ord = cand
    have hso := foldl_insertDesc (fun a => (s.acct a).pending.txs.length) cand [] List.Pairwise.nil
    generalize List.foldl (fun acc a => insertDesc (fun a => (s.acct a).pending.txs.length) a acc) [] cand = sp at hso ⊢
    obtain ⟨hperm, hdesc⟩ := hso
    simp only [List.append_nil] at hperm
    have hcnd : cand.Nodup := by rw [← hcand]; exact List.Pairwise.filter _ hnd
    have hspnd : sp.Nodup := hperm.nodup_iff.mpr hcnd
    have spec := spamLoop_spec sp (s := s) [] s.pendingCount rfl List.nodup_nil hspnd (by simp) (by simp) (by simp) hdesc
    have hfr := spamLoop_pframe sp s [] s.pendingCount
    -- accounts that were never candidates are local or within the per-account limit
    have hnc : ∀ a, (s.acct a).isLocal = false → a ∉ sp → s.plen a ≤ s.cfg.accountSlots := by
      intro a hl ha
      by_cases hlt : a < s.n
      · have hin := hcov a hlt
        false_or_by_contra
        rename_i hc
        apply ha
        apply hperm.mem_iff.mpr
        rw [← hcand]
        unfold State.plen at hc
        simp only [List.mem_filter, hin, hl, true_and, Bool.not_false, Bool.true_and, decide_eq_true_eq]
        omega
      · rw [plen_of_ge hlt]; omega
    generalize spamLoop sp s [] s.pendingCount = r at spec hfr ⊢
    obtain ⟨s1, offs, p1⟩ := r
    simp only at spec hfr ⊢
    obtain ⟨hp1, hres⟩ := spec
    have hcfg1 : s1.cfg = s.cfg := hfr.2.2.1
    split
    · rename_i hnone
      have hnil : offs = [] := List.getLast?_eq_none_iff.mp hnone
      rcases hres with h | ⟨_, _, k3, k4⟩
      · exact .inl (by rw [← hp1, hcfg1]; exact h)
      · right
        intro a hl
        rw [(hfr.2.2.2 a).2.2.2] at hl
        have hnsp : a ∉ sp := fun h => by have := k4 a (.inr h); simp [hnil] at this
        have h1 := k3 a (by simp [hnil])
        have h2 := hnc a hl hnsp
        unfold State.plen at h1 h2
        rw [h1, hcfg1]; exact h2
    · rename_i last hsome
      rw [finalLoop_eq_equalize]
      rcases hres with h | ⟨k1, k2, k3, k4⟩
      · rw [equalize_stop _ _ _ _ _ _ (by rw [hcfg1]; exact h)]
        exact .inl (by show s1.pendingCount ≤ _; rw [← hp1, hcfg1]; exact h)
      · have hlast : last ∈ offs := List.mem_of_getLast? hsome
        have es := equalize_spec p1 (s := s1) offs last s1.cfg.accountSlots p1 (s1.plen last) k1 hlast
          (fun a ha => k2 a ha last hlast) hp1 (Nat.le_refl _)
        have hf2 := equalize_pframe p1 s1 offs last s1.cfg.accountSlots p1
        generalize equalize p1 s1 offs last s1.cfg.accountSlots p1 = r2 at es hf2 ⊢
        obtain ⟨e1, e2, L', e3, _, e5⟩ := es
        have hcfg2 : r2.1.cfg = s1.cfg := hf2.2.2.1
        rcases e5 with e5 | e5
        · exact .inl (by rw [← e1, hcfg2]; exact e5)
        · right
          intro a hl
          rw [(hf2.2.2.2 a).2.2.2, (hfr.2.2.2 a).2.2.2] at hl
          rw [hcfg2]
          by_cases ha : a ∈ offs
          · have := e3 a ha
            unfold State.plen at this
            rw [this]; exact e5
          · have h1 := e2 a ha
            have h2 := k3 a ha
            have h3 := hnc a hl (fun h => ha (k4 a (.inr h)))
            unfold State.plen at h1 h2 h3
            rw [h1, h2, hcfg1]; exact h3

/-! ### the normalised account order is duplicate-free -/

theorem nodup_eraseDups (l : List Nat) : l.eraseDups.Nodup := by
  suffices h : ∀ (n : Nat) (l : List Nat), l.length ≤ n → l.eraseDups.Nodup from h _ l (Nat.le_refl _)
  intro n
  induction n with
  | zero =>
    intro l hl
    have : l = [] := List.eq_nil_of_length_eq_zero (by omega)
    subst this; simp
  | succ n ih =>
    intro l hl
    cases l with
    | nil => simp
    | cons a as =>
      rw [List.eraseDups_cons, List.nodup_cons]
      refine ⟨?_, ih _ ?_⟩
      · intro h
        have := (List.mem_filter.mp (List.mem_eraseDups.mp h)).2
        simp at this
      · have := List.length_filter_le (fun b => !b == a) as
        simp only [List.length_cons] at hl
        omega

theorem normOrd_nodup (n : Nat) (ord : List Nat) : (normOrd n ord).Nodup := by
  unfold normOrd
  simp only
  rw [List.nodup_append]
  refine ⟨nodup_eraseDups _, List.Pairwise.filter _ List.nodup_range, ?_⟩
  intro a ha b hb e
  subst e
  have := (List.mem_filter.mp hb).2
  simp only [Bool.not_eq_true', List.contains_eq_mem, decide_eq_false_iff_not] at this
  exact this ha

/-! ### (R) the closing nonce refresh changes no list -/

theorem n_refreshNonces (s : State) : s.refreshNonces.n = s.n := by
  unfold State.refreshNonces State.n; simp

theorem refreshNonces_pcap {s : State} (h : PCap s) : PCap s.refreshNonces := by
  have hc : s.refreshNonces.pendingCount = s.pendingCount :=
    pendingCount_congr (n_refreshNonces s) (fun b => by unfold State.plen; rw [(acct_refreshNonces s b).1])
  have hcfg : s.refreshNonces.cfg = s.cfg := rfl
  rcases h with h | h
  · exact .inl (by rw [hc, hcfg]; exact h)
  · right
    intro a hl
    have f := acct_refreshNonces s a
    rw [f.2.2.2.2.2.1] at hl
    rw [f.1, hcfg]; exact h a hl

theorem refreshNonces_qcap {s : State} (h : QCap s) : QCap s.refreshNonces := by
  have hc : s.refreshNonces.queuedCount = s.queuedCount :=
    queuedCount_congr (n_refreshNonces s) (fun b => by unfold State.qlen; rw [(acct_refreshNonces s b).2.1])
  have hcfg : s.refreshNonces.cfg = s.cfg := rfl
  rcases h with h | h
  · exact .inl (by rw [hc, hcfg]; exact h)
  · right
    intro a hl
    have f := acct_refreshNonces s a
    rw [f.2.2.2.2.2.1] at hl
    rw [f.2.1]; exact h a hl

end YouVerif.C20
