/-
C20 proofs, layer 7 (global index clauses, part 4): truncation, nonce refresh, reset, the reorg runs, eviction, gas
price change, and the closing theorems `GI.step` / `gi_init`.
-/
import YouVerif.C20.ProofsG3
namespace YouVerif.C20

theorem GW.removeMany {s : State} (h : GW s) (ts : List Tx) (oob : Bool) : GW (s.removeMany ts oob) :=
  ⟨h.1.removeMany ts oob, h.2.removeMany h.1 ts oob⟩

/-! ### truncatePending -/

theorem foldl_setIfLower (caps : List Tx) (a : Nat) (s : State) :
    (caps.foldl (fun s t => s.upd a (fun ac => ac.setIfLower t.nonce)) s).all = s.all ∧
    (caps.foldl (fun s t => s.upd a (fun ac => ac.setIfLower t.nonce)) s).priced = s.priced ∧
    ∀ b, ((caps.foldl (fun s t => s.upd a (fun ac => ac.setIfLower t.nonce)) s).acct b).pending = (s.acct b).pending ∧
      ((caps.foldl (fun s t => s.upd a (fun ac => ac.setIfLower t.nonce)) s).acct b).queue = (s.acct b).queue := by
  induction caps generalizing s with
  | nil => exact ⟨rfl, rfl, fun _ => ⟨rfl, rfl⟩⟩
  | cons t ts ih =>
    simp only [List.foldl_cons]
    obtain ⟨h1, h2, h3⟩ := ih (s.upd a (fun ac => ac.setIfLower t.nonce))
    refine ⟨h1, h2, fun b => ?_⟩
    rw [(h3 b).1, (h3 b).2, acct_upd]
    split
    · have f := setIfLower_fields (s.acct b) t.nonce
      exact ⟨f.1, f.2.1⟩
    · exact ⟨rfl, rfl⟩

theorem capOne_ik {s : State} (hw : AllW s) (hau : AU s []) (a : Nat) : AU (s.capOne a) [] ∧ IK s (s.capOne a) := by
  unfold State.capOne
  simp only
  have hA := hw a
  have cs := cap_spec (s.acct a).pending ((s.acct a).pending.txs.length - 1) hA.pSorted
  generalize (s.acct a).pending.cap ((s.acct a).pending.txs.length - 1) = cp at *
  obtain ⟨c1, c2, _, _, _, c6, c7⟩ := cs
  generalize hs1 : (s.upd a (fun ac => { ac with pending := cp.2 })).allRemoveMany cp.1 = s1
  obtain ⟨g1, g2, g3⟩ := foldl_setIfLower cp.1 a s1
  generalize List.foldl (fun s t => s.upd a (fun ac => ac.setIfLower t.nonce)) s1 cp.1 = s2 at *
  have hb : ∀ b, ((s2.pricedRemoved cp.1.length).acct b).pending = ((s.upd a (fun ac => { ac with pending := cp.2 })).acct b).pending ∧
      ((s2.pricedRemoved cp.1.length).acct b).queue = ((s.upd a (fun ac => { ac with pending := cp.2 })).acct b).queue := by
    intro b
    rw [acct_pricedRemoved, (g3 b).1, (g3 b).2]
    subst hs1
    rw [acct_allRemoveMany]
    exact ⟨rfl, rfl⟩
  have ha : ((s2.pricedRemoved cp.1.length).acct a).pending.txs = cp.2.txs ∧
      ((s2.pricedRemoved cp.1.length).acct a).queue = (s.acct a).queue := by
    rw [(hb a).1, (hb a).2]
    by_cases hlt : a < s.n
    · rw [acct_upd_self _ _ _ hlt]; exact ⟨rfl, rfl⟩
    · rw [acct_upd]
      simp only [hlt, and_false, if_false]
      have hd := acct_default_of_ge hlt
      have : cp.2.txs = [] := by
        apply List.eq_nil_iff_forall_not_mem.mpr
        intro x hx
        have := c1 x hx
        rw [hd] at this
        simp at this
      rw [this, hd]
      exact ⟨rfl, trivial⟩
  refine ⟨?_, ?_⟩
  · refine AU.shrink (a := a) hw hau cp.1 [] (fun x => ?_) (fun b hne => ?_) (fun x => ?_) ?_
    · rw [all_pricedRemoved, g1]
      subst hs1
      simp only [mem_allRemoveMany, all_upd]
    · rw [(hb b).1, (hb b).2, acct_upd]
      simp [Ne.symm hne]
    · rw [ha.1, ha.2]
      simp only [List.not_mem_nil, or_false]
      constructor
      · rintro (h | h)
        · rcases c7 x h with h | h
          · exact .inl (.inl h)
          · exact .inr h
        · exact .inl (.inr h)
      · rintro ((h | h) | h)
        · exact .inl (c1 x h)
        · exact .inr h
        · exact .inl (c2 x h)
    · intro x hx
      rw [ha.1, ha.2]
      simp only [List.not_mem_nil, or_false]
      rintro (h | h)
      · have := c6 x h x hx; omega
      · exact hA.disj x (c2 x hx) x h rfl
  · have ik1 : IK s s1 := by subst hs1; exact (IK.upd _ _ _).trans (IK.allRemoveMany _ _)
    exact (ik1.trans (IK.of_eq g1 g2)).trans (IK.pricedRemoved _ _)

theorem GI.capOne {s : State} (hw : AllW s) (hg : GI s) (a : Nat) : GI (s.capOne a) :=
  hg.of_ik (capOne_ik hw hg.au a).1 (capOne_ik hw hg.au a).2

theorem GW.capEach {s : State} (h : GW s) (as : List Nat) : GW (s.capEach as) := by
  unfold State.capEach
  exact foldl_preserves GW _ (fun s x hs => ⟨hs.1.capOne x, hs.2.capOne hs.1 x⟩) as s h

theorem GW.equalize (fuel : Nat) {s : State} (h : GW s) (prevs : List Nat) (chk thr pending : Nat) :
    GW (equalize fuel s prevs chk thr pending).1 := by
  induction fuel generalizing s pending with
  | zero => exact h
  | succ f ih =>
    unfold YouVerif.C20.equalize
    split
    · exact ih (h.capEach prevs) _
    · exact h

theorem GW.spamLoop (sp : List Nat) {s : State} (h : GW s) (off : List Nat) (pending : Nat) :
    GW (spamLoop sp s off pending).1 := by
  induction sp generalizing s off pending with
  | nil => exact h
  | cons o rest ih =>
    unfold YouVerif.C20.spamLoop
    split
    · simp only
      split
      · exact ih h _ _
      · exact ih (GW.equalize _ h _ _ _ _) _ _
    · exact h

theorem GW.finalLoop (fuel : Nat) {s : State} (h : GW s) (off : List Nat) (last pending : Nat) :
    GW (finalLoop fuel s off last pending).1 := by
  induction fuel generalizing s pending with
  | zero => exact h
  | succ f ih =>
    unfold YouVerif.C20.finalLoop
    split
    · exact ih (h.capEach off) _
    · exact h

theorem GW.truncatePending {s : State} (h : GW s) (ord : List Nat) : GW (s.truncatePending ord) := by
  unfold State.truncatePending
  simp only
  split
  · exact h
  · have := GW.spamLoop (List.foldl (fun acc a => insertDesc (fun a => (s.acct a).pending.txs.length) a acc) []
        (List.filter (fun a => !(s.acct a).isLocal && decide ((s.acct a).pending.txs.length > s.cfg.accountSlots)) ord))
      h [] s.pendingCount
    split
    · exact this
    · exact GW.finalLoop _ this _ _ _

theorem GI.truncatePending {s : State} (hw : AllW s) (hg : GI s) (ord : List Nat) : GI (s.truncatePending ord) :=
  (GW.truncatePending ⟨hw, hg⟩ ord).2

/-! ### truncateQueue -/

theorem GW.queueDropLoop (as : List Nat) {s : State} (h : GW s) (drop : Nat) : GW (queueDropLoop as s drop) := by
  induction as generalizing s drop with
  | nil => exact h
  | cons a rest ih =>
    unfold YouVerif.C20.queueDropLoop
    split
    · exact h
    · simp only
      split
      · exact ih (h.removeMany _ _) _
      · exact h.removeMany _ _

theorem GW.truncateQueue {s : State} (h : GW s) (ord : List Nat) : GW (s.truncateQueue ord) := by
  unfold State.truncateQueue
  simp only
  split
  · exact h
  · exact GW.queueDropLoop _ h _

theorem GI.truncateQueue {s : State} (hw : AllW s) (hg : GI s) (ord : List Nat) : GI (s.truncateQueue ord) :=
  (GW.truncateQueue ⟨hw, hg⟩ ord).2

/-! ### nonce refresh, reset -/

theorem GI.refreshNonces {s : State} (hw : AllW s) (hg : GI s) : GI s.refreshNonces := by
  have _ := hw
  refine hg.of_ik (hg.au.congr (fun _ => Iff.rfl) (fun b => ?_)) (IK.of_eq rfl rfl)
  have f := acct_refreshNonces s b
  rw [f.1, f.2.1]; exact ⟨rfl, rfl⟩

theorem GW.refreshNonces {s : State} (h : GW s) : GW s.refreshNonces := ⟨h.1.refreshNonces, h.2.refreshNonces h.1⟩

theorem resetState_fields (s : State) (gl : Nat) (ch : List (Nat × Nat × Nat)) :
    (s.resetState gl ch).all = s.all ∧ (s.resetState gl ch).priced = s.priced ∧
    ∀ b, ((s.resetState gl ch).acct b).pending = (s.acct b).pending ∧ ((s.resetState gl ch).acct b).queue = (s.acct b).queue := by
  unfold State.resetState
  simp only
  refine foldl_preserves (fun s' => s'.all = s.all ∧ s'.priced = s.priced ∧
      ∀ b, (s'.acct b).pending = (s.acct b).pending ∧ (s'.acct b).queue = (s.acct b).queue) _ (fun s' c hs' => ?_) ch _ ?_
  · refine ⟨hs'.1, hs'.2.1, fun b => ?_⟩
    rw [acct_upd]
    split
    · exact hs'.2.2 b
    · exact hs'.2.2 b
  · refine ⟨rfl, rfl, fun b => ?_⟩
    have : (({ s with accts := s.accts.map (fun ac => { ac with pn := none }), maxGas := gl } : State).acct b) =
        { s.acct b with pn := none } := by
      unfold State.acct
      simp only
      rw [getD_map_default _ _ (by rfl)]
    rw [this]
    exact ⟨rfl, rfl⟩

theorem GI.resetState {s : State} (hw : AllW s) (hg : GI s) (gl : Nat) (ch : List (Nat × Nat × Nat)) :
    GI (s.resetState gl ch) := by
  have _ := hw
  obtain ⟨h1, h2, h3⟩ := resetState_fields s gl ch
  refine hg.of_ik (hg.au.congr (fun _ => by rw [h1]) (fun b => ?_)) (IK.of_eq h1 h2)
  rw [(h3 b).1, (h3 b).2]; exact ⟨rfl, rfl⟩

theorem GW.reset {s : State} (h : GW s) (k : ResetKind) (gl : Nat) (ch : List (Nat × Nat × Nat)) (d i : List Tx) :
    GW (s.reset k gl ch d i) := by
  unfold State.reset
  cases k with
  | early => exact h
  | normal => exact GW.addTxsLocked ⟨h.1.resetState gl ch, h.2.resetState h.1 gl ch⟩ _ _

theorem GI.reset {s : State} (hw : AllW s) (hg : GI s) (k : ResetKind) (gl : Nat) (ch : List (Nat × Nat × Nat))
    (d i : List Tx) : GI (s.reset k gl ch d i) :=
  (GW.reset ⟨hw, hg⟩ k gl ch d i).2

/-! ### the operations -/

theorem GW.reorgPlain {s : State} (h : GW s) (ord dirty : List Nat) : GW (s.reorgPlain ord dirty) := by
  unfold State.reorgPlain
  exact (((h.promoteExecutables _).truncatePending _).truncateQueue _).refreshNonces

theorem GI.reorgPlain {s : State} (hw : AllW s) (hg : GI s) (ord dirty : List Nat) : GI (s.reorgPlain ord dirty) :=
  (GW.reorgPlain ⟨hw, hg⟩ ord dirty).2

theorem GW.reorgReset {s : State} (h : GW s) (ord : List Nat) (k : ResetKind) (gl : Nat) (ch : List (Nat × Nat × Nat))
    (d i : List Tx) : GW (s.reorgReset ord k gl ch d i) := by
  unfold State.reorgReset
  exact (((((h.reset k gl ch d i).promoteExecutables _).demoteUnexecutables _).truncatePending _).truncateQueue _).refreshNonces

theorem GI.reorgReset {s : State} (hw : AllW s) (hg : GI s) (ord : List Nat) (k : ResetKind) (gl : Nat)
    (ch : List (Nat × Nat × Nat)) (d i : List Tx) : GI (s.reorgReset ord k gl ch d i) :=
  (GW.reorgReset ⟨hw, hg⟩ ord k gl ch d i).2

theorem GW.evict {s : State} (h : GW s) (ord : List Nat) (k : Nat) : GW (s.evict ord k) := by
  unfold State.evict
  refine foldl_preserves GW _ (fun s a hs => ?_) _ s h
  simp only
  split
  · exact hs
  · split
    · exact hs.removeMany _ _
    · exact hs

theorem GI.evict {s : State} (hw : AllW s) (hg : GI s) (ord : List Nat) (k : Nat) : GI (s.evict ord k) :=
  (GW.evict ⟨hw, hg⟩ ord k).2

theorem GI.setGasPrice {s : State} (hw : AllW s) (hg : GI s) (p : Nat) : GI (s.setGasPrice p) := by
  unfold State.setGasPrice
  simp only
  have hs0 : Same s ({ s with gasPrice := p } : State) := ⟨rfl, rfl, rfl⟩
  have hw0 : AllW ({ s with gasPrice := p } : State) := hs0.allW hw
  have hau0 : AU ({ s with gasPrice := p } : State) [] := hg.au.same hs0 rfl
  have pc := pricedCap_pc ({ s with gasPrice := p } : State) p
  have := dropRemove_ik hw0 hau0 (same_pricedCap _ _) pc.1 pc.2
  exact hg.of_ik this.1 ((IK.of_eq (s := s) (s' := ({ s with gasPrice := p } : State)) rfl rfl).trans this.2.1)

/-- every operation preserves the global index clauses (given the structural invariant) -/
theorem GI.step {s : State} (hw : AllW s) (hg : GI s) (op : Op) : GI (step s op).1 := by
  cases op with
  | add l ord txs => exact (GW.reorgPlain (GW.addTxsLocked ⟨hw, hg⟩ txs l) _ _).2
  | reset ord k gl ch d i => exact hg.reorgReset hw ord k gl ch d i
  | setPrice p => exact hg.setGasPrice hw p
  | remove t oob => exact hg.removeTx hw t oob
  | evict ord k => exact hg.evict hw ord k
  | promote ord => exact hg.reorgPlain hw ord []

theorem gi_init (cfg : Config) (pl gl : Nat) (accts : List (Nat × Nat)) : GI (YouVerif.C20.init cfg pl gl accts) := by
  have hl : ∀ a, ((YouVerif.C20.init cfg pl gl accts).acct a).pending.txs = [] ∧
      ((YouVerif.C20.init cfg pl gl accts).acct a).queue.txs = [] := by
    intro a
    simp only [State.acct, YouVerif.C20.init, List.getD_eq_getElem?_getD, List.getElem?_map]
    cases accts[a]? <;> simp
  have ha : (YouVerif.C20.init cfg pl gl accts).all = [] := rfl
  refine ⟨by rw [ha]; exact List.nodup_nil, fun t => ?_, fun t ht => ?_⟩
  · rw [ha, (hl t.sender).1, (hl t.sender).2]; simp
  · rw [ha] at ht; simp at ht

/-- the structural invariant and the global index clauses together are an invariant of every run -/
theorem GW.step {s : State} (h : GW s) (op : Op) : GW (step s op).1 := ⟨h.1.step op, h.2.step h.1 op⟩

theorem gw_init (cfg : Config) (pl gl : Nat) (accts : List (Nat × Nat)) : GW (YouVerif.C20.init cfg pl gl accts) :=
  ⟨allW_init cfg pl gl accts, gi_init cfg pl gl accts⟩

theorem GW.run {s : State} (h : GW s) (ops : List Op) : GW (run s ops) := by
  unfold YouVerif.C20.run
  exact foldl_preserves GW _ (fun s op hs => hs.step op) ops s h

end YouVerif.C20
