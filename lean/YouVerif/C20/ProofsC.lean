/-
C20 proofs, layer 11 (composition): the limits after every operation that ends with a reorg run.
-/
import YouVerif.C20.ProofsP4
import YouVerif.C20.ProofsE2
import YouVerif.C20.ProofsG4
namespace YouVerif.C20

theorem caps_reorgPlain {s : State} (hw : AllW s) (hg : GI s) (ord dirty : List Nat) :
    PCap (s.reorgPlain ord dirty) ∧ QCap (s.reorgPlain ord dirty) := by
  unfold State.reorgPlain
  simp only
  have hw1 := hw.promoteExecutables ((normOrd s.n ord).filter dirty.contains)
  have hg1 := GI.promoteExecutables hw hg ((normOrd s.n ord).filter dirty.contains)
  have hn1 := (nframe_promoteExecutables hw ((normOrd s.n ord).filter dirty.contains)).1
  exact reorg_tail_caps hw1 s.n hn1 ord (GI.truncatePending hw1 hg1 _)

theorem caps_reorgReset {s : State} (hw : AllW s) (hg : GI s) (ord : List Nat) (k : ResetKind) (gl : Nat)
    (ch : List (Nat × Nat × Nat)) (d i : List Tx) :
    PCap (s.reorgReset ord k gl ch d i) ∧ QCap (s.reorgReset ord k gl ch d i) := by
  unfold State.reorgReset
  simp only
  have hw1 : AllW (s.reset k gl ch d i) := hw.reset k gl ch d i
  have hg1 : GI (s.reset k gl ch d i) := GI.reset hw hg k gl ch d i
  have hn1 := reset_n s k gl ch d i
  generalize s.reset k gl ch d i = s1 at *
  have hw2 := hw1.promoteExecutables ((normOrd s.n ord).filter (fun a => !(s1.acct a).queue.txs.isEmpty))
  have hg2 := GI.promoteExecutables hw1 hg1 ((normOrd s.n ord).filter (fun a => !(s1.acct a).queue.txs.isEmpty))
  have nf2 := nframe_promoteExecutables hw1 ((normOrd s.n ord).filter (fun a => !(s1.acct a).queue.txs.isEmpty))
  have hw3 := hw2.demoteUnexecutables (normOrd s.n ord)
  have hg3 := GI.demoteUnexecutables hw2 hg2 (normOrd s.n ord)
  have nf3 := nframe_demoteUnexecutables hw2 (normOrd s.n ord)
  exact reorg_tail_caps hw3 s.n ((nf2.trans nf3).1.trans hn1) ord (GI.truncatePending hw3 hg3 _)

/-- the limits, in the form the code enforces them, after every operation that ends with a reorg run -/
theorem caps_step {s : State} (hw : AllW s) (hg : GI s) (op : Op)
    (hop : match op with | .add .. | .reset .. | .promote .. => True | _ => False) :
    PCap (step s op).1 ∧ QCap (step s op).1 := by
  cases op with
  | add l ord txs => exact caps_reorgPlain (hw.addTxsLocked txs l) (GI.addTxsLocked hw hg txs l) _ _
  | reset ord k gl ch d i => exact caps_reorgReset hw hg ord k gl ch d i
  | promote ord => exact caps_reorgPlain hw hg ord []
  | setPrice p => exact absurd hop (by simp)
  | remove t oob => exact absurd hop (by simp)
  | evict ord k => exact absurd hop (by simp)

/-! ### a fresh pool, and induction over operation sequences -/

theorem allI_init (cfg : Config) (pl gl : Nat) (accts : List (Nat × Nat)) : AllI (YouVerif.C20.init cfg pl gl accts) := by
  have hac : ∀ a, (((YouVerif.C20.init cfg pl gl accts).acct a).pending.txs = [] ∧ ((YouVerif.C20.init cfg pl gl accts).acct a).queue.txs = [] ∧
      ((YouVerif.C20.init cfg pl gl accts).acct a).pn = none ∧ ((YouVerif.C20.init cfg pl gl accts).acct a).beat = 0) := by
    intro a
    simp only [State.acct, init, List.getD_eq_getElem?_getD, List.getElem?_map]
    cases accts[a]? <;> simp
  refine ⟨fun a => ?_, fun b => ?_⟩
  · obtain ⟨h1, h2, _, h4⟩ := hac a
    constructor <;> simp [h1, h2, h4, Sorted] <;> exact .nil _
  · obtain ⟨h1, _, h3, _⟩ := hac b
    simp [PN, Account.pnGet, h1, h3]

theorem nb_init (cfg : Config) (pl gl : Nat) (accts : List (Nat × Nat)) (hacc : ∀ p ∈ accts, p.1 ≤ 2 ^ 64 - 1) :
    NB (YouVerif.C20.init cfg pl gl accts) := by
  intro b
  simp only [State.acct, init, List.getD_eq_getElem?_getD, List.getElem?_map]
  cases hb : accts[b]? with
  | none => simp
  | some p => simpa using hacc p (List.mem_of_getElem? hb)

/-- induction over operation sequences with a side condition on every operation -/
theorem run_induction (P : State → Prop) (hstep : ∀ s op, op.WF → P s → P (step s op).1) (ops : List Op)
    (hops : ∀ op ∈ ops, op.WF) (s : State) (h : P s) : P (run s ops) := by
  unfold run
  induction ops generalizing s with
  | nil => exact h
  | cons op rest ih =>
    simp only [List.foldl_cons]
    exact ih (fun o ho => hops o (by simp [ho])) _ (hstep s op (hops op (by simp)) h)

end YouVerif.C20
