/-
C20 proofs, layer 9: the virtual-nonce clause through the reorg run of a reset.

`RS` is the clause that survives promotion and demotion from the structural invariant alone: the virtual nonce is not
below the state nonce, and either equals it or the transaction AT the state nonce is pending and payable (so the
demotion that follows cannot empty the list).  Needs the state nonce to fit a uint64 (`NB`): the strict `Filter`
computes its lowest removed nonce starting from `MaxUint64`.
-/
import YouVerif.C20.ProofsP2
namespace YouVerif.C20

def RS (ac : Account) (mg : Nat) : Prop :=
  ac.nonce ≤ ac.pnGet ∧
    (ac.pnGet = ac.nonce ∨ ∃ t ∈ ac.pending.txs, t.nonce = ac.nonce ∧ t.cost ≤ ac.balance ∧ t.gas ≤ mg)

def AllRS (s : State) : Prop := ∀ b, RS (s.acct b) s.maxGas

/-- state nonces fit a uint64 (`StateDB.GetNonce` returns one) -/
def NB (s : State) : Prop := ∀ b, (s.acct b).nonce ≤ 2 ^ 64 - 1

theorem NFrame.nb {s s' : State} (h : NFrame s s') (hb : NB s) : NB s' := fun b => by rw [h.2 b]; exact hb b

theorem RS.congr {ac ac' : Account} {mg : Nat} (h : RS ac mg) (e1 : ac'.pending = ac.pending) (e2 : ac'.nonce = ac.nonce)
    (e3 : ac'.pn = ac.pn) (e4 : ac'.balance = ac.balance) : RS ac' mg := by
  unfold RS Account.pnGet at *
  rw [e1, e2, e3, e4]; exact h

theorem QFrame.rs {s s' : State} (h : QFrame s s') (b : Nat) (hr : RS (s.acct b) s.maxGas) : RS (s'.acct b) s'.maxGas := by
  have := h.2.2.2 b
  rw [h.2.1]
  exact hr.congr this.1 this.2.1 this.2.2.1 this.2.2.2.2.1

theorem AllI.allRS {s : State} (h : AllI s) : AllRS s := by
  intro b
  have hA := h.1 b
  have hP := h.2 b
  unfold PN at hP
  refine ⟨by omega, ?_⟩
  cases hp : (s.acct b).pending.txs with
  | nil => left; rw [hP, hp]; rfl
  | cons x xs =>
    right
    have hc := hA.pChain
    rw [hp] at hc
    refine ⟨x, by simp, (chain_cons_iff.mp hc).1, ?_⟩
    exact hA.pAfford x (by rw [hp]; simp)

/-! ### promotion -/

theorem qframe_updQueue (s : State) (a : Nat) (q' : TxList) : QFrame s (s.upd a (fun ac => { ac with queue := q' })) := by
  refine ⟨n_upd _ _ _, rfl, rfl, fun b => ?_⟩
  rw [acct_upd]
  split <;> exact ⟨rfl, rfl, rfl, rfl, rfl, rfl⟩

theorem capQueue_qframe (s : State) (a k : Nat) : QFrame s (s.capQueue a k) := by
  unfold State.capQueue
  simp only
  generalize (if (s.acct a).isLocal = true then ([], (s.acct a).queue) else (s.acct a).queue.cap s.cfg.accountQueue) = cp
  have h1 : QFrame s (((s.upd a (fun ac => { ac with queue := cp.2 })).allRemoveMany cp.1).pricedRemoved (k + cp.1.length)) :=
    (qframe_updQueue s a cp.2).trans ((same_allRemoveMany _ _).trans (same_pricedRemoved _ _)).qframe
  split
  · exact h1.trans (qframe_updQueue _ a {})
  · exact h1

theorem rs_promoteMany {s : State} {a : Nat} (mg : Nat) (hlt : a < s.n) (ts : List Tx) (hso : Sorted ts)
    (hge : ∀ t ∈ ts, (s.acct a).nonce ≤ t.nonce)
    (hfree : ∀ t ∈ ts, ∀ x ∈ (s.acct a).pending.txs, x.nonce ≠ t.nonce)
    (hle : (s.acct a).nonce ≤ (s.acct a).pnGet)
    (h2 : ∃ x, (x ∈ (s.acct a).pending.txs ∨ ts.head? = some x) ∧ x.nonce = (s.acct a).nonce ∧
      x.cost ≤ (s.acct a).balance ∧ x.gas ≤ mg) :
    ((s.promoteMany a ts).acct a).nonce ≤ ((s.promoteMany a ts).acct a).pnGet ∧
    ∃ x ∈ ((s.promoteMany a ts).acct a).pending.txs, x.nonce = ((s.promoteMany a ts).acct a).nonce ∧
      x.cost ≤ ((s.promoteMany a ts).acct a).balance ∧ x.gas ≤ mg := by
  unfold State.promoteMany
  induction ts generalizing s with
  | nil =>
    obtain ⟨x, hx, h3⟩ := h2
    rcases hx with hx | hx
    · exact ⟨hle, x, hx, h3⟩
    · simp at hx
  | cons t rest ih =>
    simp only [List.foldl_cons]
    have hf := hfree t (by simp)
    obtain ⟨c, _, he⟩ := promoteTx_acct s a t (promoteTx_ok s a t hf)
    have pf := promoteTx_pframe s a t
    have hea : (s.promoteTx a t).1.acct a =
        { s.acct a with pending := (s.acct a).pending.put t, beat := c, pn := some (t.nonce + 1) } := by
      rw [he a]; simp [hlt]
    have hso' : Sorted rest := (List.pairwise_cons.mp hso).2
    have hlt_t := (List.pairwise_cons.mp hso).1
    refine ih (by rw [pf.1]; exact hlt) hso' ?_ ?_ ?_ ?_
    · intro x hx; rw [hea]; exact hge x (by simp [hx])
    · intro x hx y hy
      rw [hea] at hy
      rcases mem_insertN_or hy with rfl | hy
      · have := hlt_t x hx; omega
      · exact hfree x (by simp [hx]) y hy
    · rw [hea]
      have := hge t (by simp)
      simp only [Account.pnGet, Option.getD_some]
      omega
    · obtain ⟨x, hx, h3⟩ := h2
      refine ⟨x, .inl ?_, ?_⟩
      · rw [hea]
        simp only [TxList.put]
        rcases hx with hx | hx
        · exact mem_insertN_of_mem hx (hf x hx)
        · simp at hx; subst hx; exact self_mem_insertN _ _
      · rw [hea]; exact h3

/-- what the queue scan hands to promotion, from the structural invariant alone -/
theorem queueScan_ready_w {ac : Account} {a : Nat} (h : AcctW ac a) (mg : Nat) :
    Sorted (queueScan ac mg).2.2.1 ∧
    (∀ t ∈ (queueScan ac mg).2.2.1, t ∈ ac.queue.txs ∧ ac.nonce ≤ t.nonce ∧ t.cost ≤ ac.balance ∧ t.gas ≤ mg) ∧
    (∀ t rest, (queueScan ac mg).2.2.1 = t :: rest → t.nonce ≤ ac.pnGet) := by
  have hs0 : Sorted (forwardN ac.queue.txs ac.nonce).2 := h.qSorted.filter _
  have hsub0 : ∀ x ∈ (forwardN ac.queue.txs ac.nonce).2, x ∈ ac.queue.txs ∧ ac.nonce ≤ x.nonce := by
    intro x hx
    have := List.mem_filter.mp hx
    exact ⟨this.1, by simpa using this.2⟩
  have fs := filter_spec ({ ac.queue with txs := (forwardN ac.queue.txs ac.nonce).2 } : TxList) false ac.balance mg hs0
    (fun x hx => h.qCaps x (hsub0 x hx).1)
  simp only at fs
  obtain ⟨f1, _, _, f4, _, f6, _, _, _⟩ := fs
  have rs := ready_spec _ ac.pnGet f4
  have rn := readyN_spec (({ ac.queue with txs := (forwardN ac.queue.txs ac.nonce).2 } : TxList).filter false ac.balance mg).2.2.txs ac.pnGet
  have hrd : (queueScan ac mg).2.2.1 = (readyN (({ ac.queue with txs := (forwardN ac.queue.txs ac.nonce).2 } : TxList).filter false ac.balance mg).2.2.txs ac.pnGet).1 := rfl
  rw [hrd]
  refine ⟨rs.2.2.1, fun t ht => ?_, fun t rest he => ?_⟩
  · have h1 := f1 t (rs.1 t ht)
    exact ⟨(hsub0 t h1).1, (hsub0 t h1).2, f6 t (rs.1 t ht)⟩
  · rcases rn.2 with hnil | ⟨m, hm, hch, _, _⟩
    · rw [hnil] at he; cases he
    · rw [he] at hch
      have := (chain_cons_iff.mp hch).1
      omega

theorem promoteAccount_maxGas (s : State) (a : Nat) : (s.promoteAccount a).maxGas = s.maxGas := by
  unfold State.promoteAccount
  simp only
  split
  · rfl
  · rw [(capQueue_qframe _ _ _).2.1, (promoteMany_pframe _ _ _).2.1]
    exact ((same_allRemoveMany _ _).trans (same_allRemoveMany _ _)).2.1

theorem AllRS.promoteAccount {s : State} (hw : AllW s) (h : AllRS s) (a : Nat) : AllRS (s.promoteAccount a) := by
  intro b
  rw [promoteAccount_maxGas]
  unfold State.promoteAccount
  simp only
  split
  · exact h b
  · rename_i hne
    have hlt : a < s.n := lt_n_of_queue (by simpa using hne)
    have hA := hw a
    obtain ⟨r1, r2, r3⟩ := queueScan_ready_w hA s.maxGas
    have same1 : Same s ((s.allRemoveMany (queueScan (s.acct a) s.maxGas).1).allRemoveMany (queueScan (s.acct a) s.maxGas).2.1) :=
      (same_allRemoveMany _ _).trans (same_allRemoveMany _ _)
    have q2 : QFrame s (((s.allRemoveMany (queueScan (s.acct a) s.maxGas).1).allRemoveMany (queueScan (s.acct a) s.maxGas).2.1).upd a
        (fun ac => { ac with queue := (queueScan (s.acct a) s.maxGas).2.2.2 })) := same1.qframe.trans (qframe_updQueue _ _ _)
    generalize hs2 : (((s.allRemoveMany (queueScan (s.acct a) s.maxGas).1).allRemoveMany (queueScan (s.acct a) s.maxGas).2.1).upd a
        (fun ac => { ac with queue := (queueScan (s.acct a) s.maxGas).2.2.2 })) = s2 at q2
    have hmg3 : (s2.promoteMany a (queueScan (s.acct a) s.maxGas).2.2.1).maxGas = s.maxGas := by
      rw [(promoteMany_pframe _ _ _).2.1, q2.2.1]
    -- it is enough to have RS before the queue cap
    suffices h3 : RS ((s2.promoteMany a (queueScan (s.acct a) s.maxGas).2.2.1).acct b) s.maxGas by
      have := (capQueue_qframe (s2.promoteMany a (queueScan (s.acct a) s.maxGas).2.2.1) a
        ((queueScan (s.acct a) s.maxGas).1.length + (queueScan (s.acct a) s.maxGas).2.1.length)).rs b (by rw [hmg3]; exact h3)
      rw [(capQueue_qframe _ _ _).2.1, hmg3] at this
      exact this
    have hb2 : RS (s2.acct b) s.maxGas := by
      have := q2.rs b (h b)
      rw [q2.2.1] at this; exact this
    by_cases hba : b = a
    · subst hba
      have e2 := q2.2.2.2 b
      cases hrd : (queueScan (s.acct b) s.maxGas).2.2.1 with
      | nil => simp only [State.promoteMany, List.foldl_nil]; exact hb2
      | cons t rest =>
        rw [← hrd]
        have hfree : ∀ t ∈ (queueScan (s.acct b) s.maxGas).2.2.1, ∀ x ∈ (s2.acct b).pending.txs, x.nonce ≠ t.nonce := by
          intro t ht x hx
          rw [e2.1] at hx
          exact hA.disj x hx t (r2 t ht).1
        have hge : ∀ t ∈ (queueScan (s.acct b) s.maxGas).2.2.1, (s2.acct b).nonce ≤ t.nonce := by
          intro t ht; rw [e2.2.1]; exact (r2 t ht).2.1
        have key := rs_promoteMany (s := s2) (a := b) s.maxGas (by rw [q2.1]; exact hlt) _ r1 hge hfree hb2.1 (by
          rcases hb2.2 with hpe | ⟨x, hx, h3⟩
          · have htm : t ∈ (queueScan (s.acct b) s.maxGas).2.2.1 := by rw [hrd]; simp
            have h1 := r3 t rest hrd
            have h2 := (r2 t htm)
            refine ⟨t, .inr (by rw [hrd]; rfl), ?_, ?_⟩
            · unfold Account.pnGet at hpe h1
              rw [e2.2.1, e2.2.2.1] at hpe
              rw [e2.2.1]; omega
            · rw [e2.2.2.2.2.1]; exact ⟨h2.2.2.1, h2.2.2.2⟩
          · exact ⟨x, .inl hx, h3⟩)
        exact ⟨key.1, .inr key.2⟩
    · rw [promoteMany_other _ _ _ _ hba]; exact hb2

theorem AllRS.promoteExecutables {s : State} (hw : AllW s) (h : AllRS s) (as : List Nat) :
    AllRS (s.promoteExecutables as) := by
  unfold State.promoteExecutables
  induction as generalizing s with
  | nil => exact h
  | cons a rest ih =>
    simp only [List.foldl_cons]
    exact ih (hw.promoteAccount a) (h.promoteAccount hw a)

/-! ### demotion -/

theorem pn_upd (s : State) (a : Nat) (f : Account → Account) (hf : ∀ ac, (f ac).pn = ac.pn) (b : Nat) :
    ((s.upd a f).acct b).pn = (s.acct b).pn := by
  rw [acct_upd]
  split
  · exact hf _
  · rfl

theorem pn_updPending (s : State) (a : Nat) (p : TxList) (b : Nat) :
    ((s.upd a (fun ac => { ac with pending := p })).acct b).pn = (s.acct b).pn := by
  rw [acct_upd]; split <;> rfl

theorem pn_updPendingBeat (s : State) (a : Nat) (b : Nat) :
    ((s.upd a (fun ac => { ac with pending := {}, beat := 0 })).acct b).pn = (s.acct b).pn := by
  rw [acct_upd]; split <;> rfl

theorem demoteGap_pn (s : State) (a nonce b : Nat) : ((s.demoteGap a nonce).acct b).pn = (s.acct b).pn := by
  unfold State.demoteGap
  simp only
  generalize (if contigRun (s.acct a).pending.txs.length (s.acct a).pending.txs nonce < (s.acct a).pending.txs.length
      then (s.acct a).pending.cap (contigRun (s.acct a).pending.txs.length (s.acct a).pending.txs nonce)
      else ([], (s.acct a).pending)) = cp
  split
  · rw [pn_updPendingBeat, ((enqueueMany_qframe _ _).2.2.2 b).2.2.1, pn_updPending]
  · rw [((enqueueMany_qframe _ _).2.2.2 b).2.2.1, pn_updPending]

theorem demoteAccount_pn (s : State) (a b : Nat) : ((s.demoteAccount a).acct b).pn = (s.acct b).pn := by
  unfold State.demoteAccount
  simp only
  split
  · rfl
  · rw [demoteGap_pn, ((enqueueMany_qframe _ _).2.2.2 b).2.2.1, pn_updPending]
    rw [(((same_allRemoveMany _ _).trans (same_allRemoveMany _ _)).trans (same_pricedRemoved _ _)).acct b]

theorem lowestNonce_ge (l : List Tx) (k : Nat) (hk : k ≤ 2 ^ 64 - 1) (h : ∀ x ∈ l, k ≤ x.nonce) : k ≤ lowestNonce l := by
  unfold lowestNonce
  suffices hh : ∀ m, k ≤ m → k ≤ l.foldl (fun m t => if m > t.nonce then t.nonce else m) m from hh _ hk
  induction l with
  | nil => exact fun m hm => hm
  | cons y ys ih =>
    intro m hm
    simp only [List.foldl_cons]
    apply ih (fun x hx => h x (by simp [hx]))
    split
    · exact h y (by simp)
    · exact hm

/-- the strict `Filter` keeps a payable transaction that has the lowest nonce of the list -/
theorem filter_keeps_low (l : TxList) (cl gl : Nat) (t : Tx) (ht : t ∈ l.txs) (haff : t.cost ≤ cl ∧ t.gas ≤ gl)
    (hlow : ∀ x ∈ l.txs, t.nonce ≤ x.nonce) (hb : t.nonce ≤ 2 ^ 64 - 1) : t ∈ (l.filter true cl gl).2.2.txs := by
  unfold TxList.filter
  split
  · exact ht
  · simp only
    have hk : t ∈ l.txs.filter (fun t => !(decide (t.cost > cl) || decide (t.gas > gl))) :=
      List.mem_filter.mpr ⟨ht, by simp; omega⟩
    split
    · refine List.mem_filter.mpr ⟨hk, ?_⟩
      have := lowestNonce_ge (l.txs.filter (fun t => decide (t.cost > cl) || decide (t.gas > gl))) t.nonce hb
        (fun x hx => hlow x (List.mem_filter.mp hx).1)
      simp; omega
    · exact hk

theorem contigRun_pos {l : List Tx} {n : Nat} {t : Tx} (ht : t ∈ l) (hn : t.nonce = n) : 1 ≤ contigRun l.length l n := by
  have hs : (getN l n).isSome := hn ▸ getN_isSome_of_mem ht
  cases hl : l.length with
  | zero => rw [List.length_eq_zero_iff.mp hl] at ht; simp at ht
  | succ k =>
    unfold contigRun
    simp only [hs, if_true]
    omega

/-- the demotion of one account keeps a payable transaction that sits at the state nonce -/
theorem demote_keeps_head {ac : Account} {a : Nat} (hW : AcctW ac a) (mg : Nat) (hb : ac.nonce ≤ 2 ^ 64 - 1) {t : Tx}
    (ht : t ∈ ac.pending.txs) (hn : t.nonce = ac.nonce) (haff : t.cost ≤ ac.balance ∧ t.gas ≤ mg) :
    let sc := pendingScan ac mg
    let run := contigRun sc.2.2.2.txs.length sc.2.2.2.txs ac.nonce
    let cp := if run < sc.2.2.2.txs.length then sc.2.2.2.cap run else ([], sc.2.2.2)
    t ∈ cp.2.txs := by
  intro sc run cp
  have hsub0 : ∀ x ∈ (forwardN ac.pending.txs ac.nonce).2, x ∈ ac.pending.txs ∧ ac.nonce ≤ x.nonce := by
    intro x hx
    have := List.mem_filter.mp hx
    exact ⟨this.1, by simpa using this.2⟩
  have ht0 : t ∈ (forwardN ac.pending.txs ac.nonce).2 := List.mem_filter.mpr ⟨ht, by simp; omega⟩
  have sp := pendingScan_spec hW mg
  simp only at sp
  obtain ⟨p1, p2, _, _⟩ := sp
  have hp1 : sc.2.2.2 = (({ ac.pending with txs := (forwardN ac.pending.txs ac.nonce).2 } : TxList).filter true ac.balance mg).2.2 := rfl
  have htl : t ∈ sc.2.2.2.txs := by
    rw [hp1]
    exact filter_keeps_low _ _ _ t ht0 haff (fun x hx => by rw [hn]; exact (hsub0 x hx).2) (by rw [hn]; exact hb)
  have hs0 : Sorted (forwardN ac.pending.txs ac.nonce).2 := hW.pSorted.filter _
  have fs := filter_spec ({ ac.pending with txs := (forwardN ac.pending.txs ac.nonce).2 } : TxList) true ac.balance mg hs0
    (fun x hx => hW.pCaps x (hsub0 x hx).1)
  simp only at fs
  have hge : ∀ x ∈ sc.2.2.2.txs, ac.nonce ≤ x.nonce := fun x hx => (hsub0 x (fs.1 x (hp1 ▸ hx))).2
  have hrun : 1 ≤ run := contigRun_pos htl hn
  simp only [cp]
  split
  · rename_i hlt
    have cs := cap_spec sc.2.2.2 run p2
    rcases cs.2.2.2.2.2.2 t htl with hk | hd
    · exact hk
    · exfalso
      have hne : (sc.2.2.2.cap run).2.txs ≠ [] := by
        rw [take_cap]
        intro he
        have := congrArg List.length he
        simp only [List.length_take, List.length_nil] at this
        omega
      obtain ⟨x, hx⟩ := List.exists_mem_of_ne_nil _ hne
      have h1 := cs.2.2.2.2.2.1 x hx t hd
      have h2 := hge x (cs.1 x hx)
      omega
  · exact htl

theorem AllRS.demoteAccount {s : State} (hw : AllW s) (hnb : NB s) (h : AllRS s) (a : Nat) : AllRS (s.demoteAccount a) := by
  by_cases hne : (s.acct a).pending.txs = []
  · have e : s.demoteAccount a = s := by
      unfold State.demoteAccount; simp [hne]
    rw [e]; exact h
  · have fa := demoteAccount_acct hw a hne
    simp only at fa
    obtain ⟨e1, e2, e3, _, e5, e6, _⟩ := fa
    intro b
    rw [e6]
    by_cases hb : b = a
    · subst hb
      have hr := h b
      have hpn := demoteAccount_pn s b b
      unfold RS Account.pnGet at hr ⊢
      rw [e2, e3, hpn, e1]
      refine ⟨hr.1, ?_⟩
      rcases hr.2 with hl | ⟨t, ht, hn, haff⟩
      · exact .inl hl
      · exact .inr ⟨t, demote_keeps_head (hw b) s.maxGas (hnb b) ht hn haff, hn, haff⟩
    · rw [e5 b hb]; exact h b

theorem AllRS.demoteUnexecutables {s : State} (hw : AllW s) (hnb : NB s) (h : AllRS s) (as : List Nat) :
    AllRS (s.demoteUnexecutables as) := by
  unfold State.demoteUnexecutables
  induction as generalizing s with
  | nil => exact h
  | cons a rest ih =>
    simp only [List.foldl_cons]
    exact ih (hw.demoteAccount a) ((nframe_demoteAccount hw a).nb hnb) (h.demoteAccount hw hnb a)

/-- structural invariant + shape + `RS` give the mid-run invariant -/
theorem allM_of_shape {s : State} (hw : AllW s) (hs : ∀ b, Shape (s.acct b) s.maxGas) (hr : AllRS s) : AllM s := by
  refine ⟨fun b => AcctJ.ofShape (hw b) (hs b), fun b => ⟨(hr b).1, fun hnil => ?_⟩⟩
  rcases (hr b).2 with h | ⟨t, ht, _⟩
  · exact h
  · rw [hnil] at ht; simp at ht

/-! ### resetState -/

theorem resetState_base (s : State) (gl : Nat) (b : Nat) :
    (({ s with accts := s.accts.map (fun ac => { ac with pn := none }), maxGas := gl } : State).acct b) =
      { s.acct b with pn := none } := by
  unfold State.acct
  simp only
  rw [getD_map_default _ _ (by rfl)]

theorem resetState_fold (ch : List (Nat × Nat × Nat)) (s0 : State) :
    (ch.foldl (fun s (c : Nat × Nat × Nat) => s.upd c.1 (fun ac => { ac with nonce := c.2.1, balance := c.2.2 })) s0).n = s0.n ∧
    (∀ b, ((ch.foldl (fun s (c : Nat × Nat × Nat) => s.upd c.1 (fun ac => { ac with nonce := c.2.1, balance := c.2.2 })) s0).acct b).pn =
      (s0.acct b).pn) ∧
    ((∀ c ∈ ch, c.2.1 ≤ 2 ^ 64 - 1) → NB s0 →
      NB (ch.foldl (fun s (c : Nat × Nat × Nat) => s.upd c.1 (fun ac => { ac with nonce := c.2.1, balance := c.2.2 })) s0)) := by
  induction ch generalizing s0 with
  | nil => exact ⟨rfl, fun _ => rfl, fun _ hb => hb⟩
  | cons c cs ih =>
    simp only [List.foldl_cons]
    have := ih (s0.upd c.1 (fun ac => { ac with nonce := c.2.1, balance := c.2.2 }))
    refine ⟨this.1.trans (n_upd _ _ _), fun b => (this.2.1 b).trans (by rw [acct_upd]; split <;> rfl), fun hc hb => ?_⟩
    refine this.2.2 (fun c' hc' => hc c' (by simp [hc'])) (fun b => ?_)
    rw [acct_upd]
    split
    · exact hc c (by simp)
    · exact hb b

theorem resetState_spec (s : State) (gl : Nat) (ch : List (Nat × Nat × Nat)) :
    (s.resetState gl ch).n = s.n ∧ (∀ b, ((s.resetState gl ch).acct b).pn = none) ∧
    ((∀ c ∈ ch, c.2.1 ≤ 2 ^ 64 - 1) → NB s → NB (s.resetState gl ch)) := by
  unfold State.resetState
  simp only
  have f := resetState_fold ch ({ s with accts := s.accts.map (fun ac => { ac with pn := none }), maxGas := gl } : State)
  refine ⟨f.1.trans (by simp [State.n]), fun b => ?_, fun hc hb => f.2.2 hc (fun b => ?_)⟩
  · rw [f.2.1 b, resetState_base]
  · rw [resetState_base]; exact hb b

end YouVerif.C20
