/-
C20 — executable model of the sequential core of go-youchain's transaction pool
(core/tx_pool.go, core/tx_list.go, core/tx_noncer.go), geth-1.9 design.

Core Lean only (the driver links natively).  The model follows the code that exists:

* a transaction is identified by its whole content (`Tx` with decidable equality); the harness gives every
  distinct real transaction (distinct hash) a distinct `id`, so structural equality here = hash equality there;
* `txSortedMap` = nonce-ascending `List Tx` without repeated nonces; `txList` adds the cached `costcap/gascap`;
* `txLookup` (`all`) = duplicate-free `List Tx`; `txPricedList` = the multiset of heap items (stale ones included)
  plus the `stales` counter; popping the heap = removing the minimum under (price ascending, nonce descending);
* `txNoncer` = optional explicit entry per account, falling back to the state nonce of the last reset;
* `beats` = logical clock values (0 = no entry); only their relative order is observable;
* every Go map iteration whose order can matter takes the order as an explicit argument (`ord`) of the operation.
-/
namespace YouVerif.C20

structure Tx where
  id : Nat
  sender : Nat
  nonce : Nat
  price : Nat
  gas : Nat
  value : Nat
  intr : Nat      -- intrinsic gas demanded by the converter for this payload
  flags : Nat     -- bit0 oversized (>32KB), bit1 negative value, bit2 signature does not recover
deriving DecidableEq, Repr, Inhabited

def Tx.cost (t : Tx) : Nat := t.price * t.gas + t.value
def Tx.oversized (t : Tx) : Bool := t.flags % 2 == 1
def Tx.negValue (t : Tx) : Bool := (t.flags / 2) % 2 == 1
def Tx.badSig (t : Tx) : Bool := (t.flags / 4) % 2 == 1

structure Config where
  accountSlots : Nat
  globalSlots : Nat
  accountQueue : Nat
  globalQueue : Nat
  priceBump : Nat
deriving Repr, Inhabited

/-! ## txSortedMap / txList -/

structure TxList where
  txs : List Tx := []
  costcap : Nat := 0
  gascap : Nat := 0
deriving Repr, Inhabited

def TxList.empty : TxList := {}

def getN (l : List Tx) (n : Nat) : Option Tx := l.find? (fun t => t.nonce == n)

/-- `txSortedMap.Put`: insert keeping nonce order, overwriting an entry with the same nonce. -/
def insertN (t : Tx) : List Tx → List Tx
  | [] => [t]
  | x :: xs =>
    if t.nonce < x.nonce then t :: x :: xs
    else if t.nonce = x.nonce then t :: xs
    else x :: insertN t xs

def TxList.put (l : TxList) (t : Tx) : TxList :=
  { txs := insertN t l.txs, costcap := max l.costcap t.cost, gascap := max l.gascap t.gas }

/-- `txList.Add`: (inserted, replaced old transaction, new list). -/
def TxList.add (l : TxList) (t : Tx) (bump : Nat) : Bool × Option Tx × TxList :=
  match getN l.txs t.nonce with
  | some old =>
    if old.price ≥ t.price ∨ old.price * (100 + bump) / 100 > t.price then (false, none, l)
    else (true, some old, l.put t)
  | none => (true, none, l.put t)

/-- `Forward(threshold)`: (removed, kept). -/
def forwardN (l : List Tx) (thr : Nat) : List Tx × List Tx :=
  (l.filter (fun t => t.nonce < thr), l.filter (fun t => !(t.nonce < thr)))

def lowestNonce (l : List Tx) : Nat := l.foldl (fun m t => if m > t.nonce then t.nonce else m) (2 ^ 64 - 1)

/-- `txList.Filter(costLimit, gasLimit)`: (removed, invalids, new list). -/
def TxList.filter (l : TxList) (strict : Bool) (costLimit gasLimit : Nat) : List Tx × List Tx × TxList :=
  if l.costcap ≤ costLimit ∧ l.gascap ≤ gasLimit then ([], [], l)
  else
    let bad := fun (t : Tx) => decide (t.cost > costLimit) || decide (t.gas > gasLimit)
    let removed := l.txs.filter bad
    let kept := l.txs.filter (fun t => !bad t)
    if strict && !removed.isEmpty then
      let lowest := lowestNonce removed
      (removed, kept.filter (fun t => t.nonce > lowest),
        { txs := kept.filter (fun t => !(t.nonce > lowest)), costcap := costLimit, gascap := gasLimit })
    else (removed, [], { txs := kept, costcap := costLimit, gascap := gasLimit })

/-- `Cap(threshold)`: (dropped, new list). -/
def TxList.cap (l : TxList) (threshold : Nat) : List Tx × TxList :=
  if l.txs.length ≤ threshold then ([], l)
  else ((l.txs.drop threshold).reverse, { l with txs := l.txs.take threshold })

/-- `txList.Remove(tx)`: removal is by nonce. (found, invalids, new list). -/
def TxList.remove (l : TxList) (strict : Bool) (t : Tx) : Bool × List Tx × TxList :=
  match getN l.txs t.nonce with
  | none => (false, [], l)
  | some _ =>
    let rest := l.txs.filter (fun x => x.nonce != t.nonce)
    if strict then
      (true, rest.filter (fun x => x.nonce > t.nonce), { l with txs := rest.filter (fun x => !(x.nonce > t.nonce)) })
    else (true, [], { l with txs := rest })

def readyRun : Nat → List Tx → List Tx × List Tx
  | _, [] => ([], [])
  | next, x :: xs =>
    if x.nonce = next then
      let r := readyRun (next + 1) xs
      (x :: r.1, r.2)
    else ([], x :: xs)

/-- `Ready(start)`: the consecutive run starting at the LOWEST nonce, provided that is ≤ start. (ready, kept) -/
def readyN (l : List Tx) (start : Nat) : List Tx × List Tx :=
  match l with
  | [] => ([], [])
  | x :: _ => if x.nonce > start then ([], l) else readyRun x.nonce l

/-! ## accounts and pool state -/

structure Account where
  nonce : Nat := 0          -- currentState.GetNonce
  balance : Nat := 0        -- currentState.GetBalance
  pending : TxList := {}    -- empty = no map entry
  queue : TxList := {}
  pn : Option Nat := none   -- explicit txNoncer entry
  beat : Nat := 0           -- 0 = no heartbeat entry
  isLocal : Bool := false
deriving Repr, Inhabited

def Account.pnGet (a : Account) : Nat := a.pn.getD a.nonce

structure State where
  cfg : Config
  accts : List Account
  all : List Tx := []
  priced : List Tx := []
  stales : Int := 0
  gasPrice : Nat := 1
  maxGas : Nat := 0
  clock : Nat := 0
deriving Repr, Inhabited

def State.n (s : State) : Nat := s.accts.length
def State.acct (s : State) (a : Nat) : Account := s.accts.getD a {}

def updAt : List Account → Nat → (Account → Account) → List Account
  | [], _, _ => []
  | x :: xs, 0, f => f x :: xs
  | x :: xs, n + 1, f => x :: updAt xs n f

def State.upd (s : State) (a : Nat) (f : Account → Account) : State := { s with accts := updAt s.accts a f }

/-! ## txLookup and txPricedList -/

def State.allAdd (s : State) (t : Tx) : State := if t ∈ s.all then s else { s with all := t :: s.all }
def State.allRemove (s : State) (t : Tx) : State := { s with all := s.all.filter (fun x => x != t) }
def State.allRemoveMany (s : State) (ts : List Tx) : State := ts.foldl State.allRemove s

def State.pricedPut (s : State) (t : Tx) : State := { s with priced := t :: s.priced }

/-- `txPricedList.Removed(count)`: re-heap from `all` when more than a quarter of the items is stale. -/
def State.pricedRemoved (s : State) (count : Nat) : State :=
  let st := s.stales + count
  if st ≤ ((s.priced.length / 4 : Nat) : Int) then { s with stales := st }
  else { s with stales := 0, priced := s.all }

/-- heap order: cheaper first, at equal price the higher nonce first -/
def Tx.heapLess (a b : Tx) : Bool := a.price < b.price || (a.price == b.price && a.nonce > b.nonce)

def heapMin : List Tx → Option Tx
  | [] => none
  | x :: xs =>
    match heapMin xs with
    | none => some x
    | some m => if m.heapLess x then some m else some x

/-- pop the heap: the minimum and the remaining items -/
def heapPop (l : List Tx) : Option (Tx × List Tx) :=
  match heapMin l with
  | none => none
  | some m => some (m, l.erase m)

/-- the stale-head cleanup loop of `Underpriced` -/
def dropStaleHeads : Nat → List Tx → List Tx → Int → List Tx × Int
  | 0, _, pr, st => (pr, st)
  | fuel + 1, all, pr, st =>
    match heapPop pr with
    | none => (pr, st)
    | some (m, rest) => if m ∈ all then (pr, st) else dropStaleHeads fuel all rest (st - 1)

/-- `txPricedList.Underpriced(tx, locals)` -/
def State.underpriced (s : State) (t : Tx) : State × Bool :=
  if (s.acct t.sender).isLocal then (s, false)
  else
    let (pr, st) := dropStaleHeads s.priced.length s.all s.priced s.stales
    let s' := { s with priced := pr, stales := st }
    match heapMin pr with
    | none => (s', false)
    | some c => (s', decide (c.price ≥ t.price))

/-- the pop loop of `Discard(count, locals)`: (drop, save, remaining items, stales) -/
def discardLoop (isLocal : Nat → Bool) (all : List Tx) :
    Nat → Nat → List Tx → Int → List Tx → List Tx → List Tx × List Tx × List Tx × Int
  | 0, _, pr, st, drop, save => (drop, save, pr, st)
  | fuel + 1, count, pr, st, drop, save =>
    if count = 0 then (drop, save, pr, st)
    else match heapPop pr with
      | none => (drop, save, pr, st)
      | some (m, rest) =>
        if !(m ∈ all) then discardLoop isLocal all fuel count rest (st - 1) drop save
        else if isLocal m.sender then discardLoop isLocal all fuel count rest st drop (save ++ [m])
        else discardLoop isLocal all fuel (count - 1) rest st (drop ++ [m]) save

def State.discard (s : State) (count : Nat) : State × List Tx :=
  let (drop, save, pr, st) := discardLoop (fun a => (s.acct a).isLocal) s.all s.priced.length count s.priced s.stales [] []
  ({ s with priced := save.reverse ++ pr, stales := st }, drop)

/-- the pop loop of `Cap(threshold, locals)` -/
def capLoop (isLocal : Nat → Bool) (all : List Tx) (threshold : Nat) :
    Nat → List Tx → Int → List Tx → List Tx → List Tx × List Tx × List Tx × Int
  | 0, pr, st, drop, save => (drop, save, pr, st)
  | fuel + 1, pr, st, drop, save =>
    match heapPop pr with
    | none => (drop, save, pr, st)
    | some (m, rest) =>
      if !(m ∈ all) then capLoop isLocal all threshold fuel rest (st - 1) drop save
      else if m.price ≥ threshold then (drop, save ++ [m], rest, st)
      else if isLocal m.sender then capLoop isLocal all threshold fuel rest st drop (save ++ [m])
      else capLoop isLocal all threshold fuel rest st (drop ++ [m]) save

def State.pricedCap (s : State) (threshold : Nat) : State × List Tx :=
  let (drop, save, pr, st) := capLoop (fun a => (s.acct a).isLocal) s.all threshold s.priced.length s.priced s.stales [] []
  ({ s with priced := save.reverse ++ pr, stales := st }, drop)

/-! ## enqueueTx / promoteTx / removeTx -/

inductive Err
  | known | oversized | negValue | gasLimit | sender | underpriced | nonceLow | funds | intrinsic | replace
deriving DecidableEq, Repr

def Err.str : Err → String
  | .known => "known" | .oversized => "oversized" | .negValue => "negvalue" | .gasLimit => "gaslimit"
  | .sender => "sender" | .underpriced => "underpriced" | .nonceLow => "noncelow" | .funds => "funds"
  | .intrinsic => "intrinsic" | .replace => "replace"

/-- `enqueueTx`: (state, replaced?, inserted?) -/
def State.enqueueTx (s : State) (t : Tx) : State × Bool × Bool :=
  let a := t.sender
  match (s.acct a).queue.add t s.cfg.priceBump with
  | (false, _, _) => (s, false, false)
  | (true, old, q') =>
    let s := s.upd a (fun ac => { ac with queue := q' })
    let s := match old with
      | some o => (s.allRemove o).pricedRemoved 1
      | none => s
    let s := if t ∈ s.all then s else (s.allAdd t).pricedPut t
    (s, old.isSome, true)

def State.enqueueMany (s : State) (ts : List Tx) : State := ts.foldl (fun s t => (s.enqueueTx t).1) s

/-- `promoteTx` -/
def State.promoteTx (s : State) (a : Nat) (t : Tx) : State × Bool :=
  match (s.acct a).pending.add t s.cfg.priceBump with
  | (false, _, _) => ((s.allRemove t).pricedRemoved 1, false)
  | (true, old, p') =>
    let s := s.upd a (fun ac => { ac with pending := p' })
    let s := match old with
      | some o => (s.allRemove o).pricedRemoved 1
      | none => s
    let s := if t ∈ s.all then s else (s.allAdd t).pricedPut t
    let s := { s with clock := s.clock + 1 }
    (s.upd a (fun ac => { ac with beat := s.clock, pn := some (t.nonce + 1) }), true)

/-- `txNoncer.setIfLower`: lowers the virtual nonce, but never below the state nonce of the last reset -/
def Account.setIfLower (ac : Account) (n : Nat) : Account :=
  if ac.pnGet ≤ n then { ac with pn := some ac.pnGet } else { ac with pn := some (max n ac.nonce) }

/-- `removeTx`, pending branch: the list lost `t` (kept part `p'`), the transactions above it go back to the queue -/
def State.removePending (s : State) (t : Tx) (invalids : List Tx) (p' : TxList) : State :=
  let a := t.sender
  let s := if p'.txs.isEmpty then s.upd a (fun ac => { ac with pending := {}, beat := 0 })
           else s.upd a (fun ac => { ac with pending := p' })
  let s := s.enqueueMany invalids
  s.upd a (fun ac => ac.setIfLower t.nonce)

/-- `removeTx`, queue branch -/
def State.removeQueued (s : State) (t : Tx) : State :=
  let a := t.sender
  let ac := s.acct a
  if ac.queue.txs.isEmpty then s else
  let q' := (ac.queue.remove false t).2.2
  if q'.txs.isEmpty then s.upd a (fun ac => { ac with queue := {} })
  else s.upd a (fun ac => { ac with queue := q' })

/-- the list part of `removeTx`: removal from pending is by NONCE (as `txList.Remove` does) -/
def State.removeFromLists (s : State) (t : Tx) : State :=
  let ac := s.acct t.sender
  match (if ac.pending.txs.isEmpty then (false, [], ac.pending) else ac.pending.remove true t) with
  | (true, invalids, p') => s.removePending t invalids p'
  | (false, _, _) => s.removeQueued t

/-- `removeTx(hash, outofbound)`; the hash is known only if the transaction is in `all`. -/
def State.removeTx (s : State) (t : Tx) (oob : Bool) : State :=
  if !(t ∈ s.all) then s else
  let s := s.allRemove t
  let s := if oob then s.pricedRemoved 1 else s
  s.removeFromLists t

def State.removeMany (s : State) (ts : List Tx) (oob : Bool) : State := ts.foldl (fun s t => s.removeTx t oob) s

/-! ## validateTx / add -/

def State.validateTx (s : State) (t : Tx) (isLocal : Bool) : Option Err :=
  if t.oversized then some .oversized
  else if t.negValue then some .negValue
  else if s.maxGas < t.gas then some .gasLimit
  else if t.badSig || decide (t.sender ≥ s.n) then some .sender
  else
    let ac := s.acct t.sender
    let isLocal := isLocal || ac.isLocal
    if !isLocal && decide (s.gasPrice > t.price) then some .underpriced
    else if ac.nonce > t.nonce then some .nonceLow
    else if ac.balance < t.cost then some .funds
    else if t.gas < t.intr then some .intrinsic
    else none

/-- the pool-full block of `add`: (state, new transaction refused as underpriced) -/
def State.makeRoom (s : State) (t : Tx) (isLocal : Bool) : State × Bool :=
  let limit := s.cfg.globalSlots + s.cfg.globalQueue
  if s.all.length ≥ limit then
    let r := if !isLocal then s.underpriced t else (s, false)
    if r.2 then (r.1, true) else
    let d := r.1.discard (r.1.all.length - (limit - 1))
    (d.1.removeMany d.2 false, false)
  else (s, false)

/-- `add` after validation and room making: replace a pending transaction directly, else enqueue -/
def State.addAdmitted (s : State) (t : Tx) (isLocal : Bool) : State × Except Err Bool :=
  let a := t.sender
  let ac := s.acct a
  if (getN ac.pending.txs t.nonce).isSome then
    match ac.pending.add t s.cfg.priceBump with
    | (false, _, _) => (s, .error .replace)
    | (true, old, p') =>
      let s := s.upd a (fun ac => { ac with pending := p' })
      let s := match old with
        | some o => (s.allRemove o).pricedRemoved 1
        | none => s
      (((s.allAdd t).pricedPut t), .ok old.isSome)
  else
    match s.enqueueTx t with
    | (s, _, false) => (s, .error .replace)
    | (s, replaced, true) =>
      let s := if isLocal then s.upd a (fun ac => { ac with isLocal := true }) else s
      (s, .ok replaced)

/-- `add`: result = error, or `replaced` flag -/
def State.add (s : State) (t : Tx) (isLocal : Bool) : State × Except Err Bool :=
  if t ∈ s.all then (s, .error .known) else
  match s.validateTx t isLocal with
  | some e => (s, .error e)
  | none =>
    let r := s.makeRoom t isLocal
    if r.2 then (r.1, .error .underpriced) else r.1.addAdmitted t isLocal

/-- `addTxsLocked`: (state, per-tx results, dirty accounts) -/
def State.addTxsLocked (s : State) (txs : List Tx) (isLocal : Bool) : State × List (Except Err Bool) × List Nat :=
  txs.foldl (fun (acc : State × List (Except Err Bool) × List Nat) t =>
    let (s, rs, dirty) := acc
    let (s, r) := s.add t isLocal
    let dirty := match r with
      | .ok false => if dirty.contains t.sender then dirty else dirty ++ [t.sender]
      | _ => dirty
    (s, rs ++ [r], dirty)) (s, [], [])

/-! ## promoteExecutables / demoteUnexecutables -/

def State.promoteMany (s : State) (a : Nat) (ts : List Tx) : State := ts.foldl (fun s t => (s.promoteTx a t).1) s

/-- the read-only part of `promoteExecutables` for one account: (forwards, drops, readies, remaining queue) -/
def queueScan (ac : Account) (maxGas : Nat) : List Tx × List Tx × List Tx × TxList :=
  let fw := forwardN ac.queue.txs ac.nonce
  let fl := ({ ac.queue with txs := fw.2 } : TxList).filter false ac.balance maxGas
  let rd := readyN fl.2.2.txs ac.pnGet
  (fw.1, fl.1, rd.1, { fl.2.2 with txs := rd.2 })

/-- the per-account queue limit and the closing bookkeeping of `promoteExecutables` -/
def State.capQueue (s : State) (a : Nat) (removed : Nat) : State :=
  let ac := s.acct a
  let cp := if ac.isLocal then ([], ac.queue) else ac.queue.cap s.cfg.accountQueue
  let s := s.upd a (fun ac => { ac with queue := cp.2 })
  let s := s.allRemoveMany cp.1
  let s := s.pricedRemoved (removed + cp.1.length)
  if (s.acct a).queue.txs.isEmpty then s.upd a (fun ac => { ac with queue := {} }) else s

def State.promoteAccount (s : State) (a : Nat) : State :=
  let ac := s.acct a
  if ac.queue.txs.isEmpty then s else
  let sc := queueScan ac s.maxGas
  let s := (s.allRemoveMany sc.1).allRemoveMany sc.2.1
  let s := s.upd a (fun ac => { ac with queue := sc.2.2.2 })
  let s := s.promoteMany a sc.2.2.1
  s.capQueue a (sc.1.length + sc.2.1.length)

def State.promoteExecutables (s : State) (accounts : List Nat) : State := accounts.foldl State.promoteAccount s

/-- length of the gap-free run of nonces starting at `n` (`for list.txs.Get(nonce+run) != nil { run++ }`) -/
def contigRun : Nat → List Tx → Nat → Nat
  | 0, _, _ => 0
  | fuel + 1, l, n => if (getN l n).isSome then 1 + contigRun fuel l (n + 1) else 0

/-- the read-only part of `demoteUnexecutables` for one account: (olds, drops, invalids, remaining pending) -/
def pendingScan (ac : Account) (maxGas : Nat) : List Tx × List Tx × List Tx × TxList :=
  let fw := forwardN ac.pending.txs ac.nonce
  let fl := ({ ac.pending with txs := fw.2 } : TxList).filter true ac.balance maxGas
  (fw.1, fl.1, fl.2.1, fl.2.2)

/-- the gap step of `demoteUnexecutables`: everything above the gap-free run goes back to the queue -/
def State.demoteGap (s : State) (a : Nat) (nonce : Nat) : State :=
  let p1 := (s.acct a).pending
  let run := contigRun p1.txs.length p1.txs nonce
  let cp := if run < p1.txs.length then p1.cap run else ([], p1)
  let s := s.upd a (fun ac => { ac with pending := cp.2 })
  let s := s.enqueueMany cp.1
  if cp.2.txs.isEmpty then s.upd a (fun ac => { ac with pending := {}, beat := 0 }) else s

def State.demoteAccount (s : State) (a : Nat) : State :=
  let ac := s.acct a
  if ac.pending.txs.isEmpty then s else
  let sc := pendingScan ac s.maxGas
  let s := (s.allRemoveMany sc.1).allRemoveMany sc.2.1
  let s := s.pricedRemoved (sc.1.length + sc.2.1.length)
  let s := s.upd a (fun ac => { ac with pending := sc.2.2.2 })
  let s := s.enqueueMany sc.2.2.1
  s.demoteGap a ac.nonce

def State.demoteUnexecutables (s : State) (accounts : List Nat) : State := accounts.foldl State.demoteAccount s

/-! ## truncatePending / truncateQueue -/

def State.pendingCount (s : State) : Nat := (s.accts.map (fun ac => ac.pending.txs.length)).sum
def State.queuedCount (s : State) : Nat := (s.accts.map (fun ac => ac.queue.txs.length)).sum

/-- `list.Cap(list.Len()-1)` on a pending list plus its bookkeeping -/
def State.capOne (s : State) (a : Nat) : State :=
  let ac := s.acct a
  let (caps, p') := ac.pending.cap (ac.pending.txs.length - 1)
  let s := s.upd a (fun ac => { ac with pending := p' })
  let s := s.allRemoveMany caps
  let s := caps.foldl (fun s t => s.upd a (fun ac => ac.setIfLower t.nonce)) s
  s.pricedRemoved caps.length

def State.capEach (s : State) (as : List Nat) : State := as.foldl State.capOne s

/-- insert `a` into a list ordered by descending key (stable: after equal keys) -/
def insertDesc (key : Nat → Nat) (a : Nat) : List Nat → List Nat
  | [] => [a]
  | x :: xs => if key a > key x then a :: x :: xs else x :: insertDesc key a xs

/-- equalisation loop: while pending > GlobalSlots and the previous offender is above the threshold, cap every earlier offender by one -/
def equalize : Nat → State → List Nat → Nat → Nat → Nat → State × Nat
  | 0, s, _, _, _, pending => (s, pending)
  | fuel + 1, s, prevs, chk, threshold, pending =>
    if pending > s.cfg.globalSlots ∧ (s.acct chk).pending.txs.length > threshold then
      equalize fuel (s.capEach prevs) prevs chk threshold (pending - prevs.length)
    else (s, pending)

def spamLoop : List Nat → State → List Nat → Nat → State × List Nat × Nat
  | [], s, offenders, pending => (s, offenders, pending)
  | off :: rest, s, offenders, pending =>
    if pending > s.cfg.globalSlots then
      let offenders' := offenders ++ [off]
      match offenders.getLast? with
      | none => spamLoop rest s offenders' pending
      | some chk =>
        let threshold := (s.acct off).pending.txs.length
        let (s, pending) := equalize pending s offenders chk threshold pending
        spamLoop rest s offenders' pending
    else (s, offenders, pending)

def finalLoop : Nat → State → List Nat → Nat → Nat → State × Nat
  | 0, s, _, _, pending => (s, pending)
  | fuel + 1, s, offenders, last, pending =>
    if pending > s.cfg.globalSlots ∧ (s.acct last).pending.txs.length > s.cfg.accountSlots then
      finalLoop fuel (s.capEach offenders) offenders last (pending - offenders.length)
    else (s, pending)

def State.truncatePending (s : State) (ord : List Nat) : State :=
  let pending := s.pendingCount
  if pending ≤ s.cfg.globalSlots then s else
  let len := fun a => (s.acct a).pending.txs.length
  let cand := ord.filter (fun a => !(s.acct a).isLocal && decide (len a > s.cfg.accountSlots))
  let spammers := cand.foldl (fun acc a => insertDesc len a acc) []
  let (s, offenders, pending) := spamLoop spammers s [] pending
  match offenders.getLast? with
  | none => s
  | some last => (finalLoop pending s offenders last pending).1

/-- insert into a list ordered by ascending key (stable) -/
def insertAsc (key : Nat → Nat) (a : Nat) : List Nat → List Nat
  | [] => [a]
  | x :: xs => if key a < key x then a :: x :: xs else x :: insertAsc key a xs

def queueDropLoop : List Nat → State → Nat → State
  | [], s, _ => s
  | a :: rest, s, drop =>
    if drop = 0 then s else
    let txs := (s.acct a).queue.txs
    if txs.length ≤ drop then queueDropLoop rest (s.removeMany txs true) (drop - txs.length)
    else s.removeMany ((txs.drop (txs.length - drop)).reverse) true

def State.truncateQueue (s : State) (ord : List Nat) : State :=
  let queued := s.queuedCount
  if queued ≤ s.cfg.globalQueue then s else
  let cand := ord.filter (fun a => !(s.acct a).queue.txs.isEmpty && !(s.acct a).isLocal)
  let sorted := cand.foldl (fun acc a => insertAsc (fun a => (s.acct a).beat) a acc) []
  queueDropLoop sorted.reverse s (queued - s.cfg.globalQueue)

/-! ## runReorg, reset and the operations -/

def State.refreshNonces (s : State) : State :=
  { s with accts := s.accts.map (fun ac =>
      match ac.pending.txs.getLast? with
      | some t => { ac with pn := some (t.nonce + 1) }
      | none => ac) }

/-- a permutation of `0..n-1` from an arbitrary list: its in-range entries first (first occurrence), then the rest -/
def normOrd (n : Nat) (ord : List Nat) : List Nat :=
  let o := (ord.filter (· < n)).eraseDups
  o ++ (List.range n).filter (fun a => !o.contains a)

/-- the locked part of `runReorg` without a reset -/
def State.reorgPlain (s : State) (ord : List Nat) (dirty : List Nat) : State :=
  let ord := normOrd s.n ord
  let s := s.promoteExecutables (ord.filter dirty.contains)
  let s := s.truncatePending ord
  let s := s.truncateQueue ord
  s.refreshNonces

inductive ResetKind
  | normal     -- state replaced, reinjection list = discarded \ included
  | early      -- reset returned before touching the state (missing old head, unrooted chain, StateAt error)
deriving DecidableEq, Repr

def State.resetState (s : State) (gasLimit : Nat) (changes : List (Nat × Nat × Nat)) : State :=
  let s := { s with accts := s.accts.map (fun ac => { ac with pn := none }), maxGas := gasLimit }
  changes.foldl (fun s (c : Nat × Nat × Nat) => s.upd c.1 (fun ac => { ac with nonce := c.2.1, balance := c.2.2 })) s

def State.reset (s : State) (kind : ResetKind) (gasLimit : Nat) (changes : List (Nat × Nat × Nat))
    (disc incl : List Tx) : State :=
  match kind with
  | .early => s
  | .normal =>
    let s := s.resetState gasLimit changes
    let reinject := disc.filter (fun t => !incl.contains t)
    (s.addTxsLocked reinject false).1

def State.reorgReset (s : State) (ord : List Nat) (kind : ResetKind) (gasLimit : Nat)
    (changes : List (Nat × Nat × Nat)) (disc incl : List Tx) : State :=
  let ord := normOrd s.n ord
  let s := s.reset kind gasLimit changes disc incl
  let s := s.promoteExecutables (ord.filter (fun a => !(s.acct a).queue.txs.isEmpty))
  let s := s.demoteUnexecutables ord
  let s := s.truncatePending ord
  let s := s.truncateQueue ord
  s.refreshNonces

/-- number of accounts whose heartbeat is strictly older than `a`'s -/
def State.beatRank (s : State) (a : Nat) : Nat :=
  (s.accts.filter (fun ac => decide (0 < ac.beat) && decide (ac.beat < (s.acct a).beat))).length

/-- eviction tick: the `k` oldest heartbeats (and every account without one) are older than the lifetime -/
def State.evict (s : State) (ord : List Nat) (k : Nat) : State :=
  (normOrd s.n ord).foldl (fun s a =>
    let ac := s.acct a
    if ac.queue.txs.isEmpty || ac.isLocal then s
    else if ac.beat = 0 ∨ s.beatRank a < k then s.removeMany ac.queue.txs true else s) s

def State.setGasPrice (s : State) (p : Nat) : State :=
  let s := { s with gasPrice := p }
  let (s, drop) := s.pricedCap p
  s.removeMany drop false

inductive Op
  | add (isLocal : Bool) (ord : List Nat) (txs : List Tx)
  | reset (ord : List Nat) (kind : ResetKind) (gasLimit : Nat) (changes : List (Nat × Nat × Nat)) (disc incl : List Tx)
  | setPrice (p : Nat)
  | remove (t : Tx) (oob : Bool)
  | evict (ord : List Nat) (k : Nat)
  | promote (ord : List Nat)
deriving Repr

def step (s : State) : Op → State × List (Except Err Bool)
  | .add isLocal ord txs =>
    let (s, rs, dirty) := s.addTxsLocked txs isLocal
    (s.reorgPlain ord dirty, rs)
  | .reset ord kind gasLimit changes disc incl => (s.reorgReset ord kind gasLimit changes disc incl, [])
  | .setPrice p => (s.setGasPrice p, [])
  | .remove t oob => (s.removeTx t oob, [])
  | .evict ord k => (s.evict ord k, [])
  | .promote ord => (s.reorgPlain ord [], [])

/-- `NewTxPool` on a chain state: empty indexes, price limit as the gas price -/
def init (cfg : Config) (priceLimit gasLimit : Nat) (accts : List (Nat × Nat)) : State :=
  { cfg := cfg, accts := accts.map (fun p => { nonce := p.1, balance := p.2 }), gasPrice := priceLimit, maxGas := gasLimit }

def run (s : State) (ops : List Op) : State := ops.foldl (fun s op => (step s op).1) s

end YouVerif.C20
