import YouVerif.C20.Model
namespace YouVerif.C20.Props
open YouVerif.C20

/-- `validateTx` never admits a transaction the chain state cannot pay for or the block cannot hold. -/
theorem validate_ok_affordable (s : State) (t : Tx) (l : Bool) (h : s.validateTx t l = none) :
    t.cost ≤ (s.acct t.sender).balance ∧ t.gas ≤ s.maxGas ∧ (s.acct t.sender).nonce ≤ t.nonce ∧ t.sender < s.n := by
  unfold State.validateTx at h
  repeat (split at h; · simp at h)
  simp_all
  repeat (split at h; · simp at h)
  omega

end YouVerif.C20.Props
