/-
C20 — property theorems about the pool model (`Model.lean`, the model of the REPAIRED code: fixes 971bb1a, 5bc8097).

Status (see props/C20.json):
* `pool_invariant` / `pool_invariant_reachable`: EVERY well-formed operation preserves the whole invariant `Inv`
  (per-account shape + virtual nonce, uint64 bound on state nonces, `all` = pending ∪ queued without duplicates,
  priced ⊇ all), a fresh pool satisfies it, hence every reachable state does (induction over operation lists);
* `caps_after_reorg`: the limits in the form the code enforces them after add / reset / promote;
* the flat queue limits are NOT claimed: `flat_account_queue_limit_refuted` (known finding F-C20a);
* the list-level and function-level theorems of the earlier rounds and the refutations of the pre-fix code.
-/
import YouVerif.C20.Proofs
import YouVerif.C20.ProofsWState
import YouVerif.C20.ProofsS
import YouVerif.C20.ProofsP4
import YouVerif.C20.ProofsC
namespace YouVerif.C20.Props
open YouVerif.C20

/-! ## the invariant -/

/-- The pool invariant: per-account clauses (`AllI` = `AcctJ` for every account + virtual-nonce clause), the uint64
bound on state nonces (an assumption about the chain state the pool reads, kept by every well-formed reset) and the
global index clauses. -/
structure Inv (s : State) : Prop where
  accounts : AllI s
  /-- state nonces fit a uint64 (`StateDB.GetNonce`); the strict `Filter` starts its minimum search at `MaxUint64` -/
  nonceBound : NB s
  allNodup : s.all.Nodup
  /-- `all` is exactly the union of pending and queued -/
  allUnion : ∀ t, t ∈ s.all ↔ (t ∈ (s.acct t.sender).pending.txs ∨ t ∈ (s.acct t.sender).queue.txs)
  /-- every pooled transaction has a (live) entry in the priced heap -/
  pricedCovers : ∀ t ∈ s.all, t ∈ s.priced

/-- the limits in the form the code enforces them, after an operation that ends with a reorg run: the global pending
limit holds or every non-local account is within `AccountSlots`; the global queue limit holds or every non-local
queue is empty.  (The FLAT per-account / global queue limits are false of the code between reorg runs: known finding
F-C20a, `flat_account_queue_limit_refuted` below.) -/
def CapsAfterReorg (s : State) : Prop :=
  (s.pendingCount ≤ s.cfg.globalSlots ∨ ∀ a, (s.acct a).isLocal = false → (s.acct a).pending.txs.length ≤ s.cfg.accountSlots) ∧
  (s.queuedCount ≤ s.cfg.globalQueue ∨ ∀ a, (s.acct a).isLocal = false → (s.acct a).queue.txs = [])

/-- A freshly created pool (over a chain state whose nonces fit a uint64) satisfies the invariant. -/
theorem init_invariant (cfg : Config) (pl gl : Nat) (accts : List (Nat × Nat)) (hacc : ∀ p ∈ accts, p.1 ≤ 2 ^ 64 - 1) :
    Inv (init cfg pl gl accts) := by
  refine ⟨allI_init cfg pl gl accts, nb_init cfg pl gl accts hacc, by simp [init], ?_, by simp [init]⟩
  intro t
  have h1 := ((allI_init cfg pl gl accts).1 t.sender)
  have hac : ((init cfg pl gl accts).acct t.sender).pending.txs = [] ∧ ((init cfg pl gl accts).acct t.sender).queue.txs = [] := by
    simp only [State.acct, init, List.getD_eq_getElem?_getD, List.getElem?_map]
    cases accts[t.sender]? <;> simp
  rw [hac.1, hac.2]
  simp [init]

/-! ## the per-account clauses (shape, affordability, virtual nonce), for every operation and every reachable state -/

/-- CLAUSES (all ops): every well-formed operation — add local/remote incl. replacement and underpriced eviction,
reset with reinjection, promotion run, `removeTx`, `SetGasPrice`, lifetime eviction, with the truncation steps and
the nonce refresh that close a reorg run — preserves, for EVERY account: pending gap-free from the state nonce, payable
and within the block gas limit, every queued transaction strictly above the pending run, virtual nonce = state nonce +
number of pending (with the structural clauses of `AcctJ`), and the uint64 bound on state nonces. -/
theorem accounts_invariant (s : State) (op : Op) (hwf : op.WF) (h : AllI s) (hnb : NB s) :
    AllI (step s op).1 ∧ NB (step s op).1 := h.step hnb op hwf

/-- ... hence they hold in every state reachable from a fresh pool by any sequence of well-formed operations. -/
theorem accounts_reachable (cfg : Config) (pl gl : Nat) (accts : List (Nat × Nat)) (ops : List Op)
    (hacc : ∀ p ∈ accts, p.1 ≤ 2 ^ 64 - 1) (hops : ∀ op ∈ ops, op.WF) :
    AllI (run (init cfg pl gl accts) ops) ∧ NB (run (init cfg pl gl accts) ops) :=
  run_induction (fun s => AllI s ∧ NB s) (fun s op hwf h => accounts_invariant s op hwf h.1 h.2) ops hops _
    ⟨allI_init cfg pl gl accts, nb_init cfg pl gl accts hacc⟩

/-- The property's per-account clauses, spelled out for every reachable state: the pending nonces of an account are
exactly `nonce, nonce+1, …`; every pending transaction is payable from the balance and fits the block gas limit; every
queued transaction lies strictly above every pending one and not below the state nonce; the nonce the pool reports
(`Nonce(addr)`) is the state nonce plus the number of pending transactions. -/
theorem reachable_account_shape (cfg : Config) (pl gl : Nat) (accts : List (Nat × Nat)) (ops : List Op)
    (hacc : ∀ p ∈ accts, p.1 ≤ 2 ^ 64 - 1) (hops : ∀ op ∈ ops, op.WF) (a : Nat) :
    let s := run (init cfg pl gl accts) ops
    (s.acct a).pending.txs.map (·.nonce) = List.range' (s.acct a).nonce (s.acct a).pending.txs.length ∧
    (∀ t ∈ (s.acct a).pending.txs, t.cost ≤ (s.acct a).balance ∧ t.gas ≤ s.maxGas) ∧
    (∀ q ∈ (s.acct a).queue.txs, (s.acct a).nonce + (s.acct a).pending.txs.length ≤ q.nonce) ∧
    (∀ p ∈ (s.acct a).pending.txs, ∀ q ∈ (s.acct a).queue.txs, p.nonce < q.nonce) ∧
    (s.acct a).pnGet = (s.acct a).nonce + (s.acct a).pending.txs.length := by
  intro s
  have h := accounts_reachable cfg pl gl accts ops hacc hops
  have hA := h.1.1 a
  refine ⟨hA.pChain.length_eq, hA.pAfford, hA.qAbove, fun p hp q hq => ?_, h.1.2 a⟩
  have := hA.pChain.bounds p hp
  have := hA.qAbove q hq
  omega

/-- CLAUSE (c): no operation changes the length of the account table (so the account lists a reorg run walks,
computed before the reset, cover every account afterwards). -/
theorem table_length_invariant (s : State) (op : Op) (h : AllW s) : (step s op).1.n = s.n := step_n h op

/-! ## the whole invariant -/

/-- THE PROPERTY'S INVARIANT, all operations: every well-formed operation preserves `Inv` — for every account pending is
gap-free from the state nonce, payable, within the block gas limit, queued transactions lie strictly above, the virtual
nonce is state nonce + number of pending; `all` has no duplicates and is exactly the union of pending and queued (so,
with `never_pending_and_queued`, every pooled transaction is in exactly one of the two); every pooled transaction has
a live entry in the priced heap. -/
theorem pool_invariant (s : State) (op : Op) (hwf : op.WF) (h : Inv s) : Inv (step s op).1 := by
  have ha := accounts_invariant s op hwf h.accounts h.nonceBound
  have hg := GI.step h.accounts.1.allW ⟨h.allNodup, h.allUnion, h.pricedCovers⟩ op
  exact ⟨ha.1, ha.2, hg.allNodup, hg.allUnion, hg.pricedCovers⟩

/-- ... hence `Inv` holds in every state reachable from a fresh pool by any sequence of well-formed operations. -/
theorem pool_invariant_reachable (cfg : Config) (pl gl : Nat) (accts : List (Nat × Nat)) (ops : List Op)
    (hacc : ∀ p ∈ accts, p.1 ≤ 2 ^ 64 - 1) (hops : ∀ op ∈ ops, op.WF) : Inv (run (init cfg pl gl accts) ops) :=
  run_induction Inv (fun s op hwf h => pool_invariant s op hwf h) ops hops _ (init_invariant cfg pl gl accts hacc)

/-- the global index clauses alone need only the structural invariant (no well-formedness side condition) -/
theorem index_invariant (s : State) (op : Op) (hw : AllW s) (hg : GI s) : GI (step s op).1 := GI.step hw hg op

/-! ## limits -/

/-- LIMITS, in the form the code enforces them: after every operation that ends with a reorg run (add, reset,
promote) the global pending limit holds or every non-local account is within `AccountSlots`, and the global queue
limit holds or every non-local queue is empty.  Needs only the structural invariant and the index clauses. -/
theorem caps_after_reorg (s : State) (op : Op) (h : Inv s)
    (hop : match op with | .add .. | .reset .. | .promote .. => True | _ => False) : CapsAfterReorg (step s op).1 := by
  have := caps_step h.accounts.1.allW ⟨h.allNodup, h.allUnion, h.pricedCovers⟩ op hop
  exact ⟨this.1, this.2⟩

def cxCfg : Config := { accountSlots := 4, globalSlots := 16, accountQueue := 1, globalQueue := 16, priceBump := 10 }
def cxTx (n : Nat) : Tx := { id := n, sender := 0, nonce := n, price := 1, gas := 1, value := 0, intr := 0, flags := 0 }

/-- KNOWN FINDING F-C20a stays an explicit exclusion: the FLAT per-account queue limit is false of the code.  Three
remote transactions 0,1,2 of one account are promoted; removing nonce 0 hands 1 and 2 back to the queue, which then
holds 2 > AccountQueue = 1 transactions of a non-local account (until that account's next promotion run).  The witness
is a reachable state of well-formed operations, so the limit clause cannot be part of `Inv`. -/
theorem flat_account_queue_limit_refuted :
    ∃ (cfg : Config) (pl gl : Nat) (accts : List (Nat × Nat)) (ops : List Op) (a : Nat),
      (∀ p ∈ accts, p.1 ≤ 2 ^ 64 - 1) ∧ (∀ op ∈ ops, op.WF) ∧
      ((run (init cfg pl gl accts) ops).acct a).isLocal = false ∧
      ((run (init cfg pl gl accts) ops).acct a).queue.txs.length > (run (init cfg pl gl accts) ops).cfg.accountQueue := by
  refine ⟨cxCfg, 1, 100000, [(0, 1000)], [.add false [] [cxTx 0, cxTx 1, cxTx 2], .remove (cxTx 0) false], 0, ?_, ?_, ?_⟩
  · intro p hp; simp at hp; subst hp; simp
  · intro op hop
    simp at hop
    rcases hop with rfl | rfl <;> simp [Op.WF]
  · decide

def nbTx (n c : Nat) : Tx := { id := n, sender := 0, nonce := n, price := 1, gas := 1, value := c, intr := 0, flags := 0 }

/-- The uint64 side condition (`hacc`, `Op.WF`) is not gratuitous — it is where the model (unbounded `Nat`) and the
code (`uint64`) part: with a state nonce of 2^64 the strict `Filter`'s minimum search (which starts at `MaxUint64`)
hands the payable transaction AT the state nonce back to the queue after it was promoted in the same run, and the
virtual nonce stays one too high.  Unreachable in Go, where nonces are `uint64`. -/
theorem uint64_nonce_bound_needed :
    ∃ (cfg : Config) (pl gl : Nat) (accts : List (Nat × Nat)) (ops : List Op), ¬ AllI (run (init cfg pl gl accts) ops) := by
  refine ⟨cxCfg, 1, 100000, [(2 ^ 64 + 1, 100)],
    [.add false [] [nbTx (2 ^ 64 + 1) 50], .reset [] .normal 100000 [(0, 2 ^ 64, 10)] [nbTx (2 ^ 64) 1] []], fun h => ?_⟩
  exact absurd (h.2 0) (by unfold PN; decide)

/-- non-vacuity: the hypotheses of `caps_after_reorg` / `pool_invariant` hold for a fresh pool and an add operation -/
example : Inv (init cxCfg 1 100000 [(0, 1000)]) ∧ (Op.add false [] [cxTx 0, cxTx 1, cxTx 2]).WF :=
  ⟨init_invariant _ _ _ _ (by intro p hp; simp at hp; subst hp; simp), by simp [Op.WF]⟩

/-- non-vacuity of `Op.WF`: a reset that installs nonce 5 for account 0 is well-formed -/
example : (Op.reset [] .normal 100000 [(0, 5, 1000)] [] []).WF := by simp [Op.WF]

/-! ## the structural clauses, for every operation and every reachable state -/

/-- CLAUSE (all ops): every operation preserves the structural per-account invariant `AcctW` of every account:
lists hold only the account's own transactions, nonces strictly increase in pending and in the queue, no nonce is
both pending and queued, the cost/gas caches bound the lists, accounts with pending transactions have a heartbeat. -/
theorem structure_invariant (s : State) (op : Op) (h : AllW s) : AllW (step s op).1 := h.step op

/-- ... hence it holds in every state reachable from a fresh pool by any operation sequence. -/
theorem structure_reachable (cfg : Config) (pl gl : Nat) (accts : List (Nat × Nat)) (ops : List Op) :
    AllW (run (init cfg pl gl accts) ops) := by
  unfold run
  exact foldl_preserves AllW _ (fun s op hs => hs.step op) ops _ (allW_init cfg pl gl accts)

/-- CLAUSE "pending or queued but not both", over all accounts, in every state satisfying the structural invariant
(so, by `structure_reachable`, in every reachable state). -/
theorem never_pending_and_queued (s : State) (h : AllW s) (a b : Nat) (t : Tx)
    (hp : t ∈ (s.acct a).pending.txs) : t ∉ (s.acct b).queue.txs := by
  intro hq
  have ha := (h a).pSender t hp
  have hb := (h b).qSender t hq
  subst ha
  subst hb
  exact (h t.sender).disj t hp t hq rfl

/-- a transaction sits at most once in a list (strictly increasing nonces) -/
theorem lists_have_unique_nonces (s : State) (h : AllW s) (a : Nat) :
    Sorted (s.acct a).pending.txs ∧ Sorted (s.acct a).queue.txs := ⟨(h a).pSorted, (h a).qSorted⟩

/-- every pooled transaction is in EXACTLY one of pending / queued of its sender, in every state satisfying `Inv` -/
theorem pooled_exactly_once (s : State) (h : Inv s) (t : Tx) (ht : t ∈ s.all) :
    (t ∈ (s.acct t.sender).pending.txs ∧ t ∉ (s.acct t.sender).queue.txs) ∨
    (t ∉ (s.acct t.sender).pending.txs ∧ t ∈ (s.acct t.sender).queue.txs) := by
  rcases (h.allUnion t).mp ht with hp | hq
  · exact .inl ⟨hp, never_pending_and_queued s h.accounts.1.allW _ _ t hp⟩
  · exact .inr ⟨fun hp => never_pending_and_queued s h.accounts.1.allW _ _ t hp hq, hq⟩

/-! ## what every reset re-establishes (the path repaired by 971bb1a) -/

/-- `demoteUnexecutables` run over all accounts (as `runReorg` does after every reset) leaves EVERY account in
shape — pending gap-free from the state nonce, payable and within the block gas limit, every queued transaction above
the pending run — starting from ANY state that satisfies the structural invariant (which every reachable state does,
`structure_reachable`) and whose queues were forwarded to the state nonces (`Q1`, the effect of the promotion run that
precedes it: discharged in `reset_reorg_run_establishes_shape`). Whatever the reorg, the reinjection and the promotion left in
the lists, no gap and no unpayable transaction survives in pending. -/
theorem demote_establishes_shape (s : State) (h : AllW s) (hQ : ∀ b, Q1 (s.acct b)) (ord : List Nat) (b : Nat) :
    Shape ((s.demoteUnexecutables (normOrd s.n ord)).acct b) (s.demoteUnexecutables (normOrd s.n ord)).maxGas :=
  demote_all_shape h hQ ord b

/-- The reorg run that follows every reset — promotion over every account with a queue, then demotion over every
account (`runReorg` uses exactly such lists) — leaves EVERY account in shape, from the structural invariant ALONE
(no hypothesis about what the reset, the reinjection or earlier operations left in the lists): pending gap-free from
the state nonce, payable, within the block gas limit, every queued transaction above it. -/
theorem reset_reorg_run_establishes_shape (s : State) (h : AllW s) (L1 L2 : List Nat)
    (h1 : ∀ b, (s.acct b).queue.txs ≠ [] → b ∈ L1) (h2 : ∀ b, b < s.n → b ∈ L2) (b : Nat) :
    Shape (((s.promoteExecutables L1).demoteUnexecutables L2).acct b)
      ((s.promoteExecutables L1).demoteUnexecutables L2).maxGas :=
  promote_then_demote_shape h L1 L2 h1 h2 b

/-- non-vacuity: the defect witness (state nonce lowered to 0, pending = [0, 2]) satisfies the hypotheses, and the
repaired run leaves pending = [0], queue = [2]. -/
example :
    let s : State := { (init { accountSlots := 4, globalSlots := 16, accountQueue := 4, globalQueue := 16, priceBump := 10 } 1 100000 [(0, 1000)]) with
      accts := [{ nonce := 0, balance := 1000, beat := 1, pending := { txs := [
        { id := 2, sender := 0, nonce := 0, price := 1, gas := 1, value := 0, intr := 0, flags := 0 },
        { id := 1, sender := 0, nonce := 2, price := 1, gas := 1, value := 0, intr := 0, flags := 0 }], costcap := 1, gascap := 1 } }] }
    (((s.demoteUnexecutables (normOrd s.n [])).acct 0).pending.txs.map (·.id),
     ((s.demoteUnexecutables (normOrd s.n [])).acct 0).queue.txs.map (·.id)) = ([2], [1]) := by decide

/-! ## admission -/

/-- `validateTx` admits only transactions the chain state can pay for, that fit the block, are not below the
state nonce and come from a known account. -/
theorem validate_ok_affordable (s : State) (t : Tx) (l : Bool) (h : s.validateTx t l = none) :
    t.cost ≤ (s.acct t.sender).balance ∧ t.gas ≤ s.maxGas ∧ (s.acct t.sender).nonce ≤ t.nonce ∧ t.sender < s.n := by
  unfold State.validateTx at h
  repeat (split at h; · simp at h)
  simp_all
  repeat (split at h; · simp at h)
  omega

/-- An admitted transaction that does not overlap a pending nonce lies above the whole pending run. -/
theorem admitted_lies_above_pending (s : State) (t : Tx) (l : Bool) (hI : AllJ s) (h : s.validateTx t l = none)
    (hno : getN (s.acct t.sender).pending.txs t.nonce = none) :
    (s.acct t.sender).nonce + (s.acct t.sender).pending.txs.length ≤ t.nonce :=
  chain_free_slot (hI t.sender).pChain (validate_ok_affordable s t l h).2.2.1 (getN_none hno)

/-- `enqueueTx` under its guard preserves the per-account invariant (any caller: add, demotion). -/
theorem enqueue_preserves (s : State) (t : Tx) (hI : AllJ s)
    (hpre : (s.acct t.sender).nonce + (s.acct t.sender).pending.txs.length ≤ t.nonce) : AllJ (s.enqueueTx t).1 :=
  (enqueueTx_spec hI t hpre).1

/-! ## what the invariant gives -/

/-- no transaction is both pending and queued -/
theorem pending_queue_disjoint (ac : Account) (a mg : Nat) (h : AcctJ ac a mg) : ∀ t ∈ ac.pending.txs, t ∉ ac.queue.txs := by
  intro t hp hq
  have := h.pChain.bounds t hp
  have := h.qAbove t hq
  omega

/-- pending nonces are exactly `nonce, nonce+1, …` -/
theorem pending_gap_free (ac : Account) (a mg : Nat) (h : AcctJ ac a mg) :
    ac.pending.txs.map (·.nonce) = List.range' ac.nonce ac.pending.txs.length := h.pChain.length_eq

/-- queued transactions lie strictly above every pending one -/
theorem queued_above_pending (ac : Account) (a mg : Nat) (h : AcctJ ac a mg) :
    ∀ p ∈ ac.pending.txs, ∀ q ∈ ac.queue.txs, p.nonce < q.nonce := by
  intro p hp q hq
  have := h.pChain.bounds p hp
  have := h.qAbove q hq
  omega

/-! ## list operations keep the pending run gap-free -/

/-- `promoteTx`: putting the next nonce (or overwriting inside the run) keeps pending gap-free -/
theorem promote_keeps_gap_free (l : TxList) (n : Nat) (t : Tx) (h : Chain n l.txs)
    (ht : n ≤ t.nonce ∧ t.nonce ≤ n + l.txs.length) : Chain n (l.put t).txs := (h.insertN t ht).1

/-- `removeTx` on a pending transaction: the strict `Remove` keeps a gap-free prefix (everything above is handed back) -/
theorem strict_remove_keeps_gap_free (l : TxList) (n : Nat) (t : Tx) (h : Chain n l.txs) :
    Chain n (l.remove true t).2.2.txs := by
  unfold TxList.remove
  split
  · exact h
  · simp only [if_true]
    rw [strict_remove_kept]
    exact h.filter_lt _

/-- `Forward`: dropping everything below a higher state nonce leaves a run from that nonce -/
theorem forward_keeps_gap_free (l : List Tx) (n m : Nat) (h : Chain n l) (hm : n ≤ m) : Chain m (forwardN l m).2 :=
  h.filter_ge m hm

/-- `Cap` (fair truncation of pending) keeps a gap-free prefix -/
theorem cap_keeps_gap_free (l : TxList) (n k : Nat) (h : Chain n l.txs) : Chain n (l.cap k).2.txs := by
  unfold TxList.cap
  split
  · exact h
  · exact h.take k

/-! ## demotion after a reset (repaired by 971bb1a) -/

/-- What `demoteUnexecutables` keeps pending after its gap step is gap-free from the state nonce, whatever a reorg
left in the list. -/
theorem demote_leaves_gap_free (l : List Tx) (n : Nat) (hs : Sorted l) (hge : ∀ t ∈ l, n ≤ t.nonce) :
    Chain n (l.take (contigRun l.length l n)) := demote_gap_step hs hge

/-- the rule before the repair: postpone everything only when the FIRST nonce is missing -/
def oldGapStep (l : List Tx) (n : Nat) : List Tx := if !l.isEmpty && (getN l n).isNone then [] else l

/-- The property was false of the code before 971bb1a: a sorted list starting at the state nonce with a hole
(nonces 0 and 2) stayed pending as it was. -/
theorem old_front_gap_check_counterexample :
    ∃ (l : List Tx) (n : Nat), Sorted l ∧ (∀ t ∈ l, n ≤ t.nonce) ∧ ¬ Chain n (oldGapStep l n) := by
  refine ⟨[{ (default : Tx) with nonce := 0 }, { (default : Tx) with nonce := 2 }], 0, ?_, ?_, ?_⟩
  · simp [Sorted]
  · simp
  · intro h
    have h1 : oldGapStep [{ (default : Tx) with nonce := 0 }, { (default : Tx) with nonce := 2 }] 0 =
        [{ (default : Tx) with nonce := 0 }, { (default : Tx) with nonce := 2 }] := by decide
    rw [h1] at h
    cases h with
    | cons _ h2 => cases h2 with
      | cons h3 _ => simp at h3

/-- the strict `Filter` keeps only payable transactions that fit the block, short cut included -/
theorem filter_keeps_affordable (l : TxList) (strict : Bool) (costLimit gasLimit : Nat)
    (hcaps : ∀ t ∈ l.txs, t.cost ≤ l.costcap ∧ t.gas ≤ l.gascap) :
    ∀ t ∈ (l.filter strict costLimit gasLimit).2.2.txs, t.cost ≤ costLimit ∧ t.gas ≤ gasLimit :=
  filter_kept_affordable l strict costLimit gasLimit hcaps

/-! ## virtual nonce (repaired by 5bc8097) -/

theorem virtual_nonce_not_below_state_nonce (ac : Account) (n : Nat) (h : ac.nonce ≤ ac.pnGet) :
    ac.nonce ≤ (ac.setIfLower n).pnGet := (setIfLower_ge ac n h).1

/-- `setIfLower` before the repair -/
def oldSetIfLower (ac : Account) (n : Nat) : Account :=
  if ac.pnGet ≤ n then { ac with pn := some ac.pnGet } else { ac with pn := some n }

theorem old_setIfLower_counterexample :
    ∃ (ac : Account) (n : Nat), ac.nonce ≤ ac.pnGet ∧ ¬ ac.nonce ≤ (oldSetIfLower ac n).pnGet :=
  ⟨{ nonce := 1 }, 0, by decide, by decide⟩

/-! ## non-vacuity -/

/-- a concrete account with two pending and one queued transaction satisfies the per-account invariant -/
def exTx (n : Nat) : Tx := { id := n, sender := 7, nonce := n, price := 0, gas := 0, value := 0, intr := 0, flags := 0 }

example : AcctJ { nonce := 3, balance := 100, beat := 1, pending := { txs := [exTx 3, exTx 4] }, queue := { txs := [exTx 6] } } 7 0 := by
  constructor <;> simp [Sorted, Tx.cost, exTx]
  · exact .cons rfl (.cons rfl (.nil _))

/-- the hypotheses of `demote_leaves_gap_free` hold for the counterexample list, and the repaired step cuts it to [0] -/
example : (([{ (default : Tx) with nonce := 0 }, { (default : Tx) with nonce := 2 }] : List Tx).take
    (contigRun 2 [{ (default : Tx) with nonce := 0 }, { (default : Tx) with nonce := 2 }] 0)).length = 1 := by decide

end YouVerif.C20.Props
