/-
C20 proofs, layer 8: `truncatePending` keeps the mid-run invariant `AllM`, the closing nonce refresh turns `AllM`
into the full per-account invariant `AllI`; the table-length / state-nonce frame `NFrame` of the reorg steps.
-/
import YouVerif.C20.ProofsP
namespace YouVerif.C20

/-! ### folds of single-account updates -/

theorem acct_foldl_upd {α : Type} (l : List α) (s : State) (a : Nat) (g : α → Account → Account) (b : Nat) :
    ((l.foldl (fun s x => s.upd a (g x)) s).acct b) =
      if a = b ∧ a < s.n then l.foldl (fun ac x => g x ac) (s.acct b) else s.acct b := by
  induction l generalizing s with
  | nil => simp
  | cons x xs ih =>
    simp only [List.foldl_cons]
    rw [ih, n_upd, acct_upd]
    split <;> simp_all

theorem n_foldl_upd {α : Type} (l : List α) (s : State) (a : Nat) (g : α → Account → Account) :
    (l.foldl (fun s x => s.upd a (g x)) s).n = s.n := by
  induction l generalizing s with
  | nil => rfl
  | cons x xs ih => simp only [List.foldl_cons]; rw [ih, n_upd]

theorem maxGas_foldl_upd {α : Type} (l : List α) (s : State) (a : Nat) (g : α → Account → Account) :
    (l.foldl (fun s x => s.upd a (g x)) s).maxGas = s.maxGas ∧ (l.foldl (fun s x => s.upd a (g x)) s).cfg = s.cfg := by
  induction l generalizing s with
  | nil => exact ⟨rfl, rfl⟩
  | cons x xs ih => simp only [List.foldl_cons]; rw [(ih _).1, (ih _).2]; exact ⟨rfl, rfl⟩

theorem setIfLower_pn (ac : Account) (n : Nat) (h : ac.nonce ≤ ac.pnGet) (hh : ac.pnGet = ac.nonce ∨ n ≤ ac.nonce) :
    (ac.setIfLower n).pnGet = ac.nonce := by
  unfold Account.setIfLower
  split
  · rename_i hc
    simp only [Account.pnGet, Option.getD_some] at *
    omega
  · rename_i hc
    simp only [Account.pnGet, Option.getD_some] at *
    omega

theorem foldl_setIfLower_fields (caps : List Tx) (ac : Account) :
    (caps.foldl (fun ac t => ac.setIfLower t.nonce) ac).pending = ac.pending ∧
    (caps.foldl (fun ac t => ac.setIfLower t.nonce) ac).queue = ac.queue ∧
    (caps.foldl (fun ac t => ac.setIfLower t.nonce) ac).beat = ac.beat ∧
    (caps.foldl (fun ac t => ac.setIfLower t.nonce) ac).nonce = ac.nonce ∧
    (caps.foldl (fun ac t => ac.setIfLower t.nonce) ac).balance = ac.balance ∧
    (caps.foldl (fun ac t => ac.setIfLower t.nonce) ac).isLocal = ac.isLocal := by
  induction caps generalizing ac with
  | nil => exact ⟨rfl, rfl, rfl, rfl, rfl, rfl⟩
  | cons c cs ih =>
    simp only [List.foldl_cons]
    have f := setIfLower_fields ac c.nonce
    have g := ih (ac.setIfLower c.nonce)
    exact ⟨g.1.trans f.1, g.2.1.trans f.2.1, g.2.2.1.trans f.2.2.1, g.2.2.2.1.trans f.2.2.2.1,
      g.2.2.2.2.1.trans f.2.2.2.2.1, g.2.2.2.2.2.trans f.2.2.2.2.2⟩

theorem foldl_setIfLower_pn (caps : List Tx) (ac : Account) (h : ac.nonce ≤ ac.pnGet) :
    ac.nonce ≤ (caps.foldl (fun ac t => ac.setIfLower t.nonce) ac).pnGet ∧
    ((ac.pnGet = ac.nonce ∨ ∃ c ∈ caps, c.nonce ≤ ac.nonce) →
      (caps.foldl (fun ac t => ac.setIfLower t.nonce) ac).pnGet = ac.nonce) := by
  induction caps generalizing ac with
  | nil =>
    refine ⟨h, fun hh => ?_⟩
    rcases hh with hh | ⟨c, hc, _⟩
    · exact hh
    · simp at hc
  | cons c cs ih =>
    simp only [List.foldl_cons]
    have g1 := setIfLower_ge ac c.nonce h
    have g := ih (ac.setIfLower c.nonce) (by rw [g1.2]; exact g1.1)
    rw [g1.2] at g
    refine ⟨g.1, fun hh => g.2 ?_⟩
    rcases hh with hh | ⟨x, hx, hxn⟩
    · exact .inl (setIfLower_pn ac c.nonce h (.inl hh))
    · simp only [List.mem_cons] at hx
      rcases hx with rfl | hx
      · exact .inl (setIfLower_pn ac x.nonce h (.inr hxn))
      · exact .inr ⟨x, hx, hxn⟩

/-! ### capOne -/

theorem capOne_acct (s : State) (a b : Nat) :
    (s.capOne a).acct b =
      (if a = b ∧ a < s.n then
        ((s.acct a).pending.cap ((s.acct a).pending.txs.length - 1)).1.foldl (fun ac t => ac.setIfLower t.nonce)
          { s.acct b with pending := ((s.acct a).pending.cap ((s.acct a).pending.txs.length - 1)).2 }
      else s.acct b) ∧ (s.capOne a).maxGas = s.maxGas ∧ (s.capOne a).n = s.n ∧ (s.capOne a).cfg = s.cfg := by
  unfold State.capOne
  simp only
  have sp := same_pricedRemoved
    (List.foldl (fun s t => s.upd a fun ac => ac.setIfLower t.nonce)
      ((s.upd a fun ac => { ac with pending := ((s.acct a).pending.cap ((s.acct a).pending.txs.length - 1)).2 }).allRemoveMany
        ((s.acct a).pending.cap ((s.acct a).pending.txs.length - 1)).1)
      ((s.acct a).pending.cap ((s.acct a).pending.txs.length - 1)).1)
    ((s.acct a).pending.cap ((s.acct a).pending.txs.length - 1)).1.length
  have sa := same_allRemoveMany
    (s.upd a fun ac => { ac with pending := ((s.acct a).pending.cap ((s.acct a).pending.txs.length - 1)).2 })
    ((s.acct a).pending.cap ((s.acct a).pending.txs.length - 1)).1
  refine ⟨?_, ?_, ?_, ?_⟩
  · rw [sp.acct b, acct_foldl_upd, sa.acct b, sa.n, n_upd, acct_upd]
    split <;> rfl
  · rw [sp.2.1, (maxGas_foldl_upd _ _ _ _).1]; exact sa.2.1
  · rw [sp.n, n_foldl_upd, sa.n, n_upd]
  · rw [sp.2.2, (maxGas_foldl_upd _ _ _ _).2]; exact sa.2.2

theorem AllM.capOne {s : State} (h : AllM s) (a : Nat) : AllM (s.capOne a) := by
  have hA := h.1 a
  have hPw := h.2 a
  have cs := cap_spec (s.acct a).pending ((s.acct a).pending.txs.length - 1) hA.pChain.sorted
  have hfa := foldl_setIfLower_fields ((s.acct a).pending.cap ((s.acct a).pending.txs.length - 1)).1
    { s.acct a with pending := ((s.acct a).pending.cap ((s.acct a).pending.txs.length - 1)).2 }
  have hpn := foldl_setIfLower_pn ((s.acct a).pending.cap ((s.acct a).pending.txs.length - 1)).1
    { s.acct a with pending := ((s.acct a).pending.cap ((s.acct a).pending.txs.length - 1)).2 } hPw.1
  refine ⟨fun b => ?_, fun b => ?_⟩
  · rw [(capOne_acct s a b).2.1, (capOne_acct s a b).1]
    split
    · rename_i hab; obtain ⟨rfl, _⟩ := hab
      refine hA.setPending _ cs.1 ?_ ?_ (fun x hx => ?_) hfa.1 hfa.2.1 (fun hne => ?_) hfa.2.2.2.1 hfa.2.2.2.2.1
      · rw [take_cap]; exact hA.pChain.take _
      · rw [take_cap]; simp only [List.length_take]; omega
      · rw [cs.2.2.2.1, cs.2.2.2.2.1]; exact hA.pCaps x (cs.1 x hx)
      · rw [hfa.2.2.1]
        obtain ⟨x, hx⟩ := List.exists_mem_of_ne_nil _ hne
        exact hA.beat (List.ne_nil_of_mem (cs.1 x hx))
    · exact h.1 b
  · rw [(capOne_acct s a b).1]
    split
    · rename_i hab; obtain ⟨rfl, _⟩ := hab
      unfold PNw
      rw [hfa.2.2.2.1, hfa.1]
      refine ⟨hpn.1, fun hnil => hpn.2 ?_⟩
      by_cases hp : (s.acct a).pending.txs = []
      · exact .inl (hPw.2 hp)
      · right
        obtain ⟨x, xs, hx⟩ := List.exists_cons_of_ne_nil hp
        have hxn : x.nonce = (s.acct a).nonce := by
          have := hA.pChain
          rw [hx] at this
          exact (chain_cons_iff.mp this).1
        have hxm : x ∈ (s.acct a).pending.txs := by rw [hx]; simp
        rcases cs.2.2.2.2.2.2 x hxm with hk | hk
        · simp only at hnil
          rw [hnil] at hk; simp at hk
        · exact ⟨x, hk, by simp only; omega⟩
    · exact h.2 b

/-! ### anything `capOne` preserves is preserved by `truncatePending` -/

section generic
variable (P : State → Prop) (hP : ∀ s a, P s → P (s.capOne a))
include hP

theorem capEach_preserves {s : State} (h : P s) (as : List Nat) : P (s.capEach as) := by
  unfold State.capEach
  exact foldl_preserves P _ (fun s x hs => hP s x hs) as s h

theorem equalize_preserves (fuel : Nat) {s : State} (h : P s) (prevs : List Nat) (chk thr pending : Nat) :
    P (equalize fuel s prevs chk thr pending).1 := by
  induction fuel generalizing s pending with
  | zero => exact h
  | succ f ih =>
    unfold equalize
    split
    · exact ih (capEach_preserves P hP h prevs) _
    · exact h

theorem spamLoop_preserves (sp : List Nat) {s : State} (h : P s) (off : List Nat) (pending : Nat) :
    P (spamLoop sp s off pending).1 := by
  induction sp generalizing s off pending with
  | nil => exact h
  | cons o rest ih =>
    unfold spamLoop
    split
    · simp only
      split
      · exact ih h _ _
      · exact ih (equalize_preserves P hP _ h _ _ _ _) _ _
    · exact h

theorem finalLoop_preserves (fuel : Nat) {s : State} (h : P s) (off : List Nat) (last pending : Nat) :
    P (finalLoop fuel s off last pending).1 := by
  induction fuel generalizing s pending with
  | zero => exact h
  | succ f ih =>
    unfold finalLoop
    split
    · exact ih (capEach_preserves P hP h off) _
    · exact h

theorem truncatePending_preserves {s : State} (h : P s) (ord : List Nat) : P (s.truncatePending ord) := by
  unfold State.truncatePending
  simp only
  split
  · exact h
  · have := spamLoop_preserves P hP (List.foldl (fun acc a => insertDesc (fun a => (s.acct a).pending.txs.length) a acc) []
        (List.filter (fun a => !(s.acct a).isLocal && decide ((s.acct a).pending.txs.length > s.cfg.accountSlots)) ord))
      h [] s.pendingCount
    split
    · exact this
    · exact finalLoop_preserves P hP _ this _ _ _

end generic

theorem AllM.truncatePending {s : State} (h : AllM s) (ord : List Nat) : AllM (s.truncatePending ord) :=
  truncatePending_preserves AllM (fun _ a hs => hs.capOne a) h ord

/-! ### the closing nonce refresh -/

theorem chain_getLast {n : Nat} {l : List Tx} {t : Tx} (h : Chain n l) (hl : l.getLast? = some t) :
    t.nonce + 1 = n + l.length := by
  induction h with
  | nil => simp at hl
  | @cons n x xs hx hc ih =>
    cases xs with
    | nil =>
      simp at hl
      subst hl
      simp; omega
    | cons y ys =>
      rw [List.getLast?_cons_cons] at hl
      have := ih hl
      simp only [List.length_cons] at this ⊢
      omega

theorem AllM.refreshNonces {s : State} (h : AllM s) : AllI s.refreshNonces := by
  refine ⟨fun b => ?_, fun b => ?_⟩
  · have f := acct_refreshNonces s b
    show AcctJ _ b s.maxGas
    exact (h.1 b).congr f.1 f.2.1 f.2.2.1 f.2.2.2.1 f.2.2.2.2.1
  · have f := acct_refreshNonces s b
    unfold PN Account.pnGet
    rw [f.2.2.2.2.2.2, f.2.2.2.1, f.1]
    cases hl : (s.acct b).pending.txs.getLast? with
    | none =>
      have hnil : (s.acct b).pending.txs = [] := List.getLast?_eq_none_iff.mp hl
      have := (h.2 b).2 hnil
      unfold Account.pnGet at this
      simp only [hnil, List.length_nil, Nat.add_zero]
      exact this
    | some t =>
      simp only [Option.getD_some]
      exact chain_getLast (h.1 b).pChain hl

/-! ### table length and state nonces through the reorg steps -/

/-- table length and state nonces are untouched -/
def NFrame (s s' : State) : Prop := s'.n = s.n ∧ ∀ b, (s'.acct b).nonce = (s.acct b).nonce

theorem NFrame.refl (s : State) : NFrame s s := ⟨rfl, fun _ => rfl⟩
theorem NFrame.trans {a b c : State} (h1 : NFrame a b) (h2 : NFrame b c) : NFrame a c :=
  ⟨h2.1.trans h1.1, fun x => (h2.2 x).trans (h1.2 x)⟩
theorem Frame.nframe {s s' : State} (h : Frame s s') : NFrame s s' := ⟨h.1, fun b => (h.2.2.2 b).1⟩
theorem QShrink.nframe {s s' : State} (h : QShrink s s') : NFrame s s' := ⟨h.1, fun b => (h.2 b).2⟩
theorem Same.nframe {s s' : State} (h : Same s s') : NFrame s s' := ⟨h.n, fun b => by rw [h.acct b]⟩

theorem nframe_capOne (s : State) (a : Nat) : NFrame s (s.capOne a) := by
  refine ⟨(capOne_acct s a 0).2.2.1, fun b => ?_⟩
  rw [(capOne_acct s a b).1]
  split
  · exact (foldl_setIfLower_fields _ _).2.2.2.1
  · rfl

theorem nframe_truncatePending (s : State) (ord : List Nat) : NFrame s (s.truncatePending ord) :=
  truncatePending_preserves (NFrame s) (fun s1 a hs => hs.trans (nframe_capOne s1 a)) (NFrame.refl s) ord

theorem nframe_refreshNonces (s : State) : NFrame s s.refreshNonces :=
  ⟨by simp [State.refreshNonces, State.n], fun b => (acct_refreshNonces s b).2.2.2.1⟩

theorem nframe_promoteExecutables {s : State} (h : AllW s) (as : List Nat) : NFrame s (s.promoteExecutables as) := by
  unfold State.promoteExecutables
  induction as generalizing s with
  | nil => exact NFrame.refl _
  | cons a rest ih =>
    simp only [List.foldl_cons]
    exact (promoteAccount_q h a).1.nframe.trans (ih (h.promoteAccount a))

theorem nframe_demoteAccount {s : State} (h : AllW s) (a : Nat) : NFrame s (s.demoteAccount a) := by
  by_cases hne : (s.acct a).pending.txs = []
  · have e : s.demoteAccount a = s := by
      unfold State.demoteAccount; simp [hne]
    rw [e]; exact NFrame.refl _
  · have fa := demoteAccount_acct h a hne
    simp only at fa
    obtain ⟨_, e2, _, _, e5, _, e7⟩ := fa
    refine ⟨e7, fun b => ?_⟩
    by_cases hb : b = a
    · subst hb; exact e2
    · rw [e5 b hb]

theorem nframe_demoteUnexecutables {s : State} (h : AllW s) (as : List Nat) : NFrame s (s.demoteUnexecutables as) := by
  unfold State.demoteUnexecutables
  induction as generalizing s with
  | nil => exact NFrame.refl _
  | cons a rest ih =>
    simp only [List.foldl_cons]
    exact (nframe_demoteAccount h a).trans (ih (h.demoteAccount a))

end YouVerif.C20
