/-
C20 proofs, layer 1: facts about the nonce-indexed lists (`insertN`, `getN`, filters, `readyRun`, `TxList.*`).
-/
import YouVerif.C20.Model
namespace YouVerif.C20

/-- gap-free run of nonces starting at `n` -/
inductive Chain : Nat → List Tx → Prop
  | nil (n : Nat) : Chain n []
  | cons {n : Nat} {x : Tx} {xs : List Tx} : x.nonce = n → Chain (n + 1) xs → Chain n (x :: xs)

/-- strictly increasing nonces -/
def Sorted (l : List Tx) : Prop := l.Pairwise (fun a b => a.nonce < b.nonce)

theorem chain_cons_iff {n : Nat} {x : Tx} {xs : List Tx} : Chain n (x :: xs) ↔ x.nonce = n ∧ Chain (n + 1) xs :=
  ⟨fun h => by cases h; exact ⟨‹_›, ‹_›⟩, fun ⟨a, b⟩ => .cons a b⟩

theorem Chain.bounds {n : Nat} {l : List Tx} (h : Chain n l) : ∀ t ∈ l, n ≤ t.nonce ∧ t.nonce < n + l.length := by
  induction h with
  | nil => simp
  | cons hx _ ih =>
    intro t ht
    simp only [List.mem_cons] at ht
    rcases ht with rfl | ht
    · simp; omega
    · have := ih t ht; simp; omega

theorem Chain.sorted {n : Nat} {l : List Tx} (h : Chain n l) : Sorted l := by
  induction h with
  | nil => exact List.Pairwise.nil
  | cons hx hc ih =>
    refine List.Pairwise.cons ?_ ih
    intro b hb
    have := hc.bounds b hb
    omega

theorem Chain.take {n : Nat} {l : List Tx} (h : Chain n l) (k : Nat) : Chain n (l.take k) := by
  induction h generalizing k with
  | nil => simp; exact .nil _
  | cons hx _ ih =>
    cases k with
    | zero => simp; exact .nil _
    | succ k => simp only [List.take_succ_cons]; exact .cons hx (ih k)

theorem Chain.append_one {n : Nat} {l : List Tx} (h : Chain n l) (t : Tx) (ht : t.nonce = n + l.length) :
    Chain n (l ++ [t]) := by
  induction h with
  | nil n => simp at ht; exact .cons (by simpa using ht) (.nil _)
  | cons hx _ ih =>
    simp only [List.cons_append]
    refine .cons hx (ih ?_)
    simp at ht; omega

/-- filtering a chain by "nonce below a threshold" keeps a chain -/
theorem Chain.filter_lt {n : Nat} {l : List Tx} (h : Chain n l) (thr : Nat) :
    Chain n (l.filter (fun t => decide (t.nonce < thr))) := by
  induction h with
  | nil => exact .nil _
  | @cons n x xs hx hc ih =>
    by_cases hlt : x.nonce < thr
    · simp only [List.filter_cons, hlt, decide_true, if_true]; exact .cons hx ih
    · have : xs.filter (fun t => decide (t.nonce < thr)) = [] := by
        rw [List.filter_eq_nil_iff]
        intro t ht
        have := hc.bounds t ht
        simp; omega
      simp only [List.filter_cons, hlt, decide_false, this]
      exact .nil _

/-- dropping everything below `m ≥ n` from a chain leaves the chain from `m` (or nothing) -/
theorem Chain.filter_ge {n : Nat} {l : List Tx} (h : Chain n l) (m : Nat) (hm : n ≤ m) :
    Chain m (l.filter (fun t => !decide (t.nonce < m))) := by
  induction h with
  | nil => exact .nil _
  | @cons n x xs hx hc ih =>
    by_cases hlt : x.nonce < m
    · simp only [List.filter_cons, hlt, decide_true, Bool.not_true]
      exact ih (by omega)
    · have hnm : n = m := by omega
      subst hnm
      have : xs.filter (fun t => !decide (t.nonce < n)) = xs := by
        rw [List.filter_eq_self]
        intro t ht
        have := hc.bounds t ht
        simp; omega
      simp only [List.filter_cons, hlt, decide_false, Bool.not_false, if_true, this]
      exact .cons hx hc

theorem Chain.length_eq {n : Nat} {l : List Tx} (h : Chain n l) : l.map (·.nonce) = List.range' n l.length := by
  induction h with
  | nil => simp
  | cons hx _ ih => simp [List.range'_succ, hx, ih]

/-! ### getN / insertN -/

theorem getN_some_mem {l : List Tx} {n : Nat} {t : Tx} (h : getN l n = some t) : t ∈ l ∧ t.nonce = n := by
  unfold getN at h
  have := List.find?_some h
  exact ⟨List.mem_of_find?_eq_some h, by simpa using this⟩

theorem getN_none {l : List Tx} {n : Nat} (h : getN l n = none) : ∀ t ∈ l, t.nonce ≠ n := by
  unfold getN at h
  rw [List.find?_eq_none] at h
  intro t ht
  simpa using h t ht

theorem getN_isSome_of_mem {l : List Tx} {t : Tx} (h : t ∈ l) : (getN l t.nonce).isSome := by
  cases hg : getN l t.nonce with
  | some _ => rfl
  | none => exact absurd rfl (getN_none hg t h)

theorem mem_insertN_or {t x : Tx} {l : List Tx} (h : x ∈ insertN t l) : x = t ∨ x ∈ l := by
  induction l with
  | nil => simp [insertN] at h; exact .inl h
  | cons y ys ih =>
    unfold insertN at h
    split at h
    · simp only [List.mem_cons] at h ⊢; exact h
    · split at h
      · simp only [List.mem_cons] at h ⊢
        rcases h with h | h
        · exact .inl h
        · exact .inr (.inr h)
      · simp only [List.mem_cons] at h ⊢
        rcases h with h | h
        · exact .inr (.inl h)
        · rcases ih h with h | h
          · exact .inl h
          · exact .inr (.inr h)

theorem mem_insertN_sorted {t x : Tx} {l : List Tx} (hs : Sorted l) (h : x ∈ insertN t l) :
    x = t ∨ (x ∈ l ∧ x.nonce ≠ t.nonce) := by
  induction l with
  | nil => simp [insertN] at h; exact .inl h
  | cons y ys ih =>
    have hy := (List.pairwise_cons.mp hs).1
    have hys : Sorted ys := (List.pairwise_cons.mp hs).2
    unfold insertN at h
    split at h
    · simp only [List.mem_cons] at h
      rcases h with rfl | rfl | h
      · exact .inl rfl
      · exact .inr ⟨by simp, by omega⟩
      · exact .inr ⟨by simp [h], by have := hy _ h; omega⟩
    · split at h
      · simp only [List.mem_cons] at h
        rcases h with rfl | h
        · exact .inl rfl
        · exact .inr ⟨by simp [h], by have := hy _ h; omega⟩
      · simp only [List.mem_cons] at h
        rcases h with rfl | h
        · exact .inr ⟨by simp, by omega⟩
        · rcases ih hys h with h | ⟨h, hn⟩
          · exact .inl h
          · exact .inr ⟨by simp [h], hn⟩

theorem self_mem_insertN (t : Tx) (l : List Tx) : t ∈ insertN t l := by
  induction l with
  | nil => simp [insertN]
  | cons y ys ih =>
    unfold insertN
    split
    · simp
    · split
      · simp
      · simp [ih]

theorem mem_insertN_of_mem {t x : Tx} {l : List Tx} (h : x ∈ l) (hn : x.nonce ≠ t.nonce) : x ∈ insertN t l := by
  induction l with
  | nil => simp at h
  | cons y ys ih =>
    unfold insertN
    simp only [List.mem_cons] at h
    split
    · simp only [List.mem_cons]; exact .inr h
    · split
      · rcases h with rfl | h
        · omega
        · simp [h]
      · rcases h with rfl | h
        · simp
        · simp [ih h]

theorem sorted_insertN {t : Tx} {l : List Tx} (hs : Sorted l) : Sorted (insertN t l) := by
  induction l with
  | nil => simp [insertN, Sorted]
  | cons y ys ih =>
    have hy := (List.pairwise_cons.mp hs).1
    have hys : Sorted ys := (List.pairwise_cons.mp hs).2
    unfold insertN
    split
    · refine List.Pairwise.cons ?_ hs
      intro b hb
      simp only [List.mem_cons] at hb
      rcases hb with rfl | hb
      · assumption
      · have := hy _ hb; omega
    · split
      · refine List.Pairwise.cons ?_ hys
        intro b hb
        have := hy _ hb; omega
      · refine List.Pairwise.cons ?_ (ih hys)
        intro b hb
        rcases mem_insertN_sorted hys hb with rfl | ⟨hb, _⟩
        · omega
        · exact hy _ hb

/-- inserting the next nonce at the end of a chain, or overwriting inside it, keeps the chain -/
theorem Chain.insertN {n : Nat} {l : List Tx} (h : Chain n l) (t : Tx) (ht : n ≤ t.nonce ∧ t.nonce ≤ n + l.length) :
    Chain n (insertN t l) ∧ (insertN t l).length = (if t.nonce = n + l.length then l.length + 1 else l.length) := by
  induction h with
  | nil n =>
    simp at ht
    have : t.nonce = n := by omega
    simp [YouVerif.C20.insertN, this]
    exact .cons this (.nil _)
  | @cons n x xs hx hc ih =>
    unfold YouVerif.C20.insertN
    simp only [List.length_cons] at ht ⊢
    split
    · omega
    · split
      · rename_i h1 h2
        refine ⟨.cons (by omega) hc, ?_⟩
        simp; omega
      · have := ih (by omega)
        refine ⟨.cons hx this.1, ?_⟩
        simp only [List.length_cons, this.2]
        split <;> split <;> omega

/-! ### readyRun -/

theorem readyRun_spec (l : List Tx) (n : Nat) :
    (readyRun n l).1 ++ (readyRun n l).2 = l ∧ Chain n (readyRun n l).1 := by
  induction l generalizing n with
  | nil => simp [readyRun]; exact .nil _
  | cons x xs ih =>
    unfold readyRun
    split
    · have := ih (n + 1)
      simp only [List.cons_append, this.1, true_and]
      exact .cons ‹_› this.2
    · simp; exact .nil _

theorem readyN_spec (l : List Tx) (start : Nat) :
    (readyN l start).1 ++ (readyN l start).2 = l ∧
    ((readyN l start).1 = [] ∨ ∃ m, m ≤ start ∧ Chain m (readyN l start).1 ∧ (∀ t ∈ l, m ≤ t.nonce → True) ∧
      (∃ x xs, l = x :: xs ∧ x.nonce = m)) := by
  unfold readyN
  cases l with
  | nil => simp
  | cons x xs =>
    simp only
    split
    · simp
    · have := readyRun_spec (x :: xs) x.nonce
      refine ⟨this.1, .inr ⟨x.nonce, by omega, this.2, fun _ _ _ => trivial, x, xs, rfl, rfl⟩⟩

theorem sorted_append_lt {l1 l2 : List Tx} (h : Sorted (l1 ++ l2)) : ∀ a ∈ l1, ∀ b ∈ l2, a.nonce < b.nonce := by
  unfold Sorted at h
  rw [List.pairwise_append] at h
  exact h.2.2

theorem Sorted.sublist {l l' : List Tx} (h : Sorted l) (hs : l'.Sublist l) : Sorted l' := List.Pairwise.sublist hs h

theorem Sorted.filter {l : List Tx} (h : Sorted l) (p : Tx → Bool) : Sorted (l.filter p) :=
  h.sublist List.filter_sublist

end YouVerif.C20
