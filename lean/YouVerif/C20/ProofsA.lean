/-
C20 proofs, layer 7 (A): the REMOVAL and ADMISSION family (`removeTx`, `removeMany`, `makeRoom`, `addAdmitted`, `add`,
`addTxsLocked`, `setGasPrice`, `evict`, `truncateQueue`) preserves the full per-account invariant (`AllJ`), the
virtual-nonce clause (`PN`, hence `AllI`), its weak form inside a reorg run (`PNw`, hence `AllM`), and is a `Frame`.
-/
import YouVerif.C20.ProofsInv
namespace YouVerif.C20

/-! ### account-level tools -/

/-- `AcctJ` only looks at pending, queue, heartbeat, state nonce and balance -/
theorem AcctJ.congrA {ac ac' : Account} {a mg : Nat} (h : AcctJ ac a mg) (e1 : ac'.pending = ac.pending)
    (e2 : ac'.queue = ac.queue) (e3 : ac'.beat = ac.beat) (e4 : ac'.nonce = ac.nonce)
    (e5 : ac'.balance = ac.balance) : AcctJ ac' a mg := by
  constructor <;> simp only [e1, e2, e3, e4, e5]
  · exact h.pSender
  · exact h.qSender
  · exact h.pChain
  · exact h.pAfford
  · exact h.qSorted
  · exact h.qAbove
  · exact h.beat
  · exact h.pCaps
  · exact h.qCaps

/-- pending replaced by a shorter gap-free part of itself -/
theorem AcctJ.setPendingA {ac ac' : Account} {a mg : Nat} (h : AcctJ ac a mg) (p' : TxList)
    (hsub : ∀ x ∈ p'.txs, x ∈ ac.pending.txs) (hc : Chain ac.nonce p'.txs)
    (hlen : p'.txs.length ≤ ac.pending.txs.length)
    (hcap : ∀ x ∈ p'.txs, x.cost ≤ p'.costcap ∧ x.gas ≤ p'.gascap)
    (e1 : ac'.pending = p') (e2 : ac'.queue = ac.queue) (e3 : p'.txs ≠ [] → ac'.beat ≠ 0)
    (e4 : ac'.nonce = ac.nonce) (e5 : ac'.balance = ac.balance) : AcctJ ac' a mg := by
  constructor <;> simp only [e1, e2, e4, e5]
  · exact fun t ht => h.pSender t (hsub t ht)
  · exact h.qSender
  · exact hc
  · exact fun t ht => h.pAfford t (hsub t ht)
  · exact h.qSorted
  · intro t ht; have := h.qAbove t ht; omega
  · exact e3
  · exact hcap
  · exact h.qCaps

/-- queue replaced by a part of itself -/
theorem AcctJ.setQueueA {ac ac' : Account} {a mg : Nat} (h : AcctJ ac a mg) (q' : TxList)
    (hsub : ∀ x ∈ q'.txs, x ∈ ac.queue.txs) (hs : Sorted q'.txs)
    (hcap : ∀ x ∈ q'.txs, x.cost ≤ q'.costcap ∧ x.gas ≤ q'.gascap)
    (e1 : ac'.pending = ac.pending) (e2 : ac'.queue = q') (e3 : ac'.beat = ac.beat)
    (e4 : ac'.nonce = ac.nonce) (e5 : ac'.balance = ac.balance) : AcctJ ac' a mg := by
  constructor <;> simp only [e1, e2, e3, e4, e5]
  · exact h.pSender
  · exact fun t ht => h.qSender t (hsub t ht)
  · exact h.pChain
  · exact h.pAfford
  · exact hs
  · exact fun t ht => h.qAbove t (hsub t ht)
  · exact h.beat
  · exact h.pCaps
  · exact hcap

/-- the virtual-nonce clause of one account -/
def PNa (ac : Account) : Prop := ac.pnGet = ac.nonce + ac.pending.txs.length

theorem pn_iff (s : State) (b : Nat) : PN s b ↔ PNa (s.acct b) := Iff.rfl

theorem PNa.congrA {ac ac' : Account} (h : PNa ac) (e1 : ac'.pending = ac.pending) (e2 : ac'.nonce = ac.nonce)
    (e3 : ac'.pn = ac.pn) : PNa ac' := by
  unfold PNa Account.pnGet at *
  rw [e1, e2, e3]; exact h

theorem PNw.congrA {ac ac' : Account} (h : PNw ac) (e1 : ac'.pending = ac.pending) (e2 : ac'.nonce = ac.nonce)
    (e3 : ac'.pn = ac.pn) : PNw ac' := by
  unfold PNw Account.pnGet at *
  rw [e1, e2, e3]; exact h

theorem QFrame.pnwA {s s' : State} (h : QFrame s s') (b : Nat) (hb : PNw (s.acct b)) : PNw (s'.acct b) :=
  hb.congrA (h.2.2.2 b).1 (h.2.2.2 b).2.1 (h.2.2.2 b).2.2.1

theorem Same.allIA {s s' : State} (h : Same s s') (hi : AllI s) : AllI s' :=
  ⟨h.allJ hi.1, fun b => h.qframe.pn b (hi.2 b)⟩

theorem Same.allMA {s s' : State} (h : Same s s') (hi : AllM s) : AllM s' :=
  ⟨h.allJ hi.1, fun b => h.qframe.pnwA b (hi.2 b)⟩

theorem setIfLower_pnGet (ac : Account) (n : Nat) :
    (ac.setIfLower n).pnGet = if ac.pnGet ≤ n then ac.pnGet else max n ac.nonce := by
  unfold Account.setIfLower
  split <;> simp [Account.pnGet]

/-- an account update that keeps state nonce and balance and does not move a virtual nonce off the state nonce -/
theorem frame_updA (s : State) (a : Nat) (f : Account → Account)
    (hf : ∀ ac : Account, (f ac).nonce = ac.nonce ∧ (f ac).balance = ac.balance ∧
      (ac.pnGet = ac.nonce → (f ac).pnGet = (f ac).nonce)) : Frame s (s.upd a f) := by
  refine ⟨n_upd _ _ _, rfl, rfl, fun b => ?_⟩
  rw [acct_upd]
  split
  · exact hf _
  · exact ⟨rfl, rfl, id⟩

theorem frame_setIfLower (s : State) (a n : Nat) : Frame s (s.upd a (fun ac => ac.setIfLower n)) := by
  refine frame_updA _ _ _ (fun ac => ?_)
  have f := setIfLower_fields ac n
  refine ⟨f.2.2.2.1, f.2.2.2.2.1, fun h => ?_⟩
  rw [setIfLower_pnGet, f.2.2.2.1]
  split <;> omega

theorem qframe_upd_queue (s : State) (a : Nat) (q' : TxList) :
    QFrame s (s.upd a (fun ac => { ac with queue := q' })) := by
  refine ⟨n_upd _ _ _, rfl, rfl, fun b => ?_⟩
  rw [acct_upd]
  split <;> exact ⟨rfl, rfl, rfl, rfl, rfl, rfl⟩

/-! ### removeTx, pending branch -/

theorem remove_true_found (l : TxList) (strict : Bool) (t : Tx) (h : (l.remove strict t).1 = true) :
    ∃ o, o ∈ l.txs ∧ o.nonce = t.nonce := by
  unfold TxList.remove at h
  split at h
  · simp at h
  · rename_i o ho; exact ⟨o, getN_some_mem ho⟩

theorem frame_removePending (s : State) (t : Tx) (invalids : List Tx) (p' : TxList) :
    Frame s (s.removePending t invalids p') := by
  unfold State.removePending
  simp only
  split
  · refine Frame.trans ?_ (frame_setIfLower _ _ _)
    refine Frame.trans ?_ (enqueueMany_qframe _ _).frame
    exact frame_updA _ _ _ (fun ac => ⟨rfl, rfl, id⟩)
  · refine Frame.trans ?_ (frame_setIfLower _ _ _)
    refine Frame.trans ?_ (enqueueMany_qframe _ _).frame
    exact frame_updA _ _ _ (fun ac => ⟨rfl, rfl, id⟩)

/-- the pending branch of `removeTx`: invariant kept, virtual-nonce clauses kept account by account -/
theorem removePending_core {s : State} (h : AllJ s) (t : Tx) (invalids : List Tx) (p' : TxList)
    (hne : (s.acct t.sender).pending.txs ≠ [])
    (hr : (s.acct t.sender).pending.remove true t = (true, invalids, p')) :
    AllJ (s.removePending t invalids p') ∧
    (∀ b, PNa (s.acct b) → PNa ((s.removePending t invalids p').acct b)) ∧
    (∀ b, PNw (s.acct b) → PNw ((s.removePending t invalids p').acct b)) := by
  have hA := h t.sender
  have hlt : t.sender < s.n := lt_n_of_pending hne
  obtain ⟨o, hom, hon⟩ := remove_true_found _ true t (by rw [hr])
  have hob := hA.pChain.bounds o hom
  have spec := (remove_strict_spec (s.acct t.sender).pending t hA.pChain.sorted).2 (by rw [hr])
  rw [hr] at spec
  obtain ⟨hkept, hinv, hcc, hgc, _, _, _, hfil⟩ := spec
  simp only at hkept hinv hcc hgc hfil
  have hch : Chain (s.acct t.sender).nonce p'.txs := by rw [hfil]; exact hA.pChain.filter_lt _
  have hlen : p'.txs.length = t.nonce - (s.acct t.sender).nonce := by
    rw [hfil]; exact hA.pChain.filter_lt_length (by omega) (by omega)
  -- after the pending update, whatever it is
  have aux : ∀ s1 : State, AllJ s1 → s1.n = s.n →
      (∀ b, (s1.acct b).nonce = (s.acct b).nonce ∧ (s1.acct b).pn = (s.acct b).pn ∧
        (b ≠ t.sender → (s1.acct b).pending = (s.acct b).pending)) →
      (s1.acct t.sender).pending.txs = p'.txs →
      AllJ ((s1.enqueueMany invalids).upd t.sender (fun ac => ac.setIfLower t.nonce)) ∧
      (∀ b, PNa (s.acct b) → PNa (((s1.enqueueMany invalids).upd t.sender (fun ac => ac.setIfLower t.nonce)).acct b)) ∧
      (∀ b, PNw (s.acct b) → PNw (((s1.enqueueMany invalids).upd t.sender (fun ac => ac.setIfLower t.nonce)).acct b)) := by
    intro s1 h1 hn1 hf1 hp1
    obtain ⟨hJ2, hq2⟩ := enqueueMany_spec h1 invalids (by
      intro x hx
      have hs : x.sender = t.sender := hA.pSender x (hinv x hx).1
      rw [hs, (hf1 _).1, hp1, hlen]
      have := (hinv x hx).2
      omega)
    have hn2 : (s1.enqueueMany invalids).n = s.n := by rw [hq2.1, hn1]
    have hJ3 : AllJ ((s1.enqueueMany invalids).upd t.sender (fun ac => ac.setIfLower t.nonce)) := by
      refine hJ2.upd _ _ (fun _ => ?_)
      have f := setIfLower_fields ((s1.enqueueMany invalids).acct t.sender) t.nonce
      exact (hJ2 t.sender).congrA f.1 f.2.1 f.2.2.1 f.2.2.2.1 f.2.2.2.2.1
    -- the sender's account afterwards
    have e2 := hq2.2.2.2 t.sender
    have f := setIfLower_fields ((s1.enqueueMany invalids).acct t.sender) t.nonce
    have hself : ((s1.enqueueMany invalids).upd t.sender (fun ac => ac.setIfLower t.nonce)).acct t.sender =
        ((s1.enqueueMany invalids).acct t.sender).setIfLower t.nonce :=
      acct_upd_self _ _ _ (by rw [hn2]; exact hlt)
    have hN : (((s1.enqueueMany invalids).upd t.sender (fun ac => ac.setIfLower t.nonce)).acct t.sender).nonce =
        (s.acct t.sender).nonce := by rw [hself, f.2.2.2.1, e2.2.1, (hf1 _).1]
    have hP : (((s1.enqueueMany invalids).upd t.sender (fun ac => ac.setIfLower t.nonce)).acct t.sender).pending.txs =
        p'.txs := by rw [hself, f.1, e2.1, hp1]
    have hG0 : ((s1.enqueueMany invalids).acct t.sender).pnGet = (s.acct t.sender).pnGet := by
      unfold Account.pnGet; rw [e2.2.2.1, e2.2.1, (hf1 _).1, (hf1 _).2.1]
    have hG : (((s1.enqueueMany invalids).upd t.sender (fun ac => ac.setIfLower t.nonce)).acct t.sender).pnGet =
        if (s.acct t.sender).pnGet ≤ t.nonce then (s.acct t.sender).pnGet else max t.nonce (s.acct t.sender).nonce := by
      rw [hself, setIfLower_pnGet, hG0, e2.2.1, (hf1 _).1]
    -- the other accounts
    have hoth : ∀ b, b ≠ t.sender →
        (((s1.enqueueMany invalids).upd t.sender (fun ac => ac.setIfLower t.nonce)).acct b).pending = (s.acct b).pending ∧
        (((s1.enqueueMany invalids).upd t.sender (fun ac => ac.setIfLower t.nonce)).acct b).nonce = (s.acct b).nonce ∧
        (((s1.enqueueMany invalids).upd t.sender (fun ac => ac.setIfLower t.nonce)).acct b).pn = (s.acct b).pn := by
      intro b hb
      have eb := hq2.2.2.2 b
      rw [acct_upd]
      simp only [Ne.symm hb, false_and, if_false]
      exact ⟨eb.1.trans ((hf1 b).2.2 hb), eb.2.1.trans (hf1 b).1, eb.2.2.1.trans (hf1 b).2.1⟩
    refine ⟨hJ3, fun b hb => ?_, fun b hb => ?_⟩
    · by_cases hbs : b = t.sender
      · subst hbs
        unfold PNa at hb ⊢
        rw [hN, hP, hG, hlen]
        split <;> omega
      · exact hb.congrA (hoth b hbs).1 (hoth b hbs).2.1 (hoth b hbs).2.2
    · by_cases hbs : b = t.sender
      · subst hbs
        unfold PNw at hb ⊢
        rw [hN, hP, hG]
        refine ⟨by split <;> omega, fun he => ?_⟩
        have : t.nonce - (s.acct t.sender).nonce = 0 := by rw [← hlen, he]; rfl
        split <;> omega
      · exact hb.congrA (hoth b hbs).1 (hoth b hbs).2.1 (hoth b hbs).2.2
  unfold State.removePending
  simp only
  split
  · rename_i hemp
    have hnil : p'.txs = [] := by simpa using hemp
    refine aux _ (h.upd _ _ (fun _ => ?_)) (n_upd _ _ _) (fun b => ?_) ?_
    · exact hA.setPendingA {} (by simp) (.nil _) (Nat.zero_le _) (by simp) rfl rfl (by simp) rfl rfl
    · rw [acct_upd]
      split
      · rename_i hc; exact ⟨rfl, rfl, fun hb => absurd hc.1.symm hb⟩
      · exact ⟨rfl, rfl, fun _ => rfl⟩
    · rw [acct_upd_self _ _ _ hlt, hnil]
  · refine aux _ (h.upd _ _ (fun _ => ?_)) (n_upd _ _ _) (fun b => ?_) ?_
    · refine hA.setPendingA p' (fun x hx => (hkept x hx).1) hch (by omega) ?_ rfl rfl (fun _ => hA.beat hne) rfl rfl
      intro x hx
      rw [hcc, hgc]; exact hA.pCaps x (hkept x hx).1
    · rw [acct_upd]
      split
      · rename_i hc; exact ⟨rfl, rfl, fun hb => absurd hc.1.symm hb⟩
      · exact ⟨rfl, rfl, fun _ => rfl⟩
    · rw [acct_upd_self _ _ _ hlt]

/-! ### removeTx, queue branch and the whole operation -/

theorem removeQueued_qframe (s : State) (t : Tx) : QFrame s (s.removeQueued t) := by
  unfold State.removeQueued
  simp only
  split
  · exact QFrame.refl _
  · split <;> exact qframe_upd_queue _ _ _

theorem AllJ.removeQueued {s : State} (h : AllJ s) (t : Tx) : AllJ (s.removeQueued t) := by
  unfold State.removeQueued
  simp only
  split
  · exact h
  · have hA := h t.sender
    have spec := remove_loose_spec (s.acct t.sender).queue t hA.qSorted
    split
    · exact h.upd _ _ (fun _ => hA.setQueueA {} (by simp) sorted_nil (by simp) rfl rfl rfl rfl rfl)
    · refine h.upd _ _ (fun _ => hA.setQueueA _ (fun x hx => (spec.1 x hx).1) spec.2.1 ?_ rfl rfl rfl rfl rfl)
      intro x hx
      rw [spec.2.2.1, spec.2.2.2.1]; exact hA.qCaps x (spec.1 x hx).1

theorem removeFromLists_core {s : State} (h : AllJ s) (t : Tx) :
    AllJ (s.removeFromLists t) ∧
    (∀ b, PNa (s.acct b) → PNa ((s.removeFromLists t).acct b)) ∧
    (∀ b, PNw (s.acct b) → PNw ((s.removeFromLists t).acct b)) := by
  unfold State.removeFromLists
  simp only
  split
  · rename_i invalids p' hm
    split at hm
    · simp at hm
    · rename_i hne
      exact removePending_core h t invalids p' (by simpa using hne) hm
  · have q := removeQueued_qframe s t
    exact ⟨h.removeQueued t, fun b hb => q.pn b hb, fun b hb => q.pnwA b hb⟩

theorem frame_removeFromLists (s : State) (t : Tx) : Frame s (s.removeFromLists t) := by
  unfold State.removeFromLists
  simp only
  split
  · exact frame_removePending _ _ _ _
  · exact (removeQueued_qframe s t).frame

theorem removeTx_same (s : State) (t : Tx) (oob : Bool) :
    Same s (if oob = true then (s.allRemove t).pricedRemoved 1 else s.allRemove t) := by
  split
  · exact (same_allRemove _ _).trans (same_pricedRemoved _ _)
  · exact same_allRemove _ _

theorem removeTx_coreA {s : State} (h : AllJ s) (t : Tx) (oob : Bool) :
    AllJ (s.removeTx t oob) ∧
    (∀ b, PNa (s.acct b) → PNa ((s.removeTx t oob).acct b)) ∧
    (∀ b, PNw (s.acct b) → PNw ((s.removeTx t oob).acct b)) := by
  unfold State.removeTx
  split
  · exact ⟨h, fun _ => id, fun _ => id⟩
  · simp only
    have hs0 := removeTx_same s t oob
    have c := removeFromLists_core (hs0.allJ h) t
    refine ⟨c.1, fun b hb => c.2.1 b ?_, fun b hb => c.2.2 b ?_⟩
    · rw [hs0.acct b]; exact hb
    · rw [hs0.acct b]; exact hb

theorem AllJ.removeTx {s : State} (h : AllJ s) (t : Tx) (oob : Bool) : AllJ (s.removeTx t oob) :=
  (removeTx_coreA h t oob).1

theorem AllI.removeTx {s : State} (h : AllI s) (t : Tx) (oob : Bool) : AllI (s.removeTx t oob) :=
  ⟨(removeTx_coreA h.1 t oob).1, fun b => (removeTx_coreA h.1 t oob).2.1 b (h.2 b)⟩

theorem AllM.removeTx {s : State} (h : AllM s) (t : Tx) (oob : Bool) : AllM (s.removeTx t oob) :=
  ⟨(removeTx_coreA h.1 t oob).1, fun b => (removeTx_coreA h.1 t oob).2.2 b (h.2 b)⟩

theorem frame_removeTx (s : State) (t : Tx) (oob : Bool) : Frame s (s.removeTx t oob) := by
  unfold State.removeTx
  split
  · exact Frame.refl _
  · simp only
    exact (removeTx_same s t oob).frame.trans (frame_removeFromLists _ t)

theorem AllJ.removeMany {s : State} (h : AllJ s) (ts : List Tx) (oob : Bool) : AllJ (s.removeMany ts oob) := by
  unfold State.removeMany
  exact foldl_preserves AllJ _ (fun s x hs => hs.removeTx x oob) ts s h

theorem AllI.removeMany {s : State} (h : AllI s) (ts : List Tx) (oob : Bool) : AllI (s.removeMany ts oob) := by
  unfold State.removeMany
  exact foldl_preserves AllI _ (fun s x hs => hs.removeTx x oob) ts s h

theorem AllM.removeMany {s : State} (h : AllM s) (ts : List Tx) (oob : Bool) : AllM (s.removeMany ts oob) := by
  unfold State.removeMany
  exact foldl_preserves AllM _ (fun s x hs => hs.removeTx x oob) ts s h

theorem frame_removeMany (s : State) (ts : List Tx) (oob : Bool) : Frame s (s.removeMany ts oob) := by
  unfold State.removeMany
  exact foldl_preserves (Frame s) _ (fun s1 x hs => hs.trans (frame_removeTx s1 x oob)) ts s (Frame.refl _)

end YouVerif.C20
