/-
C20 proofs, layer 3: the STRUCTURAL per-account invariant `AcctW` (holds at every point, also in the middle of a
reset) and the specifications of the list operations it needs.
-/
import YouVerif.C20.Proofs
namespace YouVerif.C20

/-- Structural per-account invariant: senders, strictly increasing nonces in both lists, no nonce in both lists,
cap caches bound the contents, heartbeat exactly for accounts with pending transactions. -/
structure AcctW (ac : Account) (a : Nat) : Prop where
  pSender : ∀ t ∈ ac.pending.txs, t.sender = a
  qSender : ∀ t ∈ ac.queue.txs, t.sender = a
  pSorted : Sorted ac.pending.txs
  qSorted : Sorted ac.queue.txs
  disj : ∀ p ∈ ac.pending.txs, ∀ q ∈ ac.queue.txs, p.nonce ≠ q.nonce
  pCaps : ∀ t ∈ ac.pending.txs, t.cost ≤ ac.pending.costcap ∧ t.gas ≤ ac.pending.gascap
  qCaps : ∀ t ∈ ac.queue.txs, t.cost ≤ ac.queue.costcap ∧ t.gas ≤ ac.queue.gascap
  /-- accounts with pending transactions have a heartbeat -/
  beat : ac.pending.txs ≠ [] → ac.beat ≠ 0

def AllW (s : State) : Prop := ∀ a, AcctW (s.acct a) a

theorem acctW_default (a : Nat) : AcctW ({} : Account) a := by
  constructor <;> simp [Sorted]

theorem sorted_nil : Sorted [] := List.Pairwise.nil

/-- two members of a sorted list with the same nonce are the same transaction -/
theorem Sorted.eq_of_nonce {l : List Tx} (h : Sorted l) {x y : Tx} (hx : x ∈ l) (hy : y ∈ l) (hn : x.nonce = y.nonce) : x = y := by
  induction l with
  | nil => simp at hx
  | cons z zs ih =>
    have hz := (List.pairwise_cons.mp h).1
    have hzs : Sorted zs := (List.pairwise_cons.mp h).2
    simp only [List.mem_cons] at hx hy
    rcases hx with rfl | hx <;> rcases hy with rfl | hy
    · rfl
    · have := hz _ hy; omega
    · have := hz _ hx; omega
    · exact ih hzs hx hy

theorem AcctW.congr {ac ac' : Account} {a : Nat} (h : AcctW ac a) (e1 : ac'.pending = ac.pending)
    (e2 : ac'.queue = ac.queue) (e3 : ac'.beat = ac.beat) : AcctW ac' a := by
  constructor <;> simp only [e1, e2, e3]
  · exact h.pSender
  · exact h.qSender
  · exact h.pSorted
  · exact h.qSorted
  · exact h.disj
  · exact h.pCaps
  · exact h.qCaps
  · exact h.beat

/-- pending replaced by a part of itself -/
theorem AcctW.setPending {ac ac' : Account} {a : Nat} (h : AcctW ac a) (p' : TxList)
    (hsub : ∀ x ∈ p'.txs, x ∈ ac.pending.txs) (hs : Sorted p'.txs)
    (hc : ∀ x ∈ p'.txs, x.cost ≤ p'.costcap ∧ x.gas ≤ p'.gascap)
    (e1 : ac'.pending = p') (e2 : ac'.queue = ac.queue) (e3 : p'.txs ≠ [] → ac'.beat ≠ 0) : AcctW ac' a := by
  constructor <;> simp only [e1, e2]
  · exact fun t ht => h.pSender t (hsub t ht)
  · exact h.qSender
  · exact hs
  · exact h.qSorted
  · exact fun p hp => h.disj p (hsub p hp)
  · exact hc
  · exact h.qCaps
  · exact e3

/-- queue replaced by a part of itself -/
theorem AcctW.setQueue {ac ac' : Account} {a : Nat} (h : AcctW ac a) (q' : TxList)
    (hsub : ∀ x ∈ q'.txs, x ∈ ac.queue.txs) (hs : Sorted q'.txs)
    (hc : ∀ x ∈ q'.txs, x.cost ≤ q'.costcap ∧ x.gas ≤ q'.gascap)
    (e1 : ac'.pending = ac.pending) (e2 : ac'.queue = q') (e3 : ac'.beat = ac.beat) : AcctW ac' a := by
  constructor <;> simp only [e1, e2, e3]
  · exact h.pSender
  · exact fun t ht => h.qSender t (hsub t ht)
  · exact h.pSorted
  · exact hs
  · exact fun p hp q hq => h.disj p hp q (hsub q hq)
  · exact h.pCaps
  · exact hc
  · exact h.beat

theorem put_caps (l : TxList) (t : Tx) (hc : ∀ x ∈ l.txs, x.cost ≤ l.costcap ∧ x.gas ≤ l.gascap) :
    ∀ x ∈ (l.put t).txs, x.cost ≤ (l.put t).costcap ∧ x.gas ≤ (l.put t).gascap := by
  intro x hx
  simp only [TxList.put] at hx ⊢
  rcases mem_insertN_or hx with rfl | hx
  · omega
  · have := hc x hx; omega

/-- a transaction of this account put into the queue at a nonce that is not pending -/
theorem AcctW.putQueue {ac ac' : Account} {a : Nat} (h : AcctW ac a) (t : Tx) (hs : t.sender = a)
    (hd : ∀ p ∈ ac.pending.txs, p.nonce ≠ t.nonce)
    (e1 : ac'.pending = ac.pending) (e2 : ac'.queue = ac.queue.put t) (e3 : ac'.beat = ac.beat) : AcctW ac' a := by
  constructor <;> simp only [e1, e2, e3]
  · exact h.pSender
  · intro x hx
    rcases mem_insertN_or hx with rfl | hx
    · exact hs
    · exact h.qSender x hx
  · exact h.pSorted
  · exact sorted_insertN h.qSorted
  · intro p hp q hq
    rcases mem_insertN_or hq with rfl | hq
    · exact hd p hp
    · exact h.disj p hp q hq
  · exact h.pCaps
  · exact put_caps _ _ h.qCaps
  · exact h.beat

/-- a transaction of this account put into pending at a nonce that is not queued -/
theorem AcctW.putPending {ac ac' : Account} {a : Nat} (h : AcctW ac a) (t : Tx) (hs : t.sender = a)
    (hd : ∀ q ∈ ac.queue.txs, q.nonce ≠ t.nonce)
    (e1 : ac'.pending = ac.pending.put t) (e2 : ac'.queue = ac.queue) (e3 : ac'.beat ≠ 0) : AcctW ac' a := by
  constructor <;> simp only [e1, e2]
  · intro x hx
    rcases mem_insertN_or hx with rfl | hx
    · exact hs
    · exact h.pSender x hx
  · exact h.qSender
  · exact sorted_insertN h.pSorted
  · exact h.qSorted
  · intro p hp q hq
    rcases mem_insertN_or hp with rfl | hp
    · exact fun e => hd q hq e.symm
    · exact h.disj p hp q hq
  · exact put_caps _ _ h.pCaps
  · exact h.qCaps
  · exact fun _ => e3

/-! ### specifications of the list operations -/

/-- `txList.Add`: either refused, or the list with the transaction put in (and the old one at that nonce, if any) -/
theorem add_spec (l : TxList) (t : Tx) (bump : Nat) :
    (l.add t bump = (false, none, l)) ∨
    (∃ old, l.add t bump = (true, old, l.put t) ∧ (∀ o, old = some o → o ∈ l.txs ∧ o.nonce = t.nonce) ∧
      (old = none → ∀ x ∈ l.txs, x.nonce ≠ t.nonce)) := by
  unfold TxList.add
  split
  · rename_i o ho
    split
    · exact .inl rfl
    · refine .inr ⟨some o, rfl, ?_, by simp⟩
      intro o' ho'
      cases ho'
      exact getN_some_mem ho
  · rename_i hn
    exact .inr ⟨none, rfl, by simp, fun _ => getN_none hn⟩

theorem mem_take {l : List Tx} {k : Nat} {x : Tx} (h : x ∈ l.take k) : x ∈ l := List.mem_of_mem_take h
theorem mem_drop {l : List Tx} {k : Nat} {x : Tx} (h : x ∈ l.drop k) : x ∈ l := List.mem_of_mem_drop h

/-- in a sorted list the kept prefix and the dropped suffix have different nonces -/
theorem sorted_take_drop_lt {l : List Tx} (h : Sorted l) (k : Nat) :
    ∀ x ∈ l.take k, ∀ y ∈ l.drop k, x.nonce < y.nonce := by
  have : Sorted (l.take k ++ l.drop k) := by rw [List.take_append_drop]; exact h
  exact sorted_append_lt this

/-- `Cap`: (dropped, kept) partition the list; kept is a prefix -/
theorem cap_spec (l : TxList) (k : Nat) (hs : Sorted l.txs) :
    (∀ x ∈ (l.cap k).2.txs, x ∈ l.txs) ∧ (∀ x ∈ (l.cap k).1, x ∈ l.txs) ∧ Sorted (l.cap k).2.txs ∧
    (l.cap k).2.costcap = l.costcap ∧ (l.cap k).2.gascap = l.gascap ∧
    (∀ x ∈ (l.cap k).2.txs, ∀ y ∈ (l.cap k).1, x.nonce < y.nonce) ∧
    (∀ x ∈ l.txs, x ∈ (l.cap k).2.txs ∨ x ∈ (l.cap k).1) := by
  unfold TxList.cap
  split
  · exact ⟨fun _ h => h, by simp, hs, rfl, rfl, by simp, fun _ h => .inl h⟩
  · refine ⟨fun _ h => mem_take h, ?_, hs.sublist (List.take_sublist _ _), rfl, rfl, ?_, ?_⟩
    · intro x hx; exact mem_drop (List.mem_reverse.mp hx)
    · intro x hx y hy; exact sorted_take_drop_lt hs k x hx y (List.mem_reverse.mp hy)
    · intro x hx
      have : x ∈ l.txs.take k ++ l.txs.drop k := by rw [List.take_append_drop]; exact hx
      rcases List.mem_append.mp this with h | h
      · exact .inl h
      · exact .inr (List.mem_reverse.mpr h)

theorem lowestNonce_le (l : List Tx) : ∀ x ∈ l, lowestNonce l ≤ x.nonce := by
  unfold lowestNonce
  suffices h : ∀ (m : Nat), (l.foldl (fun m t => if m > t.nonce then t.nonce else m) m ≤ m) ∧
      ∀ x ∈ l, l.foldl (fun m t => if m > t.nonce then t.nonce else m) m ≤ x.nonce from (h _).2
  induction l with
  | nil => simp
  | cons y ys ih =>
    intro m
    simp only [List.foldl_cons, List.mem_cons]
    by_cases hm : m > y.nonce
    · simp only [hm, if_true]
      have := ih y.nonce
      refine ⟨by omega, ?_⟩
      intro x hx
      rcases hx with rfl | hx
      · exact this.1
      · exact this.2 x hx
    · simp only [hm, if_false]
      have := ih m
      refine ⟨this.1, ?_⟩
      intro x hx
      rcases hx with rfl | hx
      · omega
      · exact this.2 x hx

/-- `txList.Filter`: what is kept / handed back -/
theorem filter_spec (l : TxList) (strict : Bool) (cl gl : Nat) (hs : Sorted l.txs)
    (hc : ∀ x ∈ l.txs, x.cost ≤ l.costcap ∧ x.gas ≤ l.gascap) :
    let r := l.filter strict cl gl
    (∀ x ∈ r.2.2.txs, x ∈ l.txs) ∧ (∀ x ∈ r.2.1, x ∈ l.txs) ∧ (∀ x ∈ r.1, x ∈ l.txs) ∧ Sorted r.2.2.txs ∧
    (∀ x ∈ r.2.2.txs, x.cost ≤ r.2.2.costcap ∧ x.gas ≤ r.2.2.gascap) ∧
    (∀ x ∈ r.2.2.txs, x.cost ≤ cl ∧ x.gas ≤ gl) ∧
    (∀ x ∈ r.2.2.txs, ∀ y ∈ r.2.1, x.nonce < y.nonce) ∧
    (∀ x ∈ r.2.2.txs, ∀ y ∈ r.1, x.nonce ≠ y.nonce) ∧
    (∀ x ∈ l.txs, x ∈ r.2.2.txs ∨ x ∈ r.2.1 ∨ x ∈ r.1) := by
  intro r
  simp only [r]
  have key : ∀ x, x ∈ l.txs.filter (fun t => !(decide (t.cost > cl) || decide (t.gas > gl))) → x.cost ≤ cl ∧ x.gas ≤ gl := by
    intro x hx
    have := (List.mem_filter.mp hx).2
    simp at this
    omega
  unfold TxList.filter
  split
  · rename_i hcond
    refine ⟨fun _ h => h, by simp, by simp, hs, hc, ?_, by simp, by simp, fun _ h => .inl h⟩
    intro x hx
    have := hc x hx
    omega
  · simp only
    split
    · refine ⟨?_, ?_, ?_, ?_, ?_, ?_, ?_, ?_, ?_⟩
      · intro x hx; exact (List.mem_filter.mp (List.mem_filter.mp hx).1).1
      · intro x hx; exact (List.mem_filter.mp (List.mem_filter.mp hx).1).1
      · intro x hx; exact (List.mem_filter.mp hx).1
      · exact (hs.filter _).filter _
      · intro x hx; exact key x (List.mem_filter.mp hx).1
      · intro x hx; exact key x (List.mem_filter.mp hx).1
      · intro x hx y hy
        have h1 := (List.mem_filter.mp hx).2
        have h2 := (List.mem_filter.mp hy).2
        simp at h1 h2; omega
      · intro x hx y hy hn
        have hx1 := List.mem_filter.mp hx
        have hxl := List.mem_filter.mp hx1.1
        have hyl := List.mem_filter.mp hy
        have := hs.eq_of_nonce hxl.1 hyl.1 hn
        subst this
        have h1 := hxl.2; have h2 := hyl.2
        simp at h1 h2
        omega
      · intro x hx
        by_cases hb : (decide (x.cost > cl) || decide (x.gas > gl)) = true
        · exact .inr (.inr (List.mem_filter.mpr ⟨hx, hb⟩))
        · have hk : x ∈ l.txs.filter (fun t => !(decide (t.cost > cl) || decide (t.gas > gl))) :=
            List.mem_filter.mpr ⟨hx, by simpa using hb⟩
          by_cases hl : x.nonce > lowestNonce (l.txs.filter (fun t => decide (t.cost > cl) || decide (t.gas > gl)))
          · exact .inr (.inl (List.mem_filter.mpr ⟨hk, by simpa using hl⟩))
          · exact .inl (List.mem_filter.mpr ⟨hk, by simpa using hl⟩)
    · refine ⟨?_, by simp, ?_, hs.filter _, ?_, ?_, by simp, ?_, ?_⟩
      · intro x hx; exact (List.mem_filter.mp hx).1
      · intro x hx; exact (List.mem_filter.mp hx).1
      · exact key
      · exact key
      · intro x hx y hy hn
        have hxl := List.mem_filter.mp hx
        have hyl := List.mem_filter.mp hy
        have := hs.eq_of_nonce hxl.1 hyl.1 hn
        subst this
        have h1 := hxl.2; have h2 := hyl.2
        simp at h1 h2
        omega
      · intro x hx
        by_cases hb : (decide (x.cost > cl) || decide (x.gas > gl)) = true
        · exact .inr (.inr (List.mem_filter.mpr ⟨hx, hb⟩))
        · exact .inl (List.mem_filter.mpr ⟨hx, by simpa using hb⟩)

/-- `Ready`: (ready, kept) split the sorted list at a point -/
theorem readyN_split (l : List Tx) (start : Nat) : (readyN l start).1 ++ (readyN l start).2 = l := (readyN_spec l start).1

theorem ready_spec (l : List Tx) (start : Nat) (hs : Sorted l) :
    (∀ x ∈ (readyN l start).1, x ∈ l) ∧ (∀ x ∈ (readyN l start).2, x ∈ l) ∧ Sorted (readyN l start).1 ∧
    Sorted (readyN l start).2 ∧ (∀ x ∈ (readyN l start).1, ∀ y ∈ (readyN l start).2, x.nonce < y.nonce) := by
  have e := readyN_split l start
  have hs' : Sorted ((readyN l start).1 ++ (readyN l start).2) := by rw [e]; exact hs
  refine ⟨fun x hx => by rw [← e]; exact List.mem_append_left _ hx, fun x hx => by rw [← e]; exact List.mem_append_right _ hx,
    hs'.sublist (List.sublist_append_left _ _), hs'.sublist (List.sublist_append_right _ _), sorted_append_lt hs'⟩

/-- strict `Remove` by nonce: kept part below, handed-back part above -/
theorem remove_strict_spec (l : TxList) (t : Tx) (hs : Sorted l.txs) :
    let r := l.remove true t
    (r.1 = false → r.2.2 = l ∧ r.2.1 = [] ∧ ∀ x ∈ l.txs, x.nonce ≠ t.nonce) ∧
    (r.1 = true → (∀ x ∈ r.2.2.txs, x ∈ l.txs ∧ x.nonce < t.nonce) ∧ (∀ x ∈ r.2.1, x ∈ l.txs ∧ t.nonce < x.nonce) ∧
      r.2.2.costcap = l.costcap ∧ r.2.2.gascap = l.gascap ∧ Sorted r.2.2.txs ∧
      (∀ x ∈ l.txs, x.nonce < t.nonce → x ∈ r.2.2.txs) ∧ (∀ x ∈ l.txs, t.nonce < x.nonce → x ∈ r.2.1) ∧
      r.2.2.txs = l.txs.filter (fun x => decide (x.nonce < t.nonce))) := by
  intro r
  simp only [r]
  unfold TxList.remove
  split
  · rename_i hn
    exact ⟨fun _ => ⟨rfl, rfl, getN_none hn⟩, by simp⟩
  · simp only [if_true]
    refine ⟨by simp, fun _ => ⟨?_, ?_, trivial, trivial, (hs.filter _).filter _, ?_, ?_, strict_remove_kept _ _⟩⟩
    · intro x hx
      have h1 := List.mem_filter.mp hx
      have h2 := List.mem_filter.mp h1.1
      have a := h1.2; have b := h2.2
      simp at a b
      exact ⟨h2.1, by omega⟩
    · intro x hx
      have h1 := List.mem_filter.mp hx
      have h2 := List.mem_filter.mp h1.1
      have a := h1.2
      simp at a
      exact ⟨h2.1, a⟩
    · intro x hx hlt
      rw [strict_remove_kept]
      exact List.mem_filter.mpr ⟨hx, by simpa using hlt⟩
    · intro x hx hlt
      refine List.mem_filter.mpr ⟨List.mem_filter.mpr ⟨hx, ?_⟩, by simpa using hlt⟩
      simp; omega

/-- non-strict `Remove` by nonce -/
theorem remove_loose_spec (l : TxList) (t : Tx) (hs : Sorted l.txs) :
    (∀ x ∈ (l.remove false t).2.2.txs, x ∈ l.txs ∧ ((l.remove false t).1 = true → x.nonce ≠ t.nonce)) ∧
    Sorted (l.remove false t).2.2.txs ∧
    (l.remove false t).2.2.costcap = l.costcap ∧ (l.remove false t).2.2.gascap = l.gascap ∧
    (∀ x ∈ l.txs, x.nonce ≠ t.nonce → x ∈ (l.remove false t).2.2.txs) := by
  unfold TxList.remove
  split
  · exact ⟨fun x hx => ⟨hx, by simp⟩, hs, rfl, rfl, fun x hx _ => hx⟩
  · simp only [Bool.false_eq_true, if_false]
    refine ⟨?_, hs.filter _, trivial, trivial, ?_⟩
    · intro x hx
      have h1 := List.mem_filter.mp hx
      exact ⟨h1.1, fun _ => by simpa using h1.2⟩
    · intro x hx hn
      exact List.mem_filter.mpr ⟨hx, by simpa using hn⟩

end YouVerif.C20
