/-
C20 proofs, layer 7 (limits), part 2: `truncateQueue` establishes the queue limit in the form the code enforces it
(`QCap`) and touches nothing but queues (so it keeps `PCap`).
-/
import YouVerif.C20.ProofsE
import YouVerif.C20.ProofsG
namespace YouVerif.C20

/-! ### list facts -/

theorem Sorted.nodup {l : List Tx} (h : Sorted l) : l.Nodup :=
  List.Pairwise.imp (fun h e => by subst e; omega) h

theorem filter_ne_length {l : List Tx} {t : Tx} (hnd : l.Nodup) (ht : t ∈ l) :
    (l.filter (fun x => x != t)).length + 1 = l.length := by
  induction l with
  | nil => simp at ht
  | cons x xs ih =>
    have h := List.nodup_cons.mp hnd
    by_cases hx : x = t
    · subst hx
      have : xs.filter (fun y => y != x) = xs := by
        rw [List.filter_eq_self]
        intro y hy
        exact bne_iff_ne.mpr (fun e => h.1 (e ▸ hy))
      simp [this]
    · have htx : t ∈ xs := by
        simp only [List.mem_cons] at ht
        rcases ht with rfl | ht
        · exact absurd rfl hx
        · exact ht
      have := ih h.2 htx
      simp only [List.filter_cons, bne_iff_ne.mpr hx, if_true, List.length_cons]
      omega

theorem nodup_reverse_of {l : List Tx} (h : l.Nodup) : l.reverse.Nodup := by
  unfold List.Nodup
  rw [List.pairwise_reverse]
  exact List.Pairwise.imp (fun h e => h e.symm) h

theorem insertAsc_perm (key : Nat → Nat) (a : Nat) (l : List Nat) : (insertAsc key a l).Perm (a :: l) := by
  induction l with
  | nil => exact List.Perm.refl _
  | cons x xs ih =>
    unfold insertAsc
    split
    · exact List.Perm.refl _
    · exact (List.Perm.cons x ih).trans (List.Perm.swap a x xs)

theorem foldl_insertAsc_perm (key : Nat → Nat) (cand acc : List Nat) :
    (cand.foldl (fun acc a => insertAsc key a acc) acc).Perm (cand ++ acc) := by
  induction cand generalizing acc with
  | nil => exact List.Perm.refl _
  | cons c cs ih =>
    simp only [List.foldl_cons]
    exact (ih _).trans ((List.Perm.append_left cs (insertAsc_perm key c acc)).trans List.perm_middle)

/-! ### removing queued transactions of one account -/

/-- Removing distinct QUEUED transactions of account `a` (under the structural invariant and the index clauses):
both invariants survive, nothing but `a`'s queue changes, that queue loses exactly the removed transactions and the
global queued count drops by their number. -/
theorem removeMany_queued {s : State} (hw : AllW s) (hg : GI s) (a : Nat) (ts : List Tx) (oob : Bool)
    (hsub : ∀ t ∈ ts, t ∈ (s.acct a).queue.txs) (hnd : ts.Nodup) :
    AllW (s.removeMany ts oob) ∧ GI (s.removeMany ts oob) ∧ QFrame s (s.removeMany ts oob) ∧
    (∀ b, b ≠ a → (s.removeMany ts oob).acct b = s.acct b) ∧
    (∀ x, x ∈ ((s.removeMany ts oob).acct a).queue.txs ↔ (x ∈ (s.acct a).queue.txs ∧ x ∉ ts)) ∧
    (s.removeMany ts oob).queuedCount + ts.length = s.queuedCount := by
  induction ts generalizing s with
  | nil => exact ⟨hw, hg, QFrame.refl _, fun _ _ => rfl, fun x => by simp [State.removeMany], rfl⟩
  | cons t ts ih =>
    have hnd' := List.nodup_cons.mp hnd
    have htq : t ∈ (s.acct a).queue.txs := hsub t (by simp)
    have hs : t.sender = a := (hw a).qSender t htq
    have hlt : a < s.n := lt_n_of_queue (List.ne_nil_of_mem htq)
    have rq := removeTx_queued hw hg t oob (by rw [hs]; exact htq)
    rw [hs] at rq
    obtain ⟨r1, _, r3, r4, r5, r6, r7, _⟩ := rq
    have hstep : s.removeMany (t :: ts) oob = (s.removeTx t oob).removeMany ts oob := rfl
    have hf1 : QFrame s (s.removeTx t oob) :=
      ⟨r6, r7, r5, fun b => ⟨(r3 b).1, (r3 b).2.2.2.1, (r3 b).2.2.2.2.2, (r3 b).2.2.1, (r3 b).2.2.2.2.1, (r3 b).2.1⟩⟩
    have hsub1 : ∀ t' ∈ ts, t' ∈ ((s.removeTx t oob).acct a).queue.txs := by
      intro t' ht'
      rw [r1]
      exact List.mem_filter.mpr ⟨hsub t' (by simp [ht']), bne_iff_ne.mpr (fun e => hnd'.1 (e ▸ ht'))⟩
    have hc1 : (s.removeTx t oob).queuedCount + 1 = s.queuedCount := by
      have h1 := queuedCount_one_change (s := s) (s' := s.removeTx t oob) a r6 hlt
        (fun b hb => by unfold State.qlen; rw [r4 b hb])
      have h2 : (s.removeTx t oob).qlen a + 1 = s.qlen a := by
        unfold State.qlen; rw [r1]; exact filter_ne_length (hw a).qSorted.nodup htq
      omega
    obtain ⟨i1, i2, i3, i4, i5, i6⟩ := ih (hw.removeTx t oob) (hg.removeTx hw t oob) hsub1 hnd'.2
    rw [hstep]
    refine ⟨i1, i2, hf1.trans i3, fun b hb => by rw [i4 b hb, r4 b hb], fun x => ?_, ?_⟩
    · rw [i5 x, r1, List.mem_filter, bne_iff_ne, List.mem_cons]
      constructor
      · rintro ⟨⟨h1, h2⟩, h3⟩
        exact ⟨h1, fun h => h.elim h2 h3⟩
      · rintro ⟨h1, h2⟩
        exact ⟨⟨h1, fun e => h2 (.inl e)⟩, fun h => h2 (.inr h)⟩
    · simp only [List.length_cons]; omega

/-! ### `queueDropLoop` / `truncateQueue` -/

/-- The drop loop touches only queues and keeps both invariants.  Loop invariant for the limit: the queued count
exceeds the limit by at most `drop`, and the list still holds every non-local account with a queue; then at the end
the count is within the limit or every non-local queue is empty. -/
theorem queueDropLoop_spec (as : List Nat) {s : State} (hw : AllW s) (hg : GI s) (drop : Nat) :
    QFrame s (queueDropLoop as s drop) ∧ AllW (queueDropLoop as s drop) ∧ GI (queueDropLoop as s drop) ∧
    (s.queuedCount ≤ s.cfg.globalQueue + drop →
      (∀ b, (s.acct b).isLocal = false → (s.acct b).queue.txs ≠ [] → b ∈ as) → QCap (queueDropLoop as s drop)) := by
  induction as generalizing s drop with
  | nil =>
    refine ⟨QFrame.refl _, hw, hg, fun _ hcov => .inr (fun b hl => ?_)⟩
    false_or_by_contra
    rename_i hne
    have := hcov b hl hne
    simp at this
  | cons a rest ih =>
    unfold queueDropLoop
    split
    · rename_i hz
      exact ⟨QFrame.refl _, hw, hg, fun hcnt _ => .inl (by omega)⟩
    · simp only
      split
      · rename_i hlen
        obtain ⟨m1, m2, m3, m4, m5, m6⟩ :=
          removeMany_queued hw hg a (s.acct a).queue.txs true (fun _ h => h) (hw a).qSorted.nodup
        have hcfg : (s.removeMany (s.acct a).queue.txs true).cfg = s.cfg := m3.2.2.1
        obtain ⟨j1, j2, j3, j4⟩ := ih m1 m2 (drop - (s.acct a).queue.txs.length)
        refine ⟨m3.trans j1, j2, j3, fun hcnt hcov => j4 (by rw [hcfg]; omega) ?_⟩
        intro b hl hne
        by_cases hb : b = a
        · subst hb
          exfalso
          obtain ⟨x, hx⟩ := List.exists_mem_of_ne_nil _ hne
          have := (m5 x).mp hx
          exact this.2 this.1
        · rw [m4 b hb] at hl hne
          have := hcov b hl hne
          simp only [List.mem_cons] at this
          rcases this with h | h
          · exact absurd h hb
          · exact h
      · rename_i hlen
        have hlen' : drop < (s.acct a).queue.txs.length := by omega
        obtain ⟨m1, m2, m3, _, _, m6⟩ :=
          removeMany_queued hw hg a (((s.acct a).queue.txs.drop ((s.acct a).queue.txs.length - drop)).reverse) true
            (fun t ht => List.mem_of_mem_drop (List.mem_reverse.mp ht))
            (nodup_reverse_of ((hw a).qSorted.nodup.sublist (List.drop_sublist _ _)))
        refine ⟨m3, m1, m2, fun hcnt _ => .inl ?_⟩
        rw [m3.2.2.1]
        simp only [List.length_reverse, List.length_drop] at m6
        omega

/-- `truncateQueue` touches only queues (under the structural invariant and the index clauses), both invariants
survive, and over an order that covers every account the queue limit holds afterwards -/
theorem truncateQueue_spec {s : State} (hw : AllW s) (hg : GI s) (ord : List Nat) :
    QFrame s (s.truncateQueue ord) ∧ AllW (s.truncateQueue ord) ∧ GI (s.truncateQueue ord) ∧
    ((∀ b, b < s.n → b ∈ ord) → QCap (s.truncateQueue ord)) := by
  unfold State.truncateQueue
  simp only
  split
  · rename_i hle
    exact ⟨QFrame.refl _, hw, hg, fun _ => .inl hle⟩
  · rename_i hgt
    obtain ⟨j1, j2, j3, j4⟩ := queueDropLoop_spec
      (List.foldl (fun acc a => insertAsc (fun a => (s.acct a).beat) a acc) []
        (List.filter (fun a => !(s.acct a).queue.txs.isEmpty && !(s.acct a).isLocal) ord)).reverse
      hw hg (s.queuedCount - s.cfg.globalQueue)
    refine ⟨j1, j2, j3, fun hcov => j4 (by omega) ?_⟩
    intro b hl hne
    rw [List.mem_reverse, (foldl_insertAsc_perm _ _ _).mem_iff, List.append_nil, List.mem_filter]
    refine ⟨hcov b (lt_n_of_queue hne), ?_⟩
    simp [hl, hne]

/-- (Q) after `truncateQueue` over an order that covers every account, the queue limit holds in the form the code
enforces it -/
theorem truncateQueue_qcap {s : State} (hw : AllW s) (hg : GI s) (ord : List Nat) (hcov : ∀ b, b < s.n → b ∈ ord) :
    QCap (s.truncateQueue ord) := (truncateQueue_spec hw hg ord).2.2.2 hcov

theorem truncateQueue_qframe {s : State} (hw : AllW s) (hg : GI s) (ord : List Nat) : QFrame s (s.truncateQueue ord) :=
  (truncateQueue_spec hw hg ord).1

theorem truncateQueue_gi {s : State} (hw : AllW s) (hg : GI s) (ord : List Nat) : GI (s.truncateQueue ord) :=
  (truncateQueue_spec hw hg ord).2.2.1

/-- a queue-only step keeps the pending limit -/
theorem QFrame.pcap {s s' : State} (hf : QFrame s s') (h : PCap s) : PCap s' := by
  have hc : s'.pendingCount = s.pendingCount :=
    pendingCount_congr hf.1 (fun b => by unfold State.plen; rw [(hf.2.2.2 b).1])
  rcases h with h | h
  · exact .inl (by rw [hc, hf.2.2.1]; exact h)
  · right
    intro a hl
    rw [(hf.2.2.2 a).2.2.2.2.2] at hl
    rw [(hf.2.2.2 a).1, hf.2.2.1]; exact h a hl

/-- a pending-only step keeps the queue limit -/
theorem PFrame.qcap {s s' : State} (hf : PFrame s s') (h : QCap s) : QCap s' := by
  have hc : s'.queuedCount = s.queuedCount :=
    queuedCount_congr hf.1 (fun b => by unfold State.qlen; rw [(hf.2.2.2 b).1])
  rcases h with h | h
  · exact .inl (by rw [hc, hf.2.2.1]; exact h)
  · right
    intro a hl
    rw [(hf.2.2.2 a).2.2.2] at hl
    rw [(hf.2.2.2 a).1]; exact h a hl

theorem truncateQueue_keeps_pcap {s : State} (hw : AllW s) (hg : GI s) (ord : List Nat) (h : PCap s) :
    PCap (s.truncateQueue ord) := (truncateQueue_qframe hw hg ord).pcap h

/-- the truncation pair of a reorg run establishes both limits (from the structural invariant and the index clauses
holding before `truncateQueue`) -/
theorem truncate_pair_caps {s : State} (hw : AllW s) (ord : List Nat) (hg' : GI (s.truncatePending ord))
    (hcov : ∀ b, b < s.n → b ∈ ord) (hnd : ord.Nodup) :
    PCap ((s.truncatePending ord).truncateQueue ord) ∧ QCap ((s.truncatePending ord).truncateQueue ord) := by
  have hw' := hw.truncatePending ord
  have hn : (s.truncatePending ord).n = s.n := (truncatePending_pframe s ord).1
  exact ⟨truncateQueue_keeps_pcap hw' hg' ord (truncatePending_pcap hw ord hcov hnd),
    truncateQueue_qcap hw' hg' ord (fun b hb => hcov b (by rw [← hn]; exact hb))⟩

/-- the closing run of every reorg (`truncatePending`, `truncateQueue`, nonce refresh over the normalised order)
establishes both limits; `n0` is the table length at the time the order was normalised -/
theorem reorg_tail_caps {s : State} (hw : AllW s) (n0 : Nat) (hn : s.n = n0) (ord : List Nat)
    (hg' : GI (s.truncatePending (normOrd n0 ord))) :
    PCap (((s.truncatePending (normOrd n0 ord)).truncateQueue (normOrd n0 ord)).refreshNonces) ∧
    QCap (((s.truncatePending (normOrd n0 ord)).truncateQueue (normOrd n0 ord)).refreshNonces) := by
  have := truncate_pair_caps hw (normOrd n0 ord) hg' (fun b hb => mem_normOrd _ _ _ (by rw [← hn]; exact hb))
    (normOrd_nodup _ _)
  exact ⟨refreshNonces_pcap this.1, refreshNonces_qcap this.2⟩

end YouVerif.C20
