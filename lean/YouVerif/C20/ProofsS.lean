/-
C20 proofs, layer 5: the SHAPE clauses (pending gap-free from the state nonce and payable, queued above) are
(re-)established by `demoteUnexecutables` from any structurally valid state, and kept by truncation / removal /
nonce refresh — hence they hold after every reset.
-/
import YouVerif.C20.ProofsWState
namespace YouVerif.C20

/-- queued transactions are not below the state nonce -/
def Q1 (ac : Account) : Prop := ∀ q ∈ ac.queue.txs, ac.nonce ≤ q.nonce

/-- shape of one account: pending gap-free from the state nonce, payable and within the block limit, queue above -/
structure Shape (ac : Account) (mg : Nat) : Prop where
  pChain : Chain ac.nonce ac.pending.txs
  pAfford : ∀ t ∈ ac.pending.txs, t.cost ≤ ac.balance ∧ t.gas ≤ mg
  qAbove : ∀ q ∈ ac.queue.txs, ac.nonce + ac.pending.txs.length ≤ q.nonce

theorem shape_default (mg : Nat) : Shape ({} : Account) mg := ⟨.nil _, by simp, by simp⟩

theorem Shape.q1 {ac : Account} {mg : Nat} (h : Shape ac mg) : Q1 ac := fun q hq => by have := h.qAbove q hq; omega

/-! ### frames -/

theorem enqueueTx_other (s : State) (t : Tx) (b : Nat) (hb : b ≠ t.sender) : (s.enqueueTx t).1.acct b = s.acct b := by
  rcases enqueueTx_shape s t with ⟨_, e, _⟩ | ⟨old, _, _, _, _, e⟩
  · rw [e]
  · rw [e.acct b, acct_upd]; simp [Ne.symm hb]

theorem enqueueTx_queue_mem (s : State) (t : Tx) (b : Nat) :
    ∀ x ∈ ((s.enqueueTx t).1.acct b).queue.txs, x ∈ (s.acct b).queue.txs ∨ (x = t ∧ b = t.sender) := by
  rcases enqueueTx_shape s t with ⟨_, e, _⟩ | ⟨old, _, _, _, _, e⟩
  · rw [e]; exact fun x hx => .inl hx
  · intro x hx
    rw [e.acct b, acct_upd] at hx
    split at hx
    · rename_i hc
      rcases mem_insertN_or hx with rfl | hx
      · exact .inr ⟨rfl, hc.1.symm⟩
      · rw [← hc.1]; exact .inl hx
    · exact .inl hx

theorem enqueueMany_queue_mem (s : State) (ts : List Tx) (b : Nat) :
    ∀ x ∈ ((s.enqueueMany ts).acct b).queue.txs, x ∈ (s.acct b).queue.txs ∨ (x ∈ ts ∧ b = x.sender) := by
  unfold State.enqueueMany
  induction ts generalizing s with
  | nil => exact fun x hx => .inl hx
  | cons t ts ih =>
    intro x hx
    simp only [List.foldl_cons] at hx
    rcases ih _ x hx with h | ⟨h, hb⟩
    · rcases enqueueTx_queue_mem s t b x h with h | ⟨rfl, hb⟩
      · exact .inl h
      · exact .inr ⟨by simp, hb⟩
    · exact .inr ⟨by simp [h], hb⟩

theorem enqueueMany_other (s : State) (ts : List Tx) (a b : Nat) (hs : ∀ x ∈ ts, x.sender = a) (hb : b ≠ a) :
    (s.enqueueMany ts).acct b = s.acct b := by
  unfold State.enqueueMany
  induction ts generalizing s with
  | nil => rfl
  | cons t ts ih =>
    simp only [List.foldl_cons]
    rw [ih _ (fun x hx => hs x (by simp [hx])), enqueueTx_other s t b (by rw [hs t (by simp)]; exact hb)]

/-! ### what demoteUnexecutables leaves for one account -/

theorem take_cap (l : TxList) (k : Nat) : (l.cap k).2.txs = l.txs.take k := by
  unfold TxList.cap
  split
  · rename_i h; simp only; rw [List.take_of_length_le h]
  · rfl

/-- account-level core: the list part of the demotion of one account -/
theorem demote_core {ac : Account} {a : Nat} (hW : AcctW ac a) (hQ : Q1 ac) (mg : Nat) :
    let sc := pendingScan ac mg
    let run := contigRun sc.2.2.2.txs.length sc.2.2.2.txs ac.nonce
    let cp := if run < sc.2.2.2.txs.length then sc.2.2.2.cap run else ([], sc.2.2.2)
    Chain ac.nonce cp.2.txs ∧ (∀ t ∈ cp.2.txs, t.cost ≤ ac.balance ∧ t.gas ≤ mg) ∧
    (∀ q, (q ∈ ac.queue.txs ∨ q ∈ sc.2.2.1 ∨ q ∈ cp.1) → ac.nonce + cp.2.txs.length ≤ q.nonce) := by
  intro sc run cp
  -- facts about the scan
  have hs0 : Sorted (forwardN ac.pending.txs ac.nonce).2 := hW.pSorted.filter _
  have hsub0 : ∀ x ∈ (forwardN ac.pending.txs ac.nonce).2, x ∈ ac.pending.txs ∧ ac.nonce ≤ x.nonce := by
    intro x hx
    have := List.mem_filter.mp hx
    exact ⟨this.1, by simpa using this.2⟩
  have fs := filter_spec ({ ac.pending with txs := (forwardN ac.pending.txs ac.nonce).2 } : TxList) true ac.balance mg hs0
    (fun x hx => hW.pCaps x (hsub0 x hx).1)
  simp only at fs
  obtain ⟨f1, f2, _, f4, _, f6, f7, _, _⟩ := fs
  have hp1 : sc.2.2.2 = (({ ac.pending with txs := (forwardN ac.pending.txs ac.nonce).2 } : TxList).filter true ac.balance mg).2.2 := rfl
  have hinv : sc.2.2.1 = (({ ac.pending with txs := (forwardN ac.pending.txs ac.nonce).2 } : TxList).filter true ac.balance mg).2.1 := rfl
  have hge : ∀ t ∈ sc.2.2.2.txs, ac.nonce ≤ t.nonce := fun t ht => (hsub0 t (f1 t (hp1 ▸ ht))).2
  have hsort : Sorted sc.2.2.2.txs := hp1 ▸ f4
  have hchain := demote_gap_step (n := ac.nonce) hsort hge
  -- the kept part is the first `run` transactions in both cases
  have hcp : cp.2.txs = sc.2.2.2.txs.take run ∧ (∀ y ∈ cp.1, y ∈ sc.2.2.2.txs ∧ ∀ x ∈ cp.2.txs, x.nonce ≠ y.nonce) := by
    simp only [cp]
    split
    · refine ⟨take_cap _ _, fun y hy => ?_⟩
      have cs := cap_spec sc.2.2.2 run hsort
      exact ⟨cs.2.1 y hy, fun x hx => by have := cs.2.2.2.2.2.1 x hx y hy; omega⟩
    · rename_i hlen
      exact ⟨by show sc.2.2.2.txs = _; exact (List.take_of_length_le (by omega)).symm, by simp⟩
  have hsubcp : ∀ x ∈ cp.2.txs, x ∈ sc.2.2.2.txs := fun x hx => by rw [hcp.1] at hx; exact mem_take hx
  have hch : Chain ac.nonce cp.2.txs := by rw [hcp.1]; exact hchain
  refine ⟨hch, fun t ht => f6 t (hp1 ▸ hsubcp t ht), ?_⟩
  intro q hq
  rcases hq with hq | hq | hq
  · -- an old queued transaction: not below the state nonce, and at no pending nonce
    refine chain_free_slot hch (hQ q hq) (fun x hx => ?_)
    exact hW.disj x (hsub0 x (f1 x (hp1 ▸ hsubcp x hx))).1 q hq
  · -- invalidated by the strict filter
    have hq' := f2 q (hinv ▸ hq)
    refine chain_free_slot hch (hsub0 q hq').2 (fun x hx => ?_)
    have := f7 x (hp1 ▸ hsubcp x hx) q (hinv ▸ hq)
    omega
  · -- above the first gap
    have := hcp.2 q hq
    exact chain_free_slot hch (hge q this.1) (fun x hx => this.2 x hx)

/-- fields of the demoted account and the untouched rest -/
theorem demoteAccount_acct {s : State} (h : AllW s) (a : Nat) (hne : (s.acct a).pending.txs ≠ []) :
    let sc := pendingScan (s.acct a) s.maxGas
    let run := contigRun sc.2.2.2.txs.length sc.2.2.2.txs (s.acct a).nonce
    let cp := if run < sc.2.2.2.txs.length then sc.2.2.2.cap run else ([], sc.2.2.2)
    ((s.demoteAccount a).acct a).pending.txs = cp.2.txs ∧ ((s.demoteAccount a).acct a).nonce = (s.acct a).nonce ∧
    ((s.demoteAccount a).acct a).balance = (s.acct a).balance ∧
    (∀ x ∈ ((s.demoteAccount a).acct a).queue.txs, x ∈ (s.acct a).queue.txs ∨ x ∈ sc.2.2.1 ∨ x ∈ cp.1) ∧
    (∀ b, b ≠ a → (s.demoteAccount a).acct b = s.acct b) ∧ (s.demoteAccount a).maxGas = s.maxGas ∧
    (s.demoteAccount a).n = s.n := by
  intro sc run cp
  have hlt : a < s.n := lt_n_of_pending hne
  have hA := h a
  have sp := pendingScan_spec hA s.maxGas
  simp only at sp
  obtain ⟨p1, _, _, p4⟩ := sp
  -- the state before the gap step
  let s1 := ((s.allRemoveMany sc.1).allRemoveMany sc.2.1).pricedRemoved (sc.1.length + sc.2.1.length)
  have same1 : Same s s1 := ((same_allRemoveMany _ _).trans (same_allRemoveMany _ _)).trans (same_pricedRemoved _ _)
  let s2 := s1.upd a (fun ac => { ac with pending := sc.2.2.2 })
  let s3 := s2.enqueueMany sc.2.2.1
  have hinvs : ∀ x ∈ sc.2.2.1, x.sender = a := fun x hx => hA.pSender x (p4 x hx).1
  have e2a : s2.acct a = { s.acct a with pending := sc.2.2.2 } := by
    simp only [s2]; rw [acct_upd_self _ _ _ (by rw [same1.n]; exact hlt), same1.acct a]
  have e2b : ∀ b, b ≠ a → s2.acct b = s.acct b := by
    intro b hb; simp only [s2]; rw [acct_upd]; simp [Ne.symm hb, same1.acct b]
  have f3 := enqueueMany_qframe s2 sc.2.2.1
  have e3p : (s3.acct a).pending = sc.2.2.2 := by rw [(f3.2.2.2 a).1, e2a]
  have hdem : s.demoteAccount a = s3.demoteGap a (s.acct a).nonce := by
    unfold State.demoteAccount
    simp only [List.isEmpty_iff, hne, if_false]
    rfl
  -- the gap step on s3
  have cpe : (if contigRun (s3.acct a).pending.txs.length (s3.acct a).pending.txs (s.acct a).nonce < (s3.acct a).pending.txs.length
      then (s3.acct a).pending.cap (contigRun (s3.acct a).pending.txs.length (s3.acct a).pending.txs (s.acct a).nonce)
      else ([], (s3.acct a).pending)) = cp := by
    rw [e3p]
  let s4 := s3.upd a (fun ac => { ac with pending := cp.2 })
  let s5 := s4.enqueueMany cp.1
  have hW3 : AllW s3 := by
    refine AllW.enqueueMany ((same1.allW h).upd _ _ (fun _ => ?_)) _ ?_
    · rw [same1.acct a]
      exact hA.setPending _ p1 (pendingScan_spec hA s.maxGas).2.1 (pendingScan_spec hA s.maxGas).2.2.1 rfl rfl (fun _ => hA.beat hne)
    · intro x hx p hp
      rw [hinvs x hx] at hp
      have : (s1.upd a (fun ac => { ac with pending := sc.2.2.2 })).acct a = s2.acct a := rfl
      rw [this, e2a] at hp
      exact (p4 x hx).2 p hp
  have hcps : ∀ x ∈ cp.1, x.sender = a := by
    intro x hx
    have hx' : x ∈ sc.2.2.2.txs := by
      simp only [cp] at hx
      split at hx
      · exact (cap_spec sc.2.2.2 run (pendingScan_spec hA s.maxGas).2.1).2.1 x hx
      · simp at hx
    exact hA.pSender x (p1 x hx')
  have f5 := enqueueMany_qframe s4 cp.1
  have hn3 : s3.n = s.n := by rw [f3.1]; simp only [s2]; rw [n_upd, same1.n]
  have e4a : s4.acct a = { s3.acct a with pending := cp.2 } := by
    simp only [s4]; rw [acct_upd_self _ _ _ (by rw [hn3]; exact hlt)]
  have e5p : (s5.acct a).pending = cp.2 := by rw [(f5.2.2.2 a).1, e4a]
  have hfin : s.demoteAccount a = (if cp.2.txs.isEmpty then s5.upd a (fun ac => { ac with pending := {}, beat := 0 }) else s5) := by
    rw [hdem]
    unfold State.demoteGap
    simp only [cpe]
    rfl
  have hn5 : s5.n = s.n := by rw [f5.1]; simp only [s4]; rw [n_upd, hn3]
  -- fields of s5
  have q5 : ∀ x ∈ (s5.acct a).queue.txs, x ∈ (s.acct a).queue.txs ∨ x ∈ sc.2.2.1 ∨ x ∈ cp.1 := by
    intro x hx
    rcases enqueueMany_queue_mem s4 cp.1 a x hx with h1 | ⟨h1, _⟩
    · rw [e4a] at h1
      rcases enqueueMany_queue_mem s2 sc.2.2.1 a x h1 with h2 | ⟨h2, _⟩
      · rw [e2a] at h2; exact .inl h2
      · exact .inr (.inl h2)
    · exact .inr (.inr h1)
  have nb5 : (s5.acct a).nonce = (s.acct a).nonce ∧ (s5.acct a).balance = (s.acct a).balance := by
    rw [(f5.2.2.2 a).2.1, (f5.2.2.2 a).2.2.2.2.1, e4a]
    simp only
    rw [(f3.2.2.2 a).2.1, (f3.2.2.2 a).2.2.2.2.1, e2a]
    exact ⟨rfl, rfl⟩
  have o5 : ∀ b, b ≠ a → s5.acct b = s.acct b := by
    intro b hb
    simp only [s5]
    rw [enqueueMany_other s4 cp.1 a b hcps hb]
    simp only [s4]
    rw [acct_upd]
    simp only [Ne.symm hb, false_and, if_false]
    simp only [s3]
    rw [enqueueMany_other s2 sc.2.2.1 a b hinvs hb, e2b b hb]
  have mg5 : s5.maxGas = s.maxGas := by
    rw [f5.2.1]; show s3.maxGas = _; rw [f3.2.1]; exact same1.2.1
  rw [hfin]
  split
  · rename_i hemp
    have hnil : cp.2.txs = [] := by simpa using hemp
    refine ⟨?_, ?_, ?_, ?_, ?_, mg5, by rw [n_upd, hn5]⟩
    · rw [acct_upd_self _ _ _ (by rw [hn5]; exact hlt), hnil]
    · rw [acct_upd_self _ _ _ (by rw [hn5]; exact hlt)]; exact nb5.1
    · rw [acct_upd_self _ _ _ (by rw [hn5]; exact hlt)]; exact nb5.2
    · rw [acct_upd_self _ _ _ (by rw [hn5]; exact hlt)]; exact q5
    · intro b hb; rw [acct_upd]; simp only [Ne.symm hb, false_and, if_false]; exact o5 b hb
  · exact ⟨by rw [e5p], nb5.1, nb5.2, q5, o5, mg5, hn5⟩

/-- one account demoted: its shape is established, every other account is untouched -/
theorem demoteAccount_shape {s : State} (h : AllW s) (a : Nat) (hQ : Q1 (s.acct a)) :
    Shape ((s.demoteAccount a).acct a) (s.demoteAccount a).maxGas ∧
    (∀ b, b ≠ a → (s.demoteAccount a).acct b = s.acct b) ∧ (s.demoteAccount a).maxGas = s.maxGas ∧
    (s.demoteAccount a).n = s.n := by
  by_cases hne : (s.acct a).pending.txs = []
  · have e : s.demoteAccount a = s := by
      unfold State.demoteAccount; simp [hne]
    rw [e]
    refine ⟨⟨by rw [hne]; exact .nil _, by rw [hne]; simp, ?_⟩, fun _ _ => rfl, rfl, rfl⟩
    intro q hq; rw [hne]; simpa using hQ q hq
  · have fa := demoteAccount_acct h a hne
    have co := demote_core (h a) hQ s.maxGas
    simp only at fa co
    obtain ⟨e1, e2, e3, e4, e5, e6, e7⟩ := fa
    obtain ⟨c1, c2, c3⟩ := co
    refine ⟨⟨?_, ?_, ?_⟩, e5, e6, e7⟩
    · rw [e1, e2]; exact c1
    · rw [e1, e3, e6]; exact c2
    · intro q hq
      rw [e1, e2]
      exact c3 q (e4 q hq)

/-- `demoteUnexecutables` over a list of accounts: every listed account ends up in shape -/
theorem demoteUnexecutables_shape (as : List Nat) {s : State} (h : AllW s) (hQ : ∀ b, Q1 (s.acct b))
    (done : List Nat) (hd : ∀ b ∈ done, Shape (s.acct b) s.maxGas) :
    AllW (s.demoteUnexecutables as) ∧ (∀ b, Q1 ((s.demoteUnexecutables as).acct b)) ∧
    (∀ b, b ∈ done ∨ b ∈ as → Shape ((s.demoteUnexecutables as).acct b) (s.demoteUnexecutables as).maxGas) ∧
    (s.demoteUnexecutables as).n = s.n := by
  unfold State.demoteUnexecutables
  induction as generalizing s done with
  | nil => exact ⟨h, hQ, fun b hb => by rcases hb with hb | hb; exact hd b hb; simp at hb, rfl⟩
  | cons a rest ih =>
    simp only [List.foldl_cons]
    have st := demoteAccount_shape h a (hQ a)
    obtain ⟨s1, s2, s3, s4⟩ := st
    have hQ' : ∀ b, Q1 ((s.demoteAccount a).acct b) := by
      intro b
      by_cases hb : b = a
      · subst hb; exact s1.q1
      · rw [s2 b hb]; exact hQ b
    have hd' : ∀ b ∈ done ++ [a], Shape ((s.demoteAccount a).acct b) (s.demoteAccount a).maxGas := by
      intro b hb
      by_cases hba : b = a
      · subst hba; exact s1
      · rw [s2 b hba, s3]
        rcases List.mem_append.mp hb with hb | hb
        · exact hd b hb
        · simp at hb; exact absurd hb hba
    have := ih (h.demoteAccount a) hQ' (done ++ [a]) hd'
    refine ⟨this.1, this.2.1, fun b hb => this.2.2.1 b ?_, by rw [this.2.2.2, s4]⟩
    rcases hb with hb | hb
    · exact .inl (List.mem_append_left _ hb)
    · simp only [List.mem_cons] at hb
      rcases hb with rfl | hb
      · exact .inl (List.mem_append_right _ (by simp))
      · exact .inr hb

theorem mem_normOrd (n : Nat) (ord : List Nat) (a : Nat) (h : a < n) : a ∈ normOrd n ord := by
  unfold normOrd
  simp only [List.mem_append, List.mem_filter, List.mem_range]
  by_cases hc : a ∈ (ord.filter (· < n)).eraseDups
  · exact .inl hc
  · refine .inr ⟨h, ?_⟩
    cases hcc : ((ord.filter (· < n)).eraseDups).contains a with
    | false => rfl
    | true => exact absurd (List.contains_iff_mem.mp hcc) hc

/-- After `demoteUnexecutables` over a list covering all accounts (as every reset runs it), EVERY account is in shape:
pending gap-free from the state nonce, payable, within the block gas limit, queued transactions above — from any state
that is structurally valid and whose queues were forwarded to the state nonce. -/
theorem demote_cover_shape {s : State} (h : AllW s) (hQ : ∀ b, Q1 (s.acct b)) (L : List Nat) (hL : ∀ b, b < s.n → b ∈ L) :
    ∀ b, Shape ((s.demoteUnexecutables L).acct b) (s.demoteUnexecutables L).maxGas := by
  have := demoteUnexecutables_shape L h hQ [] (by simp)
  intro b
  by_cases hb : b < s.n
  · exact this.2.2.1 b (.inr (hL b hb))
  · have : ¬ b < (s.demoteUnexecutables L).n := by rw [this.2.2.2]; exact hb
    rw [acct_default_of_ge this]
    exact shape_default _

theorem demote_all_shape {s : State} (h : AllW s) (hQ : ∀ b, Q1 (s.acct b)) (ord : List Nat) :
    ∀ b, Shape ((s.demoteUnexecutables (normOrd s.n ord)).acct b) (s.demoteUnexecutables (normOrd s.n ord)).maxGas :=
  demote_cover_shape h hQ _ (fun b hb => mem_normOrd _ _ _ hb)

/-! ### the promotion run forwards every visited queue to the state nonce -/

/-- queues only shrink, nonces stay -/
def QShrink (s s' : State) : Prop :=
  s'.n = s.n ∧ ∀ b, (∀ x ∈ (s'.acct b).queue.txs, x ∈ (s.acct b).queue.txs) ∧ (s'.acct b).nonce = (s.acct b).nonce

theorem QShrink.refl (s : State) : QShrink s s := ⟨rfl, fun _ => ⟨fun _ h => h, rfl⟩⟩
theorem QShrink.trans {a b c : State} (h1 : QShrink a b) (h2 : QShrink b c) : QShrink a c :=
  ⟨h2.1.trans h1.1, fun x => ⟨fun y hy => (h1.2 x).1 y ((h2.2 x).1 y hy), (h2.2 x).2.trans (h1.2 x).2⟩⟩
theorem Same.qshrink {s s' : State} (h : Same s s') : QShrink s s' :=
  ⟨h.n, fun b => by rw [h.acct b]; exact ⟨fun _ hx => hx, rfl⟩⟩
theorem PFrame.qshrink {s s' : State} (h : PFrame s s') : QShrink s s' :=
  ⟨h.1, fun b => by rw [(h.2.2.2 b).1, (h.2.2.2 b).2.1]; exact ⟨fun _ hx => hx, rfl⟩⟩

theorem qshrink_upd (s : State) (a : Nat) (q' : TxList) (hsub : ∀ x ∈ q'.txs, x ∈ (s.acct a).queue.txs) :
    QShrink s (s.upd a (fun ac => { ac with queue := q' })) := by
  refine ⟨n_upd _ _ _, fun b => ?_⟩
  rw [acct_upd]
  split
  · rename_i hc; obtain ⟨rfl, _⟩ := hc; exact ⟨hsub, rfl⟩
  · exact ⟨fun _ hx => hx, rfl⟩

theorem capQueue_qshrink (s : State) (a k : Nat) : QShrink s (s.capQueue a k) := by
  unfold State.capQueue
  simp only
  generalize hcp : (if (s.acct a).isLocal = true then ([], (s.acct a).queue) else (s.acct a).queue.cap s.cfg.accountQueue) = cp
  have hq : ∀ x ∈ cp.2.txs, x ∈ (s.acct a).queue.txs := by
    subst hcp
    split
    · exact fun _ hx => hx
    · intro x hx; rw [take_cap] at hx; exact mem_take hx
  have h1 : QShrink s (((s.upd a (fun ac => { ac with queue := cp.2 })).allRemoveMany cp.1).pricedRemoved (k + cp.1.length)) :=
    (qshrink_upd s a cp.2 hq).trans ((same_allRemoveMany _ _).trans (same_pricedRemoved _ _)).qshrink
  split
  · exact h1.trans (qshrink_upd _ a {} (by simp))
  · exact h1

theorem promoteAccount_q {s : State} (h : AllW s) (a : Nat) :
    QShrink s (s.promoteAccount a) ∧ Q1 ((s.promoteAccount a).acct a) := by
  unfold State.promoteAccount
  simp only
  split
  · rename_i hemp
    refine ⟨QShrink.refl _, ?_⟩
    have : (s.acct a).queue.txs = [] := by simpa using hemp
    intro q hq; rw [this] at hq; simp at hq
  · rename_i hne
    have hlt : a < s.n := lt_n_of_queue (by simpa using hne)
    have hA := h a
    have sp := queueScan_spec hA s.maxGas
    simp only at sp
    have same1 : Same s ((s.allRemoveMany (queueScan (s.acct a) s.maxGas).1).allRemoveMany (queueScan (s.acct a) s.maxGas).2.1) :=
      (same_allRemoveMany _ _).trans (same_allRemoveMany _ _)
    -- the remaining queue is not below the state nonce (Forward)
    have hge : ∀ x ∈ (queueScan (s.acct a) s.maxGas).2.2.2.txs, (s.acct a).nonce ≤ x.nonce := by
      intro x hx
      have hs0 : Sorted (forwardN (s.acct a).queue.txs (s.acct a).nonce).2 := hA.qSorted.filter _
      have fs := filter_spec ({ (s.acct a).queue with txs := (forwardN (s.acct a).queue.txs (s.acct a).nonce).2 } : TxList) false
        (s.acct a).balance s.maxGas hs0 (fun y hy => hA.qCaps y (List.mem_filter.mp hy).1)
      simp only at fs
      have hx2 : x ∈ (readyN (({ (s.acct a).queue with txs := (forwardN (s.acct a).queue.txs (s.acct a).nonce).2 } : TxList).filter false
          (s.acct a).balance s.maxGas).2.2.txs (s.acct a).pnGet).2 := hx
      have hx3 := fs.1 x (by
        have e := readyN_split (({ (s.acct a).queue with txs := (forwardN (s.acct a).queue.txs (s.acct a).nonce).2 } : TxList).filter false
          (s.acct a).balance s.maxGas).2.2.txs (s.acct a).pnGet
        rw [← e]; exact List.mem_append_right _ hx2)
      have := (List.mem_filter.mp hx3).2
      simpa using this
    let s2 := ((s.allRemoveMany (queueScan (s.acct a) s.maxGas).1).allRemoveMany (queueScan (s.acct a) s.maxGas).2.1).upd a
      (fun ac => { ac with queue := (queueScan (s.acct a) s.maxGas).2.2.2 })
    have q12 : QShrink s s2 := same1.qshrink.trans (qshrink_upd _ a _ (by rw [same1.acct a]; exact sp.1))
    have e2a : s2.acct a = { s.acct a with queue := (queueScan (s.acct a) s.maxGas).2.2.2 } := by
      simp only [s2]; rw [acct_upd_self _ _ _ (by rw [same1.n]; exact hlt), same1.acct a]
    have pf := promoteMany_pframe s2 a (queueScan (s.acct a) s.maxGas).2.2.1
    have q23 : QShrink s2 (s2.promoteMany a (queueScan (s.acct a) s.maxGas).2.2.1) := pf.qshrink
    have q34 := capQueue_qshrink (s2.promoteMany a (queueScan (s.acct a) s.maxGas).2.2.1) a
      ((queueScan (s.acct a) s.maxGas).1.length + (queueScan (s.acct a) s.maxGas).2.1.length)
    refine ⟨(q12.trans q23).trans q34, ?_⟩
    intro q hq
    have h1 := (q34.2 a).1 q hq
    have h2 := (q23.2 a).1 q h1
    rw [e2a] at h2
    rw [(q34.2 a).2, (q23.2 a).2, e2a]
    exact hge q h2

/-- `promoteExecutables` over a list that covers every account with a non-empty queue: afterwards no queued
transaction is below its account's state nonce -/
theorem promoteExecutables_q1 (L : List Nat) {s : State} (h : AllW s) (hc : ∀ b, b ∈ L ∨ Q1 (s.acct b)) :
    (∀ b, Q1 ((s.promoteExecutables L).acct b)) ∧ (s.promoteExecutables L).n = s.n := by
  unfold State.promoteExecutables
  induction L generalizing s with
  | nil => exact ⟨fun b => by rcases hc b with hb | hb; simp at hb; exact hb, rfl⟩
  | cons a rest ih =>
    simp only [List.foldl_cons]
    have pq := promoteAccount_q h a
    have := ih (h.promoteAccount a) (by
      intro b
      rcases hc b with hb | hb
      · simp only [List.mem_cons] at hb
        rcases hb with rfl | hb
        · exact .inr pq.2
        · exact .inl hb
      · right
        intro q hq
        rw [(pq.1.2 b).2]
        exact hb q ((pq.1.2 b).1 q hq))
    exact ⟨this.1, by rw [this.2, pq.1.1]⟩

/-- The reorg run of a reset, after whatever the reset and the reinjection did: promotion over every account with a
queue, then demotion over every account, leaves EVERY account in shape — from the structural invariant alone. -/
theorem promote_then_demote_shape {s : State} (h : AllW s) (L1 L2 : List Nat)
    (h1 : ∀ b, (s.acct b).queue.txs ≠ [] → b ∈ L1) (h2 : ∀ b, b < s.n → b ∈ L2) :
    ∀ b, Shape (((s.promoteExecutables L1).demoteUnexecutables L2).acct b)
      ((s.promoteExecutables L1).demoteUnexecutables L2).maxGas := by
  have hq := promoteExecutables_q1 L1 h (by
    intro b
    by_cases hb : (s.acct b).queue.txs = []
    · right; intro q hq; rw [hb] at hq; simp at hq
    · exact .inl (h1 b hb))
  exact demote_cover_shape (h.promoteExecutables L1) hq.1 L2 (fun b hb => h2 b (by rw [← hq.2]; exact hb))

end YouVerif.C20
