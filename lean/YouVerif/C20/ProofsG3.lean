/-
C20 proofs, layer 7 (global index clauses, part 3): promotion and demotion of one account and of account lists.
-/
import YouVerif.C20.ProofsG2
namespace YouVerif.C20

/-! ### the scans partition the scanned list -/

theorem filter_loose_inv (l : TxList) (cl gl : Nat) : (l.filter false cl gl).2.1 = [] := by
  unfold TxList.filter
  split
  · rfl
  · simp

theorem filter_spec2 (l : TxList) (strict : Bool) (cl gl : Nat) (hs : Sorted l.txs) :
    Sorted (l.filter strict cl gl).2.1 ∧ ∀ x ∈ (l.filter strict cl gl).2.1, x ∉ (l.filter strict cl gl).1 := by
  unfold TxList.filter
  split
  · exact ⟨sorted_nil, by simp⟩
  · simp only
    split
    · refine ⟨(hs.filter _).filter _, fun x hx hx' => ?_⟩
      have h1 := (List.mem_filter.mp (List.mem_filter.mp hx).1).2
      have h2 := (List.mem_filter.mp hx').2
      simp at h1 h2
      omega
    · exact ⟨sorted_nil, by simp⟩

theorem queueScan_part {ac : Account} {a : Nat} (h : AcctW ac a) (mg : Nat) :
    (∀ x, x ∈ ac.queue.txs ↔ ((x ∈ (queueScan ac mg).2.2.2.txs ∨ x ∈ (queueScan ac mg).2.2.1) ∨
      (x ∈ (queueScan ac mg).1 ∨ x ∈ (queueScan ac mg).2.1))) ∧
    (∀ x, (x ∈ (queueScan ac mg).1 ∨ x ∈ (queueScan ac mg).2.1) →
      ¬ (x ∈ (queueScan ac mg).2.2.2.txs ∨ x ∈ (queueScan ac mg).2.2.1)) ∧
    Sorted (queueScan ac mg).2.2.1 := by
  have hs0 : Sorted (forwardN ac.queue.txs ac.nonce).2 := h.qSorted.filter _
  have hfw2 : ∀ x, x ∈ (forwardN ac.queue.txs ac.nonce).2 ↔ (x ∈ ac.queue.txs ∧ ¬ x.nonce < ac.nonce) := by
    intro x; simp [forwardN]
  have hfw1 : ∀ x, x ∈ (forwardN ac.queue.txs ac.nonce).1 ↔ (x ∈ ac.queue.txs ∧ x.nonce < ac.nonce) := by
    intro x; simp [forwardN]
  have fs := filter_spec ({ ac.queue with txs := (forwardN ac.queue.txs ac.nonce).2 } : TxList) false ac.balance mg hs0
    (fun x hx => h.qCaps x ((hfw2 x).mp hx).1)
  have fi := filter_loose_inv ({ ac.queue with txs := (forwardN ac.queue.txs ac.nonce).2 } : TxList) ac.balance mg
  simp only at fs
  obtain ⟨f1, _, f3, f4, _, _, _, f8, f9⟩ := fs
  have rs := ready_spec _ ac.pnGet f4
  have re := readyN_split (({ ac.queue with txs := (forwardN ac.queue.txs ac.nonce).2 } : TxList).filter false ac.balance mg).2.2.txs ac.pnGet
  simp only [queueScan]
  generalize (forwardN ac.queue.txs ac.nonce).1 = FW1 at *
  generalize (forwardN ac.queue.txs ac.nonce).2 = FW2 at *
  generalize ({ ac.queue with txs := FW2 } : TxList).filter false ac.balance mg = FL at *
  generalize readyN FL.2.2.txs ac.pnGet = RD at *
  have hk : ∀ x, x ∈ FL.2.2.txs ↔ (x ∈ RD.1 ∨ x ∈ RD.2) := by
    intro x; rw [← re]; simp
  refine ⟨fun x => ⟨fun hx => ?_, ?_⟩, ?_, rs.2.2.1⟩
  · by_cases hlt : x.nonce < ac.nonce
    · exact .inr (.inl ((hfw1 x).mpr ⟨hx, hlt⟩))
    · rcases f9 x ((hfw2 x).mpr ⟨hx, hlt⟩) with h | h | h
      · rcases (hk x).mp h with h | h
        · exact .inl (.inr h)
        · exact .inl (.inl h)
      · rw [fi] at h; simp at h
      · exact .inr (.inr h)
  · rintro ((h | h) | (h | h))
    · exact ((hfw2 x).mp (f1 x ((hk x).mpr (.inr h)))).1
    · exact ((hfw2 x).mp (f1 x ((hk x).mpr (.inl h)))).1
    · exact ((hfw1 x).mp h).1
    · exact ((hfw2 x).mp (f3 x h)).1
  · rintro x (h | h) hn
    · have hk' : x ∈ FL.2.2.txs := by
        rcases hn with hn | hn
        · exact (hk x).mpr (.inr hn)
        · exact (hk x).mpr (.inl hn)
      exact ((hfw2 x).mp (f1 x hk')).2 ((hfw1 x).mp h).2
    · have hk' : x ∈ FL.2.2.txs := by
        rcases hn with hn | hn
        · exact (hk x).mpr (.inr hn)
        · exact (hk x).mpr (.inl hn)
      exact f8 x hk' x h rfl

theorem pendingScan_part {ac : Account} {a : Nat} (h : AcctW ac a) (mg : Nat) :
    (∀ x, x ∈ ac.pending.txs ↔ ((x ∈ (pendingScan ac mg).2.2.2.txs ∨ x ∈ (pendingScan ac mg).2.2.1) ∨
      (x ∈ (pendingScan ac mg).1 ∨ x ∈ (pendingScan ac mg).2.1))) ∧
    (∀ x, (x ∈ (pendingScan ac mg).1 ∨ x ∈ (pendingScan ac mg).2.1) →
      ¬ (x ∈ (pendingScan ac mg).2.2.2.txs ∨ x ∈ (pendingScan ac mg).2.2.1)) ∧
    Sorted (pendingScan ac mg).2.2.1 := by
  have hs0 : Sorted (forwardN ac.pending.txs ac.nonce).2 := h.pSorted.filter _
  have hfw2 : ∀ x, x ∈ (forwardN ac.pending.txs ac.nonce).2 ↔ (x ∈ ac.pending.txs ∧ ¬ x.nonce < ac.nonce) := by
    intro x; simp [forwardN]
  have hfw1 : ∀ x, x ∈ (forwardN ac.pending.txs ac.nonce).1 ↔ (x ∈ ac.pending.txs ∧ x.nonce < ac.nonce) := by
    intro x; simp [forwardN]
  have fs := filter_spec ({ ac.pending with txs := (forwardN ac.pending.txs ac.nonce).2 } : TxList) true ac.balance mg hs0
    (fun x hx => h.pCaps x ((hfw2 x).mp hx).1)
  have f2' := filter_spec2 ({ ac.pending with txs := (forwardN ac.pending.txs ac.nonce).2 } : TxList) true ac.balance mg hs0
  simp only at fs
  obtain ⟨f1, f2, f3, _, _, _, _, f8, f9⟩ := fs
  simp only [pendingScan]
  generalize (forwardN ac.pending.txs ac.nonce).1 = FW1 at *
  generalize (forwardN ac.pending.txs ac.nonce).2 = FW2 at *
  generalize ({ ac.pending with txs := FW2 } : TxList).filter true ac.balance mg = FL at *
  refine ⟨fun x => ⟨fun hx => ?_, ?_⟩, ?_, f2'.1⟩
  · by_cases hlt : x.nonce < ac.nonce
    · exact .inr (.inl ((hfw1 x).mpr ⟨hx, hlt⟩))
    · rcases f9 x ((hfw2 x).mpr ⟨hx, hlt⟩) with h | h | h
      · exact .inl (.inl h)
      · exact .inl (.inr h)
      · exact .inr (.inr h)
  · rintro ((h | h) | (h | h))
    · exact ((hfw2 x).mp (f1 x h)).1
    · exact ((hfw2 x).mp (f2 x h)).1
    · exact ((hfw1 x).mp h).1
    · exact ((hfw2 x).mp (f3 x h)).1
  · rintro x (h | h) hn
    · have : x ∈ FW2 := by
        rcases hn with hn | hn
        · exact f1 x hn
        · exact f2 x hn
      exact ((hfw2 x).mp this).2 ((hfw1 x).mp h).2
    · rcases hn with hn | hn
      · exact f8 x hn x h rfl
      · exact f2'.2 x hn h

/-! ### promoteExecutables -/

theorem capQueue_ik {s : State} (hw : AllW s) (hau : AU s []) (a k : Nat) (hlt : a < s.n) :
    AU (s.capQueue a k) [] ∧ IK s (s.capQueue a k) := by
  unfold State.capQueue
  simp only
  have hA := hw a
  generalize hcp : (if (s.acct a).isLocal = true then ([], (s.acct a).queue) else (s.acct a).queue.cap s.cfg.accountQueue) = cp
  have hq : (∀ x, x ∈ (s.acct a).queue.txs ↔ (x ∈ cp.2.txs ∨ x ∈ cp.1)) ∧ (∀ x ∈ cp.1, x ∉ cp.2.txs) := by
    subst hcp
    split
    · exact ⟨fun x => by simp, by simp⟩
    · have cs := cap_spec (s.acct a).queue s.cfg.accountQueue hA.qSorted
      refine ⟨fun x => ⟨cs.2.2.2.2.2.2 x, ?_⟩, fun x hx hx' => ?_⟩
      · rintro (h | h)
        · exact cs.1 x h
        · exact cs.2.1 x h
      · have := cs.2.2.2.2.2.1 x hx' x hx; omega
  generalize hs1 : (((s.upd a (fun ac => { ac with queue := cp.2 })).allRemoveMany cp.1).pricedRemoved (k + cp.1.length)) = s1
  have ik1 : IK s s1 := by
    subst hs1; exact (IK.upd _ _ _).trans ((IK.allRemoveMany _ _).trans (IK.pricedRemoved _ _))
  have hb1 : ∀ b, s1.acct b = (s.upd a (fun ac => { ac with queue := cp.2 })).acct b := by
    intro b; subst hs1; simp only [acct_pricedRemoved, acct_allRemoveMany]
  have ha1 : s1.acct a = { s.acct a with queue := cp.2 } := by rw [hb1, acct_upd_self _ _ _ hlt]
  have au1 : AU s1 [] := by
    refine AU.shrink (a := a) hw hau cp.1 [] (fun x => ?_) (fun b hb => ?_) (fun x => ?_) ?_
    · subst hs1; simp only [all_pricedRemoved, mem_allRemoveMany, all_upd]
    · rw [hb1, acct_upd]; simp [Ne.symm hb]
    · rw [ha1]
      simp only [List.not_mem_nil, or_false]
      rw [hq.1 x]
      exact or_assoc.symm
    · intro x hx
      rw [ha1]
      simp only [List.not_mem_nil, or_false]
      rintro (h | h)
      · exact hA.disj x h x ((hq.1 x).mpr (.inr hx)) rfl
      · exact hq.2 x hx h
  split
  · rename_i hemp
    have hnil : (s1.acct a).queue.txs = [] := by simpa using hemp
    refine ⟨au1.congr (fun _ => Iff.rfl) (fun b => ?_), ik1.trans (IK.upd _ _ _)⟩
    rw [acct_upd]
    split
    · rename_i hc
      obtain ⟨rfl, _⟩ := hc
      exact ⟨rfl, hnil.symm⟩
    · exact ⟨rfl, rfl⟩
  · exact ⟨au1, ik1⟩

theorem promoteAccount_ik {s : State} (hw : AllW s) (hau : AU s []) (a : Nat) :
    AU (s.promoteAccount a) [] ∧ IK s (s.promoteAccount a) := by
  unfold State.promoteAccount
  simp only
  split
  · exact ⟨hau, IK.refl _⟩
  · rename_i hne
    have hlt : a < s.n := lt_n_of_queue (by simpa using hne)
    have hA := hw a
    obtain ⟨q1, q2, q3, q4⟩ := queueScan_spec hA s.maxGas
    obtain ⟨r1, r2, r3⟩ := queueScan_part hA s.maxGas
    generalize queueScan (s.acct a) s.maxGas = sc at *
    have same1 : Same s ((s.allRemoveMany sc.1).allRemoveMany sc.2.1) :=
      (same_allRemoveMany _ _).trans (same_allRemoveMany _ _)
    have hw1 := same1.allW hw
    have hlt1 : a < ((s.allRemoveMany sc.1).allRemoveMany sc.2.1).n := by rw [same1.n]; exact hlt
    generalize hsB : ((s.allRemoveMany sc.1).allRemoveMany sc.2.1).upd a (fun ac => { ac with queue := sc.2.2.2 }) = sB
    have haB : sB.acct a = { s.acct a with queue := sc.2.2.2 } := by
      subst hsB; rw [acct_upd_self _ _ _ hlt1, same1.acct]
    have hnB : sB.n = s.n := by subst hsB; rw [n_upd, same1.n]
    have hwB : AllW sB := by
      subst hsB
      refine hw1.upd _ _ (fun _ => ?_)
      rw [same1.acct a]; exact hA.setQueue _ q1 q2 q3 rfl rfl rfl
    have ikB : IK s sB := by
      subst hsB; exact ((IK.allRemoveMany _ _).trans (IK.allRemoveMany _ _)).trans (IK.upd _ _ _)
    have auB : AU sB sc.2.2.1 := by
      refine AU.shrink (a := a) hw hau (sc.1 ++ sc.2.1) sc.2.2.1 (fun x => ?_) (fun b hb => ?_) (fun x => ?_) ?_
      · subst hsB
        simp only [all_upd, mem_allRemoveMany, List.mem_append, not_or, and_assoc]
      · subst hsB; rw [acct_upd]; simp [Ne.symm hb, same1.acct]
      · rw [haB]
        simp only [List.mem_append]
        rw [r1 x]
        constructor
        · rintro (h | (h | h) | h)
          · exact .inl (.inl h)
          · exact .inl (.inr (.inl h))
          · exact .inl (.inr (.inr h))
          · exact .inr h
        · rintro ((h | h | h) | h)
          · exact .inl h
          · exact .inr (.inl (.inl h))
          · exact .inr (.inl (.inr h))
          · exact .inr (.inr h)
      · intro x hx
        rw [haB]
        have hx' := List.mem_append.mp hx
        rintro (h | h)
        · exact hA.disj x h x ((r1 x).mpr (.inr hx')) rfl
        · exact r2 x hx' h
    have hready : ∀ x ∈ sc.2.2.1, x.sender = a ∧ ∀ q ∈ (sB.acct a).queue.txs, q.nonce ≠ x.nonce := by
      intro x hx
      refine ⟨hA.qSender x (q4 x hx).1, ?_⟩
      rw [haB]; exact (q4 x hx).2
    obtain ⟨p1, p2, p3⟩ := promoteMany_limbo (s := sB) (a := a) (by rw [hnB]; exact hlt) sc.2.2.1 auB
      (fun x hx => (hready x hx).1) r3.pairwise_ne (by
        intro x hx p hp
        rw [haB] at hp
        exact hA.disj p hp x (q4 x hx).1)
    have hwC : AllW (sB.promoteMany a sc.2.2.1) := AllW.promoteMany hwB a _ hready
    have := capQueue_ik hwC p1 a (sc.1.length + sc.2.1.length) (by rw [(promoteMany_pframe sB a _).1, hnB]; exact hlt)
    exact ⟨this.1, (ikB.trans (IK.of_eq p2 p3)).trans this.2⟩

theorem GI.promoteAccount {s : State} (hw : AllW s) (hg : GI s) (a : Nat) : GI (s.promoteAccount a) :=
  hg.of_ik (promoteAccount_ik hw hg.au a).1 (promoteAccount_ik hw hg.au a).2

theorem GW.promoteExecutables {s : State} (h : GW s) (as : List Nat) : GW (s.promoteExecutables as) := by
  unfold State.promoteExecutables
  exact foldl_preserves GW _ (fun s x hs => ⟨hs.1.promoteAccount x, hs.2.promoteAccount hs.1 x⟩) as s h

theorem GI.promoteExecutables {s : State} (hw : AllW s) (hg : GI s) (as : List Nat) : GI (s.promoteExecutables as) :=
  (GW.promoteExecutables ⟨hw, hg⟩ as).2

/-! ### demoteUnexecutables -/

theorem demoteGap_ik {s : State} (hw : AllW s) (hau : AU s []) (a nonce : Nat) (hlt : a < s.n) :
    AU (s.demoteGap a nonce) [] ∧ IK s (s.demoteGap a nonce) := by
  unfold State.demoteGap
  simp only
  have hA := hw a
  generalize hcp : (if contigRun (s.acct a).pending.txs.length (s.acct a).pending.txs nonce < (s.acct a).pending.txs.length
      then (s.acct a).pending.cap (contigRun (s.acct a).pending.txs.length (s.acct a).pending.txs nonce)
      else ([], (s.acct a).pending)) = cp
  have hq : (∀ x, x ∈ (s.acct a).pending.txs ↔ (x ∈ cp.2.txs ∨ x ∈ cp.1)) ∧ (∀ x ∈ cp.1, x ∉ cp.2.txs) ∧
      cp.1.Pairwise (fun x y => x.nonce ≠ y.nonce) := by
    subst hcp
    split
    · have cs := cap_spec (s.acct a).pending (contigRun (s.acct a).pending.txs.length (s.acct a).pending.txs nonce) hA.pSorted
      refine ⟨fun x => ⟨cs.2.2.2.2.2.2 x, ?_⟩, fun x hx hx' => ?_, ?_⟩
      · rintro (h | h)
        · exact cs.1 x h
        · exact cs.2.1 x h
      · have := cs.2.2.2.2.2.1 x hx' x hx; omega
      · unfold TxList.cap
        split
        · exact List.Pairwise.nil
        · simp only
          rw [List.pairwise_reverse]
          exact List.Pairwise.imp (fun h => by omega) (hA.pSorted.sublist (List.drop_sublist _ _))
    · exact ⟨fun x => by simp, by simp, List.Pairwise.nil⟩
  generalize hs1 : s.upd a (fun ac => { ac with pending := cp.2 }) = s1
  have ha1 : s1.acct a = { s.acct a with pending := cp.2 } := by subst hs1; rw [acct_upd_self _ _ _ hlt]
  have hn1 : s1.n = s.n := by subst hs1; rw [n_upd]
  have au1 : AU s1 cp.1 := by
    refine AU.shrink (a := a) hw hau [] cp.1 (fun x => ?_) (fun b hb => ?_) (fun x => ?_) (by simp)
    · subst hs1; simp
    · subst hs1; rw [acct_upd]; simp [Ne.symm hb]
    · rw [ha1]
      simp only [List.not_mem_nil, or_false]
      rw [hq.1 x]
      constructor
      · rintro ((h | h) | h)
        · exact .inl h
        · exact .inr (.inr h)
        · exact .inr (.inl h)
      · rintro (h | h | h)
        · exact .inl (.inl h)
        · exact .inr h
        · exact .inl (.inr h)
  obtain ⟨e1, e2, e3⟩ := enqueueMany_limbo (s := s1) (a := a) (by rw [hn1]; exact hlt) cp.1 au1
    (fun x hx => hA.pSender x ((hq.1 x).mpr (.inr hx))) hq.2.2 (by
      intro x hx q hq'
      rw [ha1] at hq'
      exact fun e => hA.disj x ((hq.1 x).mpr (.inr hx)) q hq' e.symm)
  have ik2 : IK s (s1.enqueueMany cp.1) := by
    refine IK.of_eq (e2.trans ?_) (e3.trans ?_) <;> (subst hs1; rfl)
  split
  · rename_i hemp
    have hnil : cp.2.txs = [] := by simpa using hemp
    refine ⟨e1.congr (fun _ => Iff.rfl) (fun b => ?_), ik2.trans (IK.upd _ _ _)⟩
    rw [acct_upd]
    split
    · rename_i hc
      obtain ⟨rfl, _⟩ := hc
      refine ⟨?_, rfl⟩
      rw [((enqueueMany_qframe s1 cp.1).2.2.2 a).1, ha1]
      exact hnil.symm
    · exact ⟨rfl, rfl⟩
  · exact ⟨e1, ik2⟩

theorem demoteAccount_ik {s : State} (hw : AllW s) (hau : AU s []) (a : Nat) :
    AU (s.demoteAccount a) [] ∧ IK s (s.demoteAccount a) := by
  unfold State.demoteAccount
  simp only
  split
  · exact ⟨hau, IK.refl _⟩
  · rename_i hne
    have hne' : (s.acct a).pending.txs ≠ [] := by simpa using hne
    have hlt : a < s.n := lt_n_of_pending hne'
    have hA := hw a
    obtain ⟨p1, p2, p3, p4⟩ := pendingScan_spec hA s.maxGas
    obtain ⟨r1, r2, r3⟩ := pendingScan_part hA s.maxGas
    generalize pendingScan (s.acct a) s.maxGas = sc at *
    have same1 : Same s (((s.allRemoveMany sc.1).allRemoveMany sc.2.1).pricedRemoved (sc.1.length + sc.2.1.length)) :=
      ((same_allRemoveMany _ _).trans (same_allRemoveMany _ _)).trans (same_pricedRemoved _ _)
    have hw1 := same1.allW hw
    have hlt1 : a < (((s.allRemoveMany sc.1).allRemoveMany sc.2.1).pricedRemoved (sc.1.length + sc.2.1.length)).n := by
      rw [same1.n]; exact hlt
    generalize hsB : (((s.allRemoveMany sc.1).allRemoveMany sc.2.1).pricedRemoved (sc.1.length + sc.2.1.length)).upd a
      (fun ac => { ac with pending := sc.2.2.2 }) = sB
    have haB : sB.acct a = { s.acct a with pending := sc.2.2.2 } := by
      subst hsB; rw [acct_upd_self _ _ _ hlt1, same1.acct]
    have hnB : sB.n = s.n := by subst hsB; rw [n_upd, same1.n]
    have hwB : AllW sB := by
      subst hsB
      refine hw1.upd _ _ (fun _ => ?_)
      rw [same1.acct a]; exact hA.setPending _ p1 p2 p3 rfl rfl (fun _ => hA.beat hne')
    have ikB : IK s sB := by
      subst hsB
      exact (((IK.allRemoveMany _ _).trans (IK.allRemoveMany _ _)).trans (IK.pricedRemoved _ _)).trans (IK.upd _ _ _)
    have auB : AU sB sc.2.2.1 := by
      refine AU.shrink (a := a) hw hau (sc.1 ++ sc.2.1) sc.2.2.1 (fun x => ?_) (fun b hb => ?_) (fun x => ?_) ?_
      · subst hsB
        simp only [all_upd, all_pricedRemoved, mem_allRemoveMany, List.mem_append, not_or, and_assoc]
      · subst hsB; rw [acct_upd]; simp [Ne.symm hb, same1.acct]
      · rw [haB]
        simp only [List.mem_append]
        rw [r1 x]
        constructor
        · rintro (((h | h) | h) | h)
          · exact .inl (.inl h)
          · exact .inl (.inr (.inr h))
          · exact .inr h
          · exact .inl (.inr (.inl h))
        · rintro ((h | h | h) | h)
          · exact .inl (.inl (.inl h))
          · exact .inr h
          · exact .inl (.inl (.inr h))
          · exact .inl (.inr h)
      · intro x hx
        rw [haB]
        have hx' := List.mem_append.mp hx
        rintro (h | h | h)
        · exact r2 x hx' (.inl h)
        · exact hA.disj x ((r1 x).mpr (.inr hx')) x h rfl
        · exact r2 x hx' (.inr h)
    have hinv : ∀ x ∈ sc.2.2.1, ∀ p ∈ (sB.acct x.sender).pending.txs, p.nonce ≠ x.nonce := by
      intro x hx p hp
      rw [hA.pSender x (p4 x hx).1, haB] at hp
      exact (p4 x hx).2 p hp
    obtain ⟨e1, e2, e3⟩ := enqueueMany_limbo (s := sB) (a := a) (by rw [hnB]; exact hlt) sc.2.2.1 auB
      (fun x hx => hA.pSender x (p4 x hx).1) r3.pairwise_ne (by
        intro x hx q hq
        rw [haB] at hq
        exact fun e => hA.disj x (p4 x hx).1 q hq e.symm)
    have hwC : AllW (sB.enqueueMany sc.2.2.1) := AllW.enqueueMany hwB _ hinv
    have := demoteGap_ik hwC e1 a (s.acct a).nonce (by rw [(enqueueMany_qframe sB _).1, hnB]; exact hlt)
    exact ⟨this.1, (ikB.trans (IK.of_eq e2 e3)).trans this.2⟩

theorem GI.demoteAccount {s : State} (hw : AllW s) (hg : GI s) (a : Nat) : GI (s.demoteAccount a) :=
  hg.of_ik (demoteAccount_ik hw hg.au a).1 (demoteAccount_ik hw hg.au a).2

theorem GW.demoteUnexecutables {s : State} (h : GW s) (as : List Nat) : GW (s.demoteUnexecutables as) := by
  unfold State.demoteUnexecutables
  exact foldl_preserves GW _ (fun s x hs => ⟨hs.1.demoteAccount x, hs.2.demoteAccount hs.1 x⟩) as s h

theorem GI.demoteUnexecutables {s : State} (hw : AllW s) (hg : GI s) (as : List Nat) : GI (s.demoteUnexecutables as) :=
  (GW.demoteUnexecutables ⟨hw, hg⟩ as).2

end YouVerif.C20
