/-
C20 proofs, layer 2: the per-account invariant and its preservation by the pool primitives.
-/
import YouVerif.C20.ProofsList
namespace YouVerif.C20

/-- The per-account clauses of the pool invariant except the virtual-nonce clause. -/
structure AcctJ (ac : Account) (a : Nat) (mg : Nat) : Prop where
  pSender : ∀ t ∈ ac.pending.txs, t.sender = a
  qSender : ∀ t ∈ ac.queue.txs, t.sender = a
  /-- pending is gap-free from the state nonce -/
  pChain : Chain ac.nonce ac.pending.txs
  /-- pending is payable and fits the block -/
  pAfford : ∀ t ∈ ac.pending.txs, t.cost ≤ ac.balance ∧ t.gas ≤ mg
  qSorted : Sorted ac.queue.txs
  /-- queued transactions lie above every pending one (and not below the state nonce) -/
  qAbove : ∀ t ∈ ac.queue.txs, ac.nonce + ac.pending.txs.length ≤ t.nonce
  /-- accounts with pending transactions have a heartbeat entry (the converse is not an invariant of the code:
  `truncatePending` with `AccountSlots = 0` can cap a list to nothing without dropping the heartbeat) -/
  beat : ac.pending.txs ≠ [] → ac.beat ≠ 0
  /-- the cached cost/gas caps bound the list contents (soundness of the `Filter` short cut) -/
  pCaps : ∀ t ∈ ac.pending.txs, t.cost ≤ ac.pending.costcap ∧ t.gas ≤ ac.pending.gascap
  qCaps : ∀ t ∈ ac.queue.txs, t.cost ≤ ac.queue.costcap ∧ t.gas ≤ ac.queue.gascap

def AllJ (s : State) : Prop := ∀ a, AcctJ (s.acct a) a s.maxGas

/-- virtual nonce = state nonce + number of pending -/
def PN (s : State) (b : Nat) : Prop := (s.acct b).pnGet = (s.acct b).nonce + (s.acct b).pending.txs.length

/-- The per-account part of the pool invariant, for every account. -/
def AllI (s : State) : Prop := AllJ s ∧ ∀ b, PN s b

theorem acctJ_default (a mg : Nat) : AcctJ ({} : Account) a mg := by
  constructor <;> simp [Sorted] <;> exact .nil _

/-! ### frame -/

theorem getD_updAt (l : List Account) (a b : Nat) (f : Account → Account) :
    (updAt l a f).getD b {} = if a = b ∧ a < l.length then f (l.getD b {}) else l.getD b {} := by
  induction l generalizing a b with
  | nil => simp [updAt]
  | cons x xs ih =>
    cases a with
    | zero =>
      cases b with
      | zero => simp [updAt]
      | succ b => simp [updAt]
    | succ a =>
      cases b with
      | zero => simp [updAt]
      | succ b =>
        simp only [updAt, List.getD_cons_succ, ih, List.length_cons]
        simp

theorem length_updAt (l : List Account) (a : Nat) (f : Account → Account) : (updAt l a f).length = l.length := by
  induction l generalizing a with
  | nil => simp [updAt]
  | cons x xs ih => cases a <;> simp [updAt, ih]

theorem acct_upd (s : State) (a b : Nat) (f : Account → Account) :
    (s.upd a f).acct b = if a = b ∧ a < s.n then f (s.acct b) else s.acct b := by
  unfold State.upd State.acct State.n
  exact getD_updAt _ _ _ _

theorem acct_upd_self (s : State) (a : Nat) (f : Account → Account) (h : a < s.n) : (s.upd a f).acct a = f (s.acct a) := by
  simp [acct_upd, h]

theorem n_upd (s : State) (a : Nat) (f : Account → Account) : (s.upd a f).n = s.n := by
  simp [State.upd, State.n, length_updAt]

theorem AllJ.upd {s : State} (h : AllJ s) (a : Nat) (f : Account → Account)
    (hf : a < s.n → AcctJ (f (s.acct a)) a s.maxGas) : AllJ (s.upd a f) := by
  intro b
  rw [acct_upd]
  show AcctJ _ b s.maxGas
  split
  · rename_i hc; obtain ⟨rfl, hlt⟩ := hc; exact hf hlt
  · exact h b

/-- `AllI` only looks at the account table and the block gas limit -/
theorem AllJ.congr {s s' : State} (h : AllJ s) (h1 : s'.accts = s.accts) (h2 : s'.maxGas = s.maxGas) : AllJ s' := by
  intro a
  have := h a
  simp only [State.acct] at this ⊢
  rw [h1, h2]; exact this

/-- same account table, gas limit and configuration -/
def Same (s s' : State) : Prop := s'.accts = s.accts ∧ s'.maxGas = s.maxGas ∧ s'.cfg = s.cfg

theorem Same.refl (s : State) : Same s s := ⟨rfl, rfl, rfl⟩
theorem Same.trans {a b c : State} (h1 : Same a b) (h2 : Same b c) : Same a c :=
  ⟨h2.1.trans h1.1, h2.2.1.trans h1.2.1, h2.2.2.trans h1.2.2⟩
theorem Same.allJ {s s' : State} (h : Same s s') (hi : AllJ s) : AllJ s' := hi.congr h.1 h.2.1
theorem Same.acct {s s' : State} (h : Same s s') (a : Nat) : s'.acct a = s.acct a := by simp [State.acct, h.1]
theorem Same.n {s s' : State} (h : Same s s') : s'.n = s.n := by simp [State.n, h.1]

theorem same_allRemove (s : State) (t : Tx) : Same s (s.allRemove t) := ⟨rfl, rfl, rfl⟩
theorem same_allAdd (s : State) (t : Tx) : Same s (s.allAdd t) := by
  unfold State.allAdd; split <;> exact ⟨rfl, rfl, rfl⟩
theorem same_pricedPut (s : State) (t : Tx) : Same s (s.pricedPut t) := ⟨rfl, rfl, rfl⟩
theorem same_pricedRemoved (s : State) (k : Nat) : Same s (s.pricedRemoved k) := by
  unfold State.pricedRemoved; simp only; split <;> exact ⟨rfl, rfl, rfl⟩
theorem same_allRemoveMany (s : State) (ts : List Tx) : Same s (s.allRemoveMany ts) := by
  unfold State.allRemoveMany
  induction ts generalizing s with
  | nil => exact Same.refl _
  | cons t ts ih => exact (same_allRemove s t).trans (ih _)

/-! ### enqueueTx -/

theorem chain_free_slot {n m : Nat} {l : List Tx} (h : Chain n l) (hm : n ≤ m) (hf : ∀ t ∈ l, t.nonce ≠ m) :
    n + l.length ≤ m := by
  induction h with
  | nil => simpa using hm
  | @cons n x xs hx hc ih =>
    have h1 : x.nonce ≠ m := hf x (by simp)
    have := ih (by omega) (fun t ht => hf t (by simp [ht]))
    simp; omega

theorem acctJ_enqueue {ac : Account} {a mg : Nat} (h : AcctJ ac a mg) (t : Tx) (bump : Nat) (hs : t.sender = a)
    (hpre : ac.nonce + ac.pending.txs.length ≤ t.nonce) (q' : TxList) (old : Option Tx)
    (hadd : ac.queue.add t bump = (true, old, q')) : AcctJ { ac with queue := q' } a mg := by
  have hq : q' = ac.queue.put t := by
    unfold TxList.add at hadd
    split at hadd
    · split at hadd
      · simp at hadd
      · simp at hadd; exact hadd.2.symm
    · simp at hadd; exact hadd.2.symm
  subst hq
  refine { h with qSender := ?_, qSorted := ?_, qAbove := ?_, qCaps := ?_, beat := h.beat }
  · intro x hx
    rcases mem_insertN_or hx with rfl | hx
    · exact hs
    · exact h.qSender x hx
  · exact sorted_insertN h.qSorted
  · intro x hx
    rcases mem_insertN_or hx with rfl | hx
    · exact hpre
    · exact h.qAbove x hx
  · intro x hx
    simp only [TxList.put]
    rcases mem_insertN_or hx with rfl | hx
    · omega
    · have := h.qCaps x hx; omega

theorem enqueueTx_spec {s : State} (h : AllJ s) (t : Tx)
    (hpre : (s.acct t.sender).nonce + (s.acct t.sender).pending.txs.length ≤ t.nonce) :
    AllJ (s.enqueueTx t).1 ∧ (s.enqueueTx t).1.n = s.n ∧ (s.enqueueTx t).1.maxGas = s.maxGas ∧
      (s.enqueueTx t).1.cfg = s.cfg ∧
      ∀ b, ((s.enqueueTx t).1.acct b).pending = (s.acct b).pending ∧ ((s.enqueueTx t).1.acct b).nonce = (s.acct b).nonce ∧
        ((s.enqueueTx t).1.acct b).pn = (s.acct b).pn ∧ ((s.enqueueTx t).1.acct b).beat = (s.acct b).beat ∧
        ((s.enqueueTx t).1.acct b).balance = (s.acct b).balance ∧ ((s.enqueueTx t).1.acct b).isLocal = (s.acct b).isLocal := by
  unfold State.enqueueTx
  simp only
  split
  · exact ⟨h, rfl, rfl, rfl, fun _ => ⟨rfl, rfl, rfl, rfl, rfl, rfl⟩⟩
  · rename_i old q' hadd
    -- the account update, then only lookup / priced-list bookkeeping
    let s1 := s.upd t.sender (fun ac => { ac with queue := q' })
    have h1 : AllJ s1 := h.upd _ _ (fun _ => acctJ_enqueue (h t.sender) t _ rfl hpre q' old hadd)
    have hrest : ∀ (s2 : State), Same s1 s2 → AllJ s2 ∧ s2.n = s.n ∧ s2.maxGas = s.maxGas ∧ s2.cfg = s.cfg ∧
        ∀ b, (s2.acct b).pending = (s.acct b).pending ∧ (s2.acct b).nonce = (s.acct b).nonce ∧
          (s2.acct b).pn = (s.acct b).pn ∧ (s2.acct b).beat = (s.acct b).beat ∧
          (s2.acct b).balance = (s.acct b).balance ∧ (s2.acct b).isLocal = (s.acct b).isLocal := by
      intro s2 hs
      refine ⟨hs.allJ h1, by rw [hs.n]; exact n_upd _ _ _, hs.2.1, hs.2.2, ?_⟩
      intro b
      rw [hs.acct b]
      simp only [s1, acct_upd]
      split <;> simp
    apply hrest
    cases old with
    | none =>
      simp only
      split
      · exact Same.refl _
      · exact (same_allAdd _ _).trans (same_pricedPut _ _)
    | some o =>
      simp only
      split
      · exact (same_allRemove _ _).trans (same_pricedRemoved _ _)
      · exact ((same_allRemove _ _).trans (same_pricedRemoved _ _)).trans ((same_allAdd _ _).trans (same_pricedPut _ _))

/-- everything about the accounts except their queues is as before -/
def QFrame (s s' : State) : Prop :=
  s'.n = s.n ∧ s'.maxGas = s.maxGas ∧ s'.cfg = s.cfg ∧
    ∀ b, (s'.acct b).pending = (s.acct b).pending ∧ (s'.acct b).nonce = (s.acct b).nonce ∧
      (s'.acct b).pn = (s.acct b).pn ∧ (s'.acct b).beat = (s.acct b).beat ∧
      (s'.acct b).balance = (s.acct b).balance ∧ (s'.acct b).isLocal = (s.acct b).isLocal

theorem QFrame.refl (s : State) : QFrame s s := ⟨rfl, rfl, rfl, fun _ => ⟨rfl, rfl, rfl, rfl, rfl, rfl⟩⟩
theorem QFrame.trans {a b c : State} (h1 : QFrame a b) (h2 : QFrame b c) : QFrame a c := by
  refine ⟨h2.1.trans h1.1, h2.2.1.trans h1.2.1, h2.2.2.1.trans h1.2.2.1, fun x => ?_⟩
  have p := h1.2.2.2 x
  have q := h2.2.2.2 x
  exact ⟨q.1.trans p.1, q.2.1.trans p.2.1, q.2.2.1.trans p.2.2.1, q.2.2.2.1.trans p.2.2.2.1,
    q.2.2.2.2.1.trans p.2.2.2.2.1, q.2.2.2.2.2.trans p.2.2.2.2.2⟩

theorem QFrame.pn {s s' : State} (h : QFrame s s') (b : Nat) : PN s b → PN s' b := by
  unfold PN Account.pnGet
  have := h.2.2.2 b
  rw [this.1, this.2.1, this.2.2.1]; exact id

theorem enqueueMany_spec {s : State} (h : AllJ s) (ts : List Tx)
    (hpre : ∀ t ∈ ts, (s.acct t.sender).nonce + (s.acct t.sender).pending.txs.length ≤ t.nonce) :
    AllJ (s.enqueueMany ts) ∧ QFrame s (s.enqueueMany ts) := by
  unfold State.enqueueMany
  induction ts generalizing s with
  | nil => exact ⟨h, QFrame.refl _⟩
  | cons t ts ih =>
    simp only [List.foldl_cons]
    have h1 := enqueueTx_spec h t (hpre t (by simp))
    have f1 : QFrame s (s.enqueueTx t).1 := h1.2
    have := ih h1.1 (by
      intro x hx
      have := f1.2.2.2 x.sender
      rw [this.1, this.2.1]
      exact hpre x (by simp [hx]))
    exact ⟨this.1, f1.trans this.2⟩

/-! ### removeTx -/

theorem Chain.filter_lt_length {n m : Nat} {l : List Tx} (h : Chain n l) (h1 : n ≤ m) (h2 : m ≤ n + l.length) :
    (l.filter (fun t => decide (t.nonce < m))).length = m - n := by
  induction h with
  | nil n => simp at h2; simp; omega
  | @cons n x xs hx hc ih =>
    by_cases hlt : x.nonce < m
    · simp only [List.filter_cons, hlt, decide_true, if_true, List.length_cons]
      simp only [List.length_cons] at h2
      rw [ih (by omega) (by omega)]; omega
    · have : xs.filter (fun t => decide (t.nonce < m)) = [] := by
        rw [List.filter_eq_nil_iff]
        intro t ht
        have := hc.bounds t ht
        simp; omega
      simp only [List.filter_cons, hlt, decide_false, this]
      simp; omega

theorem strict_remove_kept (l : List Tx) (m : Nat) :
    (l.filter (fun x => x.nonce != m)).filter (fun x => !decide (x.nonce > m)) = l.filter (fun x => decide (x.nonce < m)) := by
  rw [List.filter_filter]
  apply List.filter_congr
  intro x _
  by_cases h1 : x.nonce = m <;> by_cases h2 : x.nonce < m <;> simp [h1, h2] <;> omega

/-! ### the demotion gap step (fix F-C20b) -/

theorem getN_cons_lt {x : Tx} {xs : List Tx} {m : Nat} (h : x.nonce < m) : getN (x :: xs) m = getN xs m := by
  unfold getN
  rw [List.find?_cons]
  have : (x.nonce == m) = false := by simp; omega
  simp [this]

theorem contigRun_cons_lt (fuel : Nat) {x : Tx} {xs : List Tx} {m : Nat} (h : x.nonce < m) :
    contigRun fuel (x :: xs) m = contigRun fuel xs m := by
  induction fuel generalizing m with
  | zero => rfl
  | succ f ih =>
    unfold contigRun
    rw [getN_cons_lt h, ih (by omega)]

/-- keeping the `contigRun` lowest transactions of a sorted list that starts at or above `n` leaves a gap-free run from `n` -/
theorem demote_gap_step {l : List Tx} {n : Nat} (hs : Sorted l) (hge : ∀ t ∈ l, n ≤ t.nonce) :
    Chain n (l.take (contigRun l.length l n)) := by
  induction l generalizing n with
  | nil => simp; exact .nil _
  | cons x xs ih =>
    have hy := (List.pairwise_cons.mp hs).1
    have hxs : Sorted xs := (List.pairwise_cons.mp hs).2
    simp only [List.length_cons]
    unfold contigRun
    by_cases hx : x.nonce = n
    · have : (getN (x :: xs) n).isSome := by rw [← hx]; exact getN_isSome_of_mem (by simp)
      simp only [this, if_true]
      rw [contigRun_cons_lt _ (by omega), Nat.add_comm 1, List.take_succ_cons]
      refine .cons hx (ih hxs ?_)
      intro t ht; have := hy t ht; omega
    · have : getN (x :: xs) n = none := by
        unfold getN
        rw [List.find?_eq_none]
        intro t ht
        simp only [List.mem_cons] at ht
        have : n < t.nonce := by
          rcases ht with rfl | ht
          · have := hge t (by simp); omega
          · have := hy t ht; have := hge x (by simp); omega
        simp; omega
      simp [this]; exact .nil _

/-! ### the strict `Filter` (affordability of what stays pending) -/

theorem filter_kept_affordable (l : TxList) (strict : Bool) (costLimit gasLimit : Nat)
    (hcaps : ∀ t ∈ l.txs, t.cost ≤ l.costcap ∧ t.gas ≤ l.gascap) :
    ∀ t ∈ (l.filter strict costLimit gasLimit).2.2.txs, t.cost ≤ costLimit ∧ t.gas ≤ gasLimit := by
  unfold TxList.filter
  split
  · rename_i hc
    intro t ht
    have := hcaps t ht
    omega
  · simp only
    have key : ∀ t ∈ l.txs.filter (fun t => !(decide (t.cost > costLimit) || decide (t.gas > gasLimit))),
        t.cost ≤ costLimit ∧ t.gas ≤ gasLimit := by
      intro t ht
      have := (List.mem_filter.mp ht).2
      simp at this
      omega
    split
    · intro t ht
      exact key t (List.mem_filter.mp ht).1
    · exact key

/-! ### the virtual nonce never drops below the state nonce (fix F-C20c) -/

theorem setIfLower_ge (ac : Account) (n : Nat) (h : ac.nonce ≤ ac.pnGet) : ac.nonce ≤ (ac.setIfLower n).pnGet ∧ (ac.setIfLower n).nonce = ac.nonce := by
  unfold Account.setIfLower
  split
  · simp [Account.pnGet] at *; exact h
  · simp [Account.pnGet]; omega

end YouVerif.C20
