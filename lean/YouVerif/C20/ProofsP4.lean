/-
C20 proofs, layer 10: every operation preserves the full per-account invariant `AllI` (shape + virtual nonce) and
the uint64 bound on state nonces — composition of the admission / removal family (`ProofsA*`), the promotion run
(`ProofsP`), truncation and nonce refresh (`ProofsP2`) and the reorg run of a reset (`ProofsS`, `ProofsP3`).
-/
import YouVerif.C20.ProofsP3
import YouVerif.C20.ProofsA2
namespace YouVerif.C20

/-- well-formed operation: the state nonces a reset installs fit a uint64 (`StateDB.GetNonce` returns one) -/
def Op.WF : Op → Prop
  | .reset _ _ _ changes _ _ => ∀ c ∈ changes, c.2.1 ≤ 2 ^ 64 - 1
  | _ => True

/-! ### the reorg run without a reset -/

theorem AllI.reorgPlain {s : State} (h : AllI s) (ord dirty : List Nat) : AllI (s.reorgPlain ord dirty) := by
  unfold State.reorgPlain
  exact (((h.promoteExecutables _).allM.truncatePending _).truncateQueue _).refreshNonces

theorem nframe_reorgPlain {s : State} (h : AllW s) (ord dirty : List Nat) : NFrame s (s.reorgPlain ord dirty) := by
  unfold State.reorgPlain
  exact ((nframe_promoteExecutables h _).trans (nframe_truncatePending _ _)).trans
    ((frame_truncateQueue _ _).nframe.trans (nframe_refreshNonces _))

/-! ### reset -/

/-- CLAUSE (c): the account table keeps its length through `reset` (so the lists `runReorg` walks cover every account);
state nonces stay within uint64; and `RS` holds for every account whatever the reinjection did. -/
theorem reset_spec {s : State} (h : AllI s) (hnb : NB s) (k : ResetKind) (gl : Nat) (ch : List (Nat × Nat × Nat))
    (d i : List Tx) (hch : ∀ c ∈ ch, c.2.1 ≤ 2 ^ 64 - 1) :
    (s.reset k gl ch d i).n = s.n ∧ NB (s.reset k gl ch d i) ∧ AllRS (s.reset k gl ch d i) := by
  cases k with
  | early => exact ⟨rfl, hnb, h.allRS⟩
  | normal =>
    unfold State.reset
    simp only
    have rs := resetState_spec s gl ch
    have fr := frame_addTxsLocked (s.resetState gl ch) (d.filter (fun t => !i.contains t)) false
    refine ⟨fr.1.trans rs.1, fr.nframe.nb (rs.2.2 hch hnb), fun b => ?_⟩
    have hpn : ((s.resetState gl ch).acct b).pnGet = ((s.resetState gl ch).acct b).nonce := by
      unfold Account.pnGet; rw [rs.2.1 b]; rfl
    have := (fr.2.2.2 b).2.2 hpn
    exact ⟨by omega, .inl this⟩

theorem reset_n (s : State) (k : ResetKind) (gl : Nat) (ch : List (Nat × Nat × Nat)) (d i : List Tx) :
    (s.reset k gl ch d i).n = s.n := by
  cases k with
  | early => rfl
  | normal =>
    unfold State.reset
    simp only
    exact (frame_addTxsLocked _ _ _).1.trans (resetState_spec s gl ch).1

theorem AllI.reorgReset {s : State} (h : AllI s) (hnb : NB s) (ord : List Nat) (k : ResetKind) (gl : Nat)
    (ch : List (Nat × Nat × Nat)) (d i : List Tx) (hch : ∀ c ∈ ch, c.2.1 ≤ 2 ^ 64 - 1) :
    AllI (s.reorgReset ord k gl ch d i) ∧ NB (s.reorgReset ord k gl ch d i) := by
  unfold State.reorgReset
  simp only
  obtain ⟨hn1, hnb1, hrs1⟩ := reset_spec h hnb k gl ch d i hch
  have hw1 : AllW (s.reset k gl ch d i) := h.1.allW.reset k gl ch d i
  generalize s.reset k gl ch d i = s1 at *
  -- promotion over every account with a queue
  have hw2 := hw1.promoteExecutables ((normOrd s.n ord).filter (fun a => !(s1.acct a).queue.txs.isEmpty))
  have nf2 := nframe_promoteExecutables hw1 ((normOrd s.n ord).filter (fun a => !(s1.acct a).queue.txs.isEmpty))
  have hrs2 := AllRS.promoteExecutables hw1 hrs1 ((normOrd s.n ord).filter (fun a => !(s1.acct a).queue.txs.isEmpty))
  have hnb2 := nf2.nb hnb1
  -- demotion over every account
  have hw3 := hw2.demoteUnexecutables (normOrd s.n ord)
  have nf3 := nframe_demoteUnexecutables hw2 (normOrd s.n ord)
  have hrs3 := AllRS.demoteUnexecutables hw2 hnb2 hrs2 (normOrd s.n ord)
  have hsh := promote_then_demote_shape hw1 ((normOrd s.n ord).filter (fun a => !(s1.acct a).queue.txs.isEmpty))
    (normOrd s.n ord)
    (by
      intro b hb
      have hlt : b < s.n := by rw [← hn1]; exact lt_n_of_queue hb
      refine List.mem_filter.mpr ⟨mem_normOrd _ _ _ hlt, ?_⟩
      simp [hb])
    (by
      intro b hb
      exact mem_normOrd _ _ _ (by rw [← hn1]; exact hb))
  have hm3 := allM_of_shape hw3 hsh hrs3
  refine ⟨((hm3.truncatePending _).truncateQueue _).refreshNonces, ?_⟩
  exact (((nframe_truncatePending _ _).trans (frame_truncateQueue _ _).nframe).trans (nframe_refreshNonces _)).nb
    (nf3.nb hnb2)

theorem nframe_n_reorgReset {s : State} (h : AllW s) (ord : List Nat) (k : ResetKind) (gl : Nat)
    (ch : List (Nat × Nat × Nat)) (d i : List Tx) : (s.reorgReset ord k gl ch d i).n = s.n := by
  unfold State.reorgReset
  simp only
  have hw1 : AllW (s.reset k gl ch d i) := h.reset k gl ch d i
  have hn1 := reset_n s k gl ch d i
  generalize s.reset k gl ch d i = s1 at *
  have nf2 := nframe_promoteExecutables hw1 ((normOrd s.n ord).filter (fun a => !(s1.acct a).queue.txs.isEmpty))
  have nf3 := nframe_demoteUnexecutables (hw1.promoteExecutables ((normOrd s.n ord).filter (fun a => !(s1.acct a).queue.txs.isEmpty)))
    (normOrd s.n ord)
  exact ((((nf2.trans nf3).trans (nframe_truncatePending _ _)).trans (frame_truncateQueue _ _).nframe).trans
    (nframe_refreshNonces _)).1.trans hn1

/-! ### every operation -/

/-- CLAUSES (a), (b), (c): every (well-formed) operation preserves the full per-account invariant of every account —
pending gap-free from the state nonce, payable, within the block gas limit, queue strictly above, virtual nonce =
state nonce + number of pending — and the uint64 bound on state nonces. -/
theorem AllI.step {s : State} (h : AllI s) (hnb : NB s) (op : Op) (hwf : op.WF) :
    AllI (step s op).1 ∧ NB (step s op).1 := by
  cases op with
  | add l ord txs =>
    exact ⟨(h.addTxsLocked txs l).reorgPlain _ _,
      ((frame_addTxsLocked s txs l).nframe.trans (nframe_reorgPlain (h.1.allW.addTxsLocked txs l) _ _)).nb hnb⟩
  | reset ord k gl ch d i => exact h.reorgReset hnb ord k gl ch d i hwf
  | setPrice p => exact ⟨h.setGasPrice p, (frame_setGasPrice s p).nframe.nb hnb⟩
  | remove t oob => exact ⟨h.removeTx t oob, (frame_removeTx s t oob).nframe.nb hnb⟩
  | evict ord k => exact ⟨h.evict ord k, (frame_evict s ord k).nframe.nb hnb⟩
  | promote ord => exact ⟨h.reorgPlain ord [], (nframe_reorgPlain h.1.allW ord []).nb hnb⟩

/-- table length is invariant under every operation -/
theorem step_n {s : State} (h : AllW s) (op : Op) : (step s op).1.n = s.n := by
  cases op with
  | add l ord txs =>
    exact ((frame_addTxsLocked s txs l).nframe.trans (nframe_reorgPlain (h.addTxsLocked txs l) _ _)).1
  | reset ord k gl ch d i => exact nframe_n_reorgReset h ord k gl ch d i
  | setPrice p => exact (frame_setGasPrice s p).1
  | remove t oob => exact (frame_removeTx s t oob).1
  | evict ord k => exact (frame_evict s ord k).1
  | promote ord => exact (nframe_reorgPlain h ord []).1

end YouVerif.C20
