/-
C20 proofs, layer 6 (interface): the pieces of the full pool invariant and the frames shared by the preservation
proofs (`ProofsA*` removal / admission family, `ProofsP*` promotion / truncation / reset run, `ProofsG*` global
index clauses, `ProofsE*` limits).
-/
import YouVerif.C20.ProofsS
namespace YouVerif.C20

/-- weak virtual-nonce clause that holds in the middle of a reorg run (before the closing nonce refresh):
the virtual nonce is not below the state nonce, and it equals the state nonce for accounts without pending -/
def PNw (ac : Account) : Prop := ac.nonce ≤ ac.pnGet ∧ (ac.pending.txs = [] → ac.pnGet = ac.nonce)

/-- the per-account invariant in the middle of a reorg run -/
def AllM (s : State) : Prop := AllJ s ∧ ∀ b, PNw (s.acct b)

/-- global index clauses -/
structure GI (s : State) : Prop where
  allNodup : s.all.Nodup
  /-- `all` is exactly the union of pending and queued -/
  allUnion : ∀ t, t ∈ s.all ↔ (t ∈ (s.acct t.sender).pending.txs ∨ t ∈ (s.acct t.sender).queue.txs)
  /-- every pooled transaction has a (live) entry in the priced heap -/
  pricedCovers : ∀ t ∈ s.all, t ∈ s.priced

theorem AcctJ.toW {ac : Account} {a mg : Nat} (h : AcctJ ac a mg) : AcctW ac a where
  pSender := h.pSender
  qSender := h.qSender
  pSorted := h.pChain.sorted
  qSorted := h.qSorted
  disj := by
    intro p hp q hq
    have := h.pChain.bounds p hp
    have := h.qAbove q hq
    omega
  pCaps := h.pCaps
  qCaps := h.qCaps
  beat := h.beat

theorem AllJ.allW {s : State} (h : AllJ s) : AllW s := fun a => (h a).toW

theorem AcctJ.shape {ac : Account} {a mg : Nat} (h : AcctJ ac a mg) : Shape ac mg := ⟨h.pChain, h.pAfford, h.qAbove⟩

theorem AcctJ.ofShape {ac : Account} {a mg : Nat} (hw : AcctW ac a) (hs : Shape ac mg) : AcctJ ac a mg where
  pSender := hw.pSender
  qSender := hw.qSender
  pChain := hs.pChain
  pAfford := hs.pAfford
  qSorted := hw.qSorted
  qAbove := hs.qAbove
  beat := hw.beat
  pCaps := hw.pCaps
  qCaps := hw.qCaps

theorem PN.weak {s : State} {b : Nat} (h : PN s b) : PNw (s.acct b) := by
  unfold PN at h
  refine ⟨by omega, fun he => ?_⟩
  rw [h, he]; rfl

theorem AllI.allM {s : State} (h : AllI s) : AllM s := ⟨h.1, fun b => (h.2 b).weak⟩

/-- Frame of the operations that never promote (admission, removal, queue truncation): table length, gas limit,
configuration, state nonces and balances are untouched, and a virtual nonce that equals the state nonce stays so. -/
def Frame (s s' : State) : Prop :=
  s'.n = s.n ∧ s'.maxGas = s.maxGas ∧ s'.cfg = s.cfg ∧
    ∀ b, (s'.acct b).nonce = (s.acct b).nonce ∧ (s'.acct b).balance = (s.acct b).balance ∧
      ((s.acct b).pnGet = (s.acct b).nonce → (s'.acct b).pnGet = (s'.acct b).nonce)

theorem Frame.refl (s : State) : Frame s s := ⟨rfl, rfl, rfl, fun _ => ⟨rfl, rfl, id⟩⟩
theorem Frame.trans {a b c : State} (h1 : Frame a b) (h2 : Frame b c) : Frame a c := by
  refine ⟨h2.1.trans h1.1, h2.2.1.trans h1.2.1, h2.2.2.1.trans h1.2.2.1, fun x => ?_⟩
  have p := h1.2.2.2 x
  have q := h2.2.2.2 x
  exact ⟨q.1.trans p.1, q.2.1.trans p.2.1, fun h => q.2.2 (p.2.2 h)⟩
theorem Same.frame {s s' : State} (h : Same s s') : Frame s s' :=
  ⟨h.n, h.2.1, h.2.2, fun b => by rw [h.acct b]; exact ⟨rfl, rfl, id⟩⟩
theorem QFrame.frame {s s' : State} (h : QFrame s s') : Frame s s' := by
  refine ⟨h.1, h.2.1, h.2.2.1, fun b => ?_⟩
  have := h.2.2.2 b
  refine ⟨this.2.1, this.2.2.2.2.1, ?_⟩
  unfold Account.pnGet
  rw [this.2.1, this.2.2.1]; exact id

end YouVerif.C20
