/-
C20 proofs, layer 7 (global index clauses, part 1): bookkeeping of `all` / `priced`, the abstract union lemmas,
re-insertion of "limbo" transactions, and the exact effect of `removeTx`.
-/
import YouVerif.C20.ProofsInv
namespace YouVerif.C20

/-- `all` = union of every sender's two lists, plus the transactions in limbo `L` (in `all`, about to be re-inserted) -/
def AU (s : State) (L : List Tx) : Prop :=
  ∀ t, t ∈ s.all ↔ (t ∈ (s.acct t.sender).pending.txs ∨ t ∈ (s.acct t.sender).queue.txs ∨ t ∈ L)

/-- every member of `all` is in the priced heap, or is excused by `P` (the transactions about to be dropped) -/
def PCp (s : State) (P : Tx → Prop) : Prop := ∀ t ∈ s.all, t ∈ s.priced ∨ P t

/-- index-level step relation: duplicate-freeness of `all` and coverage by `priced` are carried over -/
def IK (s s' : State) : Prop := (s.all.Nodup → s'.all.Nodup) ∧ ∀ P, PCp s P → PCp s' P

theorem IK.refl (s : State) : IK s s := ⟨id, fun _ h => h⟩
theorem IK.trans {a b c : State} (h1 : IK a b) (h2 : IK b c) : IK a c :=
  ⟨fun h => h2.1 (h1.1 h), fun P h => h2.2 P (h1.2 P h)⟩
theorem IK.of_eq {s s' : State} (h1 : s'.all = s.all) (h2 : s'.priced = s.priced) : IK s s' := by
  refine ⟨fun h => by rw [h1]; exact h, fun P h => ?_⟩
  unfold PCp; rw [h1, h2]; exact h

theorem PCp.mono {s : State} {P Q : Tx → Prop} (h : PCp s P) (hpq : ∀ t, t ∈ s.all → P t → Q t) : PCp s Q := by
  intro t ht
  rcases h t ht with h | h
  · exact .inl h
  · exact .inr (hpq t ht h)

theorem gi_iff (s : State) : GI s ↔ (s.all.Nodup ∧ AU s [] ∧ PCp s (fun _ => False)) := by
  constructor
  · intro h
    refine ⟨h.allNodup, fun t => ?_, fun t ht => .inl (h.pricedCovers t ht)⟩
    rw [h.allUnion t]; simp
  · intro ⟨h1, h2, h3⟩
    refine ⟨h1, fun t => ?_, fun t ht => ?_⟩
    · rw [h2 t]; simp
    · rcases h3 t ht with h | h
      · exact h
      · exact h.elim

theorem GI.au {s : State} (h : GI s) : AU s [] := ((gi_iff s).mp h).2.1

/-- the form in which every preservation result is produced -/
theorem GI.of_ik {s s' : State} (hg : GI s) (hau : AU s' []) (hik : IK s s') : GI s' :=
  (gi_iff s').mpr ⟨hik.1 hg.allNodup, hau, hik.2 _ ((gi_iff s).mp hg).2.2⟩

/-! ### fields of the bookkeeping primitives -/

@[simp] theorem all_upd (s : State) (a : Nat) (f : Account → Account) : (s.upd a f).all = s.all := rfl
@[simp] theorem priced_upd (s : State) (a : Nat) (f : Account → Account) : (s.upd a f).priced = s.priced := rfl
@[simp] theorem priced_allRemove (s : State) (t : Tx) : (s.allRemove t).priced = s.priced := rfl
@[simp] theorem acct_allRemove (s : State) (t : Tx) (b : Nat) : (s.allRemove t).acct b = s.acct b := rfl
@[simp] theorem n_allRemove (s : State) (t : Tx) : (s.allRemove t).n = s.n := rfl
@[simp] theorem acct_allRemoveMany (s : State) (ts : List Tx) (b : Nat) : (s.allRemoveMany ts).acct b = s.acct b :=
  (same_allRemoveMany s ts).acct b
@[simp] theorem n_allRemoveMany (s : State) (ts : List Tx) : (s.allRemoveMany ts).n = s.n := (same_allRemoveMany s ts).n
@[simp] theorem acct_pricedRemoved (s : State) (k : Nat) (b : Nat) : (s.pricedRemoved k).acct b = s.acct b :=
  (same_pricedRemoved s k).acct b
@[simp] theorem n_pricedRemoved (s : State) (k : Nat) : (s.pricedRemoved k).n = s.n := (same_pricedRemoved s k).n
@[simp] theorem all_pricedRemoved (s : State) (k : Nat) : (s.pricedRemoved k).all = s.all := by
  unfold State.pricedRemoved; simp only; split <;> rfl

theorem mem_allRemove (s : State) (t x : Tx) : x ∈ (s.allRemove t).all ↔ (x ∈ s.all ∧ x ≠ t) := by
  simp [State.allRemove]

theorem all_allRemoveMany (s : State) (ts : List Tx) : (s.allRemoveMany ts).all = s.all.filter (fun x => !ts.contains x) := by
  unfold State.allRemoveMany
  induction ts generalizing s with
  | nil => exact (List.filter_eq_self.mpr (by simp)).symm
  | cons t ts ih =>
    simp only [List.foldl_cons]
    rw [ih]
    simp only [State.allRemove, List.filter_filter]
    apply List.filter_congr
    intro x _
    by_cases h1 : x = t <;> by_cases h2 : x ∈ ts <;> simp [h1, h2]

theorem priced_allRemoveMany (s : State) (ts : List Tx) : (s.allRemoveMany ts).priced = s.priced := by
  unfold State.allRemoveMany
  induction ts generalizing s with
  | nil => rfl
  | cons t ts ih => simp only [List.foldl_cons]; rw [ih]; rfl

theorem mem_allRemoveMany (s : State) (ts : List Tx) (x : Tx) : x ∈ (s.allRemoveMany ts).all ↔ (x ∈ s.all ∧ x ∉ ts) := by
  rw [all_allRemoveMany]; simp

theorem mem_allAdd (s : State) (t x : Tx) : x ∈ (s.allAdd t).all ↔ (x = t ∨ x ∈ s.all) := by
  unfold State.allAdd
  split
  · rename_i h
    constructor
    · exact fun hx => .inr hx
    · rintro (rfl | hx)
      · exact h
      · exact hx
  · simp

theorem IK.upd (s : State) (a : Nat) (f : Account → Account) : IK s (s.upd a f) := IK.of_eq rfl rfl

theorem IK.allRemove (s : State) (t : Tx) : IK s (s.allRemove t) := by
  refine ⟨fun h => h.sublist List.filter_sublist, fun P h x hx => ?_⟩
  exact h x ((mem_allRemove s t x).mp hx).1

theorem IK.allRemoveMany (s : State) (ts : List Tx) : IK s (s.allRemoveMany ts) := by
  refine ⟨fun h => by rw [all_allRemoveMany]; exact h.sublist List.filter_sublist, fun P h x hx => ?_⟩
  rw [priced_allRemoveMany]
  exact h x ((mem_allRemoveMany s ts x).mp hx).1

theorem IK.pricedRemoved (s : State) (k : Nat) : IK s (s.pricedRemoved k) := by
  refine ⟨fun h => by rw [all_pricedRemoved]; exact h, fun P h x hx => ?_⟩
  rw [all_pricedRemoved] at hx
  unfold State.pricedRemoved
  simp only
  split
  · exact h x hx
  · exact .inl hx

theorem IK.addPut (s : State) (t : Tx) : IK s ((s.allAdd t).pricedPut t) := by
  refine ⟨fun h => ?_, fun P h x hx => ?_⟩
  · show (s.allAdd t).all.Nodup
    unfold State.allAdd
    split
    · exact h
    · rename_i hn; exact List.nodup_cons.mpr ⟨hn, h⟩
  · have hx' : x ∈ (s.allAdd t).all := hx
    show x ∈ t :: (s.allAdd t).priced ∨ P x
    have hp : (s.allAdd t).priced = s.priced := by unfold State.allAdd; split <;> rfl
    rw [hp]
    rcases (mem_allAdd s t x).mp hx' with rfl | hx'
    · exact .inl (by simp)
    · rcases h x hx' with h | h
      · exact .inl (by simp [h])
      · exact .inr h

theorem mem_enqTail (s1 : State) (old : Option Tx) (t x : Tx) :
    x ∈ (enqTail s1 old t).all ↔ (x = t ∨ (x ∈ s1.all ∧ ∀ o, old = some o → x ≠ o)) := by
  have key : ∀ s : State, x ∈ (if t ∈ s.all then s else (s.allAdd t).pricedPut t).all ↔ (x = t ∨ x ∈ s.all) := by
    intro s
    split
    · rename_i h
      constructor
      · exact fun hx => .inr hx
      · rintro (rfl | hx)
        · exact h
        · exact hx
    · exact mem_allAdd s t x
  unfold enqTail
  cases old with
  | none => simp only; rw [key]; simp
  | some o => simp only; rw [key, all_pricedRemoved, mem_allRemove]; simp

theorem IK.enqTail (s1 : State) (old : Option Tx) (t : Tx) : IK s1 (enqTail s1 old t) := by
  have key : ∀ s : State, IK s (if t ∈ s.all then s else (s.allAdd t).pricedPut t) := by
    intro s
    split
    · exact IK.refl _
    · exact IK.addPut s t
  unfold YouVerif.C20.enqTail
  cases old with
  | none => exact key _
  | some o => exact ((IK.allRemove _ _).trans (IK.pricedRemoved _ _)).trans (key _)

/-! ### abstract union lemmas -/

theorem AU.congr {s s' : State} {L : List Tx} (h : AU s L) (hall : ∀ x, x ∈ s'.all ↔ x ∈ s.all)
    (hl : ∀ b, (s'.acct b).pending.txs = (s.acct b).pending.txs ∧ (s'.acct b).queue.txs = (s.acct b).queue.txs) :
    AU s' L := by
  intro t
  rw [hall, (hl t.sender).1, (hl t.sender).2]; exact h t

/-- one account's lists shrink: `dropped` leaves `all`, `L` stays in `all` but in neither list (limbo) -/
theorem AU.shrink {s s' : State} {a : Nat} (hw : AllW s) (hau : AU s []) (dropped L : List Tx)
    (hall : ∀ x, x ∈ s'.all ↔ (x ∈ s.all ∧ x ∉ dropped))
    (hoth : ∀ b, b ≠ a → (s'.acct b).pending.txs = (s.acct b).pending.txs ∧ (s'.acct b).queue.txs = (s.acct b).queue.txs)
    (hpart : ∀ x, (x ∈ (s.acct a).pending.txs ∨ x ∈ (s.acct a).queue.txs) ↔
      ((x ∈ (s'.acct a).pending.txs ∨ x ∈ (s'.acct a).queue.txs ∨ x ∈ L) ∨ x ∈ dropped))
    (hdisj : ∀ x ∈ dropped, ¬ (x ∈ (s'.acct a).pending.txs ∨ x ∈ (s'.acct a).queue.txs ∨ x ∈ L)) : AU s' L := by
  have hsend : ∀ x, (x ∈ (s.acct a).pending.txs ∨ x ∈ (s.acct a).queue.txs) → x.sender = a := by
    rintro x (h | h)
    · exact (hw a).pSender x h
    · exact (hw a).qSender x h
  intro x
  rw [hall, hau x]
  simp only [List.not_mem_nil, or_false]
  by_cases hx : x.sender = a
  · rw [hx]
    constructor
    · rintro ⟨h1, h2⟩
      rcases (hpart x).mp h1 with h | h
      · exact h
      · exact absurd h h2
    · intro h
      exact ⟨(hpart x).mpr (.inl h), fun hd => hdisj x hd h⟩
  · rw [(hoth _ hx).1, (hoth _ hx).2]
    have h1 : x ∉ dropped := fun hd => hx (hsend x ((hpart x).mpr (.inr hd)))
    have h2 : x ∉ L := fun hd => hx (hsend x ((hpart x).mpr (.inl (.inr (.inr hd)))))
    constructor
    · rintro ⟨h | h, _⟩
      · exact .inl h
      · exact .inr (.inl h)
    · rintro (h | h | h)
      · exact ⟨.inl h, h1⟩
      · exact ⟨.inr h, h1⟩
      · exact absurd h h2

/-- a new transaction of account `a` enters one of its lists, possibly displacing `old` -/
theorem AU.replace {s s' : State} {a : Nat} (hau : AU s []) (t : Tx) (old : Option Tx) (hts : t.sender = a)
    (hold : ∀ o, old = some o → o.sender = a)
    (hall : ∀ x, x ∈ s'.all ↔ (x = t ∨ (x ∈ s.all ∧ ∀ o, old = some o → x ≠ o)))
    (hoth : ∀ b, b ≠ a → (s'.acct b).pending.txs = (s.acct b).pending.txs ∧ (s'.acct b).queue.txs = (s.acct b).queue.txs)
    (hpart : ∀ x, (x ∈ (s'.acct a).pending.txs ∨ x ∈ (s'.acct a).queue.txs) ↔
      (x = t ∨ ((x ∈ (s.acct a).pending.txs ∨ x ∈ (s.acct a).queue.txs) ∧ ∀ o, old = some o → x ≠ o))) : AU s' [] := by
  intro x
  rw [hall, hau x]
  simp only [List.not_mem_nil, or_false]
  by_cases hx : x.sender = a
  · rw [hx]; exact (hpart x).symm
  · rw [(hoth _ hx).1, (hoth _ hx).2]
    have h1 : x ≠ t := fun e => hx (e ▸ hts)
    have h2 : ∀ o, old = some o → x ≠ o := fun o ho e => hx (e ▸ hold o ho)
    constructor
    · rintro (h | ⟨h, _⟩)
      · exact absurd h h1
      · exact h
    · exact fun h => .inr ⟨h, h2⟩

/-- a limbo transaction of account `a` is re-inserted into one of its lists -/
theorem AU.insert {s s' : State} {a : Nat} {t : Tx} {ts : List Tx} (hau : AU s (t :: ts)) (hts : t.sender = a)
    (hall : ∀ x, x ∈ s'.all ↔ x ∈ s.all)
    (hoth : ∀ b, b ≠ a → (s'.acct b).pending.txs = (s.acct b).pending.txs ∧ (s'.acct b).queue.txs = (s.acct b).queue.txs)
    (hpart : ∀ x, (x ∈ (s'.acct a).pending.txs ∨ x ∈ (s'.acct a).queue.txs) ↔
      (x = t ∨ x ∈ (s.acct a).pending.txs ∨ x ∈ (s.acct a).queue.txs)) : AU s' ts := by
  intro x
  rw [hall, hau x]
  simp only [List.mem_cons]
  by_cases hx : x.sender = a
  · rw [hx]
    have := hpart x
    constructor
    · rintro (h | h | h | h)
      · rcases this.mpr (.inr (.inl h)) with h | h
        · exact .inl h
        · exact .inr (.inl h)
      · rcases this.mpr (.inr (.inr h)) with h | h
        · exact .inl h
        · exact .inr (.inl h)
      · rcases this.mpr (.inl h) with h | h
        · exact .inl h
        · exact .inr (.inl h)
      · exact .inr (.inr h)
    · rintro (h | h | h)
      · rcases this.mp (.inl h) with h | h | h
        · exact .inr (.inr (.inl h))
        · exact .inl h
        · exact .inr (.inl h)
      · rcases this.mp (.inr h) with h | h | h
        · exact .inr (.inr (.inl h))
        · exact .inl h
        · exact .inr (.inl h)
      · exact .inr (.inr (.inr h))
  · rw [(hoth _ hx).1, (hoth _ hx).2]
    have h1 : x ≠ t := fun e => hx (e ▸ hts)
    constructor
    · rintro (h | h | h | h)
      · exact .inl h
      · exact .inr (.inl h)
      · exact absurd h h1
      · exact .inr (.inr h)
    · rintro (h | h | h)
      · exact .inl h
      · exact .inr (.inl h)
      · exact .inr (.inr (.inr h))

/-! ### re-insertion of limbo transactions -/

theorem add_fresh (l : TxList) (t : Tx) (bump : Nat) (h : ∀ x ∈ l.txs, x.nonce ≠ t.nonce) :
    l.add t bump = (true, none, l.put t) := by
  unfold TxList.add
  cases hg : getN l.txs t.nonce with
  | none => rfl
  | some o => exact absurd (getN_some_mem hg).2 (h o (getN_some_mem hg).1)

theorem mem_put_fresh {l : TxList} {t : Tx} (h : ∀ x ∈ l.txs, x.nonce ≠ t.nonce) (x : Tx) :
    x ∈ (l.put t).txs ↔ (x = t ∨ x ∈ l.txs) := by
  simp only [TxList.put]
  constructor
  · exact mem_insertN_or
  · rintro (rfl | hx)
    · exact self_mem_insertN _ _
    · exact mem_insertN_of_mem hx (h x hx)

theorem mem_put_sorted {l : TxList} {t : Tx} (hs : Sorted l.txs) (x : Tx) :
    x ∈ (l.put t).txs ↔ (x = t ∨ (x ∈ l.txs ∧ x.nonce ≠ t.nonce)) := by
  simp only [TxList.put]
  constructor
  · exact mem_insertN_sorted hs
  · rintro (rfl | ⟨hx, hn⟩)
    · exact self_mem_insertN _ _
    · exact mem_insertN_of_mem hx hn

/-- a transaction that is already in `all` and whose nonce is not queued: `enqueueTx` is just the queue update -/
theorem enqueueTx_limbo (s : State) (t : Tx) (hq : ∀ x ∈ (s.acct t.sender).queue.txs, x.nonce ≠ t.nonce) (ht : t ∈ s.all) :
    (s.enqueueTx t).1 = s.upd t.sender (fun ac => { ac with queue := (s.acct t.sender).queue.put t }) := by
  unfold State.enqueueTx
  simp only [add_fresh _ _ _ hq]
  simp [ht]

theorem enqueueMany_limbo {s : State} {a : Nat} (ha : a < s.n) (ts : List Tx) (hau : AU s ts)
    (hs : ∀ x ∈ ts, x.sender = a) (hpw : ts.Pairwise (fun x y => x.nonce ≠ y.nonce))
    (hq : ∀ x ∈ ts, ∀ q ∈ (s.acct a).queue.txs, q.nonce ≠ x.nonce) :
    AU (s.enqueueMany ts) [] ∧ (s.enqueueMany ts).all = s.all ∧ (s.enqueueMany ts).priced = s.priced := by
  unfold State.enqueueMany
  induction ts generalizing s with
  | nil => exact ⟨hau, rfl, rfl⟩
  | cons t ts ih =>
    simp only [List.foldl_cons]
    have hta := hs t (by simp)
    subst hta
    have hqt : ∀ x ∈ (s.acct t.sender).queue.txs, x.nonce ≠ t.nonce := fun x hx => hq t (by simp) x hx
    rw [enqueueTx_limbo s t hqt ((hau t).mpr (.inr (.inr (by simp))))]
    have hau1 : AU (s.upd t.sender (fun ac => { ac with queue := (s.acct t.sender).queue.put t })) ts := by
      refine AU.insert hau rfl (fun _ => Iff.rfl) (fun b hb => ?_) (fun x => ?_)
      · rw [acct_upd]; simp [Ne.symm hb]
      · rw [acct_upd_self _ _ _ ha]
        simp only [mem_put_fresh hqt]
        constructor
        · rintro (h | h | h)
          · exact .inr (.inl h)
          · exact .inl h
          · exact .inr (.inr h)
        · rintro (h | h | h)
          · exact .inr (.inl h)
          · exact .inl h
          · exact .inr (.inr h)
    have := ih (s := s.upd t.sender (fun ac => { ac with queue := (s.acct t.sender).queue.put t }))
      (by rw [n_upd]; exact ha) hau1 (fun x hx => hs x (by simp [hx])) (List.pairwise_cons.mp hpw).2 (by
        intro x hx q hq'
        rw [acct_upd_self _ _ _ ha] at hq'
        rcases (mem_put_fresh hqt q).mp hq' with rfl | hq'
        · exact (List.pairwise_cons.mp hpw).1 x hx
        · exact hq x (by simp [hx]) q hq')
    exact ⟨this.1, this.2.1, this.2.2⟩

/-- a transaction that is already in `all` and whose nonce is not pending: `promoteTx` touches neither index -/
theorem promoteTx_limbo (s : State) (a : Nat) (t : Tx) (hp : ∀ x ∈ (s.acct a).pending.txs, x.nonce ≠ t.nonce) (ht : t ∈ s.all) :
    (s.promoteTx a t).2 = true ∧ (s.promoteTx a t).1.all = s.all ∧ (s.promoteTx a t).1.priced = s.priced := by
  unfold State.promoteTx
  simp only [add_fresh _ _ _ hp]
  simp [ht]

theorem promoteMany_limbo {s : State} {a : Nat} (ha : a < s.n) (ts : List Tx) (hau : AU s ts)
    (hs : ∀ x ∈ ts, x.sender = a) (hpw : ts.Pairwise (fun x y => x.nonce ≠ y.nonce))
    (hp : ∀ x ∈ ts, ∀ p ∈ (s.acct a).pending.txs, p.nonce ≠ x.nonce) :
    AU (s.promoteMany a ts) [] ∧ (s.promoteMany a ts).all = s.all ∧ (s.promoteMany a ts).priced = s.priced := by
  unfold State.promoteMany
  induction ts generalizing s with
  | nil => exact ⟨hau, rfl, rfl⟩
  | cons t ts ih =>
    simp only [List.foldl_cons]
    have hta := hs t (by simp)
    have hpt : ∀ x ∈ (s.acct a).pending.txs, x.nonce ≠ t.nonce := fun x hx => hp t (by simp) x hx
    obtain ⟨hok, hall, hpr⟩ := promoteTx_limbo s a t hpt ((hau t).mpr (.inr (.inr (by simp))))
    obtain ⟨c, _, hac⟩ := promoteTx_acct s a t hok
    have haa : (s.promoteTx a t).1.acct a = { s.acct a with pending := (s.acct a).pending.put t, beat := c, pn := some (t.nonce + 1) } := by
      rw [hac a]; simp [ha]
    have hau1 : AU (s.promoteTx a t).1 ts := by
      refine AU.insert hau hta (fun _ => by rw [hall]) (fun b hb => ?_) (fun x => ?_)
      · rw [hac b]; simp [Ne.symm hb]
      · rw [haa]
        simp only [mem_put_fresh hpt]
        constructor
        · rintro ((h | h) | h)
          · exact .inl h
          · exact .inr (.inl h)
          · exact .inr (.inr h)
        · rintro (h | h | h)
          · exact .inl (.inl h)
          · exact .inl (.inr h)
          · exact .inr h
    have := ih (s := (s.promoteTx a t).1) (by rw [(promoteTx_pframe s a t).1]; exact ha) hau1
      (fun x hx => hs x (by simp [hx])) (List.pairwise_cons.mp hpw).2 (by
        intro x hx p hp'
        rw [haa] at hp'
        rcases (mem_put_fresh hpt p).mp hp' with rfl | hp'
        · exact (List.pairwise_cons.mp hpw).1 x hx
        · exact hp x (by simp [hx]) p hp')
    exact ⟨this.1, this.2.1.trans hall, this.2.2.trans hpr⟩

theorem Sorted.pairwise_ne {l : List Tx} (h : Sorted l) : l.Pairwise (fun x y => x.nonce ≠ y.nonce) :=
  List.Pairwise.imp (fun h => by omega) h

/-! ### removeTx -/

/-- the index part of `removeTx` -/
def rmHead (s : State) (t : Tx) (oob : Bool) : State := if oob then (s.allRemove t).pricedRemoved 1 else s.allRemove t

theorem removeTx_eq (s : State) (t : Tx) (oob : Bool) (ht : t ∈ s.all) :
    s.removeTx t oob = (rmHead s t oob).removeFromLists t := by
  unfold State.removeTx rmHead; simp [ht]

theorem same_rmHead (s : State) (t : Tx) (oob : Bool) : Same s (rmHead s t oob) := by
  unfold rmHead; split
  · exact (same_allRemove _ _).trans (same_pricedRemoved _ _)
  · exact same_allRemove _ _

theorem all_rmHead (s : State) (t : Tx) (oob : Bool) : (rmHead s t oob).all = s.all.filter (fun x => x != t) := by
  unfold rmHead; split
  · rw [all_pricedRemoved]; rfl
  · rfl

theorem priced_rmHead (s : State) (t : Tx) (oob : Bool) :
    (rmHead s t oob).priced = s.priced ∨ (rmHead s t oob).priced = (rmHead s t oob).all := by
  unfold rmHead; split
  · unfold State.pricedRemoved
    simp only
    split
    · exact .inl rfl
    · exact .inr rfl
  · exact .inl rfl

theorem remove_strict_found {l : TxList} {t : Tx} (hs : Sorted l.txs) (ht : t ∈ l.txs) :
    (l.remove true t).1 = true ∧ (l.remove true t).2.2.txs = l.txs.filter (fun x => decide (x.nonce < t.nonce)) ∧
    (∀ x, x ∈ (l.remove true t).2.1 ↔ (x ∈ l.txs ∧ t.nonce < x.nonce)) ∧ Sorted (l.remove true t).2.1 := by
  have h1 : (l.remove true t).1 = true := by
    unfold TxList.remove
    cases hg : getN l.txs t.nonce with
    | none => exact absurd rfl (getN_none hg t ht)
    | some o => rfl
  have sp := (remove_strict_spec l t hs).2 h1
  refine ⟨h1, sp.2.2.2.2.2.2.2, fun x => ⟨sp.2.1 x, fun h => sp.2.2.2.2.2.2.1 x h.1 h.2⟩, ?_⟩
  unfold TxList.remove
  cases hg : getN l.txs t.nonce with
  | none => exact sorted_nil
  | some o => exact (hs.filter _).filter _

theorem filter_nonce_eq {l : List Tx} {t : Tx} (hs : Sorted l) (ht : t ∈ l) :
    l.filter (fun x => x.nonce != t.nonce) = l.filter (fun x => x != t) := by
  apply List.filter_congr
  intro x hx
  by_cases h : x = t
  · subst h; simp
  · have : x.nonce ≠ t.nonce := fun e => h (hs.eq_of_nonce hx ht e)
    rw [bne_iff_ne.mpr this, bne_iff_ne.mpr h]

/-- `removeQueued` of a queued transaction: one queue update, by nonce -/
theorem removeQueued_eq (s : State) (t : Tx) (ht : t ∈ (s.acct t.sender).queue.txs) :
    ∃ q' : TxList, s.removeQueued t = s.upd t.sender (fun ac => { ac with queue := q' }) ∧
      q'.txs = (s.acct t.sender).queue.txs.filter (fun x => x.nonce != t.nonce) := by
  have hr : ((s.acct t.sender).queue.remove false t).2.2.txs =
      (s.acct t.sender).queue.txs.filter (fun x => x.nonce != t.nonce) := by
    unfold TxList.remove
    cases hg : getN (s.acct t.sender).queue.txs t.nonce with
    | none => exact absurd rfl (getN_none hg t ht)
    | some o => rfl
  unfold State.removeQueued
  simp only
  split
  · rename_i hemp
    have : (s.acct t.sender).queue.txs = [] := by simpa using hemp
    rw [this] at ht; simp at ht
  · split
    · rename_i hemp
      refine ⟨{}, rfl, ?_⟩
      rw [← hr]
      have : ((s.acct t.sender).queue.remove false t).2.2.txs = [] := by simpa using hemp
      rw [this]
    · exact ⟨_, rfl, hr⟩

theorem removeFromLists_queued {s : State} (hw : AllW s) (t : Tx) (ht : t ∈ (s.acct t.sender).queue.txs) :
    s.removeFromLists t = s.removeQueued t := by
  have : (if (s.acct t.sender).pending.txs.isEmpty then (false, [], (s.acct t.sender).pending)
      else (s.acct t.sender).pending.remove true t) = (false, [], (s.acct t.sender).pending) := by
    split
    · rfl
    · unfold TxList.remove
      cases hg : getN (s.acct t.sender).pending.txs t.nonce with
      | none => rfl
      | some o => exact absurd (getN_some_mem hg).2 ((hw t.sender).disj o (getN_some_mem hg).1 t ht)
  unfold State.removeFromLists
  simp only [this]

theorem removeFromLists_pending {s : State} (hw : AllW s) (t : Tx) (ht : t ∈ (s.acct t.sender).pending.txs) :
    s.removeFromLists t = s.removePending t ((s.acct t.sender).pending.remove true t).2.1
      ((s.acct t.sender).pending.remove true t).2.2 := by
  have hne : (s.acct t.sender).pending.txs.isEmpty = false := by
    cases h : (s.acct t.sender).pending.txs with
    | nil => rw [h] at ht; simp at ht
    | cons _ _ => rfl
  have h1 := (remove_strict_found (hw t.sender).pSorted ht).1
  unfold State.removeFromLists
  simp only [hne]
  generalize (s.acct t.sender).pending.remove true t = r at h1 ⊢
  obtain ⟨b, i, p⟩ := r
  simp only at h1
  subst h1
  rfl

theorem removeTx_core {s : State} (hw : AllW s) (hau : AU s []) (t : Tx) (ht : t ∈ s.all) (oob : Bool) :
    AU (s.removeTx t oob) [] ∧ (s.removeTx t oob).all = s.all.filter (fun x => x != t) ∧
    ((s.removeTx t oob).priced = s.priced ∨ (s.removeTx t oob).priced = (s.removeTx t oob).all) ∧
    (s.removeTx t oob).n = s.n := by
  rw [removeTx_eq s t oob ht]
  have hsame := same_rmHead s t oob
  have hw1 : AllW (rmHead s t oob) := hsame.allW hw
  have hA := hw t.sender
  have hall1 : ∀ x, x ∈ (rmHead s t oob).all ↔ (x ∈ s.all ∧ x ∉ [t]) := by
    intro x; rw [all_rmHead]; simp
  have hmem := (hau t).mp ht
  simp only [List.not_mem_nil, or_false] at hmem
  rcases hmem with hp | hq
  · -- pending: the kept part stays, the part above goes through the queue
    have hlt : t.sender < s.n := lt_n_of_pending (List.ne_nil_of_mem hp)
    have hp1 : t ∈ ((rmHead s t oob).acct t.sender).pending.txs := by rw [hsame.acct]; exact hp
    rw [removeFromLists_pending hw1 t hp1, hsame.acct]
    obtain ⟨_, hkept, hinv, hsinv⟩ := remove_strict_found hA.pSorted hp
    generalize ((s.acct t.sender).pending.remove true t).2.1 = inv at hinv hsinv ⊢
    generalize ((s.acct t.sender).pending.remove true t).2.2 = p' at hkept ⊢
    -- the pending update, whichever branch
    have hupd : ∃ f : Account → Account, (∀ ac, (f ac).pending.txs = p'.txs ∧ (f ac).queue = ac.queue) ∧
        (rmHead s t oob).removePending t inv p' =
          (((rmHead s t oob).upd t.sender f).enqueueMany inv).upd t.sender (fun ac => ac.setIfLower t.nonce) := by
      unfold State.removePending
      simp only
      split
      · rename_i hemp
        refine ⟨fun ac => { ac with pending := {}, beat := 0 }, fun ac => ⟨?_, rfl⟩, rfl⟩
        have : p'.txs = [] := by simpa using hemp
        rw [this]
      · exact ⟨fun ac => { ac with pending := p' }, fun ac => ⟨rfl, rfl⟩, rfl⟩
    obtain ⟨f, hf, he⟩ := hupd
    rw [he]
    have hlt1 : t.sender < (rmHead s t oob).n := by rw [hsame.n]; exact hlt
    have ha2 : ((rmHead s t oob).upd t.sender f).acct t.sender = f (s.acct t.sender) := by
      rw [acct_upd_self _ _ _ hlt1, hsame.acct]
    have hau2 : AU ((rmHead s t oob).upd t.sender f) inv := by
      refine AU.shrink (a := t.sender) hw hau [t] inv hall1 (fun b hb => ?_) (fun x => ?_) ?_
      · rw [acct_upd]; simp [Ne.symm hb, hsame.acct]
      · rw [ha2, (hf _).1, (hf _).2, hkept, hinv x]
        simp only [List.mem_filter, decide_eq_true_eq, List.mem_singleton]
        constructor
        · rintro (h | h)
          · rcases Nat.lt_trichotomy x.nonce t.nonce with hn | hn | hn
            · exact .inl (.inl ⟨h, hn⟩)
            · exact .inr (hA.pSorted.eq_of_nonce h hp hn)
            · exact .inl (.inr (.inr ⟨h, hn⟩))
          · exact .inl (.inr (.inl h))
        · rintro ((⟨h, _⟩ | h | ⟨h, _⟩) | rfl)
          · exact .inl h
          · exact .inr h
          · exact .inl h
          · exact .inl hp
      · intro x hx
        simp only [List.mem_singleton] at hx
        subst hx
        rw [ha2, (hf _).1, (hf _).2, hkept, hinv x]
        simp only [List.mem_filter, decide_eq_true_eq]
        rintro (⟨_, h⟩ | h | ⟨_, h⟩)
        · omega
        · exact hA.disj x hp x h rfl
        · omega
    have hen := enqueueMany_limbo (s := (rmHead s t oob).upd t.sender f) (a := t.sender) (by rw [n_upd]; exact hlt1) inv hau2
      (fun x hx => hA.pSender x ((hinv x).mp hx).1) hsinv.pairwise_ne (by
        intro x hx q hq
        rw [ha2, (hf _).2] at hq
        exact fun e => hA.disj x ((hinv x).mp hx).1 q hq e.symm)
    refine ⟨?_, ?_, ?_, ?_⟩
    · refine AU.congr hen.1 (fun _ => Iff.rfl) (fun b => ?_)
      rw [acct_upd]
      split
      · have f := setIfLower_fields ((((rmHead s t oob).upd t.sender f).enqueueMany inv).acct b) t.nonce
        rw [f.1, f.2.1]; exact ⟨rfl, rfl⟩
      · exact ⟨rfl, rfl⟩
    · rw [all_upd, hen.2.1, all_upd, all_rmHead]
    · rw [priced_upd, all_upd, hen.2.2, hen.2.1, priced_upd, all_upd]; exact priced_rmHead s t oob
    · rw [n_upd, (enqueueMany_qframe _ _).1, n_upd, hsame.n]
  · -- queued: exactly `t` leaves the queue
    have hlt : t.sender < s.n := lt_n_of_queue (List.ne_nil_of_mem hq)
    have hq1 : t ∈ ((rmHead s t oob).acct t.sender).queue.txs := by rw [hsame.acct]; exact hq
    rw [removeFromLists_queued hw1 t hq1]
    obtain ⟨q', he, hq'⟩ := removeQueued_eq (rmHead s t oob) t hq1
    rw [he]
    rw [hsame.acct] at hq'
    have hlt1 : t.sender < (rmHead s t oob).n := by rw [hsame.n]; exact hlt
    have ha2 : ((rmHead s t oob).upd t.sender (fun ac => { ac with queue := q' })).acct t.sender =
        { s.acct t.sender with queue := q' } := by
      rw [acct_upd_self _ _ _ hlt1, hsame.acct]
    refine ⟨?_, ?_, ?_, ?_⟩
    · refine AU.shrink (a := t.sender) hw hau [t] [] hall1 (fun b hb => ?_) (fun x => ?_) ?_
      · rw [acct_upd]; simp [Ne.symm hb, hsame.acct]
      · rw [ha2]
        simp only [hq', filter_nonce_eq hA.qSorted hq, List.mem_filter, List.not_mem_nil, or_false, List.mem_singleton]
        constructor
        · rintro (h | h)
          · exact .inl (.inl h)
          · by_cases hx : x = t
            · exact .inr hx
            · exact .inl (.inr ⟨h, by simpa using hx⟩)
        · rintro ((h | ⟨h, _⟩) | rfl)
          · exact .inl h
          · exact .inr h
          · exact .inr hq
      · intro x hx
        simp only [List.mem_singleton] at hx
        subst hx
        rw [ha2]
        simp only [hq', filter_nonce_eq hA.qSorted hq, List.mem_filter, List.not_mem_nil, or_false]
        rintro (h | ⟨_, h⟩)
        · exact hA.disj x h x hq rfl
        · simp at h
    · rw [all_upd, all_rmHead]
    · rw [priced_upd, all_upd]; exact priced_rmHead s t oob
    · rw [n_upd, hsame.n]

/-- `removeTx` in the form used by every caller: union clause, index relation, table length, and what is left in `all` -/
theorem removeTx_ik {s : State} (hw : AllW s) (hau : AU s []) (t : Tx) (oob : Bool) :
    AU (s.removeTx t oob) [] ∧ IK s (s.removeTx t oob) ∧ (s.removeTx t oob).n = s.n ∧
    (∀ x ∈ (s.removeTx t oob).all, x ∈ s.all ∧ x ≠ t) := by
  by_cases ht : t ∈ s.all
  · obtain ⟨c1, c2, c3, c4⟩ := removeTx_core hw hau t ht oob
    have hmem : ∀ x ∈ (s.removeTx t oob).all, x ∈ s.all ∧ x ≠ t := by
      intro x hx
      rw [c2] at hx
      simpa using hx
    refine ⟨c1, ⟨fun h => by rw [c2]; exact h.sublist List.filter_sublist, fun P h x hx => ?_⟩, c4, hmem⟩
    rcases c3 with c3 | c3
    · rw [c3]; exact h x (hmem x hx).1
    · rw [c3]; exact .inl hx
  · have e : s.removeTx t oob = s := by unfold State.removeTx; simp [ht]
    rw [e]
    exact ⟨hau, IK.refl _, rfl, fun x hx => ⟨hx, fun e => ht (e ▸ hx)⟩⟩

theorem removeMany_ik {s : State} (hw : AllW s) (hau : AU s []) (ts : List Tx) (oob : Bool) :
    AU (s.removeMany ts oob) [] ∧ IK s (s.removeMany ts oob) ∧ (s.removeMany ts oob).n = s.n ∧
    (∀ x ∈ (s.removeMany ts oob).all, x ∈ s.all ∧ x ∉ ts) := by
  unfold State.removeMany
  induction ts generalizing s with
  | nil => exact ⟨hau, IK.refl _, rfl, fun x hx => ⟨hx, by simp⟩⟩
  | cons t ts ih =>
    simp only [List.foldl_cons]
    obtain ⟨c1, c2, c3, c4⟩ := removeTx_ik hw hau t oob
    obtain ⟨d1, d2, d3, d4⟩ := ih (hw.removeTx t oob) c1
    refine ⟨d1, c2.trans d2, d3.trans c3, fun x hx => ?_⟩
    have h1 := d4 x hx
    have h2 := c4 x h1.1
    exact ⟨h2.1, by simp [h2.2, h1.2]⟩

/-- coverage by `priced` through `removeMany`: the removed transactions no longer need an excuse -/
theorem PCp.removeMany {s : State} (hw : AllW s) (hau : AU s []) (ts : List Tx) (oob : Bool) {P : Tx → Prop}
    (h : PCp s P) : PCp (s.removeMany ts oob) (fun y => P y ∧ y ∉ ts) := by
  obtain ⟨_, c2, _, c4⟩ := removeMany_ik hw hau ts oob
  intro x hx
  rcases c2.2 P h x hx with h | h
  · exact .inl h
  · exact .inr ⟨h, (c4 x hx).2⟩

theorem GI.removeTx {s : State} (hw : AllW s) (hg : GI s) (t : Tx) (oob : Bool) : GI (s.removeTx t oob) :=
  hg.of_ik (removeTx_ik hw hg.au t oob).1 (removeTx_ik hw hg.au t oob).2.1

theorem GI.removeMany {s : State} (hw : AllW s) (hg : GI s) (ts : List Tx) (oob : Bool) : GI (s.removeMany ts oob) :=
  hg.of_ik (removeMany_ik hw hg.au ts oob).1 (removeMany_ik hw hg.au ts oob).2.1

/-- Exact effect of `removeTx` on a QUEUED transaction: the sender's queue loses exactly `t` (equivalently: the entry
with `t`'s nonce), every pending list and every other field of every account is as before. -/
theorem removeTx_queued {s : State} (hw : AllW s) (hg : GI s) (t : Tx) (oob : Bool)
    (ht : t ∈ (s.acct t.sender).queue.txs) :
    ((s.removeTx t oob).acct t.sender).queue.txs = (s.acct t.sender).queue.txs.filter (fun x => x != t) ∧
    ((s.removeTx t oob).acct t.sender).queue.txs = (s.acct t.sender).queue.txs.filter (fun x => x.nonce != t.nonce) ∧
    (∀ b, ((s.removeTx t oob).acct b).pending = (s.acct b).pending ∧ ((s.removeTx t oob).acct b).isLocal = (s.acct b).isLocal ∧
      ((s.removeTx t oob).acct b).beat = (s.acct b).beat ∧ ((s.removeTx t oob).acct b).nonce = (s.acct b).nonce ∧
      ((s.removeTx t oob).acct b).balance = (s.acct b).balance ∧ ((s.removeTx t oob).acct b).pn = (s.acct b).pn) ∧
    (∀ b, b ≠ t.sender → (s.removeTx t oob).acct b = s.acct b) ∧
    (s.removeTx t oob).cfg = s.cfg ∧ (s.removeTx t oob).n = s.n ∧ (s.removeTx t oob).maxGas = s.maxGas ∧
    (s.removeTx t oob).all = s.all.filter (fun x => x != t) := by
  have hta : t ∈ s.all := (hg.allUnion t).mpr (.inr ht)
  have hsame := same_rmHead s t oob
  have hq1 : t ∈ ((rmHead s t oob).acct t.sender).queue.txs := by rw [hsame.acct]; exact ht
  have hlt : t.sender < (rmHead s t oob).n := by rw [hsame.n]; exact lt_n_of_queue (List.ne_nil_of_mem ht)
  rw [removeTx_eq s t oob hta, removeFromLists_queued (hsame.allW hw) t hq1]
  obtain ⟨q', he, hq'⟩ := removeQueued_eq (rmHead s t oob) t hq1
  rw [he]
  rw [hsame.acct] at hq'
  refine ⟨?_, ?_, fun b => ?_, fun b hb => ?_, hsame.2.2, by rw [n_upd, hsame.n], hsame.2.1, by rw [all_upd, all_rmHead]⟩
  · rw [acct_upd_self _ _ _ hlt]; simp only [hq']; exact filter_nonce_eq (hw t.sender).qSorted ht
  · rw [acct_upd_self _ _ _ hlt]; exact hq'
  · rw [acct_upd, ← hsame.acct b]
    split <;> exact ⟨rfl, rfl, rfl, rfl, rfl, rfl⟩
  · rw [acct_upd, hsame.acct b]; simp [Ne.symm hb]

end YouVerif.C20
