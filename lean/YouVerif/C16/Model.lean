/-
C16 — executable model of the EVM call-frame discipline of go-youchain
(core/vm/evm.go Call/CallCode/DelegateCall/StaticCall/create, the readOnly / gas handling of
core/vm/interpreter.go Run, opCall*/opCreate*/opSuicide/opSstore/makeLog of instructions.go with their gas
functions of gas_table.go + callGas of gas.go, CanTransfer/Transfer of core/evm.go, and the account-level
behaviour of core/state/statedb.go: CreateAccount / createObject (balance carried over from the previous
object — also from an object deleted by an earlier transaction of the block), GetOrNewStateObject, Suicide,
Finalise(true)).

Programs are an inductive type: the body of a frame is a list of steps ended by an ending; CALL-family and
CREATE steps carry the callee's body, so a program is a tree of frames.  Opcode arithmetic is outside
(property C15): the gas of the pure stack/memory opcodes that surround an effect is carried as the `pre`
field of the step (computed statically by the harness' assembler); everything that depends on the state
(call gas, stipend, new-account gas, EIP-2200 SSTORE gas and refunds, SELFDESTRUCT gas, code deposit) is
computed here.

Snapshot / RevertToSnapshot are modelled as "save the world, restore the world" (their journal
implementation is property C09).

Core Lean only.
-/
namespace YouVerif.C16

abbrev Addr := Nat
abbrev Word := Nat
abbrev Bytes := List UInt8

/-- One state object as the EVM sees it.  `live = false` is "getStateObject returns nil": either no object
    at all (then every field is zero) or an object deleted by `Finalise` of an earlier transaction that is
    still cached in `stateObjects` — its `data.Balance` survives in `bal` and is what `CreateAccount`
    carries over. -/
structure Acct where
  live : Bool
  nonce : Nat
  bal : Nat
  code : Bytes
  stor : Word → Word
  orig : Word → Word      -- GetCommittedState: value at the start of the transaction (EIP-2200 "original")
  suicided : Bool

def Acct.none : Acct := ⟨false, 0, 0, [], fun _ => 0, fun _ => 0, false⟩
/-- `newObject(addr, Account{})` with a balance. -/
def Acct.fresh (bal : Nat) : Acct := ⟨true, 0, bal, [], fun _ => 0, fun _ => 0, false⟩
/-- stateObject.empty() -/
def Acct.empty (a : Acct) : Bool := a.nonce == 0 && a.bal == 0 && a.code.isEmpty

structure Log where
  addr : Addr
  topics : List Word
  index : Nat            -- Log.Index: the block-wide log counter when the log was added
  deriving DecidableEq, Repr

structure World where
  acct : Addr → Acct
  dom : List Addr        -- every address ever written (finite support; used for totals and dumps)
  logs : List Log        -- this transaction's logs, newest first
  logSize : Nat          -- StateDB.logSize: logs added so far in the block (AddLog ++, addLogChange.revert --)
  refund : Nat
  burnt : Nat            -- ghost counter: value destroyed by SELFDESTRUCT-to-self and by overwriting a deleted object

def World.init : World := ⟨fun _ => Acct.none, [], [], 0, 0, 0⟩

def World.set (w : World) (a : Addr) (v : Acct) : World :=
  { w with acct := fun x => if x = a then v else w.acct x,
           dom := if a ∈ w.dom then w.dom else a :: w.dom }

-- getters of StateDB (nil object ⇒ zero value)
def World.isLive (w : World) (a : Addr) : Bool := (w.acct a).live
def World.balOf (w : World) (a : Addr) : Nat := if (w.acct a).live then (w.acct a).bal else 0
def World.nonceOf (w : World) (a : Addr) : Nat := if (w.acct a).live then (w.acct a).nonce else 0
def World.codeOf (w : World) (a : Addr) : Bytes := if (w.acct a).live then (w.acct a).code else []
def World.storOf (w : World) (a : Addr) (k : Word) : Word := if (w.acct a).live then (w.acct a).stor k else 0
def World.origOf (w : World) (a : Addr) (k : Word) : Word := if (w.acct a).live then (w.acct a).orig k else 0
def World.hasSuicided (w : World) (a : Addr) : Bool := (w.acct a).live && (w.acct a).suicided
/-- StateDB.Empty -/
def World.isEmpty (w : World) (a : Addr) : Bool := !(w.acct a).live || (w.acct a).empty

/-- StateDB.CreateAccount: a new object replaces whatever is cached for the address; the balance of the
    previous object — live, or deleted by an earlier transaction — is carried over. -/
def World.createAccount (w : World) (a : Addr) : World := w.set a (Acct.fresh (w.acct a).bal)

/-- GetOrNewStateObject: `createObject` when there is no live object.  No balance is carried over here, so
    the balance left in a deleted object is lost for good (counted as burnt). -/
def World.getOrNew (w : World) (a : Addr) : World :=
  if (w.acct a).live then w
  else { (w.set a (Acct.fresh 0)) with burnt := w.burnt + (w.acct a).bal }

def World.addBalance (w : World) (a : Addr) (v : Nat) : World :=
  let w1 := w.getOrNew a
  if v = 0 then w1 /- touch -/ else w1.set a { w1.acct a with bal := (w1.acct a).bal + v }

def World.subBalance (w : World) (a : Addr) (v : Nat) : World :=
  let w1 := w.getOrNew a
  if v = 0 then w1 else w1.set a { w1.acct a with bal := (w1.acct a).bal - v }

/-- core.Transfer -/
def World.transfer (w : World) (src dst : Addr) (v : Nat) : World := (w.subBalance src v).addBalance dst v

def World.setNonce (w : World) (a : Addr) (n : Nat) : World :=
  let w1 := w.getOrNew a
  w1.set a { w1.acct a with nonce := n }

def World.setCode (w : World) (a : Addr) (c : Bytes) : World :=
  let w1 := w.getOrNew a
  w1.set a { w1.acct a with code := c }

/-- StateDB.SetState (no journal entry and no change when the value is the same). -/
def World.setStorage (w : World) (a : Addr) (k v : Word) : World :=
  let w1 := w.getOrNew a
  w1.set a { w1.acct a with stor := fun x => if x = k then v else (w1.acct a).stor x }

/-- opSuicide after the beneficiary was credited with `b`: StateDB.Suicide marks the object and zeroes its
    balance.  When the beneficiary is the contract itself the balance just credited is destroyed too. -/
def World.suicide (w : World) (a : Addr) (b : Nat) : World :=
  if (w.acct a).live then
    { (w.set a { w.acct a with suicided := true, bal := 0 }) with burnt := w.burnt + ((w.acct a).bal - b) }
  else w

/-- What Finalise(true) does to one object: suicided or empty objects are marked deleted (they stay cached,
    their data.Balance included); the others move dirty storage to pending (= next transaction's "original"). -/
def Acct.finalise (a : Acct) : Acct :=
  if a.live && (a.suicided || a.empty) then { Acct.none with bal := a.bal }
  else { a with orig := a.stor }

/-- StateDB.Finalise(true) between two transactions of a block (core/state_processor.go).
    The real one deletes the *dirty* suicided-or-empty objects. Every suicided object is dirty; an empty object is
    dirty unless it was re-created over a deleted object by GetOrNewStateObject with nothing written afterwards
    (resetObjectChange does not dirty) — then an empty object stays in the cache, never reaches the trie, and only
    `Exist` can tell. The model deletes every empty object; the correspondence shows empty accounts as
    non-existent on both sides. -/
def World.finalise (w : World) : World :=
  { w with acct := fun x => (w.acct x).finalise, logs := [], refund := 0 }

-- ---------------------------------------------------------------------------------------------------
-- programs

inductive Kind where
  | call | callcode | delegate | static
  deriving DecidableEq, Repr

inductive Prog where
  | stop (pre : Nat)
  | ret (pre : Nat) (data : Bytes)
  | revert (pre : Nat) (data : Bytes)
  | invalid (pre : Nat)
  | selfdestruct (pre : Nat) (ben : Addr)
  | gas (n : Nat) (rest : Prog)
  | sstore (pre : Nat) (k v : Word) (rest : Prog)
  | log (pre : Nat) (topics : List Word) (rest : Prog)
  | call (kind : Kind) (pre mem : Nat) (addr : Addr) (value gasSpec : Nat) (callee rest : Prog)
  | create (pre : Nat) (value : Nat) (init rest : Prog)
  | create2 (pre hashCost : Nat) (value salt initHash : Nat) (init rest : Prog)
  deriving Repr

inductive Err where
  | oog | invalid | writeProt | depth | balance | collision | codeStore | maxCode
  deriving DecidableEq, Repr

inductive Out where
  | ok (data : Bytes)
  | revert (data : Bytes)
  | err (e : Err)
  | crash                    -- Go panic (SubRefund below zero)
  deriving DecidableEq, Repr

def Out.failed : Out → Bool
  | .revert _ => true
  | .err _ => true
  | _ => false

/-- One finished sub-frame, in completion order (for the correspondence trace). -/
structure Ev where
  depth : Nat        -- depth of the caller frame
  tag : Nat          -- 0 call 1 callcode 2 delegate 3 static 4 create 5 create2
  out : Out
  gas : Nat          -- gas handed back to the caller
  after : Nat        -- the caller's gas once the operation has returned
  addr : Addr        -- callee / created address
  deriving Repr

structure Ctx where
  self : Addr
  static : Bool
  depth : Nat        -- evm.depth while the ops of this frame run (0 = the transaction level)

structure Env where
  /-- precompiled contracts (`run` in evm.go looks at the code address first): required gas and output.
      The harness only calls them with empty input, so both are constants per address. -/
  precompile : Addr → Option (Nat × Bytes)
  maxDepth : Nat                          -- params.CallCreateDepth
  createAddr : Addr → Nat → Addr          -- crypto.CreateAddress
  create2Addr : Addr → Nat → Nat → Addr   -- crypto.CreateAddress2 (sender, salt, keccak(initcode))

structure Res where
  w : World
  gas : Nat
  out : Out
  tr : List Ev

-- gas constants (checked against params/evm_params.go by the harness on every run)
def gCall : Nat := 700
def gCallValue : Nat := 9000
def gNewAccount : Nat := 25000
def gStipend : Nat := 2300
def gCreate : Nat := 32000
def gCodeDeposit : Nat := 200
def maxCodeSize : Nat := 24576
def gSelfdestruct : Nat := 5000
def gSelfdestructNew : Nat := 25000
def rSelfdestruct : Nat := 24000
def gLog : Nat := 375
def gLogTopic : Nat := 375
def gSstoreSentry : Nat := 2300
def gSstoreNoop : Nat := 800
def gSstoreDirty : Nat := 800
def gSstoreInit : Nat := 20000
def gSstoreClean : Nat := 5000
def rSstoreInit : Nat := 19200
def rSstoreClean : Nat := 4200
def rSstoreClear : Nat := 15000

/-- gas.go callGas — as written in this repository: specified gas 0 means the stipend amount, the 63/64 rule
    applies only when the specified gas is at least the available gas. -/
def callGas (avail base spec : Nat) : Option Nat :=
  if spec = 0 then some gStipend
  else if avail ≤ spec then
    if base > avail then none else some ((avail - base) - (avail - base) / 64)
  else some spec

def World.addRefund (w : World) (n : Nat) : World := { w with refund := w.refund + n }
/-- SubRefund panics below zero. -/
def World.subRefund (w : World) (n : Nat) : Option World :=
  if n > w.refund then none else some { w with refund := w.refund - n }

/-- gasSStoreEIP2200 after the sentry check: cost and the world with the refund counter updated
    (`none` = SubRefund panic). -/
def sstoreGas (w : World) (a : Addr) (k v : Word) : Option (Nat × World) :=
  let cur := w.storOf a k
  if cur = v then some (gSstoreNoop, w) else
  let orig := w.origOf a k
  if orig = cur then
    if orig = 0 then some (gSstoreInit, w)
    else some (gSstoreClean, if v = 0 then w.addRefund rSstoreClear else w)
  else
    let w1? : Option World :=
      if orig ≠ 0 then
        if cur = 0 then w.subRefund rSstoreClear
        else if v = 0 then some (w.addRefund rSstoreClear) else some w
      else some w
    match w1? with
    | none => none
    | some w1 =>
      let w2 := if orig = v then (if orig = 0 then w1.addRefund rSstoreInit else w1.addRefund rSstoreClean) else w1
      some (gSstoreDirty, w2)

/-- Result of the evm-level part of a CALL-family / CREATE operation. -/
structure FrameRes where
  w : World
  returned : Nat     -- leftOverGas
  out : Out
  tr : List Ev

def kindTag : Kind → Nat
  | .call => 0 | .callcode => 1 | .delegate => 2 | .static => 3

/-- The end of evm.Call & co: on error RevertToSnapshot (here: the saved world) and burn the remaining gas
    unless the error is a REVERT. -/
def callExit (saved : World) (r : Res) : FrameRes :=
  match r.out with
  | .ok d => ⟨r.w, r.gas, .ok d, r.tr⟩
  | .revert d => ⟨saved, r.gas, .revert d, r.tr⟩
  | .err e => ⟨saved, 0, .err e, r.tr⟩
  | .crash => ⟨r.w, 0, .crash, r.tr⟩

/-- The state the callee starts in: only CALL creates the account (when there is no live object) and transfers. -/
def callWorld (ctx : Ctx) (kind : Kind) (addr : Addr) (value : Nat) (w : World) : World :=
  if kind = .call then ((if w.isLive addr then w else w.createAccount addr).transfer ctx.self addr value) else w

def calleeCtx (ctx : Ctx) (kind : Kind) (addr : Addr) : Ctx :=
  { self := if kind = .call ∨ kind = .static then addr else ctx.self,
    static := ctx.static || kind == .static, depth := ctx.depth + 1 }

/-- RunPrecompiledContract: pay the required gas or fail with out-of-gas; no state access. -/
def runPrecompile (g : Nat) (out : Bytes) (gas : Nat) (w : World) (tr : List Ev) : Res :=
  if gas < g then ⟨w, gas, .err .oog, tr⟩ else ⟨w, gas - g, .ok out, tr⟩

/-- `run(evm, contract, input, readOnly)`: precompile, or nothing when there is no code, or the interpreter. -/
def calleeRes (env : Env) (cctx : Ctx) (addr : Addr) (gas : Nat) (w1 : World) (tr : List Ev)
    (run : Ctx → Nat → World → List Ev → Res) : Res :=
  match env.precompile addr with
  | some (g, out) => runPrecompile g out gas w1 tr
  | none => if w1.codeOf addr = [] then ⟨w1, gas, .ok [], tr⟩ else run cctx gas w1 tr

/-- evm.Call / CallCode / DelegateCall / StaticCall with `gas` handed to the callee.
    `run` executes the callee's body (the code found at `addr`); it is not entered when there is no code. -/
def enterCall (env : Env) (ctx : Ctx) (kind : Kind) (addr : Addr) (value gas : Nat) (w : World) (tr : List Ev)
    (run : Ctx → Nat → World → List Ev → Res) : FrameRes :=
  if ctx.depth > env.maxDepth then ⟨w, gas, .err .depth, tr⟩
  else if (kind = .call ∨ kind = .callcode) ∧ w.balOf ctx.self < value then ⟨w, gas, .err .balance, tr⟩
  else
    -- snapshot = w
    callExit w (calleeRes env (calleeCtx ctx kind addr) addr gas (callWorld ctx kind addr value w) tr run)

/-- The end of evm.create: code-size limit, code deposit, SetCode; on failure back to the snapshot taken after
    the creator's nonce bump. -/
def createExit (saved : World) (addr : Addr) (r : Res) : FrameRes :=
  match r.out with
  | .ok d =>
    if d.length > maxCodeSize then ⟨saved, 0, .err .maxCode, r.tr⟩
    else if r.gas < gCodeDeposit * d.length then ⟨saved, 0, .err .codeStore, r.tr⟩
    else ⟨r.w.setCode addr d, r.gas - gCodeDeposit * d.length, .ok d, r.tr⟩
  | .revert d => ⟨saved, r.gas, .revert d, r.tr⟩
  | .err e => ⟨saved, 0, .err e, r.tr⟩
  | .crash => ⟨r.w, 0, .crash, r.tr⟩

/-- CreateAccount(address); SetNonce(address, 1); Transfer. -/
def createWorld (ctx : Ctx) (addr : Addr) (value : Nat) (w0 : World) : World :=
  ((w0.createAccount addr).setNonce addr 1).transfer ctx.self addr value

/-- the creator's nonce bump: done before the snapshot, it survives a failed create -/
def bumpNonce (w : World) (a : Addr) : World := w.setNonce a (w.nonceOf a + 1)

/-- evm.create (Create / Create2) with `gas` handed to the init code; `addr` already derived. -/
def enterCreate (env : Env) (ctx : Ctx) (addr : Addr) (value gas : Nat) (w : World) (tr : List Ev)
    (run : Ctx → Nat → World → List Ev → Res) : FrameRes :=
  if ctx.depth > env.maxDepth then ⟨w, gas, .err .depth, tr⟩
  else if w.balOf ctx.self < value then ⟨w, gas, .err .balance, tr⟩
  else if (bumpNonce w ctx.self).nonceOf addr ≠ 0 ∨ (bumpNonce w ctx.self).codeOf addr ≠ [] then
    ⟨bumpNonce w ctx.self, 0, .err .collision, tr⟩
  else
    -- snapshot = bumpNonce w ctx.self
    createExit (bumpNonce w ctx.self) addr
      (run { self := addr, static := ctx.static, depth := ctx.depth + 1 } gas
        (createWorld ctx addr value (bumpNonce w ctx.self)) tr)

/-- does the operation carry value (CALL and CALLCODE only) -/
def hasVal (kind : Kind) (value : Nat) : Bool := (kind == .call || kind == .callcode) && value != 0

/-- the part of gasCall / gasCallCode / gasDelegateCall / gasStaticCall that is not the forwarded gas -/
def callBase (kind : Kind) (mem : Nat) (addr : Addr) (value : Nat) (w : World) : Nat :=
  (if hasVal kind value then gCallValue else 0)
  + (if kind == .call && value != 0 && w.isEmpty addr then gNewAccount else 0) + mem

def stipendOf (kind : Kind) (value : Nat) : Nat := if hasVal kind value then gStipend else 0

/-- The interpreter-level part of a CALL-family op up to the evm call: `(kept, given)` or the error. -/
def callCharge (ctx : Ctx) (kind : Kind) (pre mem : Nat) (addr : Addr) (value gasSpec : Nat) (gas : Nat) (w : World) :
    Except Err (Nat × Nat) :=
  if gas < pre then .error .oog
  else if ctx.static && kind == .call && value != 0 then .error .writeProt
  else if gas - pre < gCall then .error .oog
  else
    match callGas (gas - pre - gCall) (callBase kind mem addr value w) gasSpec with
    | none => .error .oog
    | some temp =>
      if gas - pre - gCall < callBase kind mem addr value w + temp then .error .oog
      else .ok (gas - pre - gCall - (callBase kind mem addr value w + temp), temp + stipendOf kind value)

/-- CREATE hands over all remaining gas (no 63/64 rule in this repository's opCreate); CREATE2 keeps 1/64. -/
def createGiven (is2 : Bool) (g : Nat) : Nat := if is2 then g - g / 64 else g

/-- opCreate / opCreate2 up to the evm call: `(kept, given)`. -/
def createCharge (ctx : Ctx) (is2 : Bool) (pre hashCost : Nat) (gas : Nat) : Except Err (Nat × Nat) :=
  if gas < pre then .error .oog
  else if ctx.static then .error .writeProt
  else if gas - pre < gCreate + hashCost then .error .oog
  else .ok (gas - pre - (gCreate + hashCost) - createGiven is2 (gas - pre - (gCreate + hashCost)),
            createGiven is2 (gas - pre - (gCreate + hashCost)))

/-- gasSuicide -/
def selfdestructCost (w : World) (self ben : Addr) : Nat :=
  gSelfdestruct + (if w.isEmpty ben && w.balOf self != 0 then gSelfdestructNew else 0)

def exec (env : Env) : Prog → Ctx → Nat → World → List Ev → Res
  | .stop pre, _, gas, w, tr =>
    if gas < pre then ⟨w, gas, .err .oog, tr⟩ else ⟨w, gas - pre, .ok [], tr⟩
  | .ret pre d, _, gas, w, tr =>
    if gas < pre then ⟨w, gas, .err .oog, tr⟩ else ⟨w, gas - pre, .ok d, tr⟩
  | .revert pre d, _, gas, w, tr =>
    if gas < pre then ⟨w, gas, .err .oog, tr⟩ else ⟨w, gas - pre, .revert d, tr⟩
  | .invalid pre, _, gas, w, tr =>
    if gas < pre then ⟨w, gas, .err .oog, tr⟩ else ⟨w, gas - pre, .err .invalid, tr⟩
  | .selfdestruct pre ben, ctx, gas, w, tr =>
    if gas < pre then ⟨w, gas, .err .oog, tr⟩ else
    if ctx.static then ⟨w, gas - pre, .err .writeProt, tr⟩ else
    let g := gas - pre
    let cost := selfdestructCost w ctx.self ben
    let w1 := if w.hasSuicided ctx.self then w else w.addRefund rSelfdestruct
    if g < cost then ⟨w1, g, .err .oog, tr⟩ else
    let b := w1.balOf ctx.self
    let w2 := w1.addBalance ben b
    ⟨w2.suicide ctx.self b, g - cost, .ok [], tr⟩
  | .gas n rest, ctx, gas, w, tr =>
    if gas < n then ⟨w, gas, .err .oog, tr⟩ else exec env rest ctx (gas - n) w tr
  | .sstore pre k v rest, ctx, gas, w, tr =>
    if gas < pre then ⟨w, gas, .err .oog, tr⟩ else
    if ctx.static then ⟨w, gas - pre, .err .writeProt, tr⟩ else
    let g := gas - pre
    if g ≤ gSstoreSentry then ⟨w, g, .err .oog, tr⟩ else
    match sstoreGas w ctx.self k v with
    | none => ⟨w, g, .crash, tr⟩
    | some (cost, w1) =>
      if g < cost then ⟨w1, g, .err .oog, tr⟩
      else exec env rest ctx (g - cost) (w1.setStorage ctx.self k v) tr
  | .log pre topics rest, ctx, gas, w, tr =>
    if gas < pre then ⟨w, gas, .err .oog, tr⟩ else
    if ctx.static then ⟨w, gas - pre, .err .writeProt, tr⟩ else
    let g := gas - pre
    let cost := gLog + gLogTopic * topics.length
    if g < cost then ⟨w, g, .err .oog, tr⟩
    else exec env rest ctx (g - cost) { w with logs := ⟨ctx.self, topics, w.logSize⟩ :: w.logs, logSize := w.logSize + 1 } tr
  | .call kind pre mem addr value gasSpec callee rest, ctx, gas, w, tr =>
    match callCharge ctx kind pre mem addr value gasSpec gas w with
    | .error e => ⟨w, gas, .err e, tr⟩
    | .ok (kept, given) =>
      let c := enterCall env ctx kind addr value given w tr (exec env callee)
      match c.out with
      | .crash => ⟨c.w, 0, .crash, c.tr⟩
      | o => exec env rest ctx (kept + c.returned) c.w (⟨ctx.depth, kindTag kind, o, c.returned, kept + c.returned, addr⟩ :: c.tr)
  | .create pre value init rest, ctx, gas, w, tr =>
    match createCharge ctx false pre 0 gas with
    | .error e => ⟨w, gas, .err e, tr⟩
    | .ok (kept, given) =>
      let addr := env.createAddr ctx.self (w.nonceOf ctx.self)
      let c := enterCreate env ctx addr value given w tr (exec env init)
      match c.out with
      | .crash => ⟨c.w, 0, .crash, c.tr⟩
      | o => exec env rest ctx (kept + c.returned) c.w (⟨ctx.depth, 4, o, c.returned, kept + c.returned, addr⟩ :: c.tr)
  | .create2 pre hashCost value salt initHash init rest, ctx, gas, w, tr =>
    match createCharge ctx true pre hashCost gas with
    | .error e => ⟨w, gas, .err e, tr⟩
    | .ok (kept, given) =>
      let addr := env.create2Addr ctx.self salt initHash
      let c := enterCreate env ctx addr value given w tr (exec env init)
      match c.out with
      | .crash => ⟨c.w, 0, .crash, c.tr⟩
      | o => exec env rest ctx (kept + c.returned) c.w (⟨ctx.depth, 5, o, c.returned, kept + c.returned, addr⟩ :: c.tr)

/-- A message-call transaction's EVM part: `evm.Call(AccountRef(origin), to, nil, gas, value)` at depth 0. -/
def txCall (env : Env) (origin to : Addr) (value gas : Nat) (body : Prog) (w : World) : FrameRes :=
  enterCall env ⟨origin, false, 0⟩ .call to value gas w [] (exec env body)

/-- A contract-creation transaction's EVM part: `evm.Create(AccountRef(origin), initcode, gas, value)`. -/
def txCreate (env : Env) (origin : Addr) (value gas : Nat) (init : Prog) (w : World) : FrameRes :=
  enterCreate env ⟨origin, false, 0⟩ (env.createAddr origin (w.nonceOf origin)) value gas w [] (exec env init)

/-- Σ of `data.Balance` over every cached object (live or deleted). -/
def World.total (w : World) : Nat := (w.dom.map fun a => (w.acct a).bal).sum
/-- Σ of GetBalance — what a state dump shows. -/
def World.liveTotal (w : World) : Nat := (w.dom.map fun a => w.balOf a).sum

end YouVerif.C16
