/-
C16 helper lemmas: the finite-support world, totals, and the conservation relation `Cons`.
-/
import YouVerif.C16.Model

namespace YouVerif.C16

/-- every balance lives inside the (duplicate-free) support list -/
def World.WF (w : World) : Prop := w.dom.Nodup ∧ ∀ a, a ∉ w.dom → (w.acct a).bal = 0

/-- no deleted object holds a balance (true for the first transaction of a block, and after any transaction in
    which no self-destructed account received value) -/
def World.NoGhost (w : World) : Prop := ∀ a, (w.acct a).live = false → (w.acct a).bal = 0

@[simp] theorem set_acct_same (w : World) (a : Addr) (v : Acct) : (w.set a v).acct a = v := by simp [World.set]
theorem set_acct_other (w : World) {a x : Addr} (v : Acct) (h : x ≠ a) : (w.set a v).acct x = w.acct x := by
  simp [World.set, h]
@[simp] theorem set_logs (w : World) (a : Addr) (v : Acct) : (w.set a v).logs = w.logs := rfl
@[simp] theorem set_logSize (w : World) (a : Addr) (v : Acct) : (w.set a v).logSize = w.logSize := rfl
@[simp] theorem set_refund (w : World) (a : Addr) (v : Acct) : (w.set a v).refund = w.refund := rfl
@[simp] theorem set_burnt (w : World) (a : Addr) (v : Acct) : (w.set a v).burnt = w.burnt := rfl

theorem sum_map_update_mem (f : Nat → Nat) (a v : Nat) : ∀ (l : List Nat), l.Nodup → a ∈ l →
    (l.map fun x => if x = a then v else f x).sum + f a = (l.map f).sum + v
  | [], _, h => by cases h
  | x :: l, hn, h => by
    have hn' := List.nodup_cons.mp hn
    by_cases hx : x = a
    · subst hx
      have : (l.map fun y => if y = x then v else f y) = l.map f := by
        apply List.map_congr_left
        intro y hy
        have : y ≠ x := fun e => hn'.1 (e ▸ hy)
        simp [this]
      simp [this]; omega
    · have hm : a ∈ l := by
        cases h with
        | head => exact absurd rfl hx
        | tail _ h => exact h
      have ih := sum_map_update_mem f a v l hn'.2 hm
      simp [hx]; omega

theorem sum_map_update_not_mem (f : Nat → Nat) (a v : Nat) (l : List Nat) (h : a ∉ l) :
    (l.map fun x => if x = a then v else f x).sum = (l.map f).sum := by
  congr 1
  apply List.map_congr_left
  intro y hy
  have : y ≠ a := fun e => h (e ▸ hy)
  simp [this]

theorem total_set_acct (w : World) (a : Addr) (v : Acct) :
    (fun x => ((w.set a v).acct x).bal) = fun x => if x = a then v.bal else (w.acct x).bal := by
  funext x
  by_cases h : x = a
  · subst h; simp
  · simp [set_acct_other w v h, h]

theorem WF_set {w : World} (h : w.WF) (a : Addr) (v : Acct) : (w.set a v).WF := by
  obtain ⟨hn, hz⟩ := h
  by_cases ha : a ∈ w.dom
  · refine ⟨by simpa [World.set, ha] using hn, ?_⟩
    intro x hx
    have hx' : x ∉ w.dom := by simpa [World.set, ha] using hx
    have : x ≠ a := fun e => hx' (e ▸ ha)
    rw [set_acct_other w v this]
    exact hz x hx'
  · refine ⟨by simpa [World.set, ha] using List.nodup_cons.mpr ⟨ha, hn⟩, ?_⟩
    intro x hx
    have hx' : x ≠ a ∧ x ∉ w.dom := by simpa [World.set, ha] using hx
    rw [set_acct_other w v hx'.1]
    exact hz x hx'.2

theorem total_set {w : World} (h : w.WF) (a : Addr) (v : Acct) :
    (w.set a v).total + (w.acct a).bal = w.total + v.bal := by
  obtain ⟨hn, hz⟩ := h
  unfold World.total
  rw [total_set_acct]
  by_cases ha : a ∈ w.dom
  · have : (w.set a v).dom = w.dom := by simp [World.set, ha]
    rw [this]
    exact sum_map_update_mem (fun x => (w.acct x).bal) a v.bal w.dom hn ha
  · have : (w.set a v).dom = a :: w.dom := by simp [World.set, ha]
    rw [this, hz a ha]
    simp only [List.map_cons, List.sum_cons, if_true]
    rw [sum_map_update_not_mem (fun x => (w.acct x).bal) a v.bal w.dom ha]
    rw [Nat.add_zero, Nat.add_comm]

/-- The conservation relation between a world and a later one. -/
structure Cons (w w' : World) : Prop where
  wf : w'.WF
  sum : w'.total + w'.burnt = w.total + w.burnt
  ghost : w.NoGhost → w'.NoGhost

theorem Cons.refl {w : World} (h : w.WF) : Cons w w := ⟨h, rfl, id⟩
theorem Cons.trans {a b c : World} (h1 : Cons a b) (h2 : Cons b c) : Cons a c :=
  ⟨h2.wf, h2.sum.trans h1.sum, fun g => h2.ghost (h1.ghost g)⟩

theorem NoGhost_set {w : World} (h : w.NoGhost) (a : Addr) (v : Acct) (hv : v.live = false → v.bal = 0) :
    (w.set a v).NoGhost := by
  intro x hx
  by_cases e : x = a
  · subst e; simp at hx ⊢; exact hv hx
  · rw [set_acct_other w v e] at hx ⊢; exact h x hx

/-- rewriting one account with the same balance -/
theorem Cons_set_same_bal {w : World} (h : w.WF) (a : Addr) (v : Acct) (hb : v.bal = (w.acct a).bal)
    (hv : v.live = true) : Cons w (w.set a v) := by
  refine ⟨WF_set h a v, ?_, fun g => NoGhost_set g a v (by simp [hv])⟩
  have := total_set h a v
  simp only [set_burnt]; omega

theorem Cons_createAccount {w : World} (h : w.WF) (a : Addr) : Cons w (w.createAccount a) :=
  Cons_set_same_bal h a _ rfl rfl

theorem getOrNew_live (w : World) (a : Addr) : ((w.getOrNew a).acct a).live = true := by
  unfold World.getOrNew
  split
  · assumption
  · simp [Acct.fresh]

theorem getOrNew_of_live {w : World} {a : Addr} (h : (w.acct a).live = true) : w.getOrNew a = w := by
  simp [World.getOrNew, h]

theorem getOrNew_bal (w : World) (a : Addr) : ((w.getOrNew a).acct a).bal = w.balOf a := by
  unfold World.getOrNew World.balOf
  split
  · rfl
  · simp [Acct.fresh]

theorem Cons_getOrNew {w : World} (h : w.WF) (a : Addr) : Cons w (w.getOrNew a) := by
  unfold World.getOrNew
  split
  · exact Cons.refl h
  · refine ⟨WF_set h a _, ?_, fun g => NoGhost_set g a _ (by simp [Acct.fresh])⟩
    have := total_set h a (Acct.fresh 0)
    simp only [Acct.fresh] at this
    show (w.set a (Acct.fresh 0)).total + (w.burnt + (w.acct a).bal) = _
    simp only [Acct.fresh]; omega

/-- setting fields other than the balance of the (then live) account -/
theorem Cons_modify {w : World} (h : w.WF) (a : Addr) (f : Acct → Acct)
    (hb : ∀ x, (f x).bal = x.bal) (hl : ∀ x, x.live = true → (f x).live = true) :
    Cons w ((w.getOrNew a).set a (f ((w.getOrNew a).acct a))) := by
  have h1 := Cons_getOrNew h a
  exact h1.trans (Cons_set_same_bal h1.wf a _ (hb _) (hl _ (getOrNew_live w a)))

theorem Cons_setNonce {w : World} (h : w.WF) (a : Addr) (n : Nat) : Cons w (w.setNonce a n) :=
  Cons_modify h a (fun x => { x with nonce := n }) (fun _ => rfl) (fun _ h => h)
theorem Cons_setCode {w : World} (h : w.WF) (a : Addr) (c : Bytes) : Cons w (w.setCode a c) :=
  Cons_modify h a (fun x => { x with code := c }) (fun _ => rfl) (fun _ h => h)
theorem Cons_setStorage {w : World} (h : w.WF) (a : Addr) (k v : Word) : Cons w (w.setStorage a k v) :=
  Cons_modify h a (fun x => { x with stor := fun y => if y = k then v else x.stor y }) (fun _ => rfl) (fun _ h => h)

/-- crediting `v`: the total grows by exactly `v` -/
theorem addBalance_spec {w : World} (h : w.WF) (a : Addr) (v : Nat) :
    (w.addBalance a v).WF ∧ (w.addBalance a v).total + (w.addBalance a v).burnt = w.total + w.burnt + v
    ∧ (w.NoGhost → (w.addBalance a v).NoGhost) := by
  have h1 := Cons_getOrNew h a
  unfold World.addBalance
  simp only
  split
  · subst_vars; exact ⟨h1.wf, by simpa using h1.sum, h1.ghost⟩
  · refine ⟨WF_set h1.wf a _, ?_, fun g => NoGhost_set (h1.ghost g) a _ (by simp [getOrNew_live])⟩
    have := total_set h1.wf a { (w.getOrNew a).acct a with bal := ((w.getOrNew a).acct a).bal + v }
    have := h1.sum
    simp only [set_burnt] at *; omega

/-- debiting `v` when CanTransfer held: the total shrinks by exactly `v` -/
theorem subBalance_spec {w : World} (h : w.WF) (a : Addr) (v : Nat) (hv : v ≤ w.balOf a) :
    (w.subBalance a v).WF ∧ (w.subBalance a v).total + (w.subBalance a v).burnt + v = w.total + w.burnt
    ∧ (w.NoGhost → (w.subBalance a v).NoGhost) := by
  have h1 := Cons_getOrNew h a
  unfold World.subBalance
  simp only
  split
  · subst_vars; exact ⟨h1.wf, by simpa using h1.sum, h1.ghost⟩
  · refine ⟨WF_set h1.wf a _, ?_, fun g => NoGhost_set (h1.ghost g) a _ (by simp [getOrNew_live])⟩
    have := total_set h1.wf a { (w.getOrNew a).acct a with bal := ((w.getOrNew a).acct a).bal - v }
    have := h1.sum
    have := getOrNew_bal w a
    simp only [set_burnt] at *; omega

theorem Cons_transfer {w : World} (h : w.WF) (src dst : Addr) (v : Nat) (hv : v ≤ w.balOf src) :
    Cons w (w.transfer src dst v) := by
  obtain ⟨w1, s1, g1⟩ := subBalance_spec h src v hv
  obtain ⟨w2, s2, g2⟩ := addBalance_spec w1 dst v
  exact ⟨w2, by unfold World.transfer; omega, fun g => g2 (g1 g)⟩

theorem Cons_addRefund {w : World} (h : w.WF) (n : Nat) : Cons w (w.addRefund n) := ⟨h, rfl, id⟩
theorem Cons_subRefund {w w' : World} (h : w.WF) {n : Nat} (e : w.subRefund n = some w') : Cons w w' := by
  unfold World.subRefund at e
  split at e
  · cases e
  · cases e; exact ⟨h, rfl, id⟩

/-- StateDB.Suicide after the beneficiary was credited: `b` (what was credited) leaves the total again;
    whatever else the account holds is burnt. -/
theorem suicide_spec {w : World} (h : w.WF) (a : Addr) (b : Nat) (hb : (w.acct a).live = true → b ≤ (w.acct a).bal) :
    (w.suicide a b).WF ∧ (w.suicide a b).total + (w.suicide a b).burnt + b = w.total + w.burnt + (if (w.acct a).live then 0 else b)
    ∧ (w.NoGhost → (w.suicide a b).NoGhost) := by
  unfold World.suicide
  split
  · rename_i hl
    refine ⟨WF_set h a _, ?_, fun g => NoGhost_set g a _ (by simp [hl])⟩
    have := total_set h a { w.acct a with suicided := true, bal := 0 }
    have := hb hl
    show (w.set a _).total + (w.burnt + ((w.acct a).bal - b)) + b = _
    simp only at *; omega
  · exact ⟨h, by simp, id⟩

end YouVerif.C16
