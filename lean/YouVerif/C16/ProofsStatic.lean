/-
C16 helper lemmas: nothing changes under a read-only context.
-/
import YouVerif.C16.ProofsWorld

namespace YouVerif.C16

/-- What a read-only execution may do to the world: nothing, except that an address without a live object may
    get one — empty, holding whatever balance a deleted object at that address still carried (CreateAccount in
    evm.Call; a zero-value CALL is allowed under STATICCALL). Such an object is removed again by Finalise(true). -/
structure StaticEq (w w' : World) : Prop where
  acct : ∀ a, w'.acct a = w.acct a ∨ ((w.acct a).live = false ∧ w'.acct a = Acct.fresh (w.acct a).bal)
  logs : w'.logs = w.logs
  logSize : w'.logSize = w.logSize
  refund : w'.refund = w.refund
  burnt : w'.burnt = w.burnt

theorem StaticEq.refl (w : World) : StaticEq w w := ⟨fun _ => Or.inl rfl, rfl, rfl, rfl, rfl⟩

theorem StaticEq.trans {a b c : World} (h1 : StaticEq a b) (h2 : StaticEq b c) : StaticEq a c := by
  refine ⟨fun x => ?_, h2.logs.trans h1.logs, h2.logSize.trans h1.logSize, h2.refund.trans h1.refund, h2.burnt.trans h1.burnt⟩
  rcases h1.acct x with e1 | ⟨l1, e1⟩ <;> rcases h2.acct x with e2 | ⟨l2, e2⟩
  · exact Or.inl (e2.trans e1)
  · right; rw [e1] at l2 e2; exact ⟨l2, e2⟩
  · right; exact ⟨l1, e2.trans e1⟩
  · rw [e1] at l2; simp [Acct.fresh] at l2

theorem StaticEq.live {w w' : World} (h : StaticEq w w') {a : Addr} (hl : (w.acct a).live = true) :
    w'.acct a = w.acct a := by
  rcases h.acct a with e | ⟨l, _⟩
  · exact e
  · rw [hl] at l; cases l

theorem StaticEq.live' {w w' : World} (h : StaticEq w w') {a : Addr} (hl : (w.acct a).live = true) :
    (w'.acct a).live = true := by rw [h.live hl]; exact hl

theorem createAccount_staticEq (w : World) (a : Addr) (h : (w.acct a).live = false) : StaticEq w (w.createAccount a) := by
  refine ⟨fun x => ?_, rfl, rfl, rfl, rfl⟩
  by_cases e : x = a
  · subst e; right; exact ⟨h, by simp [World.createAccount]⟩
  · left; exact set_acct_other w _ e

theorem transfer_zero_of_live {w : World} {src dst : Addr} (hs : (w.acct src).live = true) (hd : (w.acct dst).live = true) :
    w.transfer src dst 0 = w := by
  simp [World.transfer, World.subBalance, World.addBalance, getOrNew_of_live hs, getOrNew_of_live hd]

theorem callWorld_static (ctx : Ctx) (kind : Kind) (addr : Addr) (value : Nat) (w : World)
    (hv : kind = .call → value = 0 ∧ (w.acct ctx.self).live = true) :
    StaticEq w (callWorld ctx kind addr value w) := by
  unfold callWorld
  split
  · rename_i hk
    obtain ⟨hz, hs⟩ := hv hk
    subst hz
    by_cases hl : (w.acct addr).live = true
    · simp only [World.isLive, hl, if_true]
      rw [transfer_zero_of_live hs hl]; exact StaticEq.refl w
    · have hl' : (w.acct addr).live = false := by simpa using hl
      simp only [World.isLive, hl', Bool.false_eq_true, if_false]
      have h1 := createAccount_staticEq w addr hl'
      have hd : ((w.createAccount addr).acct addr).live = true := by simp [World.createAccount, Acct.fresh]
      rw [transfer_zero_of_live (h1.live' hs) hd]; exact h1
  · exact StaticEq.refl w

theorem callExit_static {w : World} (r : Res) (hr : StaticEq w r.w) : StaticEq w (callExit w r).w := by
  unfold callExit
  split
  · exact hr
  · exact StaticEq.refl w
  · exact StaticEq.refl w
  · exact hr

theorem codeOf_ne_nil_live {w : World} {a : Addr} (h : w.codeOf a ≠ []) : (w.acct a).live = true := by
  unfold World.codeOf at h
  split at h
  · assumption
  · exact absurd rfl h

theorem enterCall_static (env : Env) (ctx : Ctx) (kind : Kind) (addr : Addr) (value gas : Nat) (w : World) (tr : List Ev)
    (run : Ctx → Nat → World → List Ev → Res)
    (hstat : ctx.static = true ∨ kind = .static)
    (hv : kind = .call → value = 0)
    (hself : kind ≠ .static → (w.acct ctx.self).live = true)
    (hrun : ∀ c g w tr, c.static = true → (w.acct c.self).live = true → StaticEq w (run c g w tr).w) :
    StaticEq w (enterCall env ctx kind addr value gas w tr run).w := by
  unfold enterCall
  split
  · exact StaticEq.refl w
  · split
    · exact StaticEq.refl w
    · have h1 := callWorld_static ctx kind addr value w (fun hk => ⟨hv hk, hself (by simp [hk])⟩)
      apply callExit_static
      unfold calleeRes runPrecompile
      split
      · split <;> exact h1
      split
      · exact h1
      · rename_i hcode
        refine h1.trans (hrun _ _ _ _ ?_ ?_)
        · unfold calleeCtx
          rcases hstat with h | h <;> simp [h]
        · unfold calleeCtx
          simp only
          split
          · exact codeOf_ne_nil_live hcode
          · rename_i hk
            exact h1.live' (hself (fun e => hk (Or.inr e)))

theorem callCharge_static_value {ctx : Ctx} {kind : Kind} {pre mem : Nat} {addr : Addr} {value gasSpec gas : Nat} {w : World}
    {r : Nat × Nat} (h : callCharge ctx kind pre mem addr value gasSpec gas w = .ok r) (hs : ctx.static = true)
    (hk : kind = .call) : value = 0 := by
  unfold callCharge at h
  split at h; · cases h
  split at h
  · cases h
  · rename_i hn
    subst hk
    simpa [hs] using hn

theorem createCharge_static {ctx : Ctx} {is2 : Bool} {pre hashCost gas : Nat} {r : Nat × Nat}
    (h : createCharge ctx is2 pre hashCost gas = .ok r) : ctx.static = false := by
  unfold createCharge at h
  split at h; · cases h
  split at h
  · cases h
  · rename_i hn; simpa using hn

theorem exec_static (env : Env) (p : Prog) : ∀ (ctx : Ctx) (gas : Nat) (w : World) (tr : List Ev),
    ctx.static = true → (w.acct ctx.self).live = true → StaticEq w (exec env p ctx gas w tr).w := by
  induction p with
  | stop pre => intro ctx gas w tr _ _; unfold exec; split <;> exact StaticEq.refl w
  | ret pre d => intro ctx gas w tr _ _; unfold exec; split <;> exact StaticEq.refl w
  | revert pre d => intro ctx gas w tr _ _; unfold exec; split <;> exact StaticEq.refl w
  | invalid pre => intro ctx gas w tr _ _; unfold exec; split <;> exact StaticEq.refl w
  | selfdestruct pre ben =>
    intro ctx gas w tr hs _; unfold exec; simp only [hs, if_true]
    split <;> exact StaticEq.refl w
  | gas n rest ih =>
    intro ctx gas w tr hs hl; unfold exec
    split
    · exact StaticEq.refl w
    · exact ih _ _ _ _ hs hl
  | sstore pre k v rest ih =>
    intro ctx gas w tr hs _; unfold exec; simp only [hs, if_true]
    split <;> exact StaticEq.refl w
  | log pre topics rest ih =>
    intro ctx gas w tr hs _; unfold exec; simp only [hs, if_true]
    split <;> exact StaticEq.refl w
  | call kind pre mem addr value gasSpec callee rest ihc ihr =>
    intro ctx gas w tr hs hl; unfold exec
    split
    · exact StaticEq.refl w
    · rename_i kept given hc
      have h1 := enterCall_static env ctx kind addr value given w tr (exec env callee) (Or.inl hs)
        (callCharge_static_value hc hs) (fun _ => hl) ihc
      simp only
      split
      · exact h1
      · exact h1.trans (ihr _ _ _ _ hs (h1.live' hl))
  | create pre value init rest ihc ihr =>
    intro ctx gas w tr hs _; unfold exec
    split
    · exact StaticEq.refl w
    · rename_i kept given hc
      have := createCharge_static hc
      rw [hs] at this; cases this
  | create2 pre hashCost value salt initHash init rest ihc ihr =>
    intro ctx gas w tr hs _; unfold exec
    split
    · exact StaticEq.refl w
    · rename_i kept given hc
      have := createCharge_static hc
      rw [hs] at this; cases this

/-- Under `NoGhost` (no deleted object holds a balance) `StaticEq` means: every getter of the StateDB except
    `Exist` answers the same. -/
theorem StaticEq.getters {w w' : World} (h : StaticEq w w') (hg : w.NoGhost) (a : Addr) :
    w'.balOf a = w.balOf a ∧ w'.nonceOf a = w.nonceOf a ∧ w'.codeOf a = w.codeOf a
    ∧ (∀ k, w'.storOf a k = w.storOf a k) ∧ w'.hasSuicided a = w.hasSuicided a ∧ w'.isEmpty a = w.isEmpty a := by
  rcases h.acct a with e | ⟨l, e⟩
  · simp [World.balOf, World.nonceOf, World.codeOf, World.storOf, World.hasSuicided, World.isEmpty, e]
  · have hb := hg a l
    simp [World.balOf, World.nonceOf, World.codeOf, World.storOf, World.hasSuicided, World.isEmpty, e, l, hb,
      Acct.fresh, Acct.empty]

end YouVerif.C16
