/-
C16 helper lemmas: execution conserves  Σ balances (live and deleted objects) + burnt.
-/
import YouVerif.C16.ProofsWorld

namespace YouVerif.C16

theorem balOf_le_bal (w : World) (a : Addr) : w.balOf a ≤ (w.acct a).bal := by
  unfold World.balOf; split <;> omega

theorem balOf_createAccount_ge (w : World) (a s : Addr) : w.balOf s ≤ (w.createAccount a).balOf s := by
  by_cases e : s = a
  · subst e
    have := balOf_le_bal w s
    simp [World.createAccount, World.balOf, Acct.fresh] at *
    split <;> omega
  · simp [World.createAccount, World.balOf, set_acct_other w _ e]

theorem callWorld_cons {w : World} (h : w.WF) (ctx : Ctx) (kind : Kind) (addr : Addr) (value : Nat)
    (hv : kind = .call → value ≤ w.balOf ctx.self) : Cons w (callWorld ctx kind addr value w) := by
  unfold callWorld
  split
  · rename_i hk
    split
    · exact Cons_transfer h _ _ _ (hv hk)
    · have h1 := Cons_createAccount h addr
      exact h1.trans (Cons_transfer h1.wf _ _ _ (Nat.le_trans (hv hk) (balOf_createAccount_ge w addr ctx.self)))
  · exact Cons.refl h

theorem callExit_cons {w : World} (h : w.WF) (r : Res) (hr : Cons w r.w) : Cons w (callExit w r).w := by
  unfold callExit
  split
  · exact hr
  · exact Cons.refl h
  · exact Cons.refl h
  · exact hr

theorem enterCall_cons (env : Env) (ctx : Ctx) (kind : Kind) (addr : Addr) (value gas : Nat) {w : World} (tr : List Ev)
    (run : Ctx → Nat → World → List Ev → Res) (h : w.WF)
    (hrun : ∀ c g w tr, w.WF → Cons w (run c g w tr).w) :
    Cons w (enterCall env ctx kind addr value gas w tr run).w := by
  unfold enterCall
  split
  · exact Cons.refl h
  · split
    · exact Cons.refl h
    · rename_i hb
      have hv : kind = .call → value ≤ w.balOf ctx.self := by
        intro hk
        by_cases hlt : w.balOf ctx.self < value
        · exact absurd ⟨Or.inl hk, hlt⟩ hb
        · omega
      have h1 := callWorld_cons h ctx kind addr value hv
      apply callExit_cons h
      unfold calleeRes runPrecompile
      split
      · split <;> exact h1
      · split
        · exact h1
        · exact h1.trans (hrun _ _ _ _ h1.wf)

theorem bumpNonce_cons {w : World} (h : w.WF) (a : Addr) : Cons w (bumpNonce w a) := Cons_setNonce h a _

theorem balOf_modify_same (w : World) (a s : Addr) (f : Acct → Acct) (hb : ∀ x, (f x).bal = x.bal)
    (hl : ∀ x, x.live = true → (f x).live = true) :
    w.balOf s ≤ ((w.getOrNew a).set a (f ((w.getOrNew a).acct a))).balOf s := by
  by_cases e : s = a
  · subst e
    have h1 := getOrNew_live w s
    have h2 := getOrNew_bal w s
    simp [World.balOf, hb, hl _ h1, h2]
  · unfold World.getOrNew
    split
    · simp [World.balOf, set_acct_other _ _ e]
    · simp [World.balOf, World.set, e]

theorem balOf_setNonce_ge (w : World) (a s : Addr) (n : Nat) : w.balOf s ≤ (w.setNonce a n).balOf s :=
  balOf_modify_same w a s (fun x => { x with nonce := n }) (fun _ => rfl) (fun _ h => h)

theorem createWorld_cons {w0 : World} (h : w0.WF) (ctx : Ctx) (addr : Addr) (value : Nat)
    (hv : value ≤ w0.balOf ctx.self) : Cons w0 (createWorld ctx addr value w0) := by
  unfold createWorld
  have h1 := Cons_createAccount h addr
  have h2 := Cons_setNonce h1.wf addr 1
  have hb : value ≤ ((w0.createAccount addr).setNonce addr 1).balOf ctx.self :=
    Nat.le_trans hv (Nat.le_trans (balOf_createAccount_ge w0 addr ctx.self) (balOf_setNonce_ge _ _ _ _))
  exact (h1.trans h2).trans (Cons_transfer h2.wf _ _ _ hb)

theorem createExit_cons {w saved : World} (addr : Addr) (r : Res) (hs : Cons w saved) (hr : Cons w r.w) :
    Cons w (createExit saved addr r).w := by
  unfold createExit
  split
  · split
    · exact hs
    · split
      · exact hs
      · exact hr.trans (Cons_setCode hr.wf addr _)
  · exact hs
  · exact hs
  · exact hr

theorem enterCreate_cons (env : Env) (ctx : Ctx) (addr : Addr) (value gas : Nat) {w : World} (tr : List Ev)
    (run : Ctx → Nat → World → List Ev → Res) (h : w.WF)
    (hrun : ∀ c g w tr, w.WF → Cons w (run c g w tr).w) :
    Cons w (enterCreate env ctx addr value gas w tr run).w := by
  unfold enterCreate
  split
  · exact Cons.refl h
  · split
    · exact Cons.refl h
    · rename_i hb
      have h0 := bumpNonce_cons h ctx.self
      split
      · exact h0
      · have hv : value ≤ (bumpNonce w ctx.self).balOf ctx.self :=
          Nat.le_trans (by omega) (balOf_setNonce_ge w ctx.self ctx.self _)
        have h1 := createWorld_cons h0.wf ctx addr value hv
        exact createExit_cons addr _ h0 (h0.trans (h1.trans (hrun _ _ _ _ h1.wf)))

theorem sstoreGas_cons {w w1 : World} (h : w.WF) {a : Addr} {k v : Word} {cost : Nat}
    (e : sstoreGas w a k v = some (cost, w1)) : Cons w w1 := by
  unfold sstoreGas at e
  simp only at e
  split at e
  · cases e; exact Cons.refl h
  · split at e
    · split at e
      · cases e; exact Cons.refl h
      · cases e; split
        · exact Cons_addRefund h _
        · exact Cons.refl h
    · split at e
      · cases e
      · rename_i w1' hw1
        have hc : Cons w w1' := by
          split at hw1
          · split at hw1
            · exact Cons_subRefund h hw1
            · split at hw1 <;> cases hw1
              · exact Cons_addRefund h _
              · exact Cons.refl h
          · cases hw1; exact Cons.refl h
        cases e
        split
        · split
          · exact hc.trans (Cons_addRefund hc.wf _)
          · exact hc.trans (Cons_addRefund hc.wf _)
        · exact hc

theorem selfdestruct_cons {w1 : World} (h : w1.WF) (self ben : Addr) :
    Cons w1 ((w1.addBalance ben (w1.balOf self)).suicide self (w1.balOf self)) := by
  obtain ⟨wf2, s2, g2⟩ := addBalance_spec h ben (w1.balOf self)
  have hb : ((w1.addBalance ben (w1.balOf self)).acct self).live = true →
      w1.balOf self ≤ ((w1.addBalance ben (w1.balOf self)).acct self).bal := by
    intro _
    unfold World.addBalance
    simp only
    split
    · rename_i hz
      rw [hz]; exact Nat.zero_le _
    · by_cases e : self = ben
      · subst e; simp
      · rw [set_acct_other _ _ e]
        unfold World.getOrNew
        split
        · exact balOf_le_bal w1 self
        · rw [show ({ (w1.set ben (Acct.fresh 0)) with burnt := w1.burnt + (w1.acct ben).bal } : World).acct self
                = (w1.set ben (Acct.fresh 0)).acct self from rfl, set_acct_other _ _ e]
          exact balOf_le_bal w1 self
  obtain ⟨wf3, s3, g3⟩ := suicide_spec wf2 self (w1.balOf self) hb
  refine ⟨wf3, ?_, fun g => g3 (g2 g)⟩
  split at s3
  · omega
  · -- the contract itself has no live object: it holds nothing
    rename_i hl
    have : w1.balOf self = 0 := by
      by_cases e : self = ben
      · subst e
        have := getOrNew_live w1 self
        exfalso; apply hl
        unfold World.addBalance; simp only
        split
        · exact this
        · simp [this]
      · have hl' : (w1.acct self).live ≠ true := by
          intro hh; apply hl
          unfold World.addBalance; simp only
          split
          · unfold World.getOrNew; split
            · exact hh
            · rw [show ({ (w1.set ben (Acct.fresh 0)) with burnt := w1.burnt + (w1.acct ben).bal } : World).acct self
                    = (w1.set ben (Acct.fresh 0)).acct self from rfl, set_acct_other _ _ e]; exact hh
          · rw [set_acct_other _ _ e]
            unfold World.getOrNew; split
            · exact hh
            · rw [show ({ (w1.set ben (Acct.fresh 0)) with burnt := w1.burnt + (w1.acct ben).bal } : World).acct self
                    = (w1.set ben (Acct.fresh 0)).acct self from rfl, set_acct_other _ _ e]; exact hh
        simp [World.balOf, hl']
    omega

theorem exec_cons (env : Env) (p : Prog) : ∀ (ctx : Ctx) (gas : Nat) (w : World) (tr : List Ev),
    w.WF → Cons w (exec env p ctx gas w tr).w := by
  induction p with
  | stop pre => intro ctx gas w tr h; unfold exec; split <;> exact Cons.refl h
  | ret pre d => intro ctx gas w tr h; unfold exec; split <;> exact Cons.refl h
  | revert pre d => intro ctx gas w tr h; unfold exec; split <;> exact Cons.refl h
  | invalid pre => intro ctx gas w tr h; unfold exec; split <;> exact Cons.refl h
  | selfdestruct pre ben =>
    intro ctx gas w tr h; unfold exec; simp only
    split; · exact Cons.refl h
    split; · exact Cons.refl h
    have h1 : Cons w (if w.hasSuicided ctx.self then w else w.addRefund rSelfdestruct) := by
      split
      · exact Cons.refl h
      · exact Cons_addRefund h _
    split
    · exact h1
    · exact h1.trans (selfdestruct_cons h1.wf ctx.self ben)
  | gas n rest ih =>
    intro ctx gas w tr h; unfold exec
    split
    · exact Cons.refl h
    · exact ih _ _ _ _ h
  | sstore pre k v rest ih =>
    intro ctx gas w tr h; unfold exec; simp only
    split; · exact Cons.refl h
    split; · exact Cons.refl h
    split; · exact Cons.refl h
    split
    · exact Cons.refl h
    · rename_i cost w1 e
      have h1 := sstoreGas_cons h e
      split
      · exact h1
      · have h2 := Cons_setStorage h1.wf ctx.self k v
        exact (h1.trans h2).trans (ih _ _ _ _ h2.wf)
  | log pre topics rest ih =>
    intro ctx gas w tr h; unfold exec; simp only
    split; · exact Cons.refl h
    split; · exact Cons.refl h
    split
    · exact Cons.refl h
    · have h1 : Cons w { w with logs := ⟨ctx.self, topics, w.logSize⟩ :: w.logs, logSize := w.logSize + 1 } := ⟨h, rfl, id⟩
      exact h1.trans (ih _ _ _ _ h1.wf)
  | call kind pre mem addr value gasSpec callee rest ihc ihr =>
    intro ctx gas w tr h; unfold exec
    split
    · exact Cons.refl h
    · rename_i kept given hc
      have h1 := enterCall_cons env ctx kind addr value given tr (exec env callee) h ihc
      simp only
      split
      · exact h1
      · exact h1.trans (ihr _ _ _ _ h1.wf)
  | create pre value init rest ihc ihr =>
    intro ctx gas w tr h; unfold exec
    split
    · exact Cons.refl h
    · rename_i kept given hc
      have h1 := enterCreate_cons env ctx (env.createAddr ctx.self (w.nonceOf ctx.self)) value given tr (exec env init) h ihc
      simp only
      split
      · exact h1
      · exact h1.trans (ihr _ _ _ _ h1.wf)
  | create2 pre hashCost value salt initHash init rest ihc ihr =>
    intro ctx gas w tr h; unfold exec
    split
    · exact Cons.refl h
    · rename_i kept given hc
      have h1 := enterCreate_cons env ctx (env.create2Addr ctx.self salt initHash) value given tr (exec env init) h ihc
      simp only
      split
      · exact h1
      · exact h1.trans (ihr _ _ _ _ h1.wf)

end YouVerif.C16
