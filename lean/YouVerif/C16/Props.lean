/-
C16 — property theorems (statements only; helper lemmas live in Proofs*.lean).
-/
import YouVerif.C16.Model

namespace YouVerif.C16

/-- A CALL / CALLCODE / DELEGATECALL / STATICCALL frame that ends in an error or a revert leaves the whole
    world (balances, storage, code, logs, created accounts, refund counter) exactly as it was. -/
theorem failed_call_no_trace (env : Env) (ctx : Ctx) (kind : Kind) (addr : Addr) (value gas : Nat) (w : World)
    (tr : List Ev) (run : Ctx → Nat → World → List Ev → Res)
    (h : (enterCall env ctx kind addr value gas w tr run).out.failed = true) :
    (enterCall env ctx kind addr value gas w tr run).w = w := by
  unfold enterCall at h ⊢
  simp only at h ⊢
  split
  · rfl
  · split
    · rfl
    · split <;> simp_all [Out.failed]

end YouVerif.C16
