/-
C16 — property theorems.  "Failed EVM calls leave no trace; value and gas are accounted exactly."

All statements are about `exec` / `enterCall` / `enterCreate` of Model.lean and quantify over every program tree
(`Prog`), every world, every context, every gas amount.  Since a sub-frame at any depth is itself an
`enterCall` / `enterCreate` on the world reached at that point, "for every world" covers every depth.
Helper lemmas are in ProofsGas / ProofsWorld / ProofsBalance / ProofsStatic.
-/
import YouVerif.C16.ProofsGas
import YouVerif.C16.ProofsBalance
import YouVerif.C16.ProofsStatic

namespace YouVerif.C16

/-! ## 1. A failed frame leaves no trace -/

/-- A CALL / CALLCODE / DELEGATECALL / STATICCALL frame (whatever body `run` executes, at any depth) that ends
    in an error or a revert leaves the whole world — balances, nonces, storage, code, created accounts,
    self-destruct marks, logs, refund counter — exactly as it was. -/
theorem failed_call_no_trace (env : Env) (ctx : Ctx) (kind : Kind) (addr : Addr) (value gas : Nat) (w : World)
    (tr : List Ev) (run : Ctx → Nat → World → List Ev → Res)
    (h : (enterCall env ctx kind addr value gas w tr run).out.failed = true) :
    (enterCall env ctx kind addr value gas w tr run).w = w := by
  unfold enterCall at h ⊢
  split
  · rfl
  · split
    · rfl
    · rename_i h1 h2
      simp only [h1, h2, if_false] at h
      unfold callExit at h ⊢
      split <;> simp_all [Out.failed]

/-- A failed CREATE / CREATE2 frame leaves no trace either, except for what the code does before taking its
    snapshot: the creator's nonce bump survives every failure that happens after the depth and balance checks. -/
theorem failed_create_no_trace (env : Env) (ctx : Ctx) (addr : Addr) (value gas : Nat) (w : World)
    (tr : List Ev) (run : Ctx → Nat → World → List Ev → Res)
    (h : (enterCreate env ctx addr value gas w tr run).out.failed = true) :
    (enterCreate env ctx addr value gas w tr run).w = w ∨
    (enterCreate env ctx addr value gas w tr run).w = bumpNonce w ctx.self := by
  unfold enterCreate at h ⊢
  split
  · exact Or.inl rfl
  · split
    · exact Or.inl rfl
    · split
      · exact Or.inr rfl
      · rename_i h1 h2 h3
        simp only [h1, h2, h3, if_false] at h
        right
        unfold createExit at h ⊢
        split
        · split
          · rfl
          · split
            · rfl
            · simp_all [Out.failed]
        · rfl
        · rfl
        · simp_all [Out.failed]

/-- Both together, for frames that run program trees: every frame of every program, at every depth, that ends in
    an error or a revert leaves the world as it found it (a creation keeps at most the creator's nonce bump). -/
theorem failed_frame_no_trace (env : Env) (ctx : Ctx) (kind : Kind) (addr : Addr) (value gas : Nat) (w : World)
    (tr : List Ev) (body : Prog) :
    ((enterCall env ctx kind addr value gas w tr (exec env body)).out.failed = true →
      (enterCall env ctx kind addr value gas w tr (exec env body)).w = w) ∧
    ((enterCreate env ctx addr value gas w tr (exec env body)).out.failed = true →
      (enterCreate env ctx addr value gas w tr (exec env body)).w = w ∨
      (enterCreate env ctx addr value gas w tr (exec env body)).w = bumpNonce w ctx.self) :=
  ⟨failed_call_no_trace env ctx kind addr value gas w tr _, failed_create_no_trace env ctx addr value gas w tr _⟩

/-- The failures decided before the snapshot (call depth, insufficient balance) hand back all the gas. -/
theorem early_failure_keeps_gas (env : Env) (ctx : Ctx) (kind : Kind) (addr : Addr) (value gas : Nat) (w : World)
    (tr : List Ev) (run : Ctx → Nat → World → List Ev → Res)
    (h : ctx.depth > env.maxDepth ∨ ((kind = .call ∨ kind = .callcode) ∧ w.balOf ctx.self < value)) :
    (enterCall env ctx kind addr value gas w tr run).returned = gas ∧
    (enterCall env ctx kind addr value gas w tr run).out.failed = true := by
  unfold enterCall
  rcases h with h | h
  · simp [h, Out.failed]
  · split
    · simp [Out.failed]
    · simp [Out.failed]

/-- A whole message-call transaction whose EVM execution fails changes nothing. -/
theorem failed_tx_no_trace (env : Env) (origin to : Addr) (value gas : Nat) (body : Prog) (w : World)
    (h : (txCall env origin to value gas body w).out.failed = true) :
    (txCall env origin to value gas body w).w = w :=
  failed_call_no_trace env _ _ _ _ _ _ _ _ h

/-! ## 2. A static call changes nothing -/

/-- Whatever runs under a read-only context, and whatever its result, leaves the world unchanged up to
    `StaticEq`: logs, refund counter and every live account are identical; the only thing that can happen is
    that an address without a live object gets an empty one (`CreateAccount` in `evm.Call` for a zero-value
    CALL), which `Finalise(true)` removes again. -/
theorem static_changes_nothing (env : Env) (p : Prog) (ctx : Ctx) (gas : Nat) (w : World) (tr : List Ev)
    (hs : ctx.static = true) (hl : (w.acct ctx.self).live = true) :
    StaticEq w (exec env p ctx gas w tr).w :=
  exec_static env p ctx gas w tr hs hl

/-- A STATICCALL issued from any context (read-only or not), with any callee, succeeded or failed. -/
theorem staticcall_changes_nothing (env : Env) (ctx : Ctx) (addr : Addr) (value gas : Nat) (w : World) (tr : List Ev)
    (callee : Prog) :
    StaticEq w (enterCall env ctx .static addr value gas w tr (exec env callee)).w :=
  enterCall_static env ctx .static addr value gas w tr (exec env callee) (Or.inr rfl) (fun h => by cases h)
    (fun h => absurd rfl h) (exec_static env callee)

/-- ... and when no deleted object of an earlier transaction holds a balance (see `balance_resurrection_counterexample`
    for why this is needed), every getter of the StateDB other than `Exist` answers the same afterwards. -/
theorem staticcall_observably_nothing (env : Env) (ctx : Ctx) (addr : Addr) (value gas : Nat) (w : World) (tr : List Ev)
    (callee : Prog) (hg : w.NoGhost) (a : Addr) :
    let w' := (enterCall env ctx .static addr value gas w tr (exec env callee)).w
    w'.balOf a = w.balOf a ∧ w'.nonceOf a = w.nonceOf a ∧ w'.codeOf a = w.codeOf a
    ∧ (∀ k, w'.storOf a k = w.storOf a k) ∧ w'.hasSuicided a = w.hasSuicided a ∧ w'.isEmpty a = w.isEmpty a
    ∧ w'.logs = w.logs ∧ w'.logSize = w.logSize ∧ w'.refund = w.refund := by
  intro w'
  have h := staticcall_changes_nothing env ctx addr value gas w tr callee
  obtain ⟨a1, a2, a3, a4, a5, a6⟩ := h.getters hg a
  exact ⟨a1, a2, a3, a4, a5, a6, h.logs, h.logSize, h.refund⟩

/-! ## 3. Value is conserved -/

/-- Exact conservation law of any frame body: Σ `data.Balance` over all cached objects (live or deleted by an
    earlier transaction) plus the burnt counter (SELFDESTRUCT to self, deleted object overwritten) is invariant;
    the finite-support invariant and `NoGhost` are preserved. -/
theorem balance_conserved (env : Env) (p : Prog) (ctx : Ctx) (gas : Nat) (w : World) (tr : List Ev) (h : w.WF) :
    Cons w (exec env p ctx gas w tr).w :=
  exec_cons env p ctx gas w tr h

/-- The same for a whole message-call transaction ... -/
theorem balance_conserved_tx (env : Env) (origin to : Addr) (value gas : Nat) (body : Prog) (w : World) (h : w.WF) :
    Cons w (txCall env origin to value gas body w).w :=
  enterCall_cons env _ _ _ _ _ _ _ h (exec_cons env body)

/-- ... and a contract-creation transaction. -/
theorem balance_conserved_create_tx (env : Env) (origin : Addr) (value gas : Nat) (init : Prog) (w : World) (h : w.WF) :
    Cons w (txCreate env origin value gas init w).w :=
  enterCreate_cons env _ _ _ _ _ _ h (exec_cons env init)

theorem liveTotal_eq_total {w : World} (hg : w.NoGhost) : w.liveTotal = w.total := by
  unfold World.liveTotal World.total
  congr 1
  apply List.map_congr_left
  intro a _
  unfold World.balOf
  split
  · rfl
  · rename_i hl
    exact (hg a (by simpa using hl)).symm

/-- The property as stated — the sum of the balances a dump shows changes only by the value burnt through
    self-destructs — holds for every transaction that starts from a world in which no deleted object holds a
    balance (e.g. the first transaction of a block). -/
theorem balance_conserved_live (env : Env) (origin to : Addr) (value gas : Nat) (body : Prog) (w : World)
    (h : w.WF) (hg : w.NoGhost) :
    (txCall env origin to value gas body w).w.liveTotal + (txCall env origin to value gas body w).w.burnt
      = w.liveTotal + w.burnt := by
  have c := balance_conserved_tx env origin to value gas body w h
  rw [liveTotal_eq_total hg, liveTotal_eq_total (c.ghost hg)]
  exact c.sum

/-- Finalise(true) keeps every balance in the cache: accounts it deletes keep their `data.Balance`. -/
theorem finalise_keeps_cached_balances (w : World) : w.finalise.total = w.total := by
  unfold World.finalise World.total
  simp only
  congr 1
  apply List.map_congr_left
  intro a _
  unfold Acct.finalise
  split <;> rfl

/-! ### The property is false of the code across transactions of one block (known finding F-C16a) -/

namespace Witness
def O : Addr := 0xa1
def B : Addr := 0xe1
def Y : Addr := 0xc0
def X : Addr := 0xc1
def Z : Addr := 0xc2
def env : Env := ⟨fun _ => none, 1024, fun _ _ => 0, fun _ _ _ => 0⟩
def contract (bal : Nat) : Acct := ⟨true, 1, bal, [0xff], fun _ => 0, fun _ => 0, false⟩
/-- genesis: no deleted objects at all -/
def w0 : World :=
  ((((World.init.set O (Acct.fresh 1000)).set B (Acct.fresh 777)).set Y (contract 100)).set X (contract 3)).set Z (contract 7)
/-- Y: CALL X (X self-destructs to B), then CALL Z (Z self-destructs its 7 wei to X) -/
def bodyY : Prog :=
  .call .call 0 0 X 0 100000 (.selfdestruct 0 B) (.call .call 0 0 Z 0 100000 (.selfdestruct 0 X) (.stop 0))
def tx1 : FrameRes := txCall env O Y 0 300000 bodyY w0
def w1 : World := tx1.w.finalise
/-- second transaction of the block: 5 wei sent to X -/
def tx2 : FrameRes := txCall env O X 5 100000 (.stop 0) w1
end Witness

open Witness in
/-- Concrete witness (replayed on the real code: corpus/C16/deleted-balance-resurrected.replay, probe F-C16a):
    both transactions succeed, the second executes no code at all, and yet the balances a dump shows grow by the
    7 wei that were destroyed with X at the end of the first transaction. -/
theorem balance_resurrection_counterexample :
    w0.WF ∧ w0.NoGhost ∧ tx1.out = .ok [] ∧ tx2.out = .ok []
    ∧ w1.liveTotal = 1880 ∧ tx2.w.liveTotal = 1887 ∧ tx2.w.burnt = w1.burnt ∧ tx2.w.balOf X = 12 := by
  refine ⟨⟨by decide, ?_⟩, ?_, by decide, by decide, by decide, by decide, by decide, by decide⟩
  · intro a ha
    have hdom : w0.dom = [Z, X, Y, B, O] := by decide
    rw [hdom] at ha
    simp only [List.mem_cons, List.not_mem_nil, or_false, not_or] at ha
    obtain ⟨h1, h2, h3, h4, h5⟩ := ha
    simp [w0, World.set, World.init, h1, h2, h3, h4, h5, Acct.none]
  · intro a
    simp only [w0, World.set, World.init]
    repeat' split
    all_goals simp [contract, Acct.fresh, Acct.none]

/-- Hence the conservation statement without the `NoGhost` hypothesis is false of the model of the code. -/
theorem balance_conserved_live_needs_NoGhost :
    ¬ (∀ (env : Env) (origin to : Addr) (value gas : Nat) (body : Prog) (w : World), w.WF →
        (txCall env origin to value gas body w).w.liveTotal + (txCall env origin to value gas body w).w.burnt
          = w.liveTotal + w.burnt) := by
  intro h
  have c1 := balance_conserved_tx Witness.env Witness.O Witness.Y 0 300000 Witness.bodyY Witness.w0
    balance_resurrection_counterexample.1
  have hwf : Witness.w1.WF := by
    obtain ⟨hn, hz⟩ := c1.wf
    exact ⟨hn, fun a ha => by
      have := hz a ha
      show ((Witness.tx1.w.acct a).finalise).bal = 0
      unfold Acct.finalise; split <;> exact this⟩
  have := h Witness.env Witness.O Witness.X 5 100000 (.stop 0) Witness.w1 hwf
  obtain ⟨_, _, _, _, h5, h6, h7, _⟩ := balance_resurrection_counterexample
  change Witness.tx2.w.liveTotal + Witness.tx2.w.burnt = Witness.w1.liveTotal + Witness.w1.burnt at this
  omega

/-! ## 4. Gas returned never exceeds gas supplied -/

/-- A frame body never ends with more gas than it started with. -/
theorem gas_monotone (env : Env) (p : Prog) (ctx : Ctx) (gas : Nat) (w : World) (tr : List Ev) :
    (exec env p ctx gas w tr).gas ≤ gas :=
  exec_gas_le env p ctx gas w tr

/-- A CALL-family frame hands back at most what it was given (`gas` is what `evm.Call` receives: the forwarded
    amount plus the 2300 stipend of a value-bearing call). -/
theorem gas_monotone_call (env : Env) (ctx : Ctx) (kind : Kind) (addr : Addr) (value gas : Nat) (w : World)
    (tr : List Ev) (callee : Prog) :
    (enterCall env ctx kind addr value gas w tr (exec env callee)).returned ≤ gas :=
  enterCall_returned_le env ctx kind addr value gas w tr _ (exec_gas_le env callee)

theorem gas_monotone_create (env : Env) (ctx : Ctx) (addr : Addr) (value gas : Nat) (w : World)
    (tr : List Ev) (init : Prog) :
    (enterCreate env ctx addr value gas w tr (exec env init)).returned ≤ gas :=
  enterCreate_returned_le env ctx addr value gas w tr _ (exec_gas_le env init)

/-- The caller never gains gas from a call, stipend included: what it keeps plus what it hands over (with the
    stipend) is at most what it had, so after the callee returned it holds at most what it held before. -/
theorem caller_never_gains (env : Env) (ctx : Ctx) (kind : Kind) (pre mem : Nat) (addr : Addr) (value gasSpec gas : Nat)
    (w : World) (tr : List Ev) (callee : Prog) (kept given : Nat)
    (h : callCharge ctx kind pre mem addr value gasSpec gas w = .ok (kept, given)) :
    kept + (enterCall env ctx kind addr value given w tr (exec env callee)).returned ≤ gas := by
  have h1 := callCharge_le h
  have h2 := gas_monotone_call env ctx kind addr value given w tr callee
  omega

theorem creator_never_gains (env : Env) (ctx : Ctx) (is2 : Bool) (pre hashCost : Nat) (addr : Addr) (value gas : Nat)
    (w : World) (tr : List Ev) (init : Prog) (kept given : Nat)
    (h : createCharge ctx is2 pre hashCost gas = .ok (kept, given)) :
    kept + (enterCreate env ctx addr value given w tr (exec env init)).returned ≤ gas := by
  have h1 := createCharge_le h
  have h2 := gas_monotone_create env ctx addr value given w tr init
  omega

/-- An error other than REVERT burns everything the frame was given. -/
theorem error_burns_all_gas (env : Env) (ctx : Ctx) (kind : Kind) (addr : Addr) (value gas : Nat) (w : World)
    (tr : List Ev) (run : Ctx → Nat → World → List Ev → Res) (e : Err)
    (h : (enterCall env ctx kind addr value gas w tr run).out = .err e) (he : e ≠ .depth ∧ e ≠ .balance) :
    (enterCall env ctx kind addr value gas w tr run).returned = 0 := by
  unfold enterCall at h ⊢
  split
  · rename_i h1; simp only [h1, if_true] at h; cases h; exact absurd rfl he.1
  · split
    · rename_i h1 h2; simp only [h1, h2, if_false] at h; cases h; exact absurd rfl he.2
    · rename_i h1 h2
      simp only [h1, h2, if_false] at h
      unfold callExit at h ⊢
      split <;> simp_all

/-! ## Non-vacuity: the hypotheses above are met by concrete, non-trivial instances (tests on literals) -/

open Witness in
/-- a frame that really fails after writing storage: the hypothesis of `failed_call_no_trace` holds -/
example : (txCall env O Y 0 300000 (.sstore 6 1 5 (.revert 0 [1, 2])) w0).out.failed = true := by decide

open Witness in
/-- an out-of-gas failure in a nested frame, caller continues and succeeds -/
example : (txCall env O Y 0 300000 (.call .call 0 0 X 0 5 (.sstore 6 1 5 (.stop 0)) (.stop 0)) w0).out = .ok [] := by decide

open Witness in
/-- the empty world and the witness genesis are well-formed and ghost-free -/
example : World.init.WF ∧ World.init.NoGhost := ⟨⟨by decide, fun _ _ => rfl⟩, fun _ _ => rfl⟩

open Witness in
/-- a callCharge that succeeds with a stipend (hypothesis of `caller_never_gains`) -/
example : (match callCharge ⟨Y, false, 1⟩ .call 21 0 X 1 0 100000 w0 with
    | .ok (kept, given) => kept == 87979 && given == 4600
    | .error _ => false) = true := by decide

open Witness in
/-- a read-only context with a live executing account (hypotheses of `static_changes_nothing`) -/
example : (w0.acct Y).live = true := by decide

end YouVerif.C16
