/-
C16 helper lemmas: gas never grows.
-/
import YouVerif.C16.Model

namespace YouVerif.C16

local macro "gas_close" : tactic => `(tactic| first | omega | (simp; done) | (simp; omega))

theorem callGas_spec {avail base spec temp : Nat} (h : callGas avail base spec = some temp) :
    temp = gStipend ∨ (base ≤ avail ∧ temp ≤ avail - base) ∨ temp = spec := by
  unfold callGas at h
  split at h
  · left; injection h with h; exact h.symm
  · split at h
    · split at h
      · cases h
      · right; left
        injection h with h
        subst h
        constructor
        · omega
        · exact Nat.sub_le _ _
    · right; right; injection h with h; exact h.symm

theorem stipendOf_le_callBase (kind : Kind) (mem : Nat) (addr : Addr) (value : Nat) (w : World) :
    stipendOf kind value ≤ callBase kind mem addr value w := by
  have : gStipend ≤ gCallValue := by decide
  unfold stipendOf callBase
  split <;> omega

/-- What the caller keeps plus what the callee is given (stipend included) never exceeds what the caller had. -/
theorem callCharge_le {ctx : Ctx} {kind : Kind} {pre mem : Nat} {addr : Addr} {value gasSpec gas : Nat} {w : World}
    {kept given : Nat} (h : callCharge ctx kind pre mem addr value gasSpec gas w = .ok (kept, given)) :
    kept + given ≤ gas := by
  have hs := stipendOf_le_callBase kind mem addr value w
  unfold callCharge at h
  split at h; · cases h
  split at h; · cases h
  split at h; · cases h
  split at h
  · cases h
  · split at h
    · cases h
    · injection h with h
      injection h with h1 h2
      subst h1 h2
      omega

theorem createGiven_le (is2 : Bool) (g : Nat) : createGiven is2 g ≤ g := by
  unfold createGiven; split <;> omega

theorem createCharge_le {ctx : Ctx} {is2 : Bool} {pre hashCost gas kept given : Nat}
    (h : createCharge ctx is2 pre hashCost gas = .ok (kept, given)) : kept + given ≤ gas := by
  unfold createCharge at h
  split at h; · cases h
  split at h; · cases h
  split at h; · cases h
  injection h with h
  injection h with h1 h2
  subst h1 h2
  have := createGiven_le is2 (gas - pre - (gCreate + hashCost))
  omega

theorem callExit_returned_le (saved : World) (r : Res) : (callExit saved r).returned ≤ r.gas := by
  unfold callExit
  split <;> simp

theorem createExit_returned_le (saved : World) (addr : Addr) (r : Res) : (createExit saved addr r).returned ≤ r.gas := by
  unfold createExit
  split
  · split
    · simp
    · split
      · simp
      · exact Nat.sub_le _ _
  · simp
  · simp
  · simp

theorem enterCall_returned_le (env : Env) (ctx : Ctx) (kind : Kind) (addr : Addr) (value gas : Nat) (w : World)
    (tr : List Ev) (run : Ctx → Nat → World → List Ev → Res)
    (hrun : ∀ c g w tr, (run c g w tr).gas ≤ g) :
    (enterCall env ctx kind addr value gas w tr run).returned ≤ gas := by
  unfold enterCall
  split
  · exact Nat.le_refl _
  · split
    · exact Nat.le_refl _
    · refine Nat.le_trans (callExit_returned_le _ _) ?_
      unfold calleeRes runPrecompile
      split
      · split
        · exact Nat.le_refl _
        · exact Nat.sub_le _ _
      · split
        · exact Nat.le_refl _
        · exact hrun _ _ _ _

theorem enterCreate_returned_le (env : Env) (ctx : Ctx) (addr : Addr) (value gas : Nat) (w : World)
    (tr : List Ev) (run : Ctx → Nat → World → List Ev → Res)
    (hrun : ∀ c g w tr, (run c g w tr).gas ≤ g) :
    (enterCreate env ctx addr value gas w tr run).returned ≤ gas := by
  unfold enterCreate
  split
  · exact Nat.le_refl _
  · split
    · exact Nat.le_refl _
    · split
      · exact Nat.zero_le _
      · exact Nat.le_trans (createExit_returned_le _ _ _) (hrun _ _ _ _)

theorem exec_gas_le (env : Env) (p : Prog) : ∀ (ctx : Ctx) (gas : Nat) (w : World) (tr : List Ev),
    (exec env p ctx gas w tr).gas ≤ gas := by
  induction p with
  | stop pre => intro ctx gas w tr; unfold exec; split <;> gas_close
  | ret pre d => intro ctx gas w tr; unfold exec; split <;> gas_close
  | revert pre d => intro ctx gas w tr; unfold exec; split <;> gas_close
  | invalid pre => intro ctx gas w tr; unfold exec; split <;> gas_close
  | selfdestruct pre ben =>
    intro ctx gas w tr; unfold exec; simp only
    repeat' split
    all_goals gas_close
  | gas n rest ih =>
    intro ctx gas w tr; unfold exec
    split
    · gas_close
    · exact Nat.le_trans (ih _ _ _ _) (Nat.sub_le _ _)
  | sstore pre k v rest ih =>
    intro ctx gas w tr; unfold exec; simp only
    split; · gas_close
    split; · gas_close
    split; · gas_close
    split
    · gas_close
    · split
      · gas_close
      · exact Nat.le_trans (ih _ _ _ _) (by omega)
  | log pre topics rest ih =>
    intro ctx gas w tr; unfold exec; simp only
    split; · gas_close
    split; · gas_close
    split
    · gas_close
    · exact Nat.le_trans (ih _ _ _ _) (by omega)
  | call kind pre mem addr value gasSpec callee rest ihc ihr =>
    intro ctx gas w tr; unfold exec
    split
    · gas_close
    · rename_i kept given hc
      have h1 := callCharge_le hc
      have h2 := enterCall_returned_le env ctx kind addr value given w tr (exec env callee) ihc
      simp only
      split
      · gas_close
      · exact Nat.le_trans (ihr _ _ _ _) (by omega)
  | create pre value init rest ihc ihr =>
    intro ctx gas w tr; unfold exec
    split
    · gas_close
    · rename_i kept given hc
      have h1 := createCharge_le hc
      have h2 := enterCreate_returned_le env ctx (env.createAddr ctx.self (w.nonceOf ctx.self)) value given w tr (exec env init) ihc
      simp only
      split
      · gas_close
      · exact Nat.le_trans (ihr _ _ _ _) (by omega)
  | create2 pre hashCost value salt initHash init rest ihc ihr =>
    intro ctx gas w tr; unfold exec
    split
    · gas_close
    · rename_i kept given hc
      have h1 := createCharge_le hc
      have h2 := enterCreate_returned_le env ctx (env.create2Addr ctx.self salt initHash) value given w tr (exec env init) ihc
      simp only
      split
      · gas_close
      · exact Nat.le_trans (ihr _ _ _ _) (by omega)

end YouVerif.C16
