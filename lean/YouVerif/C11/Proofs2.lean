/-
C11 — invariant lemmas: data writes keep a consistent chain consistent; the atomic batch of a head-extending
WriteBlockWithState moves a consistent chain to a consistent chain; restart on a consistent database.
-/
import YouVerif.C11.Spec
import YouVerif.C11.Proofs
namespace YouVerif.C11

theorem upd_same {β : Type} (f : Nat → β) (k : Nat) (v : β) : upd f k v k = v := by simp [upd]
theorem upd_other {β : Type} (f : Nat → β) (k x : Nat) (v : β) (h : x ≠ k) : upd f k v x = f x := by simp [upd, h]
theorem upd_true_mono (f : Nat → Bool) (k x : Nat) (h : f x = true) : upd f k true x = true := by
  unfold upd; split <;> simp_all

-- ---- data writes -----------------------------------------------------------------------------------------------

theorem stored_apply_data (db : DB) (w : Wr) (hw : DataWrite w) (id : Nat) (h : Stored db id) : Stored (db.apply w) id := by
  obtain ⟨h1, h2, h3⟩ := h
  cases w <;> simp only [DataWrite] at hw <;> simp only [DB.apply] <;>
    first
    | exact ⟨upd_true_mono _ _ _ h1, h2, h3⟩
    | exact ⟨h1, upd_true_mono _ _ _ h2, h3⟩
    | exact ⟨h1, h2, upd_true_mono _ _ _ h3⟩
    | exact ⟨h1, h2, h3⟩

theorem hasBlk_apply_data (db : DB) (w : Wr) (hw : DataWrite w) (id : Nat) (h : HasBlk db id) : HasBlk (db.apply w) id := by
  obtain ⟨h1, h2⟩ := h
  cases w <;> simp only [DataWrite] at hw <;> simp only [DB.apply] <;>
    first
    | exact ⟨upd_true_mono _ _ _ h1, h2⟩
    | exact ⟨h1, upd_true_mono _ _ _ h2⟩
    | exact ⟨h1, h2⟩

theorem data_fields (db : DB) (w : Wr) (hw : DataWrite w) :
    (db.apply w).canon = db.canon ∧ (db.apply w).look = db.look ∧ (db.apply w).headBlk = db.headBlk ∧
    (∀ r, db.st r = true → (db.apply w).st r = true) := by
  cases w <;> simp only [DataWrite] at hw <;> refine ⟨rfl, rfl, rfl, ?_⟩ <;> intro r h <;>
    first
    | exact upd_true_mono _ _ _ h
    | exact h

theorem consistent_apply_data (W : World) (db : DB) (w : Wr) (hw : DataWrite w) (head : Nat)
    (h : Consistent W db head) : Consistent W (db.apply w) head := by
  obtain ⟨hc, hl, _, hs⟩ := data_fields db w hw
  refine ⟨⟨stored_apply_data db w hw _ h.index.headStored, by rw [hc]; exact h.index.canonHead, ?_, by rw [hc]; exact h.index.genesis⟩,
    hs _ h.state, ?_⟩
  · intro n hn
    obtain ⟨x, h1, h2, h3, h4⟩ := h.index.chain n hn
    exact ⟨x, by rw [hc]; exact h1, hasBlk_apply_data db w hw _ h2, h3, by rw [hc]; exact h4⟩
  · intro t x n i ht
    rw [hl] at ht
    rw [hc]
    exact h.lookups t x n i ht

theorem dbinv_apply_data (W : World) (db : DB) (w : Wr) (hw : DataWrite w) (h : DBInv W db) : DBInv W (db.apply w) := by
  obtain ⟨head, hh, hc⟩ := h
  exact ⟨head, by rw [(data_fields db w hw).2.2.1]; exact hh, consistent_apply_data W db w hw head hc⟩

theorem dbinv_applyAll_data (W : World) : ∀ (ws : List Wr) (db : DB), (∀ w ∈ ws, DataWrite w) → DBInv W db → DBInv W (db.applyAll ws) := by
  intro ws
  induction ws with
  | nil => intro db _ h; exact h
  | cons w rest ih =>
    intro db hall h
    have : DBInv W (db.apply w) := dbinv_apply_data W db w (hall w (by simp)) h
    simpa [DB.applyAll] using ih (db.apply w) (fun x hx => hall x (by simp [hx])) this

theorem consistent_applyAll_data (W : World) (head : Nat) : ∀ (ws : List Wr) (db : DB), (∀ w ∈ ws, DataWrite w) →
    Consistent W db head → Consistent W (db.applyAll ws) head ∧ (db.applyAll ws).headBlk = db.headBlk := by
  intro ws
  induction ws with
  | nil => intro db _ h; exact ⟨h, rfl⟩
  | cons w rest ih =>
    intro db hall h
    have h1 := consistent_apply_data W db w (hall w (by simp)) head h
    have h2 := ih (db.apply w) (fun x hx => hall x (by simp [hx])) h1
    refine ⟨by simpa [DB.applyAll] using h2.1, ?_⟩
    have := h2.2
    simp only [DB.applyAll, List.foldl] at *
    rw [this, (data_fields db w (hall w (by simp))).2.2.1]

-- ---- batches -------------------------------------------------------------------------------------------------------

theorem applyOps_append (db : DB) (a b : List BOp) : db.applyOps (a ++ b) = (db.applyOps a).applyOps b := by
  simp [DB.applyOps, List.foldl_append]

/-- batch operations never touch block data or state -/
theorem applyOps_data (ops : List BOp) : ∀ (db : DB), (db.applyOps ops).body = db.body ∧ (db.applyOps ops).hdr = db.hdr ∧
    (db.applyOps ops).hnum = db.hnum ∧ (db.applyOps ops).st = db.st := by
  induction ops with
  | nil => intro db; exact ⟨rfl, rfl, rfl, rfl⟩
  | cons op rest ih =>
    intro db
    have := ih (db.applyOp op)
    simp only [DB.applyOps, List.foldl] at *
    cases op <;> simpa [DB.applyOp] using this

/-- lookup-only operation lists (what `lookOps` produces for block `id`) -/
def LookOpsFor (W : World) (id : Nat) (ops : List BOp) : Prop :=
  ∀ op ∈ ops, ∃ tx i, op = BOp.look tx id (W.blk id).num i ∧ (W.blk id).txs[i]? = some tx

theorem lookOps_for (W : World) (id : Nat) : LookOpsFor W id (lookOps W id) := by
  intro op hop
  unfold lookOps at hop
  simp only [List.mem_filterMap, List.mem_range] at hop
  obtain ⟨i, _, hi⟩ := hop
  cases hx : (W.blk id).txs[i]? with
  | none => simp [hx] at hi
  | some tx =>
    simp only [hx, Option.some.injEq] at hi
    exact ⟨tx, i, hi.symm, hx⟩

theorem applyOps_lookOpsFor (W : World) (id : Nat) (ops : List BOp) (hops : LookOpsFor W id ops) : ∀ (db : DB),
    (db.applyOps ops).canon = db.canon ∧ (db.applyOps ops).headBlk = db.headBlk ∧
    (∀ t e, (db.applyOps ops).look t = some e → db.look t = some e ∨
        (e.1 = id ∧ e.2.1 = (W.blk id).num ∧ (W.blk id).txs[e.2.2]? = some t)) := by
  induction ops with
  | nil => intro db; exact ⟨rfl, rfl, fun t e h => Or.inl h⟩
  | cons op rest ih =>
    intro db
    obtain ⟨tx, i, hop, htx⟩ := hops op (by simp)
    have ih' := ih (fun o ho => hops o (by simp [ho])) (db.applyOp op)
    subst hop
    simp only [DB.applyOps, List.foldl] at *
    refine ⟨ih'.1, ih'.2.1, ?_⟩
    intro t e he
    rcases ih'.2.2 t e he with h | h
    · simp only [DB.applyOp, upd] at h
      split at h
      · right
        cases h
        subst_vars
        exact ⟨rfl, rfl, htx⟩
      · exact Or.inl h
    · exact Or.inr h

/-- WriteBlockWithState of a block that extends the head: the model's database after it -/
theorem wbs_extend_db (W : World) (nd : Node) (id : Nat) (hp : (W.blk id).parent = nd.cur) :
    ∃ ops, LookOpsFor W id ops ∧
      (writeBlockWithState W nd id).nd.db =
        (((nd.db.applyAll (blockWrites id ++ [Wr.state (W.blk id).root])).applyOps ops).applyOps (headOps W id)) ∧
      (writeBlockWithState W nd id).nd.cur = id ∧
      (writeBlockWithState W nd id).ws =
        blockWrites id ++ [Wr.state (W.blk id).root] ++
          [Wr.batch ((if (W.blk id).txs.isEmpty then [] else [BOp.rcpt id]) ++ lookOps W id ++ headOps W id)] := by
  refine ⟨lookOps W id, lookOps_for W id, ?_, ?_, ?_⟩
  · unfold writeBlockWithState
    simp only [hp, if_true]
    simp only [write_db, DB.applyAll, List.foldl, DB.apply]
    rw [applyOps_append, applyOps_append]
    congr 2
    split <;> simp [DB.applyOps, DB.applyOp]
  · unfold writeBlockWithState
    simp [hp]
  · unfold writeBlockWithState
    simp [hp]

/-- a head-extending, state-committed block import moves a consistent chain to a consistent chain -/
theorem wbs_extend_consistent (W : World) (nd : Node) (id : Nat)
    (hp : (W.blk id).parent = nd.cur) (hn : (W.blk id).num = (W.blk nd.cur).num + 1)
    (h : Consistent W nd.db nd.cur) :
    Consistent W (writeBlockWithState W nd id).nd.db id ∧ (writeBlockWithState W nd id).nd.db.headBlk = some id := by
  obtain ⟨ops, hops, hdb, _, _⟩ := wbs_extend_db W nd id hp
  rw [hdb]
  -- stage 1: data writes
  have hdata : ∀ w ∈ blockWrites id ++ [Wr.state (W.blk id).root], DataWrite w := by
    intro w hw; simp [blockWrites] at hw; rcases hw with h | h | h | h <;> subst h <;> simp [DataWrite]
  obtain ⟨h1, _⟩ := consistent_applyAll_data W nd.cur _ nd.db hdata h
  generalize hd1 : nd.db.applyAll (blockWrites id ++ [Wr.state (W.blk id).root]) = db1 at *
  have hst1 : Stored db1 id ∧ db1.st (W.blk id).root = true := by
    subst hd1
    simp [DB.applyAll, blockWrites, DB.apply, Stored, upd]
  -- stage 2: lookups of the block
  obtain ⟨hc2, _, hl2⟩ := applyOps_lookOpsFor W id ops hops db1
  obtain ⟨hb2, hh2, hn2, hs2⟩ := applyOps_data ops db1
  generalize hd2 : db1.applyOps ops = db2 at *
  -- stage 3: head markers
  have hfin : ((db2.applyOps (headOps W id)).canon = upd db2.canon (W.blk id).num (some id)) ∧
      (db2.applyOps (headOps W id)).look = db2.look ∧ (db2.applyOps (headOps W id)).headBlk = some id := by
    simp [headOps, DB.applyOps, DB.applyOp]
  obtain ⟨hb3, hh3, hn3, hs3⟩ := applyOps_data (headOps W id) db2
  generalize hd3 : db2.applyOps (headOps W id) = db3 at *
  obtain ⟨hc3, hl3, hk3⟩ := hfin
  have hstored : ∀ x, Stored db1 x → Stored db3 x := by
    intro x hx; unfold Stored at *; rw [hb3, hh3, hn3, hb2, hh2, hn2]; exact hx
  have hhasblk : ∀ x, HasBlk db1 x → HasBlk db3 x := by
    intro x hx; unfold HasBlk at *; rw [hb3, hh3, hb2, hh2]; exact hx
  have hnum_pos : 0 < (W.blk id).num := by omega
  refine ⟨⟨⟨hstored _ hst1.1, by rw [hc3, upd_same], ?_, ?_⟩, by rw [hs3, hs2]; exact hst1.2, ?_⟩, hk3⟩
  · intro n hnle
    by_cases hnn : n = (W.blk id).num
    · refine ⟨id, by rw [hc3, hnn, upd_same], (hstored _ hst1.1).hasBlk, hnn.symm, ?_⟩
      intro _
      rw [hc3, upd_other _ _ _ _ (by omega), hc2, hnn, hn, hp]
      simpa using h1.index.canonHead
    · have hle : n ≤ (W.blk nd.cur).num := by omega
      obtain ⟨x, hx1, hx2, hx3, hx4⟩ := h1.index.chain n hle
      refine ⟨x, by rw [hc3, upd_other _ _ _ _ hnn, hc2]; exact hx1, hhasblk _ hx2, hx3, ?_⟩
      intro hpos
      rw [hc3, upd_other _ _ _ _ (by omega), hc2]
      exact hx4 hpos
  · rw [hc3, upd_other _ _ _ _ (by omega), hc2]
    exact h1.index.genesis
  · intro t x n i ht
    rw [hl3] at ht
    rcases hl2 t (x, n, i) ht with hold | ⟨e1, e2, e3⟩
    · obtain ⟨a, b, c⟩ := h1.lookups t x n i hold
      refine ⟨by omega, ?_, c⟩
      rw [hc3, upd_other _ _ _ _ (by omega), hc2]; exact b
    · simp only at e1 e2 e3
      subst e1 e2
      exact ⟨Nat.le_refl _, by rw [hc3, upd_same], e3⟩

-- ---- restart -------------------------------------------------------------------------------------------------------

theorem repair_of_state (W : World) (db : DB) (fuel id : Nat) (h : db.st (W.blk id).root = true) :
    repair W db (fuel + 1) id = some id := by
  simp [repair, h]

end YouVerif.C11
