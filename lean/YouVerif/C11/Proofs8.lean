/-
C11 — not wedged: a single block imported on the direct path (head extension or reorganisation).  After a crash at any
prefix of its write list, restart + re-import gives exactly the database and head of the node that never crashed.
-/
import YouVerif.C11.Proofs7
namespace YouVerif.C11

theorem upd_idem {β : Type} (f : Nat → β) (k : Nat) (v : β) : upd (upd f k v) k v = upd f k v := by
  funext x; simp only [upd]; split <;> rfl

theorem db_headHdr_self (db : DB) (x : Option Nat) (h : db.headHdr = x) : { db with headHdr := x } = db := by
  cases db; simp_all

/-- the database with another head-header marker -/
def setHH (db : DB) (y : Option Nat) : DB := { db with headHdr := y }

-- ---- head-header marker is absorbed by a batch that ends with the head markers ------------------------------------

theorem applyOp_with_headHdr (db : DB) (y : Option Nat) (op : BOp) :
    ∃ z, ({ db with headHdr := y } : DB).applyOp op = { (db.applyOp op) with headHdr := z } := by
  cases op <;> first | exact ⟨y, rfl⟩ | exact ⟨_, rfl⟩

theorem applyOps_with_headHdr : ∀ (F : List BOp) (db : DB) (y : Option Nat),
    ∃ z, ({ db with headHdr := y } : DB).applyOps F = { (db.applyOps F) with headHdr := z } := by
  intro F
  induction F with
  | nil => intro db y; exact ⟨y, rfl⟩
  | cons op rest ih =>
    intro db y
    obtain ⟨z, hz⟩ := applyOp_with_headHdr db y op
    obtain ⟨z', hz'⟩ := ih (db.applyOp op) z
    exact ⟨z', by rw [applyOps_cons, hz, hz', applyOps_cons]⟩

theorem applyOps_headHdr_absorb (W : World) (id : Nat) (F : List BOp) (db : DB) (y : Option Nat) :
    (setHH db y).applyOps (F ++ headOps W id) = db.applyOps (F ++ headOps W id) := by
  unfold setHH
  rw [applyOps_append, applyOps_append]
  obtain ⟨z, hz⟩ := applyOps_with_headHdr F db y
  rw [hz]
  simp [headOps, DB.applyOps, DB.applyOp]

-- ---- reorg reads only headers and bodies ----------------------------------------------------------------------------

theorem walkDown_congr (W : World) (db db' : DB) (h : ∀ p n, getBlock W db' p n = getBlock W db p n) :
    ∀ fuel x n, walkDown W db' fuel x n = walkDown W db fuel x n := by
  intro fuel
  induction fuel with
  | zero => intro x n; simp [walkDown]
  | succ f ih => intro x n; simp [walkDown, h, ih]

theorem meet_congr (W : World) (db db' : DB) (h : ∀ p n, getBlock W db' p n = getBlock W db p n) :
    ∀ fuel o n, meet W db' fuel o n = meet W db fuel o n := by
  intro fuel
  induction fuel with
  | zero => intro o n; simp [meet]
  | succ f ih => intro o n; simp [meet, h, ih]

theorem reorgChains_congr (W : World) (db db' : DB) (h : ∀ p n, getBlock W db' p n = getBlock W db p n) (o n : Nat) :
    reorgChains W db' o n = reorgChains W db o n := by
  simp [reorgChains, walkDown_congr W db db' h, meet_congr W db db' h]

/-- WriteBlockWithState from two nodes with the same head whose databases agree, after the block data and state are
    written, up to the head-header marker: same resulting database and verdict -/
theorem wbs_congr (W : World) (n1 n2 : Node) (id : Nat) (y : Option Nat) (hc : n2.cur = n1.cur)
    (hdb : n2.db.applyAll (blockWrites id ++ [Wr.state (W.blk id).root]) =
           setHH (n1.db.applyAll (blockWrites id ++ [Wr.state (W.blk id).root])) y)
    (hok : (writeBlockWithState W n1 id).ok = true) :
    (writeBlockWithState W n2 id).nd.db = (writeBlockWithState W n1 id).nd.db ∧
    (writeBlockWithState W n2 id).nd.cur = (writeBlockWithState W n1 id).nd.cur ∧
    (writeBlockWithState W n2 id).ok = true := by
  have hget : ∀ p n, getBlock W (n2.db.applyAll (blockWrites id ++ [Wr.state (W.blk id).root])) p n =
      getBlock W (n1.db.applyAll (blockWrites id ++ [Wr.state (W.blk id).root])) p n := by
    intro p n; rw [hdb]; rfl
  unfold writeBlockWithState at hok ⊢
  simp only [write_db, hc] at hok ⊢
  by_cases hp : (W.blk id).parent = n1.cur
  · simp only [hp, if_true]
    rw [hdb]
    simp only [DB.applyAll, List.foldl, DB.apply]
    rw [applyOps_headHdr_absorb]
    simp
  · simp only [hp, if_false] at hok ⊢
    rw [reorgChains_congr W _ _ hget]
    cases hr : reorgChains W (n1.db.applyAll (blockWrites id ++ [Wr.state (W.blk id).root])) n1.cur id with
    | none => simp [hr] at hok
    | some p =>
      obtain ⟨oc, nc⟩ := p
      simp only []
      rw [hdb]
      simp only [DB.applyAll, List.foldl, DB.apply]
      rw [applyOps_headHdr_absorb]
      simp

-- ---- the direct path of a single-block import ----------------------------------------------------------------------------

/-- the facts under which InsertChain [id] takes the direct path: pre-check, header verdict, body verdict, version
    look-up, execution, and a successful WriteBlockWithState -/
structure Direct (W : World) (nd : Node) (id : Nat) : Prop where
  num0 : (W.blk id).num ≠ 0
  pre : (canonHdr W nd.db ((W.blk id).num - 1)).isSome = true
  verdict : engineVerdict W nd.db id none id = .ok
  body : validateBody W nd.db id = .ok
  version : versionOK W nd.db (W.blk id).num = true
  exec : (W.blk id).execOK = true
  wbsOk : (writeBlockWithState W nd id).ok = true

theorem insertChain_direct (W : World) (nd : Node) (id : Nat) (h : Direct W nd id) :
    insertChain W nd [id] = { nd := (writeBlockWithState W nd id).nd, ws := (writeBlockWithState W nd id).ws, ok := true } := by
  obtain ⟨_, hnz, hps⟩ := validateBody_ok W nd.db id h.body
  simp only [hasBlockAndState, Bool.and_eq_true] at hps
  have hpb : processBlock W nd none id = some (writeBlockWithState W nd id) := by
    simp [processBlock, hnz, hps.1, h.version, hps.2, h.exec]
  have hpre' : canonHdr W nd.db ((W.blk id).num - 1) ≠ none := by
    intro e; have := h.pre; rw [e] at this; simp at this
  simp [insertChain, contiguous, h.num0, hpre', insertChainV, verdicts, insertLoop, h.verdict, h.body, hpb, h.wbsOk]

/-- re-offering the head block is a no-op -/
theorem insertChain_known (W : World) (nd : Node) (id : Nat) (hnum0 : (W.blk id).num ≠ 0)
    (hpre : (canonHdr W nd.db ((W.blk id).num - 1)).isSome = true)
    (hv : engineVerdict W nd.db id none id = .ok) (hb : validateBody W nd.db id = .known) :
    (insertChain W nd [id]).nd = nd := by
  have hpre' : canonHdr W nd.db ((W.blk id).num - 1) ≠ none := by
    intro e; rw [e] at hpre; simp at hpre
  simp [insertChain, contiguous, hnum0, hpre', insertChainV, verdicts, insertLoop, hv, hb]

-- ---- databases that differ from `db` only by data of `id` and the head-header marker -------------------------------------

/-- `db'` extends `db` by some of the block data / state of `id` and any head-header marker -/
structure Ext (W : World) (id : Nat) (db db' : DB) : Prop where
  canon : db'.canon = db.canon
  hdr : ∀ x, x ≠ id → db'.hdr x = db.hdr x
  body : ∀ x, x ≠ id → db'.body x = db.body x
  st : ∀ r, db.st r = true → db'.st r = true

theorem ext_hasHeader (W : World) (id : Nat) (db db' : DB) (e : Ext W id db db') (x n : Nat) (hx : x ≠ id) :
    hasHeader W db' x n = hasHeader W db x n := by simp [hasHeader, e.hdr x hx]

theorem ext_getBlock (W : World) (id : Nat) (db db' : DB) (e : Ext W id db db') (x n : Nat) (hx : x ≠ id) :
    getBlock W db' x n = getBlock W db x n := by simp [getBlock, hasHeader, hasBody, e.hdr x hx, e.body x hx]

theorem ext_canonHdr (W : World) (id : Nat) (db db' : DB) (e : Ext W id db db') (hfresh : ∀ n, db.canon n ≠ some id) (n : Nat) :
    canonHdr W db' n = canonHdr W db n := by
  unfold canonHdr
  rw [e.canon]
  cases hc : db.canon n with
  | none => rfl
  | some h =>
    have : h ≠ id := by intro eq; exact hfresh n (by rw [hc, eq])
    simp [ext_hasHeader W id db db' e h n this]

theorem direct_ext (W : World) (nd nd' : Node) (id : Nat) (h : Direct W nd id) (hc : nd'.cur = nd.cur)
    (e : Ext W id nd.db nd'.db) (hfresh : ∀ n, nd.db.canon n ≠ some id)
    (hw : (writeBlockWithState W nd' id).ok = true) : Direct W nd' id := by
  obtain ⟨htx, hnz, hps⟩ := validateBody_ok W nd.db id h.body
  have hnumP := validateBody_num W nd.db id h.body
  have hpne : (W.blk id).parent ≠ id := by intro eq; rw [eq] at hnumP; omega
  simp only [hasBlockAndState, Bool.and_eq_true] at hps
  have hcan := ext_canonHdr W id nd.db nd'.db e hfresh
  refine ⟨h.num0, by rw [hcan]; exact h.pre, ?_, ?_, by simpa [versionOK, hcan] using h.version, h.exec, hw⟩
  · have := h.verdict
    unfold engineVerdict at this ⊢
    simp only [hcan, ext_hasHeader W id nd.db nd'.db e _ _ hpne]
    exact this
  · have hnk : ¬ (canonHdr W nd.db (W.blk id).num = some id) := by
      intro hk
      unfold canonHdr at hk
      cases hcn : nd.db.canon (W.blk id).num with
      | none => simp [hcn] at hk
      | some x =>
        simp only [hcn] at hk
        split at hk
        · exact hfresh _ (by rw [hcn]; exact hk)
        · cases hk
    unfold validateBody
    simp only [hcan, hasBlockAndState, ext_getBlock W id nd.db nd'.db e _ _ hpne, hps.1, e.st _ hps.2, htx, hnz]
    simp [hnk]

-- ---- the crashed databases ----------------------------------------------------------------------------------------------------

theorem prefix_cases (id r : Nat) (k : Nat) (hk : k ≤ 4) :
    (blockWrites id ++ [Wr.state r]).take k = [] ∨ (blockWrites id ++ [Wr.state r]).take k = [Wr.body id] ∨
    (blockWrites id ++ [Wr.state r]).take k = [Wr.body id, Wr.hnum id] ∨
    (blockWrites id ++ [Wr.state r]).take k = [Wr.body id, Wr.hnum id, Wr.hdr id] ∨
    (blockWrites id ++ [Wr.state r]).take k = [Wr.body id, Wr.hnum id, Wr.hdr id, Wr.state r] := by
  have : k = 0 ∨ k = 1 ∨ k = 2 ∨ k = 3 ∨ k = 4 := by omega
  rcases this with rfl | rfl | rfl | rfl | rfl <;> simp [blockWrites]

/-- a crash inside the data writes, then restart's head-header write: an extension of the start database that the block
    data and state writes complete to the uncrashed intermediate database (up to the marker) -/
theorem crashed_ext (W : World) (db : DB) (id cur : Nat) (k : Nat) (hk : k ≤ 4) :
    let db' := (db.applyAll ((blockWrites id ++ [Wr.state (W.blk id).root]).take k)).applyAll [Wr.headHdr cur]
    Ext W id db db' ∧
    db'.applyAll (blockWrites id ++ [Wr.state (W.blk id).root]) =
      setHH (db.applyAll (blockWrites id ++ [Wr.state (W.blk id).root])) (some cur) := by
  intro db'
  have hcases := prefix_cases id (W.blk id).root k hk
  refine ⟨?_, ?_⟩
  · rcases hcases with h | h | h | h | h <;>
    · simp only [db', h]
      constructor
      · simp [DB.applyAll, DB.apply]
      · intro x hx; simp [DB.applyAll, DB.apply, upd, hx]
      · intro x hx; simp [DB.applyAll, DB.apply, upd, hx]
      · intro r hr; simp [DB.applyAll, DB.apply, upd, hr]
  · rcases hcases with h | h | h | h | h <;>
    · simp only [db', h]
      simp [DB.applyAll, DB.apply, blockWrites, upd_idem, setHH]

end YouVerif.C11
