/-
C11 — reachable nodes; validity of the canonical chain under the no-shared-roots side condition.
-/
import YouVerif.C11.Proofs6
namespace YouVerif.C11

/-- writes of block data only (no state) -/
def BlkWrite : Wr → Prop
  | .body _ => True
  | .hnum _ => True
  | .hdr _ => True
  | _ => False

theorem blkWrite_data (w : Wr) (h : BlkWrite w) : DataWrite w := by cases w <;> simp_all [BlkWrite, DataWrite]

theorem blkWrite_st (db : DB) (w : Wr) (h : BlkWrite w) : (db.apply w).st = db.st := by
  cases w <;> simp_all [BlkWrite, DB.apply]

theorem blockWrites_blk (id : Nat) : ∀ w ∈ blockWrites id, BlkWrite w := by
  intro w hw; simp [blockWrites] at hw; rcases hw with h | h | h <;> subst h <;> simp [BlkWrite]

theorem sideWrites_blk (W : World) : ∀ (ch : List Nat) (db : DB), ∀ w ∈ sideWrites W db ch, BlkWrite w := by
  intro ch
  induction ch with
  | nil => intro db w hw; cases hw
  | cons id rest ih =>
    intro db w hw
    simp only [sideWrites] at hw
    split at hw
    · rcases List.mem_append.1 hw with h | h
      · exact blockWrites_blk id w h
      · exact ih _ w h
    · exact ih _ w hw

theorem applyAll_st_blk : ∀ (ws : List Wr) (db : DB), (∀ w ∈ ws, BlkWrite w) → (db.applyAll ws).st = db.st := by
  intro ws
  induction ws with
  | nil => intro db _; rfl
  | cons w rest ih =>
    intro db h
    have := ih (db.apply w) (fun x hx => h x (by simp [hx]))
    simp only [DB.applyAll, List.foldl] at *
    rw [this, blkWrite_st db w (h w (by simp))]

theorem trusted_of_st_eq (W : World) (db db' : DB) (h : db'.st = db.st) (hk : TrustedStates W db) : TrustedStates W db' := by
  intro x hx hs; rw [h] at hs ⊢; exact hk x hx hs

theorem trusted_state_write (W : World) (hinj : RootsInjective W) (db : DB) (id : Nat) (hk : TrustedStates W db)
    (hv : VB W id) (hp : db.st (W.blk (W.blk id).parent).root = true) :
    TrustedStates W (db.apply (Wr.state (W.blk id).root)) := by
  intro x hx hs
  simp only [DB.apply] at hs ⊢
  by_cases e : (W.blk x).root = (W.blk id).root
  · have := hinj x id e; subst this
    exact ⟨hv, upd_true_mono _ _ _ hp⟩
  · rw [upd_other _ _ _ _ e] at hs
    obtain ⟨a, b⟩ := hk x hx hs
    exact ⟨a, upd_true_mono _ _ _ b⟩

theorem batch_st (db : DB) (w : Wr) (h : ∃ ops, w = Wr.batch ops) : (db.apply w).st = db.st := by
  obtain ⟨ops, rfl⟩ := h
  exact (applyOps_data ops db).2.2.2

/-- processBlock either changes nothing or is WriteBlockWithState of an executed block on an available parent state -/
theorem processBlock_cases' (W : World) (nd : Node) (prev : Option Nat) (id : Nat) (r : Res)
    (h : processBlock W nd prev id = some r) : (r.nd = nd ∧ r.ws = []) ∨
      (r = writeBlockWithState W nd id ∧ (W.blk id).execOK = true ∧ nd.db.st (W.blk (W.blk id).parent).root = true) := by
  unfold processBlock at h
  simp only [] at h
  repeat' split at h
  all_goals (cases h <;> first | exact Or.inl ⟨rfl, rfl⟩ | (right; simp_all))

theorem wbs_tail (W : World) (nd : Node) (id : Nat) :
    ∃ tail, (writeBlockWithState W nd id).ws = (blockWrites id ++ [Wr.state (W.blk id).root]) ++ tail ∧
      (tail = [] ∨ ∃ ops, tail = [Wr.batch ops]) := by
  unfold writeBlockWithState
  simp only []
  split
  · exact ⟨_, rfl, Or.inr ⟨_, rfl⟩⟩
  · split
    · exact ⟨[], by simp, Or.inl rfl⟩
    · exact ⟨_, rfl, Or.inr ⟨_, rfl⟩⟩

/-- node and database predicates of the validity argument -/
def PV (W : World) (nd : Node) : Prop := NodeInv W nd ∧ TrustedStates W nd.db
def QV (W : World) (db : DB) : Prop := DBInv W db ∧ TrustedStates W db

theorem qv_blk (W : World) (db : DB) (w : Wr) (h : QV W db) (hw : BlkWrite w) : QV W (db.apply w) :=
  ⟨dbinv_apply_data W db w (blkWrite_data w hw) h.1, trusted_of_st_eq W db _ (blkWrite_st db w hw) h.2⟩

theorem stepOK_valid (W : World) (hinj : RootsInjective W) : StepOK W (PV W) (QV W) where
  qinv := fun nd h => ⟨nodeInv_dbInv W nd h.1, h.2⟩
  fut := fun _ _ h => h
  side := by
    intro nd ch h
    refine ⟨(stepOK_nodeInv W).side nd ch h.1, trusted_of_st_eq W nd.db _ ?_ h.2⟩
    exact applyAll_st_blk _ nd.db (sideWrites_blk W ch nd.db)
  qside := fun nd ch h => safeQ_pres (QV W) BlkWrite (fun db w hq hw => qv_blk W db w hq hw) _ nd.db
    (sideWrites_blk W ch nd.db) ⟨nodeInv_dbInv W nd h.1, h.2⟩
  proc := by
    intro nd prev id r h hv hp
    refine ⟨processBlock_nodeInv W nd prev id r h.1 hv hp, ?_⟩
    rcases processBlock_cases' W nd prev id r hp with ⟨e, _⟩ | ⟨e, hex, hps⟩
    · rw [e]; exact h.2
    · subst e
      have hsound : (writeBlockWithState W nd id).nd.db = nd.db.applyAll (writeBlockWithState W nd id).ws := wbs_sound W nd id
      obtain ⟨tail, e, ht⟩ := wbs_tail W nd id
      have hk1 : TrustedStates W (nd.db.applyAll (blockWrites id ++ [Wr.state (W.blk id).root])) := by
        rw [applyAll_append]
        have h0 : TrustedStates W (nd.db.applyAll (blockWrites id)) :=
          trusted_of_st_eq W nd.db _ (applyAll_st_blk _ nd.db (blockWrites_blk id)) h.2
        have hps' : (nd.db.applyAll (blockWrites id)).st (W.blk (W.blk id).parent).root = true := by
          rw [applyAll_st_blk _ nd.db (blockWrites_blk id)]; exact hps
        exact trusted_state_write W hinj _ id h0 ⟨(validateBody_ok W nd.db id hv).1, hex⟩ hps'
      rw [hsound, e, applyAll_append]
      rcases ht with rfl | ⟨ops, rfl⟩
      · simpa using hk1
      · exact trusted_of_st_eq W _ _ (by simpa [DB.applyAll] using batch_st _ (Wr.batch ops) ⟨ops, rfl⟩) hk1
  qproc := by
    intro nd prev id r h hv hp
    have hPr : TrustedStates W r.nd.db ∧ NodeInv W r.nd := by
      -- same argument as `proc`; obtained from it through the structure being built is not possible, so repeat briefly
      refine ⟨?_, processBlock_nodeInv W nd prev id r h.1 hv hp⟩
      rcases processBlock_cases' W nd prev id r hp with ⟨e, _⟩ | ⟨e, hex, hps⟩
      · rw [e]; exact h.2
      · subst e
        have hsound : (writeBlockWithState W nd id).nd.db = nd.db.applyAll (writeBlockWithState W nd id).ws := wbs_sound W nd id
        obtain ⟨tail, e, ht⟩ := wbs_tail W nd id
        have hk1 : TrustedStates W (nd.db.applyAll (blockWrites id ++ [Wr.state (W.blk id).root])) := by
          rw [applyAll_append]
          have h0 : TrustedStates W (nd.db.applyAll (blockWrites id)) :=
            trusted_of_st_eq W nd.db _ (applyAll_st_blk _ nd.db (blockWrites_blk id)) h.2
          have hps' : (nd.db.applyAll (blockWrites id)).st (W.blk (W.blk id).parent).root = true := by
            rw [applyAll_st_blk _ nd.db (blockWrites_blk id)]; exact hps
          exact trusted_state_write W hinj _ id h0 ⟨(validateBody_ok W nd.db id hv).1, hex⟩ hps'
        rw [hsound, e, applyAll_append]
        rcases ht with rfl | ⟨ops, rfl⟩
        · simpa using hk1
        · exact trusted_of_st_eq W _ _ (by simpa [DB.applyAll] using batch_st _ (Wr.batch ops) ⟨ops, rfl⟩) hk1
    have hQ0 : QV W nd.db := ⟨nodeInv_dbInv W nd h.1, h.2⟩
    rcases processBlock_cases' W nd prev id r hp with ⟨_, e⟩ | ⟨e, hex, hps⟩
    · rw [e]; exact safeQ_nil (QV W) nd.db hQ0
    · subst e
      have hsound : (writeBlockWithState W nd id).nd.db = nd.db.applyAll (writeBlockWithState W nd id).ws := wbs_sound W nd id
      obtain ⟨tail, e, ht⟩ := wbs_tail W nd id
      rw [e] at hsound ⊢
      -- block data
      have s1 : SafeQ (QV W) nd.db (blockWrites id) :=
        safeQ_pres (QV W) BlkWrite (fun db w hq hw => qv_blk W db w hq hw) _ nd.db (blockWrites_blk id) hQ0
      have hQ1 : QV W (nd.db.applyAll (blockWrites id)) := by
        have := s1 (blockWrites id).length; simpa using this
      -- the state commit
      have hQ2 : QV W ((nd.db.applyAll (blockWrites id)).apply (Wr.state (W.blk id).root)) := by
        refine ⟨dbinv_apply_data W _ _ (by simp [DataWrite]) hQ1.1, ?_⟩
        have hps' : (nd.db.applyAll (blockWrites id)).st (W.blk (W.blk id).parent).root = true := by
          rw [applyAll_st_blk _ nd.db (blockWrites_blk id)]; exact hps
        exact trusted_state_write W hinj _ id hQ1.2 ⟨(validateBody_ok W nd.db id hv).1, hex⟩ hps'
      have s2 : SafeQ (QV W) (nd.db.applyAll (blockWrites id)) [Wr.state (W.blk id).root] :=
        safeQ_single (QV W) _ _ hQ1 hQ2
      have s12 := safeQ_append (QV W) nd.db _ _ s1 s2
      apply safeQ_append (QV W) nd.db _ _ s12
      rcases ht with rfl | ⟨ops, rfl⟩
      · apply safeQ_nil
        rw [applyAll_append]; simpa [DB.applyAll] using hQ2
      · apply safeQ_single
        · rw [applyAll_append]; simpa [DB.applyAll] using hQ2
        · have : (nd.db.applyAll (blockWrites id ++ [Wr.state (W.blk id).root])).apply (Wr.batch ops) =
              (writeBlockWithState W nd id).nd.db := by rw [hsound, applyAll_append]; rfl
          rw [this]
          exact ⟨nodeInv_dbInv W _ hPr.2, hPr.1⟩

theorem trusted_genesis (W : World) (hinj : RootsInjective W) : TrustedStates W (DB.genesis W) := by
  intro x hx hs
  simp only [DB.genesis, beq_iff_eq] at hs
  exact absurd (hinj x genesisId hs) hx

/-- every reachable node satisfies the node invariant -/
theorem reach_nodeInv (W : World) (hg : (W.blk genesisId).num = 0) : ∀ nd, Reach W nd → NodeInv W nd := by
  intro nd h
  induction h with
  | genesis => exact genesis_consistent' W hg
  | insert nd chain _ ih => exact (insertChain_good W _ _ (stepOK_nodeInv W) nd chain ih).1
  | restart nd k chain r _ hr ih =>
    obtain ⟨head, hh, hc⟩ := (insertChain_good W _ _ (stepOK_nodeInv W) nd chain ih).2.2 k
    obtain ⟨e1, e2, _⟩ := recover_db_of_dbinv W _ hg head hh hc r hr
    obtain ⟨a, b⟩ := consistent_applyAll_data W head [Wr.headHdr head] _ (by intro w hw; simp at hw; subst hw; simp [DataWrite]) hc
    unfold NodeInv
    rw [e1, e2]
    exact ⟨a, b.trans hh⟩

theorem reach_pv (W : World) (hg : (W.blk genesisId).num = 0) (hinj : RootsInjective W) : ∀ nd, Reach W nd → PV W nd := by
  intro nd h
  induction h with
  | genesis => exact ⟨genesis_consistent' W hg, trusted_genesis W hinj⟩
  | insert nd chain _ ih => exact (insertChain_good W _ _ (stepOK_valid W hinj) nd chain ih).1
  | restart nd k chain r hreach hr ih =>
    obtain ⟨⟨head, hh, hc⟩, hk⟩ := (insertChain_good W _ _ (stepOK_valid W hinj) nd chain ih).2.2 k
    obtain ⟨e1, e2, _⟩ := recover_db_of_dbinv W _ hg head hh hc r hr
    refine ⟨reach_nodeInv W hg _ (Reach.restart nd k chain r hreach hr), ?_⟩
    rw [e2]
    exact trusted_of_st_eq W _ _ (by simp [DB.applyAll, DB.apply]) hk

/-- with trusted states, the whole canonical chain below an available head state is validated and state-available -/
theorem validChain_of_trusted (W : World) (db : DB) (head : Nat) (hg : (W.blk genesisId).num = 0)
    (hi : IndexOK W db head) (hk : TrustedStates W db) (hs : db.st (W.blk head).root = true) :
    ∀ (d n h : Nat), n + d = (W.blk head).num → db.canon n = some h →
      db.st (W.blk h).root = true ∧ (0 < n → VB W h ∧ (W.blk h).num = (W.blk (W.blk h).parent).num + 1) := by
  have hlink : ∀ n h, n ≤ (W.blk head).num → db.canon n = some h → (W.blk h).num = n ∧
      (0 < n → db.canon (n - 1) = some (W.blk h).parent ∧ (W.blk (W.blk h).parent).num = n - 1) := by
    intro n h hn hc
    obtain ⟨x, x1, _, x3, x4⟩ := hi.chain n hn
    have : x = h := by rw [hc] at x1; exact (Option.some.inj x1).symm
    subst this
    refine ⟨x3, fun hpos => ⟨x4 hpos, ?_⟩⟩
    obtain ⟨y, y1, _, y3, _⟩ := hi.chain (n - 1) (by omega)
    have : y = (W.blk x).parent := by rw [x4 hpos] at y1; exact (Option.some.inj y1).symm
    rw [← this]; exact y3
  have hval : ∀ n h, n ≤ (W.blk head).num → db.canon n = some h → db.st (W.blk h).root = true → 0 < n →
      VB W h ∧ (W.blk h).num = (W.blk (W.blk h).parent).num + 1 := by
    intro n h hn hc hst hpos
    obtain ⟨l1, l2⟩ := hlink n h hn hc
    have hne : h ≠ genesisId := by intro e; rw [e, hg] at l1; omega
    refine ⟨(hk h hne hst).1, ?_⟩
    have := (l2 hpos).2; omega
  intro d
  induction d with
  | zero =>
    intro n h hn hc
    have : h = head := by
      have := hi.canonHead; rw [← (show n = (W.blk head).num by omega), hc] at this; exact Option.some.inj this
    subst this
    exact ⟨hs, hval n h (by omega) hc hs⟩
  | succ d ih =>
    intro n h hn hc
    obtain ⟨x, x1, _, _, _⟩ := hi.chain (n + 1) (by omega)
    obtain ⟨i1, i2⟩ := ih (n + 1) x (by omega) x1
    obtain ⟨l1, l2⟩ := hlink (n + 1) x (by omega) x1
    have hne : x ≠ genesisId := by intro e; rw [e, hg] at l1; omega
    have hpst := (hk x hne i1).2
    have hpar : h = (W.blk x).parent := by
      have := (l2 (by omega)).1; simp only [Nat.add_sub_cancel] at this; rw [hc] at this; exact Option.some.inj this
    rw [hpar]
    refine ⟨hpst, ?_⟩
    rw [← hpar]
    exact hval n h (by omega) hc (by rw [hpar]; exact hpst)

end YouVerif.C11
